(* C02 DataMatrix handlers: model (dm, dmc, dmtext, dmpad, dmecc, dmplace, dmsize,
   dmrender, dmnsizes) and the extracted SPEC reader/validator (dmdec) *)
open Model
open Conv

let dm_int_list (l : z list) =
  if l = [] then "-" else String.concat "," (List.map (fun z -> string_of_int (int_of_z z)) l)

let dm_show_zs = function
  | Ok l -> hex_of_zlist l
  | Err -> "ERR" | Panic -> "PANIC" | OutOfFuel -> "OUTOFFUEL"

let () = register "dm" (fun args ->
  match args with
  | [content] -> show_outcome show_barcode (dm_encode (zlist_of_hex content))
  | _ -> "BAD")

(* the module pattern does not depend on the colour scheme *)
let () = register "dmc" (fun args ->
  match args with
  | [_; content] -> show_outcome show_barcode (dm_encode (zlist_of_hex content))
  | _ -> "BAD")

let () = register "dmtext" (fun args ->
  match args with
  | [content] -> hex_of_zlist (encode_text (zlist_of_hex content))
  | _ -> "BAD")

let () = register "dmpad" (fun args ->
  match args with
  | [n; cws] -> hex_of_zlist (add_padding (zlist_of_hex cws) (z_of_string n))
  | _ -> "BAD")

let () = register "dmecc" (fun args ->
  match args with
  | [i; data] -> dm_show_zs (calc_ecc_idx (z_of_string i) (zlist_of_hex data))
  | _ -> "BAD")

let () = register "dmplace" (fun args ->
  match args with
  | [i] -> (match placement_probe (z_of_string i) with
            | Ok l -> dm_int_list l
            | Err -> "ERR" | Panic -> "PANIC" | OutOfFuel -> "OUTOFFUEL")
  | _ -> "BAD")

let () = register "dmsize" (fun args ->
  match args with
  | [i] ->
    let i = int_of_string i in
    (match List.nth_opt dm_code_sizes i, size_derived (z_of_int i) with
     | Some (((((r, c), h), v), e), b), Ok (d, pb) ->
       dm_int_list [r; c; h; v; e; b] ^ " " ^ dm_int_list d ^ " " ^ dm_int_list pb
     | _, Panic -> "PANIC"
     | _, _ -> "BAD")
  | _ -> "BAD")

let () = register "dmrender" (fun args ->
  match args with
  | [i; cws] -> show_outcome show_barcode (render_idx (z_of_string i) (zlist_of_hex cws))
  | _ -> "BAD")

let () = register "dmnsizes" (fun _ -> string_of_int (List.length dm_code_sizes))

(* dmdec <rows of 0/1 joined by /> <hex content>: the reference reader and validator of
   spec/DataMatrixSpec.v on the pixels, and the symbol the specification expects for the content.
   output: NOSYMBOL | <valid T|F> <decoded hex | NONE> <size> <data cw> <ecc cw> <blocks> <expected size | NONE> *)
let dm_expected content =
  match dm_smallest (dm_ascii_len content) with
  | Some e -> string_of_int (int_of_z e.iso_size)
  | None -> "NONE"

let () = register "dmdec" (fun args ->
  match args with
  | [px; content] ->
    let rows = List.map bools_of_string (split_on '/' px) in
    (match dm_symbol_entry rows with
     | None -> "NOSYMBOL"
     | Some e ->
       Printf.sprintf "%s %s %d %d %d %d %s"
         (if dm_valid rows then "T" else "F")
         (match dm_decode rows with Some l -> hex_of_zlist l | None -> "NONE")
         (int_of_z e.iso_size) (int_of_z e.iso_data) (int_of_z e.iso_ecc) (int_of_z e.iso_blocks)
         (dm_expected (zlist_of_hex content)))
  | _ -> "BAD")

(* dmexp <hex content>: what the specification says about a content:
   <ASCII encodation length> <representable T|F> <expected size | NONE> *)
let () = register "dmexp" (fun args ->
  match args with
  | [content] ->
    let c = zlist_of_hex content in
    Printf.sprintf "%d %s %s" (int_of_z (dm_ascii_len c))
      (if dm_representable c then "T" else "F") (dm_expected c)
  | _ -> "BAD")

(* dmcw <rows>: the codewords the reference reader extracts (for dmrender) *)
let () = register "dmcw" (fun args ->
  match args with
  | [px] ->
    let rows = List.map bools_of_string (split_on '/' px) in
    (match dm_codewords rows with Some l -> hex_of_zlist l | None -> "NOSYMBOL")
  | _ -> "BAD")
