(* QR handlers: model side (tags of go/impl/qr.go) and specification oracle (qrdec) *)
open Model
open Conv

let zi = z_of_int
let iz = int_of_z

let rows_string (rows : bool list list) = String.concat "/" (List.map bits_string rows)

let rows_of_string s : bool list list =
  List.map bools_of_string (split_on '/' s)

(* large candidates are printed as their MD5 (the check hashes the implementation's rows) *)
let compact r = if String.length r > 4000 then "md5:" ^ Digest.to_hex (Digest.string r) else r

(* all 8 candidates of render in one line: "<header of describe> <rows0>|<rows1>|...|<rows7>";
   the check accepts the implementation's line if it is the header plus one of the candidates *)
let show_all (bcs : barcode list) =
  match bcs with
  | [] -> "NOCANDIDATES"
  | bc :: _ ->
    let full = show_barcode bc in
    let cut = String.rindex full ' ' in
    String.sub full 0 cut ^ " " ^
    String.concat "|" (List.map (fun (b : barcode) -> compact (rows_string b.bc_rows)) bcs)

let () = register "qr" (fun args ->
  match args with
  | [level; mode; content] ->
    show_outcome show_all (qr_encode_all (zlist_of_hex content) (z_of_string level) (z_of_string mode))
  | _ -> "BAD")

let () = register "qrc" (fun args ->
  match args with
  | [scheme; level; mode; content] ->
    (match qr_encode_all (zlist_of_hex content) (z_of_string level) (z_of_string mode) with
     | Ok bcs -> show_all bcs ^ " scheme=" ^ scheme
     | o -> show_outcome show_all o)
  | _ -> "BAD")

(* one fixed mask: the model's theorem-level entry point (used by the kernel sample and replays) *)
let () = register "qrm" (fun args ->
  match args with
  | [mask; level; mode; content] ->
    show_outcome show_barcode
      (qr_encode (zlist_of_hex content) (z_of_string level) (z_of_string mode) (z_of_string mask))
  | _ -> "BAD")

let () = register "qrbits" (fun args ->
  match args with
  | [level; mode; content] ->
    show_outcome (fun (bits, vi) ->
        Printf.sprintf "OK %d %d %s" (iz vi.vi_version) (iz vi.vi_level) (bits_string bits))
      (encode_bits (zlist_of_hex content) (z_of_string level) (z_of_string mode))
  | _ -> "BAD")

let () = register "qrfun" (fun args ->
  match args with
  | [version] ->
    show_outcome (fun (occ, res) -> rows_string (rows_of occ) ^ " " ^ rows_string (rows_of res))
      (base_matrix (z_of_string version))
  | _ -> "BAD")

let () = register "qrfmt" (fun args ->
  match args with
  | [version; level; mask] ->
    let v = z_of_string version in
    (match base_matrix v with
     | Ok (_, res) ->
       show_outcome (fun m -> rows_string (rows_of m))
         (draw_format_info (modul_width v) (format_lookup (z_of_string level) (z_of_string mask)) res)
     | Err -> "ERR" | Panic -> "PANIC" | OutOfFuel -> "OUTOFFUEL")
  | _ -> "BAD")

let () = register "qrorder" (fun args ->
  match args with
  | [version] ->
    (match base_matrix (z_of_string version) with
     | Ok (occ, _) ->
       show_outcome (fun pts ->
           String.concat ";" (List.map (fun (x, y) -> Printf.sprintf "%d,%d" (iz x) (iz y)) pts))
         (iterate_modules occ)
     | Err -> "ERR" | Panic -> "PANIC" | OutOfFuel -> "OUTOFFUEL")
  | _ -> "BAD")

let () = register "qrmask" (fun args ->
  match args with
  | [mask; n] ->
    let m = z_of_string mask and n = int_of_string n in
    let zs = Array.init n zi in
    let grid v =
      String.concat "/" (List.init n (fun y ->
        String.init n (fun x -> if (v <> mask_bit m zs.(x) zs.(y)) then '1' else '0'))) in
    grid false ^ " " ^ grid true
  | _ -> "BAD")

let () = register "qrblocks" (fun args ->
  match args with
  | [version; level; data] ->
    let v = z_of_string version and l = z_of_string level in
    (match List.find_opt (fun vi -> vi.vi_version = v && vi.vi_level = l) version_infos with
     | None -> "NOROW"
     | Some vi ->
       (match split_to_blocks (zlist_of_hex data) vi with
        | Ok bl ->
          (match interleave bl vi with
           | Ok il ->
             hex_of_zlist il ^ " " ^
             String.concat "," (List.map (fun (d, e) -> hex_of_zlist d ^ ":" ^ hex_of_zlist e) bl)
           | Err -> "ERR" | Panic -> "PANIC" | OutOfFuel -> "OUTOFFUEL")
        | Err -> "ERR" | Panic -> "PANIC" | OutOfFuel -> "OUTOFFUEL"))
  | _ -> "BAD")

let () = register "qrecc" (fun args ->
  match args with
  | [n; data] -> show_outcome hex_of_zlist (calc_ecc (zlist_of_hex data) (z_of_string n))
  | _ -> "BAD")

let () = register "qralign" (fun args ->
  match args with
  | [version] ->
    show_outcome (fun l -> "[" ^ String.concat "," (List.map (fun z -> string_of_int (iz z)) l) ^ "]")
      (alignment_placements (z_of_string version))
  | _ -> "BAD")

let () = register "qrccb" (fun args ->
  match args with
  | [version; mode] -> string_of_int (iz (char_count_bits (z_of_string version) (z_of_string mode)))
  | _ -> "BAD")

let () = register "qrtdb" (fun args ->
  match args with
  | [version; level] ->
    let v = z_of_string version and l = z_of_string level in
    (match List.find_opt (fun vi -> vi.vi_version = v && vi.vi_level = l) version_infos with
     | None -> "-1"
     | Some vi -> string_of_int (iz (total_data_bytes vi)))
  | _ -> "BAD")

let () = register "qrrender" (fun args ->
  match args with
  | [version; level; data] ->
    let v = z_of_string version and l = z_of_string level in
    (match List.find_opt (fun vi -> vi.vi_version = v && vi.vi_level = l) version_infos with
     | None -> "NOROW"
     | Some vi ->
       let d = zlist_of_hex data in
       let one mask = match render d vi (zi mask) with
         | Ok m -> compact (rows_string (rows_of m))
         | Err -> "ERR" | Panic -> "PANIC" | OutOfFuel -> "OUTOFFUEL" in
       String.concat "|" (List.init 8 one))
  | _ -> "BAD")

(* ---- specification oracle: the reference reader applied to a module matrix ---- *)
let level_name = function LvL -> "L" | LvM -> "M" | LvQ -> "Q" | LvH -> "H"

(* smallest version the specification allows for (level, mode, content): C13 *)
let min_version level mode content =
  match level_of_Z (z_of_string level) with
  | None -> "-"
  | Some l ->
    let c = zlist_of_hex content in
    let m = spec_mode_used (z_of_string mode) c in
    (match spec_min_version m l (zi (List.length c)) with
     | Some v -> string_of_int (iz v)
     | None -> "-")

(* qrdec <rows> [<level> <mode> <content hex>] *)
let () = register "qrdec" (fun args ->
  match args with
  | rows :: rest ->
    let rows = rows_of_string rows in
    let extra = (match rest with
      | [level; mode; content] -> " minv=" ^ min_version level mode content
      | _ -> "") in
    (match qr_read_rows rows with
     | None -> "NONE"
     | Some r ->
       Printf.sprintf "OK v=%d l=%s m=%d valid=%d pad=%d rem=%d blocks=%d ecc=%s%s %s"
         (iz r.rd_version) (level_name r.rd_level) (iz r.rd_mask)
         (if qr_valid_rows rows then 1 else 0)
         (if r.rd_padding_ok then 1 else 0) (if r.rd_remainder_ok then 1 else 0)
         (List.length r.rd_blocks)
         (String.concat "," (List.sort_uniq compare
            (List.map (fun (_, e) -> string_of_int (List.length e)) r.rd_blocks)))
         extra
         (hex_of_zlist r.rd_content))
  | _ -> "BAD")

(* qrrep <level> <mode> <content hex> : representable according to the specification (C10) *)
let () = register "qrrep" (fun args ->
  match args with
  | [level; mode; content] ->
    if qr_representable (zlist_of_hex content) (z_of_string level) (z_of_string mode) then "1" else "0"
  | _ -> "BAD")

(* format information of a function-module matrix, read by the specification's reader *)
let () = register "qrfmtdec" (fun args ->
  match args with
  | [rows] ->
    let rows = rows_of_string rows in
    (match read_format (px_of_rows rows) (zi (List.length rows)) with
     | Some (l, m) -> Printf.sprintf "OK %s %d" (level_name l) (iz m)
     | None -> "NONE")
  | _ -> "BAD")

(* function modules of a version against the ISO rules: occupancy = is_function, fixed
   patterns in place, version information valid *)
let () = register "qrfundec" (fun args ->
  match args with
  | [version; occ; vals] ->
    let v = z_of_string version in
    let occ = Array.of_list (List.map (fun r -> Array.of_list r) (rows_of_string occ)) in
    let vals = rows_of_string vals in
    let n = Array.length occ in
    if n <> iz (spec_size v) then "BAD size" else begin
      let zs = Array.init n zi in
      let bad = ref 0 in
      for y = 0 to n - 1 do for x = 0 to n - 1 do
        if occ.(y).(x) <> is_function v zs.(x) zs.(y) then incr bad
      done done;
      if !bad > 0 then Printf.sprintf "BAD occupancy differs from the ISO function-module map in %d cells" !bad
      else if not (patterns_ok (px_of_rows vals) v) then "BAD fixed patterns"
      else if not (version_info_ok (px_of_rows vals) v (spec_size v)) then "BAD version information"
      else "OK"
    end
  | _ -> "BAD")

(* placement order of a version according to the specification (column-pair formulation) *)
let () = register "qrorderspec" (fun args ->
  match args with
  | [version] ->
    String.concat ";" (List.map (fun (x, y) -> Printf.sprintf "%d,%d" (iz x) (iz y))
                         (spec_order (z_of_string version)))
  | _ -> "BAD")

(* mask predicates of Table 10 *)
let () = register "qrmaskspec" (fun args ->
  match args with
  | [mask; n] ->
    let m = z_of_string mask and n = int_of_string n in
    let zs = Array.init n zi in
    let grid v =
      String.concat "/" (List.init n (fun y ->
        String.init n (fun x -> if (v <> spec_mask m zs.(x) zs.(y)) then '1' else '0'))) in
    grid false ^ " " ^ grid true
  | _ -> "BAD")

(* Annex E alignment centres, Table 3 count widths, Table 9 data codewords *)
let () = register "qralignspec" (fun args ->
  match args with
  | [version] ->
    "[" ^ String.concat "," (List.map (fun z -> string_of_int (iz z)) (alignment_centres (z_of_string version))) ^ "]"
  | _ -> "BAD")

let smode_of_ind = function "1" -> Some SNumeric | "2" -> Some SAlnum | "4" -> Some SByte | _ -> None
let qlevel_of = function "0" -> Some LvL | "1" -> Some LvM | "2" -> Some LvQ | "3" -> Some LvH | _ -> None

let () = register "qrccbspec" (fun args ->
  match args with
  | [version; mode] ->
    (match smode_of_ind mode with
     | Some m -> string_of_int (iz (spec_ccb m (z_of_string version)))
     | None -> "-")
  | _ -> "BAD")

let () = register "qrtdbspec" (fun args ->
  match args with
  | [version; level] ->
    (match qlevel_of level with
     | Some l -> string_of_int (iz (spec_data_codewords (z_of_string version) l))
     | None -> "-1")
  | _ -> "BAD")

(* capacity in characters according to the specification *)
let () = register "qrcap" (fun args ->
  match args with
  | [mode; level; version] ->
    let m = (match mode with "1" -> SNumeric | "2" -> SAlnum | _ -> SByte) in
    let l = (match level with "0" -> LvL | "1" -> LvM | "2" -> LvQ | _ -> LvH) in
    string_of_int (iz (spec_capacity m l (z_of_string version)))
  | _ -> "BAD")

(* ---- mask selection (informational: the property leaves the mask free) ---- *)
(* qrauto <level> <mode> <content hex> : the model of Encode including render's penalty-based
   choice; same line format as the implementation's `qr` output *)
let () = register "qrauto" (fun args ->
  match args with
  | [level; mode; content] ->
    show_outcome show_barcode (qr_encode_auto (zlist_of_hex content) (z_of_string level) (z_of_string mode))
  | _ -> "BAD")

(* qrpen <rows> : the four penalty rule values and their sum for a square matrix *)
let () = register "qrpen" (fun args ->
  match args with
  | [rows] ->
    let rows = rows_of_string rows in
    let n = List.length rows in
    if List.exists (fun r -> List.length r <> n) rows then "BADSHAPE" else begin
      let (((r1, r2), r3), r4) = penalty_rules rows in
      Printf.sprintf "%d %d %d %d %d" (iz r1) (iz r2) (iz r3) (iz r4) (iz (penalty_rows rows))
    end
  | _ -> "BAD")

(* qrpens <level> <mode> <content hex> : the penalties of the eight mask candidates (to find contents whose two
   best masks TIE: there the selection must still be deterministic - first lowest index) *)
let () = register "qrpens" (fun args ->
  match args with
  | [level; mode; content] ->
    (match qr_render_all (zlist_of_hex content) (z_of_string level) (z_of_string mode) with
     | Ok ms -> String.concat " " (List.map (fun m -> string_of_int (iz (calc_penalty m))) ms)
     | Err -> "ERR" | Panic -> "PANIC" | OutOfFuel -> "OUTOFFUEL")
  | _ -> "BAD")
