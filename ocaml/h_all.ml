(* all encoder models behind one tag: accessors only (kind, dims, bounds, content, checksum) *)
open Model
open Conv

let b s = s = "1"

let encode_any (a : string list) : barcode outcome =
  match a with
  | ["ean"; h] -> ean_encode (zlist_of_hex h)
  | ["codabar"; h] -> codabar_encode (zlist_of_hex h)
  | ["c128"; h] -> c128_encode (zlist_of_hex h)
  | ["c128n"; h] -> c128_encode_nocs (zlist_of_hex h)
  | ["c39"; cs; full; h] -> c39_encode (zlist_of_hex h) (b cs) (b full)
  | ["c93"; cs; full; h] -> c93_encode (zlist_of_hex h) (b cs) (b full)
  | ["tof"; il; h] -> tof_encode (zlist_of_hex h) (b il)
  | ["qr"; level; mode; h] ->
    (* accessors do not depend on the mask: any mask will do *)
    qr_encode (zlist_of_hex h) (z_of_string level) (z_of_string mode) (z_of_int 0)
  | ["dm"; h] -> dm_encode (zlist_of_hex h)
  | _ -> All_extra.encode_extra a

let acc_of (bc : barcode) =
  let d = show_barcode bc in
  String.sub d 0 (String.rindex d ' ')

let () = register "acc" (fun a ->
  match a with
  | ["pdf"; level; h] -> All_extra.acc_pdf level h
  | _ -> show_outcome acc_of (encode_any a))

(* specification side of C10: is this input representable in the symbology? (predicates written
   from the standards, independent of the encoder models) *)
let repr_any (a : string list) : bool =
  match a with
  | ["ean"; h] -> ean_representable (zlist_of_hex h)
  | ["codabar"; h] -> codabar_representable (zlist_of_hex h)
  | ["c128"; h] | ["c128n"; h] ->
    let r = utf8_decode (zlist_of_hex h) in
    let n = List.length r in
    n >= 1 && n <= 80 && List.for_all c128_in_alphabet r
  | ["c39"; _; full; h] -> c39_accepts (b full) (zlist_of_hex h)
  | ["c93"; _; full; h] -> c93_accepts (b full) (zlist_of_hex h)
  | ["tof"; il; h] -> tof_representable (b il) (zlist_of_hex h)
  | ["qr"; level; mode; h] -> qr_representable (zlist_of_hex h) (z_of_string level) (z_of_string mode)
  | ["dm"; h] -> dm_representable (zlist_of_hex h)
  | _ -> All_extra.repr_extra a

let () = register "repr" (fun a -> if repr_any a then "REPRESENTABLE" else "NOT-REPRESENTABLE")


(* specification side of Content(): the text that was encoded; EAN completed by its check digit;
   Code 39 / Code 93 full-ASCII: a standard spelling that reads back as the text *)
let () = register "contentspec" (fun a ->
  let n = List.length a in
  let content = zlist_of_hex (List.nth a (n - 1)) in
  let args = List.filteri (fun i _ -> i < n - 1) a in
  let same x y = List.map int_of_z x = List.map int_of_z y in
  let ok = match args with
    | ["ean"; h] -> same content (chars_of (ean_full_number (zlist_of_hex h)))
    | ["c39"; _; full; h] ->
      if b full then same content (c39_spell (zlist_of_hex h)) else same content (zlist_of_hex h)
    | ["c93"; _; full; h] ->
      if b full then
        (match c93_text_values content with
         | Some vals -> (match c93_unspell vals with Some s -> same s (zlist_of_hex h) | None -> false)
         | None -> false)
      else same content (zlist_of_hex h)
    | _ -> same content (zlist_of_hex (List.nth args (List.length args - 1))) in
  if ok then "OK" else "BAD")
