(* C09 handlers: the extracted model of scaledbarcode.go (ScaleM) and the extracted
   executable parts of its specification (ScaleSpec), same line protocol as
   go/impl/scale.go (read the comment at the head of that file).

   Design: the model side has NO encoder.  A case line carries, after "|", the
   description of the source symbol (its observables and all pixels) exactly as
   printed by the implementation's `scsrc` handler; lib/c09.py obtains it by
   running the implementation first.  The model rebuilds a `source` record from
   that description (colours are the protocol's pixel characters) and applies the
   extracted scale_stages; every pixel of every stage is printed.  The
   implementation prints its own description of the source it built, so the
   first part of the result line also checks that both sides talk about the same
   source.

   Tags:  sc / scat        model (ScaleM.scale_stages)
          scspec / scatspec  specification oracle on the IMPLEMENTATION's output:
                           ScaleSpec.validate (proved sound for scale_spec) per stage;
                           for huge images header validation + sampled pixels
                           against the composed geometry chain_geom/chain_fills
                           (theorem C09_chain_is_one_enlargement).                 *)
open Model
open Conv

(* a malformed line must not kill the driver process *)
let sc_register tag f =
  register tag (fun args ->
    try f args with
    | Failure m -> "EXN " ^ m
    | Scanf.Scan_failure m -> "EXN scan " ^ m
    | End_of_file | Not_found -> "EXN parse"
    | Invalid_argument m -> "EXN " ^ m)

let sc_cm_of_name = function "gray16" -> 1 | "gray" -> 2 | "rgba" -> 3 | _ -> 0
let sc_name_of_cm = function 1 -> "gray16" | 2 -> "gray" | 3 -> "rgba" | _ -> "other"

let sc_string_of_zlist l =
  let b = Buffer.create 16 in
  List.iter (fun z -> Buffer.add_char b (Char.chr (int_of_z z land 255))) l; Buffer.contents b
let sc_zlist_of_string s = List.init (String.length s) (fun i -> z_of_int (Char.code s.[i]))

(* ---- source description <-> record ---- *)
(* tokens: kind dims x0,y0-x1xy1 content cs cm scheme white [rows] *)
let sc_parse_header toks =
  match toks with
  | kind :: dims :: bounds :: content :: cs :: cm :: scheme :: white :: rest ->
    let (x0, y0, x1, y1) = Scanf.sscanf bounds "%d,%d-%dx%d" (fun a b c d -> (a, b, c, d)) in
    let mk px =
      { s_dims = z_of_string dims; s_kind = sc_zlist_of_string kind;
        s_content = zlist_of_hex content; s_cmodel = z_of_int (sc_cm_of_name cm);
        s_x0 = z_of_int x0; s_y0 = z_of_int y0; s_x1 = z_of_int x1; s_y1 = z_of_int y1;
        s_px = px;
        s_scheme = (if scheme = "-" then None else Some (scheme.[0], scheme.[1]));
        s_checksum = (if cs = "-" then None else Some (z_of_string cs)) } in
    (mk, (x0, y0, x1, y1), white.[0], rest)
  | _ -> failwith "bad source description"

let sc_parse_desc toks =
  let (mk, (x0, y0, _, _), white, rest) = sc_parse_header toks in
  match rest with
  | rows :: rest' ->
    let rows = if rows = "-" then [||] else Array.of_list (split_on '/' rows) in
    let px x y =
      let xi = int_of_z x - x0 and yi = int_of_z y - y0 in
      if yi < 0 || yi >= Array.length rows then 'o'
      else if xi < 0 || xi >= String.length rows.(yi) then 'o'
      else rows.(yi).[xi] in
    (mk px, white, rest')
  | [] -> failwith "missing rows"

let sc_header white (t : char source) =
  Printf.sprintf "%s %d %d,%d-%dx%d %s %s %s %s %c"
    (sc_string_of_zlist t.s_kind) (int_of_z t.s_dims)
    (int_of_z t.s_x0) (int_of_z t.s_y0) (int_of_z t.s_x1) (int_of_z t.s_y1)
    (hex_of_zlist t.s_content)
    (match t.s_checksum with Some z -> string_of_int (int_of_z z) | None -> "-")
    (sc_name_of_cm (int_of_z t.s_cmodel))
    (match t.s_scheme with Some (fg, bg) -> Printf.sprintf "%c%c" fg bg | None -> "-")
    white

let sc_rows (t : char source) =
  let x0 = int_of_z t.s_x0 and x1 = int_of_z t.s_x1 in
  let y0 = int_of_z t.s_y0 and y1 = int_of_z t.s_y1 in
  let w = max 0 (x1 - x0) and h = max 0 (y1 - y0) in
  if w = 0 || h = 0 then "-" else begin
    let zx = Array.init w (fun i -> z_of_int (x0 + i)) in
    let b = Buffer.create ((w + 1) * h) in
    for j = 0 to h - 1 do
      if j > 0 then Buffer.add_char b '/';
      let zy = z_of_int (y0 + j) in
      for i = 0 to w - 1 do Buffer.add_char b (t.s_px zx.(i) zy) done
    done;
    Buffer.contents b
  end

let sc_desc white t = sc_header white t ^ " " ^ sc_rows t

(* ---- requests ---- *)
let sc_parse_step white step : char request =
  match split_on ':' step with
  | [wh; f] ->
    let (w, h) = Scanf.sscanf wh "%dx%d" (fun a b -> (a, b)) in
    let fill = match f with
      | "d" -> None
      | "w" -> Some white
      | "a" | "b" | "c" | "0" | "1" -> Some f.[0]
      | _ -> failwith "bad fill" in
    ((z_of_int w, z_of_int h), fill)
  | _ -> failwith "bad step"

(* split a token list at the first occurrence of sep *)
let rec sc_split_at sep = function
  | [] -> ([], [])
  | x :: t when x = sep -> ([], t)
  | x :: t -> let (a, b) = sc_split_at sep t in (x :: a, b)

let rec sc_split_all sep l =
  match sc_split_at sep l with
  | (a, []) -> [a]
  | (a, b) -> a :: sc_split_all sep b

let sc_show_status = function
  | Ok _ -> "OK" | Err -> "ERR" | Panic -> "PANIC" | OutOfFuel -> "OUTOFFUEL"

(* ---- model: sc ---- *)
let () = sc_register "sc" (fun args ->
  match args with
  | _spec :: rest ->
    let (steps, desc) = sc_split_at "|" rest in
    let (src, white, _) = sc_parse_desc desc in
    let reqs = List.map (sc_parse_step white) steps in
    let stages = scale_stages white src reqs in
    let show = function
      | Ok t -> "OK " ^ sc_desc white t
      | o -> sc_show_status o in
    sc_desc white src ^ " => " ^ String.concat " ; " (List.map show stages)
  | [] -> "BAD")

let sc_parse_coord c = Scanf.sscanf c "%d,%d" (fun a b -> (a, b))

(* ---- model: scat (huge images, sampled pixels) ---- *)
let () = sc_register "scat" (fun args ->
  match args with
  | _spec :: rest ->
    let (front, desc) = sc_split_at "|" rest in
    let (steps, coords) = sc_split_at "@" front in
    let coords = List.map sc_parse_coord coords in
    let (src, white, _) = sc_parse_desc desc in
    let reqs = List.map (sc_parse_step white) steps in
    let stages = scale_stages white src reqs in
    let show = function
      | Ok t ->
        let sm = String.concat "" (List.map (fun (x, y) ->
          String.make 1 (t.s_px (z_of_int x) (z_of_int y))) coords) in
        "OK " ^ sc_header white t ^ " " ^ (if sm = "" then "-" else sm)
      | o -> sc_show_status o in
    sc_desc white src ^ " => " ^ String.concat " ; " (List.map show stages)
  | [] -> "BAD")

(* ---- specification oracle ---- *)
(* untrusted candidates for the witnesses (f, ox, oy) of scale_spec; the extracted
   validator decides *)
let sc_witnesses (s : char source) w h =
  let sw = int_of_z (sym_w s) and sh = int_of_z (sym_h s) in
  let two_d = int_of_z s.s_dims = 2 in
  let f = if sw <= 0 || sh <= 0 then 0
          else if two_d then min (w / sw) (h / sh) else w / sw in
  let cands total used = let d = total - used in if d < 0 then [0] else
      if d land 1 = 0 then [d / 2] else [d / 2; d / 2 + 1] in
  let oxs = cands w (f * sw) in
  let oys = if two_d then cands h (f * sh) else [0] in
  List.concat_map (fun ox -> List.map (fun oy -> (f, ox, oy)) oys) oxs

let sc_ceqb (a : char) (b : char) = a = b

type sc_res = RErr | ROk of string list | RBad of string

let sc_classify = function
  | ["ERR"] -> RErr
  | "OK" :: toks -> ROk toks
  | l -> RBad (String.concat " " l)

let () = sc_register "scspec" (fun args ->
  let (steps, rest) = sc_split_at "|" args in
  let (desc, results) = sc_split_at "=>" rest in
  let (src, white, _) = sc_parse_desc desc in
  let reqs = List.map (sc_parse_step white) steps in
  let results = if results = [] then [] else List.map sc_classify (sc_split_all ";" results) in
  let rec go i (s : char source) reqs results =
    match reqs, results with
    | [], [] -> Printf.sprintf "VALID %d" i
    | _, [] -> Printf.sprintf "REJECT stage %d missing" (i + 1)
    | [], _ -> "REJECT more results than steps"
    | ((w, h), fo) :: reqs', r :: results' ->
      let fill = resolve_fill white s fo in
      let wi = int_of_z w and hi = int_of_z h in
      (match r with
       | RBad what -> Printf.sprintf "REJECT stage %d: %s" (i + 1) what
       | RErr ->
         if validate sc_ceqb s w h fill Err Z0 Z0 Z0 then
           (if results' = [] then Printf.sprintf "VALID %d" (i + 1)
            else "REJECT results after an error")
         else Printf.sprintf "REJECT stage %d: error although the request is not too small" (i + 1)
       | ROk toks ->
         let (t, _, _) = sc_parse_desc toks in
         let ok = List.exists (fun (f, ox, oy) ->
           validate sc_ceqb s w h fill (Ok t) (z_of_int f) (z_of_int ox) (z_of_int oy))
           (sc_witnesses s wi hi) in
         if ok then go (i + 1) t reqs' results'
         else Printf.sprintf "REJECT stage %d: result image violates scale_spec" (i + 1))
  in
  go 0 src reqs results)

let rec sc_take n l = if n <= 0 then [] else match l with [] -> [] | x :: t -> x :: sc_take (n - 1) t

let () = sc_register "scatspec" (fun args ->
  let (front, rest) = sc_split_at "|" args in
  let (steps, coords) = sc_split_at "@" front in
  let coords = List.map sc_parse_coord coords in
  let (desc, results) = sc_split_at "=>" rest in
  let (src, white, _) = sc_parse_desc desc in
  let reqs = List.map (sc_parse_step white) steps in
  let results = if results = [] then [] else List.map sc_classify (sc_split_all ";" results) in
  let dummy _ _ = '?' in
  let rec go i (s : char source) reqs results =
    match reqs, results with
    | [], [] -> Printf.sprintf "VALID %d" i
    | _, [] -> Printf.sprintf "REJECT stage %d missing" (i + 1)
    | [], _ -> "REJECT more results than steps"
    | ((w, h), fo) :: reqs', r :: results' ->
      let wi = int_of_z w and hi = int_of_z h in
      (match r with
       | RBad what -> Printf.sprintf "REJECT stage %d: %s" (i + 1) what
       | RErr ->
         if validate_header s w h Err Z0 Z0 Z0 then
           (if results' = [] then Printf.sprintf "VALID %d" (i + 1)
            else "REJECT results after an error")
         else Printf.sprintf "REJECT stage %d: error although the request is not too small" (i + 1)
       | ROk toks ->
         let (mk, _, _, rest) = sc_parse_header toks in
         let samples = match rest with [sm] -> sm | _ -> "" in
         let t = mk dummy in
         let hdr_ok = List.exists (fun (f, ox, oy) ->
           validate_header s w h (Ok t) (z_of_int f) (z_of_int ox) (z_of_int oy))
           (sc_witnesses s wi hi) in
         if not hdr_ok then Printf.sprintf "REJECT stage %d: bounds/accessors/geometry" (i + 1)
         else begin
           (* composed geometry of stages 1..i+1 relative to the ORIGINAL source *)
           let prefix = sc_take (i + 1) (List.map (sc_parse_step white) steps) in
           let ((ff, oxx), oyy) = chain_geom src.s_dims (sym_w src) (sym_h src) prefix in
           let fills = chain_fills white src prefix in
           let bad = ref None in
           List.iteri (fun k (x, y) ->
             if !bad = None && samples <> "-" && k < String.length samples
                && x >= 0 && x < wi && y >= 0 && y < hi then begin
               let e = expected_pixel src '#' ff oxx oyy (z_of_int x) (z_of_int y) in
               let got = samples.[k] in
               let fine = if e = '#' then List.mem got fills else got = e in
               if not fine then bad := Some (x, y)
             end) coords;
           match !bad with
           | Some (x, y) -> Printf.sprintf "REJECT stage %d: pixel %d,%d" (i + 1) x y
           | None -> go (i + 1) t reqs' results'
         end)
  in
  ignore reqs;
  go 0 src reqs results)

(* the implementation panicked / printed no result: scale_spec admits only Ok or Err *)
let () = sc_register "scpanic" (fun _ -> "REJECT the implementation panicked or printed no result")
