(* aztec and pdf417 for the all-encoders handlers *)
open Model
open Conv

let encode_extra (a : string list) : barcode outcome =
  match a with
  | ["az"; pct; layers; h] -> az_encode (zlist_of_hex h) (z_of_string pct) (z_of_string layers)
  | _ -> failwith ("no model for " ^ String.concat " " a)

(* PDF417: the column count is the implementation's choice; the model answers with the result for
   EVERY legal column count (2..30), the check accepts whichever the implementation produced *)
let acc_of (bc : barcode) =
  let d = show_barcode bc in
  String.sub d 0 (String.rindex d ' ')

let acc_pdf level h : string =
  let data = zlist_of_hex h and lv = z_of_string level in
  let res = List.filter_map (fun c ->
      match pdf_encode data lv (z_of_int c) with
      | Ok bc -> Some (acc_of bc) | _ -> None) (List.init 29 (fun i -> i + 2)) in
  match res with
  | [] -> (match pdf_encode data lv (z_of_int 2) with Panic -> "PANIC" | OutOfFuel -> "OUTOFFUEL" | _ -> "ERR")
  | _ -> String.concat " || " (List.sort_uniq compare res)

let repr_extra (a : string list) : bool =
  match a with
  | ["az"; pct; layers; h] -> az_representable_b (zlist_of_hex h) (z_of_string pct) (z_of_string layers)
  | ["pdf"; level; h] -> pdf_representable_b (zlist_of_hex h) (z_of_string level)
  | _ -> failwith ("no spec for " ^ String.concat " " a)
