(* encoders whose models arrive later (aztec, pdf417) plug in here *)
open Model
let encode_extra (a : string list) : barcode outcome = failwith ("no model for " ^ String.concat " " a)
let repr_extra (a : string list) : bool = failwith ("no spec for " ^ String.concat " " a)
