(* aztec and pdf417 for the all-encoders handlers *)
open Model
open Conv

let encode_extra (a : string list) : barcode outcome =
  match a with
  | ["az"; pct; layers; h] -> az_encode (zlist_of_hex h) (z_of_string pct) (z_of_string layers)
  | _ -> failwith ("no model for " ^ String.concat " " a)

let repr_extra (a : string list) : bool =
  match a with
  | ["az"; pct; layers; h] -> az_representable_b (zlist_of_hex h) (z_of_string pct) (z_of_string layers)
  | _ -> failwith ("no spec for " ^ String.concat " " a)
