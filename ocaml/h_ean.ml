(* C06 EAN handlers (model: EanM, specification: EanSpec) *)
open Model
open Conv

let pack_bits (s : string) =
  let n = String.length s in
  let b = Buffer.create (n / 4 + 1) in
  let i = ref 0 in
  while !i < n do
    let v = ref 0 in
    for j = 0 to 3 do
      v := !v lsl 1;
      if !i + j < n && s.[!i + j] = '1' then v := !v lor 1
    done;
    Buffer.add_char b "0123456789abcdef".[!v];
    i := !i + 4
  done;
  Buffer.contents b

let unpack_bits (h : string) (w : int) : bool list =
  List.init w (fun i ->
    let c = h.[i / 4] in
    let v = if c >= 'a' then Char.code c - 87 else Char.code c - 48 in
    (v lsr (3 - i mod 4)) land 1 = 1)

let zlist_of_ascii (s : string) = List.init (String.length s) (fun i -> z_of_int (Char.code s.[i]))
let ascii_of_zlist l = String.concat "" (List.map (fun z -> String.make 1 (Char.chr (int_of_z z land 255))) l)

let ean_record (code : string) =
  match ean_encode (zlist_of_ascii code) with
  | Ok bc ->
    Printf.sprintf "%s,%s,%s,0,0-%dx%d,%s" (kind_name bc.bc_kind) (ascii_of_zlist bc.bc_content)
      (match bc.bc_checksum with Some z -> string_of_int (int_of_z z) | None -> "-")
      (int_of_z bc.bc_width) (int_of_z bc.bc_height)
      (pack_bits (String.concat "/" (List.map bits_string bc.bc_rows)))
  | Err -> "ERR"
  | Panic -> "PANIC"
  | OutOfFuel -> "OUTOFFUEL"

let () = register "ean" (fun args ->
  match args with
  | [content] -> show_outcome show_barcode (ean_encode (zlist_of_hex content))
  | _ -> "BAD")

let sweep f start count =
  String.concat ";" (List.init count (fun k -> f (start + k)))

let () = register "ean7" (fun args ->
  match args with
  | [s; c] -> sweep (fun i -> ean_record (Printf.sprintf "%07d" i)) (int_of_string s) (int_of_string c)
  | _ -> "BAD")

let () = register "ean12" (fun args ->
  match args with
  | [p; s; c] -> sweep (fun i -> ean_record (Printf.sprintf "%s%07d" p i)) (int_of_string s) (int_of_string c)
  | _ -> "BAD")

let () = register "ean8p" (fun args ->
  match args with
  | [s; c] ->
    sweep (fun i ->
      let b = Buffer.create 4 in
      for d = 0 to 9 do
        let code = Printf.sprintf "%07d%d" i d in
        let r = ean_record code in
        if r <> "ERR" then begin
          Buffer.add_char b (Char.chr (48 + d));
          let want = Printf.sprintf "EAN_8,%s,%d,0,0-67x1," code d in
          if not (String.length r >= String.length want && String.sub r 0 (String.length want) = want)
          then Buffer.add_char b 'x'
        end
      done;
      if Buffer.length b = 0 then "-" else Buffer.contents b) (int_of_string s) (int_of_string c)
  | _ -> "BAD")

(* ---- specification oracle ---- *)
(* what the specification says about one implementation result:
   input bytes, implementation result (kind, content, checksum, bounds, bits) *)
let spec_verdict (input : z list) (res : (string * z list * string * string * bool list) option) : string =
  let rep = ean_representable input in
  match res with
  | None -> if rep then "accepts-less: representable input rejected" else "fine"
  | Some (kind, content, cs, bounds, bits) ->
    if not rep then "accepts-more: input is not representable" else
    let full = ean_full_number input in
    let n = List.length full in
    if content <> chars_of full then "content is not the full number" else
    if kind <> (if n = 8 then "EAN_8" else "EAN_13") then "wrong kind" else
    if bounds <> (if n = 8 then "0,0-67x1" else "0,0-95x1") then "wrong bounds" else
    if List.length bits <> (if n = 8 then 67 else 95) then "wrong module count" else
    if not (ean_frame_ok bits) then "guard bars not in place" else
    if ean_decode bits <> Some full then "reference decoder does not read the full number" else
    if cs <> string_of_int (int_of_z (List.nth full (n - 1))) then "CheckSum() is not the last digit" else
    "fine"

(* eanspec <input hex> <implementation describe line tokens...> *)
let () = register "eanspec" (fun args ->
  match args with
  | [input; "ERR"] -> spec_verdict (zlist_of_hex input) None
  | [input; "OK"; kind; dims; bounds; content; cs; rows] ->
    if dims <> "1" then "wrong dimensions" else
    spec_verdict (zlist_of_hex input) (Some (kind, zlist_of_hex content, cs, bounds, bools_of_string rows))
  | _ -> "implementation neither returned a barcode nor an error")

let parse_record (r : string) =
  if r = "ERR" then Some None else
  match split_on ',' r with
  | [kind; content; cs; x0; rest; packed] ->
    let bounds = x0 ^ "," ^ rest in
    let w = (try Scanf.sscanf rest "0-%dx%d" (fun w _ -> w) with _ -> 0) in
    if String.length packed * 4 < w then None else
    Some (Some (kind, zlist_of_ascii content, cs, bounds, unpack_bits packed w))
  | _ -> None

let spec_sweep (mk : int -> string) start (payload : string) =
  let recs = split_on ';' payload in
  let bad = ref [] in
  List.iteri (fun k r ->
    if List.length !bad < 3 then begin
      let code = mk (start + k) in
      let v = match parse_record r with
        | None -> "unparsable result " ^ r
        | Some res -> spec_verdict (zlist_of_ascii code) res in
      if v <> "fine" then bad := (code ^ ": " ^ v) :: !bad
    end) recs;
  if !bad = [] then Printf.sprintf "fine %d" (List.length recs)
  else String.concat " | " (List.rev !bad)

let () = register "ean7spec" (fun args ->
  match args with
  | [s; c; payload] ->
    if List.length (split_on ';' payload) <> int_of_string c then "wrong record count" else
    spec_sweep (Printf.sprintf "%07d") (int_of_string s) payload
  | _ -> "BAD")

let () = register "ean12spec" (fun args ->
  match args with
  | [p; s; c; payload] ->
    if List.length (split_on ';' payload) <> int_of_string c then "wrong record count" else
    spec_sweep (fun i -> Printf.sprintf "%s%07d" p i) (int_of_string s) payload
  | _ -> "BAD")

(* ean8pspec <start> <count> <payload>: exactly the GS1 check digit is accepted *)
let () = register "ean8pspec" (fun args ->
  match args with
  | [s; c; payload] ->
    let start = int_of_string s in
    let recs = split_on ';' payload in
    if List.length recs <> int_of_string c then "wrong record count" else begin
      let bad = ref [] in
      List.iteri (fun k r ->
        if List.length !bad < 3 then begin
          let prefix = Printf.sprintf "%07d" (start + k) in
          let want = string_of_int (int_of_z (gs1_check (digits_of (zlist_of_ascii prefix)))) in
          if r <> want then bad := (Printf.sprintf "%s: accepted last digits '%s', GS1 check digit %s" prefix r want) :: !bad
        end) recs;
      if !bad = [] then Printf.sprintf "fine %d" (List.length recs) else String.concat " | " (List.rev !bad)
    end
  | _ -> "BAD")
