(* C05 Code 128 handlers: model (c128, c128idx, c128c, c128a, c128runes) and
   the extracted SPEC decoder (c128dec) *)
open Model
open Conv

let rune_list (l : z list) =
  if l = [] then "-" else String.concat "," (List.map (fun z -> string_of_int (int_of_z z)) l)

let show_bool_outcome = function
  | Ok true -> "T" | Ok false -> "F" | Err -> "ERR" | Panic -> "PANIC" | OutOfFuel -> "OUTOFFUEL"

let () = register "c128" (fun args ->
  match args with
  | [cs; content] ->
    let c = zlist_of_hex content in
    show_outcome show_barcode (if cs = "1" then c128_encode c else c128_encode_nocs c)
  | _ -> "BAD")

let () = register "c128idx" (fun args ->
  match args with
  | [content] ->
    (match c128_get_code_index_list (c128_str_to_runes (zlist_of_hex content)) with
     | Ok None -> "NIL"
     | Ok (Some l) -> hex_of_zlist l
     | Err -> "ERR" | Panic -> "PANIC" | OutOfFuel -> "OUTOFFUEL")
  | _ -> "BAD")

let () = register "c128c" (fun args ->
  match args with
  | [cur; content] ->
    show_bool_outcome (c128_should_use_c (c128_str_to_runes (zlist_of_hex content)) (z_of_string cur))
  | _ -> "BAD")

let () = register "c128a" (fun args ->
  match args with
  | [cur; content] ->
    show_bool_outcome (c128_should_use_a (c128_str_to_runes (zlist_of_hex content)) (z_of_string cur))
  | _ -> "BAD")

let () = register "c128runes" (fun args ->
  match args with
  | [content] -> rune_list (c128_str_to_runes (zlist_of_hex content))
  | _ -> "BAD")

(* c128dec <check 0|1> <modules as 0/1 string>:
   the reference decoder of spec/Code128Spec.v on a module row.
   output: NONE | <runes> <value of the last character before stop> <mod-103 value of the characters before it> *)
let () = register "c128dec" (fun args ->
  match args with
  | [check; bits] ->
    let b = bools_of_string bits in
    (match c128_spec_decode (check = "1") b with
     | None -> "NONE"
     | Some rs ->
       (match c128_spec_values b with
        | None -> "NONE"
        | Some vals ->
          let rv = List.rev vals in
          (match rv with
           | [] -> "NONE"
           | last :: ri ->
             Printf.sprintf "%s %d %d" (rune_list rs) (int_of_z last)
               (int_of_z (c128_spec_checksum (List.rev ri))))))
  | _ -> "BAD")
