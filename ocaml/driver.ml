(* model side of the correspondence check: same line protocol as go/impl.
   Handlers are registered by the h_*.ml files (linked before this file). *)
open Conv

let () =
  try
    while true do
      let line = input_line stdin in
      if line <> "" then begin
        match split_on ' ' line with
        | tag :: args ->
          (match Hashtbl.find_opt Conv.handlers tag with
           | Some h -> print_endline (try h args with Stack_overflow -> "STACKOVERFLOW")
           | None -> print_endline ("UNKNOWN-TAG " ^ tag))
        | [] -> ()
      end
    done
  with End_of_file -> ()
