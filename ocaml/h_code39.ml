(* C07 Code 39 handlers (model: Code39M, specification: Code39Spec) and the
   UTF-8 model (Utf8M) *)
open Model
open Conv

let show_runes l =
  if l = [] then "-" else String.concat "," (List.map (fun z -> string_of_int (int_of_z z)) l)

let show_text = function
  | Some l -> "SOME " ^ hex_of_zlist l
  | None -> "NONE"

let () = register "c39" (fun args ->
  match args with
  | [cs; full; content] ->
    show_outcome show_barcode (c39_encode (zlist_of_hex content) (cs = "1") (full = "1"))
  | _ -> "BAD")

let () = register "c39ck" (fun args ->
  match args with
  | [content] -> hex_of_zlist (c39_get_checksum (zlist_of_hex content))
  | _ -> "BAD")

let () = register "c39prep" (fun args ->
  match args with
  | [content] -> show_outcome (fun l -> "OK " ^ hex_of_zlist l) (c39_prepare (zlist_of_hex content))
  | _ -> "BAD")

(* specification oracle: the reference decoder applied to a module row *)
let () = register "c39dec" (fun args ->
  match args with
  | [cs; full; bits] -> show_text (c39_decode (cs = "1") (full = "1") (bools_of_string bits))
  | _ -> "BAD")

let () = register "u8d" (fun args ->
  match args with [s] -> show_runes (utf8_decode (zlist_of_hex s)) | _ -> "BAD")
let () = register "u8r" (fun args ->
  match args with [s] -> show_runes (utf8_decode (zlist_of_hex s)) | _ -> "BAD")
let () = register "u8e" (fun args ->
  match args with [r] -> hex_of_zlist (utf8_encode_rune (z_of_string r)) | _ -> "BAD")
