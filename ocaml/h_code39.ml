(* C07 Code 39 handlers (model: Code39M, specification: Code39Spec) and the
   UTF-8 model (Utf8M) *)
open Model
open Conv

let show_runes l =
  if l = [] then "-" else String.concat "," (List.map (fun z -> string_of_int (int_of_z z)) l)

let () = register "c39" (fun args ->
  match args with
  | [cs; full; content] ->
    show_outcome show_barcode (c39_encode (zlist_of_hex content) (cs = "1") (full = "1"))
  | _ -> "BAD")

let () = register "c39ck" (fun args ->
  match args with
  | [content] -> hex_of_zlist (c39_get_checksum (zlist_of_hex content))
  | _ -> "BAD")

let () = register "c39prep" (fun args ->
  match args with
  | [content] -> show_outcome (fun l -> "OK " ^ hex_of_zlist l) (c39_prepare (zlist_of_hex content))
  | _ -> "BAD")

(* specification oracle: the reference decoder applied to a module row:
   SOME <text> <printed data characters = expected Content()> <sum mod 43 = expected CheckSum()> *)
let () = register "c39dec" (fun args ->
  match args with
  | [cs; full; bits] ->
    let b = bools_of_string bits in
    (match c39_decode (cs = "1") (full = "1") b, c39_decode_values (cs = "1") b with
     | Some t, Some vals ->
       Printf.sprintf "SOME %s %s %d" (hex_of_zlist t) (hex_of_zlist (List.map c39_value_char vals))
         (int_of_z (c39_check vals))
     | _ -> "NONE")
  | _ -> "BAD")

let () = register "u8d" (fun args ->
  match args with [s] -> show_runes (utf8_decode (zlist_of_hex s)) | _ -> "BAD")
let () = register "u8r" (fun args ->
  match args with [s] -> show_runes (utf8_decode (zlist_of_hex s)) | _ -> "BAD")
let () = register "u8e" (fun args ->
  match args with [r] -> hex_of_zlist (utf8_encode_rune (z_of_string r)) | _ -> "BAD")
