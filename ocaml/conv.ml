(* glue between OCaml native values and the extracted Coq inductives *)
open Model

let rec pos_of_int n =
  if n = 1 then XH
  else if n land 1 = 0 then XO (pos_of_int (n lsr 1))
  else XI (pos_of_int (n lsr 1))

let z_of_int n =
  if n = 0 then Z0 else if n > 0 then Zpos (pos_of_int n) else Zneg (pos_of_int (-n))

let rec int_of_pos = function
  | XH -> 1
  | XO p -> 2 * int_of_pos p
  | XI p -> 2 * int_of_pos p + 1

let int_of_z = function Z0 -> 0 | Zpos p -> int_of_pos p | Zneg p -> - (int_of_pos p)

let rec nat_of_int n = if n <= 0 then O else S (nat_of_int (n - 1))
let rec int_of_nat = function O -> 0 | S n -> 1 + int_of_nat n

(* decimal string (optionally signed, any size) to Z *)
let z_of_string s =
  let neg = String.length s > 0 && s.[0] = '-' in
  let start = if neg then 1 else 0 in
  let ten = z_of_int 10 in
  let acc = ref Z0 in
  for i = start to String.length s - 1 do
    acc := Z.add (Z.mul !acc ten) (z_of_int (Char.code s.[i] - 48))
  done;
  if neg then Z.opp !acc else !acc

let hex_of_bytes (l : int list) =
  if l = [] then "-" else String.concat "" (List.map (Printf.sprintf "%02x") l)

let bytes_of_hex s : int list =
  if s = "-" then [] else
  List.init (String.length s / 2) (fun i -> int_of_string ("0x" ^ String.sub s (2*i) 2))

let zlist_of_hex s = List.map z_of_int (bytes_of_hex s)
let hex_of_zlist l = hex_of_bytes (List.map int_of_z l)

let split_on c s = String.split_on_char c s

(* ---- handler registry ---- *)
let handlers : (string, string list -> string) Hashtbl.t = Hashtbl.create 64
let register tag h = Hashtbl.replace handlers tag h

(* ---- printing of model results in the canonical format of go/impl describe() ---- *)
let kind_name = function
  | KAztec -> "Aztec" | KCodabar -> "Codabar" | KCode128 -> "Code_128" | KCode39 -> "Code_39"
  | KCode93 -> "Code_93" | KDataMatrix -> "DataMatrix" | KEAN8 -> "EAN_8" | KEAN13 -> "EAN_13"
  | KPDF -> "PDF417" | KQR -> "QR_Code" | K2of5 -> "2_of_5" | K2of5I -> "2_of_5_(interleaved)"

let bits_string (l : bool list) =
  let b = Buffer.create 256 in
  List.iter (fun x -> Buffer.add_char b (if x then '1' else '0')) l; Buffer.contents b

let show_barcode (bc : barcode) =
  Printf.sprintf "OK %s %d 0,0-%dx%d %s %s %s" (kind_name bc.bc_kind) (int_of_z (kind_dims bc.bc_kind))
    (int_of_z bc.bc_width) (int_of_z bc.bc_height) (hex_of_zlist bc.bc_content)
    (match bc.bc_checksum with Some z -> string_of_int (int_of_z z) | None -> "-")
    (String.concat "/" (List.map bits_string bc.bc_rows))

let show_outcome show = function
  | Ok x -> show x
  | Err -> "ERR"
  | Panic -> "PANIC"
  | OutOfFuel -> "OUTOFFUEL"

let bools_of_string s = List.init (String.length s) (fun i -> s.[i] = '1')
