(* C07 Code 93 handlers (model: Code93M, specification: Code93Spec) *)
open Model
open Conv

let () = register "c93" (fun args ->
  match args with
  | [cs; full; content] ->
    show_outcome show_barcode (c93_encode (zlist_of_hex content) (cs = "1") (full = "1"))
  | _ -> "BAD")

let () = register "c93ck" (fun args ->
  match args with
  | [mw; content] -> string_of_int (int_of_z (c93_get_checksum (zlist_of_hex content) (z_of_string mw)))
  | _ -> "BAD")

let () = register "c93prep" (fun args ->
  match args with
  | [content] -> show_outcome (fun l -> "OK " ^ hex_of_zlist l) (c93_prepare (zlist_of_hex content))
  | _ -> "BAD")

(* specification oracle: SOME <text> <text of the data characters = expected Content()> - *)
let () = register "c93dec" (fun args ->
  match args with
  | [cs; full; bits] ->
    let b = bools_of_string bits in
    (match c93_decode (cs = "1") (full = "1") b, c93_decode_values (cs = "1") b with
     | Some t, Some vals -> Printf.sprintf "SOME %s %s -" (hex_of_zlist t) (hex_of_zlist (c93_values_text vals))
     | _ -> "NONE")
  | _ -> "BAD")
