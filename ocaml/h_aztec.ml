(* C03 Aztec handlers: model side (same tags as go/impl/aztec.go) and the
   specification reader used as oracle (azspec) *)
open Model
open Conv

let bits_str l = if l = [] then "-" else bits_string l
let str_bits s = if s = "-" then [] else bools_of_string s
let zi s = z_of_string s

let () = register "az" (fun args ->
  match args with
  | [pct; layers; data] ->
    show_outcome show_barcode (az_encode (zlist_of_hex data) (zi pct) (zi layers))
  | _ -> "BAD")

(* the colour scheme is stored, not interpreted: same modules for every scheme *)
let () = register "azcol" (fun args ->
  match args with
  | [_; pct; layers; data] ->
    show_outcome show_barcode (az_encode (zlist_of_hex data) (zi pct) (zi layers))
  | _ -> "BAD")

let () = register "azhl" (fun args ->
  match args with
  | [data] -> show_outcome bits_str (az_highlevel (zlist_of_hex data))
  | _ -> "BAD")

let () = register "azstuff" (fun args ->
  match args with
  | [w; bits] -> show_outcome bits_str (az_stuff_bits (str_bits bits) (zi w))
  | _ -> "BAD")

let () = register "azmode" (fun args ->
  match args with
  | [c; layers; words] ->
    show_outcome bits_str (az_generate_mode_message (c = "1") (zi layers) (zi words))
  | _ -> "BAD")

let () = register "azcw" (fun args ->
  match args with
  | [w; total; bits] ->
    show_outcome bits_str (az_generate_check_words (str_bits bits) (zi total) (zi w))
  | _ -> "BAD")

let () = register "azcfg" (fun args ->
  match args with
  | [pct; layers; data] ->
    (match az_highlevel (zlist_of_hex data) with
     | Ok bits ->
       show_outcome (fun ((((c, l), _), w), _) ->
         Printf.sprintf "%s %d %d" (if c then "1" else "0") (int_of_z l) (int_of_z w))
         (az_choose_config bits (zi pct) (zi layers))
     | Err -> "ERR" | Panic -> "PANIC" | OutOfFuel -> "OUTOFFUEL")
  | _ -> "BAD")

(* positions of the message bits in index order *)
let () = register "azplace" (fun args ->
  match args with
  | [c; layers] ->
    let compact = (c = "1") in
    let l = zi layers in
    let ts = az_data_triples compact l in
    let total = int_of_z (az_total_bits l compact) in
    let arr = Array.make total "?" in
    List.iter (fun ((idx, x), y) ->
      let i = int_of_z idx in
      if i >= 0 && i < total then
        arr.(i) <- Printf.sprintf "%d,%d" (int_of_z x) (int_of_z y)) ts;
    string_of_int (int_of_z (az_matrix_size compact l)) ^ " " ^
    String.concat " " (Array.to_list arr)
  | _ -> "BAD")

let () = register "aztb" (fun args ->
  match args with
  | [c; layers] -> string_of_int (int_of_z (az_total_bits (zi layers) (c = "1")))
  | _ -> "BAD")

(* ---- oracle: the specification reader applied to an image ---- *)
let rows_of_string s =
  List.map bools_of_string (String.split_on_char '/' s)

let () = register "azspec" (fun args ->
  match args with
  | [rows] ->
    (match aztec_read (rows_of_string rows) with
     | ROk r ->
       Printf.sprintf "VALID %s %d %d %d %s" (if r.ar_compact then "1" else "0")
         (int_of_z r.ar_layers) (int_of_z r.ar_datawords) (int_of_z r.ar_checkwords)
         (hex_of_zlist r.ar_payload)
     | RFail c -> Printf.sprintf "INVALID %d" (int_of_z c))
  | _ -> "BAD")

(* high-level decoder alone *)
let () = register "azspechl" (fun args ->
  match args with
  | [bits] ->
    (match aztec_decode_hl (str_bits bits) with
     | Some l -> "OK " ^ hex_of_zlist l
     | None -> "NONE")
  | _ -> "BAD")

(* un-stuffing alone *)
let () = register "azspecunstuff" (fun args ->
  match args with
  | [w; bits] ->
    (match sp_unstuff (nat_of_int (int_of_string w)) (str_bits bits) with
     | Some l -> "OK " ^ bits_str l
     | None -> "NONE")
  | _ -> "BAD")
