(* C08 2-of-5 handlers (model: TwoOfFiveM, specification: TwoOfFiveSpec);
   linked after h_codabar.ml whose record helpers it uses *)
open Model
open Conv
open H_codabar

let digits_of_bytes (s : z list) = List.map (fun c -> z_of_int (int_of_z c - 48)) s

let tof_verdict (il : bool) (input : z list) (res : impl_result) =
  let rep = tof_representable il input in
  match res with
  | None -> if rep then "accepts-less: representable input rejected" else "fine"
  | Some ((_, _, _, _, bits) as r) ->
    if not rep then "accepts-more: input is not representable" else
    verdict_accepted ~kind:(if il then "2_of_5_(interleaved)" else "2_of_5") ~input
      ~decoded:(tof_decode il bits) ~expect:(digits_of_bytes input) r

(* AddCheckSum result: None = error, Some bytes *)
let tofcs_verdict (input : z list) (res : z list option) =
  let rep = tofcs_representable input in
  match res with
  | None -> if rep then "accepts-less: representable content rejected" else "fine"
  | Some r ->
    if not rep then "accepts-more: content is not a non-empty digit string" else
    let n = List.length input in
    if List.length r <> n + 1 then "result is not content + one character" else
    if List.filteri (fun i _ -> i < n) r <> input then "result does not start with the content" else
    let d = z_of_int (int_of_z (List.nth r n) - 48) in
    if not (tof_check_ok (digits_of_bytes input) d) then "appended digit does not complete the 3-1 weighted sum to a multiple of ten" else
    "fine"

let show_cs = function
  | Ok l -> "OK " ^ hex_of_zlist l
  | Err -> "ERR"
  | Panic -> "PANIC"
  | OutOfFuel -> "OUTOFFUEL"

let dec_string n i = Printf.sprintf "%0*d" n i

let () = register "tof" (fun args ->
  match args with
  | [il; content] -> show_outcome show_barcode (tof_encode (zlist_of_hex content) (il = "1"))
  | _ -> "BAD")

let () = register "tofcs" (fun args ->
  match args with
  | [content] -> show_cs (tof_add_checksum (zlist_of_hex content))
  | _ -> "BAD")

let () = register "tofx" (fun args ->
  match args with
  | [il; n; s; c] ->
    let n = int_of_string n in
    sweep (fun i -> record_of_outcome (tof_encode (zlist_of_ascii (dec_string n i)) (il = "1")))
      (int_of_string s) (int_of_string c)
  | _ -> "BAD")

let () = register "tofcsx" (fun args ->
  match args with
  | [n; s; c] ->
    let n = int_of_string n in
    sweep (fun i ->
      String.map (fun ch -> if ch = ' ' then ',' else ch) (show_cs (tof_add_checksum (zlist_of_ascii (dec_string n i)))))
      (int_of_string s) (int_of_string c)
  | _ -> "BAD")

(* ---- specification oracle ---- *)
let () = register "tofspec" (fun args ->
  match args with
  | il :: input :: toks ->
    (match parse_describe toks with
     | Some res -> tof_verdict (il = "1") (zlist_of_hex input) res
     | None -> "implementation neither returned a barcode nor an error")
  | _ -> "BAD")

let () = register "tofcsspec" (fun args ->
  match args with
  | [input; "ERR"] -> tofcs_verdict (zlist_of_hex input) None
  | [input; "OK"; r] -> tofcs_verdict (zlist_of_hex input) (Some (zlist_of_hex r))
  | _ -> "implementation neither returned a string nor an error")

let () = register "tofxspec" (fun args ->
  match args with
  | [il; n; s; c; payload] ->
    let n = int_of_string n in
    spec_sweep (dec_string n) (tof_verdict (il = "1")) (int_of_string s) (int_of_string c) payload
  | _ -> "BAD")

let () = register "tofcsxspec" (fun args ->
  match args with
  | [n; s; c; payload] ->
    let n = int_of_string n and start = int_of_string s in
    let recs = split_on ';' payload in
    if List.length recs <> int_of_string c then "wrong record count" else begin
      let bad = ref [] in
      List.iteri (fun k r ->
        if List.length !bad < 3 then begin
          let str = dec_string n (start + k) in
          let v = match split_on ',' r with
            | ["ERR"] -> tofcs_verdict (zlist_of_ascii str) None
            | ["OK"; h] -> tofcs_verdict (zlist_of_ascii str) (Some (zlist_of_hex h))
            | _ -> "unparsable result " ^ r in
          if v <> "fine" then bad := (str ^ ": " ^ v) :: !bad
        end) recs;
      if !bad = [] then Printf.sprintf "fine %d" (List.length recs) else String.concat " | " (List.rev !bad)
    end
  | _ -> "BAD")
