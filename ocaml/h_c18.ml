(* C18 BitList handlers *)
open Model
open Conv

(* ---- C18 BitList ---- *)
let () = register "bl" (fun args ->
  match args with
  | [] -> "BAD"
  | n :: ops ->
    let parse op =
      let rest = String.sub op 1 (String.length op - 1) in
      match op.[0] with
      | 'a' -> OpAddBit (rest = "1")
      | 'y' -> OpAddByte (z_of_string rest)
      | 's' -> (match split_on ':' rest with [v; k] -> OpAddBits (z_of_string v, z_of_string k) | _ -> failwith "bad")
      | 'S' -> (match split_on ':' rest with [i; b] -> OpSetBit (z_of_string i, b = "1") | _ -> failwith "bad")
      | 'g' -> OpGetBit (z_of_string rest)
      | 'l' -> OpLen
      | 'b' -> OpGetBytes
      | 'i' -> OpIterBytes
      | _ -> failwith "bad op" in
    match bl_history (z_of_string n) (List.map parse ops) with
    | Ok (bl, outs) ->
      let show = function
        | OutNone -> "-"
        | OutBool b -> if b then "T" else "F"
        | OutInt z -> string_of_int (int_of_z z)
        | OutBytes l -> hex_of_zlist l
        | OutPanic -> "PANIC" in
      String.concat " " (List.map show outs) ^ " | " ^
      String.concat "" (List.map (fun b -> if b then "1" else "0") (bl_abs bl))
    | Err -> "ERR"
    | Panic -> "PANIC"
    | OutOfFuel -> "OUTOFFUEL")

(* the abstract boolean-sequence specification, run directly *)
let () = register "blspec" (fun args ->
  match args with
  | [] -> "BAD"
  | n :: ops ->
    let parse op =
      let rest = String.sub op 1 (String.length op - 1) in
      match op.[0] with
      | 'a' -> OpAddBit (rest = "1")
      | 'y' -> OpAddByte (z_of_string rest)
      | 's' -> (match split_on ':' rest with [v; k] -> OpAddBits (z_of_string v, z_of_string k) | _ -> failwith "bad")
      | 'S' -> (match split_on ':' rest with [i; b] -> OpSetBit (z_of_string i, b = "1") | _ -> failwith "bad")
      | 'g' -> OpGetBit (z_of_string rest)
      | 'l' -> OpLen
      | 'b' -> OpGetBytes
      | 'i' -> OpIterBytes
      | _ -> failwith "bad op" in
    let init = List.init (int_of_string n) (fun _ -> false) in
    let (l, outs) = spec_run init (List.map parse ops) in
    let show = function
      | OutNone -> "-"
      | OutBool b -> if b then "T" else "F"
      | OutInt z -> string_of_int (int_of_z z)
      | OutBytes l -> hex_of_zlist l
      | OutPanic -> "PANIC" in
    String.concat " " (List.map show outs) ^ " | " ^
    String.concat "" (List.map (fun b -> if b then "1" else "0") l))

