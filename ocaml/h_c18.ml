(* C18 BitList handlers *)
open Model
open Conv

(* same deterministic bit pattern as batchBit in go/impl/bitlist.go *)
let batch_bit i seed =
  let x = ref ((i * seed + (i lsr 3) + seed) land 0xFFFF) and c = ref 0 in
  while !x <> 0 do c := !c + (!x land 1); x := !x lsr 1 done;
  !c mod 2 = 1

(* one token -> the list of model operations it stands for (a variadic AddBit call is the
   per-bit loop of the Go code) *)
let parse_ops op =
  let rest = String.sub op 1 (String.length op - 1) in
  match op.[0] with
  | 'a' -> [OpAddBit (rest = "1")]
  | 'A' -> (match split_on ':' rest with
            | [n; seed] -> let n = int_of_string n and seed = int_of_string seed in
              List.init n (fun i -> OpAddBit (batch_bit i seed))
            | _ -> failwith "bad")
  | 'y' -> [OpAddByte (z_of_string rest)]
  | 's' -> (match split_on ':' rest with [v; k] -> [OpAddBits (z_of_string v, z_of_string k)] | _ -> failwith "bad")
  | 'S' -> (match split_on ':' rest with [i; b] -> [OpSetBit (z_of_string i, b = "1")] | _ -> failwith "bad")
  | 'g' -> [OpGetBit (z_of_string rest)]
  | 'l' -> [OpLen]
  | 'b' -> [OpGetBytes]
  | 'i' -> [OpIterBytes]
  | 'I' -> [OpIterBytes]
  | 'J' -> [OpIterBytes]   (* drained after a pause: same observable result *)   (* overlapping another list's iteration: same observable result *)
  | _ -> failwith "bad op"

let show = function
  | OutNone -> "-"
  | OutBool b -> if b then "T" else "F"
  | OutInt z -> string_of_int (int_of_z z)
  | OutBytes l -> hex_of_zlist l
  | OutPanic -> "PANIC"

(* keep one output per token: the output of the token's last operation *)
let per_token (groups : blop list list) (outs : blout list) =
  let rec go groups outs acc =
    match groups with
    | [] -> List.rev acc
    | g :: gs ->
      let n = List.length g in
      let rec drop k l = if k = 0 then l else drop (k - 1) (List.tl l) in
      if n = 0 then go gs outs ("-" :: acc)
      else
        let last = List.nth outs (n - 1) in
        go gs (drop n outs) (show last :: acc) in
  go groups outs []

let bits_str l = String.concat "" (List.map (fun b -> if b then "1" else "0") l)

let () = register "bl" (fun args ->
  match args with
  | [] -> "BAD"
  | n :: ops ->
    let groups = List.map parse_ops ops in
    match bl_history (z_of_string n) (List.concat groups) with
    | Ok (bl, outs) -> String.concat " " (per_token groups outs) ^ " | " ^ bits_str (bl_abs bl)
    | Err -> "ERR"
    | Panic -> "PANIC"
    | OutOfFuel -> "OUTOFFUEL")

(* the abstract boolean-sequence specification, run directly *)
let () = register "blspec" (fun args ->
  match args with
  | [] -> "BAD"
  | n :: ops ->
    let groups = List.map parse_ops ops in
    let init = List.init (int_of_string n) (fun _ -> false) in
    let (l, outs) = spec_run init (List.concat groups) in
    String.concat " " (per_token groups outs) ^ " | " ^ bits_str l)
