(* C08 Codabar handlers (model: CodabarM, specification: CodabarSpec) and the
   record helpers shared with h_twooffive.ml *)
open Model
open Conv

let pack_bits (s : string) =
  let n = String.length s in
  let b = Buffer.create (n / 4 + 1) in
  let i = ref 0 in
  while !i < n do
    let v = ref 0 in
    for j = 0 to 3 do
      v := !v lsl 1;
      if !i + j < n && s.[!i + j] = '1' then v := !v lor 1
    done;
    Buffer.add_char b "0123456789abcdef".[!v];
    i := !i + 4
  done;
  Buffer.contents b

let unpack_bits (h : string) (w : int) : bool list =
  List.init w (fun i ->
    let c = h.[i / 4] in
    let v = if c >= 'a' then Char.code c - 87 else Char.code c - 48 in
    (v lsr (3 - i mod 4)) land 1 = 1)

let zlist_of_ascii (s : string) = List.init (String.length s) (fun i -> z_of_int (Char.code s.[i]))

(* <kind>,<content hex>,<checksum>,<bounds>,<packed bits> | ERR | PANIC | OUTOFFUEL *)
let record_of_outcome (o : barcode outcome) =
  match o with
  | Ok bc ->
    Printf.sprintf "%s,%s,%s,0,0-%dx%d,%s" (kind_name bc.bc_kind) (hex_of_zlist bc.bc_content)
      (match bc.bc_checksum with Some z -> string_of_int (int_of_z z) | None -> "-")
      (int_of_z bc.bc_width) (int_of_z bc.bc_height)
      (pack_bits (String.concat "/" (List.map bits_string bc.bc_rows)))
  | Err -> "ERR"
  | Panic -> "PANIC"
  | OutOfFuel -> "OUTOFFUEL"

(* implementation result: None = error return, Some (kind, content, checksum, bounds, bits) *)
type impl_result = (string * z list * string * string * bool list) option

let parse_record (r : string) : impl_result option =
  if r = "ERR" then Some None else
  match split_on ',' r with
  | [kind; content; cs; x0; rest; packed] ->
    let bounds = x0 ^ "," ^ rest in
    let w = (try Scanf.sscanf rest "0-%dx%d" (fun w _ -> w) with _ -> -1) in
    if w < 0 || String.length packed * 4 < w then None else
    Some (Some (kind, zlist_of_hex content, cs, bounds, unpack_bits packed w))
  | _ -> None

let parse_describe (toks : string list) : impl_result option =
  match toks with
  | ["ERR"] -> Some None
  | ["OK"; kind; "1"; bounds; content; cs; rows] ->
    Some (Some (kind, zlist_of_hex content, cs, bounds, bools_of_string rows))
  | _ -> None

(* the common part of the verdict on an accepted input *)
let verdict_accepted ~kind ~(input : z list) ~(decoded : z list option) ~(expect : z list)
    ((k, content, cs, bounds, bits) : string * z list * string * string * bool list) =
  if content <> input then "Content() is not the input" else
  if k <> kind then "wrong kind" else
  if cs <> "-" then "unexpected checksum" else
  if bounds <> Printf.sprintf "0,0-%dx1" (List.length bits) then "wrong bounds" else
  if decoded <> Some expect then "reference decoder does not read the text" else
  "fine"

let codabar_verdict (input : z list) (res : impl_result) =
  let rep = codabar_representable input in
  match res with
  | None -> if rep then "accepts-less: representable input rejected" else "fine"
  | Some ((_, _, _, _, bits) as r) ->
    if not rep then "accepts-more: input is not representable" else
    verdict_accepted ~kind:"Codabar" ~input ~decoded:(codabar_decode bits) ~expect:input r

let cb_alphabet = "0123456789-$:/.+ABCD"
let cb_string length idx =
  let b = Bytes.create length in
  let idx = ref idx in
  for i = length - 1 downto 0 do
    Bytes.set b i cb_alphabet.[!idx mod 20];
    idx := !idx / 20
  done;
  Bytes.to_string b

let sweep f start count = String.concat ";" (List.init count (fun k -> f (start + k)))

let spec_sweep (mk : int -> string) (verdict : z list -> impl_result -> string) start count (payload : string) =
  let recs = split_on ';' payload in
  if List.length recs <> count then "wrong record count" else begin
    let bad = ref [] in
    List.iteri (fun k r ->
      if List.length !bad < 3 then begin
        let s = mk (start + k) in
        let v = match parse_record r with
          | None -> "unparsable result " ^ r
          | Some res -> verdict (zlist_of_ascii s) res in
        if v <> "fine" then bad := (s ^ ": " ^ v) :: !bad
      end) recs;
    if !bad = [] then Printf.sprintf "fine %d" count else String.concat " | " (List.rev !bad)
  end

let () = register "codabar" (fun args ->
  match args with
  | [content] -> show_outcome show_barcode (codabar_encode (zlist_of_hex content))
  | _ -> "BAD")

let () = register "cbx" (fun args ->
  match args with
  | [n; s; c] ->
    let n = int_of_string n in
    sweep (fun i -> record_of_outcome (codabar_encode (zlist_of_ascii (cb_string n i)))) (int_of_string s) (int_of_string c)
  | _ -> "BAD")

(* ---- specification oracle ---- *)
let () = register "codabarspec" (fun args ->
  match args with
  | input :: toks ->
    (match parse_describe toks with
     | Some res -> codabar_verdict (zlist_of_hex input) res
     | None -> "implementation neither returned a barcode nor an error")
  | _ -> "BAD")

let () = register "cbxspec" (fun args ->
  match args with
  | [n; s; c; payload] ->
    let n = int_of_string n in
    spec_sweep (cb_string n) codabar_verdict (int_of_string s) (int_of_string c) payload
  | _ -> "BAD")
