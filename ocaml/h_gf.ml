(* C17 / C15 / C16 handlers: Galois fields, polynomials, Reed-Solomon *)
open Model
open Conv

let fields : (string, gfield) Hashtbl.t = Hashtbl.create 16
let get_field pp size base =
  let k = pp ^ "," ^ size ^ "," ^ base in
  match Hashtbl.find_opt fields k with
  | Some f -> f
  | None -> let f = gf_new (z_of_string pp) (z_of_string size) (z_of_string base) in Hashtbl.replace fields k f; f

let ints s = if s = "-" then [] else List.map z_of_string (split_on ',' s)
let show_ints l = if l = [] then "-" else String.concat "," (List.map (fun z -> string_of_int (int_of_z z)) l)
let md5hex s = Digest.to_hex (Digest.string s)
let show_div = function Ok q -> string_of_int (int_of_z q) | Panic -> "P" | _ -> "?"

let () = register "gfrow" (fun a ->
  match a with
  | [pp; size; base; x] ->
    let f = get_field pp size base in
    let xz = z_of_string x in
    let m = Buffer.create 4096 and d = Buffer.create 4096 in
    for b = 0 to int_of_string size - 1 do
      let bz = z_of_int b in
      Buffer.add_string m (string_of_int (int_of_z (gf_mul f xz bz))); Buffer.add_char m ',';
      Buffer.add_string d (show_div (gf_div f xz bz)); Buffer.add_char d ','
    done;
    md5hex (Buffer.contents m) ^ " " ^ md5hex (Buffer.contents d) ^ " " ^ string_of_int (int_of_z (gf_inv f xz))
  | _ -> "BAD")

let () = register "gfop" (fun a ->
  match a with
  | [pp; size; base; x; y] ->
    let f = get_field pp size base in
    let xz = z_of_string x and yz = z_of_string y in
    Printf.sprintf "%d %s %d %d" (int_of_z (gf_mul f xz yz)) (show_div (gf_div f xz yz))
      (int_of_z (gf_inv f xz)) (int_of_z (gf_add xz yz))
  | _ -> "BAD")

let lib_field_params = function
  | "qr" -> ("285", "256", "0") | "dm" -> ("301", "256", "1")
  | "az4" -> ("19", "16", "1") | "az6" -> ("67", "64", "1") | "az8" -> ("301", "256", "1")
  | "az10" -> ("1033", "1024", "1") | "az12" -> ("4201", "4096", "1")
  | _ -> failwith "unknown library field"

(* the library's own field objects are modelled by gf_new at the ISO parameters *)
let () = register "gfoplib" (fun a ->
  match a with
  | [w; x; y] ->
    let (pp, size, base) = lib_field_params w in
    let f = get_field pp size base in
    let xz = z_of_string x and yz = z_of_string y in
    Printf.sprintf "%d %s %d %d" (int_of_z (gf_mul f xz yz)) (show_div (gf_div f xz yz))
      (int_of_z (gf_inv f xz)) (int_of_z (gf_add xz yz))
  | _ -> "BAD")

(* oracle: textbook shift-and-add multiplication modulo pp (independent of the log tables) *)
let () = register "gfopspec" (fun a ->
  match a with
  | [pp; size; base; x; y; m; d; i; s] ->
    let ppz = z_of_string pp and sz = z_of_string size in
    let nb = nat_of_int (let rec lg n = if n <= 1 then 0 else 1 + lg (n / 2) in lg (int_of_string size)) in
    let cl u v = int_of_z (clmul ppz sz nb (z_of_int u) (z_of_int v)) in
    let x = int_of_string x and y = int_of_string y in
    let bad = ref [] in
    if cl x y <> int_of_string m then bad := "mul" :: !bad;
    if y = 0 then (if d <> "P" then bad := "div0" :: !bad)
    else (if d = "P" || cl (int_of_string d) y <> x then bad := "div" :: !bad);
    if x <> 0 && cl x (int_of_string i) <> 1 then bad := "inv" :: !bad;
    if (x lxor y) <> int_of_string s then bad := "add" :: !bad;
    if !bad = [] then "OK" else "BAD " ^ String.concat "," !bad
  | _ -> "BADARGS")

let () = register "poly" (fun a ->
  match a with
  | [pp; size; base; op; p; q] ->
    let f = get_field pp size base in
    let p = poly_norm (ints p) and q = poly_norm (ints q) in
    (match op with
     | "add" -> show_ints (poly_add p q)
     | "mul" -> show_ints (poly_mul f p q)
     | "div" -> (match poly_div f p q with
                 | Ok (qu, re) -> show_ints qu ^ " " ^ show_ints re
                 | Panic -> "PANIC" | _ -> "OUTOFFUEL")
     | "mono" -> (match q with
                  | [] -> "BAD"
                  | d :: _ -> let c = List.nth q (List.length q - 1) in
                    show_ints (poly_mul_mono f p (nat_of_int (int_of_z d)) c))
     | _ -> "BADOP")
  | _ -> "BAD")

(* oracle for division: p(y) = q(y)*g(y) + r(y) at every point y of the field (or 64 points), deg r < deg g *)
let () = register "polydivspec" (fun a ->
  match a with
  | [pp; size; base; p; g; qu; re] ->
    let f = get_field pp size base in
    let p = ints p and g = poly_norm (ints g) and qu = ints qu and re = ints re in
    let n = int_of_string size in
    let ok = ref true in
    let step = max 1 (n / 64) in
    let y = ref 0 in
    while !y < n do
      let yz = z_of_int !y in
      let lhs = poly_eval f p yz in
      let rhs = gf_add (gf_mul f (poly_eval f qu yz) (poly_eval f g yz)) (poly_eval f re yz) in
      if int_of_z lhs <> int_of_z rhs then ok := false;
      y := !y + step
    done;
    let zero l = (match l with [z] -> int_of_z z = 0 | _ -> false) in
    if not (List.length re < List.length g || zero re) then ok := false;
    (* coefficient-wise: quotient * divisor + remainder = dividend *)
    let back = poly_add (poly_mul f (poly_norm qu) g) (poly_norm re) in
    if List.map int_of_z back <> List.map int_of_z (poly_norm p) then ok := false;
    if !ok then "OK" else "BAD"
  | _ -> "BADARGS")

let run_history f ks ds =
  let ks = split_on ';' ks and ds = split_on ';' ds in
  let cache = ref rs_init in
  List.map2 (fun k d ->
    match rs_encode f !cache (ints d) (z_of_string k) with
    | Ok (c, ecc) -> cache := c; show_ints ecc
    | Panic -> "PANIC" | _ -> "OUTOFFUEL") ks ds

let () = register "rs" (fun a ->
  match a with
  | [pp; size; base; ks; ds] -> String.concat " " (run_history (get_field pp size base) ks ds)
  | _ -> "BAD")

(* the package-level encoders of qr / datamatrix: the model is history-free (theorem), so every
   request is answered from a fresh cache *)
let () = register "rslib" (fun a ->
  match a with
  | [which; ks; ds] ->
    let f = if which = "qr" then get_field "285" "256" "0" else get_field "301" "256" "1" in
    String.concat " " (List.map2 (fun k d ->
      match rs_encode_fresh f (ints d) (z_of_string k) with
      | Ok ecc -> show_ints ecc | Panic -> "PANIC" | _ -> "OUTOFFUEL")
      (split_on ';' ks) (split_on ';' ds))
  | _ -> "BAD")

(* oracle: for every request of a history, all syndromes of data ++ ecc are zero and ecc has k
   symbols of the field *)
let () = register "rsspec" (fun a ->
  match a with
  | [pp; size; base; ks; ds; es] ->
    let f = get_field pp size base in
    let n = int_of_string size and b = int_of_string base in
    let ok = ref true in
    (try
      let ks = split_on ';' ks and ds = split_on ';' ds and es = split_on ';' es in
      if List.length ks <> List.length es then ok := false else
      List.iter2 (fun (k, d) e ->
        let k = int_of_string k and d = ints d and e = ints e in
        let cw = d @ e in
        if not (List.length e = k && List.for_all (fun z -> let v = int_of_z z in v >= 0 && v < n) e) then ok := false;
        for i = 0 to k - 1 do
          let y = tget f.gf_alog (z_of_int (b + i)) in
          if int_of_z (poly_eval f cw y) <> 0 then ok := false
        done) (List.combine ks ds) es
    with _ -> ok := false);
    if !ok then "OK" else "BAD"
  | _ -> "BADARGS")
