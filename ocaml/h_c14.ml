(* C14: CheckSum() of EAN / Code 128 / Code 39 barcodes and of their scalings *)
open Model
open Conv

let short_desc (bc : barcode) =
  let d = show_barcode bc in
  let i = String.rindex d ' ' in
  String.sub d 0 i ^ " " ^ Digest.to_hex (Digest.string (String.sub d (i + 1) (String.length d - i - 1)))

let encode_1d (a : string list) : barcode outcome =
  match a with
  | ["ean"; h] -> ean_encode (zlist_of_hex h)
  | ["c128"; h] -> c128_encode (zlist_of_hex h)
  | ["c128n"; h] -> c128_encode_nocs (zlist_of_hex h)
  | ["c39"; cs; full; h] -> c39_encode (zlist_of_hex h) (cs = "1") (full = "1")
  | _ -> failwith "c14: unknown encoder"

let show_cs = function Some z -> string_of_int (int_of_z z) | None -> "NOCS"

let cs_handler a =
  match a with
  | sizes :: enc ->
    (match encode_1d enc with
     | Ok bc ->
       let szs = if sizes = "-" then [] else
           List.map (fun s -> match split_on 'x' s with
               | [w; h] -> (z_of_string w, z_of_string h) | _ -> failwith "bad size") (split_on ',' sizes) in
       let (c0, along) = c14_observe bc szs in
       show_barcode bc ^ " | " ^ String.concat " " (show_cs c0 ::
         List.map (function Some c -> show_cs c | None -> "E") along)
     | Err -> "ERR" | Panic -> "PANIC" | OutOfFuel -> "OUTOFFUEL")
  | _ -> "BAD"

let () = register "cs" cs_handler
(* the colour scheme is stored, not interpreted: the check value and the modules do not depend on it *)
let () = register "csc" (fun a -> match a with _ :: rest -> cs_handler rest | _ -> "BAD")
