(* C04 (and the PDF417 parts of C10-C13): model handlers with the tags of
   go/impl/pdf417.go, and the extracted SPEC reader (pdfdec, pdfdechl) used as
   the oracle on the implementation's output *)
open Model
open Conv

let pdf_ints (l : z list) =
  if l = [] then "-" else String.concat "," (List.map (fun z -> string_of_int (int_of_z z)) l)

let pdf_parse_ints s =
  if s = "-" then [] else List.map z_of_string (split_on ',' s)

let pdf_len l = z_of_int (List.length l)

let pdf_show_ints = function
  | Ok l -> pdf_ints l | Err -> "ERR" | Panic -> "PANIC" | OutOfFuel -> "OUTOFFUEL"

(* pdf <level> <hex> <cols> [scheme]: the model takes the implementation's column
   count as its oracle.  Any legal column count is accepted; the model objects if
   the implementation reports no shape although a legal one exists, or uses a
   shape outside the limits. *)
let () = register "pdf" (fun args ->
  match args with
  | level :: hex :: cols :: _ ->
    let lvl = z_of_string level and data = zlist_of_hex hex and c = z_of_string cols in
    (match pdf_encode data lvl c with
     | Ok bc -> show_barcode bc
     | Err ->
       if int_of_z lvl > 8 then "ERR" else
       (match pdf_highlevel data with
        | Ok dw ->
          let m = pdf_len dw and k = pdf_ec_count lvl in
          if pdf_fits m k then
            Printf.sprintf "MODEL: %d data codewords + %d check words fit a legal shape, but the implementation used %s columns"
              (List.length dw) (int_of_z k) cols
          else "ERR"
        | _ -> "ERR")
     | Panic -> "PANIC" | OutOfFuel -> "OUTOFFUEL")
  | _ -> "BAD")

(* the probe is answered by the implementation only; the model echoes nothing useful *)
let () = register "pdfdims" (fun _ -> "-")

(* pdfdim <dataWords> <eccWords>: the modelled calcDimensions (model/Pdf417DimM.v) -> "cols rows".
   Compared with the implementation INFORMATIONALLY only (lib/c04.py shape_choice): the
   properties leave the shape free. *)
let () = register "pdfdim" (fun args ->
  match args with
  | [m; k] ->
    (match pdf_calc_dimensions_auto (z_of_string m) (z_of_string k) with
     | Ok (c, r) -> Printf.sprintf "%d %d" (int_of_z c) (int_of_z r)
     | Err -> "ERR" | Panic -> "PANIC" | OutOfFuel -> "OUTOFFUEL")
  | _ -> "BAD")

(* pdfauto <level> <hex>: the encoder with calcDimensions inside; "go" as third argument runs
   pdf_encode_go (statement by statement) instead of pdf_encode_auto (the instance) *)
let () = register "pdfauto" (fun args ->
  match args with
  | [level; hex] -> show_outcome show_barcode (pdf_encode_auto (zlist_of_hex hex) (z_of_string level))
  | [level; hex; "go"] -> show_outcome show_barcode (pdf_encode_go (zlist_of_hex hex) (z_of_string level))
  | _ -> "BAD")

(* the float64-vs-exact enumeration is answered by the implementation harness only *)
let () = register "pdfdimfloat" (fun _ -> "-")

let () = register "pdfhl" (fun args ->
  match args with
  | [hex] -> pdf_show_ints (pdf_highlevel (zlist_of_hex hex))
  | _ -> "BAD")

let pdf_sub_of_int = function 0 -> SubUpper | 1 -> SubLower | 2 -> SubMixed | _ -> SubPunct
let pdf_int_of_sub = function SubUpper -> 0 | SubLower -> 1 | SubMixed -> 2 | SubPunct -> 3

let () = register "pdftext" (fun args ->
  match args with
  | [sub; hex] ->
    (match pdf_encode_text (utf8_decode (zlist_of_hex hex)) (pdf_sub_of_int (int_of_string sub)) with
     | Ok (sm, cw) -> Printf.sprintf "%d %s" (pdf_int_of_sub sm) (pdf_ints cw)
     | Err -> "ERR" | Panic -> "PANIC" | OutOfFuel -> "OUTOFFUEL")
  | _ -> "BAD")

let () = register "pdfrow" (fun args ->
  match args with
  | [rows; cols; level] ->
    let r = int_of_string rows and zr = z_of_string rows and zc = z_of_string cols and zl = z_of_string level in
    String.concat " " (List.init r (fun i ->
      let zi = z_of_int i in
      Printf.sprintf "%d:%d" (int_of_z (pdf_left_codeword zi zr zc zl)) (int_of_z (pdf_right_codeword zi zr zc zl))))
  | _ -> "BAD")

let () = register "pdfnrows" (fun args ->
  match args with
  | [m; k; c] ->
    (match pdf_number_of_rows (z_of_string m) (z_of_string k) (z_of_string c) with
     | Ok r -> string_of_int (int_of_z r) | Err -> "ERR" | Panic -> "PANIC" | OutOfFuel -> "OUTOFFUEL")
  | _ -> "BAD")

let () = register "pdfec" (fun args ->
  match args with
  | [level; cws] -> pdf_show_ints (pdf_compute (z_of_string level) (pdf_parse_ints cws))
  | _ -> "BAD")

let () = register "pdfdata" (fun args ->
  match args with
  | [level; cols; cws] -> pdf_show_ints (pdf_encode_data (pdf_parse_ints cws) (z_of_string cols) (z_of_string level))
  | _ -> "BAD")

(* ---- specification side (oracle) ---- *)

(* pdfdec <pixel rows of 0/1 joined by />:
   "<valid T|F> <rows> <cols> <level> <iso min rows T|F> <decoded hex | NONE>" or UNREADABLE *)
let () = register "pdfdec" (fun args ->
  match args with
  | [px] ->
    let rows = List.map bools_of_string (split_on '/' px) in
    (match pdfs_read rows with
     | None -> "UNREADABLE"
     | Some sym ->
       Printf.sprintf "%s %d %d %d %s %s"
         (if pdf_valid rows then "T" else "F")
         (int_of_z sym.ps_rows) (int_of_z sym.ps_cols) (int_of_z sym.ps_level)
         (if pdf_valid_iso_rows rows then "T" else "F")
         (match pdf_decode rows with Some d -> hex_of_zlist d | None -> "NONE"))
  | _ -> "BAD")

(* pdfdechl <codewords>: the reference high-level decoder *)
let () = register "pdfdechl" (fun args ->
  match args with
  | [cws] ->
    (match pdf_decode_hl (pdf_parse_ints cws) with Some d -> hex_of_zlist d | None -> "NONE")
  | _ -> "BAD")

(* pdfsyn <level> <codewords>: do all 2^(level+1) syndromes vanish? *)
let () = register "pdfsyn" (fun args ->
  match args with
  | [level; cws] ->
    let k = int_of_z (pdf_ec_count (z_of_string level)) in
    if pdfs_syndromes_zero (nat_of_int k) (z_of_int 3) (pdf_parse_ints cws) then "T" else "F"
  | _ -> "BAD")
