(* C10: every encoder model returns Ok exactly on the representable inputs and Err
   on all others (hence never Panic / OutOfFuel), uniformly stated. *)
From Verif Require Import Prelude Barcode Utf8M.
From Verif Require Import EanM EanSpec CodabarM CodabarSpec TwoOfFiveM TwoOfFiveSpec OneDPropsA.
From Verif Require Import Code128M Code128Spec Code128P3 Code39M Code39Spec Code39P Code93M Code93Spec Code93P.
From Verif Require Import DataMatrixM DataMatrixSpec DataMatrixP1 DataMatrixProps.
From Verif Require Import QRM QRSpec QRP6Compose QRProps.

(* the contract of an encoder entry point: a barcode and no error exactly when the
   input is representable, an error and no barcode otherwise; in particular no
   panic and no non-termination (OutOfFuel) *)
Definition exact_acceptance {A} (r : outcome A) (representable : bool) : Prop :=
  (representable = true -> exists x, r = Ok x) /\ (representable = false -> r = Err).

Lemma exact_acceptance_total {A} (r : outcome A) b : exact_acceptance r b ->
  r <> Panic /\ r <> OutOfFuel /\ ((exists x, r = Ok x) \/ r = Err).
Proof.
  intros [H1 H2]. destruct b.
  - destruct (H1 eq_refl) as [x ->]. repeat split; try discriminate. left. eauto.
  - rewrite (H2 eq_refl). repeat split; try discriminate. right. reflexivity.
Qed.

Lemma of_iff {A} (r : outcome A) (b : bool) :
  ((exists x, r = Ok x) <-> b = true) -> (b = false -> r = Err) -> exact_acceptance r b.
Proof. intros H1 H2. split; [apply H1|exact H2]. Qed.

Lemma ean_exact s : exact_acceptance (ean_encode s) (ean_representable s).
Proof. destruct (ean_c10 s) as (_ & _ & _ & H1 & H2). apply of_iff; assumption. Qed.

Lemma codabar_exact s : exact_acceptance (codabar_encode s) (codabar_representable s).
Proof. destruct (codabar_c10 s) as (_ & _ & _ & H1 & H2). apply of_iff; assumption. Qed.

Lemma tof_exact s il : exact_acceptance (tof_encode s il) (tof_representable il s).
Proof. destruct (tof_c10 s il) as (_ & _ & _ & H1 & H2). apply of_iff; assumption. Qed.

Lemma tofcs_exact s : exact_acceptance (tof_add_checksum s) (tofcs_representable s).
Proof. destruct (tofcs_c10 s) as (_ & _ & _ & H1 & H2). apply of_iff; assumption. Qed.

(* Code 128: 1..80 runes, all from ASCII 0..127 and FNC1..4 *)
Definition c128_representable (content : list Z) : bool :=
  let r := utf8_decode content in
  (1 <=? zlength r) && (zlength r <=? 80) && forallb c128_in_alphabet r.

Lemma c128_exact content :
  exact_acceptance (c128_encode content) (c128_representable content)
  /\ exact_acceptance (c128_encode_nocs content) (c128_representable content).
Proof.
  pose proof (c128_encode_acceptance content) as H. cbn zeta in H.
  change (c128_str_to_runes content) with (utf8_decode content) in H.
  destruct H as (H1 & H2 & H3). unfold c128_representable.
  set (r := utf8_decode content) in *.
  assert (Hb : ((1 <=? zlength r) && (zlength r <=? 80) && forallb c128_in_alphabet r = true)
               <-> (1 <= zlength r <= 80 /\ forallb c128_in_alphabet r = true)).
  { rewrite !andb_true_iff, !Z.leb_le. tauto. }
  split; split.
  - intros E. apply H1, Hb, E.
  - intros E. apply H3. intros Hok. apply Hb in Hok. congruence.
  - intros E. apply H2, Hb, E.
  - intros E. apply H3. intros Hok. apply Hb in Hok. congruence.
Qed.

Lemma c39_exact s cs full : exact_acceptance (c39_encode s cs full) (c39_accepts full s).
Proof. exact (c39_acceptance s cs full). Qed.

Lemma c93_exact s cs full : exact_acceptance (c93_encode s cs full) (c93_accepts full s).
Proof. exact (c93_acceptance s cs full). Qed.

(* DataMatrix: the ASCII encodation fits the largest symbol (1558 codewords) *)
Lemma dm_exact content : bytes content -> exact_acceptance (dm_encode content) (dm_representable content).
Proof.
  intros Hb. destruct (dm_c10 content Hb) as (_ & _ & HE & HO). unfold dm_representable. split.
  - intros E. apply HO. lia.
  - intros E. apply HE. lia.
Qed.

(* QR: the level exists, the content is in the mode's alphabet and some version <= 40 holds it *)
Lemma qr_exact content level mode mask : valid_encoding mode -> 0 <= mask < 8 ->
  exact_acceptance (qr_encode content level mode mask) (qr_representable content level mode).
Proof.
  intros Hm Hk. pose proof (qr_c10 content level mode mask Hm Hk) as H.
  destruct (qr_representable content level mode); split; intros E; try discriminate; exact H.
Qed.
