(* Facts about Go's range-over-string model (Utf8M.utf8_decode1, Utf8RangeM.utf8_range):
   - a rune below 128 is always a single ASCII byte standing for itself,
   - on pure ASCII strings the loop visits (i, s[i]) for i = 0,1,2,...
   - offsets start at 0 and strictly increase. *)
From Verif Require Import Prelude Utf8M Utf8RangeM.

Lemma bytes_eqb_eq a : forall b, bytes_eqb a b = true <-> a = b.
Proof.
  induction a as [|x a IH]; intros [|y b]; simpl; split; intros H; try congruence; try discriminate.
  - apply andb_true_iff in H as [H1 H2]. apply Z.eqb_eq in H1. apply IH in H2. congruence.
  - inversion H; subst. rewrite Z.eqb_refl. simpl. apply IH. reflexivity.
Qed.

Lemma bytes_eqb_refl a : bytes_eqb a a = true.
Proof. apply bytes_eqb_eq; reflexivity. Qed.

Lemma bytes_eqb_neq a b : a <> b -> bytes_eqb a b = false.
Proof.
  intros H. destruct (bytes_eqb a b) eqn:E; [|reflexivity].
  apply bytes_eqb_eq in E. contradiction.
Qed.

Definition ascii_byte (b : Z) : Prop := utf8_in 0 127 b = true.

Lemma ascii_byte_range b : ascii_byte b <-> 0 <= b <= 127.
Proof. unfold ascii_byte, utf8_in. lia. Qed.

Lemma utf8_decode1_ascii b rest : ascii_byte b -> utf8_decode1 b rest = (b, rest).
Proof. unfold ascii_byte, utf8_decode1. intros ->. reflexivity. Qed.

Ltac utf8_cases :=
  repeat match goal with
  | |- context [if ?c then _ else _] => destruct c eqn:?
  | |- context [match ?l with [] => _ | _ :: _ => _ end] => destruct l
  end.

(* a decoded rune below 128 can only come from the one-byte (ASCII) branch *)
Lemma utf8_decode1_lt128 b rest r rest' :
  utf8_decode1 b rest = (r, rest') -> r < 128 ->
  ascii_byte b /\ r = b /\ rest' = rest.
Proof.
  unfold utf8_decode1, ascii_byte, utf8_rune_error.
  destruct (utf8_in 0 127 b) eqn:E0.
  - intros H _. inversion H; auto.
  - unfold utf8_is_cont, utf8_in in *.
    utf8_cases; intros H Hr; inversion H; subst; exfalso;
      repeat match goal with
      | Hc : context [if ?c then _ else _] |- _ => destruct c eqn:?
      end; lia.
Qed.

Lemma utf8_decode1_length b rest r rest' :
  utf8_decode1 b rest = (r, rest') -> (length rest' <= length rest)%nat.
Proof.
  unfold utf8_decode1.
  repeat match goal with
  | |- context [if ?c then _ else _] => destruct c
  | |- context [match ?l with [] => _ | _ :: _ => _ end] => destruct l
  end; intros H; inversion H; subst; simpl; lia.
Qed.

Lemma enum_from_snd s : forall off, map snd (enum_from off s) = s.
Proof. induction s as [|b s IH]; intros off; simpl; [reflexivity|]. rewrite IH. reflexivity. Qed.

Lemma enum_from_length s : forall off, length (enum_from off s) = length s.
Proof. induction s as [|b s IH]; intros off; simpl; [reflexivity|]. rewrite IH. reflexivity. Qed.

Lemma enum_from_app s1 : forall s2 off,
  enum_from off (s1 ++ s2) = enum_from off s1 ++ enum_from (off + zlength s1) s2.
Proof.
  induction s1 as [|b s1 IH]; intros s2 off; simpl.
  - unfold zlength; simpl. rewrite Z.add_0_r. reflexivity.
  - rewrite IH. do 3 f_equal. unfold zlength; simpl length. lia.
Qed.

(* pure ASCII: the loop visits (i, s[i]) *)
Lemma utf8_range_fuel_ascii s : forall fuel off,
  (length s <= fuel)%nat -> Forall ascii_byte s ->
  utf8_range_fuel fuel off s = enum_from off s.
Proof.
  induction s as [|b s IH]; intros fuel off Hf Ha.
  - destruct fuel; reflexivity.
  - destruct fuel as [|f]; [simpl in Hf; lia|].
    inversion Ha as [|? ? Hb Hs]; subst.
    cbn [utf8_range_fuel enum_from]. rewrite (utf8_decode1_ascii b s Hb).
    f_equal. replace (off + 1 + (zlength s - zlength s)) with (off + 1) by lia.
    apply IH; [simpl in Hf; lia | assumption].
Qed.

Lemma utf8_range_ascii s : Forall ascii_byte s -> utf8_range s = enum_from 0 s.
Proof. intros H. apply utf8_range_fuel_ascii; [lia | assumption]. Qed.

(* if every visited rune is below 128 the string is pure ASCII *)
Lemma utf8_range_fuel_lt128 s : forall fuel off,
  (length s <= fuel)%nat ->
  Forall (fun p => snd p < 128) (utf8_range_fuel fuel off s) -> Forall ascii_byte s.
Proof.
  induction s as [|b s IH]; intros fuel off Hf H; [constructor|].
  destruct fuel as [|f]; [simpl in Hf; lia|].
  cbn [utf8_range_fuel] in H.
  destruct (utf8_decode1 b s) as [r rest'] eqn:E.
  inversion H as [|? ? Hr Ht]; subst. cbn [snd] in Hr.
  destruct (utf8_decode1_lt128 _ _ _ _ E Hr) as (Hb & -> & ->).
  constructor; [assumption|].
  eapply IH; [|exact Ht]. simpl in Hf; lia.
Qed.

Lemma utf8_range_lt128 s :
  Forall (fun p => snd p < 128) (utf8_range s) ->
  Forall ascii_byte s /\ utf8_range s = enum_from 0 s.
Proof.
  intros H. assert (Forall ascii_byte s) as Ha.
  { eapply utf8_range_fuel_lt128; [|exact H]. lia. }
  split; [assumption | apply utf8_range_ascii; assumption].
Qed.

(* offsets: never below the starting offset; strictly increasing *)
Lemma utf8_range_fuel_offsets fuel : forall s off,
  Forall (fun p => off <= fst p) (utf8_range_fuel fuel off s).
Proof.
  induction fuel as [|f IH]; intros s off; [constructor|].
  destruct s as [|b rest]; [constructor|].
  cbn [utf8_range_fuel].
  destruct (utf8_decode1 b rest) as [r rest'] eqn:E.
  constructor; [cbn [fst]; lia|].
  pose proof (utf8_decode1_length _ _ _ _ E) as HL.
  eapply Forall_impl; [|apply IH].
  intros p Hp. cbn beta in Hp. unfold zlength in Hp. lia.
Qed.

(* shape of a non-empty range: first offset is the start, all later ones are larger *)
Lemma utf8_range_fuel_cons f b rest off :
  exists r tl, utf8_range_fuel (S f) off (b :: rest) = (off, r) :: tl
               /\ Forall (fun p => off + 1 <= fst p) tl.
Proof.
  cbn [utf8_range_fuel].
  destruct (utf8_decode1 b rest) as [r rest'] eqn:E.
  exists r. eexists. split; [reflexivity|].
  pose proof (utf8_decode1_length _ _ _ _ E) as HL.
  eapply Forall_impl; [|apply utf8_range_fuel_offsets].
  intros p Hp. cbn beta in Hp. unfold zlength in Hp. lia.
Qed.

Lemma utf8_range_cons b rest :
  exists r tl, utf8_range (b :: rest) = (0, r) :: tl /\ Forall (fun p => 1 <= fst p) tl.
Proof. unfold utf8_range. cbn [length]. apply utf8_range_fuel_cons. Qed.

(* relation to the shared rune view of Utf8M *)
Lemma utf8_range_fuel_snd fuel : forall s off,
  map snd (utf8_range_fuel fuel off s) = utf8_decode_fuel fuel s.
Proof.
  induction fuel as [|f IH]; intros s off; [reflexivity|].
  destruct s as [|b rest]; [reflexivity|].
  cbn [utf8_range_fuel utf8_decode_fuel].
  destruct (utf8_decode1 b rest) as [r rest']. cbn [map snd]. rewrite IH. reflexivity.
Qed.

Lemma utf8_range_snd s : map snd (utf8_range s) = utf8_decode s.
Proof. apply utf8_range_fuel_snd. Qed.

Lemma utf8_decode_ascii s : Forall ascii_byte s -> utf8_decode s = s.
Proof.
  intros H. rewrite <- utf8_range_snd, utf8_range_ascii by assumption. apply enum_from_snd.
Qed.

Lemma utf8_decode_lt128 s :
  Forall (fun r => r < 128) (utf8_decode s) -> Forall ascii_byte s /\ utf8_decode s = s.
Proof.
  intros H. rewrite <- utf8_range_snd in H.
  assert (Forall (fun p => snd p < 128) (utf8_range s)) as H2.
  { apply Forall_forall. intros p Hp. rewrite Forall_forall in H. apply H. apply in_map. exact Hp. }
  destruct (utf8_range_lt128 s H2) as [Ha _].
  split; [assumption | apply utf8_decode_ascii; assumption].
Qed.
