(* Proofs for C08 (2 of 5 part): the model of twooffive/encoder.go (TwoOfFiveM)
   against the specification (TwoOfFiveSpec). *)
From Verif Require Import Prelude Barcode Utf8M Utf8RangeM Utf8RangeP TabTwoOfFive TwoOfFiveM
  RunLenSpec RunLenP TwoOfFiveSpec.

Local Ltac Zify.zify_post_hook ::= Z.to_euclidean_division_equations.

(* ---------- tables ---------- *)
Definition tof_spec_widths : list (bool * Z) :=
  [(false, Z.of_nat tof_narrow); (true, Z.of_nat tof_wide)].

Definition tof_spec_modes : list (bool * (list bool * list bool * list (bool * Z))) :=
  [ (false, (tof_std_start, tof_std_stop, tof_spec_widths));
    (true, (tof_int_start, tof_int_stop, tof_spec_widths)) ].

Lemma tof_tables_match_standard :
  tof_encoding_table = map (fun de => (48 + fst de, snd de)) tof_table
  /\ tof_modes = tof_spec_modes
  /\ tof_non_interleaved_space = [false; false; false; false; false]
  /\ tof_pattern_width = 5.
Proof. vm_compute. repeat split; reflexivity. Qed.

(* exactly two of the five elements of every digit are wide, and the wide
   elements' weights 1 2 4 7 add up to the digit (11 for 0) *)
Lemma tof_table_two_wide :
  forallb (fun de =>
    let es := snd de in
    (length (filter (fun e => e) es) =? 2)%nat && (length es =? 5)%nat
    && (match es with
        | [e1; e2; e3; e4; _] =>
          Z.b2z e1 * 1 + Z.b2z e2 * 2 + Z.b2z e3 * 4 + Z.b2z e4 * 7 =? (if fst de =? 0 then 11 else fst de)
        | _ => false
        end)) tof_table = true.
Proof. vm_compute. reflexivity. Qed.

Lemma tof_mode_std : tof_mode false = (tof_std_start, tof_std_stop, tof_spec_widths).
Proof. reflexivity. Qed.
Lemma tof_mode_int : tof_mode true = (tof_int_start, tof_int_stop, tof_spec_widths).
Proof. reflexivity. Qed.

Definition tof_elems (d : Z) : list bool :=
  match assoc_flags tof_table d with Some es => es | None => [] end.

Lemma is_digit_cases c : is_digit c = true ->
  c = 48 \/ c = 49 \/ c = 50 \/ c = 51 \/ c = 52 \/ c = 53 \/ c = 54 \/ c = 55 \/ c = 56 \/ c = 57.
Proof. unfold is_digit. lia. Qed.

Ltac char_split H :=
  apply is_digit_cases in H;
  destruct H as [H|[H|[H|[H|[H|[H|[H|[H|[H|H]]]]]]]]]; subst.

Lemma tof_lookup_digit c : is_digit c = true -> tof_lookup c = Some (tof_elems (digit_val c)).
Proof. intros H. char_split H; reflexivity. Qed.

Lemma tof_assoc_none {A} (t : list (Z * A)) r :
  Forall (fun kv => fst kv <> r) t -> tof_assoc t r = None.
Proof.
  induction 1 as [|[k v] t Hk _ IH]; [reflexivity|]. cbn [tof_assoc]. cbn [fst] in Hk.
  destruct (k =? r) eqn:E; [lia | exact IH].
Qed.

Lemma tof_lookup_some r p : tof_lookup r = Some p -> is_digit r = true.
Proof.
  intros H. destruct (is_digit r) eqn:E; [reflexivity|]. exfalso.
  unfold tof_lookup in H. rewrite tof_assoc_none in H; [discriminate|].
  unfold is_digit in E. unfold tof_encoding_table. repeat constructor; cbn [fst]; lia.
Qed.

(* ---------- drawing = alternating elements ---------- *)
Fixpoint interleave (a b : list nat) : list nat :=
  match a, b with
  | x :: a', y :: b' => x :: y :: interleave a' b'
  | _, _ => []
  end.

Lemma tof_draw_spec a : forall b,
  tof_draw tof_spec_widths a b
  = draw_alt true (interleave (map tof_elem_width a) (map tof_elem_width b)).
Proof.
  induction a as [|x a IH]; intros [|y b]; try reflexivity.
  cbn [tof_draw map interleave draw_alt negb]. rewrite IH.
  destruct x, y; reflexivity.
Qed.

(* element widths of one standard digit (bars data, spaces narrow) and of one
   interleaved pair (bars first digit, spaces second digit) *)
Definition gstd (d : Z) : list nat :=
  interleave (map tof_elem_width (tof_elems d)) [tof_narrow; tof_narrow; tof_narrow; tof_narrow; tof_narrow].
Definition gint (d e : Z) : list nat :=
  interleave (map tof_elem_width (tof_elems d)) (map tof_elem_width (tof_elems e)).

Definition dig (c : Z) : Prop := is_digit c = true.

Lemma gstd_shape c : dig c ->
  length (gstd (digit_val c)) = 10%nat /\ Forall (fun w => (0 < w)%nat) (gstd (digit_val c)).
Proof. intros H. char_split H; (split; [reflexivity | repeat constructor]). Qed.

Lemma gint_shape c e : dig c -> dig e ->
  length (gint (digit_val c) (digit_val e)) = 10%nat
  /\ Forall (fun w => (0 < w)%nat) (gint (digit_val c) (digit_val e)).
Proof. intros H H2. char_split H; char_split H2; (split; [reflexivity | repeat constructor]). Qed.

Lemma flip_even a c : Nat.even (length a) = true -> flip_if_odd a c = c.
Proof. unfold flip_if_odd. intros ->. reflexivity. Qed.

(* ---------- standard mode ---------- *)
Fixpoint std_widths (s : list Z) : list nat :=
  match s with
  | [] => []
  | c :: t => gstd (digit_val c) ++ std_widths t
  end.

Lemma tof_loop_std s : Forall dig s -> forall lst,
  tof_loop false tof_spec_widths s lst
  = Ok (flat_map (fun c => draw_alt true (gstd (digit_val c))) s, lst).
Proof.
  induction 1 as [|c s Hc _ IH]; intros lst; [reflexivity|].
  cbn [tof_loop flat_map]. rewrite tof_lookup_digit by exact Hc. rewrite IH. cbn [obind].
  rewrite tof_draw_spec. reflexivity.
Qed.

Lemma std_widths_draw s : Forall dig s -> forall rest,
  flat_map (fun c => draw_alt true (gstd (digit_val c))) s ++ draw_alt true rest
  = draw_alt true (std_widths s ++ rest).
Proof.
  induction 1 as [|c s Hc _ IH]; intros rest; [reflexivity|].
  cbn [flat_map std_widths]. rewrite <- !app_assoc, IH.
  rewrite (draw_alt_app (gstd (digit_val c))), flip_even; [reflexivity|].
  destruct (gstd_shape c Hc) as [-> _]. reflexivity.
Qed.

Lemma std_widths_pos s : Forall dig s -> Forall (fun w => (0 < w)%nat) (std_widths s).
Proof.
  induction 1 as [|c s Hc _ IH]; [constructor|]. cbn [std_widths].
  apply Forall_app. split; [apply gstd_shape; exact Hc | exact IH].
Qed.

Definition std_start_ws : list nat := map snd (runs tof_std_start).
Definition std_stop_ws : list nat := map snd (runs tof_std_stop).

Lemma std_step c rest : dig c ->
  tof_std_digits (runs tof_std_stop) (alt true (gstd (digit_val c)) ++ rest)
  = match tof_std_digits (runs tof_std_stop) rest with
    | Some ds => Some (digit_val c :: ds)
    | None => None
    end.
Proof. intros H. char_split H; reflexivity. Qed.

Lemma std_digits_decode s : Forall dig s ->
  tof_std_digits (runs tof_std_stop) (alt true (std_widths s ++ std_stop_ws)) = Some (map digit_val s).
Proof.
  induction 1 as [|c s Hc _ IH]; [reflexivity|].
  cbn [std_widths map]. rewrite <- app_assoc, (alt_app (gstd (digit_val c))), flip_even
    by (destruct (gstd_shape c Hc) as [-> _]; reflexivity).
  rewrite std_step by exact Hc. rewrite IH. reflexivity.
Qed.

Lemma dig_ascii s : Forall dig s -> Forall ascii_byte s.
Proof.
  intros Hd. eapply Forall_impl; [|exact Hd].
  intros c Hc. unfold dig, is_digit in Hc. apply ascii_byte_range. lia.
Qed.

Lemma std_symbol_decodes s : s <> [] -> Forall dig s ->
  tof_decode false (tof_std_start ++ flat_map (fun c => draw_alt true (gstd (digit_val c))) s ++ tof_std_stop)
  = Some (map digit_val s).
Proof.
  intros Hne Hd.
  change tof_std_stop with (draw_alt true std_stop_ws) at 1.
  rewrite std_widths_draw by exact Hd.
  change tof_std_start with (draw_alt true std_start_ws) at 1.
  replace (draw_alt true std_start_ws ++ draw_alt true (std_widths s ++ std_stop_ws))
    with (draw_alt true (std_start_ws ++ std_widths s ++ std_stop_ws))
    by (rewrite draw_alt_app; reflexivity).
  unfold tof_decode.
  rewrite runs_draw_alt.
  2:{ apply Forall_app. split; [repeat constructor|]. apply Forall_app. split; [apply std_widths_pos; exact Hd | repeat constructor]. }
  rewrite alt_app. change (flip_if_odd std_start_ws true) with true.
  change (alt true std_start_ws) with (runs tof_std_start).
  rewrite strip_runs_app. rewrite std_digits_decode by exact Hd.
  destruct s; [contradiction | reflexivity].
Qed.

Lemma tof_loop_std_inv rs : forall lst b l,
  tof_loop false tof_spec_widths rs lst = Ok (b, l) -> Forall dig rs.
Proof.
  induction rs as [|r rs IH]; intros lst b l H; [constructor|].
  cbn [tof_loop] in H. destruct (tof_lookup r) eqn:E; [|discriminate].
  destruct (tof_loop false tof_spec_widths rs lst) as [[b' l']| | |] eqn:E2; try discriminate.
  constructor; [eapply tof_lookup_some; exact E | eapply IH; exact E2].
Qed.

Lemma runes_digits_bytes s : Forall dig (utf8_decode s) -> Forall dig s.
Proof.
  intros H. assert (Forall (fun r => r < 128) (utf8_decode s)) as H2.
  { eapply Forall_impl; [|exact H]. intros r Hr. unfold dig, is_digit in Hr. lia. }
  destruct (utf8_decode_lt128 s H2) as [_ E]. rewrite E in H. exact H.
Qed.

Lemma dig_forallb s : forallb is_digit s = true <-> Forall dig s.
Proof. rewrite forallb_forall, Forall_forall. reflexivity. Qed.

(* the model has no panicking operation at all *)
Lemma tof_loop_no_panic i w rs : forall lst,
  tof_loop i w rs lst = Err \/ exists r, tof_loop i w rs lst = Ok r.
Proof.
  induction rs as [|r rs IH]; intros lst; [right; eexists; reflexivity|].
  cbn [tof_loop]. destruct i.
  - destruct lst as [l|]; [|apply IH].
    destruct (tof_lookup l); [|left; reflexivity].
    destruct (tof_lookup r); [|left; reflexivity].
    destruct (IH None) as [-> | ([b x] & ->)]; [left; reflexivity | right; eexists; reflexivity].
  - destruct (tof_lookup r); [|left; reflexivity].
    destruct (IH lst) as [-> | ([b x] & ->)]; [left; reflexivity | right; eexists; reflexivity].
Qed.

(* ---------- interleaved mode ---------- *)
Fixpoint int_widths (s : list Z) : list nat :=
  match s with
  | c :: e :: t => gint (digit_val c) (digit_val e) ++ int_widths t
  | _ => []
  end.

Fixpoint int_modules (s : list Z) : list bool :=
  match s with
  | c :: e :: t => draw_alt true (gint (digit_val c) (digit_val e)) ++ int_modules t
  | _ => []
  end.

Fixpoint int_digits (s : list Z) : list Z :=
  match s with
  | c :: e :: t => digit_val c :: digit_val e :: int_digits t
  | _ => []
  end.

(* induction over a list two elements at a time *)
Lemma list_pair_ind (P : list Z -> Prop) :
  P [] -> (forall x, P [x]) -> (forall x y t, P t -> P (x :: y :: t)) -> forall l, P l.
Proof.
  intros H0 H1 H2.
  assert (forall l, P l /\ forall x, P (x :: l)) as H.
  { induction l as [|y l [IH1 IH2]]; [split; auto|]. split; [apply IH2 | intros x; apply H2; exact IH1]. }
  intros l. apply H.
Qed.

Lemma even_SS_length {A} (x y : A) t : Nat.even (length (x :: y :: t)) = Nat.even (length t).
Proof. reflexivity. Qed.

Lemma tof_loop_int s : Forall dig s -> Nat.even (length s) = true ->
  tof_loop true tof_spec_widths s None = Ok (int_modules s, None).
Proof.
  induction s as [| x | x y t IH] using list_pair_ind; intros Hd He; [reflexivity | discriminate |].
  inversion Hd as [|? ? Hx Hd2]; subst. inversion Hd2 as [|? ? Hy Ht]; subst.
  cbn [tof_loop int_modules]. rewrite !tof_lookup_digit by assumption.
  rewrite IH by assumption. cbn [obind]. rewrite tof_draw_spec. reflexivity.
Qed.

Lemma int_widths_draw s : Forall dig s -> forall rest,
  int_modules s ++ draw_alt true rest = draw_alt true (int_widths s ++ rest).
Proof.
  induction s as [| x | x y t IH] using list_pair_ind; intros Hd rest; [reflexivity | reflexivity |].
  inversion Hd as [|? ? Hx Hd2]; subst. inversion Hd2 as [|? ? Hy Ht]; subst.
  cbn [int_modules int_widths]. rewrite <- !app_assoc, IH by exact Ht.
  rewrite (draw_alt_app (gint (digit_val x) (digit_val y))), flip_even; [reflexivity|].
  destruct (gint_shape x y Hx Hy) as [-> _]. reflexivity.
Qed.

Lemma int_widths_pos s : Forall dig s -> Forall (fun w => (0 < w)%nat) (int_widths s).
Proof.
  induction s as [| x | x y t IH] using list_pair_ind; intros Hd; [constructor | constructor |].
  inversion Hd as [|? ? Hx Hd2]; subst. inversion Hd2 as [|? ? Hy Ht]; subst.
  cbn [int_widths]. apply Forall_app. split; [apply gint_shape; assumption | apply IH; exact Ht].
Qed.

Definition int_start_ws : list nat := map snd (runs tof_int_start).
Definition int_stop_ws : list nat := map snd (runs tof_int_stop).

Lemma int_step c e rest : dig c -> dig e ->
  tof_int_digits (runs tof_int_stop) (alt true (gint (digit_val c) (digit_val e)) ++ rest)
  = match tof_int_digits (runs tof_int_stop) rest with
    | Some ds => Some (digit_val c :: digit_val e :: ds)
    | None => None
    end.
Proof. intros H H2. char_split H; char_split H2; reflexivity. Qed.

Lemma int_digits_decode s : Forall dig s ->
  tof_int_digits (runs tof_int_stop) (alt true (int_widths s ++ int_stop_ws)) = Some (int_digits s).
Proof.
  induction s as [| x | x y t IH] using list_pair_ind; intros Hd; [reflexivity | reflexivity |].
  inversion Hd as [|? ? Hx Hd2]; subst. inversion Hd2 as [|? ? Hy Ht]; subst.
  cbn [int_widths int_digits].
  rewrite <- app_assoc, (alt_app (gint (digit_val x) (digit_val y))), flip_even
    by (destruct (gint_shape x y Hx Hy) as [-> _]; reflexivity).
  rewrite int_step by assumption. rewrite IH by exact Ht. reflexivity.
Qed.

Lemma int_digits_even s : Nat.even (length s) = true -> int_digits s = map digit_val s.
Proof.
  induction s as [| x | x y t IH] using list_pair_ind; intros He; [reflexivity | discriminate |].
  cbn [int_digits map]. rewrite IH by exact He. reflexivity.
Qed.

Lemma odd_rem n : (go_mod (Z.of_nat n) 2 =? 1) = Nat.odd n.
Proof.
  unfold go_mod. destruct (Nat.Even_or_Odd n) as [[k ->]|[k ->]].
  - rewrite Nat.odd_mul, Nat.odd_2. cbn [andb]. lia.
  - rewrite Nat.odd_add, Nat.odd_mul, Nat.odd_2, Nat.odd_1. cbn [andb xorb]. lia.
Qed.

Lemma int_symbol_decodes s : s <> [] -> Forall dig s -> Nat.even (length s) = true ->
  tof_decode true (tof_int_start ++ int_modules s ++ tof_int_stop) = Some (map digit_val s).
Proof.
  intros Hne Hd He.
  change tof_int_stop with (draw_alt true int_stop_ws) at 1.
  rewrite int_widths_draw by exact Hd.
  change tof_int_start with (draw_alt true int_start_ws) at 1.
  replace (draw_alt true int_start_ws ++ draw_alt true (int_widths s ++ int_stop_ws))
    with (draw_alt true (int_start_ws ++ int_widths s ++ int_stop_ws))
    by (rewrite draw_alt_app; reflexivity).
  unfold tof_decode.
  rewrite runs_draw_alt.
  2:{ apply Forall_app. split; [repeat constructor|]. apply Forall_app. split; [apply int_widths_pos; exact Hd | repeat constructor]. }
  rewrite alt_app. change (flip_if_odd int_start_ws true) with true.
  change (alt true int_start_ws) with (runs tof_int_start).
  rewrite strip_runs_app. rewrite int_digits_decode by exact Hd.
  rewrite int_digits_even by exact He.
  destruct s; [contradiction | reflexivity].
Qed.

(* what a completed interleaved loop has checked: if no rune is left pending
   (or the number of runes is even) every rune is a digit *)
Lemma tof_loop_int_inv rs : forall b l,
  tof_loop true tof_spec_widths rs None = Ok (b, l) ->
  l = None \/ Nat.even (length rs) = true ->
  Forall dig rs /\ l = None /\ Nat.even (length rs) = true.
Proof.
  induction rs as [| x | x y t IH] using list_pair_ind; intros b l H Hl.
  - inversion H. auto.
  - cbn [tof_loop] in H. inversion H; subst. destruct Hl; discriminate.
  - cbn [tof_loop] in H.
    destruct (tof_lookup x) eqn:Ex; [|discriminate].
    destruct (tof_lookup y) eqn:Ey; [|discriminate].
    destruct (tof_loop true tof_spec_widths t None) as [[b' l']| | |] eqn:E2; try discriminate.
    cbn [obind] in H. inversion H; subst.
    destruct (IH _ _ eq_refl Hl) as (A & B & C).
    split; [|auto].
    constructor; [eapply tof_lookup_some; exact Ex|].
    constructor; [eapply tof_lookup_some; exact Ey | exact A].
Qed.

(* an accepted content is a non-empty digit string (of even length when interleaved): every byte string *)
Lemma tof_ok_inv s i bc : tof_encode s i = Ok bc ->
  s <> [] /\ Forall dig s /\ (i = true -> Nat.even (length s) = true).
Proof.
  unfold tof_encode. destruct (bytes_eqb s []) eqn:E; [discriminate|].
  assert (s <> []) as Hne by (intros ->; discriminate).
  destruct i.
  - unfold zlength. rewrite odd_rem. cbn [andb].
    destruct (Nat.odd (length s)) eqn:Eo; [discriminate|].
    rewrite tof_mode_int.
    destruct (tof_loop true tof_spec_widths (utf8_decode s) None) as [[b l]| | |] eqn:E2; try discriminate.
    cbn [obind]. destruct l as [x|]; [discriminate|]. intros _.
    destruct (tof_loop_int_inv _ _ _ E2 (or_introl eq_refl)) as (A & _ & _).
    split; [exact Hne|]. split; [apply runes_digits_bytes; exact A|].
    intros _. rewrite <- Nat.negb_odd, Eo. reflexivity.
  - cbn [andb]. rewrite tof_mode_std.
    destruct (tof_loop false tof_spec_widths (utf8_decode s) None) as [[b l]| | |] eqn:E2; try discriminate.
    intros _. split; [exact Hne|]. split; [|discriminate].
    apply runes_digits_bytes. eapply tof_loop_std_inv. exact E2.
Qed.

Lemma tof_roundtrip s i :
  s <> [] -> Forall dig s -> (i = true -> Nat.even (length s) = true) ->
  exists bits, tof_encode s i = Ok (mk1d (if i then K2of5I else K2of5) s None bits)
    /\ tof_decode i bits = Some (map digit_val s).
Proof.
  intros Hne Hd He. unfold tof_encode. rewrite bytes_eqb_neq by exact Hne.
  rewrite utf8_decode_ascii by (apply dig_ascii; exact Hd).
  destruct i.
  - specialize (He eq_refl). unfold zlength. rewrite odd_rem, <- Nat.negb_even, He.
    cbn [negb andb]. rewrite tof_mode_int, tof_loop_int by assumption. cbn [obind].
    eexists. split; [reflexivity|]. apply int_symbol_decodes; assumption.
  - cbn [andb]. rewrite tof_mode_std, tof_loop_std by exact Hd. cbn [obind].
    eexists. split; [reflexivity|]. apply std_symbol_decodes; assumption.
Qed.

(* ---------- representable (specification predicate) in Prop form ---------- *)
Lemma tof_representable_iff i s : tof_representable i s = true <->
  s <> [] /\ Forall dig s /\ (i = true -> Nat.even (length s) = true).
Proof.
  unfold tof_representable. rewrite !andb_true_iff, negb_true_iff, Nat.eqb_neq, dig_forallb.
  split.
  - intros [[H1 H2] H3]. split; [intros ->; apply H1; reflexivity|]. split; [exact H2|].
    intros ->. exact H3.
  - intros (H1 & H2 & H3). split; [split; [|exact H2]|].
    + destruct s; [contradiction | discriminate].
    + destruct i; [apply H3; reflexivity | reflexivity].
Qed.

Lemma tof_sound s i bc : tof_encode s i = Ok bc ->
  tof_representable i s = true
  /\ bc_kind bc = (if i then K2of5I else K2of5) /\ bc_content bc = s /\ bc_checksum bc = None
  /\ bc_height bc = 1
  /\ exists bits, bc_rows bc = [bits] /\ bc_width bc = zlength bits
       /\ tof_decode i bits = Some (map digit_val s).
Proof.
  intros H. destruct (tof_ok_inv s i bc H) as (A & B & C).
  destruct (tof_roundtrip s i A B C) as (bits & E & D). rewrite E in H. inversion H; subst bc.
  cbn [mk1d bc_kind bc_content bc_checksum bc_height bc_rows bc_width].
  split; [apply tof_representable_iff; auto|]. repeat split; auto. exists bits. auto.
Qed.

Lemma tof_complete s i : tof_representable i s = true ->
  exists bc, tof_encode s i = Ok bc.
Proof.
  intros H. apply tof_representable_iff in H as (A & B & C).
  destruct (tof_roundtrip s i A B C) as (bits & E & _). eexists; exact E.
Qed.

Lemma tof_reject s i : tof_representable i s = false -> tof_encode s i = Err.
Proof.
  intros R. unfold tof_encode.
  destruct (bytes_eqb s []) eqn:E0; [reflexivity|].
  destruct (i && _) eqn:E1; [reflexivity|].
  destruct (tof_mode i) as [[st sp] w] eqn:Em.
  destruct (tof_loop_no_panic i w (utf8_decode s) None) as [E | ([b l] & E)]; rewrite E; [reflexivity|].
  cbn [obind]. destruct l; [reflexivity|]. exfalso.
  assert (exists bc, tof_encode s i = Ok bc) as (bc & Hbc).
  { unfold tof_encode. rewrite E0, E1, Em, E. cbn [obind]. eexists; reflexivity. }
  apply tof_sound in Hbc. destruct Hbc as [Hbc _]. congruence.
Qed.

Lemma tof_accept i s : tof_representable i s = true ->
  exists bits, tof_encode s i = Ok (mk1d (if i then K2of5I else K2of5) s None bits)
    /\ tof_decode i bits = Some (map digit_val s).
Proof.
  intros H. apply tof_representable_iff in H as (A & B & C). apply tof_roundtrip; assumption.
Qed.

Lemma tof_encode_no_panic s i : tof_encode s i = Err \/ exists bc, tof_encode s i = Ok bc.
Proof.
  destruct (tof_representable i s) eqn:R.
  - right. apply tof_complete. exact R.
  - left. apply tof_reject. exact R.
Qed.

(* the inputs that the code before fix 63bda0c accepted are errors now *)
Lemma tof_former_witness_rejected :
  tof_encode [195; 169] true = Err /\ tof_encode [49; 50; 195; 169] true = Err.
Proof. split; vm_compute; reflexivity. Qed.

(* ---------- AddCheckSum ---------- *)
Lemma rune_to_int_dig c : dig c -> rune_to_int c = digit_val c.
Proof. unfold dig, rune_to_int, digit_val. intros ->. reflexivity. Qed.

Lemma tof_cs_loop_digits s : Forall dig s -> forall sum,
  tof_cs_loop s (Nat.odd (length s)) sum = Some (sum + tof_weighted_sum (map digit_val s)).
Proof.
  induction 1 as [|c s Hc _ IH]; intros sum.
  - cbn [tof_cs_loop map tof_weighted_sum]. f_equal. lia.
  - cbn [tof_cs_loop]. rewrite tof_lookup_digit by exact Hc. rewrite rune_to_int_dig by exact Hc.
    cbn [length]. rewrite Nat.odd_succ.
    replace (negb (Nat.even (length s))) with (Nat.odd (length s)) by (symmetry; apply Nat.negb_even).
    cbn [map tof_weighted_sum]. rewrite map_length.
    destruct (Nat.even (length s)); rewrite IH; f_equal; lia.
Qed.

Lemma tof_cs_loop_inv rs : forall e sum x, tof_cs_loop rs e sum = Some x -> Forall dig rs.
Proof.
  induction rs as [|r rs IH]; intros e sum x H; [constructor|].
  cbn [tof_cs_loop] in H. destruct (tof_lookup r) eqn:E; [|discriminate].
  constructor; [eapply tof_lookup_some; exact E | eapply IH; exact H].
Qed.

Lemma tof_weighted_sum_nonneg ds : Forall (fun d => 0 <= d) ds -> 0 <= tof_weighted_sum ds.
Proof.
  induction 1 as [|d ds Hd _ IH]; [cbn; lia|]. cbn [tof_weighted_sum].
  destruct (Nat.even (length ds)); lia.
Qed.

Definition tof_check_digit (ds : list Z) : Z := (10 - tof_weighted_sum ds mod 10) mod 10.

Lemma tof_check_digit_ok ds : tof_check_ok ds (tof_check_digit ds) = true.
Proof. unfold tof_check_ok, tof_check_digit. lia. Qed.

Lemma tof_add_checksum_digits s : s <> [] -> Forall dig s ->
  tof_add_checksum s = Ok (s ++ [48 + tof_check_digit (map digit_val s)]).
Proof.
  intros Hne Hd. unfold tof_add_checksum. rewrite bytes_eqb_neq by exact Hne.
  rewrite utf8_decode_ascii by (apply dig_ascii; exact Hd).
  unfold zlength. rewrite odd_rem, tof_cs_loop_digits by exact Hd. rewrite Z.add_0_l.
  assert (0 <= tof_weighted_sum (map digit_val s)) as Hs.
  { apply tof_weighted_sum_nonneg. apply Forall_forall. intros d Hin.
    apply in_map_iff in Hin as (c & <- & Hc). rewrite Forall_forall in Hd. specialize (Hd c Hc).
    unfold dig, is_digit in Hd. unfold digit_val. lia. }
  set (S := tof_weighted_sum (map digit_val s)) in *.
  unfold go_mod. rewrite (Z.rem_mod_nonneg S 10) by lia. rewrite Z.rem_mod_nonneg by lia.
  fold (tof_check_digit (map digit_val s)). 
  assert (0 <= (10 - S mod 10) mod 10 <= 9) as Hr by lia.
  unfold tof_check_digit. fold S.
  unfold int_to_rune. replace ((0 <=? (10 - S mod 10) mod 10) && ((10 - S mod 10) mod 10 <=? 9)) with true by lia.
  unfold utf8_encode_rune, utf8_in.
  replace ((0 <=? (10 - S mod 10) mod 10 + 48) && ((10 - S mod 10) mod 10 + 48 <=? 127)) with true by lia.
  do 3 f_equal. lia.
Qed.

Lemma tofcs_representable_iff s : tofcs_representable s = true <-> s <> [] /\ Forall dig s.
Proof.
  unfold tofcs_representable. rewrite andb_true_iff, negb_true_iff, Nat.eqb_neq, dig_forallb.
  split; intros [A B]; (split; [|exact B]).
  - intros ->. apply A. reflexivity.
  - destruct s; [contradiction | discriminate].
Qed.

Lemma tof_add_checksum_ok_inv s r : tof_add_checksum s = Ok r -> s <> [] /\ Forall dig s.
Proof.
  unfold tof_add_checksum. destruct (bytes_eqb s []) eqn:E; [discriminate|].
  destruct (tof_cs_loop _ _ _) eqn:E2; [|discriminate]. intros _.
  split; [intros ->; discriminate|].
  apply runes_digits_bytes. eapply tof_cs_loop_inv. exact E2.
Qed.

Lemma tof_add_checksum_sound s r : tof_add_checksum s = Ok r ->
  tofcs_representable s = true
  /\ exists d, r = s ++ [48 + d] /\ tof_check_ok (map digit_val s) d = true.
Proof.
  intros H. destruct (tof_add_checksum_ok_inv s r H) as [A B].
  split; [apply tofcs_representable_iff; auto|].
  rewrite tof_add_checksum_digits in H by assumption. inversion H; subst r.
  eexists. split; [reflexivity | apply tof_check_digit_ok].
Qed.

Lemma tof_add_checksum_complete s : tofcs_representable s = true ->
  exists r, tof_add_checksum s = Ok r.
Proof.
  intros H. apply tofcs_representable_iff in H as [A B]. eexists. apply tof_add_checksum_digits; assumption.
Qed.

Lemma tof_add_checksum_reject s : tofcs_representable s = false -> tof_add_checksum s = Err.
Proof.
  intros R. unfold tof_add_checksum. destruct (bytes_eqb s []) eqn:E; [reflexivity|].
  destruct (tof_cs_loop _ _ _) eqn:E2; [|reflexivity]. exfalso.
  assert (exists r, tof_add_checksum s = Ok r) as (r & Hr).
  { unfold tof_add_checksum. rewrite E, E2. eexists; reflexivity. }
  apply tof_add_checksum_sound in Hr. destruct Hr as [Hr _]. congruence.
Qed.

(* the weighted sum spelled out on an example: 1 2 3 4 -> 3*4 + 1*3 + 3*2 + 1*1 = 22, check 8 *)
Lemma tof_weighted_sum_example : tof_weighted_sum [1; 2; 3; 4] = 22 /\ tof_check_digit [1; 2; 3; 4] = 8.
Proof. split; reflexivity. Qed.

(* non-vacuity witnesses *)
Lemma tof_example_std : tof_representable false [49; 50; 51] = true. Proof. reflexivity. Qed.
Lemma tof_example_int : tof_representable true [49; 50; 51; 52] = true. Proof. reflexivity. Qed.
Lemma tof_example_odd : tof_representable true [49; 50; 51] = false. Proof. reflexivity. Qed.
Lemma tof_example_cs : tofcs_representable [49; 50; 51; 52] = true. Proof. reflexivity. Qed.
