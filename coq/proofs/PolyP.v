(* Polynomial arithmetic of utils/gfpoly.go over a field satisfying gf_ok:
   evaluation homomorphisms, division (termination, eval-level correctness). *)
From Coq Require Import FMapPositive.
From Verif Require Import Prelude GFM GFP.

#[local] Arguments Z.mul : simpl never.
#[local] Arguments Z.add : simpl never.
#[local] Arguments Z.sub : simpl never.
#[local] Arguments Z.lxor : simpl never.
#[local] Arguments Z.of_nat : simpl never.
#[local] Arguments Z.to_nat : simpl never.

Section Poly.
Variable f : gfield.
Hypothesis Hok : gf_ok f = true.

Let size := gf_size f.
Local Notation mul := (gf_mul f).
Definition inr (x : Z) : Prop := 0 <= x < gf_size f.

Lemma inr0 : inr 0.
Proof. unfold inr. pose proof (ok_size f Hok). lia. Qed.
Lemma inr1 : inr 1.
Proof. unfold inr. pose proof (ok_size f Hok). lia. Qed.
Lemma inr_mul a b : inr a -> inr b -> inr (mul a b).
Proof. apply gf_mul_range; exact Hok. Qed.
Lemma inr_xor a b : inr a -> inr b -> inr (Z.lxor a b).
Proof. apply xor_closed; exact Hok. Qed.

Hint Resolve inr0 inr1 inr_mul inr_xor : gf.

Lemma mul_0_l a : mul 0 a = 0.
Proof. reflexivity. Qed.
Lemma mul_0_r a : mul a 0 = 0.
Proof. apply gf_mul_0_r. Qed.
Lemma mul_comm a b : mul a b = mul b a.
Proof. apply gf_mul_comm. Qed.
Lemma mul_assoc a b c : inr a -> inr b -> inr c -> mul (mul a b) c = mul a (mul b c).
Proof. apply gf_mul_assoc; exact Hok. Qed.
Lemma mul_1_r a : inr a -> mul a 1 = a.
Proof. apply gf_mul_1_r; exact Hok. Qed.
Lemma mul_distr_r a b c : inr a -> inr b -> inr c -> mul (Z.lxor b c) a = Z.lxor (mul b a) (mul c a).
Proof. apply gf_mul_distr_r; exact Hok. Qed.
Lemma mul_distr_l a b c : inr a -> inr b -> inr c -> mul a (Z.lxor b c) = Z.lxor (mul a b) (mul a c).
Proof. apply gf_mul_distr_l; exact Hok. Qed.
(* (a*b)*c = (a*c)*b *)
Lemma mul_swap a b c : inr a -> inr b -> inr c -> mul (mul a b) c = mul (mul a c) b.
Proof. intros. rewrite !mul_assoc by assumption. f_equal. apply mul_comm. Qed.

(* ---------- evaluation ---------- *)
Definition step (y acc c : Z) : Z := Z.lxor (mul acc y) c.
Definition evalacc (y : Z) (l : list Z) (u : Z) : Z := fold_left (step y) l u.

Lemma step_0_l y c : step y 0 c = c.
Proof. unfold step. rewrite mul_0_l. apply Z.lxor_0_l. Qed.
Lemma step_0_r y u : step y u 0 = mul u y.
Proof. unfold step. apply Z.lxor_0_r. Qed.

Lemma poly_eval_evalacc l y : poly_eval f l y = evalacc y l 0.
Proof. reflexivity. Qed.

Lemma evalacc_app y l1 l2 u : evalacc y (l1 ++ l2) u = evalacc y l2 (evalacc y l1 u).
Proof. apply fold_left_app. Qed.

Lemma evalacc_inr y l : inr y -> Forall inr l -> forall u, inr u -> inr (evalacc y l u).
Proof.
  intros Hy Hl. induction Hl as [|c l Hc Hl IH]; intros u Hu; [exact Hu|].
  cbn [evalacc fold_left]. apply IH. unfold step. auto with gf.
Qed.

(* multiply by y, d times *)
Fixpoint shiftn (y : Z) (d : nat) (u : Z) : Z :=
  match d with O => u | S d' => shiftn y d' (mul u y) end.

Lemma shiftn_inr y d : inr y -> forall u, inr u -> inr (shiftn y d u).
Proof. intros Hy. induction d as [|d IH]; intros u Hu; [exact Hu|]. cbn [shiftn]. auto with gf. Qed.

Lemma shiftn_0 y d : shiftn y d 0 = 0.
Proof. induction d as [|d IH]; [reflexivity|]. cbn [shiftn]. rewrite mul_0_l. exact IH. Qed.

Lemma shiftn_xor y d : inr y -> forall a b, inr a -> inr b ->
  shiftn y d (Z.lxor a b) = Z.lxor (shiftn y d a) (shiftn y d b).
Proof.
  intros Hy. induction d as [|d IH]; intros a b Ha Hb; [reflexivity|].
  cbn [shiftn]. rewrite mul_distr_r by assumption. apply IH; auto with gf.
Qed.

Lemma shiftn_mul y d : inr y -> forall a b, inr a -> inr b ->
  shiftn y d (mul a b) = mul (shiftn y d a) b.
Proof.
  intros Hy. induction d as [|d IH]; intros a b Ha Hb; [reflexivity|].
  cbn [shiftn]. rewrite mul_swap by assumption. apply IH; auto with gf.
Qed.

Lemma evalacc_zeros y d u : evalacc y (repeat 0 d) u = shiftn y d u.
Proof.
  revert u. induction d as [|d IH]; intros u; [reflexivity|].
  cbn [repeat evalacc fold_left shiftn]. rewrite step_0_r. apply IH.
Qed.

(* linearity of evaluation in the accumulator *)
Lemma evalacc_lin y l : inr y -> Forall inr l -> forall u, inr u ->
  evalacc y l u = Z.lxor (shiftn y (length l) u) (evalacc y l 0).
Proof.
  intros Hy Hl. induction Hl as [|c l Hc Hl IH]; intros u Hu.
  - cbn. rewrite Z.lxor_0_r. reflexivity.
  - cbn [evalacc fold_left length shiftn]. fold (evalacc y l (step y u c)) (evalacc y l (step y 0 c)).
    rewrite step_0_l. unfold step.
    rewrite IH by auto with gf. rewrite (IH c Hc).
    rewrite shiftn_xor by auto with gf.
    rewrite !Z.lxor_assoc. reflexivity.
Qed.

Lemma xor_lists_length a : forall b, length a = length b -> length (xor_lists a b) = length a.
Proof.
  induction a as [|x a IH]; intros [|z b] H; cbn in *; try lia. f_equal. apply IH. lia.
Qed.

Lemma xor_lists_inr a : forall b, Forall inr a -> Forall inr b -> Forall inr (xor_lists a b).
Proof.
  induction a as [|x a IH]; intros [|z b] Ha Hb; cbn; try constructor.
  - inversion Ha; inversion Hb; subst. auto with gf.
  - inversion Ha; inversion Hb; subst. apply IH; assumption.
Qed.

Lemma evalacc_xor y : inr y -> forall a b, length a = length b -> Forall inr a -> Forall inr b ->
  forall u v, inr u -> inr v ->
  evalacc y (xor_lists a b) (Z.lxor u v) = Z.lxor (evalacc y a u) (evalacc y b v).
Proof.
  intros Hy. induction a as [|x a IH]; intros [|z b] Hlen Ha Hb u v Hu Hv; cbn in Hlen; try lia.
  - reflexivity.
  - inversion Ha as [|? ? Hx Ha']; inversion Hb as [|? ? Hz Hb']; subst.
    cbn [xor_lists evalacc fold_left].
    fold (evalacc y (xor_lists a b) (step y (Z.lxor u v) (Z.lxor x z))).
    fold (evalacc y a (step y u x)) (evalacc y b (step y v z)).
    replace (step y (Z.lxor u v) (Z.lxor x z)) with (Z.lxor (step y u x) (step y v z)).
    + apply IH; try assumption; try lia; unfold step; auto with gf.
    + unfold step. rewrite mul_distr_r by assumption. apply lxor_swap.
Qed.

Lemma poly_norm_cons2 x x2 l :
  poly_norm (x :: x2 :: l) = if x =? 0 then poly_norm (x2 :: l) else x :: x2 :: l.
Proof. reflexivity. Qed.

Lemma eval_norm y l : evalacc y (poly_norm l) 0 = evalacc y l 0.
Proof.
  induction l as [|x l IH]; [reflexivity|].
  destruct l as [|x2 l]; [reflexivity|].
  rewrite poly_norm_cons2. destruct (x =? 0) eqn:E; [|reflexivity].
  assert (x = 0) by lia. subst x. rewrite IH.
  cbn [evalacc fold_left]. rewrite (step_0_l y 0). reflexivity.
Qed.

Lemma norm_inr l : Forall inr l -> Forall inr (poly_norm l).
Proof.
  induction l as [|x l IH]; intros H; [constructor|].
  destruct l as [|x2 l]; [exact H|]. rewrite poly_norm_cons2. destruct (x =? 0); [|exact H].
  inversion H; subst. apply IH; assumption.
Qed.

Lemma norm_length l : (length (poly_norm l) <= length l)%nat.
Proof.
  induction l as [|x l IH]; [cbn; lia|]. destruct l as [|x2 l]; [cbn; lia|].
  rewrite poly_norm_cons2. destruct (x =? 0); cbn [length] in *; lia.
Qed.

Lemma norm_nonempty l : l <> [] -> poly_norm l <> [].
Proof.
  induction l as [|x l IH]; intros H; [congruence|]. destruct l as [|x2 l]; [cbn; congruence|].
  rewrite poly_norm_cons2. destruct (x =? 0); [apply IH|]; congruence.
Qed.

(* a polynomial value as NewGFPoly produces it *)
Definition pnormal (p : poly) : Prop :=
  match p with [] => False | [_] => True | x :: _ => x <> 0 end.

Lemma norm_pnormal l : l <> [] -> pnormal (poly_norm l).
Proof.
  induction l as [|x l IH]; intros H; [congruence|]. destruct l as [|x2 l]; [exact I|].
  rewrite poly_norm_cons2. destruct (x =? 0) eqn:E; [apply IH; congruence|]. cbn. lia.
Qed.

Lemma pnormal_cons x l : x <> 0 -> pnormal (x :: l).
Proof. destruct l; cbn; auto. Qed.

Lemma norm_id p : pnormal p -> poly_norm p = p.
Proof.
  destruct p as [|x [|x2 p]]; cbn; try tauto. intros H.
  replace (x =? 0) with false by lia. reflexivity.
Qed.

Lemma pnormal_zero p : pnormal p -> poly_is_zero p = true -> p = [0].
Proof.
  destruct p as [|x [|x2 p]]; cbn; intros H E; try tauto; try lia.
  f_equal. lia.
Qed.

Lemma eval_zero_poly y p : pnormal p -> poly_is_zero p = true -> evalacc y p 0 = 0.
Proof. intros Hn Hz. rewrite (pnormal_zero p Hn Hz). reflexivity. Qed.

Lemma firstn_skipn_len {A} (l : list A) d : (d <= length l)%nat -> length (skipn d l) = (length l - d)%nat.
Proof. intros. apply skipn_length. Qed.

(* AddOrSubstract *)
Lemma poly_add_spec y p q : inr y -> pnormal p -> pnormal q -> Forall inr p -> Forall inr q ->
  evalacc y (poly_add p q) 0 = Z.lxor (evalacc y p 0) (evalacc y q 0)
  /\ pnormal (poly_add p q) /\ Forall inr (poly_add p q)
  /\ (length (poly_add p q) <= Nat.max (length p) (length q))%nat.
Proof.
  intros Hy Hp Hq Hpr Hqr. unfold poly_add.
  destruct (poly_is_zero p) eqn:Zp.
  { rewrite (eval_zero_poly y p Hp Zp), Z.lxor_0_l. repeat split; auto; lia. }
  destruct (poly_is_zero q) eqn:Zq.
  { rewrite (eval_zero_poly y q Hq Zq), Z.lxor_0_r. repeat split; auto; lia. }
  assert (Hgen : forall small large, Forall inr small -> Forall inr large ->
            (length small <= length large)%nat -> small <> [] ->
            let r := poly_norm (firstn (length large - length small) large ++
                                xor_lists small (skipn (length large - length small) large)) in
            evalacc y r 0 = Z.lxor (evalacc y small 0) (evalacc y large 0)
            /\ pnormal r /\ Forall inr r /\ (length r <= length large)%nat).
  { intros small large Hs Hl Hlen Hne r. subst r.
    set (d := (length large - length small)%nat).
    assert (Hsk : length small = length (skipn d large)) by (rewrite skipn_length; lia).
    assert (Hfi : Forall inr (firstn d large)).
    { apply Forall_forall. intros x Hx. rewrite Forall_forall in Hl. apply Hl.
      rewrite <- (firstn_skipn d large). apply in_or_app. left. exact Hx. }
    assert (Hsi : Forall inr (skipn d large)).
    { apply Forall_forall. intros x Hx. rewrite Forall_forall in Hl. apply Hl.
      rewrite <- (firstn_skipn d large). apply in_or_app. right. exact Hx. }
    split; [|split; [|split]].
    - rewrite eval_norm, evalacc_app.
      replace (evalacc y (firstn d large) 0) with (Z.lxor 0 (evalacc y (firstn d large) 0)) by apply Z.lxor_0_l.
      rewrite evalacc_xor; auto with gf; [|apply evalacc_inr; auto with gf].
      f_equal. rewrite <- evalacc_app, firstn_skipn. reflexivity.
    - apply norm_pnormal. intros E. apply app_eq_nil in E. destruct E as [_ E].
      apply (f_equal (@length Z)) in E. rewrite xor_lists_length in E by exact Hsk.
      destruct small; [congruence|cbn in E; lia].
    - apply norm_inr. apply Forall_app. split; [exact Hfi|]. apply xor_lists_inr; assumption.
    - eapply Nat.le_trans; [apply norm_length|].
      rewrite app_length, firstn_length, xor_lists_length by exact Hsk. lia. }
  assert (p <> []) by (destruct p; [inversion Hp|congruence]).
  assert (q <> []) by (destruct q; [inversion Hq|congruence]).
  destruct (Nat.ltb (length q) (length p)) eqn:E.
  - apply Nat.ltb_lt in E. destruct (Hgen q p Hqr Hpr ltac:(lia) ltac:(assumption)) as (H1 & H2 & H3 & H4).
    repeat split; auto; [rewrite H1; apply Z.lxor_comm|lia].
  - apply Nat.ltb_ge in E. destruct (Hgen p q Hpr Hqr ltac:(lia) ltac:(assumption)) as (H1 & H2 & H3 & H4).
    repeat split; auto; lia.
Qed.

Lemma evalacc_map_scale y s l : inr y -> inr s -> Forall inr l -> forall u, inr u ->
  evalacc y (map (fun c => mul c s) l) (mul u s) = mul (evalacc y l u) s.
Proof.
  intros Hy Hs Hl. induction Hl as [|c l Hc Hl IH]; intros u Hu; [reflexivity|].
  cbn [map evalacc fold_left].
  fold (evalacc y (map (fun c => mul c s) l) (step y (mul u s) (mul c s))) (evalacc y l (step y u c)).
  rewrite <- IH by (unfold step; auto with gf). f_equal.
  unfold step. rewrite mul_distr_r by auto with gf. f_equal. apply mul_swap; assumption.
Qed.

Lemma map_scale_inr s l : inr s -> Forall inr l -> Forall inr (map (fun c => mul c s) l).
Proof. intros Hs Hl. induction Hl; cbn; constructor; auto with gf. Qed.

(* MultByMonominal *)
Lemma poly_mul_mono_spec y p d s : inr y -> inr s -> Forall inr p -> p <> [] ->
  evalacc y (poly_mul_mono f p d s) 0 = shiftn y d (mul (evalacc y p 0) s)
  /\ pnormal (poly_mul_mono f p d s) /\ Forall inr (poly_mul_mono f p d s).
Proof.
  intros Hy Hs Hp Hne. unfold poly_mul_mono. destruct (s =? 0) eqn:E.
  - assert (s = 0) by lia. subst s. rewrite mul_0_r, shiftn_0.
    split; [reflexivity|]. split; [exact I|]. constructor; auto with gf.
  - split; [|split].
    + rewrite eval_norm, evalacc_app, evalacc_zeros. f_equal.
      rewrite <- evalacc_map_scale by auto with gf. rewrite mul_0_l. reflexivity.
    + apply norm_pnormal. destruct p; [congruence|cbn; congruence].
    + apply norm_inr, Forall_app. split; [apply map_scale_inr; assumption|].
      apply Forall_forall. intros x Hx. apply repeat_spec in Hx. subst. auto with gf.
Qed.

Lemma poly_monomial_spec y d s : inr y -> inr s ->
  evalacc y (poly_monomial d s) 0 = shiftn y d s
  /\ pnormal (poly_monomial d s) /\ Forall inr (poly_monomial d s).
Proof.
  intros Hy Hs. unfold poly_monomial. destruct (s =? 0) eqn:E.
  - assert (s = 0) by lia. subst. rewrite shiftn_0.
    split; [reflexivity|]. split; [exact I|]. constructor; auto with gf.
  - split; [|split].
    + cbn [evalacc fold_left]. fold (evalacc y (repeat 0 d) (step y 0 s)).
      rewrite evalacc_zeros, step_0_l. reflexivity.
    + destruct d; cbn; [exact I|lia].
    + constructor; [exact Hs|]. apply Forall_forall. intros x Hx. apply repeat_spec in Hx. subst. auto with gf.
Qed.

(* ---------- Divide ---------- *)
Definition pmeasure (p : poly) : nat := if poly_is_zero p then O else length p.

Lemma hd_nonzero p : pnormal p -> poly_is_zero p = false -> poly_lead p <> 0 /\ inr (poly_lead p) -> poly_lead p <> 0.
Proof. tauto. Qed.

Lemma poly_lead_inr p : Forall inr p -> p <> [] -> inr (poly_lead p).
Proof. destruct p; [congruence|]. intros H _. inversion H; assumption. Qed.

(* one step of the division loop strictly decreases the measure and keeps the
   evaluation invariant *)
Lemma div_step g rem : pnormal g -> Forall inr g -> poly_is_zero g = false ->
  pnormal rem -> Forall inr rem -> poly_is_zero rem = false -> (length g <= length rem)%nat ->
  let dd := (length rem - length g)%nat in
  let scale := mul (poly_lead rem) (gf_inv f (poly_lead g)) in
  let term := poly_mul_mono f g dd scale in
  inr scale /\ (pmeasure (poly_add rem term) < pmeasure rem)%nat.
Proof.
  intros Hgn Hgr Hgz Hrn Hrr Hrz Hlen dd scale term.
  destruct g as [|g0 g']; [inversion Hgn|]. destruct rem as [|r0 rem']; [inversion Hrn|].
  cbn [poly_lead poly_is_zero] in *.
  assert (Hg0 : 1 <= g0 < gf_size f) by (inversion Hgr; subst; unfold inr in *; lia).
  assert (Hr0 : 1 <= r0 < gf_size f) by (inversion Hrr; subst; unfold inr in *; lia).
  destruct (gf_inv_spec f Hok g0 Hg0) as (_ & Hinv & Hmi).
  assert (Hsc : inr scale) by (apply inr_mul; unfold inr; lia).
  split; [exact Hsc|].
  assert (Hscn : scale <> 0).
  { intros E. apply (gf_mul_eq_0 f Hok) in E; unfold inr in *; lia. }
  (* the term has the same length and the same leading coefficient as rem *)
  assert (Hterm : term = mul g0 scale :: map (fun c => mul c scale) g' ++ repeat 0 dd).
  { unfold term, poly_mul_mono. replace (scale =? 0) with false by lia.
    cbn [map app]. apply norm_id, pnormal_cons.
    intros E. apply (gf_mul_eq_0 f Hok) in E; unfold inr in *; lia. }
  assert (Hlead : mul g0 scale = r0).
  { unfold scale. rewrite (mul_comm r0), <- mul_assoc by (unfold inr; lia).
    rewrite Hmi. rewrite mul_comm. apply mul_1_r. unfold inr; lia. }
  rewrite Hlead in Hterm.
  assert (Hlt : length term = length (r0 :: rem')).
  { rewrite Hterm. cbn [length]. rewrite app_length, map_length, repeat_length. subst dd. cbn [length] in *. lia. }
  unfold poly_add. cbn [poly_is_zero]. rewrite Hrz.
  replace (poly_is_zero term) with false by (rewrite Hterm; cbn; lia).
  rewrite Hlt, Nat.ltb_irrefl. cbv beta iota. rewrite Hlt, Nat.sub_diag. cbn [firstn skipn app].
  rewrite Hterm. cbn [xor_lists]. rewrite Z.lxor_nilpotent.
  set (tl := xor_lists rem' (map (fun c => mul c scale) g' ++ repeat 0 dd)).
  unfold pmeasure at 2. cbn [poly_is_zero]. rewrite Hrz. cbn [length].
  destruct tl as [|t0 tl'] eqn:Etl.
  - cbn. lia.
  - rewrite poly_norm_cons2. change (0 =? 0) with true. cbv iota. unfold pmeasure.
    destruct (poly_is_zero (poly_norm (t0 :: tl'))); [lia|].
    pose proof (norm_length (t0 :: tl')) as Hnl.
    assert (length (t0 :: tl') = length rem').
    { rewrite <- Etl. unfold tl. apply xor_lists_length.
      rewrite Hterm in Hlt. cbn [length] in Hlt. lia. }
    lia.
Qed.

Lemma div_loop_spec y g : inr y -> pnormal g -> Forall inr g -> poly_is_zero g = false ->
  forall fuel quot rem,
  pnormal quot -> Forall inr quot -> pnormal rem -> Forall inr rem ->
  (pmeasure rem <= fuel)%nat ->
  exists q r, poly_div_loop f fuel g (gf_inv f (poly_lead g)) quot rem = Ok (q, r)
    /\ pnormal q /\ Forall inr q /\ pnormal r /\ Forall inr r
    /\ ((length r < length g)%nat \/ poly_is_zero r = true)
    /\ (length r <= length rem)%nat
    /\ Z.lxor (mul (evalacc y q 0) (evalacc y g 0)) (evalacc y r 0)
       = Z.lxor (mul (evalacc y quot 0) (evalacc y g 0)) (evalacc y rem 0).
Proof.
  intros Hy Hgn Hgr Hgz. induction fuel as [|fuel IH]; intros quot rem Hqn Hqr Hrn Hrr Hfuel.
  - cbn [poly_div_loop]. unfold pmeasure in Hfuel.
    destruct (poly_is_zero rem) eqn:Zr.
    + rewrite andb_false_r. exists quot, rem. repeat split; auto.
    + assert (length rem = 0)%nat by lia. destruct rem; [inversion Hrn|cbn in *; lia].
  - cbn [poly_div_loop].
    destruct (Nat.leb (length g) (length rem) && negb (poly_is_zero rem)) eqn:Econd.
    + apply andb_true_iff in Econd. destruct Econd as [El Ez].
      apply Nat.leb_le in El. apply negb_true_iff in Ez.
      destruct (div_step g rem Hgn Hgr Hgz Hrn Hrr Ez El) as (Hsc & Hdec).
      set (dd := (length rem - length g)%nat) in *.
      set (scale := gf_mul f (poly_lead rem) (gf_inv f (poly_lead g))) in *.
      assert (Hgne : g <> []) by (destruct g; [inversion Hgn|congruence]).
      destruct (poly_mul_mono_spec y g dd scale Hy Hsc Hgr Hgne) as (Et & Htn & Htr).
      destruct (poly_monomial_spec y dd scale Hy Hsc) as (Em & Hmn & Hmr).
      destruct (poly_add_spec y rem _ Hy Hrn Htn Hrr Htr) as (Ear & Harn & Harr & Hal).
      destruct (poly_add_spec y quot _ Hy Hqn Hmn Hqr Hmr) as (Eaq & Haqn & Haqr & _).
      destruct (IH _ _ Haqn Haqr Harn Harr ltac:(lia))
        as (q & r & Hres & Hq1 & Hq2 & Hr1 & Hr2 & Hr3 & Hr4 & Hinv).
      exists q, r. split; [exact Hres|]. repeat split; auto.
      * (* length *)
        assert (length (poly_mul_mono f g dd scale) <= length rem)%nat.
        { unfold poly_mul_mono. destruct (scale =? 0); [cbn; destruct rem; [inversion Hrn|cbn; lia]|].
          eapply Nat.le_trans; [apply norm_length|]. rewrite app_length, map_length, repeat_length. subst dd. lia. }
        lia.
      * rewrite Hinv, Eaq, Ear, Em, Et.
        set (Q := evalacc y quot 0). set (G := evalacc y g 0). set (R := evalacc y rem 0).
        assert (inr Q) by (apply evalacc_inr; auto with gf).
        assert (inr G) by (apply evalacc_inr; auto with gf).
        rewrite mul_distr_r by (try apply shiftn_inr; auto with gf).
        rewrite <- (shiftn_mul y dd Hy scale G) by assumption. rewrite (mul_comm G scale).
        set (X := shiftn y dd (mul scale G)).
        rewrite !Z.lxor_assoc. f_equal.
        rewrite (Z.lxor_comm R), <- Z.lxor_assoc, Z.lxor_nilpotent, Z.lxor_0_l. reflexivity.
    + exists quot, rem. split; [reflexivity|]. repeat split; auto.
      apply andb_false_iff in Econd. destruct Econd as [E|E].
      * apply Nat.leb_gt in E. left; lia.
      * apply negb_false_iff in E. right; exact E.
Qed.

(* Divide: terminates (the fuel S(length p) suffices), never panics for a
   non-zero divisor, remainder shorter than the divisor, and
   dividend = quotient * divisor + remainder as functions on the field *)
Theorem poly_div_eval p g : pnormal p -> Forall inr p -> pnormal g -> Forall inr g ->
  poly_is_zero g = false ->
  exists q r, poly_div f p g = Ok (q, r)
    /\ pnormal q /\ Forall inr q /\ pnormal r /\ Forall inr r
    /\ ((length r < length g)%nat \/ poly_is_zero r = true)
    /\ forall y, inr y ->
       evalacc y p 0 = Z.lxor (mul (evalacc y q 0) (evalacc y g 0)) (evalacc y r 0).
Proof.
  intros Hpn Hpr Hgn Hgr Hgz. unfold poly_div.
  destruct g as [|g0 g'] eqn:Eg; [inversion Hgn|]. rewrite <- Eg in *.
  assert (Hz : pnormal poly_zero /\ Forall inr poly_zero).
  { split; [exact I|constructor; auto with gf]. }
  destruct Hz as [Hzn Hzr].
  assert (Hm : (pmeasure p <= S (length p))%nat) by (unfold pmeasure; destruct (poly_is_zero p); lia).
  destruct (div_loop_spec 0 g inr0 Hgn Hgr Hgz (S (length p)) poly_zero p Hzn Hzr Hpn Hpr Hm)
    as (q & r & Hres & Hq1 & Hq2 & Hr1 & Hr2 & Hr3 & _ & _).
  exists q, r. split; [exact Hres|]. repeat split; auto.
  intros y Hy.
  destruct (div_loop_spec y g Hy Hgn Hgr Hgz (S (length p)) poly_zero p Hzn Hzr Hpn Hpr Hm)
    as (q' & r' & Hres' & _ & _ & _ & _ & _ & _ & Hinv).
  rewrite Hres in Hres'. inversion Hres'; subst q' r'.
  rewrite Hinv. cbn [poly_zero evalacc fold_left]. rewrite step_0_l, mul_0_l, Z.lxor_0_l. reflexivity.
Qed.

End Poly.
