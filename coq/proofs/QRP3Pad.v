(* QR layer 3c: terminator / padding, the version search, and the complete
   characterisation of the three mode encoders (unbounded):
   encoder m content level = Ok (bits, vi)  iff  content is in the alphabet of m and
   vi is the first table row of the level with room; then bits has exactly
   8*totalDataBytes bits, the reader's segment parser maps it back to content and
   the terminator / padding bits / pad codewords are conformant.  Never Panic,
   never OutOfFuel. *)
From Verif Require Import Prelude Barcode BitListM Utf8M TabQr QRMBits QRMBlocks QRMRender QRM QRSpec
  QRP1Tables QRP2Layout QRP3Bits QRP3Seg.

Local Ltac Zify.zify_post_hook ::= Z.div_mod_to_equations.
#[local] Arguments Z.mul : simpl never.
#[local] Arguments Z.add : simpl never.
#[local] Arguments Z.sub : simpl never.
#[local] Arguments Z.div : simpl never.
#[local] Arguments Z.modulo : simpl never.
#[local] Arguments Z.pow : simpl never.
#[local] Arguments Z.of_nat : simpl never.
#[local] Arguments Z.to_nat : simpl never.
#[local] Arguments Z.testbit : simpl never.
#[local] Arguments msb_bits : simpl never.

(* ================= addPaddingAndTerminator ================= *)
Lemma term_loop_spec i : forall len cap,
  term_loop i len cap = repeat false (Z.to_nat (Z.min (Z.of_nat i) (Z.max 0 (cap - len)))).
Proof.
  induction i as [|i IH]; intros len cap.
  - cbn [term_loop]. replace (Z.to_nat (Z.min (Z.of_nat 0) (Z.max 0 (cap - len)))) with 0%nat by lia. reflexivity.
  - cbn [term_loop]. destruct (len <? cap) eqn:E.
    + rewrite IH.
      replace (Z.to_nat (Z.min (Z.of_nat (S i)) (Z.max 0 (cap - len))))
        with (S (Z.to_nat (Z.min (Z.of_nat i) (Z.max 0 (cap - (len + 1)))))) by lia.
      reflexivity.
    + replace (Z.to_nat (Z.min (Z.of_nat (S i)) (Z.max 0 (cap - len)))) with 0%nat by lia. reflexivity.
Qed.

Lemma align_loop_spec fuel : forall len, 0 <= len -> (- len) mod 8 <= Z.of_nat fuel ->
  align_loop fuel len = Ok (repeat false (Z.to_nat ((- len) mod 8))).
Proof.
  induction fuel as [|fuel IH]; intros len Hl Hf.
  - cbn [align_loop]. rewrite go_mod_pos by lia.
    replace (len mod 8 =? 0) with true by lia.
    replace (Z.to_nat ((- len) mod 8)) with 0%nat by lia. reflexivity.
  - cbn [align_loop]. rewrite go_mod_pos by lia.
    destruct (len mod 8 =? 0) eqn:E.
    + replace (Z.to_nat ((- len) mod 8)) with 0%nat by lia. reflexivity.
    + rewrite IH by lia. cbn [obind].
      replace (Z.to_nat ((- len) mod 8)) with (S (Z.to_nat ((- (len + 1)) mod 8))) by lia.
      reflexivity.
Qed.

(* k pad codewords starting with 236 when i is even *)
Fixpoint pad_seq (k : nat) (i : Z) : list bool :=
  match k with
  | O => []
  | S k' => msb_bits 8 (if i mod 2 =? 0 then 236 else 17) ++ pad_seq k' (i + 1)
  end.

Lemma pad_loop_spec k : forall fuel len cap i, 0 <= i -> cap - len = 8 * Z.of_nat k ->
  (k <= fuel)%nat -> pad_loop fuel len cap i = Ok (pad_seq k i).
Proof.
  induction k as [|k IH]; intros fuel len cap i Hi Hc Hf.
  - destruct fuel; cbn [pad_loop]; replace (len <? cap) with false by lia; reflexivity.
  - destruct fuel as [|fuel]; [lia|]. cbn [pad_loop]. replace (len <? cap) with true by lia.
    rewrite (IH fuel (len + 8) cap (i + 1)) by lia. cbn [obind pad_seq].
    rewrite go_mod_pos by lia. reflexivity.
Qed.

Lemma pad_seq_length k : forall i, length (pad_seq k i) = (8 * k)%nat.
Proof.
  induction k as [|k IH]; intros i; [reflexivity|].
  cbn [pad_seq]. rewrite app_length, msb_bits_length, IH. lia.
Qed.

Lemma pad_seq_octets k : forall i, octets (pad_seq k i).
Proof. intros i. apply (octets_of_length k). apply pad_seq_length. Qed.

Lemma pad_seq_ok k : forall i, 0 <= i ->
  pad_codewords_ok (codewords_of (pad_seq k i)) (i mod 2 =? 0) = true.
Proof.
  induction k as [|k IH]; intros i Hi; [reflexivity|].
  cbn [pad_seq]. specialize (IH (i + 1) ltac:(lia)).
  destruct (i mod 2 =? 0) eqn:E.
  - change (msb_bits 8 236) with [true; true; true; false; true; true; false; false].
    cbn [app codewords_of pad_codewords_ok].
    replace ((i + 1) mod 2 =? 0) with false in IH by lia. cbn [negb]. rewrite IH. reflexivity.
  - change (msb_bits 8 17) with [false; false; false; true; false; false; false; true].
    cbn [app codewords_of pad_codewords_ok].
    replace ((i + 1) mod 2 =? 0) with true in IH by lia. cbn [negb]. rewrite IH. reflexivity.
Qed.

(* the form of what addPaddingAndTerminator appends *)
Definition tail_form (len cap : Z) (t a : list bool) (k : nat) : Prop :=
  (t = repeat false 4 /\ (exists ka, a = repeat false ka /\ (ka < 8)%nat))
  \/ ((exists kt, t = repeat false kt /\ (kt < 4)%nat) /\ a = [] /\ k = O).

Theorem add_padding_spec bits vi :
  0 <= total_data_bytes vi -> zlength bits <= 8 * total_data_bytes vi ->
  exists t a k,
    add_padding_and_terminator bits vi = Ok (bits ++ t ++ a ++ pad_seq k 0)
    /\ zlength (bits ++ t ++ a ++ pad_seq k 0) = 8 * total_data_bytes vi
    /\ tail_form (zlength bits) (8 * total_data_bytes vi) t a k.
Proof.
  intros Ht Hl. unfold add_padding_and_terminator.
  set (cap := total_data_bytes vi * 8). set (l0 := zlength bits).
  pose proof (zlength_nonneg bits) as Hl0. fold l0 in Hl0, Hl.
  rewrite term_loop_spec. change (Z.of_nat 4) with 4.
  set (kt := Z.to_nat (Z.min 4 (Z.max 0 (cap - l0)))).
  rewrite zlength_repeat'.
  rewrite align_loop_spec by (change (Z.of_nat 8) with 8; lia). cbn [obind].
  set (ka := Z.to_nat ((- (l0 + Z.of_nat kt)) mod 8)).
  rewrite zlength_repeat'.
  set (k := Z.to_nat ((cap - (l0 + Z.of_nat kt + Z.of_nat ka)) / 8)).
  assert (Hk : cap - (l0 + Z.of_nat kt + Z.of_nat ka) = 8 * Z.of_nat k).
  { unfold k, ka, kt, cap. lia. }
  rewrite (pad_loop_spec k) by (unfold k, ka, kt, cap; lia). cbn [obind].
  exists (repeat false kt), (repeat false ka), k.
  split; [reflexivity|]. split.
  - rewrite !zlength_app', !zlength_repeat'. unfold zlength at 2. rewrite pad_seq_length.
    fold l0. unfold cap in *. lia.
  - unfold tail_form. destruct (Z_le_gt_dec 4 (cap - l0)) as [H4|H4].
    + left. replace kt with 4%nat by (unfold kt; lia). split; [reflexivity|].
      exists ka. split; [reflexivity|]. unfold ka. lia.
    + right. split; [exists kt; split; [reflexivity|unfold kt; lia]|].
      assert (ka = 0%nat) as Hka0 by (unfold ka, kt, cap; lia). rewrite Hka0.
      split; [reflexivity|]. unfold k, ka, kt, cap. lia.
Qed.

(* ================= the reader on the tail ================= *)
Lemma firstn_app_exact {A} (a p : list A) : firstn (length a) (a ++ p) = a.
Proof. induction a as [|x a IH]; cbn [length firstn app]; [destruct p; reflexivity|]. rewrite IH. reflexivity. Qed.

Lemma skipn_app_exact {A} (a p : list A) : skipn (length a) (a ++ p) = p.
Proof. induction a as [|x a IH]; cbn [length skipn app]; [reflexivity|exact IH]. Qed.

Lemma forallb_negb_repeat n : forallb negb (repeat false n) = true.
Proof. induction n as [|n IH]; [reflexivity|]. cbn. exact IH. Qed.

Theorem parse_tail v len cap t a k : tail_form len cap t a k ->
  exists rest, padding_ok rest = true
    /\ forall f, parse_segments (S f) v (t ++ a ++ pad_seq k 0) = Some ([], rest).
Proof.
  intros [[-> (ka & -> & Hka)]|[(kt & -> & Hkt) [-> ->]]].
  - exists (repeat false ka ++ pad_seq k 0). split; [|reflexivity].
    unfold padding_ok.
    assert ((length (repeat false ka ++ pad_seq k 0) mod 8)%nat = length (repeat false ka)) as ->.
    { rewrite app_length, pad_seq_length, !repeat_length. zify. lia. }
    rewrite firstn_app_exact, skipn_app_exact, forallb_negb_repeat.
    apply (pad_seq_ok k 0). lia.
  - cbn [pad_seq]. rewrite !app_nil_r. exists (repeat false kt). split.
    + destruct kt as [|[|[|[|kt]]]]; try lia; reflexivity.
    + intros f. destruct kt as [|[|[|[|kt]]]]; try lia; reflexivity.
Qed.

(* ================= one segment through the reader ================= *)
Definition parser_of (m : smode) : nat -> list bool -> option (list Z * list bool) :=
  match m with SNumeric => parse_numeric | SAlnum => parse_alnum | SByte => parse_bytes end.

Lemma spec_ccb_pos m v : 0 < spec_ccb m v.
Proof. unfold spec_ccb. destruct m; repeat match goal with |- context [if ?c then _ else _] => destruct c end; lia. Qed.

Theorem parse_segment_step f v m n data content tail :
  0 <= n < 2 ^ spec_ccb m v ->
  parser_of m (Z.to_nat n) (data ++ tail) = Some (content, tail) ->
  parse_segments (S f) v
    (msb_bits 4 (mode_of_smode m) ++ msb_bits (Z.to_nat (spec_ccb m v)) n ++ data ++ tail)
  = match parse_segments f v tail with
    | Some (more, r3) => Some (content ++ more, r3)
    | None => None
    end.
Proof.
  intros Hn Hp. pose proof (spec_ccb_pos m v) as Hc.
  assert (Hr : read_int (Z.to_nat (spec_ccb m v)) (msb_bits (Z.to_nat (spec_ccb m v)) n ++ data ++ tail)
               = Some (n, data ++ tail)).
  { apply read_int_msb. rewrite Z2Nat.id by lia. exact Hn. }
  destruct m; cbn [mode_of_smode parser_of] in *.
  - change (msb_bits 4 qr_numeric_mode) with [false; false; false; true].
    cbn [app parse_segments]. change (bits_to_Z [false; false; false; true]) with 1.
    cbn [Z.eqb Pos.eqb]. rewrite Hr, Hp. reflexivity.
  - change (msb_bits 4 qr_alphanumeric_mode) with [false; false; true; false].
    cbn [app parse_segments]. change (bits_to_Z [false; false; true; false]) with 2.
    cbn [Z.eqb Pos.eqb]. rewrite Hr, Hp. reflexivity.
  - change (msb_bits 4 qr_byte_mode) with [false; true; false; false].
    cbn [app parse_segments]. change (bits_to_Z [false; true; false; false]) with 4.
    cbn [Z.eqb Pos.eqb]. rewrite Hr, Hp. reflexivity.
Qed.

(* ================= the version search ================= *)
Definition row_of (v : Z) (l : qlevel) : vinfo := vinfo_of_row (iso_row v l).

Lemma version_infos_rows :
  version_infos = flat_map (fun v => map (row_of v) all_levels) all_versions.
Proof. vm_compute. reflexivity. Qed.

Lemma row_of_in v l : 1 <= v <= 40 -> In (row_of v l) version_infos.
Proof.
  intros Hv. rewrite version_infos_rows. apply in_flat_map. exists v.
  split; [apply in_all_versions; exact Hv|]. apply in_map. apply in_all_levels.
Qed.

Lemma row_of_fields v l : vi_version (row_of v l) = v /\ vi_level (row_of v l) = level_Z l.
Proof. split; reflexivity. Qed.

Lemma find_app' {A} (P : A -> bool) (a b : list A) :
  find P (a ++ b) = match find P a with Some x => Some x | None => find P b end.
Proof. induction a as [|x a IH]; cbn [app find]; [reflexivity|]. destruct (P x); [reflexivity|exact IH]. Qed.

Lemma find_level_rows mode db v l :
  find (fits_row (level_Z l) mode db) (map (row_of v) all_levels)
  = if fits_row (level_Z l) mode db (row_of v l) then Some (row_of v l) else None.
Proof.
  assert (H : forall l', l' <> l -> fits_row (level_Z l) mode db (row_of v l') = false).
  { intros l' Hne. unfold fits_row. rewrite (proj2 (row_of_fields v l')).
    destruct l', l; try congruence; reflexivity. }
  unfold all_levels. cbn [map find]. destruct l.
  - rewrite (H LvM), (H LvQ), (H LvH) by discriminate. destruct (fits_row _ _ _ _); reflexivity.
  - rewrite (H LvL), (H LvQ), (H LvH) by discriminate. destruct (fits_row _ _ _ _); reflexivity.
  - rewrite (H LvL), (H LvM), (H LvH) by discriminate. destruct (fits_row _ _ _ _); reflexivity.
  - rewrite (H LvL), (H LvM), (H LvQ) by discriminate. destruct (fits_row _ _ _ _); reflexivity.
Qed.

Lemma find_bad_level_rows level mode db v : level_of_Z level = None ->
  find (fits_row level mode db) (map (row_of v) all_levels) = None.
Proof.
  intros El.
  assert (H : forall l', fits_row level mode db (row_of v l') = false).
  { intros l'. unfold fits_row. rewrite (proj2 (row_of_fields v l')).
    unfold level_of_Z in El.
    destruct (level =? 0) eqn:E0; [discriminate|].
    destruct (level =? 1) eqn:E1; [discriminate|].
    destruct (level =? 2) eqn:E2; [discriminate|].
    destruct (level =? 3) eqn:E3; [discriminate|].
    destruct l'; [change (level_Z LvL) with 0; replace (0 =? level) with false by lia
      | change (level_Z LvM) with 1; replace (1 =? level) with false by lia
      | change (level_Z LvQ) with 2; replace (2 =? level) with false by lia
      | change (level_Z LvH) with 3; replace (3 =? level) with false by lia]; reflexivity. }
  unfold all_levels. cbn [map find]. rewrite !H. reflexivity.
Qed.

(* searching the table = searching the versions 1..40 at the level *)
Theorem find_smallest_spec level mode db :
  find_smallest_version_info level mode db =
  match level_of_Z level with
  | None => None
  | Some l =>
    match find (fun v => fits_row level mode db (row_of v l)) all_versions with
    | Some v => Some (row_of v l)
    | None => None
    end
  end.
Proof.
  unfold find_smallest_version_info. rewrite version_infos_rows.
  generalize all_versions as vs.
  destruct (level_of_Z level) as [l|] eqn:El.
  - apply level_of_Z_some in El. subst level.
    induction vs as [|v vs IH]; [reflexivity|].
    cbn [flat_map find]. rewrite find_app', IH, find_level_rows.
    destruct (fits_row (level_Z l) mode db (row_of v l)); reflexivity.
  - induction vs as [|v vs IH]; [reflexivity|].
    cbn [flat_map]. rewrite find_app', IH, find_bad_level_rows by exact El. reflexivity.
Qed.

Lemma find_sseq_some (P : Z -> bool) : forall n lo v, find P (sseq lo n) = Some v ->
  lo <= v < lo + Z.of_nat n /\ P v = true /\ forall v', lo <= v' < v -> P v' = false.
Proof.
  induction n as [|n IH]; intros lo v H; [discriminate|].
  cbn [sseq find] in H. destruct (P lo) eqn:E.
  - inversion H; subst. split; [lia|]. split; [exact E|]. intros; lia.
  - apply IH in H. destruct H as (H1 & H2 & H3). split; [lia|]. split; [exact H2|].
    intros v' Hv'. destruct (Z.eq_dec v' lo) as [->|]; [exact E|]. apply H3. lia.
Qed.

Lemma find_sseq_none (P : Z -> bool) : forall n lo, find P (sseq lo n) = None ->
  forall v, lo <= v < lo + Z.of_nat n -> P v = false.
Proof.
  induction n as [|n IH]; intros lo H v Hv; [lia|].
  cbn [sseq find] in H. destruct (P lo) eqn:E; [discriminate|].
  destruct (Z.eq_dec v lo) as [->|]; [exact E|]. apply (IH (lo + 1)); [exact H|lia].
Qed.

(* the model's room test on a table row is the specification's capacity test *)
Lemma fits_row_spec m l n v : 1 <= v <= 40 ->
  fits_row (level_Z l) (mode_of_smode m) (spec_data_bits m n) (row_of v l) = spec_fits m l n v.
Proof.
  intros Hv. unfold fits_row, spec_fits.
  rewrite !(proj2 (row_of_fields v l)), (proj1 (row_of_fields v l)), Z.eqb_refl. cbn [andb].
  pose proof (row_ok_in _ (row_of_in v l Hv)) as Hrow. unfold row_ok in Hrow.
  rewrite (proj2 (row_of_fields v l)), level_of_Z_Z, (proj1 (row_of_fields v l)) in Hrow.
  assert (Ht : total_data_bytes (row_of v l) = spec_data_codewords v l).
  { repeat (apply andb_true_iff in Hrow; destruct Hrow as [Hrow ?]). lia. }
  rewrite Ht.
  destruct (qr_char_count_bits_iso v Hv) as (C1 & C2 & C3).
  destruct m; cbn [mode_of_smode]; rewrite ?C1, ?C2, ?C3; lia.
Qed.

(* ================= the three encoders, uniformly ================= *)
Definition encoder_of (m : smode) : list Z -> Z -> outcome (list bool * vinfo) :=
  match m with
  | SNumeric => encode_numeric
  | SAlnum => encode_alphanumeric
  | SByte => encode_unicode
  end.

Definition alphabet_ok (m : smode) (content : list Z) : bool :=
  match m with
  | SNumeric => forallb is_digit content
  | SAlnum => forallb in_cs content
  | SByte => true
  end.

Definition data_bits_of (m : smode) (content : list Z) : list bool :=
  match m with
  | SNumeric => num_bits content
  | SAlnum => alnum_bits content
  | SByte => flat_map (msb_bits 8) content
  end.

Definition header_of (m : smode) (v n : Z) : list bool :=
  msb_bits 4 (mode_of_smode m) ++ msb_bits (Z.to_nat (char_count_bits v (mode_of_smode m))) n.

Lemma alphabet_ok_iso m content : alphabet_ok m content = in_mode_alphabet m content.
Proof.
  destruct m; cbn [alphabet_ok in_mode_alphabet]; [reflexivity| |reflexivity].
  induction content as [|c s IH]; [reflexivity|]. cbn [forallb]. rewrite IH, in_cs_iso. reflexivity.
Qed.

Lemma data_bits_of_length m content :
  zlength (data_bits_of m content) = spec_data_bits m (zlength content).
Proof. destruct m; [apply num_bits_length|apply alnum_bits_length|apply byte_bits_length]. Qed.

(* every encoder is: search the row, check the alphabet, emit header + data, pad *)
Theorem encoder_unfold m content ecl :
  encoder_of m content ecl =
  match find_smallest_version_info ecl (mode_of_smode m) (spec_data_bits m (zlength content)) with
  | None => Err
  | Some vi =>
    if alphabet_ok m content then
      do bits <- add_padding_and_terminator
                   (header_of m (vi_version vi) (zlength content) ++ data_bits_of m content) vi;
      Ok (bits, vi)
    else Err
  end.
Proof.
  pose proof (zlength_nonneg content) as Hn.
  destruct m; cbn [encoder_of mode_of_smode alphabet_ok data_bits_of].
  - unfold encode_numeric.
    assert (go_div (zlength content) 3 * 10 +
            match go_mod (zlength content) 3 with 1 => 4 | 2 => 7 | _ => 0 end
            = spec_data_bits SNumeric (zlength content)) as ->.
    { rewrite go_div_pos, go_mod_pos by lia. unfold spec_data_bits.
      assert (zlength content mod 3 = 0 \/ zlength content mod 3 = 1 \/ zlength content mod 3 = 2) as [E|[E|E]] by lia;
        rewrite E; cbn [Z.eqb Pos.eqb]; lia. }
    destruct (find_smallest_version_info _ _ _) as [vi|]; [|reflexivity].
    rewrite numeric_groups_spec. destruct (forallb is_digit content); [|reflexivity].
    cbn [obind]. unfold header_of. cbn [mode_of_smode]. rewrite <- app_assoc. reflexivity.
  - unfold encode_alphanumeric.
    assert (go_div (zlength content) 2 * 11 + (if go_mod (zlength content) 2 =? 1 then 6 else 0)
            = spec_data_bits SAlnum (zlength content)) as ->.
    { rewrite go_div_pos, go_mod_pos by lia. unfold spec_data_bits.
      destruct (zlength content mod 2 =? 1) eqn:E; lia. }
    destruct (find_smallest_version_info _ _ _) as [vi|]; [|reflexivity].
    pose proof (alnum_stage_spec content) as Hst. unfold alnum_stage in Hst.
    destruct (alpha_pairs (Z.to_nat (go_div (zlength content) 2)) (alpha_channel (utf8_decode content)))
      as [[pairs ch']| | |]; cbn [obind] in *;
      try (destruct (forallb in_cs content); (discriminate || reflexivity)).
    destruct (go_mod (zlength content) 2 =? 1).
    + destruct (recv ch') as [c rest]. destruct (c <? 0); cbn [obind] in *.
      * destruct (forallb in_cs content); [discriminate|reflexivity].
      * destruct (forallb in_cs content); [|discriminate]. inversion Hst as [Hb]. try rewrite <- Hb.
        unfold header_of. cbn [mode_of_smode]. rewrite <- !app_assoc. reflexivity.
    + cbn [obind] in *. destruct (forallb in_cs content); [|discriminate]. inversion Hst as [Hb]. try rewrite <- Hb.
      unfold header_of. cbn [mode_of_smode]. rewrite <- !app_assoc. reflexivity.
  - unfold encode_unicode.
    replace (zlength content * 8) with (spec_data_bits SByte (zlength content)) by (unfold spec_data_bits; lia).
    destruct (find_smallest_version_info _ _ _) as [vi|]; [|reflexivity].
    unfold header_of. cbn [mode_of_smode]. rewrite <- app_assoc. reflexivity.
Qed.

(* facts about a row returned by the search *)
Lemma find_smallest_some ecl mode db vi :
  find_smallest_version_info ecl mode db = Some vi ->
  In vi version_infos /\ vi_level vi = ecl
  /\ db + 4 + char_count_bits (vi_version vi) mode <= total_data_bytes vi * 8.
Proof.
  unfold find_smallest_version_info. intros H. apply find_some in H. destruct H as [Hin Hf].
  unfold fits_row in Hf. apply andb_true_iff in Hf. split; [exact Hin|]. lia.
Qed.

Lemma row_facts vi : In vi version_infos ->
  exists l, level_of_Z (vi_level vi) = Some l /\ 1 <= vi_version vi <= 40
    /\ 1 <= total_data_bytes vi /\ total_data_bytes vi = spec_data_codewords (vi_version vi) l.
Proof.
  intros Hin. pose proof (row_ok_in vi Hin) as H. unfold row_ok in H.
  destruct (level_of_Z (vi_level vi)) as [l|]; [|discriminate]. exists l.
  repeat (apply andb_true_iff in H; destruct H as [H ?]). repeat split; lia.
Qed.

Theorem encoder_ok m content ecl bits vi :
  (m = SByte -> Forall (fun c => 0 <= c < 256) content) ->
  encoder_of m content ecl = Ok (bits, vi) ->
  find_smallest_version_info ecl (mode_of_smode m) (spec_data_bits m (zlength content)) = Some vi
  /\ alphabet_ok m content = true
  /\ zlength bits = 8 * total_data_bytes vi
  /\ exists rest, parse_segments (S (length bits)) (vi_version vi) bits = Some (content, rest)
       /\ padding_ok rest = true.
Proof.
  intros Hbytes H. rewrite encoder_unfold in H.
  destruct (find_smallest_version_info _ _ _) as [vi'|] eqn:Ef; [|discriminate].
  destruct (alphabet_ok m content) eqn:Ea; [|discriminate].
  destruct (find_smallest_some _ _ _ _ Ef) as (Hin & Hlvl & Hroom).
  destruct (row_facts vi' Hin) as (l & Hl & Hv & Htdb & _).
  pose proof (zlength_nonneg content) as Hn.
  assert (Hccb : char_count_bits (vi_version vi') (mode_of_smode m) = spec_ccb m (vi_version vi')).
  { destruct (qr_char_count_bits_iso _ Hv) as (C1 & C2 & C3). destruct m; assumption. }
  pose proof (spec_ccb_pos m (vi_version vi')) as Hcp.
  set (stream := header_of m (vi_version vi') (zlength content) ++ data_bits_of m content) in *.
  assert (Hlen : zlength stream = 4 + spec_ccb m (vi_version vi') + spec_data_bits m (zlength content)).
  { subst stream. unfold header_of. rewrite !zlength_app', !zlength_msb_bits, data_bits_of_length, Hccb.
    change (Z.of_nat 4) with 4. lia. }
  destruct (add_padding_spec stream vi' ltac:(lia) ltac:(lia)) as (t & a & k & Epad & Elen & Hform).
  rewrite Epad in H. cbn [obind] in H.
  assert (Hb : stream ++ t ++ a ++ pad_seq k 0 = bits /\ vi' = vi) by (split; congruence).
  destruct Hb as [<- ->]. clear H.
  split; [reflexivity|]. split; [reflexivity|]. split; [exact Elen|].
  destruct (parse_tail (vi_version vi) _ _ t a k Hform) as (rest & Hok & Hp).
  exists rest. split; [|exact Hok].
  (* the count field does not truncate *)
  assert (Hcnt : zlength content < 2 ^ spec_ccb m (vi_version vi)).
  { apply (count_fits vi m); [exact Hin|lia|lia]. }
  subst stream. unfold header_of. rewrite Hccb, <- !app_assoc.
  set (tl := t ++ a ++ pad_seq k 0) in *.
  rewrite app_length, (msb_bits_length 4). cbn [Nat.add].
  rewrite (parse_segment_step _ _ m (zlength content) (data_bits_of m content) content tl);
    [ | lia
      | rewrite to_nat_zlength; destruct m; cbn [parser_of data_bits_of alphabet_ok] in *;
        [apply parse_numeric_num_bits; exact Ea | apply parse_alnum_alnum_bits; exact Ea
        | apply parse_bytes_bits; apply Hbytes; reflexivity] ].
  unfold tl. rewrite Hp, app_nil_r. reflexivity.
Qed.

(* an encoder never panics or runs out of fuel; it fails exactly when no row has
   room or a character is outside the alphabet *)
Theorem encoder_total m content ecl :
  (exists bits vi, encoder_of m content ecl = Ok (bits, vi))
  \/ (encoder_of m content ecl = Err
      /\ (find_smallest_version_info ecl (mode_of_smode m) (spec_data_bits m (zlength content)) = None
          \/ alphabet_ok m content = false)).
Proof.
  rewrite encoder_unfold.
  destruct (find_smallest_version_info _ _ _) as [vi|] eqn:Ef; [|right; auto].
  destruct (alphabet_ok m content) eqn:Ea; [|right; auto]. left.
  destruct (find_smallest_some _ _ _ _ Ef) as (Hin & Hlvl & Hroom).
  destruct (row_facts vi Hin) as (l & Hl & Hv & Htdb & _).
  pose proof (zlength_nonneg content) as Hn.
  assert (Hccb : 0 < char_count_bits (vi_version vi) (mode_of_smode m)).
  { destruct (qr_char_count_bits_iso _ Hv) as (C1 & C2 & C3).
    pose proof (spec_ccb_pos m (vi_version vi)). destruct m; cbn [mode_of_smode]; lia. }
  set (stream := header_of m (vi_version vi) (zlength content) ++ data_bits_of m content).
  assert (Hlen : zlength stream <= 8 * total_data_bytes vi).
  { subst stream. unfold header_of. rewrite !zlength_app', !zlength_msb_bits, data_bits_of_length.
    change (Z.of_nat 4) with 4. lia. }
  destruct (add_padding_spec stream vi ltac:(lia) Hlen) as (t & a & k & Epad & _).
  rewrite Epad. cbn [obind]. eauto.
Qed.

(* the part of encoder_ok that needs no assumption on the content *)
Theorem encoder_ok_shape m content ecl bits vi :
  encoder_of m content ecl = Ok (bits, vi) ->
  find_smallest_version_info ecl (mode_of_smode m) (spec_data_bits m (zlength content)) = Some vi
  /\ alphabet_ok m content = true
  /\ zlength bits = 8 * total_data_bytes vi.
Proof.
  intros H. rewrite encoder_unfold in H.
  destruct (find_smallest_version_info _ _ _) as [vi'|] eqn:Ef; [|discriminate].
  destruct (alphabet_ok m content) eqn:Ea; [|discriminate].
  destruct (find_smallest_some _ _ _ _ Ef) as (Hin & Hlvl & Hroom).
  destruct (row_facts vi' Hin) as (l & Hl & Hv & Htdb & _).
  pose proof (zlength_nonneg content) as Hn.
  assert (Hccb : char_count_bits (vi_version vi') (mode_of_smode m) = spec_ccb m (vi_version vi')).
  { destruct (qr_char_count_bits_iso _ Hv) as (C1 & C2 & C3). destruct m; assumption. }
  pose proof (spec_ccb_pos m (vi_version vi')) as Hcp.
  set (stream := header_of m (vi_version vi') (zlength content) ++ data_bits_of m content) in *.
  assert (Hlen : zlength stream = 4 + spec_ccb m (vi_version vi') + spec_data_bits m (zlength content)).
  { unfold stream, header_of. rewrite !zlength_app', !zlength_msb_bits, data_bits_of_length, Hccb.
    change (Z.of_nat 4) with 4. lia. }
  destruct (add_padding_spec stream vi' ltac:(lia) ltac:(lia)) as (t & a & k & Epad & Elen & Hform).
  rewrite Epad in H. cbn [obind] in H.
  assert (Hb : stream ++ t ++ a ++ pad_seq k 0 = bits /\ vi' = vi) by (split; congruence).
  destruct Hb as [<- ->]. auto.
Qed.

(* density: what fits as bytes fits as alphanumeric, what fits as alphanumeric fits as numeric *)
Lemma spec_fits_alnum_numeric l n v : 0 <= n ->
  spec_fits SAlnum l n v = true -> spec_fits SNumeric l n v = true.
Proof.
  unfold spec_fits, spec_data_bits, spec_ccb. intros Hn H.
  destruct (v <=? 9); [|destruct (v <=? 26)];
    destruct (n mod 3 =? 0) eqn:E0; try destruct (n mod 3 =? 1) eqn:E1; lia.
Qed.

Lemma spec_fits_byte_alnum l n v : 0 <= n ->
  spec_fits SByte l n v = true -> spec_fits SAlnum l n v = true.
Proof.
  unfold spec_fits, spec_data_bits, spec_ccb. intros Hn H.
  destruct (v <=? 9); [|destruct (v <=? 26)]; lia.
Qed.
