(* non-vacuity witnesses shared by the cross-cutting property files C11-C13 *)
From Verif Require Import Prelude Barcode.
From Verif Require Import DataMatrixM DataMatrixP1 DataMatrixProps QRM QRProps QRP6Compose AztecM AztecProps Pdf417M Pdf417Props.

Definition accepted {A} (r : outcome A) : Prop := exists x, r = Ok x.

Lemma twod_examples :
  accepted (dm_encode [72; 101; 108; 108; 111; 32; 49; 50; 51; 52])
  /\ bytes [72; 101; 108; 108; 111; 32; 49; 50; 51; 52]
  /\ accepted (qr_encode [104; 101; 108; 108; 111] 1 0 3)
  /\ is_bytes [104; 101; 108; 108; 111] /\ valid_encoding 0
  /\ accepted (az_encode c03_hello 33 0) /\ az_in_domain c03_hello 33
  /\ accepted (pdf_encode pdf_ex_padpunct 2 3) /\ pdf_bytes pdf_ex_padpunct.
Proof.
  assert (Hq : accepted (qr_encode [104; 101; 108; 108; 111] 1 0 3)).
  { pose proof qr_example_hello as H. destruct (qr_encode [104; 101; 108; 108; 111] 1 0 3); try contradiction. eexists; reflexivity. }
  assert (Ha : accepted (az_encode c03_hello 33 0)).
  { pose proof az_c03_example_auto as H. destruct (az_encode c03_hello 33 0); try contradiction. eexists; reflexivity. }
  assert (Hd : accepted (dm_encode [72; 101; 108; 108; 111; 32; 49; 50; 51; 52])).
  { destruct dm_example_hello as (bc & H & _). exists bc. exact H. }
  assert (Hp : accepted (pdf_encode pdf_ex_padpunct 2 3)).
  { destruct (pdf_encode pdf_ex_padpunct 2 3) as [bc| | |] eqn:E; [eexists; reflexivity| | |];
      exfalso; pose proof pdf_c04_example_padpunct as H; unfold pdf_ex_ok in H; rewrite E in H; discriminate. }
  split; [exact Hd|]. split; [repeat constructor; unfold DataMatrixP1.is_byte; lia|].
  split; [exact Hq|]. split; [repeat constructor; lia|]. split; [left; reflexivity|].
  split; [exact Ha|]. split; [exact az_c03_example_domain|].
  split; [exact Hp|]. repeat constructor; unfold Pdf417PNum.is_byte; lia.
Qed.
