(* QR layer 3a: bit-level lemmas (unbounded, by induction).
   msb_bits / bits_to_Z round trips, reading fixed-width fields, bytes <-> bits,
   Go's integer division on non-negative operands, UTF-8 decoding of ASCII. *)
From Verif Require Import Prelude Barcode BitListM Utf8M TabQr QRMBits QRMBlocks QRMRender QRM QRSpec
  QRP1Tables QRP2Layout.

Local Ltac Zify.zify_post_hook ::= Z.div_mod_to_equations.
#[local] Arguments Z.mul : simpl never.
#[local] Arguments Z.add : simpl never.
#[local] Arguments Z.sub : simpl never.
#[local] Arguments Z.div : simpl never.
#[local] Arguments Z.modulo : simpl never.
#[local] Arguments Z.pow : simpl never.
#[local] Arguments Z.of_nat : simpl never.
#[local] Arguments Z.to_nat : simpl never.
#[local] Arguments Z.testbit : simpl never.

(* ---------- lists ---------- *)
Lemma zlength_nonneg {A} (l : list A) : 0 <= zlength l.
Proof. unfold zlength. lia. Qed.

Lemma zlength_app' {A} (l l' : list A) : zlength (l ++ l') = zlength l + zlength l'.
Proof. unfold zlength. rewrite app_length. lia. Qed.

Lemma zlength_cons {A} (x : A) l : zlength (x :: l) = zlength l + 1.
Proof. unfold zlength. cbn [length]. lia. Qed.

Lemma zlength_nil {A} : zlength (@nil A) = 0.
Proof. reflexivity. Qed.

Lemma zlength_repeat' {A} (x : A) n : zlength (repeat x n) = Z.of_nat n.
Proof. unfold zlength. rewrite repeat_length. reflexivity. Qed.

Lemma to_nat_zlength {A} (l : list A) : Z.to_nat (zlength l) = length l.
Proof. unfold zlength. lia. Qed.

(* ---------- msb_bits and bits_to_Z ---------- *)
Definition bstep (acc : Z) (b : bool) : Z := 2 * acc + (if b then 1 else 0).

Lemma bits_to_Z_fold l : bits_to_Z l = fold_left bstep l 0.
Proof. reflexivity. Qed.

Lemma msb_bits_length k v : length (msb_bits k v) = k.
Proof. induction k as [|k IH]; cbn [msb_bits length]; [reflexivity|]. rewrite IH. reflexivity. Qed.

Lemma zlength_msb_bits k v : zlength (msb_bits k v) = Z.of_nat k.
Proof. unfold zlength. rewrite msb_bits_length. reflexivity. Qed.

Lemma testbit_step v k : 0 <= v ->
  v mod 2 ^ (Z.of_nat (S k)) = (if Z.testbit v (Z.of_nat k) then 1 else 0) * 2 ^ Z.of_nat k + v mod 2 ^ Z.of_nat k.
Proof.
  intros Hv. replace (Z.of_nat (S k)) with (Z.of_nat k + 1) by lia.
  rewrite Z.pow_add_r by lia. change (2 ^ 1) with 2.
  assert (Hp : 0 < 2 ^ Z.of_nat k) by (apply Z.pow_pos_nonneg; lia).
  rewrite Z.rem_mul_r by lia.
  pose proof (Z.testbit_spec' v (Z.of_nat k) ltac:(lia)) as Hb.
  destruct (Z.testbit v (Z.of_nat k)); cbn [Z.b2z] in Hb; lia.
Qed.

Lemma fold_msb_bits k : forall v a, 0 <= v ->
  fold_left bstep (msb_bits k v) a = a * 2 ^ Z.of_nat k + v mod 2 ^ Z.of_nat k.
Proof.
  induction k as [|k IH]; intros v a Hv.
  - cbn [msb_bits fold_left]. change (2 ^ Z.of_nat 0) with 1. rewrite Z.mod_1_r. lia.
  - cbn [msb_bits fold_left]. rewrite IH by exact Hv. unfold bstep.
    rewrite (testbit_step v k Hv).
    replace (Z.of_nat (S k)) with (Z.of_nat k + 1) by lia.
    rewrite Z.pow_add_r by lia. change (2 ^ 1) with 2.
    destruct (Z.testbit v (Z.of_nat k)); lia.
Qed.

Lemma bits_to_Z_msb k v : 0 <= v < 2 ^ Z.of_nat k -> bits_to_Z (msb_bits k v) = v.
Proof.
  intros Hv. rewrite bits_to_Z_fold, fold_msb_bits by lia.
  rewrite Z.mod_small by lia. lia.
Qed.

Lemma take_bits_app h : forall r, take_bits (length h) (h ++ r) = Some (h, r).
Proof.
  induction h as [|b h IH]; intros r; cbn [length take_bits app]; [reflexivity|].
  rewrite IH. reflexivity.
Qed.

Lemma read_int_msb k v r : 0 <= v < 2 ^ Z.of_nat k ->
  read_int k (msb_bits k v ++ r) = Some (v, r).
Proof.
  intros Hv. unfold read_int.
  replace k with (length (msb_bits k v)) at 1 by apply msb_bits_length.
  rewrite take_bits_app, bits_to_Z_msb by exact Hv. reflexivity.
Qed.

(* ---------- bytes <-> bits ---------- *)
Lemma bits_val_fold l a : bits_val l a = fold_left bstep l a.
Proof.
  revert a. induction l as [|b l IH]; intros a; cbn [bits_val fold_left]; [reflexivity|].
  rewrite IH. unfold bstep. destruct b; reflexivity.
Qed.

Lemma msb8 c : msb_bits 8 c = map (Z.testbit c) [7; 6; 5; 4; 3; 2; 1; 0].
Proof. reflexivity. Qed.

Lemma bits_of_codewords_eq l : bits_of_codewords l = bits_of_bytes l.
Proof. reflexivity. Qed.

(* packing 8 bits and unpacking them again *)
Lemma byte_bits_roundtrip b7 b6 b5 b4 b3 b2 b1 b0 :
  msb_bits 8 (bits_val [b7; b6; b5; b4; b3; b2; b1; b0] 0) = [b7; b6; b5; b4; b3; b2; b1; b0].
Proof. destruct b7, b6, b5, b4, b3, b2, b1, b0; reflexivity. Qed.

Lemma byte_val_range b7 b6 b5 b4 b3 b2 b1 b0 :
  0 <= bits_val [b7; b6; b5; b4; b3; b2; b1; b0] 0 < 256.
Proof. destruct b7, b6, b5, b4, b3, b2, b1, b0; cbn; lia. Qed.

(* a bit list whose length is a multiple of 8, as an explicit predicate *)
Inductive octets : list bool -> Prop :=
| octets_nil : octets []
| octets_cons b7 b6 b5 b4 b3 b2 b1 b0 l :
    octets l -> octets (b7 :: b6 :: b5 :: b4 :: b3 :: b2 :: b1 :: b0 :: l).

Lemma octets_of_length : forall n (l : list bool), length l = (8 * n)%nat -> octets l.
Proof.
  induction n as [|n IH]; intros l H.
  - destruct l; [constructor|cbn in H; lia].
  - do 8 (destruct l as [|? l]; [cbn in H; lia|]).
    constructor. apply IH. cbn [length] in H. lia.
Qed.

Lemma octets_app a b : octets a -> octets b -> octets (a ++ b).
Proof. intros Ha Hb. induction Ha; cbn [app]; [exact Hb|constructor; exact IHHa]. Qed.

Lemma octets_length l : octets l -> exists n, length l = (8 * n)%nat.
Proof.
  intros H. induction H as [|? ? ? ? ? ? ? ? l H [n IH]]; [exists 0%nat; reflexivity|].
  exists (S n). cbn [length]. lia.
Qed.

Lemma bits_of_bytes_of_bits l : octets l -> bits_of_bytes (bytes_of_bits l) = l.
Proof.
  intros H. induction H as [|b7 b6 b5 b4 b3 b2 b1 b0 l H IH]; [reflexivity|].
  cbn [bytes_of_bits]. unfold bits_of_bytes in *. cbn [flat_map].
  rewrite IH, byte_bits_roundtrip. reflexivity.
Qed.

Lemma bytes_of_bits_range l : Forall (fun c => 0 <= c < 256) (bytes_of_bits l).
Proof.
  assert (forall n (l : list bool), (length l <= n)%nat -> Forall (fun c => 0 <= c < 256) (bytes_of_bits l)) as H.
  { induction n as [|n IH]; intros l0 Hl.
    - destruct l0; [constructor|cbn in Hl; lia].
    - destruct l0 as [|b7 l0]; [constructor|].
      destruct l0 as [|b6 l0]; [repeat constructor; destruct b7; cbn; lia|].
      destruct l0 as [|b5 l0]; [repeat constructor; destruct b7, b6; cbn; lia|].
      destruct l0 as [|b4 l0]; [repeat constructor; destruct b7, b6, b5; cbn; lia|].
      destruct l0 as [|b3 l0]; [repeat constructor; destruct b7, b6, b5, b4; cbn; lia|].
      destruct l0 as [|b2 l0]; [repeat constructor; destruct b7, b6, b5, b4, b3; cbn; lia|].
      destruct l0 as [|b1 l0]; [repeat constructor; destruct b7, b6, b5, b4, b3, b2; cbn; lia|].
      destruct l0 as [|b0 l0]; [repeat constructor; destruct b7, b6, b5, b4, b3, b2, b1; cbn; lia|].
      cbn [bytes_of_bits]. constructor; [apply byte_val_range|].
      apply IH. cbn [length] in Hl. lia. }
  apply (H (length l)). lia.
Qed.

Lemma bytes_of_bits_length l : octets l -> (8 * length (bytes_of_bits l) = length l)%nat.
Proof.
  intros H. induction H as [|? ? ? ? ? ? ? ? l H IH]; [reflexivity|].
  cbn [bytes_of_bits length]. lia.
Qed.

(* the reader's codewords_of on what the encoder packed *)
Lemma codewords_of_bits_val b7 b6 b5 b4 b3 b2 b1 b0 :
  bits_to_Z [b7; b6; b5; b4; b3; b2; b1; b0] = bits_val [b7; b6; b5; b4; b3; b2; b1; b0] 0.
Proof. rewrite bits_val_fold. reflexivity. Qed.

Lemma codewords_of_octets l : octets l -> codewords_of l = bytes_of_bits l.
Proof.
  intros H. induction H as [|b7 b6 b5 b4 b3 b2 b1 b0 l H IH]; [reflexivity|].
  cbn [codewords_of bytes_of_bits]. rewrite IH, codewords_of_bits_val. reflexivity.
Qed.

(* trailing bits that do not fill a codeword are dropped *)
Lemma codewords_of_app_short l r : octets l -> (length r < 8)%nat -> codewords_of (l ++ r) = codewords_of l.
Proof.
  intros H Hr. induction H as [|b7 b6 b5 b4 b3 b2 b1 b0 l H IH].
  - cbn [app]. do 8 (destruct r as [|? r]; [reflexivity|]). cbn [length] in Hr. lia.
  - cbn [app codewords_of]. rewrite IH. reflexivity.
Qed.

Lemma msb8_byte c : 0 <= c < 256 -> bits_val (msb_bits 8 c) 0 = c.
Proof. intros H. rewrite bits_val_fold. apply (bits_to_Z_msb 8 c). exact H. Qed.

Lemma octets_bits_of_bytes l : octets (bits_of_bytes l).
Proof.
  induction l as [|c l IH]; [constructor|].
  unfold bits_of_bytes in *. cbn [flat_map]. rewrite msb8. cbn [map app]. constructor. exact IH.
Qed.

Lemma bytes_of_bits_of_bytes l : Forall (fun c => 0 <= c < 256) l -> bytes_of_bits (bits_of_bytes l) = l.
Proof.
  intros H. induction H as [|c l Hc H IH]; [reflexivity|].
  unfold bits_of_bytes in *. cbn [flat_map].
  pose proof (msb8_byte c Hc) as E. rewrite msb8 in *. cbn [map app] in *.
  cbn [bytes_of_bits]. rewrite IH, E. reflexivity.
Qed.

Lemma bits_of_bytes_app a b : bits_of_bytes (a ++ b) = bits_of_bytes a ++ bits_of_bytes b.
Proof. unfold bits_of_bytes. apply flat_map_app. Qed.

Lemma bits_of_bytes_length l : length (bits_of_bytes l) = (8 * length l)%nat.
Proof.
  induction l as [|c l IH]; [reflexivity|].
  unfold bits_of_bytes in *. cbn [flat_map]. rewrite app_length, msb_bits_length, IH. cbn [length]. lia.
Qed.

(* ---------- Go arithmetic on non-negative operands ---------- *)
Lemma go_div_pos a b : 0 <= a -> 0 < b -> go_div a b = a / b.
Proof. apply go_div_nonneg'. Qed.
Lemma go_mod_pos a b : 0 <= a -> 0 < b -> go_mod a b = a mod b.
Proof. apply go_mod_nonneg'. Qed.

(* ---------- UTF-8 decoding: only ASCII bytes give runes below 128 ---------- *)
Lemma utf8_decode1_cases b rest :
  (utf8_in 0 127 b = true /\ utf8_decode1 b rest = (b, rest))
  \/ (utf8_in 0 127 b = false /\ exists r rest', utf8_decode1 b rest = (r, rest') /\ 128 <= r
      /\ (length rest' <= length rest)%nat).
Proof.
  unfold utf8_decode1. destruct (utf8_in 0 127 b) eqn:E0; [left; auto|right].
  split; [reflexivity|]. unfold utf8_rune_error, utf8_is_cont, utf8_in in *.
  repeat match goal with
  | |- context [if ?c then _ else _] => destruct c eqn:?
  | |- context [match ?l with [] => _ | _ :: _ => _ end] => destruct l
  end; eexists _, _; (split; [reflexivity|]); cbn [length]; split; lia.
Qed.

Lemma forallb_utf8_decode (P : Z -> bool) :
  (forall r, P r = true -> 0 <= r < 128) ->
  forall f s, (length s <= f)%nat -> forallb P (utf8_decode_fuel f s) = forallb P s.
Proof.
  intros HP. induction f as [|f IH]; intros s Hs.
  - destruct s; [reflexivity|cbn in Hs; lia].
  - destruct s as [|b rest]; [reflexivity|]. cbn [utf8_decode_fuel].
    destruct (utf8_decode1_cases b rest) as [[Ha E]|[Ha (r & rest' & E & Hr & Hl)]]; rewrite E.
    + cbn [forallb]. rewrite IH by (cbn in Hs; lia). reflexivity.
    + cbn [forallb].
      assert (P r = false) as ->.
      { destruct (P r) eqn:EP; [|reflexivity]. apply HP in EP. lia. }
      assert (P b = false) as ->.
      { destruct (P b) eqn:EP; [|reflexivity]. apply HP in EP. unfold utf8_in in Ha. lia. }
      reflexivity.
Qed.

Lemma utf8_decode_fuel_ascii f : forall s, (length s <= f)%nat ->
  forallb (fun b => utf8_in 0 127 b) s = true -> utf8_decode_fuel f s = s.
Proof.
  induction f as [|f IH]; intros s Hs Ha.
  - destruct s; [reflexivity|cbn in Hs; lia].
  - destruct s as [|b rest]; [reflexivity|]. cbn [utf8_decode_fuel].
    cbn [forallb] in Ha. apply andb_true_iff in Ha. destruct Ha as [Hb Hrest].
    destruct (utf8_decode1_cases b rest) as [[_ E]|[Hf _]]; [|congruence].
    rewrite E, IH by (cbn in Hs; lia || exact Hrest). reflexivity.
Qed.

(* ---------- link to theorem C18: IterateBytes of the BitList = pack8 of the bit sequence ---------- *)
Lemma byte_at_shift b7 b6 b5 b4 b3 b2 b1 b0 l i :
  byte_at (b7 :: b6 :: b5 :: b4 :: b3 :: b2 :: b1 :: b0 :: l) (S i) = byte_at l i.
Proof.
  unfold byte_at.
  replace (8 * S i + 0)%nat with (S (S (S (S (S (S (S (S (8 * i + 0))))))))) by lia.
  replace (8 * S i + 1)%nat with (S (S (S (S (S (S (S (S (8 * i + 1))))))))) by lia.
  replace (8 * S i + 2)%nat with (S (S (S (S (S (S (S (S (8 * i + 2))))))))) by lia.
  replace (8 * S i + 3)%nat with (S (S (S (S (S (S (S (S (8 * i + 3))))))))) by lia.
  replace (8 * S i + 4)%nat with (S (S (S (S (S (S (S (S (8 * i + 4))))))))) by lia.
  replace (8 * S i + 5)%nat with (S (S (S (S (S (S (S (S (8 * i + 5))))))))) by lia.
  replace (8 * S i + 6)%nat with (S (S (S (S (S (S (S (S (8 * i + 6))))))))) by lia.
  replace (8 * S i + 7)%nat with (S (S (S (S (S (S (S (S (8 * i + 7))))))))) by lia.
  cbn [nth]. reflexivity.
Qed.

Lemma byte_at_head b7 b6 b5 b4 b3 b2 b1 b0 l :
  byte_at (b7 :: b6 :: b5 :: b4 :: b3 :: b2 :: b1 :: b0 :: l) 0 = bits_val [b7; b6; b5; b4; b3; b2; b1; b0] 0.
Proof. destruct b7, b6, b5, b4, b3, b2, b1, b0; reflexivity. Qed.

(* on a whole number of bytes the model's bytes_of_bits is the byte view pack8 of the
   boolean-sequence specification of C18 (what GetBytes / IterateBytes return) *)
Theorem bytes_of_bits_pack8 l : octets l -> bytes_of_bits l = pack8 l.
Proof.
  intros H. induction H as [|b7 b6 b5 b4 b3 b2 b1 b0 l H IH]; [reflexivity|].
  cbn [bytes_of_bits]. rewrite IH. unfold pack8.
  destruct (octets_length l H) as [n Hn].
  replace ((length (b7 :: b6 :: b5 :: b4 :: b3 :: b2 :: b1 :: b0 :: l) + 7) / 8)%nat with (S n)
    by (cbn [length]; rewrite Hn; zify; lia).
  replace ((length l + 7) / 8)%nat with n by (rewrite Hn; zify; lia).
  cbn [seq map]. rewrite byte_at_head. f_equal.
  rewrite <- seq_shift, map_map. apply map_ext. intros i. symmetry. apply byte_at_shift.
Qed.
