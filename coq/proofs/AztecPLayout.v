(* C03 layer 4 -- symbol layout (36 configurations, by computation, lifted to
   arbitrary message / mode-message bits by generic lemmas):
   the placement loop writes message bit i at the i-th position of the ISO
   extraction spiral, the mode message clockwise around the finder; all
   positions are distinct, inside the matrix and disjoint from the finder
   pattern, orientation marks and reference grid, which are exactly as
   prescribed; nothing is set outside the matrix. *)
From Coq Require Import FMapPositive MSetPositive.
From Verif Require Import Prelude BitListM GFM TabAztec AztecM AztecSpec AztecPBase.
Local Ltac Zify.zify_post_hook ::= Z.div_mod_to_equations.

(* ------------------------------------------------------------------ *)
(* the boolean layout check of one configuration                        *)
Definition tkey (n : Z) (t : Z * Z * Z) : positive := let '(_, x, y) := t in az_key n x y.
Definition ckey (n : Z) (p : Z * Z) : positive := az_key n (fst p) (snd p).

Definition pset_of (l : list positive) : PositiveSet.t :=
  fold_left (fun s k => PositiveSet.add k s) l PositiveSet.empty.

Fixpoint nodup_pos (l : list positive) (seen : PositiveSet.t) : bool :=
  match l with
  | [] => true
  | k :: t => negb (PositiveSet.mem k seen) && nodup_pos t (PositiveSet.add k seen)
  end.

Definition in_range (n x y : Z) : bool := (0 <=? x) && (x <? n) && (0 <=? y) && (y <? n).

Definition pos_map (ts : list (Z * Z * Z)) : PositiveMap.t (Z * Z) :=
  fold_left (fun m (t : Z * Z * Z) =>
               let '(idx, x, y) := t in PositiveMap.add (Z.to_pos (idx + 1)) (x, y) m)
            ts (PositiveMap.empty (Z * Z)).

Fixpoint pos_list_ok (pm : PositiveMap.t (Z * Z)) (j : Z) (ps : list (Z * Z)) : bool :=
  match ps with
  | [] => true
  | (x, y) :: r =>
    match PositiveMap.find (Z.to_pos (j + 1)) pm with
    | Some (x', y') => (x =? x') && (y =? y') && pos_list_ok pm (j + 1) r
    | None => false
    end
  end.

Definition cells_fixed_ok (n : Z) (varset fcset : PositiveSet.t) (cells : list pcell) : bool :=
  forallb (fun p : pcell => let '(x, y, v) := p in
    in_range n x y && negb (PositiveSet.mem (az_key n x y) varset)
    && Bool.eqb (PositiveSet.mem (az_key n x y) fcset) v) cells.

Definition triple_ok (n bound : Z) (t : Z * Z * Z) : bool :=
  let '(idx, x, y) := t in in_range n x y && (0 <=? idx) && (idx <? bound).

Definition az_mode_len (compact : bool) : Z := if compact then 28 else 40.

Definition layout_ok (cfg : bool * Z) : bool :=
  let '(compact, L) := cfg in
  let n := az_matrix_size compact L in
  let c := n / 2 in
  let DT := az_data_triples compact L in
  let MT := az_mode_triples compact n in
  let FC := az_function_cells compact L in
  let total := az_total_bits L compact in
  let nm := az_mode_len compact in
  let varkeys := map (tkey n) (DT ++ MT) in
  let varset := pset_of varkeys in
  let fcset := pset_of (map (ckey n) FC) in
  (n =? sp_size compact L) && Z.odd n && (15 <=? n)
  && forallb (triple_ok n total) DT
  && forallb (triple_ok n nm) MT
  && forallb (fun p : Z * Z => in_range n (fst p) (snd p)) FC
  && nodup_pos varkeys PositiveSet.empty
  && forallb (fun k => negb (PositiveSet.mem k fcset)) varkeys
  && (zlength (sp_data_positions compact L c) =? total)
  && pos_list_ok (pos_map DT) 0 (sp_data_positions compact L c)
  && (zlength (sp_mode_positions compact c) =? nm)
  && pos_list_ok (pos_map MT) 0 (sp_mode_positions compact c)
  && cells_fixed_ok n varset fcset (sp_finder compact c)
  && (compact || (cells_fixed_ok n varset fcset (sp_grid n c)
                  && existsb (fun p : pcell => let '(x, y, v) := p in
                       v && in_range n x y && negb (PositiveSet.mem (az_key n x y) varset)
                       && negb (PositiveSet.mem (az_key n x y) fcset)) (sp_finder true c))).

Definition all_configs : list (bool * Z) :=
  map (fun l => (true, l)) (zseq 1 4) ++ map (fun l => (false, l)) (zseq 1 32).

(* the finite part: all 36 configurations pass *)
Lemma layout_ok_all : forallb layout_ok all_configs = true.
Proof. vm_compute. reflexivity. Qed.

Lemma in_all_configs (compact : bool) (L : Z) :
  (if compact then 1 <= L <= 4 else 1 <= L <= 32) -> In (compact, L) all_configs.
Proof.
  intros H. unfold all_configs. apply in_or_app. destruct compact.
  - left. apply in_map_iff. exists L. split; auto. apply in_zseq. simpl; lia.
  - right. apply in_map_iff. exists L. split; auto. apply in_zseq. simpl; lia.
Qed.

Lemma layout_ok_cfg (compact : bool) (L : Z) :
  (if compact then 1 <= L <= 4 else 1 <= L <= 32) -> layout_ok (compact, L) = true.
Proof.
  intros H. pose proof layout_ok_all as HA. rewrite forallb_forall in HA.
  apply HA, in_all_configs, H.
Qed.

(* ------------------------------------------------------------------ *)
(* generic lemmas: positive sets and maps                              *)
Lemma pmem_add y x s :
  PositiveSet.mem y (PositiveSet.add x s) = Pos.eqb y x || PositiveSet.mem y s.
Proof.
  apply Bool.eq_true_iff_eq.
  rewrite PositiveSet.mem_spec, PositiveSet.add_spec, orb_true_iff, Pos.eqb_eq, PositiveSet.mem_spec.
  tauto.
Qed.

Lemma pmem_empty k : PositiveSet.mem k PositiveSet.empty = false.
Proof. destruct k; reflexivity. Qed.

Lemma existsb_pos_in k l : existsb (Pos.eqb k) l = true <-> In k l.
Proof.
  rewrite existsb_exists. split.
  - intros (x & Hx & He). apply Pos.eqb_eq in He. subst; auto.
  - intros H. exists k. split; auto. apply Pos.eqb_refl.
Qed.

Lemma pset_fold_mem k : forall l s,
  PositiveSet.mem k (fold_left (fun s k => PositiveSet.add k s) l s)
  = existsb (Pos.eqb k) l || PositiveSet.mem k s.
Proof.
  induction l as [|x l IH]; intros s; simpl; auto.
  rewrite IH, pmem_add. destruct (Pos.eqb k x), (existsb (Pos.eqb k) l); reflexivity.
Qed.

Lemma pset_of_mem k l : PositiveSet.mem k (pset_of l) = existsb (Pos.eqb k) l.
Proof. unfold pset_of. rewrite pset_fold_mem, pmem_empty, orb_false_r. reflexivity. Qed.

Lemma pset_of_mem_false k l : PositiveSet.mem k (pset_of l) = false -> ~ In k l.
Proof.
  rewrite pset_of_mem. intros H Hin. apply existsb_pos_in in Hin. congruence.
Qed.

Lemma nodup_pos_sound : forall l seen, nodup_pos l seen = true ->
  NoDup l /\ forall k, In k l -> PositiveSet.mem k seen = false.
Proof.
  induction l as [|x l IH]; intros seen H; simpl in H.
  - split; [constructor | intros k []].
  - apply andb_true_iff in H. destruct H as [H1 H2].
    destruct (IH _ H2) as [Hnd Hseen]. split.
    + constructor; auto. intros Hin. specialize (Hseen x Hin).
      rewrite pmem_add, Pos.eqb_refl in Hseen. discriminate.
    + intros k [->|Hin].
      * destruct (PositiveSet.mem k seen); [discriminate | reflexivity].
      * specialize (Hseen k Hin). rewrite pmem_add in Hseen.
        apply orb_false_iff in Hseen. tauto.
Qed.

Lemma nodup_map_eq {A B} (f : A -> B) : forall l, NoDup (map f l) ->
  forall a b, In a l -> In b l -> f a = f b -> a = b.
Proof.
  induction l as [|x l IH]; intros Hnd a b Ha Hb Hf; [destruct Ha|].
  simpl in Hnd. inversion Hnd as [|? ? Hnin Hnd']; subst.
  destruct Ha as [->|Ha], Hb as [->|Hb]; auto.
  - exfalso. apply Hnin. rewrite Hf. apply in_map. exact Hb.
  - exfalso. apply Hnin. rewrite <- Hf. apply in_map. exact Ha.
Qed.

Lemma pos_map_find : forall ts m0 k v,
  PositiveMap.find k (fold_left (fun m (t : Z * Z * Z) =>
      let '(idx, x, y) := t in PositiveMap.add (Z.to_pos (idx + 1)) (x, y) m) ts m0) = Some v ->
  (exists idx x y, In (idx, x, y) ts /\ Z.to_pos (idx + 1) = k /\ v = (x, y))
  \/ PositiveMap.find k m0 = Some v.
Proof.
  induction ts as [|[[idx x] y] ts IH]; intros m0 k v H; simpl in H; auto.
  apply IH in H. destruct H as [(i & a & b & Hin & Hk & Hv) | H].
  - left. exists i, a, b. split; [right; auto | auto].
  - destruct (Pos.eq_dec k (Z.to_pos (idx + 1))) as [->|Hne].
    + rewrite PositiveMap.gss in H. left. exists idx, x, y.
      split; [left; auto | split; congruence].
    + rewrite PositiveMap.gso in H by auto. auto.
Qed.

Lemma pos_list_ok_nth : forall ps pm j, pos_list_ok pm j ps = true ->
  forall i, (i < length ps)%nat ->
  PositiveMap.find (Z.to_pos (j + Z.of_nat i + 1)) pm = Some (nth i ps (0, 0)).
Proof.
  induction ps as [|[x y] r IH]; intros pm j H i Hi; [simpl in Hi; lia|].
  cbn [pos_list_ok] in H.
  destruct (PositiveMap.find (Z.to_pos (j + 1)) pm) as [[x' y']|] eqn:E; [|discriminate].
  apply andb_true_iff in H. destruct H as [H Hr]. apply andb_true_iff in H. destruct H as [Hx Hy].
  destruct i as [|i].
  - simpl. replace (j + 0 + 1) with (j + 1) by lia. rewrite E. f_equal. f_equal; lia.
  - cbn [nth]. specialize (IH pm (j + 1) Hr i ltac:(simpl in Hi; lia)).
    replace (j + Z.of_nat (S i) + 1) with (j + 1 + Z.of_nat i + 1) by lia. exact IH.
Qed.

(* ------------------------------------------------------------------ *)
(* generic lemmas: the matrix                                           *)
Lemma az_key_inj n x y x' y' :
  0 <= x < n -> 0 <= y < n -> 0 <= x' < n -> 0 <= y' < n ->
  az_key n x y = az_key n x' y' -> x = x' /\ y = y'.
Proof.
  unfold az_key. intros Hx Hy Hx' Hy' H.
  assert (H1 : x * n + y + 1 = x' * n + y' + 1).
  { apply Z2Pos.inj in H; nia. }
  assert (x = x') by nia. subst. lia.
Qed.

Lemma in_range_spec n x y : in_range n x y = true <-> 0 <= x < n /\ 0 <= y < n.
Proof. unfold in_range. lia. Qed.

(* the bit array *)
Definition ba_bit (a : bitarr) (i : Z) : bool := PositiveSet.mem (Z.to_pos (i + 1)) (ba_set a).

Lemma bitset_from_mem k : forall l i acc,
  PositiveSet.mem k (az_bitset_from l i acc) =
  PositiveSet.mem k acc
  || ((Pos.leb i k) && nth (Pos.to_nat k - Pos.to_nat i) l false).
Proof.
  induction l as [|b t IH]; intros i acc; cbn [az_bitset_from].
  - destruct (Pos.to_nat k - Pos.to_nat i)%nat; simpl; rewrite andb_false_r, orb_false_r; reflexivity.
  - rewrite IH. destruct (Pos.leb i k) eqn:Eik.
    + apply Pos.leb_le in Eik. destruct (Pos.eq_dec i k) as [->|Hne].
      * rewrite Nat.sub_diag. cbn [nth].
        assert (Hlt : Pos.leb (Pos.succ k) k = false) by (apply Pos.leb_gt; lia).
        rewrite Hlt. cbn [andb]. rewrite orb_false_r.
        destruct b; [rewrite pmem_add, Pos.eqb_refl; destruct (PositiveSet.mem k acc); reflexivity
                    | rewrite orb_false_r; reflexivity].
      * assert (Hle : Pos.leb (Pos.succ i) k = true) by (apply Pos.leb_le; lia).
        rewrite Hle. cbn [andb].
        replace (Pos.to_nat k - Pos.to_nat i)%nat with (S (Pos.to_nat k - Pos.to_nat (Pos.succ i)))%nat by lia.
        cbn [nth]. destruct b; [|reflexivity].
        rewrite pmem_add. replace (Pos.eqb k i) with false; [reflexivity|].
        symmetry. apply Pos.eqb_neq. congruence.
    + apply Pos.leb_gt in Eik.
      assert (Hlt : Pos.leb (Pos.succ i) k = false) by (apply Pos.leb_gt; lia).
      rewrite Hlt. cbn [andb]. rewrite !orb_false_r.
      destruct b; [|reflexivity]. rewrite pmem_add.
      replace (Pos.eqb k i) with false; [reflexivity|]. symmetry. apply Pos.eqb_neq. lia.
Qed.

Lemma ba_bit_nth l i : 0 <= i -> ba_bit (az_bitarr l) i = nth (Z.to_nat i) l false.
Proof.
  intros Hi. unfold ba_bit, az_bitarr. cbn [ba_set].
  rewrite bitset_from_mem, pmem_empty. cbn [orb].
  assert (Hle : Pos.leb 1 (Z.to_pos (i + 1)) = true) by (apply Pos.leb_le; lia).
  rewrite Hle. cbn [andb]. f_equal. lia.
Qed.

Lemma az_getbit_spec l i : 0 <= i < zlength l ->
  az_getbit (az_bitarr l) i = Some (ba_bit (az_bitarr l) i).
Proof.
  intros Hi. unfold az_getbit. cbn [ba_len az_bitarr].
  destruct (i <? 0) eqn:E1; [lia|]. destruct (zlength l <=? i) eqn:E2; [lia|]. reflexivity.
Qed.

(* cells drawn by a triple list *)
Definition drawn (a : bitarr) (n : Z) (ts : list (Z * Z * Z)) (k : positive) : bool :=
  existsb (fun t : Z * Z * Z => let '(idx, x, y) := t in ba_bit a idx && Pos.eqb k (az_key n x y)) ts.

Lemma draw_triples_spec (a : bitarr) (len : Z) : forall ts m,
  ba_len a = len ->
  forallb (triple_ok (am_size m) len) ts = true ->
  am_size (az_draw_triples a ts m) = am_size m
  /\ am_bad (az_draw_triples a ts m) = am_bad m
  /\ forall k, PositiveSet.mem k (am_cells (az_draw_triples a ts m))
               = PositiveSet.mem k (am_cells m) || drawn a (am_size m) ts k.
Proof.
  unfold az_draw_triples.
  induction ts as [|[[idx x] y] ts IH]; intros m Hlen Hok.
  - simpl. repeat split; auto. intros k. rewrite orb_false_r. reflexivity.
  - cbn [forallb] in Hok. apply andb_true_iff in Hok. destruct Hok as [Ht Hok].
    unfold triple_ok in Ht. apply andb_true_iff in Ht. destruct Ht as [Ht Hi2].
    apply andb_true_iff in Ht. destruct Ht as [Hr Hi1].
    cbn [fold_left].
    assert (Hget : az_getbit a idx = Some (ba_bit a idx)).
    { unfold az_getbit, ba_bit. rewrite Hlen.
      destruct (idx <? 0) eqn:E1; [lia|]. destruct (len <=? idx) eqn:E2; [lia|]. reflexivity. }
    rewrite Hget.
    destruct (ba_bit a idx) eqn:Eb.
    + unfold az_set at 1. unfold in_range in Hr. rewrite Hr.
      set (m1 := {| am_size := am_size m;
                    am_cells := PositiveSet.add (az_key (am_size m) x y) (am_cells m);
                    am_bad := am_bad m |}).
      specialize (IH m1 Hlen Hok). destruct IH as (Hs & Hb & Hc).
      split; [exact Hs|]. split; [exact Hb|].
      intros k. rewrite Hc. cbn [am_cells am_size m1 drawn existsb]. rewrite pmem_add, Eb.
      cbn [andb]. destruct (Pos.eqb k (az_key (am_size m) x y)), (PositiveSet.mem k (am_cells m));
        reflexivity.
    + specialize (IH m Hlen Hok). destruct IH as (Hs & Hb & Hc).
      split; [exact Hs|]. split; [exact Hb|].
      intros k. rewrite Hc. cbn [drawn existsb]. rewrite Eb. reflexivity.
Qed.

Lemma set_all_spec : forall cells m,
  forallb (fun p : Z * Z => in_range (am_size m) (fst p) (snd p)) cells = true ->
  am_size (az_set_all cells m) = am_size m
  /\ am_bad (az_set_all cells m) = am_bad m
  /\ forall k, PositiveSet.mem k (am_cells (az_set_all cells m))
               = PositiveSet.mem k (am_cells m)
                 || existsb (Pos.eqb k) (map (ckey (am_size m)) cells).
Proof.
  unfold az_set_all.
  induction cells as [|[x y] cells IH]; intros m Hok.
  - simpl. repeat split; auto. intros k. rewrite orb_false_r. reflexivity.
  - cbn [forallb fst snd] in Hok. apply andb_true_iff in Hok. destruct Hok as [Hr Hok].
    cbn [fold_left fst snd]. unfold az_set at 1. unfold in_range in Hr. rewrite Hr.
    set (m1 := {| am_size := am_size m;
                  am_cells := PositiveSet.add (az_key (am_size m) x y) (am_cells m);
                  am_bad := am_bad m |}).
    specialize (IH m1 Hok). destruct IH as (Hs & Hb & Hc).
    split; [exact Hs|]. split; [exact Hb|].
    intros k. rewrite Hc. cbn [am_cells am_size m1 map existsb]. rewrite pmem_add.
    unfold ckey at 2. cbn [fst snd].
    destruct (Pos.eqb k (az_key (am_size m) x y)), (PositiveSet.mem k (am_cells m)); reflexivity.
Qed.

(* reading the rows back *)
Lemma az_row_nth m y : forall k x0 i, (i < k)%nat ->
  nth i (az_row k x0 y m) false = az_get m (x0 + Z.of_nat i) y.
Proof.
  induction k as [|k IH]; intros x0 i Hi; [lia|].
  destruct i as [|i]; cbn [az_row nth].
  - f_equal. lia.
  - rewrite IH by lia. f_equal. lia.
Qed.

Lemma az_row_length m y : forall k x0, length (az_row k x0 y m) = k.
Proof. induction k; intros; simpl; auto. Qed.

Lemma az_rows_nth m : forall k y0 i, (i < k)%nat ->
  nth i (az_rows k y0 m) [] = az_row (Z.to_nat (am_size m)) 0 (y0 + Z.of_nat i) m.
Proof.
  induction k as [|k IH]; intros y0 i Hi; [lia|].
  destruct i as [|i]; cbn [az_rows nth].
  - f_equal. lia.
  - rewrite IH by lia. f_equal. lia.
Qed.

Lemma az_rows_length m : forall k y0, length (az_rows k y0 m) = k.
Proof. induction k; intros; simpl; auto. Qed.

Lemma az_rows_all_length m : forall k y0,
  Forall (fun r => length r = Z.to_nat (am_size m)) (az_rows k y0 m).
Proof. induction k; intros; simpl; constructor; auto using az_row_length. Qed.

Lemma sp_pix_rows m x y : 0 <= x < am_size m -> 0 <= y < am_size m ->
  sp_pix (az_rows (Z.to_nat (am_size m)) 0 m) x y = az_get m x y.
Proof.
  intros Hx Hy. unfold sp_pix.
  destruct (x <? 0) eqn:E1; [lia|]. destruct (y <? 0) eqn:E2; [lia|]. cbn [orb].
  rewrite az_rows_nth by lia. rewrite az_row_nth by lia. f_equal; lia.
Qed.
