(* C03 layer 4 -- symbol layout (36 configurations, by computation, lifted to
   arbitrary message / mode-message bits by generic lemmas):
   the placement loop writes message bit i at the i-th position of the ISO
   extraction spiral, the mode message clockwise around the finder; all
   positions are distinct, inside the matrix and disjoint from the finder
   pattern, orientation marks and reference grid, which are exactly as
   prescribed; nothing is set outside the matrix. *)
From Coq Require Import FMapPositive MSetPositive.
From Verif Require Import Prelude BitListM GFM TabAztec AztecM AztecSpec AztecPBase.
Local Ltac Zify.zify_post_hook ::= Z.div_mod_to_equations.

(* ------------------------------------------------------------------ *)
(* the boolean layout check of one configuration                        *)
Definition tkey (n : Z) (t : Z * Z * Z) : positive := let '(_, x, y) := t in az_key n x y.
Definition ckey (n : Z) (p : Z * Z) : positive := az_key n (fst p) (snd p).

Definition pset_of (l : list positive) : PositiveSet.t :=
  fold_left (fun s k => PositiveSet.add k s) l PositiveSet.empty.

Fixpoint nodup_pos (l : list positive) (seen : PositiveSet.t) : bool :=
  match l with
  | [] => true
  | k :: t => negb (PositiveSet.mem k seen) && nodup_pos t (PositiveSet.add k seen)
  end.

Definition in_range (n x y : Z) : bool := (0 <=? x) && (x <? n) && (0 <=? y) && (y <? n).

Definition pos_map (ts : list (Z * Z * Z)) : PositiveMap.t (Z * Z) :=
  fold_left (fun m (t : Z * Z * Z) =>
               let '(idx, x, y) := t in PositiveMap.add (Z.to_pos (idx + 1)) (x, y) m)
            ts (PositiveMap.empty (Z * Z)).

Fixpoint pos_list_ok (pm : PositiveMap.t (Z * Z)) (j : Z) (ps : list (Z * Z)) : bool :=
  match ps with
  | [] => true
  | (x, y) :: r =>
    match PositiveMap.find (Z.to_pos (j + 1)) pm with
    | Some (x', y') => (x =? x') && (y =? y') && pos_list_ok pm (j + 1) r
    | None => false
    end
  end.

Definition cells_fixed_ok (n : Z) (varset fcset : PositiveSet.t) (cells : list pcell) : bool :=
  forallb (fun p : pcell => let '(x, y, v) := p in
    in_range n x y && negb (PositiveSet.mem (az_key n x y) varset)
    && Bool.eqb (PositiveSet.mem (az_key n x y) fcset) v) cells.

Definition triple_ok (n bound : Z) (t : Z * Z * Z) : bool :=
  let '(idx, x, y) := t in in_range n x y && (0 <=? idx) && (idx <? bound).

Definition az_mode_len (compact : bool) : Z := if compact then 28 else 40.

Definition layout_ok (cfg : bool * Z) : bool :=
  let '(compact, L) := cfg in
  let n := az_matrix_size compact L in
  let c := n / 2 in
  let DT := az_data_triples compact L in
  let MT := az_mode_triples compact n in
  let FC := az_function_cells compact L in
  let total := az_total_bits L compact in
  let nm := az_mode_len compact in
  let varkeys := map (tkey n) (DT ++ MT) in
  let varset := pset_of varkeys in
  let fcset := pset_of (map (ckey n) FC) in
  (n =? sp_size compact L) && Z.odd n && (15 <=? n)
  && forallb (triple_ok n total) DT
  && forallb (triple_ok n nm) MT
  && forallb (fun p : Z * Z => in_range n (fst p) (snd p)) FC
  && nodup_pos varkeys PositiveSet.empty
  && forallb (fun k => negb (PositiveSet.mem k fcset)) varkeys
  && (zlength (sp_data_positions compact L c) =? total)
  && pos_list_ok (pos_map DT) 0 (sp_data_positions compact L c)
  && (zlength (sp_mode_positions compact c) =? nm)
  && pos_list_ok (pos_map MT) 0 (sp_mode_positions compact c)
  && cells_fixed_ok n varset fcset (sp_finder compact c)
  && (compact || (cells_fixed_ok n varset fcset (sp_grid n c)
                  && existsb (fun p : pcell => let '(x, y, v) := p in
                       v && in_range n x y && negb (PositiveSet.mem (az_key n x y) varset)
                       && negb (PositiveSet.mem (az_key n x y) fcset)) (sp_finder true c))).

Definition all_configs : list (bool * Z) :=
  map (fun l => (true, l)) (zseq 1 4) ++ map (fun l => (false, l)) (zseq 1 32).

(* the finite part: all 36 configurations pass *)
Lemma layout_ok_all : forallb layout_ok all_configs = true.
Proof. vm_compute. reflexivity. Qed.

Lemma in_all_configs (compact : bool) (L : Z) :
  (if compact then 1 <= L <= 4 else 1 <= L <= 32) -> In (compact, L) all_configs.
Proof.
  intros H. unfold all_configs. apply in_or_app. destruct compact.
  - left. apply in_map_iff. exists L. split; auto. apply in_zseq. simpl; lia.
  - right. apply in_map_iff. exists L. split; auto. apply in_zseq. simpl; lia.
Qed.

Lemma layout_ok_cfg (compact : bool) (L : Z) :
  (if compact then 1 <= L <= 4 else 1 <= L <= 32) -> layout_ok (compact, L) = true.
Proof.
  intros H. pose proof layout_ok_all as HA. rewrite forallb_forall in HA.
  apply HA, in_all_configs, H.
Qed.

(* ------------------------------------------------------------------ *)
(* generic lemmas: positive sets and maps                              *)
Lemma pmem_add y x s :
  PositiveSet.mem y (PositiveSet.add x s) = Pos.eqb y x || PositiveSet.mem y s.
Proof.
  apply Bool.eq_true_iff_eq.
  rewrite PositiveSet.mem_spec, PositiveSet.add_spec, orb_true_iff, Pos.eqb_eq, PositiveSet.mem_spec.
  tauto.
Qed.

Lemma pmem_empty k : PositiveSet.mem k PositiveSet.empty = false.
Proof. destruct k; reflexivity. Qed.

Lemma existsb_pos_in k l : existsb (Pos.eqb k) l = true <-> In k l.
Proof.
  rewrite existsb_exists. split.
  - intros (x & Hx & He). apply Pos.eqb_eq in He. subst; auto.
  - intros H. exists k. split; auto. apply Pos.eqb_refl.
Qed.

Lemma pset_fold_mem k : forall l s,
  PositiveSet.mem k (fold_left (fun s k => PositiveSet.add k s) l s)
  = existsb (Pos.eqb k) l || PositiveSet.mem k s.
Proof.
  induction l as [|x l IH]; intros s; simpl; auto.
  rewrite IH, pmem_add. destruct (Pos.eqb k x), (existsb (Pos.eqb k) l); reflexivity.
Qed.

Lemma pset_of_mem k l : PositiveSet.mem k (pset_of l) = existsb (Pos.eqb k) l.
Proof. unfold pset_of. rewrite pset_fold_mem, pmem_empty, orb_false_r. reflexivity. Qed.

Lemma pset_of_mem_false k l : PositiveSet.mem k (pset_of l) = false -> ~ In k l.
Proof.
  rewrite pset_of_mem. intros H Hin. apply existsb_pos_in in Hin. congruence.
Qed.

Lemma nodup_pos_sound : forall l seen, nodup_pos l seen = true ->
  NoDup l /\ forall k, In k l -> PositiveSet.mem k seen = false.
Proof.
  induction l as [|x l IH]; intros seen H; simpl in H.
  - split; [constructor | intros k []].
  - apply andb_true_iff in H. destruct H as [H1 H2].
    destruct (IH _ H2) as [Hnd Hseen]. split.
    + constructor; auto. intros Hin. specialize (Hseen x Hin).
      rewrite pmem_add, Pos.eqb_refl in Hseen. discriminate.
    + intros k [->|Hin].
      * destruct (PositiveSet.mem k seen); [discriminate | reflexivity].
      * specialize (Hseen k Hin). rewrite pmem_add in Hseen.
        apply orb_false_iff in Hseen. tauto.
Qed.

Lemma nodup_map_eq {A B} (f : A -> B) : forall l, NoDup (map f l) ->
  forall a b, In a l -> In b l -> f a = f b -> a = b.
Proof.
  induction l as [|x l IH]; intros Hnd a b Ha Hb Hf; [destruct Ha|].
  simpl in Hnd. inversion Hnd as [|? ? Hnin Hnd']; subst.
  destruct Ha as [->|Ha], Hb as [->|Hb]; auto.
  - exfalso. apply Hnin. rewrite Hf. apply in_map. exact Hb.
  - exfalso. apply Hnin. rewrite <- Hf. apply in_map. exact Ha.
Qed.

Lemma pos_map_find : forall ts m0 k v,
  PositiveMap.find k (fold_left (fun m (t : Z * Z * Z) =>
      let '(idx, x, y) := t in PositiveMap.add (Z.to_pos (idx + 1)) (x, y) m) ts m0) = Some v ->
  (exists idx x y, In (idx, x, y) ts /\ Z.to_pos (idx + 1) = k /\ v = (x, y))
  \/ PositiveMap.find k m0 = Some v.
Proof.
  induction ts as [|[[idx x] y] ts IH]; intros m0 k v H; simpl in H; auto.
  apply IH in H. destruct H as [(i & a & b & Hin & Hk & Hv) | H].
  - left. exists i, a, b. split; [right; auto | auto].
  - destruct (Pos.eq_dec k (Z.to_pos (idx + 1))) as [->|Hne].
    + rewrite PositiveMap.gss in H. left. exists idx, x, y.
      split; [left; auto | split; congruence].
    + rewrite PositiveMap.gso in H by auto. auto.
Qed.

Lemma pos_list_ok_nth : forall ps pm j, pos_list_ok pm j ps = true ->
  forall i, (i < length ps)%nat ->
  PositiveMap.find (Z.to_pos (j + Z.of_nat i + 1)) pm = Some (nth i ps (0, 0)).
Proof.
  induction ps as [|[x y] r IH]; intros pm j H i Hi; [simpl in Hi; lia|].
  cbn [pos_list_ok] in H.
  destruct (PositiveMap.find (Z.to_pos (j + 1)) pm) as [[x' y']|] eqn:E; [|discriminate].
  apply andb_true_iff in H. destruct H as [H Hr]. apply andb_true_iff in H. destruct H as [Hx Hy].
  destruct i as [|i].
  - simpl. replace (j + 0 + 1) with (j + 1) by lia. rewrite E. f_equal. f_equal; lia.
  - cbn [nth]. specialize (IH pm (j + 1) Hr i ltac:(simpl in Hi; lia)).
    replace (j + Z.of_nat (S i) + 1) with (j + 1 + Z.of_nat i + 1) by lia. exact IH.
Qed.

(* ------------------------------------------------------------------ *)
(* generic lemmas: the matrix                                           *)
Lemma az_key_inj n x y x' y' :
  0 <= x < n -> 0 <= y < n -> 0 <= x' < n -> 0 <= y' < n ->
  az_key n x y = az_key n x' y' -> x = x' /\ y = y'.
Proof.
  unfold az_key. intros Hx Hy Hx' Hy' H.
  assert (H1 : x * n + y + 1 = x' * n + y' + 1).
  { apply Z2Pos.inj in H; nia. }
  assert (x = x') by nia. subst. lia.
Qed.

Lemma in_range_spec n x y : in_range n x y = true <-> 0 <= x < n /\ 0 <= y < n.
Proof. unfold in_range. lia. Qed.

(* the bit array *)
Definition ba_bit (a : bitarr) (i : Z) : bool := PositiveSet.mem (Z.to_pos (i + 1)) (ba_set a).

Lemma bitset_from_mem k : forall l i acc,
  PositiveSet.mem k (az_bitset_from l i acc) =
  PositiveSet.mem k acc
  || ((Pos.leb i k) && nth (Pos.to_nat k - Pos.to_nat i) l false).
Proof.
  induction l as [|b t IH]; intros i acc; cbn [az_bitset_from].
  - destruct (Pos.to_nat k - Pos.to_nat i)%nat; simpl; rewrite andb_false_r, orb_false_r; reflexivity.
  - rewrite IH. destruct (Pos.leb i k) eqn:Eik.
    + apply Pos.leb_le in Eik. destruct (Pos.eq_dec i k) as [->|Hne].
      * rewrite Nat.sub_diag. cbn [nth].
        assert (Hlt : Pos.leb (Pos.succ k) k = false) by (apply Pos.leb_gt; lia).
        rewrite Hlt. cbn [andb]. rewrite orb_false_r.
        destruct b; [rewrite pmem_add, Pos.eqb_refl; destruct (PositiveSet.mem k acc); reflexivity
                    | rewrite orb_false_r; reflexivity].
      * assert (Hle : Pos.leb (Pos.succ i) k = true) by (apply Pos.leb_le; lia).
        rewrite Hle. cbn [andb].
        replace (Pos.to_nat k - Pos.to_nat i)%nat with (S (Pos.to_nat k - Pos.to_nat (Pos.succ i)))%nat by lia.
        cbn [nth]. destruct b; [|reflexivity].
        rewrite pmem_add. replace (Pos.eqb k i) with false; [reflexivity|].
        symmetry. apply Pos.eqb_neq. congruence.
    + apply Pos.leb_gt in Eik.
      assert (Hlt : Pos.leb (Pos.succ i) k = false) by (apply Pos.leb_gt; lia).
      rewrite Hlt. cbn [andb]. rewrite !orb_false_r.
      destruct b; [|reflexivity]. rewrite pmem_add.
      replace (Pos.eqb k i) with false; [reflexivity|]. symmetry. apply Pos.eqb_neq. lia.
Qed.

Lemma ba_bit_nth l i : 0 <= i -> ba_bit (az_bitarr l) i = nth (Z.to_nat i) l false.
Proof.
  intros Hi. unfold ba_bit, az_bitarr. cbn [ba_set].
  rewrite bitset_from_mem, pmem_empty. cbn [orb].
  assert (Hle : Pos.leb 1 (Z.to_pos (i + 1)) = true) by (apply Pos.leb_le; lia).
  rewrite Hle. cbn [andb]. f_equal. lia.
Qed.

Lemma az_getbit_spec l i : 0 <= i < zlength l ->
  az_getbit (az_bitarr l) i = Some (ba_bit (az_bitarr l) i).
Proof.
  intros Hi. unfold az_getbit. cbn [ba_len az_bitarr].
  destruct (i <? 0) eqn:E1; [lia|]. destruct (zlength l <=? i) eqn:E2; [lia|]. reflexivity.
Qed.

(* cells drawn by a triple list *)
Definition drawn (a : bitarr) (n : Z) (ts : list (Z * Z * Z)) (k : positive) : bool :=
  existsb (fun t : Z * Z * Z => let '(idx, x, y) := t in ba_bit a idx && Pos.eqb k (az_key n x y)) ts.

Definition az_mark_bad (m : azmat) : azmat :=
  {| am_size := am_size m; am_cells := am_cells m; am_bad := true |}.

Lemma draw_step a m idx x y ts :
  az_draw_triples a ((idx, x, y) :: ts) m =
  az_draw_triples a ts (match az_getbit a idx with
                        | Some true => az_set m x y
                        | Some false => m
                        | None => az_mark_bad m
                        end).
Proof. reflexivity. Qed.

Lemma az_set_in_range m x y : in_range (am_size m) x y = true ->
  az_set m x y = {| am_size := am_size m;
                    am_cells := PositiveSet.add (az_key (am_size m) x y) (am_cells m);
                    am_bad := am_bad m |}.
Proof. unfold in_range, az_set. intros ->. reflexivity. Qed.

Lemma draw_triples_spec (a : bitarr) (len : Z) : forall ts m,
  ba_len a = len ->
  forallb (triple_ok (am_size m) len) ts = true ->
  am_size (az_draw_triples a ts m) = am_size m
  /\ am_bad (az_draw_triples a ts m) = am_bad m
  /\ forall k, PositiveSet.mem k (am_cells (az_draw_triples a ts m))
               = PositiveSet.mem k (am_cells m) || drawn a (am_size m) ts k.
Proof.
  induction ts as [|[[idx x] y] ts IH]; intros m Hlen Hok.
  - simpl. repeat split; auto. intros k. rewrite orb_false_r. reflexivity.
  - cbn [forallb] in Hok. apply andb_true_iff in Hok. destruct Hok as [Ht Hok].
    unfold triple_ok in Ht. apply andb_true_iff in Ht. destruct Ht as [Ht Hi2].
    apply andb_true_iff in Ht. destruct Ht as [Hr Hi1].
    rewrite draw_step.
    assert (Hget : az_getbit a idx = Some (ba_bit a idx)).
    { unfold az_getbit, ba_bit. rewrite Hlen.
      destruct (idx <? 0) eqn:E1; [lia|]. destruct (len <=? idx) eqn:E2; [lia|]. reflexivity. }
    rewrite Hget.
    destruct (ba_bit a idx) eqn:Eb.
    + rewrite (az_set_in_range m x y Hr).
      set (m1 := {| am_size := am_size m;
                    am_cells := PositiveSet.add (az_key (am_size m) x y) (am_cells m);
                    am_bad := am_bad m |}).
      specialize (IH m1 Hlen Hok). destruct IH as (Hs & Hb & Hc).
      split; [exact Hs|]. split; [exact Hb|].
      intros k. rewrite Hc. cbn [am_cells am_size m1 drawn existsb]. rewrite pmem_add, Eb.
      cbn [andb]. destruct (Pos.eqb k (az_key (am_size m) x y)), (PositiveSet.mem k (am_cells m));
        reflexivity.
    + specialize (IH m Hlen Hok). destruct IH as (Hs & Hb & Hc).
      split; [exact Hs|]. split; [exact Hb|].
      intros k. rewrite Hc. cbn [drawn existsb]. rewrite Eb. reflexivity.
Qed.

Lemma set_all_step m x y cells :
  az_set_all ((x, y) :: cells) m = az_set_all cells (az_set m x y).
Proof. reflexivity. Qed.

Lemma set_all_spec : forall cells m,
  forallb (fun p : Z * Z => in_range (am_size m) (fst p) (snd p)) cells = true ->
  am_size (az_set_all cells m) = am_size m
  /\ am_bad (az_set_all cells m) = am_bad m
  /\ forall k, PositiveSet.mem k (am_cells (az_set_all cells m))
               = PositiveSet.mem k (am_cells m)
                 || existsb (Pos.eqb k) (map (ckey (am_size m)) cells).
Proof.
  induction cells as [|[x y] cells IH]; intros m Hok.
  - simpl. repeat split; auto. intros k. rewrite orb_false_r. reflexivity.
  - cbn [forallb fst snd] in Hok. apply andb_true_iff in Hok. destruct Hok as [Hr Hok].
    rewrite set_all_step, (az_set_in_range m x y Hr).
    set (m1 := {| am_size := am_size m;
                  am_cells := PositiveSet.add (az_key (am_size m) x y) (am_cells m);
                  am_bad := am_bad m |}).
    specialize (IH m1 Hok). destruct IH as (Hs & Hb & Hc).
    split; [exact Hs|]. split; [exact Hb|].
    intros k. rewrite Hc. cbn [am_cells am_size m1 map existsb]. rewrite pmem_add.
    unfold ckey at 2. cbn [fst snd].
    destruct (Pos.eqb k (az_key (am_size m) x y)), (PositiveSet.mem k (am_cells m)); reflexivity.
Qed.

(* reading the rows back *)
Lemma az_row_nth m y : forall k x0 i, (i < k)%nat ->
  nth i (az_row k x0 y m) false = az_get m (x0 + Z.of_nat i) y.
Proof.
  induction k as [|k IH]; intros x0 i Hi; [lia|].
  destruct i as [|i]; cbn [az_row nth].
  - f_equal. lia.
  - rewrite IH by lia. f_equal. lia.
Qed.

Lemma az_row_length m y : forall k x0, length (az_row k x0 y m) = k.
Proof. induction k; intros; simpl; auto. Qed.

Lemma az_rows_nth m : forall k y0 i, (i < k)%nat ->
  nth i (az_rows k y0 m) [] = az_row (Z.to_nat (am_size m)) 0 (y0 + Z.of_nat i) m.
Proof.
  induction k as [|k IH]; intros y0 i Hi; [lia|].
  destruct i as [|i]; cbn [az_rows nth].
  - f_equal. lia.
  - rewrite IH by lia. f_equal. lia.
Qed.

Lemma az_rows_length m : forall k y0, length (az_rows k y0 m) = k.
Proof. induction k; intros; simpl; auto. Qed.

Lemma az_rows_all_length m : forall k y0,
  Forall (fun r => length r = Z.to_nat (am_size m)) (az_rows k y0 m).
Proof. induction k; intros; simpl; constructor; auto using az_row_length. Qed.

Lemma sp_pix_rows m x y : 0 <= x < am_size m -> 0 <= y < am_size m ->
  sp_pix (az_rows (Z.to_nat (am_size m)) 0 m) x y = az_get m x y.
Proof.
  intros Hx Hy. unfold sp_pix.
  destruct (x <? 0) eqn:E1; [lia|]. destruct (y <? 0) eqn:E2; [lia|]. cbn [orb].
  rewrite az_rows_nth by lia. rewrite az_row_nth by lia. f_equal; lia.
Qed.

(* ------------------------------------------------------------------ *)
(* drawn cells under distinct keys                                      *)
Lemma nodup_app_disjoint {A} : forall (l1 l2 : list A) a,
  NoDup (l1 ++ l2) -> In a l1 -> In a l2 -> False.
Proof.
  induction l1 as [|x l1 IH]; intros l2 a Hnd H1 H2; [destruct H1|].
  simpl in Hnd. inversion Hnd as [|? ? Hnin Hnd']; subst.
  destruct H1 as [->|H1].
  - apply Hnin. apply in_or_app. auto.
  - eapply IH; eauto.
Qed.

Lemma drawn_true_iff a n ts k :
  drawn a n ts k = true <->
  exists idx x y, In (idx, x, y) ts /\ ba_bit a idx = true /\ k = az_key n x y.
Proof.
  unfold drawn. rewrite existsb_exists. split.
  - intros ([[idx x] y] & Hin & H). apply andb_true_iff in H. destruct H as [H1 H2].
    apply Pos.eqb_eq in H2. eauto 6.
  - intros (idx & x & y & Hin & H1 & H2). exists (idx, x, y). split; auto.
    rewrite H1, H2, Pos.eqb_refl. reflexivity.
Qed.

Lemma drawn_not_in a n ts k : ~ In k (map (tkey n) ts) -> drawn a n ts k = false.
Proof.
  intros Hn. destruct (drawn a n ts k) eqn:E; auto.
  apply drawn_true_iff in E. destruct E as (idx & x & y & Hin & _ & ->).
  exfalso. apply Hn. apply in_map_iff. exists (idx, x, y). auto.
Qed.

Lemma drawn_unique a n ALL ts i x y :
  NoDup (map (tkey n) ALL) -> (forall t, In t ts -> In t ALL) -> In (i, x, y) ts ->
  drawn a n ts (az_key n x y) = ba_bit a i.
Proof.
  intros Hnd Hsub Hin. destruct (ba_bit a i) eqn:Eb.
  - apply drawn_true_iff. eauto 6.
  - destruct (drawn a n ts (az_key n x y)) eqn:E; auto.
    apply drawn_true_iff in E. destruct E as (idx & x' & y' & Hin' & Hb & Hk).
    assert (Heq : (idx, x', y') = (i, x, y)).
    { apply (nodup_map_eq (tkey n) ALL Hnd); auto; simpl; congruence. }
    inversion Heq; subst. congruence.
Qed.

(* ------------------------------------------------------------------ *)
(* the layout theorem for one configuration                             *)
Section Layout.
Variable compact : bool.
Variable L : Z.
Hypothesis Hok : layout_ok (compact, L) = true.

Let n := az_matrix_size compact L.
Let c := n / 2.
Let DT := az_data_triples compact L.
Let MT := az_mode_triples compact n.
Let FC := az_function_cells compact L.
Let total := az_total_bits L compact.
Let nm := az_mode_len compact.
Let varkeys := map (tkey n) (DT ++ MT).
Let varset := pset_of varkeys.
Let fcset := pset_of (map (ckey n) FC).

Lemma layout_facts :
  n = sp_size compact L /\ Z.odd n = true /\ 15 <= n
  /\ forallb (triple_ok n total) DT = true
  /\ forallb (triple_ok n nm) MT = true
  /\ forallb (fun p : Z * Z => in_range n (fst p) (snd p)) FC = true
  /\ NoDup varkeys
  /\ (forall k, In k varkeys -> PositiveSet.mem k fcset = false)
  /\ zlength (sp_data_positions compact L c) = total
  /\ pos_list_ok (pos_map DT) 0 (sp_data_positions compact L c) = true
  /\ zlength (sp_mode_positions compact c) = nm
  /\ pos_list_ok (pos_map MT) 0 (sp_mode_positions compact c) = true
  /\ cells_fixed_ok n varset fcset (sp_finder compact c) = true
  /\ (compact = false ->
      cells_fixed_ok n varset fcset (sp_grid n c) = true
      /\ exists x y, In (x, y, true) (sp_finder true c) /\ in_range n x y = true
           /\ PositiveSet.mem (az_key n x y) varset = false
           /\ PositiveSet.mem (az_key n x y) fcset = false).
Proof.
  pose proof Hok as H. unfold layout_ok in H.
  fold n in H. fold c in H. fold DT in H. fold MT in H. fold FC in H. fold total in H. fold nm in H.
  fold varkeys in H. fold varset in H. fold fcset in H.
  repeat (apply andb_true_iff in H; let H' := fresh "H" in destruct H as [H H']).
  repeat match goal with |- _ /\ _ => split end; auto; try lia.
  - apply nodup_pos_sound in H7. tauto.
  - intros k Hk. rewrite forallb_forall in H6. specialize (H6 k Hk).
    destruct (PositiveSet.mem k fcset); [discriminate | reflexivity].
  - intros ->. cbn [orb] in H0. apply andb_true_iff in H0. destruct H0 as [Hg He].
    split; [exact Hg|].
    apply existsb_exists in He. destruct He as ([[x y] v] & Hin & Hv).
    repeat (apply andb_true_iff in Hv; let H' := fresh "Hv" in destruct Hv as [Hv H']).
    subst v. exists x, y. repeat split; auto.
    + destruct (PositiveSet.mem _ varset); [discriminate | reflexivity].
    + destruct (PositiveSet.mem _ fcset); [discriminate | reflexivity].
Qed.

Variable msg mm : list bool.
Hypothesis Hmsg : zlength msg = total.
Hypothesis Hmm : zlength mm = nm.

Let M := az_draw compact L msg mm.
Let rows := az_rows (Z.to_nat (am_size M)) 0 M.

Lemma draw_facts :
  am_size M = n /\ am_bad M = false
  /\ forall k, PositiveSet.mem k (am_cells M)
       = drawn (az_bitarr msg) n DT k || drawn (az_bitarr mm) n MT k || PositiveSet.mem k fcset.
Proof.
  destruct layout_facts as (_ & _ & _ & HDT & HMT & HFC & _).
  unfold M, az_draw. fold n. fold DT. fold MT. fold FC.
  set (m0 := {| am_size := n; am_cells := PositiveSet.empty; am_bad := false |}).
  destruct (draw_triples_spec (az_bitarr msg) total DT m0 Hmsg HDT) as (S1 & B1 & C1).
  set (m1 := az_draw_triples (az_bitarr msg) DT m0) in *.
  assert (HMT' : forallb (triple_ok (am_size m1) nm) MT = true) by (rewrite S1; exact HMT).
  destruct (draw_triples_spec (az_bitarr mm) nm MT m1 Hmm HMT') as (S2 & B2 & C2).
  set (m2 := az_draw_triples (az_bitarr mm) MT m1) in *.
  assert (HFC' : forallb (fun p : Z * Z => in_range (am_size m2) (fst p) (snd p)) FC = true)
    by (rewrite S2, S1; exact HFC).
  destruct (set_all_spec FC m2 HFC') as (S3 & B3 & C3).
  split; [rewrite S3, S2, S1; reflexivity|].
  split; [rewrite B3, B2, B1; reflexivity|].
  intros k. rewrite C3, C2, C1, S2, S1. cbn [am_cells am_size m0].
  rewrite pmem_empty. cbn [orb]. unfold fcset. rewrite pset_of_mem. reflexivity.
Qed.

Lemma rows_shape : zlength rows = n /\ Forall (fun r => zlength r = n) rows.
Proof.
  destruct draw_facts as (HS & _). destruct layout_facts as (_ & _ & Hn & _).
  unfold rows. rewrite HS. split.
  - unfold zlength. rewrite az_rows_length. lia.
  - eapply Forall_impl; [|apply az_rows_all_length]. intros r Hr. unfold zlength. rewrite Hr, HS. lia.
Qed.

Lemma pix_cell x y : in_range n x y = true ->
  sp_pix rows x y = drawn (az_bitarr msg) n DT (az_key n x y)
                    || drawn (az_bitarr mm) n MT (az_key n x y)
                    || PositiveSet.mem (az_key n x y) fcset.
Proof.
  intros Hr. apply in_range_spec in Hr. destruct draw_facts as (HS & _ & HC).
  unfold rows. rewrite sp_pix_rows by (rewrite HS; lia). unfold az_get. rewrite HS. apply HC.
Qed.

(* prescribed cells that no variable bit touches have the function-pattern colour *)
Lemma fixed_cells_ok cells : cells_fixed_ok n varset fcset cells = true ->
  sp_cells_ok rows cells = true.
Proof.
  intros H. unfold cells_fixed_ok in H. unfold sp_cells_ok.
  rewrite forallb_forall in *. intros [[x y] v] Hin. specialize (H _ Hin). cbn beta iota in H.
  apply andb_true_iff in H. destruct H as [H Hv]. apply andb_true_iff in H. destruct H as [Hr Hvar].
  rewrite pix_cell by exact Hr.
  assert (Hnot : ~ In (az_key n x y) varkeys).
  { assert (Hm : PositiveSet.mem (az_key n x y) varset = false)
      by (destruct (PositiveSet.mem _ varset); [discriminate | reflexivity]).
    apply pset_of_mem_false. exact Hm. }
  unfold varkeys in Hnot. rewrite map_app in Hnot.
  rewrite !drawn_not_in by (intros Hc; apply Hnot, in_or_app; auto).
  cbn [orb]. exact Hv.
Qed.

Lemma finder_ok : sp_cells_ok rows (sp_finder compact c) = true.
Proof. apply fixed_cells_ok. apply layout_facts. Qed.

Lemma full_not_compact : compact = false ->
  sp_cells_ok rows (sp_finder true c) = false /\ sp_cells_ok rows (sp_grid n c) = true.
Proof.
  intros Hc. destruct layout_facts as (_&_&_&_&_&_&_&_&_&_&_&_&_& Hfull).
  destruct (Hfull Hc) as (Hgrid & x & y & Hin & Hr & Hv & Hf).
  split; [|apply fixed_cells_ok; exact Hgrid].
  destruct (sp_cells_ok rows (sp_finder true c)) eqn:E; auto.
  unfold sp_cells_ok in E. rewrite forallb_forall in E. specialize (E _ Hin). cbn beta iota in E.
  rewrite pix_cell in E by exact Hr.
  assert (Hnot : ~ In (az_key n x y) varkeys) by (apply pset_of_mem_false; exact Hv).
  unfold varkeys in Hnot. rewrite map_app in Hnot.
  rewrite !drawn_not_in in E by (intros Hc'; apply Hnot, in_or_app; auto).
  rewrite Hf in E. discriminate.
Qed.

(* reading a list of positions that a triple list fills *)
Lemma read_positions (TS : list (Z * Z * Z)) (bits : list bool) (ps : list (Z * Z)) (bound : Z)
      (other : positive -> bool) :
  (forall t, In t TS -> In t (DT ++ MT)) ->
  forallb (triple_ok n bound) TS = true ->
  pos_list_ok (pos_map TS) 0 ps = true ->
  zlength ps = bound -> zlength bits = bound ->
  (forall x y, in_range n x y = true ->
     sp_pix rows x y = drawn (az_bitarr bits) n TS (az_key n x y) || other (az_key n x y)) ->
  (forall t, In t TS -> other (tkey n t) = false) ->
  map (fun p => sp_pix rows (fst p) (snd p)) ps = bits.
Proof.
  intros Hsub Hts Hpl Hlps Hlb Hpix Hother.
  destruct layout_facts as (_&_&_&_&_&_& Hnd &_).
  apply (nth_ext _ _ false false).
  { rewrite map_length. unfold zlength in *. lia. }
  intros i Hi. rewrite map_length in Hi.
  rewrite (nth_indep _ false (sp_pix rows (fst (0, 0)) (snd (0, 0)))) by (rewrite map_length; exact Hi).
  rewrite (map_nth (fun p => sp_pix rows (fst p) (snd p)) ps (0, 0) i).
  pose proof (pos_list_ok_nth ps (pos_map TS) 0 Hpl i Hi) as Hf.
  unfold pos_map in Hf. apply pos_map_find in Hf.
  destruct Hf as [(idx & x & y & Hin & Hk & Hv) | Hf]; [|rewrite PositiveMap.gempty in Hf; discriminate].
  rewrite forallb_forall in Hts. pose proof (Hts _ Hin) as Ht. unfold triple_ok in Ht.
  apply andb_true_iff in Ht. destruct Ht as [Ht Hi2]. apply andb_true_iff in Ht. destruct Ht as [Hr Hi1].
  assert (Hidx : idx = Z.of_nat i) by (apply Z2Pos.inj in Hk; lia). subst idx.
  rewrite Hv. cbn [fst snd]. rewrite Hpix by exact Hr.
  rewrite (drawn_unique _ n (DT ++ MT) TS (Z.of_nat i) x y Hnd Hsub Hin).
  specialize (Hother _ Hin). cbn [tkey] in Hother. rewrite Hother, orb_false_r.
  rewrite ba_bit_nth by lia. rewrite Nat2Z.id. reflexivity.
Qed.

Lemma read_data :
  map (fun p => sp_pix rows (fst p) (snd p)) (sp_data_positions compact L c) = msg.
Proof.
  destruct layout_facts as (_&_&_& HDT & HMT & _ & Hnd & Hfc & Hlen & Hpl & _).
  apply (read_positions DT msg _ total
          (fun k => drawn (az_bitarr mm) n MT k || PositiveSet.mem k fcset)); auto.
  - intros t Ht. apply in_or_app. auto.
  - intros x y Hr. rewrite pix_cell by exact Hr. rewrite orb_assoc. reflexivity.
  - intros t Ht.
    assert (Hk : In (tkey n t) varkeys) by (unfold varkeys; apply in_map, in_or_app; auto).
    rewrite (Hfc _ Hk), orb_false_r.
    apply drawn_not_in. intros Hc'. unfold varkeys in Hnd. rewrite map_app in Hnd.
    eapply nodup_app_disjoint; [exact Hnd | apply in_map; exact Ht | exact Hc'].
Qed.

Lemma read_mode :
  map (fun p => sp_pix rows (fst p) (snd p)) (sp_mode_positions compact c) = mm.
Proof.
  destruct layout_facts as (_&_&_& HDT & HMT & _ & Hnd & Hfc & _ & _ & Hlen & Hpl & _).
  apply (read_positions MT mm _ nm
          (fun k => drawn (az_bitarr msg) n DT k || PositiveSet.mem k fcset)); auto.
  - intros t Ht. apply in_or_app. auto.
  - intros x y Hr. rewrite pix_cell by exact Hr.
    destruct (drawn (az_bitarr msg) n DT _), (drawn (az_bitarr mm) n MT _), (PositiveSet.mem _ fcset);
      reflexivity.
  - intros t Ht.
    assert (Hk : In (tkey n t) varkeys) by (unfold varkeys; apply in_map, in_or_app; auto).
    rewrite (Hfc _ Hk), orb_false_r.
    apply drawn_not_in. intros Hc'. unfold varkeys in Hnd. rewrite map_app in Hnd.
    eapply nodup_app_disjoint; [exact Hnd | exact Hc' | apply in_map; exact Ht].
Qed.

End Layout.

(* ------------------------------------------------------------------ *)
(* the layer theorem: what a reader sees of a drawn symbol              *)
Theorem az_layout_read : forall (compact : bool) (L : Z) (msg mm : list bool),
  (if compact then 1 <= L <= 4 else 1 <= L <= 32) ->
  zlength msg = az_total_bits L compact ->
  zlength mm = az_mode_len compact ->
  let n := az_matrix_size compact L in
  let c := n / 2 in
  let M := az_draw compact L msg mm in
  let rows := az_rows (Z.to_nat (am_size M)) 0 M in
  am_size M = n /\ am_bad M = false
  /\ n = sp_size compact L /\ Z.odd n = true /\ 15 <= n
  /\ zlength rows = n /\ Forall (fun r => zlength r = n) rows
  /\ sp_cells_ok rows (sp_finder compact c) = true
  /\ (compact = false ->
      sp_cells_ok rows (sp_finder true c) = false /\ sp_cells_ok rows (sp_grid n c) = true)
  /\ map (fun p => sp_pix rows (fst p) (snd p)) (sp_mode_positions compact c) = mm
  /\ map (fun p => sp_pix rows (fst p) (snd p)) (sp_data_positions compact L c) = msg
  /\ zlength (sp_data_positions compact L c) = sp_capacity compact L.
Proof.
  intros compact L msg mm HL Hmsg Hmm n c M rows.
  pose proof (layout_ok_cfg compact L HL) as Hok.
  destruct (layout_facts compact L Hok) as (F1 & F2 & F3 & _ & _ & _ & _ & _ & F9 & _).
  destruct (draw_facts compact L Hok msg mm Hmsg Hmm) as (D1 & D2 & _).
  destruct (rows_shape compact L Hok msg mm Hmsg Hmm) as (R1 & R2).
  repeat match goal with |- _ /\ _ => split end; auto.
  - apply (finder_ok compact L Hok msg mm Hmsg Hmm).
  - intros Hc. apply (full_not_compact compact L Hok msg mm Hmsg Hmm Hc).
  - apply (read_mode compact L Hok msg mm Hmsg Hmm).
  - apply (read_data compact L Hok msg mm Hmsg Hmm).
Qed.
