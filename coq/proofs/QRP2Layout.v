(* QR layer 2: layout.  For each of the 40 versions (finite, vm_compute):
   the model's function-module map is the ISO map, its zig-zag placement order is
   the specification's column-pair order, duplicate-free, disjoint from the
   function modules, of length 8*codewords + remainder bits; the fixed patterns have
   the prescribed colours; the format-information targets are the two ISO copies.
   For all x, y (arithmetic): the 8 mask predicates are those of Table 10. *)
From Coq Require Import FMapPositive.
From Verif Require Import Prelude Barcode BitListM TabQr QRMBits QRMBlocks QRMRender QRM QRSpec QRP1Tables.

Local Ltac Zify.zify_post_hook ::= Z.div_mod_to_equations.

(* ---------- masks: setMasked = Table 10, for all coordinates ---------- *)
Lemma go_mod_nonneg' a b : 0 <= a -> 0 < b -> go_mod a b = a mod b.
Proof. intros; unfold go_mod; apply Z.rem_mod_nonneg; lia. Qed.

Lemma go_div_nonneg' a b : 0 <= a -> 0 < b -> go_div a b = a / b.
Proof. intros; unfold go_div; apply Z.quot_div_nonneg; lia. Qed.

Theorem qr_masks_table10 : forall mask x y, 0 <= mask < 8 -> 0 <= x -> 0 <= y ->
  mask_bit mask x y = spec_mask mask x y.
Proof.
  intros mask x y Hm Hx Hy.
  assert (Hxy : 0 <= y * x) by (apply Z.mul_nonneg_nonneg; lia).
  assert (Hd2 : 0 <= y / 2) by (apply Z.div_pos; lia).
  assert (Hd3 : 0 <= x / 3) by (apply Z.div_pos; lia).
  assert (Hm2 : 0 <= (y * x) mod 2 < 2) by (apply Z.mod_pos_bound; lia).
  assert (Hm3 : 0 <= (y * x) mod 3 < 3) by (apply Z.mod_pos_bound; lia).
  assert (Hs2 : 0 <= (y + x) mod 2 < 2) by (apply Z.mod_pos_bound; lia).
  unfold mask_bit, spec_mask.
  assert (mask = 0 \/ mask = 1 \/ mask = 2 \/ mask = 3 \/ mask = 4 \/ mask = 5 \/ mask = 6 \/ mask = 7)
    as [->|[->|[->|[->|[->|[->|[->| ->]]]]]]] by lia; cbn [Z.eqb Pos.eqb];
    rewrite ?go_div_nonneg' by lia;
    rewrite ?(go_mod_nonneg' (y * x) 2), ?(go_mod_nonneg' (y * x) 3), ?(go_mod_nonneg' (y + x) 2) by lia;
    rewrite ?go_mod_nonneg' by lia; reflexivity.
Qed.

(* masking is an involution *)
Lemma unmask_mask b m : xorb (xorb b m) m = b.
Proof. destruct b, m; reflexivity. Qed.

(* ---------- boolean checks and their reflection ---------- *)
Definition pair_eqb (p q : Z * Z) : bool := (fst p =? fst q) && (snd p =? snd q).

Lemma pair_eqb_eq p q : pair_eqb p q = true <-> p = q.
Proof.
  destruct p as [a b], q as [c d]. unfold pair_eqb; cbn [fst snd]. split.
  - intros H. apply andb_true_iff in H. f_equal; lia.
  - intros H. inversion H; subst. lia.
Qed.

Fixpoint pairs_eqb (a b : list (Z * Z)) : bool :=
  match a, b with
  | [], [] => true
  | x :: a', y :: b' => pair_eqb x y && pairs_eqb a' b'
  | _, _ => false
  end.

Lemma pairs_eqb_eq a : forall b, pairs_eqb a b = true -> a = b.
Proof.
  induction a as [|x a IH]; intros [|y b] H; cbn in H; try discriminate; [reflexivity|].
  apply andb_true_iff in H. destruct H as [H1 H2]. apply pair_eqb_eq in H1. subst.
  f_equal. apply IH. exact H2.
Qed.

Definition mem_pair (p : Z * Z) (l : list (Z * Z)) : bool := existsb (pair_eqb p) l.

Lemma mem_pair_false p l : mem_pair p l = false -> ~ In p l.
Proof.
  unfold mem_pair. intros H Hin.
  assert (existsb (pair_eqb p) l = true) as H2.
  { apply existsb_exists. exists p. split; [exact Hin|]. apply pair_eqb_eq. reflexivity. }
  congruence.
Qed.

(* the BitList index of a cell, as a positive map key *)
Definition cell_key (dim : Z) (p : Z * Z) : positive := Z.to_pos (fst p * dim + snd p + 1).

Definition in_range (dim : Z) (p : Z * Z) : Prop := 0 <= fst p < dim /\ 0 <= snd p < dim.
Definition in_rangeb (dim : Z) (p : Z * Z) : bool :=
  (0 <=? fst p) && (fst p <? dim) && (0 <=? snd p) && (snd p <? dim).

Lemma in_rangeb_spec dim p : in_rangeb dim p = true <-> in_range dim p.
Proof. unfold in_rangeb, in_range. lia. Qed.

Lemma cell_key_inj dim p q : in_range dim p -> in_range dim q -> cell_key dim p = cell_key dim q -> p = q.
Proof.
  destruct p as [a b], q as [c d]. unfold in_range, cell_key; cbn [fst snd]. intros Hp Hq H.
  assert (a * dim + b + 1 = c * dim + d + 1) as E.
  { apply Z2Pos.inj in H; nia. }
  assert (a = c) by nia. subst. f_equal. lia.
Qed.

(* duplicate check with a positive-keyed set *)
Fixpoint nodup_keys (seen : PositiveMap.t unit) (l : list positive) : bool :=
  match l with
  | [] => true
  | k :: t =>
    match PositiveMap.find k seen with
    | Some _ => false
    | None => nodup_keys (PositiveMap.add k tt seen) t
    end
  end.

Lemma nodup_keys_sound l : forall seen, nodup_keys seen l = true ->
  NoDup l /\ forall k, In k l -> PositiveMap.find k seen = None.
Proof.
  induction l as [|k t IH]; intros seen H; cbn in H.
  - split; [constructor|]. intros k [].
  - destruct (PositiveMap.find k seen) eqn:E; [discriminate|].
    destruct (IH _ H) as [Hnd Hfresh]. split.
    + constructor; [|exact Hnd]. intros Hin. specialize (Hfresh k Hin).
      rewrite PositiveMap.gss in Hfresh. discriminate.
    + intros k' [->|Hin]; [exact E|].
      specialize (Hfresh k' Hin). destruct (Pos.eq_dec k' k) as [->|Hne]; [exact E|].
      rewrite PositiveMap.gso in Hfresh by exact Hne. exact Hfresh.
Qed.

Definition nodup_cells (dim : Z) (l : list (Z * Z)) : bool :=
  nodup_keys (PositiveMap.empty unit) (map (cell_key dim) l).

Lemma nodup_cells_sound dim l : nodup_cells dim l = true -> NoDup (map (cell_key dim) l).
Proof. intros H. apply nodup_keys_sound in H. tauto. Qed.

(* all cells of a size x size square, and "for all cells" as a boolean *)
Definition forall_cells (size : Z) (P : Z -> Z -> bool) : bool :=
  let idx := sseq 0 (Z.to_nat size) in
  forallb (fun y => forallb (fun x => P x y) idx) idx.

Lemma forall_cells_spec size P : forall_cells size P = true ->
  forall x y, 0 <= x < size -> 0 <= y < size -> P x y = true.
Proof.
  unfold forall_cells. intros H x y Hx Hy.
  rewrite forallb_forall in H. specialize (H y (in_sseq y (Z.to_nat size) 0 ltac:(lia))).
  rewrite forallb_forall in H. apply (H x (in_sseq x (Z.to_nat size) 0 ltac:(lia))).
Qed.

Lemma forall_cells_intro size P :
  (forall x y, 0 <= x < size -> 0 <= y < size -> P x y = true) -> forall_cells size P = true.
Proof.
  intros H. unfold forall_cells. apply forallb_forall. intros y Hy. apply sseq_in in Hy.
  apply forallb_forall. intros x Hx. apply sseq_in in Hx. apply H; lia.
Qed.

Definition fixed_none (v : Z) (p : Z * Z) : bool :=
  match fixed_pattern v (fst p) (snd p) with None => true | Some _ => false end.

Definition peek (m : qrmat) (p : Z * Z) : bool := qm_peek m (fst p) (snd p).

(* the two ISO copies of the format information, most significant bit first *)
Definition format_cells (size : Z) : list (Z * Z) := format_coords1 ++ format_coords2 size.
Definition version_cells (size : Z) : list (Z * Z) := version_coords1 size ++ version_coords2 size.

Definition targets_eqb (t : list (Z * Z * Z)) (cells : list (Z * Z)) (idx : list Z) : bool :=
  pairs_eqb (map (fun q => (fst (fst q), snd (fst q))) t) cells
  && pairs_eqb (map (fun q => (snd q, 0)) t) (map (fun i => (i, 0)) idx).

(* everything the composition needs to know about one version, as one boolean *)
Definition version_check (v : Z) : bool :=
  let size := spec_size v in
  match base_matrix v with
  | Ok (occ, res0) =>
    match iterate_modules occ with
    | Ok order =>
      (qm_dim occ =? size) && (qm_dim res0 =? size)
      && pairs_eqb order (spec_order v)
      && (zlength order =? 8 * total_codewords v + remainder_bits v)
      && nodup_cells size order
      && forallb (fun p => in_rangeb size p && negb (peek occ p)) order
      && (let fc := format_cells size in
          forall_cells size (fun x y =>
           match fixed_pattern v x y with
           | Some b => qm_peek occ x y && Bool.eqb (qm_peek res0 x y) b && negb (mem_pair (x, y) fc)
           | None => Bool.eqb (qm_peek occ x y) (is_format_area v x y || is_version_area v x y)
           end))
      && targets_eqb (format_targets size) (format_cells size) (sseq 0 15 ++ sseq 0 15)
      && nodup_cells size (format_cells size)
      && forallb (fun p => in_rangeb size p && peek occ p && fixed_none v p) (format_cells size)
      && version_info_ok (qm_peek res0) v size
      && ((v <? 7)
          || forallb (fun p => in_rangeb size p && peek occ p && negb (mem_pair p (format_cells size)))
                     (version_cells size))
    | _ => false
    end
  | _ => false
  end.

Theorem qr_layout_all_versions : forallb version_check all_versions = true.
Proof. vm_compute. reflexivity. Qed.

(* ---------- the same facts as propositions ---------- *)
Record layout_facts (v : Z) (occ res0 : qrmat) (order : list (Z * Z)) : Prop := {
  lf_dim_occ : qm_dim occ = spec_size v;
  lf_dim_res : qm_dim res0 = spec_size v;
  lf_order : order = spec_order v;
  lf_order_len : zlength order = 8 * total_codewords v + remainder_bits v;
  lf_order_nodup : NoDup (map (cell_key (spec_size v)) order);
  lf_order_cells : forall p, In p order ->
    in_range (spec_size v) p /\ peek occ p = false /\ fixed_pattern v (fst p) (snd p) = None;
  lf_occ : forall x y, 0 <= x < spec_size v -> 0 <= y < spec_size v ->
    qm_peek occ x y = is_function v x y;
  lf_patterns : forall x y b, 0 <= x < spec_size v -> 0 <= y < spec_size v ->
    fixed_pattern v x y = Some b ->
    qm_peek res0 x y = b /\ ~ In (x, y) (format_cells (spec_size v));
  lf_targets : map (fun q => (fst (fst q), snd (fst q))) (format_targets (spec_size v))
               = format_cells (spec_size v)
               /\ map snd (format_targets (spec_size v)) = sseq 0 15 ++ sseq 0 15;
  lf_format_nodup : NoDup (map (cell_key (spec_size v)) (format_cells (spec_size v)));
  lf_format_cells : forall p, In p (format_cells (spec_size v)) ->
    in_range (spec_size v) p /\ peek occ p = true /\ fixed_pattern v (fst p) (snd p) = None;
  lf_version : version_info_ok (qm_peek res0) v (spec_size v) = true;
  lf_version_cells : 7 <= v -> forall p, In p (version_cells (spec_size v)) ->
    in_range (spec_size v) p /\ peek occ p = true /\ ~ In p (format_cells (spec_size v))
}.

Lemma fixed_none_spec v p : fixed_none v p = true -> fixed_pattern v (fst p) (snd p) = None.
Proof. unfold fixed_none. destruct (fixed_pattern v (fst p) (snd p)); [discriminate|reflexivity]. Qed.

Lemma map_snd0_inj (a : list Z) : forall b, map (fun i => (i, 0)) a = map (fun i => (i, 0)) b -> a = b.
Proof.
  induction a as [|x a IH]; intros [|y b] H; cbn in H; try discriminate; [reflexivity|].
  inversion H; subst. f_equal. apply IH. assumption.
Qed.

Local Ltac split_and H :=
  repeat match type of H with
  | _ && _ = true =>
    let H1 := fresh "Hc" in let H2 := fresh "Hc" in
    apply andb_true_iff in H; destruct H as [H1 H2]; try split_and H1; try split_and H2
  end.

Theorem layout_facts_of_version v : 1 <= v <= 40 ->
  exists occ res0 order,
    base_matrix v = Ok (occ, res0) /\ iterate_modules occ = Ok order
    /\ layout_facts v occ res0 order.
Proof.
  intros Hv. pose proof qr_layout_all_versions as H. rewrite forallb_forall in H.
  specialize (H v (in_all_versions v Hv)). unfold version_check in H.
  destruct (base_matrix v) as [[occ res0]| | |] eqn:Ebase; try discriminate.
  destruct (iterate_modules occ) as [order| | |] eqn:Eiter; try discriminate.
  exists occ, res0, order. split; [reflexivity|]. split; [exact Eiter|].
  apply andb_true_iff in H. destruct H as [H Hver].
  apply andb_true_iff in H. destruct H as [H Hvi].
  apply andb_true_iff in H. destruct H as [H Hfc].
  apply andb_true_iff in H. destruct H as [H Hfnd].
  apply andb_true_iff in H. destruct H as [H Htg].
  apply andb_true_iff in H. destruct H as [H Hcells].
  apply andb_true_iff in H. destruct H as [H Hoc].
  apply andb_true_iff in H. destruct H as [H Hnd].
  apply andb_true_iff in H. destruct H as [H Hlen].
  apply andb_true_iff in H. destruct H as [H Hord].
  apply andb_true_iff in H. destruct H as [Hd1 Hd2].
  cbv zeta in Hcells.
  assert (Hcell : forall x y, 0 <= x < spec_size v -> 0 <= y < spec_size v ->
            match fixed_pattern v x y with
            | Some b => qm_peek occ x y = true /\ qm_peek res0 x y = b
                        /\ ~ In (x, y) (format_cells (spec_size v))
            | None => qm_peek occ x y = (is_format_area v x y || is_version_area v x y)
            end).
  { intros x y Hx Hy. pose proof (forall_cells_spec _ _ Hcells x y Hx Hy) as E. cbv beta in E.
    destruct (fixed_pattern v x y) as [b|].
    - apply andb_true_iff in E. destruct E as [E E3].
      apply andb_true_iff in E. destruct E as [E1 E2].
      split; [exact E1|]. split; [apply Bool.eqb_prop; exact E2|].
      apply mem_pair_false. apply negb_true_iff in E3. exact E3.
    - apply Bool.eqb_prop in E. exact E. }
  constructor.
  - lia.
  - lia.
  - apply pairs_eqb_eq. exact Hord.
  - lia.
  - apply nodup_cells_sound. exact Hnd.
  - intros p Hp. rewrite forallb_forall in Hoc. specialize (Hoc p Hp).
    apply andb_true_iff in Hoc. destruct Hoc as [H1 H2].
    apply in_rangeb_spec in H1. apply negb_true_iff in H2.
    split; [exact H1|]. split; [exact H2|].
    destruct H1 as [Hx Hy]. specialize (Hcell (fst p) (snd p) Hx Hy).
    destruct (fixed_pattern v (fst p) (snd p)) as [b|]; [|reflexivity].
    destruct Hcell as [Ho _]. unfold peek in H2. congruence.
  - intros x y Hx Hy. specialize (Hcell x y Hx Hy). unfold is_function.
    destruct (fixed_pattern v x y) as [b|]; [tauto|exact Hcell].
  - intros x y b Hx Hy Hfp. specialize (Hcell x y Hx Hy). rewrite Hfp in Hcell. tauto.
  - unfold targets_eqb in Htg. apply andb_true_iff in Htg. destruct Htg as [T1 T2].
    apply pairs_eqb_eq in T1. apply pairs_eqb_eq in T2. split; [exact T1|].
    apply map_snd0_inj. rewrite map_map. exact T2.
  - apply nodup_cells_sound. exact Hfnd.
  - intros p Hp. rewrite forallb_forall in Hfc. specialize (Hfc p Hp).
    apply andb_true_iff in Hfc. destruct Hfc as [Hfc H3].
    apply andb_true_iff in Hfc. destruct Hfc as [H1 H2].
    split; [apply in_rangeb_spec; exact H1|]. split; [exact H2|apply fixed_none_spec; exact H3].
  - exact Hvi.
  - intros H7 p Hp. apply orb_true_iff in Hver. destruct Hver as [Hlt|Hver]; [lia|].
    rewrite forallb_forall in Hver. specialize (Hver p Hp).
    apply andb_true_iff in Hver. destruct Hver as [Hver H3].
    apply andb_true_iff in Hver. destruct Hver as [H1 H2].
    split; [apply in_rangeb_spec; exact H1|]. split; [exact H2|].
    apply mem_pair_false. apply negb_true_iff in H3. exact H3.
Qed.
