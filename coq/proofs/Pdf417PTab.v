(* PDF417 layer 1: finite, complete facts about the tables of /repo/pdf417 as
   generated into gen/TabPdf417.v, checked by the kernel (vm_compute). *)
From Verif Require Import Prelude Barcode TabPdf417 Pdf417M Pdf417Spec.

(* ---------- small generic helpers ---------- *)
Lemma pdf_range_In x lo n : In x (pdf_range lo n) <-> lo <= x < lo + Z.of_nat n.
Proof.
  revert lo; induction n as [|n IH]; intros lo; simpl.
  - split; [tauto | lia].
  - rewrite IH. lia.
Qed.

Fixpoint pdf_nodupb (l : list Z) : bool :=
  match l with
  | [] => true
  | x :: t => negb (existsb (Z.eqb x) t) && pdf_nodupb t
  end.

Lemma pdf_nodupb_NoDup l : pdf_nodupb l = true -> NoDup l.
Proof.
  induction l as [|x t IH]; simpl; intros H; constructor.
  - apply andb_prop in H as [H _]. intros Hin.
    assert (existsb (Z.eqb x) t = true) as E by (apply existsb_exists; exists x; split; [exact Hin | apply Z.eqb_refl]).
    rewrite E in H. discriminate.
  - apply IH. apply andb_prop in H as [_ H]. exact H.
Qed.

(* ---------- constants ---------- *)
Lemma pdf_tab_consts :
  pdf_latch_to_text = 900 /\ pdf_latch_to_byte_padded = 901 /\ pdf_latch_to_numeric = 902 /\
  pdf_latch_to_byte = 924 /\ pdf_shift_to_byte = 913 /\ pdf_padding_codeword = 900.
Proof. repeat split; reflexivity. Qed.

Lemma pdf_tab_min_numeric : 1 <= pdf_min_numeric_count.
Proof. vm_compute. discriminate. Qed.

Lemma pdf_tab_limits :
  2 <= pdf_min_cols /\ pdf_min_cols <= pdf_max_cols <= 30 /\
  2 <= pdf_min_rows /\ pdf_min_rows <= pdf_max_rows <= 90 /\
  pdf_max_rows * pdf_max_cols <= 928 /\ 1 <= pdf_module_height.
Proof. vm_compute. repeat split; discriminate. Qed.

(* ---------- bar/space patterns ---------- *)

(* the source table is the pinned reference copy *)
Lemma pdf_tab_patterns_pinned : pdf_codewords = pdfs_patterns.
Proof. vm_compute. reflexivity. Qed.

(* the table of cluster 3t *)
Definition pdfs_cluster (t : Z) : list Z :=
  if t =? 0 then pdfs_cluster0 else if t =? 1 then pdfs_cluster3 else pdfs_cluster6.

Lemma pdfs_patterns_nth t : 0 <= t < 3 ->
  nth_error pdfs_patterns (Z.to_nat t) = Some (pdfs_cluster t).
Proof.
  intros H. assert (t = 0 \/ t = 1 \/ t = 2) as [->| [->| ->]] by lia; reflexivity.
Qed.

Lemma pdf_tab_patterns_length t : 0 <= t < 3 -> length (pdfs_cluster t) = 929%nat.
Proof.
  intros H. assert (t = 0 \/ t = 1 \/ t = 2) as [->| [->| ->]] by lia; vm_compute; reflexivity.
Qed.

(* every pattern of table t is a well-formed codeword pattern of cluster 3t *)
Lemma pdf_tab_patterns_wellformed :
  forallb (pdfs_pattern_ok 0) pdfs_cluster0 = true /\
  forallb (pdfs_pattern_ok 3) pdfs_cluster3 = true /\
  forallb (pdfs_pattern_ok 6) pdfs_cluster6 = true.
Proof. split; [|split]; vm_cast_no_check (eq_refl true). Qed.

Lemma pdf_tab_pattern_ok t p :
  0 <= t < 3 -> In p (pdfs_cluster t) -> pdfs_pattern_ok (3 * t) p = true.
Proof.
  intros Ht Hp. destruct pdf_tab_patterns_wellformed as (H0 & H1 & H2).
  rewrite forallb_forall in H0, H1, H2.
  assert (t = 0 \/ t = 1 \/ t = 2) as [->| [->| ->]] by lia;
    [change (pdfs_cluster 0) with pdfs_cluster0 in Hp | change (pdfs_cluster 1) with pdfs_cluster3 in Hp
     | change (pdfs_cluster 2) with pdfs_cluster6 in Hp]; [apply H0 | apply H1 | apply H2]; exact Hp.
Qed.

(* pairwise distinct within a cluster: pattern -> value is a function *)
Lemma pdf_tab_patterns_nodup_b :
  pdf_nodupb pdfs_cluster0 = true /\ pdf_nodupb pdfs_cluster3 = true /\ pdf_nodupb pdfs_cluster6 = true.
Proof. split; [|split]; vm_cast_no_check (eq_refl true). Qed.

Lemma pdf_tab_patterns_nodup t : 0 <= t < 3 -> NoDup (pdfs_cluster t).
Proof.
  intros Ht. destruct pdf_tab_patterns_nodup_b as (H0 & H1 & H2).
  assert (t = 0 \/ t = 1 \/ t = 2) as [->| [->| ->]] by lia;
    [change (pdfs_cluster 0) with pdfs_cluster0 | change (pdfs_cluster 1) with pdfs_cluster3
     | change (pdfs_cluster 2) with pdfs_cluster6]; apply pdf_nodupb_NoDup; assumption.
Qed.

(* start / stop patterns: values, module counts and element widths *)
Lemma pdf_tab_start_stop :
  pdf_start_word = pdfs_start /\ pdf_stop_word = pdfs_stop /\
  pdfs_start = 130728 /\ pdfs_stop = 260649 /\
  map snd (pdfs_runs (pdfs_bits 17 pdfs_start)) = [8; 1; 1; 1; 1; 1; 1; 3] /\
  map snd (pdfs_runs (pdfs_bits 18 pdfs_stop)) = [7; 1; 1; 3; 1; 1; 1; 2; 1] /\
  65536 <= pdfs_start < 131072 /\ 131072 <= pdfs_stop < 262144.
Proof. vm_compute. repeat split; try reflexivity; discriminate. Qed.

(* ---------- Reed-Solomon generator polynomials ---------- *)

Definition pdf_levels : list Z := [0; 1; 2; 3; 4; 5; 6; 7; 8].

(* correctionFactors[l] ++ [1] = coefficients of prod_{j=1..2^(l+1)} (x - 3^j) mod 929,
   the product being computed here, in the kernel *)
Definition pdf_level_gen_b (l : Z) : bool :=
  match zget pdf_correction_factors l with
  | Some f =>
    let g := pdfs_generator (Z.to_nat (pdf_ec_count l)) in
    (length f + 1 =? length g)%nat && forallb (fun p => fst p =? snd p) (combine (f ++ [1]) g)
  | None => false
  end.

Lemma pdf_tab_factors_generator : forallb pdf_level_gen_b pdf_levels = true.
Proof. vm_cast_no_check (eq_refl true). Qed.

Lemma pdf_tab_factors_count : length pdf_correction_factors = 9%nat.
Proof. reflexivity. Qed.

(* g(x) = x^k + sum f_i x^i with f = correctionFactors[l]; value at a, Horner from the top *)
Definition pdf_g_eval (f : list Z) (a : Z) : Z :=
  fold_left (fun acc c => (acc * a + c) mod 929) (rev f) 1.

(* all of 3^1 .. 3^k are roots of g *)
Fixpoint pdf_roots_b (k : nat) (a : Z) (f : list Z) : bool :=
  match k with
  | O => true
  | S k' => (pdf_g_eval f a =? 0) && pdf_roots_b k' (a * 3 mod 929) f
  end.

Definition pdf_level_roots_b (l : Z) : bool :=
  match zget pdf_correction_factors l with
  | Some f => (zlength f =? pdf_ec_count l) && pdf_roots_b (Z.to_nat (pdf_ec_count l)) 3 f
              && forallb (fun c => (0 <=? c) && (c <? 929)) f
  | None => false
  end.

Lemma pdf_tab_factors_roots : forallb pdf_level_roots_b pdf_levels = true.
Proof. vm_cast_no_check (eq_refl true). Qed.

Lemma pdf_tab_level_roots l : 0 <= l <= 8 -> pdf_level_roots_b l = true.
Proof.
  intros Hl. pose proof pdf_tab_factors_roots as H.
  rewrite forallb_forall in H. apply H. unfold pdf_levels. simpl. lia.
Qed.

(* ---------- text sub-mode tables ---------- *)

Definition pdf_vals30 : list Z := pdf_range 0 30.

(* map m is the inverse of the spec's action table of sub-mode s *)
Definition pdf_map_is_table_b (m : list (Z * Z)) (s : pdfs_sub) : bool :=
  forallb (fun e => match pdfs_text_action s (snd e) with AChar c => c =? fst e | _ => false end) m &&
  forallb (fun v => match pdfs_text_action s v with
                    | AChar c => match pdf_assoc m c with Some v' => v' =? v | None => false end
                    | _ => true end) pdf_vals30.

Lemma pdf_assoc_In m k v : pdf_assoc m k = Some v -> In (k, v) m.
Proof.
  induction m as [|[k' v'] t IH]; simpl; [discriminate|].
  destruct (k' =? k) eqn:E; intros H.
  - inversion H; subst. left. f_equal. lia.
  - right; auto.
Qed.

Lemma pdf_map_is_table m s : pdf_map_is_table_b m s = true ->
  forall ch v, pdf_assoc m ch = Some v <-> (0 <= v <= 29 /\ pdfs_text_action s v = AChar ch).
Proof.
  intros H ch v. apply andb_prop in H as [H1 H2].
  rewrite forallb_forall in H1, H2. split.
  - intros Ha. apply pdf_assoc_In in Ha. specialize (H1 _ Ha). simpl in H1.
    destruct (pdfs_text_action s v) eqn:E; try discriminate.
    assert (c = ch) by lia. subst c. split; [|reflexivity].
    unfold pdfs_text_action in E.
    destruct ((v <? 0) || (v >? 29)) eqn:Er; [discriminate | lia].
  - intros [Hr Ha].
    assert (In v pdf_vals30) as Hin by (apply pdf_range_In; simpl; lia).
    specialize (H2 _ Hin). rewrite Ha in H2.
    destruct (pdf_assoc m ch) as [v'|]; [|discriminate]. f_equal. lia.
Qed.

(* mixedMap / punctMap are exactly the ISO Mixed / Punctuation tables *)
Lemma pdf_tab_mixed : forall ch v,
  pdf_assoc pdf_mixed_map ch = Some v <-> (0 <= v <= 29 /\ pdfs_text_action TMixed v = AChar ch).
Proof. apply pdf_map_is_table. vm_compute. reflexivity. Qed.

Lemma pdf_tab_punct : forall ch v,
  pdf_assoc pdf_punct_map ch = Some v <-> (0 <= v <= 29 /\ pdfs_text_action TPunct v = AChar ch).
Proof. apply pdf_map_is_table. vm_compute. reflexivity. Qed.

(* every text character is in at least one sub-mode table *)
Definition pdf_text_chars : list Z := [9; 10; 13] ++ pdf_range 32 95.

Lemma pdf_is_text_In ch : pdf_is_text ch = true -> In ch pdf_text_chars.
Proof.
  unfold pdf_is_text, pdf_text_chars. intros H. apply in_or_app.
  destruct (ch =? 9) eqn:E1; [left; simpl; lia|].
  destruct (ch =? 10) eqn:E2; [left; simpl; lia|].
  destruct (ch =? 13) eqn:E3; [left; simpl; lia|].
  right. apply pdf_range_In. simpl in H. lia.
Qed.

Lemma pdf_tab_text_covered_b :
  forallb (fun ch => pdf_is_alpha_upper ch || pdf_is_alpha_lower ch || pdf_is_mixed ch || pdf_is_punct ch)
          pdf_text_chars = true.
Proof. vm_compute. reflexivity. Qed.

Lemma pdf_tab_text_covered ch : pdf_is_text ch = true ->
  pdf_is_alpha_upper ch || pdf_is_alpha_lower ch || pdf_is_mixed ch || pdf_is_punct ch = true.
Proof.
  intros H. pose proof pdf_tab_text_covered_b as Hb. rewrite forallb_forall in Hb.
  apply Hb. apply pdf_is_text_In. exact H.
Qed.
