(* C03/C10/C13 -- choice of the configuration (compact?, layers, word size):
   the user-specified path and the automatic loop both accept a configuration
   exactly when the stuffed data plus the requested check bits fit it; the
   automatic loop returns the first fitting configuration of its order
   Compact 1..4, Full 4..32. *)
From Verif Require Import Prelude BitListM GFM TabAztec AztecM AztecSpec AztecPBase AztecPTab AztecPStuff.
Local Ltac Zify.zify_post_hook ::= Z.div_mod_to_equations.

Lemma go_mod_nonneg' a b : 0 <= a -> 0 < b -> go_mod a b = a mod b.
Proof. intros. unfold go_mod. apply Z.rem_mod_nonneg; lia. Qed.

Lemma go_div_nonneg' a b : 0 <= a -> 0 < b -> go_div a b = a / b.
Proof. intros. unfold go_div. apply Z.quot_div_nonneg; lia. Qed.

(* the fit test, written once *)
Definition az_fits (bits : list bool) (eccBits : Z) (compact : bool) (L : Z) : bool :=
  match az_stuff_bits bits (sp_word_size L) with
  | Ok st =>
    let tb := sp_capacity compact L in
    let w := sp_word_size L in
    (zlength st + eccBits <=? tb - tb mod w) && (negb compact || (zlength st <=? w * 64))
  | _ => false
  end.

(* the order of the automatic loop *)
Definition cfg_of (i : Z) : bool * Z := if i <=? 3 then (true, i + 1) else (false, i).

Definition cfg_valid (compact : bool) (L : Z) : Prop :=
  if compact then 1 <= L <= 4 else 1 <= L <= 32.

Lemma sp_word_size_range L : 6 <= sp_word_size L <= 12.
Proof. destruct (sp_word_size_cases L) as [H|[H|[H|H]]]; lia. Qed.

Lemma sp_capacity_nonneg c L : 0 <= L -> 0 <= sp_capacity c L.
Proof. unfold sp_capacity. destruct c; nia. Qed.

Lemma stuff_ok bits L : exists st, az_stuff_bits bits (sp_word_size L) = Ok st.
Proof.
  pose proof (sp_word_size_range L) as Hw.
  destruct (az_stuff_correct (sp_word_size L) bits ltac:(lia)) as (out & k & H & _). eauto.
Qed.

(* ---- user-specified layers ---- *)
Lemma user_config_spec bits ecc req : req <> 0 ->
  match az_user_config bits ecc req with
  | Ok (c, L, tb, w, st) =>
      -4 <= req <= 32 /\ c = (req <? 0) /\ L = Z.abs req /\ cfg_valid c L
      /\ tb = az_total_bits L c /\ w = sp_word_size L
      /\ az_stuff_bits bits w = Ok st /\ az_fits bits ecc c L = true
  | Err => ~ (-4 <= req <= 32) \/ az_fits bits ecc (req <? 0) (Z.abs req) = false
  | _ => False
  end.
Proof.
  intros Hreq. unfold az_user_config.
  destruct az_limits_iso as [-> ->].
  set (compact := req <? 0).
  set (layers := if compact then az_neg64 req else req).
  destruct ((layers <? 0) || (compact && (layers >? 4)) || (negb compact && (layers >? 32))) eqn:Erange.
  { left. unfold layers, compact, az_neg64 in *.
    destruct (req <? 0) eqn:E; cbv iota in Erange; cbn [negb andb] in Erange.
    - destruct (req =? -9223372036854775808) eqn:E2; lia.
    - lia. }
  assert (HL : layers = Z.abs req /\ cfg_valid compact layers /\ -4 <= req <= 32).
  { unfold layers, compact, az_neg64, cfg_valid in *.
    destruct (req <? 0) eqn:E; cbv iota in Erange |- *; cbn [negb andb] in Erange.
    - destruct (req =? -9223372036854775808) eqn:E2; lia.
    - lia. }
  destruct HL as (HL & Hvalid & Hr).
  assert (H132 : 1 <= layers <= 32) by (unfold cfg_valid in Hvalid; destruct compact; lia).
  rewrite (az_word_size_iso layers H132).
  pose proof (sp_word_size_range layers) as Hw.
  destruct (sp_word_size layers =? 0) eqn:E0; [lia|].
  pose proof (sp_capacity_nonneg compact layers ltac:(lia)) as Hcap.
  rewrite az_total_bits_iso. rewrite go_mod_nonneg' by lia.
  fold compact. rewrite <- HL.
  unfold az_fits.
  destruct (stuff_ok bits layers) as (st & Hst). rewrite Hst. cbn [obind].
  destruct (zlength st + ecc >? sp_capacity compact layers - sp_capacity compact layers mod sp_word_size layers) eqn:E1.
  { right. replace (_ <=? _) with false by lia. reflexivity. }
  destruct (compact && (zlength st >? sp_word_size layers * 64)) eqn:E2.
  { right. destruct compact; cbn [andb negb orb] in *; [|discriminate].
    replace (zlength st <=? sp_word_size layers * 64) with false by lia. apply andb_false_r. }
  repeat split; auto; try lia.
  unfold az_fits. rewrite Hst.
  apply andb_true_iff. split; [lia|]. destruct compact; cbn [andb negb orb] in *; lia.
Qed.

(* ---- the automatic loop ---- *)
Definition fits_at (bits : list bool) (ecc : Z) (j : Z) : bool :=
  az_fits bits ecc (fst (cfg_of j)) (snd (cfg_of j)).

Lemma cfg_of_valid i : 0 <= i <= 32 -> cfg_valid (fst (cfg_of i)) (snd (cfg_of i)).
Proof. intros Hi. unfold cfg_of, cfg_valid. destruct (i <=? 3) eqn:E; cbn [fst snd]; lia. Qed.

Lemma fits_needs_room bits ecc c L :
  zlength bits + ecc > sp_capacity c L -> 0 <= L -> az_fits bits ecc c L = false.
Proof.
  intros Hbig HL. unfold az_fits.
  pose proof (sp_word_size_range L) as Hw.
  destruct (az_stuff_correct (sp_word_size L) bits ltac:(lia)) as (out & k & Hst & _ & _ & _ & _ & Hle & _).
  rewrite Hst. pose proof (sp_capacity_nonneg c L HL).
  replace (_ <=? _) with false by lia. reflexivity.
Qed.

Lemma auto_loop_spec bits ecc : forall fuel i ws st,
  0 <= i <= 33 -> (Z.to_nat (34 - i) <= fuel)%nat ->
  (ws = 0 \/ (6 <= ws <= 12 /\ az_stuff_bits bits ws = Ok st)) ->
  match az_auto_loop fuel i ws st bits ecc (zlength bits + ecc) with
  | Ok (c, L, tb, w, st') =>
      exists j, i <= j <= 32 /\ (c, L) = cfg_of j /\ cfg_valid c L
        /\ tb = az_total_bits L c /\ w = sp_word_size L
        /\ az_stuff_bits bits w = Ok st' /\ az_fits bits ecc c L = true
        /\ forall j', i <= j' < j -> fits_at bits ecc j' = false
  | Err => forall j, i <= j <= 32 -> fits_at bits ecc j = false
  | _ => False
  end.
Proof.
  induction fuel as [|fuel IH]; intros i ws st Hi Hfuel Hinv; [lia|].
  cbn [az_auto_loop]. destruct az_limits_iso as [-> _].
  destruct (i >? 32) eqn:Ei; [intros j Hj; lia|].
  assert (Hi32 : 0 <= i <= 32) by lia.
  set (compact := i <=? 3). set (layers := if compact then i + 1 else i).
  assert (Hcfg : cfg_of i = (compact, layers))
    by (unfold cfg_of, layers, compact; destruct (i <=? 3); reflexivity).
  pose proof (cfg_of_valid i Hi32) as Hvalid. rewrite Hcfg in Hvalid. cbn [fst snd] in Hvalid.
  assert (H132 : 1 <= layers <= 32) by (unfold cfg_valid in Hvalid; destruct compact; lia).
  (* what the recursive call yields, given that configuration i does not fit *)
  assert (Hnext : forall ws' st', fits_at bits ecc i = false ->
            (ws' = 0 \/ (6 <= ws' <= 12 /\ az_stuff_bits bits ws' = Ok st')) ->
            match az_auto_loop fuel (i + 1) ws' st' bits ecc (zlength bits + ecc) with
            | Ok (c, L, tb, w, st'') =>
                exists j, i <= j <= 32 /\ (c, L) = cfg_of j /\ cfg_valid c L
                  /\ tb = az_total_bits L c /\ w = sp_word_size L
                  /\ az_stuff_bits bits w = Ok st'' /\ az_fits bits ecc c L = true
                  /\ forall j', i <= j' < j -> fits_at bits ecc j' = false
            | Err => forall j, i <= j <= 32 -> fits_at bits ecc j = false
            | _ => False
            end).
  { intros ws' st' Hnot Hinv'.
    specialize (IH (i + 1) ws' st' ltac:(lia) ltac:(lia) Hinv').
    destruct (az_auto_loop fuel (i + 1) ws' st' bits ecc (zlength bits + ecc))
      as [[[[[c L] tb] w] st'']| | |]; auto.
    - destruct IH as (j & Hj & Hc & Hv & Htb & Hw & Hst & Hfit & Hmin).
      exists j. repeat split; auto; try lia.
      intros j' Hj'. destruct (Z.eq_dec j' i) as [->|Hne]; auto. apply Hmin. lia.
    - intros j Hj. destruct (Z.eq_dec j i) as [->|Hne]; auto. apply IH. lia. }
  destruct (zlength bits + ecc >? az_total_bits layers compact) eqn:Ebig.
  { apply Hnext; auto. unfold fits_at. rewrite Hcfg. cbn [fst snd].
    apply fits_needs_room; [rewrite <- az_total_bits_iso; lia | lia]. }
  rewrite (az_word_size_iso layers H132).
  pose proof (sp_word_size_range layers) as Hw.
  set (w := sp_word_size layers) in *.
  destruct (stuff_ok bits layers) as (stw & Hstw). fold w in Hstw.
  assert (Hpair : (if negb (ws =? w) then (do s <- az_stuff_bits bits w; Ok (w, s)) else Ok (ws, st))
                  = Ok (w, stw)).
  { destruct (ws =? w) eqn:Eq; cbn [negb].
    - assert (ws = w) by lia. subst ws. destruct Hinv as [H0|[_ Hst]]; [lia|].
      rewrite Hstw in Hst. inversion Hst; subst. reflexivity.
    - rewrite Hstw. reflexivity. }
  rewrite Hpair. cbn [obind].
  destruct (w =? 0) eqn:E0; [lia|].
  pose proof (sp_capacity_nonneg compact layers ltac:(lia)) as Hcap.
  rewrite az_total_bits_iso, go_mod_nonneg' by lia.
  assert (Hfits : fits_at bits ecc i =
                  (zlength stw + ecc <=? sp_capacity compact layers - sp_capacity compact layers mod w)
                  && (negb compact || (zlength stw <=? w * 64))).
  { unfold fits_at, az_fits. rewrite Hcfg. cbn [fst snd]. fold w. rewrite Hstw. reflexivity. }
  assert (Hinv' : w = 0 \/ (6 <= w <= 12 /\ az_stuff_bits bits w = Ok stw)) by (right; auto).
  destruct (compact && (zlength stw >? w * 64)) eqn:Ecap.
  { apply Hnext; auto. rewrite Hfits. destruct compact; cbn [andb negb orb] in *; [|discriminate].
    replace (zlength stw <=? w * 64) with false by lia. apply andb_false_r. }
  destruct (zlength stw + ecc <=? sp_capacity compact layers - sp_capacity compact layers mod w) eqn:Efit.
  - exists i. repeat split; auto; try lia.
    + replace (az_fits bits ecc compact layers) with (fits_at bits ecc i)
        by (unfold fits_at; rewrite Hcfg; reflexivity).
      rewrite Hfits. cbn [andb]. destruct compact; cbn [andb negb orb] in *; lia.
  - apply Hnext; auto.
Qed.

(* ---- both paths ---- *)
Definition az_ecc_bits (bits : list bool) (pct : Z) : Z := go_div (zlength bits * pct) 100 + 11.

(* which configurations a request admits *)
Definition az_request_fits (bits : list bool) (pct req : Z) (c : bool) (L : Z) : Prop :=
  az_fits bits (az_ecc_bits bits pct) c L = true /\
  if req =? 0
  then exists j, 0 <= j <= 32 /\ (c, L) = cfg_of j
                 /\ forall j', 0 <= j' < j -> fits_at bits (az_ecc_bits bits pct) j' = false
  else -4 <= req <= 32 /\ c = (req <? 0) /\ L = Z.abs req.

Theorem az_choose_config_spec bits pct req :
  match az_choose_config bits pct req with
  | Ok (c, L, tb, w, st) =>
      cfg_valid c L /\ tb = az_total_bits L c /\ w = sp_word_size L
      /\ az_stuff_bits bits w = Ok st /\ az_request_fits bits pct req c L
  | Err =>
      if req =? 0 then forall j, 0 <= j <= 32 -> fits_at bits (az_ecc_bits bits pct) j = false
      else ~ (-4 <= req <= 32) \/ az_fits bits (az_ecc_bits bits pct) (req <? 0) (Z.abs req) = false
  | _ => False
  end.
Proof.
  unfold az_choose_config. fold (az_ecc_bits bits pct).
  destruct (req =? 0) eqn:Ereq; cbn [negb].
  - destruct az_limits_iso as [-> _]. change (Z.to_nat (32 + 2)) with 34%nat.
    assert (H0 : 0 <= 0 <= 33) by lia.
    assert (H1 : (Z.to_nat (34 - 0) <= 34)%nat) by (simpl; lia).
    assert (H2 : 0 = 0 \/ (6 <= 0 <= 12 /\ az_stuff_bits bits 0 = Ok (@nil bool))) by (left; reflexivity).
    pose proof (auto_loop_spec bits (az_ecc_bits bits pct) 34 0 0 [] H0 H1 H2) as H.
    destruct (az_auto_loop 34 0 0 [] bits (az_ecc_bits bits pct) (zlength bits + az_ecc_bits bits pct))
      as [[[[[c L] tb] w] st]| | |]; auto.
    destruct H as (j & Hj & Hc & Hv & Htb & Hw & Hst & Hfit & Hmin).
    split; [exact Hv|]. split; [exact Htb|]. split; [exact Hw|]. split; [exact Hst|].
    unfold az_request_fits. rewrite Ereq. split; [exact Hfit|].
    exists j. split; [lia|]. split; [exact Hc|]. intros j' Hj'. apply Hmin. lia.
  - pose proof (user_config_spec bits (az_ecc_bits bits pct) req ltac:(lia)) as H.
    destruct (az_user_config bits (az_ecc_bits bits pct) req) as [[[[[c L] tb] w] st]| | |]; auto.
    destruct H as (Hr & Hc & HL & Hv & Htb & Hw & Hst & Hfit).
    split; [exact Hv|]. split; [exact Htb|]. split; [exact Hw|]. split; [exact Hst|].
    unfold az_request_fits. rewrite Ereq. split; [exact Hfit|]. split; [lia|]. split; auto.
Qed.
