(* PDF417 layer 3: row indicators, row count and padding arithmetic
   (dimensions.go, encoder.go getLeft/RightCodeWord, getPadding), for all rows,
   columns and levels in the legal ranges. *)
From Verif Require Import Prelude Barcode TabPdf417 Pdf417M Pdf417Spec Pdf417PTab.

Local Ltac Zify.zify_post_hook ::= Z.to_euclidean_division_equations.

Lemma pdf_go_div_nonneg a b : 0 <= a -> 0 < b -> go_div a b = a / b.
Proof. intros; unfold go_div; apply Z.quot_div_nonneg; lia. Qed.

Lemma pdf_go_mod_nonneg a b : 0 <= a -> 0 < b -> go_mod a b = a mod b.
Proof. intros; unfold go_mod; apply Z.rem_mod_nonneg; lia. Qed.

(* ---------- the encoder's indicators are the ISO formulas ---------- *)
Lemma pdf_left_codeword_spec i r c l : 0 <= i -> 1 <= r ->
  pdf_left_codeword i r c l = pdfs_left_indicator i r c l.
Proof.
  intros Hi Hr. unfold pdf_left_codeword, pdfs_left_indicator.
  rewrite !pdf_go_mod_nonneg, !pdf_go_div_nonneg by lia.
  destruct (i mod 3 =? 0) eqn:E0; [lia|].
  destruct (i mod 3 =? 1) eqn:E1; [lia|].
  destruct (i mod 3 =? 2) eqn:E2; lia.
Qed.

Lemma pdf_right_codeword_spec i r c l : 0 <= i -> 1 <= r ->
  pdf_right_codeword i r c l = pdfs_right_indicator i r c l.
Proof.
  intros Hi Hr. unfold pdf_right_codeword, pdfs_right_indicator.
  rewrite !pdf_go_mod_nonneg, !pdf_go_div_nonneg by lia.
  destruct (i mod 3 =? 0) eqn:E0; [lia|].
  destruct (i mod 3 =? 1) eqn:E1; [lia|].
  destruct (i mod 3 =? 2) eqn:E2; lia.
Qed.

(* the indicators are codeword values *)
Lemma pdfs_indicator_range i r c l :
  0 <= i < r -> r <= 90 -> 1 <= c <= 30 -> 0 <= l <= 8 ->
  0 <= pdfs_left_indicator i r c l < 929 /\ 0 <= pdfs_right_indicator i r c l < 929.
Proof.
  intros Hi Hr Hc Hl. unfold pdfs_left_indicator, pdfs_right_indicator.
  destruct (i mod 3 =? 0) eqn:E0; [lia|].
  destruct (i mod 3 =? 1) eqn:E1; lia.
Qed.

(* what a reader gets back from the indicators: the row number from every row
   (its cluster gives i mod 3, the indicator i div 3) ... *)
Lemma pdfs_indicator_row_number i r c l :
  0 <= i < r -> r <= 90 -> 1 <= c <= 30 -> 0 <= l <= 8 ->
  pdfs_left_indicator i r c l / 30 = i / 3 /\ pdfs_right_indicator i r c l / 30 = i / 3.
Proof.
  intros Hi Hr Hc Hl. unfold pdfs_left_indicator, pdfs_right_indicator.
  destruct (i mod 3 =? 0) eqn:E0; [lia|].
  destruct (i mod 3 =? 1) eqn:E1; lia.
Qed.

(* ... and the row count, column count and security level from the three kinds of rows *)
Lemma pdfs_indicator_decode r c l :
  1 <= r <= 90 -> 1 <= c <= 30 -> 0 <= l <= 8 ->
  let l0 := pdfs_left_indicator 0 r c l in
  let r0 := pdfs_right_indicator 0 r c l in
  let l1 := pdfs_left_indicator 1 r c l in
  let r1 := pdfs_right_indicator 1 r c l in
  let l2 := pdfs_left_indicator 2 r c l in
  let r2 := pdfs_right_indicator 2 r c l in
  r = 3 * (l0 mod 30) + (l1 mod 30) mod 3 + 1 /\ c = r0 mod 30 + 1 /\ l = (l1 mod 30) / 3 /\
  r1 = l0 /\ l2 = r0 /\ r2 = l1.
Proof.
  intros Hr Hc Hl. unfold pdfs_left_indicator, pdfs_right_indicator.
  change (0 mod 3 =? 0) with true. change (1 mod 3 =? 0) with false.
  change (1 mod 3 =? 1) with true. change (2 mod 3 =? 0) with false.
  change (2 mod 3 =? 1) with false. cbv iota.
  change (0 / 3) with 0. change (1 / 3) with 0. change (2 / 3) with 0.
  cbv zeta. lia.
Qed.

(* two symbols whose rows 0 and 1 carry the same indicators have the same shape and level *)
Lemma pdfs_indicator_injective r c l r' c' l' :
  1 <= r <= 90 -> 1 <= c <= 30 -> 0 <= l <= 8 ->
  1 <= r' <= 90 -> 1 <= c' <= 30 -> 0 <= l' <= 8 ->
  pdfs_left_indicator 0 r c l = pdfs_left_indicator 0 r' c' l' ->
  pdfs_right_indicator 0 r c l = pdfs_right_indicator 0 r' c' l' ->
  pdfs_left_indicator 1 r c l = pdfs_left_indicator 1 r' c' l' ->
  r = r' /\ c = c' /\ l = l'.
Proof.
  intros Hr Hc Hl Hr' Hc' Hl' E1 E2 E3.
  destruct (pdfs_indicator_decode r c l Hr Hc Hl) as (A1 & A2 & A3 & _).
  destruct (pdfs_indicator_decode r' c' l' Hr' Hc' Hl') as (B1 & B2 & B3 & _).
  cbv zeta in *. rewrite E1, E3 in A1. rewrite E2 in A2. rewrite E3 in A3. lia.
Qed.

(* ---------- calculateNumberOfRows ---------- *)

(* r = ceil((m+1+k)/c) *)
Lemma pdf_number_of_rows_spec m k c : 0 <= m -> 0 <= k -> 0 < c ->
  exists r, pdf_number_of_rows m k c = Ok r /\ c * (r - 1) < m + 1 + k <= c * r.
Proof.
  intros Hm Hk Hc. unfold pdf_number_of_rows.
  destruct (c =? 0) eqn:E; [lia|].
  rewrite pdf_go_div_nonneg by lia.
  set (n := m + 1 + k).
  pose proof (Z.div_mod n c ltac:(lia)) as Hdm.
  pose proof (Z.mod_pos_bound n c Hc) as Hb.
  set (q := n / c) in *. set (t := n mod c) in *.
  assert (c * (q + 1) = c * q + c) as R1 by ring.
  assert (c * (q + 1 - 1 - 1) = c * q - c) as R2 by ring.
  assert (c * (q + 1 - 1) = c * q) as R3 by ring.
  destruct (c * (q + 1) >=? n + c) eqn:E2; eexists; (split; [reflexivity|]); lia.
Qed.

Lemma pdf_rows_or0_spec m k c : 0 <= m -> 0 <= k -> 0 < c ->
  pdf_number_of_rows m k c = Ok (pdf_rows_or0 m k c) /\
  c * (pdf_rows_or0 m k c - 1) < m + 1 + k <= c * pdf_rows_or0 m k c.
Proof.
  intros Hm Hk Hc. destruct (pdf_number_of_rows_spec m k c Hm Hk Hc) as (r & E & H).
  unfold pdf_rows_or0. rewrite E. auto.
Qed.

(* ---------- getPadding ---------- *)

(* less than one row of padding, and the padded total is a whole number of rows *)
Lemma pdf_get_padding_spec m k c r : 0 <= m -> 0 <= k -> 0 < c ->
  c * (r - 1) < m + 1 + k <= c * r ->
  exists p, pdf_get_padding m k c = Ok (repeat pdf_padding_codeword (Z.to_nat p)) /\
            0 <= p < c /\ m + 1 + p + k = c * r.
Proof.
  intros Hm Hk Hc Hr. unfold pdf_get_padding.
  destruct (c =? 0) eqn:E; [lia|].
  rewrite pdf_go_mod_nonneg by lia.
  set (n := m + k + 1).
  pose proof (Z.div_mod n c ltac:(lia)) as Hdm.
  pose proof (Z.mod_pos_bound n c Hc) as Hb.
  set (q := n / c) in *. set (t := n mod c) in *.
  assert (m + 1 + k = c * q + t) as Hn by lia.
  destruct (t >? 0) eqn:Et.
  - destruct (c - t <? 0) eqn:E3; [lia|].
    exists (c - t). split; [reflexivity|]. split; [lia|].
    assert (r = q + 1) as -> by nia. lia.
  - exists 0. split; [reflexivity|]. split; [lia|].
    assert (r = q) as -> by nia. lia.
Qed.

(* ---------- shape facts used by C10 / C13 ---------- *)

Lemma pdf_ec_count_pow l : 0 <= l -> pdf_ec_count l = 2 ^ (l + 1).
Proof. intros H. unfold pdf_ec_count. rewrite Z.shiftl_mul_pow2 by lia. lia. Qed.

Lemma pdf_ec_count_range l : 0 <= l <= 8 -> 2 <= pdf_ec_count l <= 512.
Proof.
  intros H. rewrite pdf_ec_count_pow by lia.
  assert (l = 0 \/ l = 1 \/ l = 2 \/ l = 3 \/ l = 4 \/ l = 5 \/ l = 6 \/ l = 7 \/ l = 8) as Hc by lia.
  repeat (destruct Hc as [-> | Hc]); try subst l; simpl; lia.
Qed.

Lemma pdf_shape_ok_spec m k c : 0 <= m -> 0 <= k ->
  pdf_shape_ok m k c = true <->
  (pdf_min_cols <= c <= pdf_max_cols /\
   pdf_min_rows <= pdf_rows_or0 m k c <= pdf_max_rows).
Proof.
  intros Hm Hk. unfold pdf_shape_ok. pose proof pdf_tab_limits as L. split.
  - intros H. repeat (apply andb_prop in H as [H ?]). lia.
  - intros [H1 H2]. repeat (apply andb_true_intro; split); lia.
Qed.

(* some column count is legal iff the codewords fit the largest shape *)
Lemma pdf_fits_spec m k : 0 <= m -> 2 <= k ->
  pdf_fits m k = true <-> m + 1 + k <= pdf_max_rows * pdf_max_cols.
Proof.
  intros Hm Hk. unfold pdf_fits. rewrite existsb_exists.
  pose proof pdf_tab_limits as L. split.
  - intros (c & Hin & Hok). apply pdf_range_In in Hin.
    apply pdf_shape_ok_spec in Hok; [|lia|lia]. destruct Hok as [Hc Hr].
    destruct (pdf_rows_or0_spec m k c) as [_ Hb]; [lia..|]. nia.
  - intros Hfit.
    (* with maxCols columns the row count is at most maxRows; if it is below
       minRows, minCols columns do *)
    destruct (pdf_rows_or0_spec m k pdf_max_cols) as [_ Hb]; [lia..|].
    destruct (pdf_min_rows <=? pdf_rows_or0 m k pdf_max_cols) eqn:E.
    + exists pdf_max_cols. split; [apply pdf_range_In; lia|].
      apply pdf_shape_ok_spec; [lia..|]. split; [lia|]. split; [lia|]. nia.
    + revert Hb E L Hfit.
      change pdf_min_rows with 2. change pdf_min_cols with 2.
      change pdf_max_rows with 30. change pdf_max_cols with 30. intros Hb E L Hfit.
      destruct (pdf_rows_or0_spec m k 2) as [_ Hb2]; [lia..|].
      exists 2. split; [apply pdf_range_In; simpl; lia|].
      apply pdf_shape_ok_spec; [lia..|].
      change pdf_min_rows with 2. change pdf_min_cols with 2.
      change pdf_max_rows with 30. change pdf_max_cols with 30. lia.
Qed.
