(* C03 layer 5 -- codewords, check words, and the composition: the reader of
   the specification applied to the image produced by the encoder model returns
   exactly the payload and the configuration.  The Reed-Solomon fact (C17,
   proofs/RSP.v) enters as the Section hypothesis rs_valid and is discharged in
   AztecProps.v. *)
From Coq Require Import FMapPositive MSetPositive.
From Verif Require Import Prelude Barcode BitListM GFM TabAztec AztecM AztecSpec
     AztecPBase AztecPTab AztecPStuff AztecPLayout AztecPHL AztecPConfig.
Local Ltac Zify.zify_post_hook ::= Z.div_mod_to_equations.

(* ------------------------------------------------------------------ *)
(* words <-> bits                                                      *)
Lemma words_bits_concat w ws : az_words_bits w ws = concat (map (msb_bits w) ws).
Proof. induction ws as [|x t IH]; simpl; auto. rewrite IH. reflexivity. Qed.

Lemma words_bits_length w ws : length (az_words_bits w ws) = (w * length ws)%nat.
Proof. induction ws as [|x t IH]; simpl; [lia|]. rewrite app_length, msb_bits_length, IH. lia. Qed.

Lemma words_bits_app w a b : az_words_bits w (a ++ b) = az_words_bits w a ++ az_words_bits w b.
Proof. induction a as [|x t IH]; simpl; auto. rewrite IH, app_assoc. reflexivity. Qed.

Definition word_range (w : nat) (x : Z) : Prop := 0 <= x < 2 ^ Z.of_nat w.

Lemma sp_words_of_words_bits (w : nat) ws : (0 < w)%nat -> Forall (word_range w) ws ->
  sp_words_of w (az_words_bits w ws) = Some ws.
Proof.
  intros Hw HF. unfold sp_words_of. rewrite words_bits_concat.
  rewrite chunks_concat; auto.
  - f_equal. rewrite map_map. rewrite <- (map_id ws) at 2. apply map_ext_in.
    intros x Hx. rewrite Forall_forall in HF. apply sp_val_msb_bits_small. apply HF, Hx.
  - apply Forall_forall. intros x Hx. apply in_map_iff in Hx. destruct Hx as (y & <- & _).
    apply msb_bits_length.
  - rewrite <- words_bits_concat, words_bits_length, map_length. nia.
Qed.

Lemma bits_to_words_spec (w : nat) : forall n bits, length bits = (n * w)%nat ->
  exists words, az_bits_to_words n w bits = Ok words /\ length words = n
                /\ Forall (word_range w) words /\ az_words_bits w words = bits.
Proof.
  induction n as [|n IH]; intros bits Hl.
  - exists []. destruct bits; [|simpl in Hl; lia]. repeat split; auto.
  - cbn [az_bits_to_words].
    assert (Hf : length (firstn w bits) = w) by (rewrite firstn_length; nia).
    rewrite Hf, Nat.ltb_irrefl.
    destruct (IH (skipn w bits)) as (words & Hr & Hlen & HF & Hb); [rewrite skipn_length; nia|].
    rewrite Hr. cbn [obind].
    exists (az_bits_val (firstn w bits) 0 :: words).
    split; [reflexivity|]. split; [simpl; lia|]. split.
    + constructor; auto. unfold word_range. rewrite az_bits_val_eq, <- Hf at 1.
      rewrite Hf. pose proof (sp_val_range (firstn w bits)) as H. rewrite Hf in H. exact H.
    + cbn [az_words_bits]. rewrite Hb, az_bits_val_eq.
      rewrite <- Hf at 1. rewrite msb_bits_sp_val. apply firstn_skipn.
Qed.

(* syndromes *)
Lemma syndromes_zero f word : forall k i0,
  (forall j, 0 <= j < Z.of_nat k -> poly_eval f word (tget (gf_alog f) (i0 + j)) = 0) ->
  sp_syndromes_zero f word k i0 = true.
Proof.
  induction k as [|k IH]; intros i0 H; [reflexivity|].
  cbn [sp_syndromes_zero]. apply andb_true_iff. split.
  - specialize (H 0 ltac:(lia)). rewrite Z.add_0_r in H. lia.
  - apply IH. intros j Hj. replace (i0 + 1 + j) with (i0 + (j + 1)) by lia. apply H. lia.
Qed.

Lemma go_div_nonneg a b : 0 <= a -> 0 < b -> go_div a b = a / b.
Proof. intros. unfold go_div. apply Z.quot_div_nonneg; lia. Qed.

Lemma go_mod_nonneg a b : 0 <= a -> 0 < b -> go_mod a b = a mod b.
Proof. intros. unfold go_mod. apply Z.rem_mod_nonneg; lia. Qed.

Definition az_fields : list gfield := [az_gf4; az_gf6; az_gf8; az_gf10; az_gf12].

Lemma az_get_gf_facts w f : az_get_gf w = Some f ->
  In f az_fields /\ gf_size f = 2 ^ w /\ gf_base f = 1 /\ (w = 4 \/ w = 6 \/ w = 8 \/ w = 10 \/ w = 12).
Proof.
  unfold az_get_gf, az_fields.
  destruct (w =? 4) eqn:E4; [intros H; inversion H; subst f; assert (w = 4) by lia; subst w;
                             repeat split; simpl; auto|].
  destruct (w =? 6) eqn:E6; [intros H; inversion H; subst f; assert (w = 6) by lia; subst w;
                             repeat split; simpl; auto|].
  destruct (w =? 8) eqn:E8; [intros H; inversion H; subst f; assert (w = 8) by lia; subst w;
                             repeat split; simpl; auto 6|].
  destruct (w =? 10) eqn:E10; [intros H; inversion H; subst f; assert (w = 10) by lia; subst w;
                               repeat split; simpl; auto 8|].
  destruct (w =? 12) eqn:E12; [intros H; inversion H; subst f; assert (w = 12) by lia; subst w;
                               repeat split; simpl; auto 10|].
  discriminate.
Qed.

Section Compose.

(* C17 (proofs/RSP.v), for the five Aztec fields *)
Hypothesis rs_valid : forall f data k, In f az_fields ->
  1 <= k -> gf_base f + k <= gf_size f ->
  Forall (fun c => 0 <= c < gf_size f) data ->
  exists ecc, rs_encode_fresh f data k = Ok ecc /\ zlength ecc = k
    /\ Forall (fun c => 0 <= c < gf_size f) ecc
    /\ forall i, 0 <= i < k ->
         poly_eval f (data ++ ecc) (tget (gf_alog f) (gf_base f + i)) = 0.

(* generateCheckWords *)
Lemma generate_check_words_spec w f bits total :
  az_get_gf w = Some f -> zlength bits mod w = 0 -> 0 <= total ->
  1 <= total / w - zlength bits / w -> 1 + (total / w - zlength bits / w) <= 2 ^ w ->
  exists mw ecc,
    az_generate_check_words bits total w
      = Ok (repeat false (Z.to_nat (total mod w)) ++ az_words_bits (Z.to_nat w) (mw ++ ecc))
    /\ az_words_bits (Z.to_nat w) mw = bits
    /\ zlength mw = zlength bits / w
    /\ zlength ecc = total / w - zlength bits / w
    /\ Forall (word_range (Z.to_nat w)) (mw ++ ecc)
    /\ sp_rs_ok f (mw ++ ecc) (total / w - zlength bits / w) = true.
Proof.
  intros Hgf Hmod Htot Hk Hcap.
  destruct (az_get_gf_facts w f Hgf) as (Hin & Hsize & Hbase & Hw).
  assert (Hwpos : 4 <= w <= 12) by lia.
  unfold az_generate_check_words. rewrite Hgf.
  pose proof (zlength_nonneg bits) as Hnn.
  rewrite !go_div_nonneg, go_mod_nonneg by lia.
  set (n := zlength bits / w) in *. set (T := total / w) in *.
  assert (Hlen : length bits = (Z.to_nat n * Z.to_nat w)%nat).
  { assert (Hq : zlength bits = w * n) by (unfold n; apply Z.div_exact; lia).
    assert (0 <= n) by (unfold n; apply Z.div_pos; lia).
    apply Nat2Z.inj. rewrite Nat2Z.inj_mul, !Z2Nat.id by lia. fold (zlength bits). lia. }
  destruct (bits_to_words_spec (Z.to_nat w) (Z.to_nat n) bits Hlen) as (mw & Hmw & Hlmw & HFmw & Hbits).
  rewrite Hmw. cbn [obind].
  assert (Hrange : Forall (fun c => 0 <= c < gf_size f) mw).
  { rewrite Hsize. eapply Forall_impl; [|exact HFmw]. intros x Hx. unfold word_range in Hx.
    rewrite Z2Nat.id in Hx by lia. exact Hx. }
  destruct (rs_valid f mw (T - n) Hin Hk ltac:(lia) Hrange) as (ecc & Hrs & Hlecc & HFecc & Hsyn).
  rewrite Hrs. cbn [obind].
  exists mw, ecc.
  assert (Hpad : total mod w mod 256 = total mod w) by (apply Z.mod_small; lia).
  rewrite Hpad, msb_bits_zero, words_bits_app.
  split; [reflexivity|]. split; [exact Hbits|].
  split; [unfold zlength; rewrite Hlmw; lia|]. split; [exact Hlecc|].
  split.
  - apply Forall_app. split; [exact HFmw|].
    eapply Forall_impl; [|exact HFecc]. intros x Hx. unfold word_range.
    rewrite Z2Nat.id by lia. rewrite <- Hsize. exact Hx.
  - unfold sp_rs_ok. apply syndromes_zero. intros j Hj.
    rewrite <- Hbase. apply Hsyn. lia.
Qed.

(* capacities of the 36 configurations: the codeword count stays below the
   field size (so a Reed-Solomon code exists) and fits the mode-message field *)
Definition cfg_arith_ok (cfg : bool * Z) : bool :=
  let '(c, L) := cfg in
  let tb := sp_capacity c L in
  let w := sp_word_size L in
  (1 + tb / w <=? 2 ^ w) && (tb / w <=? 2048) && (0 <? tb).

Lemma cfg_arith_all c L : cfg_valid c L ->
  1 + sp_capacity c L / sp_word_size L <= 2 ^ sp_word_size L
  /\ sp_capacity c L / sp_word_size L <= 2048 /\ 0 < sp_capacity c L.
Proof.
  assert (H : forallb cfg_arith_ok all_configs = true) by (vm_compute; reflexivity).
  intros Hv. rewrite forallb_forall in H. specialize (H (c, L) (in_all_configs c L Hv)).
  unfold cfg_arith_ok in H. lia.
Qed.

Lemma forall_forallb {A} (P : A -> Prop) (f : A -> bool) l :
  (forall x, P x -> f x = true) -> Forall P l -> forallb f l = true.
Proof. intros Hf HF. apply forallb_forall. rewrite Forall_forall in HF. auto. Qed.

(* the symbol of a fitting configuration *)
Definition symbol_parts (c : bool) (L : Z) (st : list bool) (msg mm : list bool) : Prop :=
  exists mw cw mmw mcw : list Z,
  msg = repeat false (Z.to_nat (sp_capacity c L mod sp_word_size L))
        ++ az_words_bits (Z.to_nat (sp_word_size L)) (mw ++ cw)
  /\ az_words_bits (Z.to_nat (sp_word_size L)) mw = st
  /\ zlength mw = zlength st / sp_word_size L
  /\ zlength cw = sp_capacity c L / sp_word_size L - zlength st / sp_word_size L
  /\ Forall (word_range (Z.to_nat (sp_word_size L))) (mw ++ cw)
  /\ sp_rs_ok (sp_gf (sp_word_size L)) (mw ++ cw)
        (sp_capacity c L / sp_word_size L - zlength st / sp_word_size L) = true
  /\ mm = az_words_bits 4 (mmw ++ mcw)
  /\ az_words_bits 4 mmw =
     (if c then msb_bits 2 (L - 1) ++ msb_bits 6 (zlength st / sp_word_size L - 1)
      else msb_bits 5 (L - 1) ++ msb_bits 11 (zlength st / sp_word_size L - 1))
  /\ Forall (word_range 4) (mmw ++ mcw)
  /\ sp_rs_ok sp_gf4 (mmw ++ mcw) (if c then 5 else 6) = true
  /\ zlength (mmw ++ mcw) = (if c then 7 else 10).

Lemma symbol_spec c L st bits ecc : cfg_valid c L -> 11 <= ecc ->
  az_stuff_bits bits (sp_word_size L) = Ok st -> az_fits bits ecc c L = true ->
  exists msg mm,
    az_symbol (c, L, az_total_bits L c, sp_word_size L, st) = Ok (az_draw c L msg mm)
    /\ symbol_parts c L st msg mm
    /\ zlength msg = az_total_bits L c /\ zlength mm = az_mode_len c
    /\ 1 <= zlength st / sp_word_size L < sp_capacity c L / sp_word_size L
    /\ zlength st mod sp_word_size L = 0
    /\ (c = true -> zlength st / sp_word_size L <= 64)
    /\ ecc <= (sp_capacity c L / sp_word_size L - zlength st / sp_word_size L) * sp_word_size L.
Proof.
  intros Hv Hecc Hst Hfit.
  pose proof (sp_word_size_range L) as Hw. set (w := sp_word_size L) in *.
  destruct (cfg_arith_all c L Hv) as (Hcap1 & Hcap2 & Hcap3). fold w in Hcap1, Hcap2.
  destruct (az_stuff_correct w bits ltac:(lia)) as (out & k & Hst' & _ & _ & Hne & Hmod & _).
  rewrite Hst in Hst'. inversion Hst'; subst out. clear Hst'.
  unfold az_fits in Hfit. fold w in Hfit. rewrite Hst in Hfit.
  apply andb_true_iff in Hfit. destruct Hfit as [Hfit1 Hfit2].
  set (tb := sp_capacity c L) in *. set (D := zlength st / w).
  assert (HD : zlength st = w * D) by (unfold D; apply Z.div_exact; lia).
  assert (Hst_pos : 0 < zlength st).
  { destruct st; [congruence|]. unfold zlength. simpl. lia. }
  assert (HD1 : 1 <= D) by nia.
  assert (HT : tb - tb mod w = w * (tb / w)) by (pose proof (Z.div_mod tb w ltac:(lia)); lia).
  assert (HDT : D < tb / w) by nia.
  assert (HD64 : c = true -> D <= 64).
  { intros ->. cbn [negb orb] in Hfit2. nia. }
  (* data + check words *)
  assert (Hgf : az_get_gf w = Some (sp_gf w)) by (apply az_get_gf_iso; apply sp_word_size_cases).
  destruct (generate_check_words_spec w (sp_gf w) st tb Hgf Hmod ltac:(lia) ltac:(fold D; lia)
              ltac:(fold D; lia)) as (mw & cw & Hgen & Hmwb & Hmwl & Hcwl & Hrange & Hrs).
  fold D in Hmwl, Hcwl, Hrs.
  (* mode message *)
  set (hdr := if c then msb_bits 2 (L - 1) ++ msb_bits 6 (D - 1)
              else msb_bits 5 (L - 1) ++ msb_bits 11 (D - 1)).
  assert (Hhdr_len : zlength hdr = if c then 8 else 16).
  { unfold hdr. destruct c; rewrite zlength_app; unfold zlength; rewrite !msb_bits_length; reflexivity. }
  assert (Hgf4 : az_get_gf 4 = Some sp_gf4) by reflexivity.
  assert (Hmm : exists mmw mcw,
     az_generate_mode_message c L D = Ok (az_words_bits 4 (mmw ++ mcw))
     /\ az_words_bits 4 mmw = hdr /\ Forall (word_range 4) (mmw ++ mcw)
     /\ sp_rs_ok sp_gf4 (mmw ++ mcw) (if c then 5 else 6) = true
     /\ zlength (mmw ++ mcw) = if c then 7 else 10).
  { unfold az_generate_mode_message. fold hdr.
    destruct c.
    - destruct (generate_check_words_spec 4 sp_gf4 hdr 28 Hgf4) as (mmw & mcw & Hg & Hb & Hl1 & Hl2 & Hr & Hs);
        try (rewrite Hhdr_len; reflexivity); try lia.
      rewrite Hhdr_len in *. change (28 / 4 - 8 / 4) with 5 in *. change (8 / 4) with 2 in *.
      exists mmw, mcw. unfold hdr in Hg. rewrite Hg. change (Z.to_nat (28 mod 4)) with 0%nat.
      cbn [repeat app]. change (Z.to_nat 4) with 4%nat in *. repeat split; auto.
      rewrite zlength_app. lia.
    - destruct (generate_check_words_spec 4 sp_gf4 hdr 40 Hgf4) as (mmw & mcw & Hg & Hb & Hl1 & Hl2 & Hr & Hs);
        try (rewrite Hhdr_len; reflexivity); try lia.
      rewrite Hhdr_len in *. change (40 / 4 - 16 / 4) with 6 in *. change (16 / 4) with 4 in *.
      exists mmw, mcw. unfold hdr in Hg. rewrite Hg. change (Z.to_nat (40 mod 4)) with 0%nat.
      cbn [repeat app]. change (Z.to_nat 4) with 4%nat in *. repeat split; auto.
      rewrite zlength_app. lia. }
  destruct Hmm as (mmw & mcw & Hgm & Hmb & Hmr & Hms & Hml).
  set (msg := repeat false (Z.to_nat (tb mod w)) ++ az_words_bits (Z.to_nat w) (mw ++ cw)).
  set (mm := az_words_bits 4 (mmw ++ mcw)).
  assert (Hmsg_len : zlength msg = az_total_bits L c).
  { rewrite az_total_bits_iso. fold tb. unfold msg. rewrite zlength_app. unfold zlength.
    rewrite repeat_length, words_bits_length, app_length.
    unfold zlength in Hmwl, Hcwl. pose proof (Z.div_mod tb w ltac:(lia)).
    pose proof (Z.mod_pos_bound tb w ltac:(lia)). nia. }
  assert (Hmm_len : zlength mm = az_mode_len c).
  { unfold mm, zlength. rewrite words_bits_length. unfold zlength in Hml. unfold az_mode_len.
    destruct c; lia. }
  exists msg, mm.
  split.
  { unfold az_symbol. rewrite az_total_bits_iso. fold tb. fold w. rewrite Hgen. cbn [obind].
    rewrite go_div_nonneg by lia. fold D. rewrite Hgm. cbn [obind]. fold msg. fold mm.
    destruct (az_layout_read c L msg mm Hv Hmsg_len Hmm_len) as (_ & Hbad & _).
    rewrite Hbad. reflexivity. }
  split.
  { exists mw, cw, mmw, mcw. repeat split; auto. }
  repeat split; auto; try lia.
Qed.

Lemma firstn_app_exact {A} (a b : list A) n : length a = n -> firstn n (a ++ b) = a.
Proof. intros <-. rewrite firstn_app, Nat.sub_diag, firstn_all. cbn [firstn]. apply app_nil_r. Qed.

Lemma skipn_app_exact {A} (a b : list A) n : length a = n -> skipn n (a ++ b) = b.
Proof. intros <-. rewrite skipn_app, Nat.sub_diag, skipn_all. reflexivity. Qed.

(* what the reader of the specification makes of a drawn symbol *)
Lemma read_symbol c L st msg mm ubits payload :
  cfg_valid c L -> symbol_parts c L st msg mm ->
  zlength msg = az_total_bits L c -> zlength mm = az_mode_len c ->
  1 <= zlength st / sp_word_size L < sp_capacity c L / sp_word_size L ->
  zlength st mod sp_word_size L = 0 ->
  (c = true -> zlength st / sp_word_size L <= 64) ->
  sp_unstuff (Z.to_nat (sp_word_size L)) st = Some ubits ->
  aztec_decode_hl ubits = Some payload ->
  let M := az_draw c L msg mm in
  aztec_read (az_rows (Z.to_nat (am_size M)) 0 M)
  = ROk {| ar_compact := c; ar_layers := L;
           ar_datawords := zlength st / sp_word_size L;
           ar_checkwords := sp_capacity c L / sp_word_size L - zlength st / sp_word_size L;
           ar_payload := payload |}.
Proof.
  intros Hv (mw & cw & mmw & mcw & Hmsg & Hmwb & Hmwl & Hcwl & Hrange & Hrs & Hmm & Hmmb & Hmmr & Hmmrs & Hmml)
         Hmsgl Hmml' HD Hmod HD64 Hun Hdec M.
  destruct (az_layout_read c L msg mm Hv Hmsgl Hmml')
    as (Hsize & Hbad & Hn & Hodd & H15 & Hrl & Hrf & Hfind & Hfull & Hmode & Hdata & Hcaplen).
  fold M in Hsize, Hbad, Hrl, Hrf, Hfind, Hfull, Hmode, Hdata.
  set (rows := az_rows (Z.to_nat (am_size M)) 0 M) in *.
  set (n := az_matrix_size c L) in *.
  pose proof (sp_word_size_range L) as Hw. set (w := sp_word_size L) in *.
  destruct (cfg_arith_all c L Hv) as (Hcap1 & Hcap2 & Hcap3). fold w in Hcap1, Hcap2.
  set (tb := sp_capacity c L) in *. set (D := zlength st / w) in *. set (T := tb / w) in *.
  assert (HL : 1 <= L <= 32) by (unfold cfg_valid in Hv; destruct c; lia).
  unfold aztec_read. rewrite Hrl.
  (* the image is an odd square *)
  assert (E1 : negb (forallb (fun r : list bool => zlength r =? n) rows) || Z.even n || (n <? 15) = false).
  { rewrite (forall_forallb (fun r => zlength r = n) _ rows); [|intros x Hx; lia|exact Hrf].
    rewrite <- Z.negb_odd, Hodd. cbn [negb orb]. lia. }
  rewrite E1.
  (* finder: compact or full-range *)
  assert (E2 : sp_cells_ok rows (sp_finder true (n / 2)) = c).
  { destruct c; [exact Hfind | apply Hfull; reflexivity]. }
  assert (E3 : negb (sp_cells_ok rows (sp_finder true (n / 2)) || sp_cells_ok rows (sp_finder false (n / 2))) = false).
  { rewrite E2. destruct c; [reflexivity|]. rewrite Hfind. reflexivity. }
  rewrite E3, E2, Hmode.
  (* mode message *)
  assert (Hmmbits : mm = (if c then msb_bits 2 (L - 1) ++ msb_bits 6 (D - 1)
                          else msb_bits 5 (L - 1) ++ msb_bits 11 (D - 1)) ++ az_words_bits 4 mcw).
  { rewrite Hmm, words_bits_app, Hmmb. reflexivity. }
  assert (E4 : sp_words_of 4 mm = Some (mmw ++ mcw)).
  { rewrite Hmm. apply sp_words_of_words_bits; [lia | exact Hmmr]. }
  rewrite E4, Hmmrs. cbn [negb].
  assert (E5 : (if c then sp_val (firstn 2 mm) 0 else sp_val (firstn 5 mm) 0) + 1 = L).
  { rewrite Hmmbits. destruct c; rewrite <- app_assoc.
    - rewrite firstn_app_exact by apply msb_bits_length.
      rewrite sp_val_msb_bits_small; [lia|]. unfold cfg_valid in Hv. simpl. lia.
    - rewrite firstn_app_exact by apply msb_bits_length.
      rewrite sp_val_msb_bits_small; [lia|]. simpl. lia. }
  assert (E6 : (if c then sp_val (firstn 6 (skipn 2 mm)) 0 else sp_val (firstn 11 (skipn 5 mm)) 0) + 1 = D).
  { rewrite Hmmbits. destruct c; rewrite <- app_assoc.
    - rewrite skipn_app_exact by apply msb_bits_length.
      rewrite firstn_app_exact by apply msb_bits_length.
      rewrite sp_val_msb_bits_small; [lia|]. specialize (HD64 eq_refl). simpl. lia.
    - rewrite skipn_app_exact by apply msb_bits_length.
      rewrite firstn_app_exact by apply msb_bits_length.
      rewrite sp_val_msb_bits_small; [lia|]. simpl. lia. }
  rewrite E5, E6.
  assert (E7 : negb (sp_size c L =? n) = false) by (rewrite <- Hn, Z.eqb_refl; reflexivity).
  rewrite E7.
  assert (E8 : negb c && negb (sp_cells_ok rows (sp_grid n (n / 2))) = false).
  { destruct c; [reflexivity|]. destruct (Hfull eq_refl) as [_ ->]. reflexivity. }
  rewrite E8, Hdata.
  (* data codewords *)
  rewrite Hmsgl, az_total_bits_iso. fold tb. fold w.
  assert (E9 : skipn (Z.to_nat (tb mod w)) msg = az_words_bits (Z.to_nat w) (mw ++ cw)).
  { rewrite Hmsg. apply skipn_app_exact. apply repeat_length. }
  rewrite E9.
  assert (E10 : sp_words_of (Z.to_nat w) (az_words_bits (Z.to_nat w) (mw ++ cw)) = Some (mw ++ cw)).
  { apply sp_words_of_words_bits; [lia | exact Hrange]. }
  rewrite E10.
  assert (E11 : zlength (mw ++ cw) = T) by (rewrite zlength_app, Hmwl, Hcwl; lia).
  rewrite E11.
  assert (E12 : (T <=? D) = false) by lia.
  rewrite E12, Hrs. cbn [negb].
  assert (E13 : firstn (Z.to_nat (D * w)) (az_words_bits (Z.to_nat w) (mw ++ cw)) = st).
  { rewrite words_bits_app, <- Hmwb. apply firstn_app_exact.
    rewrite words_bits_length. unfold zlength in Hmwl. nia. }
  rewrite E13, Hun, Hdec. reflexivity.
Qed.

Lemma ecc_bits_ge bits pct : 0 <= pct -> 11 <= az_ecc_bits bits pct.
Proof.
  intros Hp. unfold az_ecc_bits. pose proof (zlength_nonneg bits).
  rewrite go_div_nonneg by nia. assert (0 <= zlength bits * pct / 100) by (apply Z.div_pos; nia). lia.
Qed.

(* the master theorem about EncodeWithColor's model *)
Theorem az_encode_spec : forall data pct req,
  Forall is_byte data -> zlength data < 2 ^ 57 -> 0 <= pct ->
  exists hl, az_highlevel data = Ok hl /\
  match az_encode data pct req with
  | Ok bc =>
      exists c L st,
        cfg_valid c L /\ az_stuff_bits hl (sp_word_size L) = Ok st
        /\ az_request_fits hl pct req c L
        /\ aztec_read (bc_rows bc)
           = ROk {| ar_compact := c; ar_layers := L;
                    ar_datawords := zlength st / sp_word_size L;
                    ar_checkwords := sp_capacity c L / sp_word_size L - zlength st / sp_word_size L;
                    ar_payload := data |}
        /\ az_ecc_bits hl pct
           <= (sp_capacity c L / sp_word_size L - zlength st / sp_word_size L) * sp_word_size L
        /\ bc_kind bc = KAztec /\ bc_content bc = data /\ bc_checksum bc = None
        /\ bc_width bc = sp_size c L /\ bc_height bc = sp_size c L
        /\ zlength (bc_rows bc) = sp_size c L
        /\ Forall (fun r => zlength r = sp_size c L) (bc_rows bc)
  | Err =>
      if req =? 0 then forall j, 0 <= j <= 32 -> fits_at hl (az_ecc_bits hl pct) j = false
      else ~ (-4 <= req <= 32) \/ az_fits hl (az_ecc_bits hl pct) (req <? 0) (Z.abs req) = false
  | _ => False
  end.
Proof.
  intros data pct req Hbytes Hlen Hpct.
  destruct (az_highlevel_correct data Hbytes Hlen) as (hl & Hhl & Hdec).
  exists hl. split; [exact Hhl|].
  unfold az_encode. rewrite Hhl. cbn [obind].
  pose proof (az_choose_config_spec hl pct req) as Hcfg.
  destruct (az_choose_config hl pct req) as [[[[[c L] tb] w] st]| | |]; cbn [obind]; auto.
  destruct Hcfg as (Hv & Htb & Hw & Hst & Hreq). subst tb w.
  pose proof Hreq as [Hfit _].
  destruct (symbol_spec c L st hl (az_ecc_bits hl pct) Hv (ecc_bits_ge hl pct Hpct) Hst Hfit)
    as (msg & mm & Hsym & Hparts & Hmsgl & Hmml & HD & Hmod & HD64 & Hecc).
  rewrite Hsym. cbn [obind].
  pose proof (sp_word_size_range L) as Hwr.
  destruct (az_stuff_correct (sp_word_size L) hl ltac:(lia)) as (out & k & Hst' & Hun & Hk & _).
  rewrite Hst in Hst'. inversion Hst'; subst out. clear Hst'.
  assert (Hk11 : (k <= 11)%nat) by lia.
  pose proof (read_symbol c L st msg mm _ data Hv Hparts Hmsgl Hmml HD Hmod HD64 Hun (Hdec k Hk11)) as Hread.
  destruct (az_layout_read c L msg mm Hv Hmsgl Hmml)
    as (Hsize & Hbad & Hn & Hodd & H15 & Hrl & Hrf & _).
  cbv zeta in Hread.
  exists c, L, st. cbn [bc_rows bc_kind bc_content bc_checksum bc_width bc_height].
  rewrite <- Hn.
  repeat match goal with |- _ /\ _ => split end; auto.
Qed.

End Compose.
