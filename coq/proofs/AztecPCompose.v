(* C03 layer 5 -- codewords, check words, and the composition: the reader of
   the specification applied to the image produced by the encoder model returns
   exactly the payload and the configuration.  The Reed-Solomon fact (C17,
   proofs/RSP.v) enters as the Section hypothesis rs_valid and is discharged in
   AztecProps.v. *)
From Coq Require Import FMapPositive MSetPositive.
From Verif Require Import Prelude Barcode BitListM GFM TabAztec AztecM AztecSpec
     AztecPBase AztecPTab AztecPStuff AztecPLayout AztecPHL.
Local Ltac Zify.zify_post_hook ::= Z.div_mod_to_equations.

(* ------------------------------------------------------------------ *)
(* words <-> bits                                                      *)
Lemma words_bits_concat w ws : az_words_bits w ws = concat (map (msb_bits w) ws).
Proof. induction ws as [|x t IH]; simpl; auto. rewrite IH. reflexivity. Qed.

Lemma words_bits_length w ws : length (az_words_bits w ws) = (w * length ws)%nat.
Proof. induction ws as [|x t IH]; simpl; [lia|]. rewrite app_length, msb_bits_length, IH. lia. Qed.

Lemma words_bits_app w a b : az_words_bits w (a ++ b) = az_words_bits w a ++ az_words_bits w b.
Proof. induction a as [|x t IH]; simpl; auto. rewrite IH, app_assoc. reflexivity. Qed.

Definition word_range (w : nat) (x : Z) : Prop := 0 <= x < 2 ^ Z.of_nat w.

Lemma sp_words_of_words_bits (w : nat) ws : (0 < w)%nat -> Forall (word_range w) ws ->
  sp_words_of w (az_words_bits w ws) = Some ws.
Proof.
  intros Hw HF. unfold sp_words_of. rewrite words_bits_concat.
  rewrite chunks_concat; auto.
  - f_equal. rewrite map_map. rewrite <- (map_id ws) at 2. apply map_ext_in.
    intros x Hx. rewrite Forall_forall in HF. apply sp_val_msb_bits_small. apply HF, Hx.
  - apply Forall_forall. intros x Hx. apply in_map_iff in Hx. destruct Hx as (y & <- & _).
    apply msb_bits_length.
  - rewrite <- words_bits_concat, words_bits_length, map_length. nia.
Qed.

Lemma bits_to_words_spec (w : nat) : forall n bits, length bits = (n * w)%nat ->
  exists words, az_bits_to_words n w bits = Ok words /\ length words = n
                /\ Forall (word_range w) words /\ az_words_bits w words = bits.
Proof.
  induction n as [|n IH]; intros bits Hl.
  - exists []. destruct bits; [|simpl in Hl; lia]. repeat split; auto.
  - cbn [az_bits_to_words].
    assert (Hf : length (firstn w bits) = w) by (rewrite firstn_length; nia).
    rewrite Hf, Nat.ltb_irrefl.
    destruct (IH (skipn w bits)) as (words & Hr & Hlen & HF & Hb); [rewrite skipn_length; nia|].
    rewrite Hr. cbn [obind].
    exists (az_bits_val (firstn w bits) 0 :: words).
    split; [reflexivity|]. split; [simpl; lia|]. split.
    + constructor; auto. unfold word_range. rewrite az_bits_val_eq, <- Hf at 1.
      rewrite Hf. pose proof (sp_val_range (firstn w bits)) as H. rewrite Hf in H. exact H.
    + cbn [az_words_bits]. rewrite Hb, az_bits_val_eq.
      rewrite <- Hf at 1. rewrite msb_bits_sp_val. apply firstn_skipn.
Qed.

(* syndromes *)
Lemma syndromes_zero f word : forall k i0,
  (forall j, 0 <= j < Z.of_nat k -> poly_eval f word (tget (gf_alog f) (i0 + j)) = 0) ->
  sp_syndromes_zero f word k i0 = true.
Proof.
  induction k as [|k IH]; intros i0 H; [reflexivity|].
  cbn [sp_syndromes_zero]. apply andb_true_iff. split.
  - specialize (H 0 ltac:(lia)). rewrite Z.add_0_r in H. lia.
  - apply IH. intros j Hj. replace (i0 + 1 + j) with (i0 + (j + 1)) by lia. apply H. lia.
Qed.

Lemma go_div_nonneg a b : 0 <= a -> 0 < b -> go_div a b = a / b.
Proof. intros. unfold go_div. apply Z.quot_div_nonneg; lia. Qed.

Lemma go_mod_nonneg a b : 0 <= a -> 0 < b -> go_mod a b = a mod b.
Proof. intros. unfold go_mod. apply Z.rem_mod_nonneg; lia. Qed.

Definition az_fields : list gfield := [az_gf4; az_gf6; az_gf8; az_gf10; az_gf12].

Lemma az_get_gf_facts w f : az_get_gf w = Some f ->
  In f az_fields /\ gf_size f = 2 ^ w /\ gf_base f = 1 /\ (w = 4 \/ w = 6 \/ w = 8 \/ w = 10 \/ w = 12).
Proof.
  unfold az_get_gf, az_fields.
  destruct (w =? 4) eqn:E4; [intros H; inversion H; subst f; assert (w = 4) by lia; subst w;
                             repeat split; simpl; auto|].
  destruct (w =? 6) eqn:E6; [intros H; inversion H; subst f; assert (w = 6) by lia; subst w;
                             repeat split; simpl; auto|].
  destruct (w =? 8) eqn:E8; [intros H; inversion H; subst f; assert (w = 8) by lia; subst w;
                             repeat split; simpl; auto 6|].
  destruct (w =? 10) eqn:E10; [intros H; inversion H; subst f; assert (w = 10) by lia; subst w;
                               repeat split; simpl; auto 8|].
  destruct (w =? 12) eqn:E12; [intros H; inversion H; subst f; assert (w = 12) by lia; subst w;
                               repeat split; simpl; auto 10|].
  discriminate.
Qed.

Section Compose.

(* C17 (proofs/RSP.v), for the five Aztec fields *)
Hypothesis rs_valid : forall f data k, In f az_fields ->
  1 <= k -> gf_base f + k <= gf_size f ->
  Forall (fun c => 0 <= c < gf_size f) data ->
  exists ecc, rs_encode_fresh f data k = Ok ecc /\ zlength ecc = k
    /\ Forall (fun c => 0 <= c < gf_size f) ecc
    /\ forall i, 0 <= i < k ->
         poly_eval f (data ++ ecc) (tget (gf_alog f) (gf_base f + i)) = 0.

(* generateCheckWords *)
Lemma generate_check_words_spec w f bits total :
  az_get_gf w = Some f -> zlength bits mod w = 0 -> 0 <= total ->
  1 <= total / w - zlength bits / w -> 1 + (total / w - zlength bits / w) <= 2 ^ w ->
  exists mw ecc,
    az_generate_check_words bits total w
      = Ok (repeat false (Z.to_nat (total mod w)) ++ az_words_bits (Z.to_nat w) (mw ++ ecc))
    /\ az_words_bits (Z.to_nat w) mw = bits
    /\ zlength mw = zlength bits / w
    /\ zlength ecc = total / w - zlength bits / w
    /\ Forall (word_range (Z.to_nat w)) (mw ++ ecc)
    /\ sp_rs_ok f (mw ++ ecc) (total / w - zlength bits / w) = true.
Proof.
  intros Hgf Hmod Htot Hk Hcap.
  destruct (az_get_gf_facts w f Hgf) as (Hin & Hsize & Hbase & Hw).
  assert (Hwpos : 4 <= w <= 12) by lia.
  unfold az_generate_check_words. rewrite Hgf.
  pose proof (zlength_nonneg bits) as Hnn.
  rewrite !go_div_nonneg, go_mod_nonneg by lia.
  set (n := zlength bits / w) in *. set (T := total / w) in *.
  assert (Hlen : length bits = (Z.to_nat n * Z.to_nat w)%nat).
  { unfold n. unfold zlength in *. nia. }
  destruct (bits_to_words_spec (Z.to_nat w) (Z.to_nat n) bits Hlen) as (mw & Hmw & Hlmw & HFmw & Hbits).
  rewrite Hmw. cbn [obind].
  assert (Hrange : Forall (fun c => 0 <= c < gf_size f) mw).
  { rewrite Hsize. eapply Forall_impl; [|exact HFmw]. intros x Hx. unfold word_range in Hx.
    rewrite Z2Nat.id in Hx by lia. exact Hx. }
  destruct (rs_valid f mw (T - n) Hin Hk ltac:(lia) Hrange) as (ecc & Hrs & Hlecc & HFecc & Hsyn).
  rewrite Hrs. cbn [obind].
  exists mw, ecc.
  assert (Hpad : total mod w mod 256 = total mod w) by (apply Z.mod_small; lia).
  rewrite Hpad, msb_bits_zero, words_bits_app.
  split; [reflexivity|]. split; [exact Hbits|].
  split; [unfold zlength; rewrite Hlmw; lia|]. split; [exact Hlecc|].
  split.
  - apply Forall_app. split; [exact HFmw|].
    eapply Forall_impl; [|exact HFecc]. intros x Hx. unfold word_range.
    rewrite Z2Nat.id by lia. lia.
  - unfold sp_rs_ok. apply syndromes_zero. intros j Hj.
    rewrite <- Hbase. apply Hsyn. lia.
Qed.

End Compose.
