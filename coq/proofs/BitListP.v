(* Refinement proof: the word-array BitList of utils/bitlist.go behaves as a
   growable sequence of booleans, for every operation history. *)
From Verif Require Import Prelude BitListM.

Local Ltac Zify.zify_post_hook ::= Z.div_mod_to_equations.
#[local] Arguments Z.mul : simpl never.
#[local] Arguments Z.add : simpl never.
#[local] Arguments Z.sub : simpl never.
#[local] Arguments Z.div : simpl never.
#[local] Arguments Z.modulo : simpl never.
#[local] Arguments Z.of_nat : simpl never.
#[local] Arguments Z.to_nat : simpl never.
#[local] Arguments Z.shiftr : simpl never.
#[local] Arguments Z.land : simpl never.
#[local] Arguments Z.testbit : simpl never.

(* ---------- small facts ---------- *)
Lemma go_div_nonneg a b : 0 <= a -> 0 < b -> go_div a b = a / b.
Proof. intros; unfold go_div; apply Z.quot_div_nonneg; lia. Qed.

Lemma go_mod_nonneg a b : 0 <= a -> 0 < b -> go_mod a b = a mod b.
Proof. intros; unfold go_mod; apply Z.rem_mod_nonneg; lia. Qed.

Lemma zget_Some {A} (l : list A) i :
  0 <= i < zlength l -> exists x, zget l i = Some x.
Proof.
  unfold zget, zlength; intros H.
  destruct (i <? 0) eqn:E; [lia|].
  destruct (nth_error l (Z.to_nat i)) eqn:E2; [eauto|].
  apply nth_error_None in E2; lia.
Qed.

Lemma zget_None {A} (l : list A) i :
  zlength l <= i -> zget l i = None.
Proof.
  unfold zget, zlength; intros H. destruct (i <? 0) eqn:E; [reflexivity|].
  apply nth_error_None; lia.
Qed.

Lemma zget_range {A} (l : list A) i x : zget l i = Some x -> 0 <= i < zlength l.
Proof.
  unfold zget, zlength. destruct (i <? 0) eqn:E; [discriminate|]. intros H.
  assert (nth_error l (Z.to_nat i) <> None) as H2 by congruence.
  apply nth_error_Some in H2; lia.
Qed.

Lemma zget_app_l {A} (l l' : list A) i : i < zlength l -> zget (l ++ l') i = zget l i.
Proof.
  unfold zget, zlength; intros H. destruct (i <? 0) eqn:E; [reflexivity|].
  apply nth_error_app1; lia.
Qed.

Lemma zget_repeat {A} (x y : A) n i : zget (repeat x n) i = Some y -> y = x.
Proof.
  unfold zget. destruct (i <? 0); [discriminate|]. intros H.
  apply nth_error_In in H. eapply repeat_spec; eauto.
Qed.

Lemma zget_app_r_repeat {A} (l : list A) x n i y :
  zlength l <= i -> zget (l ++ repeat x n) i = Some y -> y = x.
Proof.
  unfold zget, zlength; intros H. destruct (i <? 0) eqn:E; [discriminate|].
  rewrite nth_error_app2 by lia. intros H2. apply nth_error_In in H2.
  eapply repeat_spec; eauto.
Qed.

Lemma zget_set_nth_eq {A} (l : list A) i v :
  0 <= i < zlength l -> zget (set_nth l (Z.to_nat i) v) i = Some v.
Proof.
  unfold zget, zlength; intros H. destruct (i <? 0) eqn:E; [lia|].
  apply nth_error_set_nth_eq; lia.
Qed.

Lemma zget_set_nth_neq {A} (l : list A) i j v :
  0 <= i -> 0 <= j -> i <> j -> zget (set_nth l (Z.to_nat i) v) j = zget l j.
Proof.
  unfold zget; intros Hi Hj Hne. destruct (j <? 0) eqn:E; [reflexivity|].
  apply nth_error_set_nth_neq; lia.
Qed.

Lemma zlength_app {A} (l l' : list A) : zlength (l ++ l') = zlength l + zlength l'.
Proof. unfold zlength; rewrite app_length; lia. Qed.

Lemma zlength_repeat {A} (x : A) n : zlength (repeat x n) = Z.of_nat n.
Proof. unfold zlength; rewrite repeat_length; reflexivity. Qed.

Lemma land1_testbit w s : 0 <= s -> (Z.land (Z.shiftr w s) 1 =? 1) = Z.testbit w s.
Proof.
  intros Hs. change 1 with (Z.ones 1) at 1. rewrite Z.land_ones by lia.
  change (2 ^ 1) with 2. rewrite <- Z.bit0_mod, Z.shiftr_spec by lia.
  rewrite Z.add_0_l. destruct (Z.testbit w s); reflexivity.
Qed.

(* ---------- bit view of the word array ---------- *)
Definition wbit (data : list Z) (i : Z) : bool :=
  match zget data (i / 32) with
  | Some w => Z.testbit w (31 - i mod 32)
  | None => false
  end.

Record Inv (bl : bitlist) : Prop := {
  inv_cnt : 0 <= bl_count bl <= 32 * zlength (bl_data bl);
  inv_zero : forall i, bl_count bl <= i -> wbit (bl_data bl) i = false
}.

Lemma getbit_ok bl i :
  0 <= i < 32 * zlength (bl_data bl) ->
  bl_getbit bl i = Ok (wbit (bl_data bl) i).
Proof.
  intros H. unfold bl_getbit, wbit.
  rewrite go_div_nonneg, go_mod_nonneg by lia.
  destruct (zget_Some (bl_data bl) (i / 32)) as [w Hw]; [lia|].
  rewrite Hw, land1_testbit by lia. reflexivity.
Qed.

Definition range32 : list Z := map Z.of_nat (seq 0 32).

Lemma mask_bits_all :
  forallb (fun s => forallb (fun p =>
     Bool.eqb (Z.testbit (wrap32 (Z.shiftl 1 s)) p) (p =? s)) range32) range32 = true.
Proof. vm_compute. reflexivity. Qed.

Lemma in_range32 x : 0 <= x < 32 -> In x range32.
Proof.
  intros H. unfold range32. apply in_map_iff. exists (Z.to_nat x).
  split; [lia|]. apply in_seq; lia.
Qed.

Lemma mask_bits s p : 0 <= s < 32 -> 0 <= p < 32 ->
  Z.testbit (wrap32 (Z.shiftl 1 s)) p = (p =? s).
Proof.
  intros Hs Hp. pose proof mask_bits_all as H.
  rewrite forallb_forall in H. specialize (H s (in_range32 s Hs)).
  rewrite forallb_forall in H. specialize (H p (in_range32 p Hp)).
  apply Bool.eqb_prop in H. exact H.
Qed.

Lemma setbit_ok bl i v :
  0 <= i < 32 * zlength (bl_data bl) ->
  exists d', bl_setbit bl i v = Ok {| bl_count := bl_count bl; bl_data := d' |}
    /\ zlength d' = zlength (bl_data bl)
    /\ forall j, 0 <= j -> wbit d' j = if j =? i then v else wbit (bl_data bl) j.
Proof.
  intros H. unfold bl_setbit.
  rewrite go_div_nonneg, go_mod_nonneg by lia.
  destruct (zget_Some (bl_data bl) (i / 32)) as [w Hw]; [lia|].
  rewrite Hw. eexists; split; [reflexivity|]. split.
  - unfold zlength; rewrite set_nth_length; reflexivity.
  - intros j Hj. unfold wbit.
    destruct (Z.eq_dec (j / 32) (i / 32)) as [Heq|Hne].
    + rewrite Heq, zget_set_nth_eq, Hw by lia.
      destruct v.
      * rewrite Z.lor_spec, mask_bits by lia.
        destruct (j =? i) eqn:E.
        -- assert (j = i) by lia; subst. rewrite Z.eqb_refl. apply orb_true_r.
        -- replace (31 - j mod 32 =? 31 - i mod 32) with false by lia.
           apply orb_false_r.
      * rewrite Z.land_spec, Z.lnot_spec, mask_bits by lia.
        destruct (j =? i) eqn:E.
        -- assert (j = i) by lia; subst. rewrite Z.eqb_refl. apply andb_false_r.
        -- replace (31 - j mod 32 =? 31 - i mod 32) with false by lia.
           apply andb_true_r.
    + rewrite zget_set_nth_neq by lia.
      replace (j =? i) with false by lia. reflexivity.
Qed.

Lemma wbit_grow data n j : 0 <= j -> wbit (data ++ repeat 0 n) j = wbit data j.
Proof.
  intros Hj. unfold wbit.
  destruct (Z_lt_dec (j / 32) (zlength data)) as [Hlt|Hge].
  - rewrite zget_app_l by lia. reflexivity.
  - rewrite (zget_None data) by lia.
    destruct (zget (data ++ repeat 0 n) (j / 32)) as [y|] eqn:E; [|reflexivity].
    apply zget_app_r_repeat in E; [|lia]. subst. apply Z.testbit_0_l.
Qed.

(* ---------- abstraction ---------- *)
Definition abs' (bl : bitlist) : list bool :=
  map (fun i => wbit (bl_data bl) (Z.of_nat i)) (seq 0 (Z.to_nat (bl_count bl))).

Lemma abs_from_eq bl n : forall s,
  bl_abs_from bl (Z.of_nat s) n =
  map (fun i => match bl_getbit bl (Z.of_nat i) with Ok b => b | _ => false end) (seq s n).
Proof.
  induction n as [|n IH]; intros s; [reflexivity|].
  cbn [bl_abs_from seq map]. f_equal.
  replace (Z.of_nat s + 1) with (Z.of_nat (S s)) by lia. apply IH.
Qed.

Lemma abs_eq bl : 0 <= bl_count bl <= 32 * zlength (bl_data bl) -> bl_abs bl = abs' bl.
Proof.
  intros H. unfold bl_abs, abs'. rewrite (abs_from_eq bl _ 0%nat). apply map_ext_in. intros a Ha.
  apply in_seq in Ha. rewrite getbit_ok by lia. reflexivity.
Qed.

Lemma abs'_length bl : length (abs' bl) = Z.to_nat (bl_count bl).
Proof. unfold abs'. rewrite map_length, seq_length. reflexivity. Qed.

Lemma abs'_nth bl j : Inv bl -> nth j (abs' bl) false = wbit (bl_data bl) (Z.of_nat j).
Proof.
  intros [Hc Hz]. unfold abs'.
  destruct (Nat.lt_ge_cases j (Z.to_nat (bl_count bl))) as [Hlt|Hge].
  - rewrite nth_indep with (d' := wbit (bl_data bl) (Z.of_nat 0))
      by (rewrite map_length, seq_length; exact Hlt).
    rewrite map_nth with (f := fun i => wbit (bl_data bl) (Z.of_nat i)).
    rewrite seq_nth by exact Hlt. reflexivity.
  - rewrite nth_overflow by (rewrite map_length, seq_length; exact Hge).
    symmetry. apply Hz. lia.
Qed.

Lemma map_seq_ext {A} (f g : nat -> A) s n :
  (forall i, (s <= i < s + n)%nat -> f i = g i) -> map f (seq s n) = map g (seq s n).
Proof. intros H. apply map_ext_in. intros a Ha. apply in_seq in Ha. apply H. lia. Qed.

(* ---------- AddBit ---------- *)
Lemma addbit_ok bl b : Inv bl ->
  exists bl', bl_addbit bl b = Ok bl' /\ Inv bl' /\ abs' bl' = abs' bl ++ [b]
    /\ bl_count bl' = bl_count bl + 1.
Proof.
  intros [Hc Hz]. unfold bl_addbit.
  rewrite go_div_nonneg by lia.
  set (bl1 := if bl_count bl / 32 >=? zlength (bl_data bl) then bl_grow bl else bl).
  assert (Hcnt1 : bl_count bl1 = bl_count bl) by (unfold bl1; destruct (_ >=? _); reflexivity).
  assert (Hlen1 : bl_count bl / 32 < zlength (bl_data bl1)).
  { unfold bl1. destruct (bl_count bl / 32 >=? zlength (bl_data bl)) eqn:E; [|lia].
    unfold bl_grow; simpl. rewrite zlength_app, zlength_repeat.
    destruct (zlength (bl_data bl) <? 128) eqn:E1; [lia|].
    destruct (zlength (bl_data bl) >=? 1024) eqn:E2; lia. }
  assert (Hbits1 : forall j, 0 <= j -> wbit (bl_data bl1) j = wbit (bl_data bl) j).
  { intros j Hj. unfold bl1. destruct (_ >=? _); [|reflexivity].
    unfold bl_grow; simpl. apply wbit_grow; exact Hj. }
  replace (bl_count bl / 32 >=? zlength (bl_data bl1)) with false by lia.
  destruct (setbit_ok bl1 (bl_count bl1) b) as (d' & Hset & Hlen & Hbits); [lia|].
  rewrite Hset. simpl. eexists; split; [reflexivity|]. split; [|split].
  - constructor; simpl.
    + rewrite Hlen. lia.
    + intros i Hi. rewrite Hbits by lia. replace (i =? bl_count bl1) with false by lia.
      rewrite Hbits1 by lia. apply Hz. lia.
  - unfold abs'; simpl. rewrite Hcnt1.
    replace (Z.to_nat (bl_count bl + 1)) with (S (Z.to_nat (bl_count bl))) by lia.
    rewrite seq_S, map_app. simpl. f_equal.
    + apply map_seq_ext. intros i Hi. rewrite Hbits by lia.
      replace (Z.of_nat i =? bl_count bl1) with false by lia. apply Hbits1. lia.
    + rewrite Hbits by lia. replace (Z.of_nat (Z.to_nat (bl_count bl)) =? bl_count bl1) with true by lia.
      reflexivity.
  - simpl. lia.
Qed.

Lemma addbits_list_ok bits : forall bl, Inv bl ->
  exists bl', bl_addbits_list bl bits = Ok bl' /\ Inv bl' /\ abs' bl' = abs' bl ++ bits.
Proof.
  induction bits as [|b t IH]; intros bl HI; simpl.
  - exists bl. rewrite app_nil_r. auto.
  - destruct (addbit_ok bl b HI) as (bl1 & H1 & HI1 & Habs1 & _).
    rewrite H1. simpl. destruct (IH bl1 HI1) as (bl2 & H2 & HI2 & Habs2).
    exists bl2. split; [exact H2|]. split; [exact HI2|].
    rewrite Habs2, Habs1, <- app_assoc. reflexivity.
Qed.

Lemma msb_bits_spec k v :
  msb_bits k v = map (fun i => Z.testbit v (Z.of_nat i)) (rev (seq 0 k)).
Proof.
  induction k as [|k IH]; [reflexivity|].
  rewrite seq_S, rev_app_distr. simpl. f_equal. exact IH.
Qed.

(* ---------- SetBit on the abstraction ---------- *)
Lemma set_nth_map_seq {A} (f : nat -> A) v n : forall s i, (i < n)%nat ->
  set_nth (map f (seq s n)) i v = map (fun j => if Nat.eqb j (s + i) then v else f j) (seq s n).
Proof.
  induction n as [|n IH]; intros s i Hi; [lia|].
  destruct i as [|i]; simpl.
  - replace (s + 0)%nat with s by lia. rewrite Nat.eqb_refl. f_equal.
    apply map_seq_ext. intros j Hj. replace (Nat.eqb j s) with false; [reflexivity|].
    symmetry; apply Nat.eqb_neq; lia.
  - replace (Nat.eqb s (s + S i)) with false by (symmetry; apply Nat.eqb_neq; lia).
    f_equal. rewrite IH by lia. apply map_seq_ext. intros j Hj.
    replace (S s + i)%nat with (s + S i)%nat by lia. reflexivity.
Qed.

(* ---------- byte views ---------- *)
Definition bytes256 : list Z := map Z.of_nat (seq 0 256).

Lemma byte_decomp_all :
  forallb (fun x => x =? 128 * Z.b2z (Z.testbit x 7) + 64 * Z.b2z (Z.testbit x 6)
     + 32 * Z.b2z (Z.testbit x 5) + 16 * Z.b2z (Z.testbit x 4) + 8 * Z.b2z (Z.testbit x 3)
     + 4 * Z.b2z (Z.testbit x 2) + 2 * Z.b2z (Z.testbit x 1) + Z.b2z (Z.testbit x 0)) bytes256 = true.
Proof. vm_compute. reflexivity. Qed.

Lemma byte_decomp x : 0 <= x < 256 ->
  x = 128 * Z.b2z (Z.testbit x 7) + 64 * Z.b2z (Z.testbit x 6)
     + 32 * Z.b2z (Z.testbit x 5) + 16 * Z.b2z (Z.testbit x 4) + 8 * Z.b2z (Z.testbit x 3)
     + 4 * Z.b2z (Z.testbit x 2) + 2 * Z.b2z (Z.testbit x 1) + Z.b2z (Z.testbit x 0).
Proof.
  intros H. pose proof byte_decomp_all as Hall. rewrite forallb_forall in Hall.
  assert (In x bytes256) as Hin.
  { unfold bytes256. apply in_map_iff. exists (Z.to_nat x). split; [lia|]. apply in_seq; lia. }
  specialize (Hall x Hin). lia.
Qed.

Lemma land255_bit w s k : 0 <= s -> 0 <= k < 8 ->
  Z.testbit (Z.land (Z.shiftr w s) 255) k = Z.testbit w (s + k).
Proof.
  intros Hs Hk. rewrite Z.land_spec, Z.shiftr_spec by lia.
  replace (Z.testbit 255 k) with true.
  - rewrite andb_true_r. f_equal. lia.
  - assert (k = 0 \/ k = 1 \/ k = 2 \/ k = 3 \/ k = 4 \/ k = 5 \/ k = 6 \/ k = 7) as H by lia.
    destruct H as [->|[->|[->|[->|[->|[->|[->| ->]]]]]]]; reflexivity.
Qed.

Lemma land255_range w s : 0 <= Z.land (Z.shiftr w s) 255 < 256.
Proof.
  change 255 with (Z.ones 8). rewrite Z.land_ones by lia.
  change (2 ^ 8) with 256. apply Z.mod_pos_bound. lia.
Qed.

(* the byte with index b read from the word array is byte b of the bit sequence *)
Lemma word_byte bl b w : Inv bl -> (0 <= Z.of_nat b) ->
  zget (bl_data bl) (Z.of_nat b / 4) = Some w ->
  Z.land (Z.shiftr w ((3 - Z.of_nat b mod 4) * 8)) 255 = byte_at (abs' bl) b.
Proof.
  intros HI Hb Hw.
  rewrite (byte_decomp _ (land255_range w _)).
  unfold byte_at.
  rewrite !land255_bit by lia.
  rewrite !(abs'_nth bl) by exact HI.
  unfold wbit.
  replace (Z.of_nat (8 * b + 0) / 32) with (Z.of_nat b / 4) by lia.
  replace (Z.of_nat (8 * b + 1) / 32) with (Z.of_nat b / 4) by lia.
  replace (Z.of_nat (8 * b + 2) / 32) with (Z.of_nat b / 4) by lia.
  replace (Z.of_nat (8 * b + 3) / 32) with (Z.of_nat b / 4) by lia.
  replace (Z.of_nat (8 * b + 4) / 32) with (Z.of_nat b / 4) by lia.
  replace (Z.of_nat (8 * b + 5) / 32) with (Z.of_nat b / 4) by lia.
  replace (Z.of_nat (8 * b + 6) / 32) with (Z.of_nat b / 4) by lia.
  replace (Z.of_nat (8 * b + 7) / 32) with (Z.of_nat b / 4) by lia.
  rewrite Hw.
  replace (31 - Z.of_nat (8 * b + 0) mod 32) with ((3 - Z.of_nat b mod 4) * 8 + 7) by lia.
  replace (31 - Z.of_nat (8 * b + 1) mod 32) with ((3 - Z.of_nat b mod 4) * 8 + 6) by lia.
  replace (31 - Z.of_nat (8 * b + 2) mod 32) with ((3 - Z.of_nat b mod 4) * 8 + 5) by lia.
  replace (31 - Z.of_nat (8 * b + 3) mod 32) with ((3 - Z.of_nat b mod 4) * 8 + 4) by lia.
  replace (31 - Z.of_nat (8 * b + 4) mod 32) with ((3 - Z.of_nat b mod 4) * 8 + 3) by lia.
  replace (31 - Z.of_nat (8 * b + 5) mod 32) with ((3 - Z.of_nat b mod 4) * 8 + 2) by lia.
  replace (31 - Z.of_nat (8 * b + 6) mod 32) with ((3 - Z.of_nat b mod 4) * 8 + 1) by lia.
  replace (31 - Z.of_nat (8 * b + 7) mod 32) with ((3 - Z.of_nat b mod 4) * 8 + 0) by lia.
  reflexivity.
Qed.

Lemma nbytes_spec bl : Inv bl ->
  Z.to_nat (bl_nbytes bl) = ((length (abs' bl) + 7) / 8)%nat.
Proof.
  intros [Hc _]. unfold bl_nbytes. rewrite abs'_length.
  rewrite Z.shiftr_div_pow2 by lia. change (2 ^ 3) with 8.
  rewrite go_mod_nonneg by lia.
  destruct (bl_count bl mod 8 =? 0) eqn:E.
  - assert ((Z.to_nat (bl_count bl) + 7) / 8 = Z.to_nat (bl_count bl / 8))%nat; [|lia].
    zify. lia.
  - assert ((Z.to_nat (bl_count bl) + 7) / 8 = Z.to_nat (bl_count bl / 8 + 1))%nat; [|lia].
    zify. lia.
Qed.

Lemma getbytes_from_ok bl : Inv bl -> forall n i,
  Z.of_nat (i + n) <= 4 * zlength (bl_data bl) ->
  bl_getbytes_from (bl_data bl) (Z.of_nat i) n = Ok (map (byte_at (abs' bl)) (seq i n)).
Proof.
  intros HI. induction n as [|n IH]; intros i Hi; [reflexivity|].
  simpl. rewrite go_mod_nonneg, go_div_nonneg by lia.
  destruct (zget_Some (bl_data bl) (Z.of_nat i / 4)) as [w Hw]; [lia|].
  rewrite Hw. replace (Z.of_nat i + 1) with (Z.of_nat (S i)) by lia.
  rewrite IH by lia. simpl. f_equal. f_equal.
  apply word_byte; [exact HI|lia|exact Hw].
Qed.

Lemma getbytes_ok bl : Inv bl -> bl_getbytes bl = Ok (pack8 (abs' bl)).
Proof.
  intros HI. unfold bl_getbytes, pack8.
  rewrite nbytes_spec by exact HI.
  apply (getbytes_from_ok bl HI _ 0%nat).
  destruct HI as [Hc _]. rewrite abs'_length. zify. lia.
Qed.

Lemma iter_from_ok bl : Inv bl -> forall fuel b c,
  c = bl_count bl - 8 * Z.of_nat b -> 0 <= c -> (Z.to_nat c <= fuel)%nat ->
  bl_iter_from (bl_data bl) c (24 - 8 * (Z.of_nat b mod 4)) (Z.of_nat b / 4) fuel
  = Ok (map (byte_at (abs' bl)) (seq b (Z.to_nat ((c + 7) / 8)))).
Proof.
  intros HI. induction fuel as [|fuel IH]; intros b c Hc Hc0 Hf.
  - assert (c = 0) by lia. subst c. rewrite H. reflexivity.
  - cbn [bl_iter_from]. destruct (c <=? 0) eqn:E.
    + assert (c = 0) by lia. rewrite H. reflexivity.
    + destruct HI as [Hcnt Hz] eqn:EI. clear EI.
      destruct (zget_Some (bl_data bl) (Z.of_nat b / 4)) as [w Hw]; [lia|].
      rewrite Hw.
      replace (Z.to_nat ((c + 7) / 8)) with (S (Z.to_nat ((Z.max 0 (c - 8) + 7) / 8))) by lia.
      cbn [seq map].
      assert (Hbyte : Z.land (Z.shiftr w (24 - 8 * (Z.of_nat b mod 4))) 255 = byte_at (abs' bl) b).
      { replace (24 - 8 * (Z.of_nat b mod 4)) with ((3 - Z.of_nat b mod 4) * 8) by lia.
        apply word_byte; [constructor; assumption|lia|exact Hw]. }
      destruct (c - 8 <=? 0) eqn:E8.
      * (* last byte *)
        replace (Z.to_nat ((Z.max 0 (c - 8) + 7) / 8)) with 0%nat by lia.
        assert (Hstop : forall s i f, bl_iter_from (bl_data bl) (c - 8) s i f = Ok []).
        { intros s i f. destruct f; cbn [bl_iter_from]; rewrite E8; reflexivity. }
        destruct (24 - 8 * (Z.of_nat b mod 4) - 8 <? 0); rewrite Hstop; simpl; rewrite Hbyte; reflexivity.
      * replace (Z.max 0 (c - 8)) with (c - 8) by lia.
        destruct (24 - 8 * (Z.of_nat b mod 4) - 8 <? 0) eqn:Es.
        -- replace (Z.of_nat b / 4 + 1) with (Z.of_nat (S b) / 4) by lia.
           replace (bl_iter_from (bl_data bl) (c - 8) 24 (Z.of_nat (S b) / 4) fuel)
             with (bl_iter_from (bl_data bl) (c - 8) (24 - 8 * (Z.of_nat (S b) mod 4)) (Z.of_nat (S b) / 4) fuel)
             by (f_equal; lia).
           rewrite IH by lia. simpl. rewrite Hbyte. reflexivity.
        -- replace (Z.of_nat b / 4) with (Z.of_nat (S b) / 4) at 1 by lia.
           replace (24 - 8 * (Z.of_nat b mod 4) - 8) with (24 - 8 * (Z.of_nat (S b) mod 4)) by lia.
           rewrite IH by lia. simpl. rewrite Hbyte. reflexivity.
Qed.

Lemma ceil8 c : 0 <= c -> Z.to_nat ((c + 7) / 8) = ((Z.to_nat c + 7) / 8)%nat.
Proof.
  intros H. apply Nat2Z.inj. rewrite Nat2Z.inj_div, Z2Nat.id by (apply Z.div_pos; lia).
  rewrite Nat2Z.inj_add, Z2Nat.id by lia. reflexivity.
Qed.

Lemma iterbytes_ok bl : Inv bl -> bl_iterbytes bl = Ok (pack8 (abs' bl)).
Proof.
  intros HI. unfold bl_iterbytes, pack8. destruct HI as [Hc Hz] eqn:E. clear E.
  pose proof (iter_from_ok bl (Build_Inv _ Hc Hz) (Z.to_nat (bl_count bl)) 0%nat (bl_count bl)) as H.
  change (Z.of_nat 0 mod 4) with 0 in H. change (Z.of_nat 0 / 4) with 0 in H.
  change (24 - 8 * 0) with 24 in H. rewrite H by lia.
  rewrite abs'_length, ceil8 by lia. reflexivity.
Qed.

(* ---------- New ---------- *)
Lemma new_ok n : 0 <= n ->
  exists bl, bl_new n = Ok bl /\ Inv bl /\ abs' bl = repeat false (Z.to_nat n).
Proof.
  intros Hn. unfold bl_new. replace (n <? 0) with false by lia.
  eexists; split; [reflexivity|].
  rewrite go_mod_nonneg, go_div_nonneg by lia.
  assert (Hw : forall k j, wbit (repeat 0 k) j = false).
  { intros k j. unfold wbit. destruct (zget (repeat 0 k) (j / 32)) eqn:E; [|reflexivity].
    apply zget_repeat in E. subst. apply Z.testbit_0_l. }
  split; [constructor; simpl|].
  - rewrite zlength_repeat. destruct (n mod 32 =? 0) eqn:E; lia.
  - intros i _. apply Hw.
  - unfold abs'; simpl.
    generalize (Z.to_nat n) as m. intros m.
    generalize 0%nat as s. induction m as [|m IH]; intros s; simpl; [reflexivity|].
    rewrite Hw. f_equal. apply IH.
Qed.

(* ---------- one step refines the abstract step ---------- *)
Lemma step_refines bl o : Inv bl -> op_valid (zlength (abs' bl)) o = true ->
  exists bl' out, bl_step bl o = Ok (bl', out) /\ Inv bl' /\
    spec_step (abs' bl) o = (abs' bl', out).
Proof.
  intros HI Hv. pose proof HI as [Hc Hz].
  assert (Hlen : zlength (abs' bl) = bl_count bl) by (unfold zlength; rewrite abs'_length; lia).
  rewrite Hlen in Hv.
  destruct o as [b|b|v k|i b|i| | |]; simpl in *.
  - destruct (addbit_ok bl b HI) as (bl' & H1 & HI' & Ha & _).
    rewrite H1; simpl. exists bl', OutNone. rewrite Ha. auto.
  - unfold bl_addbyte. destruct (addbits_list_ok (msb_bits 8 b) bl HI) as (bl' & H1 & HI' & Ha).
    rewrite H1; simpl. exists bl', OutNone. rewrite Ha, msb_bits_spec. auto.
  - unfold bl_addbits.
    destruct (addbits_list_ok (msb_bits (Z.to_nat k) v) bl HI) as (bl' & H1 & HI' & Ha).
    rewrite H1; simpl. exists bl', OutNone. rewrite Ha, msb_bits_spec. auto.
  - destruct (setbit_ok bl i b) as (d' & H1 & Hl & Hb); [lia|].
    rewrite H1; simpl. eexists _, OutNone. split; [reflexivity|]. split.
    + constructor; simpl; [lia|]. intros j Hj. rewrite Hb by lia.
      replace (j =? i) with false by lia. apply Hz; exact Hj.
    + f_equal. unfold abs'; simpl. rewrite set_nth_map_seq by lia.
      apply map_seq_ext. intros j Hj. rewrite Hb by lia. simpl.
      destruct (Nat.eqb_spec j (Z.to_nat i)).
      * replace (Z.of_nat j =? i) with true by lia. reflexivity.
      * replace (Z.of_nat j =? i) with false by lia. reflexivity.
  - rewrite getbit_ok by lia. simpl. exists bl, (OutBool (wbit (bl_data bl) i)).
    split; [reflexivity|]. split; [exact HI|].
    rewrite abs'_nth by exact HI. repeat f_equal. lia.
  - exists bl, (OutInt (bl_len bl)). unfold bl_len. rewrite Hlen. auto.
  - rewrite getbytes_ok by exact HI. simpl. eauto.
  - rewrite iterbytes_ok by exact HI. simpl. eauto.
Qed.

(* ---------- every history ---------- *)
Lemma run_refines ops : forall bl, Inv bl -> ops_valid (abs' bl) ops = true ->
  exists bl', bl_run bl ops = Ok (bl', snd (spec_run (abs' bl) ops)) /\ Inv bl'
    /\ abs' bl' = fst (spec_run (abs' bl) ops).
Proof.
  induction ops as [|o t IH]; intros bl HI Hv; simpl in *.
  - exists bl. auto.
  - apply andb_true_iff in Hv. destruct Hv as [Hv1 Hv2].
    destruct (step_refines bl o HI Hv1) as (bl1 & out & Hs & HI1 & Hspec).
    rewrite Hs. simpl. rewrite Hspec in *. simpl in Hv2.
    destruct (IH bl1 HI1 Hv2) as (bl2 & Hr & HI2 & Ha).
    rewrite Hr. simpl. destruct (spec_run (abs' bl1) t) as [l2 outs] eqn:E. simpl in *.
    exists bl2. auto.
Qed.

Theorem bitlist_refines_bool_sequence : forall n ops,
  0 <= n ->
  ops_valid (repeat false (Z.to_nat n)) ops = true ->
  exists bl, bl_history n ops = Ok (bl, snd (spec_run (repeat false (Z.to_nat n)) ops))
    /\ bl_abs bl = fst (spec_run (repeat false (Z.to_nat n)) ops)
    /\ bl_len bl = zlength (bl_abs bl).
Proof.
  intros n ops Hn Hv. unfold bl_history.
  destruct (new_ok n Hn) as (bl0 & H0 & HI0 & Ha0). rewrite H0; simpl.
  rewrite <- Ha0 in *.
  destruct (run_refines ops bl0 HI0 Hv) as (bl & Hr & HI & Ha).
  exists bl. split; [exact Hr|]. pose proof HI as [Hc _].
  rewrite abs_eq by exact Hc. split; [exact Ha|].
  unfold bl_len, zlength. rewrite abs'_length. lia.
Qed.

(* non-vacuity: a concrete history crossing a word boundary is valid *)
Example history_valid_example :
  ops_valid (repeat false 3)
    [OpAddBits 43690 40; OpSetBit 35 true; OpGetBit 35; OpAddByte 255; OpGetBytes; OpIterBytes] = true.
Proof. vm_compute. reflexivity. Qed.
