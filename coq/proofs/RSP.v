(* Reed-Solomon encoder of utils/reedsolomon.go: generator polynomials, the
   cache invariant over arbitrary request histories, and validity of the
   produced check symbols. *)
From Coq Require Import FMapPositive.
From Verif Require Import Prelude GFM GFP PolyP.

Local Ltac Zify.zify_post_hook ::= Z.div_mod_to_equations.
#[local] Arguments Z.mul : simpl never.
#[local] Arguments Z.add : simpl never.
#[local] Arguments Z.sub : simpl never.
#[local] Arguments Z.lxor : simpl never.
#[local] Arguments Z.of_nat : simpl never.
#[local] Arguments Z.to_nat : simpl never.

Section RS.
Variable f : gfield.
Hypothesis Hok : gf_ok f = true.

Local Notation mul := (gf_mul f).
Local Notation inr := (inr f).
Local Notation evalacc := (evalacc f).
Local Notation shiftn := (shiftn f).

(* root number d of the generator: alpha^(d + base) *)
Definition groot (d : nat) : Z := tget (gf_alog f) (Z.of_nat d + gf_base f).

(* the generator polynomial of degree d, as getPolynomial builds it *)
Fixpoint gen (d : nat) : poly :=
  match d with
  | O => [1]
  | S d' => poly_mul f (gen d') (poly_norm [1; groot d'])
  end.

Lemma alog_inr i : 0 <= i <= gord f -> inr (alog f i).
Proof.
  intros Hi. unfold PolyP.inr. pose proof (n_pos f Hok).
  destruct (Z.eq_dec i (gord f)) as [->|Hne].
  - destruct (ok_alog0 f Hok) as (_ & Hn & _). rewrite Hn. pose proof (ok_size f Hok). lia.
  - destruct (ok_alog f Hok i ltac:(lia)) as (Hr & _). lia.
Qed.

Lemma groot_inr d : Z.of_nat d + gf_base f < gf_size f -> inr (groot d).
Proof.
  intros H. apply alog_inr. destruct (ok_size f Hok) as (_ & _ & Hb). unfold gord. lia.
Qed.

(* multiplication by a monic linear factor [1; a] *)
Lemma mul_rows_linear a : inr a -> forall p carry, Forall inr p -> inr carry ->
  poly_mul_rows f p [1; a] (carry :: repeat 0 (length p))
  = xor_lists (p ++ [0]) (carry :: map (fun c => mul c a) p).
Proof.
  intros Ha. induction p as [|c p IH]; intros carry Hp Hc.
  - cbn. rewrite Z.lxor_0_l. reflexivity.
  - inversion Hp as [|? ? Hc0 Hp']; subst.
    cbn [poly_mul_rows length repeat poly_mul_row app map xor_lists].
    rewrite (mul_1_r f Hok c Hc0), Z.lxor_0_l. f_equal; [apply Z.lxor_comm|].
    apply IH; [assumption|]. apply inr_mul; assumption.
Qed.

Lemma evalacc_snoc0 y l u : evalacc y (l ++ [0]) u = mul (evalacc y l u) y.
Proof. rewrite evalacc_app. cbn [PolyP.evalacc fold_left]. apply step_0_r. Qed.

Lemma evalacc_cons0 y l : evalacc y (0 :: l) 0 = evalacc y l 0.
Proof. cbn [PolyP.evalacc fold_left]. rewrite step_0_l. reflexivity. Qed.

Lemma evalacc_scale0 y a l : inr y -> inr a -> Forall inr l ->
  evalacc y (map (fun c => mul c a) l) 0 = mul (evalacc y l 0) a.
Proof. intros Hy Ha Hl. exact (evalacc_map_scale f Hok y a l Hy Ha Hl 0 (inr0 f Hok)). Qed.

Lemma poly_mul_linear y p a : inr y -> inr a -> Forall inr p -> poly_lead p = 1 -> p <> [] ->
  let r := poly_mul f p (poly_norm [1; a]) in
  evalacc y r 0 = mul (evalacc y p 0) (Z.lxor y a)
  /\ poly_lead r = 1 /\ Forall inr r /\ length r = S (length p) /\ r <> [].
Proof.
  intros Hy Ha Hp Hlead Hne r. subst r.
  destruct p as [|p0 p']; [congruence|]. cbn [poly_lead] in Hlead. subst p0.
  assert (Hn : poly_norm [1; a] = [1; a]) by reflexivity. rewrite Hn.
  unfold poly_mul. cbn [poly_is_zero]. change (1 =? 0) with false. cbn [orb].
  match goal with |- context [repeat 0 ?n] => replace n with (S (length (1 :: p'))) by (cbn [length]; lia) end.
  cbn [repeat]. rewrite (mul_rows_linear a Ha (1 :: p') 0 Hp (inr0 f Hok)).
  match goal with |- context [poly_norm ?t] => set (X := t) end.
  assert (HX : X = 1 :: xor_lists (p' ++ [0]) (map (fun c => mul c a) (1 :: p'))).
  { unfold X. cbn [app xor_lists]. rewrite Z.lxor_0_r. reflexivity. }
  assert (Hlen : length ((1 :: p') ++ [0]) = length (0 :: map (fun c => mul c a) (1 :: p'))).
  { rewrite app_length. cbn [length]. rewrite map_length. cbn [length]. lia. }
  assert (HXr : Forall inr X).
  { apply xor_lists_inr; [exact Hok| |].
    - apply Forall_app. split; [exact Hp|]. constructor; [apply inr0; exact Hok|constructor].
    - constructor; [apply inr0; exact Hok|]. apply map_scale_inr; assumption. }
  assert (Hnorm : poly_norm X = X).
  { rewrite HX. apply norm_id, pnormal_cons; solve [exact f | lia]. }
  rewrite Hnorm.
  split; [|split; [|split; [|split]]].
  - unfold X.
    assert (E0 : 0 = Z.lxor 0 0) by reflexivity.
    rewrite E0 at 3.
    rewrite (evalacc_xor f Hok y Hy); try assumption; try (apply inr0; exact Hok).
    + rewrite evalacc_snoc0, evalacc_cons0, (evalacc_scale0 y a (1 :: p') Hy Ha Hp).
      symmetry. apply mul_distr_l; try assumption.
      apply evalacc_inr; try assumption. apply inr0; exact Hok.
    + apply Forall_app. split; [exact Hp|]. constructor; [apply inr0; exact Hok|constructor].
    + constructor; [apply inr0; exact Hok|]. apply map_scale_inr; assumption.
  - rewrite HX. reflexivity.
  - exact HXr.
  - unfold X. rewrite (xor_lists_length f) by exact Hlen. rewrite app_length. cbn [length]. lia.
  - rewrite HX. congruence.
Qed.

(* properties of the generator *)
Lemma gen_spec d : Z.of_nat d + gf_base f <= gf_size f ->
  poly_lead (gen d) = 1 /\ Forall inr (gen d) /\ length (gen d) = S d /\ gen d <> []
  /\ forall i, (i < d)%nat -> evalacc (groot i) (gen d) 0 = 0.
Proof.
  induction d as [|d IH]; intros Hd.
  - cbn [gen]. repeat split; try congruence; try lia.
    constructor; [apply inr1; exact Hok|constructor].
  - destruct IH as (Hl & Hr & Hlen & Hne & Hroots); [lia|].
    assert (Hgr : inr (groot d)) by (apply groot_inr; lia).
    cbn [gen].
    split; [|split; [|split; [|split]]].
    + apply (poly_mul_linear 0 (gen d) (groot d) (inr0 f Hok) Hgr Hr Hl Hne).
    + apply (poly_mul_linear 0 (gen d) (groot d) (inr0 f Hok) Hgr Hr Hl Hne).
    + destruct (poly_mul_linear 0 (gen d) (groot d) (inr0 f Hok) Hgr Hr Hl Hne) as (_ & _ & _ & H & _).
      rewrite H, Hlen. reflexivity.
    + apply (poly_mul_linear 0 (gen d) (groot d) (inr0 f Hok) Hgr Hr Hl Hne).
    + intros i Hi.
      assert (Hy : inr (groot i)) by (apply groot_inr; lia).
      destruct (poly_mul_linear (groot i) (gen d) (groot d) Hy Hgr Hr Hl Hne) as (E & _).
      rewrite E. destruct (Nat.eq_dec i d) as [->|Hne'].
      * rewrite Z.lxor_nilpotent. apply gf_mul_0_r.
      * rewrite Hroots by lia. reflexivity.
Qed.

(* ---------- the cache: every reachable cache holds the generators ---------- *)
Definition cache_ok (c : rs_cache) : Prop :=
  c <> [] /\ c = map gen (seq 0 (length c)).

Lemma cache_ok_init : cache_ok rs_init.
Proof. split; [discriminate|reflexivity]. Qed.

Lemma rs_extend_spec n : forall d acc,
  rs_extend f n (Z.of_nat d) (gen (d - 1)) acc =
  (rev (map gen (seq d n)) ++ acc, gen (d + n - 1)) \/ d = O.
Proof.
  induction n as [|n IH]; intros d acc.
  - destruct d; [right; reflexivity|left]. cbn. repeat f_equal. lia.
  - destruct d as [|d]; [right; reflexivity|left].
    cbn [rs_extend seq map rev].
    replace (S d - 1)%nat with d by lia.
    replace (Z.of_nat (S d) - 1 + gf_base f) with (Z.of_nat d + gf_base f) by lia.
    change (poly_mul f (gen d) (poly_norm [1; tget (gf_alog f) (Z.of_nat d + gf_base f)])) with (gen (S d)).
    replace (Z.of_nat (S d) + 1) with (Z.of_nat (S (S d))) by lia.
    destruct (IH (S (S d)) (gen (S d) :: acc)) as [E|E]; [|discriminate].
    replace (S (S d) - 1)%nat with (S d) in E by lia.
    rewrite E. f_equal.
    + rewrite <- app_assoc. reflexivity.
    + f_equal. lia.
Qed.

Lemma last_map_gen m : last (map gen (seq 0 (S m))) [] = gen m.
Proof.
  rewrite seq_S, map_app. cbn [map]. apply last_last.
Qed.

Lemma nth_error_map_seq {A} (g : nat -> A) n : forall s i, (i < n)%nat ->
  nth_error (map g (seq s n)) i = Some (g (s + i)%nat).
Proof.
  induction n as [|n IH]; intros s i Hi; [lia|].
  destruct i as [|i]; cbn [seq map nth_error].
  - rewrite Nat.add_0_r. reflexivity.
  - rewrite IH by lia. do 2 f_equal. lia.
Qed.

Theorem rs_get_poly_spec cache degree : cache_ok cache -> 0 <= degree ->
  exists cache', rs_get_poly f cache degree = Ok (cache', gen (Z.to_nat degree))
    /\ cache_ok cache' /\ (length cache <= length cache')%nat.
Proof.
  intros [Hne Hc] Hd. unfold rs_get_poly.
  replace (degree <? 0) with false by lia.
  destruct (length cache) as [|m] eqn:El; [destruct cache; [congruence|discriminate]|].
  unfold zlength. rewrite El.
  destruct (degree >=? Z.of_nat (S m)) eqn:E.
  - assert (Hlast : last cache [] = gen m) by (rewrite Hc; apply last_map_gen).
    rewrite Hlast.
    destruct (rs_extend_spec (Z.to_nat (degree - Z.of_nat (S m) + 1)) (S m) []) as [Hx|Hx]; [|discriminate].
    replace (S m - 1)%nat with m in Hx by lia. rewrite Hx.
    rewrite app_nil_r, rev_involutive.
    set (k := Z.to_nat (degree - Z.of_nat (S m) + 1)).
    assert (Hcache' : cache ++ map gen (seq (S m) k) = map gen (seq 0 (S m + k))).
    { rewrite seq_app, map_app. cbn [Nat.add]. f_equal. exact Hc. }
    rewrite Hcache'.
    assert (Hdk : (Z.to_nat degree < S m + k)%nat) by lia.
    eexists. split.
    + rewrite nth_error_map_seq by exact Hdk. cbn [Nat.add]. reflexivity.
    + split; [split|].
      * destruct (S m + k)%nat eqn:E2; [lia|]. cbn. discriminate.
      * rewrite map_length, seq_length. reflexivity.
      * rewrite map_length, seq_length. lia.
  - exists cache. split.
    + assert (Hnth : nth_error cache (Z.to_nat degree) = Some (gen (Z.to_nat degree))).
      { rewrite Hc, nth_error_map_seq by lia. reflexivity. }
      rewrite Hnth. reflexivity.
    + split; [split; [assumption|rewrite El; exact Hc]|lia].
Qed.

(* ---------- Encode ---------- *)
Lemma evalacc_zeros_prefix y z l : evalacc y (repeat 0 z ++ l) 0 = evalacc y l 0.
Proof. rewrite evalacc_app, evalacc_zeros, shiftn_0. reflexivity. Qed.

Theorem rs_encode_any_cache cache data k :
  cache_ok cache -> 1 <= k -> gf_base f + k <= gf_size f -> Forall inr data ->
  exists cache' ecc, rs_encode f cache data k = Ok (cache', ecc) /\ cache_ok cache'
    /\ zlength ecc = k /\ Forall inr ecc
    /\ (forall i, 0 <= i < k ->
          poly_eval f (data ++ ecc) (tget (gf_alog f) (gf_base f + i)) = 0)
    /\ rs_encode_fresh f data k = Ok ecc.
Proof.
  intros Hc Hk Hb Hd.
  assert (Hcore : forall c, cache_ok c ->
     exists c' ecc, rs_encode f c data k = Ok (c', ecc) /\ cache_ok c'
       /\ zlength ecc = k /\ Forall inr ecc
       /\ (forall i, 0 <= i < k -> poly_eval f (data ++ ecc) (tget (gf_alog f) (gf_base f + i)) = 0)
       /\ ecc = match poly_div f (poly_mul_mono f (poly_norm data) (Z.to_nat k) 1) (gen (Z.to_nat k)) with
                | Ok (_, r) => repeat 0 (Z.to_nat (k - zlength r)) ++ r | _ => [] end).
  { intros c Hcok. unfold rs_encode.
    destruct (rs_get_poly_spec c k Hcok ltac:(lia)) as (c' & Hget & Hc'ok & _).
    rewrite Hget. cbn [obind].
    set (g := gen (Z.to_nat k)).
    destruct (gen_spec (Z.to_nat k) ltac:(lia)) as (Hgl & Hgr & Hglen & Hgne & Hroots). fold g in Hgl, Hgr, Hglen, Hgne, Hroots.
    assert (Hgn : pnormal g) by (destruct g as [|g0 g']; [congruence|cbn in Hgl; subst; apply pnormal_cons; lia]).
    assert (Hgz : poly_is_zero g = false) by (destruct g as [|g0 g']; [congruence|cbn in *; subst; reflexivity]).
    set (info := poly_mul_mono f (poly_norm data) (Z.to_nat k) 1).
    assert (Hnd : Forall inr (poly_norm data)) by (apply norm_inr; exact Hd).
    assert (Hinfo : pnormal info /\ Forall inr info
                    /\ forall y, inr y -> evalacc y info 0 = shiftn y (Z.to_nat k) (evalacc y data 0)).
    { unfold info, poly_mul_mono. change (1 =? 0) with false. cbv iota.
      split; [|split].
      - apply (norm_pnormal f). intros E. apply app_eq_nil in E. destruct E as [_ E].
        destruct (Z.to_nat k) eqn:E2; [lia|discriminate].
      - apply norm_inr, Forall_app. split; [apply map_scale_inr; [exact Hok|apply inr1; exact Hok|exact Hnd]|].
        apply Forall_forall. intros x Hx. apply repeat_spec in Hx. subst. apply inr0; exact Hok.
      - intros y Hy. rewrite eval_norm, evalacc_app, evalacc_zeros. f_equal.
        replace 0 with (mul 0 1) at 1 by reflexivity.
        rewrite (evalacc_map_scale f Hok y 1 _ Hy (inr1 f Hok) Hnd 0 (inr0 f Hok)).
        rewrite eval_norm. apply mul_1_r; [exact Hok|].
        apply evalacc_inr; try assumption. apply inr0; exact Hok. }
    destruct Hinfo as (Hin & Hir & Hie).
    destruct (poly_div_eval f Hok info g Hin Hir Hgn Hgr Hgz) as (q & r & Hdiv & Hqn & Hqr & Hrn & Hrr & Hrl & Hev).
    rewrite Hdiv. cbn [obind].
    assert (Hrlen : zlength r <= k).
    { unfold zlength. destruct Hrl as [Hrl|Hrl].
      - rewrite Hglen in Hrl. lia.
      - rewrite (pnormal_zero f r Hrn Hrl). cbn [length]. lia. }
    replace (k - zlength r <? 0) with false by lia.
    eexists _, _. split; [reflexivity|]. split; [exact Hc'ok|].
    split; [|split; [|split]].
    + unfold zlength in *. rewrite app_length, repeat_length. lia.
    + apply Forall_app. split; [|exact Hrr].
      apply Forall_forall. intros x Hx. apply repeat_spec in Hx. subst. apply inr0; exact Hok.
    + intros i Hi.
      set (y := tget (gf_alog f) (gf_base f + i)).
      assert (Hyr : y = groot (Z.to_nat i)) by (unfold y, groot; f_equal; lia).
      assert (Hy : inr y) by (rewrite Hyr; apply groot_inr; lia).
      rewrite poly_eval_evalacc, evalacc_app.
      set (D := evalacc y data 0).
      assert (HD : inr D) by (apply evalacc_inr; try assumption; apply inr0; exact Hok).
      rewrite (evalacc_lin f Hok y _ Hy) ; [| |exact HD].
      2:{ apply Forall_app. split; [|exact Hrr].
          apply Forall_forall. intros x Hx. apply repeat_spec in Hx. subst. apply inr0; exact Hok. }
      rewrite evalacc_zeros_prefix.
      replace (length (repeat 0 (Z.to_nat (k - zlength r)) ++ r)) with (Z.to_nat k)
        by (unfold zlength in *; rewrite app_length, repeat_length; lia).
      (* eval r y = eval info y because y is a root of g *)
      specialize (Hev y Hy).
      assert (Hg0 : evalacc y g 0 = 0) by (rewrite Hyr; apply Hroots; lia).
      rewrite Hg0, gf_mul_0_r, Z.lxor_0_l in Hev.
      rewrite <- Hev, Hie by exact Hy. apply Z.lxor_nilpotent.
    + reflexivity. }
  destruct (Hcore cache Hc) as (c' & ecc & Henc & Hc' & Hlen & Hr & Hroots & Hdet).
  destruct (Hcore rs_init cache_ok_init) as (c2 & ecc2 & Henc2 & _ & _ & _ & _ & Hdet2).
  exists c', ecc. split; [exact Henc|]. split; [exact Hc'|]. split; [exact Hlen|].
  split; [exact Hr|]. split; [exact Hroots|].
  unfold rs_encode_fresh. rewrite Henc2. cbn [obind]. congruence.
Qed.

(* the statement used by the 2-D symbologies *)
Theorem rs_encode_valid_f data k :
  1 <= k -> gf_base f + k <= gf_size f -> Forall (fun c => 0 <= c < gf_size f) data ->
  exists ecc, rs_encode_fresh f data k = Ok ecc /\ zlength ecc = k
    /\ Forall (fun c => 0 <= c < gf_size f) ecc
    /\ forall i, 0 <= i < k -> poly_eval f (data ++ ecc) (tget (gf_alog f) (gf_base f + i)) = 0.
Proof.
  intros Hk Hb Hd.
  destruct (rs_encode_any_cache rs_init data k cache_ok_init Hk Hb Hd)
    as (c' & ecc & _ & _ & Hlen & Hr & Hroots & Hfresh).
  exists ecc. auto.
Qed.

(* history independence: after ANY sequence of earlier requests the encoder
   returns what a fresh encoder returns *)
Fixpoint rs_run (cache : rs_cache) (reqs : list (list Z * Z)) : outcome rs_cache :=
  match reqs with
  | [] => Ok cache
  | (d, k) :: t => do (c, _) <- rs_encode f cache d k; rs_run c t
  end.

Definition req_ok (r : list Z * Z) : Prop :=
  1 <= snd r /\ gf_base f + snd r <= gf_size f /\ Forall inr (fst r).

Theorem rs_history_free reqs : Forall req_ok reqs -> forall cache, cache_ok cache ->
  exists cache', rs_run cache reqs = Ok cache' /\ cache_ok cache'.
Proof.
  induction 1 as [|[d k] t (Hk & Hb & Hd) Ht IH]; intros cache Hc.
  - exists cache. split; [reflexivity|exact Hc].
  - cbn [rs_run fst snd] in *.
    destruct (rs_encode_any_cache cache d k Hc Hk Hb Hd) as (c' & ecc & Henc & Hc' & _).
    rewrite Henc. cbn [obind]. apply IH. exact Hc'.
Qed.

Theorem rs_encode_after_history reqs data k :
  Forall req_ok reqs -> 1 <= k -> gf_base f + k <= gf_size f -> Forall inr data ->
  exists cache c' ecc, rs_run rs_init reqs = Ok cache
    /\ rs_encode f cache data k = Ok (c', ecc)
    /\ rs_encode_fresh f data k = Ok ecc.
Proof.
  intros Hreqs Hk Hb Hd.
  destruct (rs_history_free reqs Hreqs rs_init cache_ok_init) as (cache & Hrun & Hc).
  destruct (rs_encode_any_cache cache data k Hc Hk Hb Hd) as (c' & ecc & Henc & _ & _ & _ & _ & Hfresh).
  exists cache, c', ecc. auto.
Qed.

End RS.

(* the name promised to the symbology developments *)
Theorem rs_encode_valid : forall f data k, gf_ok f = true -> 1 <= k ->
  gf_base f + k <= gf_size f -> Forall (fun c => 0 <= c < gf_size f) data ->
  exists ecc, rs_encode_fresh f data k = Ok ecc /\ zlength ecc = k
    /\ Forall (fun c => 0 <= c < gf_size f) ecc
    /\ forall i, 0 <= i < k -> poly_eval f (data ++ ecc) (tget (gf_alog f) (gf_base f + i)) = 0.
Proof. intros f data k Hok. apply rs_encode_valid_f. exact Hok. Qed.
