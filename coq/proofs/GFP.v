(* Field laws for the table-driven Galois fields of utils/galoisfield.go.
   gf_ok is a boolean, computable check of a concrete field record (evaluated
   by vm_compute for each field the library constructs); from it all laws are
   proved generically, for all operands. *)
From Coq Require Import FMapPositive.
From Verif Require Import Prelude GFM.

Local Ltac Zify.zify_post_hook ::= Z.div_mod_to_equations.
#[local] Arguments Z.mul : simpl never.
#[local] Arguments Z.add : simpl never.
#[local] Arguments Z.sub : simpl never.
#[local] Arguments Z.modulo : simpl never.
#[local] Arguments Z.lxor : simpl never.
#[local] Arguments Z.land : simpl never.
#[local] Arguments Z.pow : simpl never.
#[local] Arguments Z.testbit : simpl never.
#[local] Arguments Z.of_nat : simpl never.
#[local] Arguments Z.to_nat : simpl never.

Definition alog (f : gfield) (i : Z) : Z := tget (gf_alog f) i.
Definition glog (f : gfield) (x : Z) : Z := tget (gf_log f) x.
Definition gord (f : gfield) : Z := gf_size f - 1.

(* 0, 1, ..., n-1 *)
Fixpoint zrange_from (s : Z) (n : nat) : list Z :=
  match n with O => [] | S m => s :: zrange_from (s + 1) m end.
Definition zrange (n : Z) : list Z := zrange_from 0 (Z.to_nat n).

Lemma in_zrange_from x : forall n s, s <= x < s + Z.of_nat n -> In x (zrange_from s n).
Proof.
  induction n as [|n IH]; intros s H; [lia|].
  cbn [zrange_from]. destruct (Z.eq_dec s x) as [->|Hne]; [left; reflexivity|].
  right. apply IH. lia.
Qed.

Lemma in_zrange x n : 0 <= x < n -> In x (zrange n).
Proof. intros H. apply in_zrange_from. lia. Qed.

(* the "multiply by the generator element" map, reconstructed from the tables:
   pp' = alog(log(size/2) + 1) is the reduction constant *)
Definition gpp (f : gfield) : Z := alog f ((glog f (gf_size f / 2) + 1) mod gord f).
Definition xtime (f : gfield) (b : Z) : Z :=
  Z.lxor (Z.land (2 * b) (gf_size f - 1)) (if 2 * b >=? gf_size f then gpp f else 0).

(* xor-sum over the set bits of x of g k, k < m *)
Fixpoint bsum (m : nat) (g : nat -> Z) (x : Z) : Z :=
  match m with
  | O => 0
  | S k => Z.lxor (bsum k g x) (if Z.testbit x (Z.of_nat k) then g k else 0)
  end.

Definition gf_ok (f : gfield) : bool :=
  let size := gf_size f in
  let n := gord f in
  let m := Z.log2 size in
  (3 <=? size) && (size =? 2 ^ m)
  && (0 <=? gf_base f)
  && (alog f 0 =? 1) && (alog f n =? 1)
  && forallb (fun i =>
       (1 <=? alog f i) && (alog f i <? size)
       && (glog f (alog f i) mod n =? i)
       && (alog f (i + 1) =? xtime f (alog f i))) (zrange n)
  && forallb (fun x =>
       (0 <=? glog f x) && (glog f x <=? n)
       && ((x =? 0) || (alog f (glog f x mod n) =? x))
       && (0 <=? xtime f x) && (xtime f x <? size)
       && (xtime f x =? bsum (Z.to_nat m) (fun k => xtime f (2 ^ Z.of_nat k)) x)) (zrange size)
  && (xtime f 0 =? 0).

(* ---------- xor algebra on Z ---------- *)
Lemma lxor_swap a b c d : Z.lxor (Z.lxor a b) (Z.lxor c d) = Z.lxor (Z.lxor a c) (Z.lxor b d).
Proof.
  rewrite !Z.lxor_assoc. f_equal. rewrite <- !Z.lxor_assoc. f_equal. apply Z.lxor_comm.
Qed.

Lemma bsum_lxor m g x y : bsum m g (Z.lxor x y) = Z.lxor (bsum m g x) (bsum m g y).
Proof.
  induction m as [|m IH]; [reflexivity|].
  cbn [bsum]. rewrite IH, Z.lxor_spec.
  rewrite lxor_swap. f_equal.
  destruct (Z.testbit x (Z.of_nat m)), (Z.testbit y (Z.of_nat m)); cbn [xorb].
  - symmetry. apply Z.lxor_nilpotent.
  - symmetry. apply Z.lxor_0_r.
  - symmetry. apply Z.lxor_0_l.
  - reflexivity.
Qed.

Lemma lxor_range m a b : 0 <= m -> 0 <= a < 2 ^ m -> 0 <= b < 2 ^ m -> 0 <= Z.lxor a b < 2 ^ m.
Proof.
  intros Hm Ha Hb. split; [apply Z.lxor_nonneg; lia|].
  destruct (Z.eq_dec (Z.lxor a b) 0) as [->|Hne]; [lia|].
  assert (0 < Z.lxor a b) by (pose proof (proj2 (Z.lxor_nonneg a b)); lia).
  apply Z.log2_lt_pow2; [lia|].
  pose proof (Z.log2_lxor a b ltac:(lia) ltac:(lia)) as Hl.
  assert (0 < m).
  { destruct (Z.eq_dec m 0) as [->|]; [|lia]. exfalso. apply Hne.
    assert (a = 0) by (change (2 ^ 0) with 1 in Ha; lia).
    assert (b = 0) by (change (2 ^ 0) with 1 in Hb; lia). subst. reflexivity. }
  assert (Z.log2 a < m).
  { destruct (Z.eq_dec a 0) as [->|]; [cbn; lia|]. apply Z.log2_lt_pow2; lia. }
  assert (Z.log2 b < m).
  { destruct (Z.eq_dec b 0) as [->|]; [cbn; lia|]. apply Z.log2_lt_pow2; lia. }
  lia.
Qed.

(* ---------- facts unpacked from gf_ok ---------- *)
Local Ltac foldgf f n size :=
  change (tget (gf_alog f)) with (alog f); change (tget (gf_log f)) with (glog f);
  change (gf_size f - 1) with n; change (gf_size f) with size.

Section Field.
Variable f : gfield.
Hypothesis Hok : gf_ok f = true.

Let size := gf_size f.
Let n := gord f.

Local Ltac split_ok H :=
  repeat match type of H with
  | _ && _ = true => let H1 := fresh "Hk" in let H2 := fresh "Hk" in
                     apply andb_true_iff in H; destruct H as [H1 H2]; try split_ok H1; try split_ok H2
  end.

Lemma ok_size : 3 <= size /\ size = 2 ^ Z.log2 size /\ 0 <= gf_base f.
Proof. pose proof Hok as H. unfold gf_ok in H. split_ok H. subst size. lia. Qed.

Lemma ok_alog0 : alog f 0 = 1 /\ alog f n = 1 /\ xtime f 0 = 0.
Proof. pose proof Hok as H. unfold gf_ok in H. split_ok H. subst n. lia. Qed.

Lemma ok_alog i : 0 <= i < n ->
  1 <= alog f i < size /\ glog f (alog f i) mod n = i /\ alog f (i + 1) = xtime f (alog f i).
Proof.
  intros Hi. pose proof Hok as H. unfold gf_ok in H. split_ok H.
  match goal with Hf : forallb _ (zrange (gord f)) = true |- _ =>
    rewrite forallb_forall in Hf; specialize (Hf i (in_zrange i _ Hi)); split_ok Hf end.
  subst size n. lia.
Qed.

Lemma ok_elem x : 0 <= x < size ->
  0 <= glog f x <= n /\ (x <> 0 -> alog f (glog f x mod n) = x)
  /\ 0 <= xtime f x < size
  /\ xtime f x = bsum (Z.to_nat (Z.log2 size)) (fun k => xtime f (2 ^ Z.of_nat k)) x.
Proof.
  intros Hx. pose proof Hok as H. unfold gf_ok in H. split_ok H.
  match goal with Hf : forallb _ (zrange (gf_size f)) = true |- _ =>
    rewrite forallb_forall in Hf; specialize (Hf x (in_zrange x _ Hx)); split_ok Hf end.
  subst size n. repeat split; try lia.
Qed.

Lemma n_pos : 2 <= n.
Proof. pose proof ok_size. subst n size. unfold gord. lia. Qed.

(* ---------- xtime is xor-linear on the field ---------- *)
Lemma xor_closed a b : 0 <= a < size -> 0 <= b < size -> 0 <= Z.lxor a b < size.
Proof.
  intros Ha Hb. destruct ok_size as (H3 & Hp & _). rewrite Hp in *.
  apply lxor_range; try lia. apply Z.log2_nonneg.
Qed.

Lemma xtime_lxor a b : 0 <= a < size -> 0 <= b < size ->
  xtime f (Z.lxor a b) = Z.lxor (xtime f a) (xtime f b).
Proof.
  intros Ha Hb.
  destruct (ok_elem a Ha) as (_ & _ & _ & Ea).
  destruct (ok_elem b Hb) as (_ & _ & _ & Eb).
  destruct (ok_elem _ (xor_closed a b Ha Hb)) as (_ & _ & _ & Eab).
  rewrite Eab, Ea, Eb. apply bsum_lxor.
Qed.

(* iterate xtime *)
Fixpoint xiter (k : nat) (b : Z) : Z :=
  match k with O => b | S j => xtime f (xiter j b) end.

Lemma xiter_range k b : 0 <= b < size -> 0 <= xiter k b < size.
Proof.
  intros Hb. induction k as [|k IH]; [exact Hb|]. cbn [xiter].
  destruct (ok_elem _ IH) as (_ & _ & Hr & _). exact Hr.
Qed.

Lemma xiter_lxor k a b : 0 <= a < size -> 0 <= b < size ->
  xiter k (Z.lxor a b) = Z.lxor (xiter k a) (xiter k b).
Proof.
  intros Ha Hb. induction k as [|k IH]; [reflexivity|].
  cbn [xiter]. rewrite IH. apply xtime_lxor; apply xiter_range; assumption.
Qed.

Lemma xiter_0 k : xiter k 0 = 0.
Proof.
  induction k as [|k IH]; [reflexivity|]. cbn [xiter]. rewrite IH.
  destruct ok_alog0 as (_ & _ & H). exact H.
Qed.

Lemma alog_wrap i : 0 <= i < n -> alog f (i + 1) = alog f ((i + 1) mod n).
Proof.
  intros Hi. destruct (Z.eq_dec (i + 1) n) as [E|E].
  - rewrite E, Z_mod_same_full. destruct ok_alog0 as (H0 & Hn & _). fold n in Hn. congruence.
  - rewrite Z.mod_small by lia. reflexivity.
Qed.

Lemma xiter_alog k j : 0 <= j < n -> xiter k (alog f j) = alog f ((j + Z.of_nat k) mod n).
Proof.
  intros Hj. induction k as [|k IH].
  - cbn [xiter]. rewrite Z.add_0_r, Z.mod_small by lia. reflexivity.
  - cbn [xiter]. rewrite IH.
    pose proof n_pos.
    assert (Hm : 0 <= (j + Z.of_nat k) mod n < n) by (apply Z.mod_pos_bound; lia).
    destruct (ok_alog _ Hm) as (_ & _ & Hstep). rewrite <- Hstep.
    rewrite alog_wrap by exact Hm. f_equal.
    rewrite Nat2Z.inj_succ. unfold Z.succ.
    rewrite Z.add_mod_idemp_l by lia. f_equal. lia.
Qed.

(* ---------- multiplication as a linear map ---------- *)
Definition mulL (a b : Z) : Z :=
  if a =? 0 then 0 else xiter (Z.to_nat (glog f a mod n)) b.

Lemma glog_mod_range a : 0 <= a < size -> 0 <= glog f a mod n < n.
Proof. intros _. pose proof n_pos. apply Z.mod_pos_bound. lia. Qed.

Lemma gf_mul_mulL a b : 0 <= a < size -> 0 <= b < size -> gf_mul f a b = mulL a b.
Proof.
  intros Ha Hb. unfold gf_mul, mulL. pose proof n_pos as Hn.
  destruct (a =? 0) eqn:Ea; [reflexivity|].
  destruct (b =? 0) eqn:Eb.
  - assert (b = 0) by lia. subst b. rewrite xiter_0. reflexivity.
  - cbn [orb].
    destruct (ok_elem b Hb) as (Hlb & Hab & _). specialize (Hab ltac:(lia)).
    rewrite <- Hab at 2.
    rewrite xiter_alog by (apply Z.mod_pos_bound; lia).
    rewrite Z2Nat.id by (apply Z.mod_pos_bound; lia).
    change (tget (gf_alog f)) with (alog f). change (gf_size f - 1) with n.
    f_equal. rewrite Z.add_mod_idemp_l, Z.add_mod_idemp_r by lia. unfold glog. f_equal. lia.
Qed.

Lemma gf_mul_range a b : 0 <= a < size -> 0 <= b < size -> 0 <= gf_mul f a b < size.
Proof.
  intros Ha Hb. rewrite gf_mul_mulL by assumption. unfold mulL.
  destruct (a =? 0); [pose proof ok_size; subst size; lia|]. apply xiter_range; exact Hb.
Qed.

(* every table lookup of Multiply is inside the tables: no index panic *)
Lemma gf_mul_indices_in_range a b : 0 <= a < size -> 0 <= b < size ->
  0 <= (glog f a + glog f b) mod n < size.
Proof. intros _ _. pose proof n_pos. pose proof (Z.mod_pos_bound (glog f a + glog f b) n). subst n size. unfold gord in *. lia. Qed.

Theorem gf_mul_comm a b : gf_mul f a b = gf_mul f b a.
Proof.
  unfold gf_mul. rewrite orb_comm. destruct (_ || _); [reflexivity|].
  rewrite Z.add_comm. reflexivity.
Qed.

Theorem gf_mul_distr_l a b c : 0 <= a < size -> 0 <= b < size -> 0 <= c < size ->
  gf_mul f a (Z.lxor b c) = Z.lxor (gf_mul f a b) (gf_mul f a c).
Proof.
  intros Ha Hb Hc. rewrite !gf_mul_mulL by (try apply xor_closed; assumption).
  unfold mulL. destruct (a =? 0); [reflexivity|]. apply xiter_lxor; assumption.
Qed.

Theorem gf_mul_distr_r a b c : 0 <= a < size -> 0 <= b < size -> 0 <= c < size ->
  gf_mul f (Z.lxor b c) a = Z.lxor (gf_mul f b a) (gf_mul f c a).
Proof.
  intros. rewrite gf_mul_comm, gf_mul_distr_l by assumption.
  f_equal; apply gf_mul_comm.
Qed.

Lemma gf_mul_0_l a : gf_mul f 0 a = 0.
Proof. reflexivity. Qed.
Lemma gf_mul_0_r a : gf_mul f a 0 = 0.
Proof. rewrite gf_mul_comm. reflexivity. Qed.

(* log of a non-zero product *)
Lemma gf_mul_nonzero a b : 0 <= a < size -> 0 <= b < size -> a <> 0 -> b <> 0 ->
  gf_mul f a b = alog f ((glog f a + glog f b) mod n) /\
  1 <= gf_mul f a b < size /\
  glog f (gf_mul f a b) mod n = (glog f a + glog f b) mod n.
Proof.
  intros Ha Hb Hna Hnb. pose proof n_pos. unfold gf_mul.
  replace (a =? 0) with false by lia. replace (b =? 0) with false by lia. cbn [orb].
  foldgf f n size.
  assert (Hm : 0 <= (glog f a + glog f b) mod n < n) by (apply Z.mod_pos_bound; lia).
  destruct (ok_alog _ Hm) as (Hr & Hl & _). auto.
Qed.

Theorem gf_mul_assoc a b c : 0 <= a < size -> 0 <= b < size -> 0 <= c < size ->
  gf_mul f (gf_mul f a b) c = gf_mul f a (gf_mul f b c).
Proof.
  intros Ha Hb Hc. pose proof n_pos.
  destruct (Z.eq_dec a 0) as [->|Hna]; [reflexivity|].
  destruct (Z.eq_dec b 0) as [->|Hnb]; [rewrite gf_mul_0_r, !gf_mul_0_l, gf_mul_0_r; reflexivity|].
  destruct (Z.eq_dec c 0) as [->|Hnc]; [rewrite !gf_mul_0_r; reflexivity|].
  destruct (gf_mul_nonzero a b Ha Hb Hna Hnb) as (_ & Hab & Lab).
  destruct (gf_mul_nonzero b c Hb Hc Hnb Hnc) as (_ & Hbc & Lbc).
  destruct (gf_mul_nonzero (gf_mul f a b) c ltac:(lia) Hc ltac:(lia) Hnc) as (-> & _ & _).
  destruct (gf_mul_nonzero a (gf_mul f b c) Ha ltac:(lia) Hna ltac:(lia)) as (-> & _ & _).
  f_equal.
  rewrite <- Z.add_mod_idemp_l, Lab, Z.add_mod_idemp_l by lia.
  rewrite <- (Z.add_mod_idemp_r (glog f a)), Lbc, Z.add_mod_idemp_r by lia.
  f_equal. lia.
Qed.

Theorem gf_mul_1_r a : 0 <= a < size -> gf_mul f a 1 = a.
Proof.
  intros Ha. pose proof n_pos. pose proof ok_size.
  destruct (Z.eq_dec a 0) as [->|Hna]; [reflexivity|].
  destruct (gf_mul_nonzero a 1 Ha ltac:(subst size; lia) Hna ltac:(lia)) as (-> & _ & _).
  destruct (ok_elem a Ha) as (_ & Hal & _). specialize (Hal Hna).
  rewrite <- Hal at 2. f_equal.
  (* log 1 mod n = 0 *)
  destruct ok_alog0 as (Ha0 & _ & _).
  destruct (ok_alog 0 ltac:(lia)) as (_ & Hl & _). rewrite Ha0 in Hl.
  rewrite <- Z.add_mod_idemp_r, Hl, Z.add_0_r by lia. reflexivity.
Qed.

Theorem gf_mul_1_l a : 0 <= a < size -> gf_mul f 1 a = a.
Proof. intros. rewrite gf_mul_comm. apply gf_mul_1_r. assumption. Qed.

(* Invers: index (size-1) - log a is inside the table, and a * inv a = 1 *)
Theorem gf_inv_spec a : 1 <= a < size ->
  0 <= gord f - glog f a < size /\ 1 <= gf_inv f a < size /\ gf_mul f a (gf_inv f a) = 1.
Proof.
  intros Ha. pose proof n_pos as Hn. pose proof ok_size as (Hs3 & _).
  destruct (ok_elem a ltac:(lia)) as (Hl & Hal & _). specialize (Hal ltac:(lia)).
  unfold gf_inv. foldgf f n size.
  assert (Hidx : 0 <= n - glog f a <= n) by lia.
  (* alog (n - log a) = alog ((n - log a) mod n) *)
  assert (Hai : alog f (n - glog f a) = alog f ((n - glog f a) mod n)).
  { destruct (Z.eq_dec (glog f a) 0) as [E|E].
    - rewrite E, Z.sub_0_r, Z_mod_same_full. destruct ok_alog0 as (H0 & Hnn & _). fold n in Hnn. congruence.
    - rewrite Z.mod_small by lia. reflexivity. }
  assert (Hm : 0 <= (n - glog f a) mod n < n) by (apply Z.mod_pos_bound; lia).
  destruct (ok_alog _ Hm) as (Hr & Hlg & _).
  split; [subst n size; unfold gord in *; lia|]. split; [rewrite Hai; exact Hr|].
  destruct (gf_mul_nonzero a (alog f (n - glog f a)) ltac:(lia) ltac:(rewrite Hai; lia) ltac:(lia) ltac:(rewrite Hai; lia))
    as (-> & _ & _).
  rewrite Hai. rewrite <- Z.add_mod_idemp_r, Hlg, Z.add_mod_idemp_r by lia.
  replace (glog f a + (n - glog f a)) with n by lia.
  rewrite Z_mod_same_full. destruct ok_alog0 as (H0 & _ & _). exact H0.
Qed.

(* Divide: defined for every non-zero divisor, index in range, undoes Multiply *)
Theorem gf_div_spec a b : 0 <= a < size -> 1 <= b < size ->
  exists q, gf_div f a b = Ok q /\ 0 <= q < size /\ gf_mul f q b = a.
Proof.
  intros Ha Hb. pose proof n_pos as Hn. pose proof ok_size as (Hs3 & _).
  unfold gf_div. replace (b =? 0) with false by lia.
  destruct (a =? 0) eqn:Ea.
  - exists 0. assert (a = 0) by lia. subst a. repeat split; try lia.
  - eexists; split; [reflexivity|].
    destruct (ok_elem a Ha) as (Hla & Hala & _). specialize (Hala ltac:(lia)).
    destruct (ok_elem b ltac:(lia)) as (Hlb & Halb & _). specialize (Halb ltac:(lia)).
    foldgf f n size.
    replace (glog f a - glog f b + size - 1) with (glog f a - glog f b + n) by (subst n size; unfold gord; lia).
    replace (size - 1) with n by (subst n size; unfold gord; lia).
    unfold go_mod. rewrite Z.rem_mod_nonneg by lia.
    assert (Hm : 0 <= (glog f a - glog f b + n) mod n < n) by (apply Z.mod_pos_bound; lia).
    destruct (ok_alog _ Hm) as (Hr & Hlg & _).
    split; [lia|].
    destruct (gf_mul_nonzero (alog f ((glog f a - glog f b + n) mod n)) b ltac:(lia) ltac:(lia) ltac:(lia) ltac:(lia)) as (-> & _ & _).
    rewrite <- Hala at 2. f_equal.
    rewrite <- Z.add_mod_idemp_l, Hlg, Z.add_mod_idemp_l by lia.
    replace (glog f a - glog f b + n + glog f b) with (glog f a + 1 * n) by lia.
    apply Z.mod_add. lia.
Qed.

Theorem gf_div_mul a b : 0 <= a < size -> 1 <= b < size -> gf_div f (gf_mul f a b) b = Ok a.
Proof.
  intros Ha Hb.
  destruct (gf_div_spec (gf_mul f a b) b (gf_mul_range a b Ha ltac:(lia)) Hb) as (q & Hq & Hr & Hm).
  rewrite Hq. f_equal.
  (* cancel b: multiply both sides by inv b *)
  destruct (gf_inv_spec b Hb) as (_ & Hir & Hinv).
  assert (gf_mul f (gf_mul f q b) (gf_inv f b) = gf_mul f (gf_mul f a b) (gf_inv f b)) as E by congruence.
  rewrite !gf_mul_assoc, Hinv, !gf_mul_1_r in E by lia. exact E.
Qed.

Theorem gf_div_zero a : gf_div f a 0 = Panic.
Proof. reflexivity. Qed.

(* no zero divisors *)
Theorem gf_mul_eq_0 a b : 0 <= a < size -> 0 <= b < size -> gf_mul f a b = 0 -> a = 0 \/ b = 0.
Proof.
  intros Ha Hb H. destruct (Z.eq_dec a 0); [auto|]. destruct (Z.eq_dec b 0); [auto|].
  destruct (gf_mul_nonzero a b Ha Hb ltac:(assumption) ltac:(assumption)) as (_ & Hr & _). lia.
Qed.

End Field.
