(* QR layer 3d: block split, Reed-Solomon, interleaving (unbounded).
   For arbitrary (n1, k1, n2, e) with group-2 blocks one codeword longer:
   the reader's de-interleaver inverts the encoder's interleave, every block it
   recovers is a valid Reed-Solomon codeword (all e syndromes zero) with exactly e
   check codewords, and the data codewords are the bytes of the bit stream.
   The Reed-Solomon fact is the premise rs_statement (theorem rs_encode_valid of
   proofs/RSP.v, property C17); it is discharged in QRProps.v. *)
From Verif Require Import Prelude Barcode BitListM GFM GFP TabQr QRMBits QRMBlocks QRMRender QRM QRSpec
  QRP1Tables QRP2Layout QRP3Bits.

Local Ltac Zify.zify_post_hook ::= Z.div_mod_to_equations.
#[local] Arguments Z.mul : simpl never.
#[local] Arguments Z.add : simpl never.
#[local] Arguments Z.sub : simpl never.
#[local] Arguments Z.of_nat : simpl never.
#[local] Arguments Z.to_nat : simpl never.

(* the statement proved as rs_encode_valid in proofs/RSP.v *)
Definition rs_statement : Prop :=
  forall f data k, gf_ok f = true -> 1 <= k -> gf_base f + k <= gf_size f ->
    Forall (fun c => 0 <= c < gf_size f) data ->
    exists ecc, rs_encode_fresh f data k = Ok ecc /\ zlength ecc = k
      /\ Forall (fun c => 0 <= c < gf_size f) ecc
      /\ forall i, 0 <= i < k -> poly_eval f (data ++ ecc) (tget (gf_alog f) (gf_base f + i)) = 0.

Definition is_byte (c : Z) : Prop := 0 <= c < 256.

Lemma qr_field_ok : gf_ok qr_field = true.
Proof. vm_compute. reflexivity. Qed.

Lemma spec_field_eq : spec_field = qr_field.
Proof. reflexivity. Qed.

Lemma map_mod_small l : Forall is_byte l -> map (fun x => x mod 256) l = l.
Proof.
  intros H. induction H as [|c l Hc H IH]; [reflexivity|]. cbn [map]. rewrite IH.
  unfold is_byte in Hc. rewrite Z.mod_small by lia. reflexivity.
Qed.

(* ---------- calcECC ---------- *)
Definition good_block (k : nat) (e : Z) (blk : list Z * list Z) : Prop :=
  length (fst blk) = k /\ length (snd blk) = Z.to_nat e /\ Forall is_byte (snd blk)
  /\ block_ok e blk = true.

Lemma calc_ecc_spec (RS : rs_statement) d e : Forall is_byte d -> 1 <= e <= 256 ->
  exists ecc, calc_ecc d e = Ok ecc /\ good_block (length d) e (d, ecc).
Proof.
  intros Hd He.
  destruct (RS qr_field d e qr_field_ok ltac:(lia) ltac:(change (gf_base qr_field) with 0; change (gf_size qr_field) with 256; lia) Hd)
    as (ecc & Eenc & Hlen & Hrange & Hroots).
  change (gf_size qr_field) with 256 in Hrange.
  exists ecc. unfold calc_ecc. rewrite Eenc. cbn [obind]. rewrite map_mod_small by exact Hrange.
  split; [reflexivity|]. unfold good_block. cbn [fst snd]. split; [reflexivity|].
  split; [unfold zlength in Hlen; lia|]. split; [exact Hrange|].
  unfold block_ok. cbn [fst snd]. apply forallb_forall. intros i Hi. apply sseq_in in Hi.
  rewrite spec_field_eq. specialize (Hroots i ltac:(lia)).
  change (gf_base qr_field) with 0 in Hroots. replace (0 + i) with i in Hroots by lia.
  rewrite Hroots. reflexivity.
Qed.

(* ---------- splitToBlocks ---------- *)
Lemma skipn_skipn' {A} m : forall n (l : list A), skipn n (skipn m l) = skipn (m + n) l.
Proof.
  induction m as [|m IH]; intros n l; [reflexivity|].
  destruct l as [|x l]; [cbn [Nat.add skipn]; apply skipn_nil|]. cbn [Nat.add skipn]. apply IH.
Qed.

Lemma firstn_add' {A} m : forall n (l : list A), firstn (m + n) l = firstn m l ++ firstn n (skipn m l).
Proof.
  induction m as [|m IH]; intros n l; [reflexivity|].
  destruct l as [|x l]; [cbn [Nat.add firstn skipn app]; rewrite firstn_nil; reflexivity|].
  cbn [Nat.add firstn skipn app]. rewrite IH. reflexivity.
Qed.

Lemma recv_bytes_spec k : forall ch, (k <= length ch)%nat ->
  recv_bytes k ch = (firstn k ch, skipn k ch).
Proof.
  induction k as [|k IH]; intros ch H; [reflexivity|].
  destruct ch as [|x ch]; [cbn in H; lia|]. cbn [recv_bytes firstn skipn].
  rewrite IH by (cbn in H; lia). reflexivity.
Qed.

Lemma Forall_firstn {A} (P : A -> Prop) n : forall l, Forall P l -> Forall P (firstn n l).
Proof.
  induction n as [|n IH]; intros l H; [constructor|].
  destruct H as [|x l Hx H]; [constructor|]. cbn [firstn]. constructor; [exact Hx|apply IH; exact H].
Qed.

Lemma Forall_skipn {A} (P : A -> Prop) n : forall l, Forall P l -> Forall P (skipn n l).
Proof.
  induction n as [|n IH]; intros l H; [exact H|].
  destruct H as [|x l Hx H]; [constructor|]. cbn [skipn]. apply IH. exact H.
Qed.

Lemma take_blocks_spec (RS : rs_statement) k e : 1 <= e <= 256 -> 0 <= k ->
  forall n ch, (n * Z.to_nat k <= length ch)%nat -> Forall is_byte ch ->
  exists bl, take_blocks n k e ch = Ok (bl, skipn (n * Z.to_nat k) ch)
    /\ concat (map fst bl) = firstn (n * Z.to_nat k) ch
    /\ Forall (good_block (Z.to_nat k) e) bl /\ length bl = n.
Proof.
  intros He Hk. induction n as [|n IH]; intros ch Hl Hb.
  - exists []. cbn. repeat split; constructor.
  - cbn [take_blocks]. rewrite recv_bytes_spec by lia.
    destruct (calc_ecc_spec RS (firstn (Z.to_nat k) ch) e (Forall_firstn _ _ _ Hb) He) as (ecc & Ee & Hg).
    rewrite Ee. cbn [obind].
    assert (Hlf : length (firstn (Z.to_nat k) ch) = Z.to_nat k) by (apply firstn_length_le; lia).
    destruct (IH (skipn (Z.to_nat k) ch)) as (bl & Et & Hc & Hgs & Hn).
    { rewrite skipn_length. lia. }
    { apply Forall_skipn. exact Hb. }
    rewrite Et. cbn [obind]. eexists. split; [|split; [|split]].
    + rewrite skipn_skipn'. repeat f_equal; lia.
    + cbn [map fst concat]. rewrite Hc.
      replace (S n * Z.to_nat k)%nat with (Z.to_nat k + n * Z.to_nat k)%nat by lia.
      rewrite firstn_add'. reflexivity.
    + constructor; [|exact Hgs]. rewrite Hlf in Hg. exact Hg.
    + cbn [length]. lia.
Qed.

(* ---------- interleave ---------- *)
(* the successive passes over the block list *)
Fixpoint rounds (k : nat) (bl : list (list Z)) : list (list Z) :=
  match k with
  | O => []
  | S k' => let '(hs, ts) := heads_tails bl in hs :: rounds k' ts
  end.

Lemma interleave_data_rounds k : forall bl, interleave_data k bl = concat (rounds k bl).
Proof.
  induction k as [|k IH]; intros bl; [reflexivity|].
  cbn [interleave_data rounds]. destruct (heads_tails bl) as [hs ts]. cbn [concat]. rewrite IH. reflexivity.
Qed.

Definition hd0 (b : list Z) : Z := match b with [] => 0 | x :: _ => x end.
Definition tl0 (b : list Z) : list Z := match b with [] => [] | _ :: t => t end.

Lemma heads_tails_nonempty bl : Forall (fun b => (1 <= length b)%nat) bl ->
  heads_tails bl = (map hd0 bl, map tl0 bl).
Proof.
  intros H. induction H as [|b bl Hb H IH]; [reflexivity|].
  cbn [heads_tails map]. rewrite IH. destruct b; [cbn in Hb; lia|reflexivity].
Qed.

Lemma heads_strict_nonempty bl : Forall (fun b => (1 <= length b)%nat) bl ->
  heads_strict bl = Ok (map hd0 bl, map tl0 bl).
Proof.
  intros H. induction H as [|b bl Hb H IH]; [reflexivity|].
  cbn [heads_strict map]. destruct b; [cbn in Hb; lia|]. rewrite IH. reflexivity.
Qed.

Lemma Forall_tl_length (k : nat) (bl : list (list Z)) : Forall (fun b => (S k <= length b)%nat) bl ->
  Forall (fun b => (k <= length b)%nat) (map tl0 bl).
Proof.
  intros H. induction H as [|b bl Hb H IH]; [constructor|]. cbn [map]. constructor; [|exact IH].
  destruct b; cbn in *; lia.
Qed.

Lemma Forall_weaken_len (k : nat) (bl : list (list Z)) : Forall (fun b => (S k <= length b)%nat) bl ->
  Forall (fun b => (1 <= length b)%nat) bl.
Proof. intros H. eapply Forall_impl; [|exact H]. cbn. intros; lia. Qed.

(* k full passes over blocks that all have at least k elements *)
Lemma rounds_full k : forall bl, Forall (fun b => (k <= length b)%nat) bl ->
  Forall (fun r => length r = length bl) (rounds k bl) /\ length (rounds k bl) = k.
Proof.
  induction k as [|k IH]; intros bl H; [split; [constructor|reflexivity]|].
  cbn [rounds]. rewrite heads_tails_nonempty by (apply (Forall_weaken_len k); exact H).
  destruct (IH (map tl0 bl) (Forall_tl_length k bl H)) as [H1 H2].
  split; [|cbn [length]; lia]. constructor; [apply map_length|].
  rewrite map_length in H1. exact H1.
Qed.

Lemma rounds_split k : forall r bl, Forall (fun b => (k <= length b)%nat) bl ->
  rounds (k + r) bl = rounds k bl ++ rounds r (map (skipn k) bl).
Proof.
  induction k as [|k IH]; intros r bl H.
  - cbn [Nat.add rounds app]. f_equal. symmetry. apply map_id.
  - cbn [Nat.add rounds]. rewrite heads_tails_nonempty by (apply (Forall_weaken_len k); exact H).
    rewrite IH by (apply Forall_tl_length; exact H). cbn [app]. f_equal. f_equal. f_equal.
    rewrite map_map. apply map_ext. intros b. destruct b; [destruct k; reflexivity|reflexivity].
Qed.

(* ---------- the reader's de-interleaver on full passes ---------- *)
Lemma firstn_app_exact' {A} (a p : list A) : firstn (length a) (a ++ p) = a.
Proof. induction a as [|x a IH]; cbn [length firstn app]; [destruct p; reflexivity|]. rewrite IH. reflexivity. Qed.

Lemma skipn_app_exact' {A} (a p : list A) : skipn (length a) (a ++ p) = p.
Proof. induction a as [|x a IH]; cbn [length skipn app]; [reflexivity|exact IH]. Qed.

Lemma stream_rows_concat N : forall rows rest, Forall (fun r => length r = N) rows ->
  stream_rows (length rows) N (concat rows ++ rest) = rows
  /\ skipn (length rows * N) (concat rows ++ rest) = rest.
Proof.
  induction rows as [|r rows IH]; intros rest H; [split; reflexivity|].
  inversion H as [|? ? Hr Hrows]; subst. cbn [length stream_rows concat].
  rewrite <- app_assoc. rewrite firstn_app_exact', skipn_app_exact'.
  destruct (IH rest Hrows) as [I1 I2]. rewrite I1. split; [reflexivity|].
  replace (S (length rows) * length r)%nat with (length r + length rows * length r)%nat by lia.
  rewrite <- skipn_skipn', skipn_app_exact'. exact I2.
Qed.

Lemma zip_cons_hd_tl (f : list Z -> list Z) bl :
  zip_cons (map hd0 bl) (map f (map tl0 bl)) = map (fun b => hd0 b :: f (tl0 b)) bl.
Proof. induction bl as [|b bl IH]; [reflexivity|]. cbn [map zip_cons]. rewrite IH. reflexivity. Qed.

Lemma transpose_rounds k : forall bl, Forall (fun b => (k <= length b)%nat) bl ->
  transpose (length bl) (rounds k bl) = map (firstn k) bl.
Proof.
  induction k as [|k IH]; intros bl H.
  - cbn [rounds transpose]. induction bl as [|b bl IHb]; [reflexivity|].
    cbn [length repeat map]. rewrite IHb; [reflexivity|]. inversion H; assumption.
  - cbn [rounds]. rewrite heads_tails_nonempty by (apply (Forall_weaken_len k); exact H).
    cbn [transpose]. rewrite <- (map_length tl0 bl), IH by (apply Forall_tl_length; exact H).
    rewrite zip_cons_hd_tl. apply map_ext_in. intros b Hb.
    rewrite Forall_forall in H. specialize (H b Hb). destruct b; [cbn in H; lia|reflexivity].
Qed.

(* ---------- strict passes over the ecc parts ---------- *)
Lemma interleave_ecc_rounds k : forall bl, Forall (fun b => (k <= length b)%nat) bl ->
  interleave_ecc k bl = Ok (concat (rounds k bl)).
Proof.
  induction k as [|k IH]; intros bl H; [reflexivity|].
  cbn [interleave_ecc rounds].
  rewrite heads_strict_nonempty, heads_tails_nonempty by (apply (Forall_weaken_len k); exact H).
  cbn [obind]. rewrite IH by (apply Forall_tl_length; exact H). reflexivity.
Qed.

(* ---------- the round trip, for arbitrary block structure ---------- *)
Lemma firstn_all_map k (bl : list (list Z)) : Forall (fun b => length b = k) bl -> map (firstn k) bl = bl.
Proof.
  intros H. induction H as [|b bl Hb H IH]; [reflexivity|]. cbn [map]. rewrite IH.
  rewrite <- Hb, firstn_all. reflexivity.
Qed.

Lemma append_each_last k (bl : list (list Z)) : Forall (fun b => length b = S k) bl ->
  append_each (map (firstn k) bl) (map (fun b => nth k b 0) bl) = bl.
Proof.
  intros H. induction H as [|b bl Hb H IH]; [reflexivity|]. cbn [map append_each]. rewrite IH. f_equal.
  rewrite <- (firstn_skipn k b) at 3. f_equal.
  assert (length (skipn k b) = 1%nat) as Hs by (rewrite skipn_length; lia).
  destruct (skipn k b) as [|x [|y t]] eqn:E; cbn in Hs; try lia. f_equal.
  rewrite <- (firstn_skipn k b) at 1. rewrite E, app_nth2 by (rewrite firstn_length; lia).
  rewrite firstn_length. replace (k - Nat.min k (length b))%nat with 0%nat by lia. reflexivity.
Qed.

Lemma skipn_last_map k (g2 : list (list Z)) : Forall (fun b => length b = S k) g2 ->
  map (skipn k) g2 = map (fun b => [nth k b 0]) g2.
Proof.
  intros H. apply map_ext_in. intros b Hb. rewrite Forall_forall in H. specialize (H b Hb).
  assert (length (skipn k b) = 1%nat) as Hs by (rewrite skipn_length; lia).
  destruct (skipn k b) as [|x [|y t]] eqn:E; cbn in Hs; try lia. f_equal.
  rewrite <- (firstn_skipn k b). rewrite E, app_nth2 by (rewrite firstn_length; lia).
  rewrite firstn_length. replace (k - Nat.min k (length b))%nat with 0%nat by lia. reflexivity.
Qed.

Lemma skipn_all_map k (g1 : list (list Z)) : Forall (fun b => length b = k) g1 ->
  map (skipn k) g1 = repeat [] (length g1).
Proof.
  intros H. induction H as [|b bl Hb H IH]; [reflexivity|]. cbn [map length repeat]. rewrite IH.
  rewrite <- Hb, skipn_all. reflexivity.
Qed.

Lemma heads_tails_empties n : forall (g : list (list Z)),
  fst (heads_tails (repeat [] n ++ g)) = fst (heads_tails g).
Proof.
  induction n as [|n IH]; intros g; [reflexivity|].
  cbn [repeat app heads_tails]. specialize (IH g).
  destruct (heads_tails (repeat [] n ++ g)) as [hs ts]. cbn [fst] in *. exact IH.
Qed.

Lemma heads_singletons (g : list (list Z)) (f : list Z -> Z) :
  fst (heads_tails (map (fun b => [f b]) g)) = map f g.
Proof.
  induction g as [|b g IH]; [reflexivity|]. cbn [map heads_tails].
  destruct (heads_tails (map (fun b0 => [f b0]) g)) as [hs ts]. cbn [fst] in *. rewrite IH. reflexivity.
Qed.

(* the extra pass over the longer blocks; r = 0 when there is no group 2 *)
Lemma extra_round k (g1 g2 : list (list Z)) (r : nat) :
  Forall (fun b => length b = k) g1 -> Forall (fun b => length b = S k) g2 ->
  (g2 = [] /\ r = 0%nat) \/ r = 1%nat ->
  concat (rounds r (map (skipn k) (g1 ++ g2))) = map (fun b => nth k b 0) g2.
Proof.
  intros H1 H2 [[-> ->] | ->]; [reflexivity|].
  cbn [rounds]. rewrite map_app, skipn_all_map, skipn_last_map by assumption.
  pose proof (heads_tails_empties (length g1) (map (fun b => [nth k b 0]) g2)) as E.
  destruct (heads_tails (repeat [] (length g1) ++ map (fun b => [nth k b 0]) g2)) as [hs ts].
  cbn [fst] in E. rewrite E, heads_singletons. cbn [concat]. apply app_nil_r.
Qed.

Theorem deinterleave_interleave (g1 g2 : list (list Z * list Z)) (k1 : nat) (e : Z) (r : nat) layout :
  Forall (good_block k1 e) g1 -> Forall (good_block (S k1) e) g2 ->
  (g2 = [] /\ r = 0%nat) \/ r = 1%nat ->
  0 <= e ->
  bl_e layout = e -> bl_n1 layout = Z.of_nat (length g1) -> bl_k1 layout = Z.of_nat k1 ->
  bl_n2 layout = Z.of_nat (length g2) ->
  forall ecs, interleave_ecc (Z.to_nat e) (map snd (g1 ++ g2)) = Ok ecs ->
  deinterleave layout (interleave_data (k1 + r) (map fst (g1 ++ g2)) ++ ecs) = g1 ++ g2.
Proof.
  intros Hg1 Hg2 Hr He Le Ln1 Lk1 Ln2 ecs Hecs.
  set (bl := g1 ++ g2) in *.
  assert (Hd1 : Forall (fun b => length b = k1) (map fst g1)).
  { apply Forall_map. eapply Forall_impl; [|exact Hg1]. intros b Hb. apply Hb. }
  assert (Hd2 : Forall (fun b => length b = S k1) (map fst g2)).
  { apply Forall_map. eapply Forall_impl; [|exact Hg2]. intros b Hb. apply Hb. }
  assert (Hdk : Forall (fun b => (k1 <= length b)%nat) (map fst bl)).
  { unfold bl. rewrite map_app. apply Forall_app. split.
    - eapply Forall_impl; [|exact Hd1]. cbn. intros; lia.
    - eapply Forall_impl; [|exact Hd2]. cbn. intros; lia. }
  assert (Hec : Forall (fun b => length b = Z.to_nat e) (map snd bl)).
  { unfold bl. rewrite map_app. apply Forall_app. split; apply Forall_map.
    - eapply Forall_impl; [|exact Hg1]. intros b Hb. apply Hb.
    - eapply Forall_impl; [|exact Hg2]. intros b Hb. apply Hb. }
  assert (Hek : Forall (fun b => (Z.to_nat e <= length b)%nat) (map snd bl)).
  { eapply Forall_impl; [|exact Hec]. cbn. intros; lia. }
  rewrite interleave_ecc_rounds in Hecs by exact Hek. inversion Hecs as [Ecs]. clear Hecs.
  rewrite interleave_data_rounds, rounds_split by exact Hdk.
  assert (Hr' : (map fst g2 = [] /\ r = 0%nat) \/ r = 1%nat).
  { destruct Hr as [[E1 E2]|E]; [left; rewrite E1; auto|right; exact E]. }
  assert (Ex : concat (rounds r (map (skipn k1) (map fst bl))) = map (fun b => nth k1 b 0) (map fst g2)).
  { unfold bl. rewrite map_app. apply extra_round; assumption. }
  rewrite concat_app, Ex.
  set (N := length bl).
  assert (HN : Z.to_nat (bl_n1 layout + bl_n2 layout) = N).
  { unfold N, bl. rewrite app_length. lia. }
  destruct (rounds_full k1 (map fst bl) Hdk) as [Hrl Hrn]. rewrite map_length in Hrl. fold N in Hrl.
  destruct (rounds_full (Z.to_nat e) (map snd bl) Hek) as [Hel Hen]. rewrite map_length in Hel. fold N in Hel.
  unfold deinterleave. rewrite HN, Lk1, Ln1, Ln2, Le, !Nat2Z.id.
  rewrite <- !app_assoc.
  destruct (stream_rows_concat N (rounds k1 (map fst bl))
              (map (fun b => nth k1 b 0) (map fst g2) ++ concat (rounds (Z.to_nat e) (map snd bl))) Hrl) as [S1 S2].
  rewrite Hrn in S1, S2. rewrite S1, S2.
  assert (Hx : length (map (fun b => nth k1 b 0) (map fst g2)) = length g2) by (rewrite !map_length; reflexivity).
  rewrite <- Hx at 1 2. rewrite firstn_app_exact', skipn_app_exact'.
  destruct (stream_rows_concat N (rounds (Z.to_nat e) (map snd bl)) [] Hel) as [T1 _].
  rewrite app_nil_r, Hen in T1. rewrite T1.
  assert (Tshort : transpose N (rounds k1 (map fst bl)) = map (firstn k1) (map fst g1) ++ map (firstn k1) (map fst g2)).
  { unfold N. rewrite <- (map_length fst bl), transpose_rounds by exact Hdk.
    unfold bl. rewrite !map_app. reflexivity. }
  assert (Tecc : transpose N (rounds (Z.to_nat e) (map snd bl)) = map snd bl).
  { unfold N. rewrite <- (map_length snd bl), transpose_rounds by exact Hek.
    apply firstn_all_map. exact Hec. }
  rewrite Tshort, Tecc.
  replace (length g1) with (length (map (firstn k1) (map fst g1))) by (rewrite !map_length; reflexivity).
  rewrite firstn_app_exact', skipn_app_exact'.
  rewrite (firstn_all_map k1) by exact Hd1. rewrite append_each_last by exact Hd2.
  rewrite <- map_app. fold bl.
  clear. induction bl as [|[d c] bl IH]; [reflexivity|]. cbn [map combine fst snd]. rewrite IH. reflexivity.
Qed.

(* ---------- every interleaved codeword comes from a block ---------- *)
Lemma heads_tails_in bl : forall hs ts, heads_tails bl = (hs, ts) ->
  (forall x, In x hs -> exists b, In b bl /\ In x b)
  /\ (forall t x, In t ts -> In x t -> exists b, In b bl /\ In x b).
Proof.
  induction bl as [|b bl IH]; intros hs ts H.
  - cbn in H. inversion H; subst. split; intros; contradiction.
  - cbn [heads_tails] in H. destruct (heads_tails bl) as [hs' ts'].
    destruct (IH hs' ts' eq_refl) as [I1 I2].
    destruct b as [|y t0]; inversion H; subst; clear H; split.
    + intros x Hx. destruct (I1 x Hx) as (b & Hb & Hxb). exists b. split; [right; exact Hb|exact Hxb].
    + intros t x [<-|Ht] Hx; [contradiction|].
      destruct (I2 t x Ht Hx) as (b & Hb & Hxb). exists b. split; [right; exact Hb|exact Hxb].
    + intros x [<-|Hx]; [exists (y :: t0); split; [left; reflexivity|left; reflexivity]|].
      destruct (I1 x Hx) as (b & Hb & Hxb). exists b. split; [right; exact Hb|exact Hxb].
    + intros t x [<-|Ht] Hx; [exists (y :: t0); split; [left; reflexivity|right; exact Hx]|].
      destruct (I2 t x Ht Hx) as (b & Hb & Hxb). exists b. split; [right; exact Hb|exact Hxb].
Qed.

Lemma rounds_in k : forall bl x, In x (concat (rounds k bl)) -> exists b, In b bl /\ In x b.
Proof.
  induction k as [|k IH]; intros bl x H; [contradiction|].
  cbn [rounds] in H. destruct (heads_tails bl) as [hs ts] eqn:E.
  destruct (heads_tails_in bl hs ts E) as [I1 I2].
  cbn [concat] in H. apply in_app_or in H. destruct H as [H|H]; [apply I1; exact H|].
  destruct (IH ts x H) as (t & Ht & Hx). apply (I2 t x Ht Hx).
Qed.

Lemma rounds_bytes k bl : Forall (Forall is_byte) bl -> Forall is_byte (concat (rounds k bl)).
Proof.
  intros H. apply Forall_forall. intros x Hx. destruct (rounds_in k bl x Hx) as (b & Hb & Hxb).
  rewrite Forall_forall in H. specialize (H b Hb). rewrite Forall_forall in H. apply H. exact Hxb.
Qed.

Lemma concat_length_const (k : nat) (bl : list (list Z)) : Forall (fun b => length b = k) bl ->
  length (concat bl) = (length bl * k)%nat.
Proof.
  intros H. induction H as [|b bl Hb H IH]; [reflexivity|].
  cbn [concat length]. rewrite app_length, IH. lia.
Qed.

(* ---------- blocks of a table row: what the reader recovers ---------- *)
Record blocks_facts (v : Z) (l : qlevel) (bits : list bool) (data : list Z) : Prop := {
  bf_bytes : Forall is_byte data;
  bf_length : zlength data = total_codewords v;
  bf_syndromes : forallb (block_ok (bl_e (spec_blocks v l))) (deinterleave (spec_blocks v l) data) = true;
  bf_data : flat_map fst (deinterleave (spec_blocks v l) data) = bytes_of_bits bits;
  bf_ecc_count : Forall (fun b => zlength (snd b) = bl_e (spec_blocks v l))
                        (deinterleave (spec_blocks v l) data);
  bf_block_count : zlength (deinterleave (spec_blocks v l) data)
                   = bl_n1 (spec_blocks v l) + bl_n2 (spec_blocks v l)
}.

Theorem codewords_of_bits_spec (RS : rs_statement) bits vi l :
  In vi version_infos -> level_of_Z (vi_level vi) = Some l ->
  zlength bits = 8 * total_data_bytes vi ->
  exists data, codewords_of_bits bits vi = Ok data /\ blocks_facts (vi_version vi) l bits data.
Proof.
  intros Hin Hl Hlen.
  pose proof (row_ok_in vi Hin) as Hrow. unfold row_ok in Hrow. rewrite Hl in Hrow.
  set (v := vi_version vi) in *. set (lay := spec_blocks v l) in *.
  repeat (apply andb_true_iff in Hrow; destruct Hrow as [Hrow ?]).
  assert (He : vi_ecc vi = bl_e lay) by lia. assert (Hn1 : vi_n1 vi = bl_n1 lay) by lia.
  assert (Hk1 : vi_k1 vi = bl_k1 lay) by lia. assert (Hn2 : vi_n2 vi = bl_n2 lay) by lia.
  assert (Hg2 : (vi_n2 vi = 0 /\ vi_k2 vi = 0) \/ (0 < vi_n2 vi /\ vi_k2 vi = vi_k1 vi + 1)) by lia.
  assert (Herange : 1 <= vi_ecc vi <= 30) by lia.
  assert (Hn1p : 1 <= vi_n1 vi) by lia. assert (Hk1p : 1 <= vi_k1 vi) by lia.
  assert (Hn2p : 0 <= vi_n2 vi) by lia.
  assert (Htot : total_data_bytes vi + (vi_n1 vi + vi_n2 vi) * vi_ecc vi = total_codewords v) by lia.
  clear Hrow.
  (* the bytes of the stream *)
  assert (Hoct : octets bits).
  { apply (octets_of_length (Z.to_nat (total_data_bytes vi))). unfold zlength in Hlen. lia. }
  set (bytes := bytes_of_bits bits).
  assert (Hbb : Forall is_byte bytes) by apply bytes_of_bits_range.
  assert (Hbl : length bytes = Z.to_nat (total_data_bytes vi)).
  { pose proof (bytes_of_bits_length bits Hoct). unfold zlength in Hlen. unfold bytes. lia. }
  unfold total_data_bytes in Hbl, Htot.
  unfold codewords_of_bits, split_to_blocks. fold bytes.
  (* group 1 *)
  destruct (take_blocks_spec RS (vi_k1 vi) (vi_ecc vi) ltac:(lia) ltac:(lia) (Z.to_nat (vi_n1 vi)) bytes)
    as (g1 & E1 & C1 & G1 & L1); [nia|exact Hbb|].
  rewrite E1. cbn [obind].
  (* group 2 *)
  assert (Hk2 : 0 <= vi_k2 vi) by lia.
  destruct (take_blocks_spec RS (vi_k2 vi) (vi_ecc vi) ltac:(lia) Hk2 (Z.to_nat (vi_n2 vi))
              (skipn (Z.to_nat (vi_n1 vi) * Z.to_nat (vi_k1 vi)) bytes))
    as (g2 & E2 & C2 & G2 & L2); [rewrite skipn_length; nia|apply Forall_skipn; exact Hbb|].
  rewrite E2. cbn [obind].
  (* interleave *)
  unfold interleave.
  assert (Heb : Forall (fun b => (Z.to_nat (vi_ecc vi) <= length b)%nat) (map snd (g1 ++ g2))).
  { rewrite map_app. apply Forall_app. split; apply Forall_map.
    - eapply Forall_impl; [|exact G1]. intros b Hb. destruct Hb as (_ & Hb & _). lia.
    - eapply Forall_impl; [|exact G2]. intros b Hb. destruct Hb as (_ & Hb & _). lia. }
  rewrite interleave_ecc_rounds by exact Heb. cbn [obind].
  eexists. split; [reflexivity|].
  set (r := if vi_n2 vi =? 0 then 0%nat else 1%nat).
  assert (Hmax : Z.to_nat (if vi_k1 vi >? vi_k2 vi then vi_k1 vi else vi_k2 vi) = (Z.to_nat (vi_k1 vi) + r)%nat).
  { unfold r. destruct Hg2 as [[A B]|[A B]].
    - rewrite A, B. replace (vi_k1 vi >? 0) with true by lia. cbn [Z.eqb]. lia.
    - rewrite B. replace (vi_k1 vi >? vi_k1 vi + 1) with false by lia.
      replace (vi_n2 vi =? 0) with false by lia. lia. }
  rewrite Hmax.
  assert (G2' : Forall (good_block (S (Z.to_nat (vi_k1 vi))) (vi_ecc vi)) g2).
  { destruct Hg2 as [[A B]|[A B]].
    - assert (g2 = []) as -> by (destruct g2; [reflexivity|cbn in L2; lia]). constructor.
    - replace (S (Z.to_nat (vi_k1 vi))) with (Z.to_nat (vi_k2 vi)) by lia. exact G2. }
  assert (Hr : (g2 = [] /\ r = 0%nat) \/ r = 1%nat).
  { unfold r. destruct (vi_n2 vi =? 0) eqn:E; [left|right; reflexivity].
    split; [|reflexivity]. destruct g2; [reflexivity|cbn in L2; lia]. }
  assert (Hde : deinterleave lay
                  (interleave_data (Z.to_nat (vi_k1 vi) + r) (map fst (g1 ++ g2))
                   ++ concat (rounds (Z.to_nat (vi_ecc vi)) (map snd (g1 ++ g2)))) = g1 ++ g2).
  { apply (deinterleave_interleave g1 g2 (Z.to_nat (vi_k1 vi)) (vi_ecc vi) r lay G1 G2' Hr); try lia.
    apply interleave_ecc_rounds. exact Heb. }
  (* data blocks are bytes *)
  assert (Hd1 : Forall (fun b => length b = Z.to_nat (vi_k1 vi)) (map fst g1)).
  { apply Forall_map. eapply Forall_impl; [|exact G1]. intros b Hb. apply Hb. }
  assert (Hd2 : Forall (fun b => length b = Z.to_nat (vi_k2 vi)) (map fst g2)).
  { apply Forall_map. eapply Forall_impl; [|exact G2]. intros b Hb. apply Hb. }
  assert (Hcat : concat (map fst (g1 ++ g2)) = bytes).
  { rewrite map_app, concat_app, C1, C2. rewrite <- (firstn_skipn (Z.to_nat (vi_n1 vi) * Z.to_nat (vi_k1 vi)) bytes) at 3.
    f_equal. apply firstn_all2. rewrite skipn_length. nia. }
  assert (Hdb : Forall (Forall is_byte) (map fst (g1 ++ g2))).
  { apply Forall_forall. intros b Hb. apply Forall_forall. intros x Hx.
    assert (In x bytes) as Hxb by (rewrite <- Hcat; apply in_concat; exists b; auto).
    rewrite Forall_forall in Hbb. apply Hbb. exact Hxb. }
  assert (Heb2 : Forall (Forall is_byte) (map snd (g1 ++ g2))).
  { rewrite map_app. apply Forall_app. split; apply Forall_map.
    - eapply Forall_impl; [|exact G1]. intros b Hb. apply Hb.
    - eapply Forall_impl; [|exact G2]. intros b Hb. apply Hb. }
  constructor; fold v; fold lay.
  - apply Forall_app. split; [rewrite interleave_data_rounds; apply rounds_bytes; exact Hdb|].
    apply rounds_bytes. exact Heb2.
  - (* length *)
    rewrite zlength_app'. unfold zlength.
    assert (Hld : length (interleave_data (Z.to_nat (vi_k1 vi) + r) (map fst (g1 ++ g2))) = length bytes).
    { rewrite <- Hcat. rewrite interleave_data_rounds.
      assert (Hdk : Forall (fun b => (Z.to_nat (vi_k1 vi) <= length b)%nat) (map fst (g1 ++ g2))).
      { rewrite map_app. apply Forall_app. split.
        - eapply Forall_impl; [|exact Hd1]. cbn. intros; lia.
        - apply Forall_map. eapply Forall_impl; [|exact G2']. intros b Hb. destruct Hb as (Hb & _). lia. }
      rewrite rounds_split, concat_app, app_length by exact Hdk.
      destruct (rounds_full _ _ Hdk) as [F1 F2].
      rewrite (concat_length_const (length (map fst (g1 ++ g2)))) by exact F1. rewrite F2.
      assert (Hd2' : Forall (fun b => length b = S (Z.to_nat (vi_k1 vi))) (map fst g2)).
      { apply Forall_map. eapply Forall_impl; [|exact G2']. intros b Hb. apply Hb. }
      assert (Hr' : (map fst g2 = [] /\ r = 0%nat) \/ r = 1%nat).
      { destruct Hr as [[A B]|A]; [left; rewrite A; auto|right; exact A]. }
      rewrite (map_app fst g1 g2) at 2. rewrite (extra_round _ _ _ r Hd1 Hd2' Hr').
      rewrite map_app, concat_app, !app_length.
      rewrite (concat_length_const _ _ Hd1), (concat_length_const _ _ Hd2').
      rewrite !map_length. lia. }
    rewrite Hld.
    assert (Hec : Forall (fun b => length b = Z.to_nat (vi_ecc vi)) (map snd (g1 ++ g2))).
    { rewrite map_app. apply Forall_app. split; apply Forall_map.
      - eapply Forall_impl; [|exact G1]. intros b Hb. apply Hb.
      - eapply Forall_impl; [|exact G2]. intros b Hb. apply Hb. }
    destruct (rounds_full _ _ Heb) as [F1 F2].
    rewrite (concat_length_const (length (map snd (g1 ++ g2)))) by exact F1.
    rewrite F2, map_length, app_length. nia.
  - rewrite Hde. apply forallb_forall. intros b Hb. apply in_app_or in Hb. rewrite <- He.
    destruct Hb as [Hb|Hb]; [rewrite Forall_forall in G1; apply (G1 b Hb)|rewrite Forall_forall in G2; apply (G2 b Hb)].
  - rewrite Hde, flat_map_concat_map. exact Hcat.
  - rewrite Hde. apply Forall_forall. intros b Hb. apply in_app_or in Hb. rewrite <- He. unfold zlength.
    destruct Hb as [Hb|Hb]; [rewrite Forall_forall in G1; destruct (G1 b Hb) as (_ & Hx & _)
                             |rewrite Forall_forall in G2; destruct (G2 b Hb) as (_ & Hx & _)]; lia.
  - rewrite Hde. unfold zlength. rewrite app_length. lia.
Qed.
