(* C10 for Aztec: a boolean form of "the payload fits the requested / some configuration" *)
From Verif Require Import Prelude Barcode AztecM AztecSpec AztecPBase AztecPConfig AztecPCompose AztecProps ReprSpec C10P.

Lemma az_representable_reflect data pct req :
  az_representable_b data pct req = true <-> az_representable data pct req.
Proof.
  unfold az_representable_b, az_representable. split.
  - destruct (az_highlevel data) as [hl| | |] eqn:E; try discriminate.
    intros H. exists hl. split; [reflexivity|]. destruct (req =? 0).
    + apply existsb_exists in H. destruct H as (j & Hin & Hf). apply in_zseq in Hin.
      exists j. split; [simpl in Hin; lia|exact Hf].
    + apply andb_true_iff in H. destruct H as [H1 H2]. apply andb_true_iff in H1. split; [lia|exact H2].
  - intros (hl & Hhl & H). rewrite Hhl. destruct (req =? 0).
    + destruct H as (j & Hj & Hf). apply existsb_exists. exists j. split; [apply in_zseq; simpl; lia|exact Hf].
    + destruct H as [Hr Hf]. rewrite Hf. replace (-4 <=? req) with true by lia. replace (req <=? 32) with true by lia. reflexivity.
Qed.

Lemma az_exact data pct req : az_in_domain data pct ->
  exact_acceptance (az_encode data pct req) (az_representable_b data pct req).
Proof.
  intros Hd. destruct (az_c10 data pct req Hd) as (_ & _ & Hok & Herr). split.
  - intros H. apply Hok, az_representable_reflect, H.
  - intros H. apply Herr. intros Hr. apply az_representable_reflect in Hr. congruence.
Qed.

From Verif Require Import EanSpec QRSpec.

Lemma qr_capacity_examples :
  qr_representable (repeat 55 7089) 0 1 = true /\ qr_representable (repeat 55 7090) 0 1 = false
  /\ qr_representable (repeat 65 4296) 0 2 = true /\ qr_representable (repeat 65 4297) 0 2 = false
  /\ qr_representable (repeat 97 2953) 0 3 = true /\ qr_representable (repeat 97 2954) 0 3 = false.
Proof. vm_compute. repeat split. Qed.

Lemma c10_examples :
  az_in_domain c03_hello 33 /\ az_representable_b c03_hello 33 0 = true
  /\ ean_representable [53; 57; 48; 49; 50; 51; 52] = true.
Proof. split; [exact az_c03_example_domain|]. split; vm_compute; reflexivity. Qed.
