(* Code 128, part 3: the module row (patterns, check character, stop) and the
   theorems about Encode / EncodeWithoutChecksum. *)
From Verif Require Import Prelude Barcode TabCode128 Code128M Code128Spec Code128P1 Code128P2.

Local Ltac Zify.zify_post_hook ::= Z.div_mod_to_equations.

(* ---------- cutting a module row into characters ---------- *)
Lemma c128_firstn_len_app {A} (p x : list A) : firstn (length p) (p ++ x) = p.
Proof. induction p as [|a p IH]; cbn; [reflexivity|]. f_equal. exact IH. Qed.

Lemma c128_skipn_len_app {A} (p x : list A) : skipn (length p) (p ++ x) = x.
Proof. induction p as [|a p IH]; cbn; [reflexivity|]. exact IH. Qed.

Definition c128_len11 (p : list bool) : Prop := length p = 11%nat.

Lemma c128_take_chars_concat cs : forall rest,
  Forall c128_len11 cs ->
  c128_take_chars (length cs) (concat cs ++ rest) = (cs, rest).
Proof.
  induction cs as [|p cs IH]; intros rest Hf; [reflexivity|].
  inversion Hf as [|? ? Hp Hf']; subst. unfold c128_len11 in Hp.
  cbn [length concat c128_take_chars]. rewrite <- app_assoc.
  rewrite <- Hp.
  rewrite c128_skipn_len_app, c128_firstn_len_app, IH by exact Hf'.
  reflexivity.
Qed.

Lemma c128_length_concat cs : Forall c128_len11 cs -> zlength (concat cs) = 11 * zlength cs.
Proof.
  induction 1 as [|p cs Hp Hf IH]; [reflexivity|].
  unfold zlength in *. unfold c128_len11 in Hp. cbn [concat length]. rewrite app_length. lia.
Qed.

Lemma c128_map_opt_app {A B} (f : A -> option B) l1 : forall l2 r1 r2,
  c128_map_opt f l1 = Some r1 -> c128_map_opt f l2 = Some r2 ->
  c128_map_opt f (l1 ++ l2) = Some (r1 ++ r2).
Proof.
  induction l1 as [|x l1 IH]; intros l2 r1 r2 H1 H2; cbn [c128_map_opt app] in *.
  - injection H1 as <-. exact H2.
  - destruct (f x) as [y|]; [|discriminate].
    destruct (c128_map_opt f l1) as [r|] eqn:E; [|discriminate].
    injection H1 as <-. rewrite (IH l2 r r2 eq_refl H2). reflexivity.
Qed.

(* a row made of k >= 1 standard characters and the stop pattern is read as
   their values *)
Lemma c128_spec_values_concat cs vals :
  Forall c128_len11 cs -> cs <> [] ->
  c128_map_opt c128_spec_lookup cs = Some vals ->
  c128_spec_values (concat cs ++ c128_spec_stop_pattern) = Some vals.
Proof.
  intros Hf Hne Hm. unfold c128_spec_values.
  assert (zlength (concat cs ++ c128_spec_stop_pattern) = 11 * zlength cs + 13) as HL.
  { unfold zlength at 1. rewrite app_length.
    pose proof (c128_length_concat cs Hf) as H1. unfold zlength at 1 in H1.
    destruct c128_patterns_wellformed as [_ [_ [_ [Hs _]]]]. rewrite Hs. lia. }
  rewrite HL.
  assert (1 <= zlength cs) as H1.
  { destruct cs; [congruence|]. rewrite c128_zlength_cons. pose proof (c128_zlength_nonneg cs). lia. }
  destruct (11 * zlength cs + 13 <? 24) eqn:E1; [lia|].
  replace (11 * zlength cs + 13 - 13) with (zlength cs * 11) by lia.
  rewrite Z.mod_mul, Z.div_mul by lia.
  cbn [Z.eqb negb].
  replace (Z.to_nat (zlength cs)) with (length cs) by (unfold zlength; lia).
  rewrite c128_take_chars_concat by exact Hf.
  rewrite c128_bits_eqb_refl. exact Hm.
Qed.

(* ---------- the pattern loops ---------- *)
Lemma c128_plain_loop_spec vals : Forall c128_val_ok vals ->
  exists cs, c128_plain_loop vals = Ok (concat cs) /\ length cs = length vals /\
             Forall c128_len11 cs /\ c128_map_opt c128_spec_lookup cs = Some vals.
Proof.
  induction 1 as [|v vals Hv Hf IH].
  - exists []. repeat split; constructor.
  - destruct IH as [cs [H1 [H2 [H3 H4]]]].
    destruct (c128_tab_lookup v Hv) as [p [Hp [Hlen Hlk]]].
    exists (p :: cs). cbn [c128_plain_loop]. rewrite Hp, H1. cbn [obind concat length].
    split; [reflexivity|]. split; [lia|]. split; [constructor; assumption|].
    cbn [c128_map_opt]. rewrite Hlk, H4. reflexivity.
Qed.

(* the running sum of the checksum loop *)
Fixpoint c128_loop_sum (idxs : list Z) (i sum : Z) : Z :=
  match idxs with
  | [] => sum
  | idx :: t => c128_loop_sum t (i + 1) (if i =? 0 then idx else sum + i * idx)
  end.

Lemma c128_cs_loop_spec vals : Forall c128_val_ok vals -> forall i sum,
  exists cs, c128_cs_loop vals i sum = Ok (concat cs, c128_loop_sum vals i sum) /\
             length cs = length vals /\
             Forall c128_len11 cs /\ c128_map_opt c128_spec_lookup cs = Some vals.
Proof.
  induction 1 as [|v vals Hv Hf IH]; intros i sum.
  - exists []. repeat split; constructor.
  - destruct (IH (i + 1) (if i =? 0 then v else sum + i * v)) as [cs [H1 [H2 [H3 H4]]]].
    destruct (c128_tab_lookup v Hv) as [p [Hp [Hlen Hlk]]].
    exists (p :: cs). cbn [c128_cs_loop c128_loop_sum]. rewrite Hp, H1. cbn [obind concat length].
    split; [reflexivity|]. split; [lia|]. split; [constructor; assumption|].
    cbn [c128_map_opt]. rewrite Hlk, H4. reflexivity.
Qed.

Lemma c128_loop_sum_wsum vals : forall i sum, 1 <= i ->
  c128_loop_sum vals i sum = sum + c128_wsum i vals.
Proof.
  induction vals as [|v vals IH]; intros i sum Hi; cbn [c128_loop_sum c128_wsum]; [lia|].
  destruct (i =? 0) eqn:E; [lia|]. rewrite IH by lia. lia.
Qed.

Lemma c128_wsum_nonneg vals : Forall c128_val_ok vals -> forall i, 0 <= i -> 0 <= c128_wsum i vals.
Proof.
  induction 1 as [|v vals Hv Hf IH]; intros i Hi; cbn [c128_wsum]; [lia|].
  specialize (IH (i + 1) ltac:(lia)). unfold c128_val_ok in Hv. nia.
Qed.

(* sum % 103 of the loop = the standard's check value *)
Lemma c128_checksum_value s data : Forall c128_val_ok (s :: data) ->
  go_mod (c128_loop_sum (s :: data) 0 0) 103 = c128_spec_checksum (s :: data) /\
  0 <= c128_spec_checksum (s :: data) <= 102.
Proof.
  intros Hf. inversion Hf as [|? ? Hs Hd]; subst.
  cbn [c128_loop_sum c128_spec_checksum Z.eqb]. change (0 + 1) with 1.
  rewrite c128_loop_sum_wsum by lia.
  pose proof (c128_wsum_nonneg data Hd 1 ltac:(lia)) as Hw.
  unfold c128_val_ok in Hs.
  unfold go_mod. rewrite Z.rem_mod_nonneg by lia.
  split; [reflexivity|]. lia.
Qed.

Lemma c128_strip_check_ok vals : c128_strip_check (vals ++ [c128_spec_checksum vals]) = Some vals.
Proof.
  unfold c128_strip_check. rewrite rev_unit, rev_involutive, Z.eqb_refl. reflexivity.
Qed.

(* ---------- the encoders ---------- *)
Definition c128_length_ok (r : list Z) : bool := (1 <=? zlength r) && (zlength r <=? 80).

Definition c128_accepts (content : list Z) : bool :=
  c128_length_ok (c128_str_to_runes content) && forallb c128_in_alphabet (c128_str_to_runes content).

Lemma c128_length_guard r : (zlength r <=? 0) || (zlength r >? 80) = negb (c128_length_ok r).
Proof. unfold c128_length_ok. lia. Qed.

Lemma c128_length_ok_nonempty r : c128_length_ok r = true -> r <> [].
Proof. intros H ->. discriminate. Qed.

(* Encode: complete description of the outcome for every byte string *)
Lemma c128_encode_spec content :
  let r := c128_str_to_runes content in
  if c128_accepts content then
    exists s data st cs bits,
      c128_encode content = Ok (mk1d KCode128 content (Some cs) bits) /\
      c128_spec_values bits = Some ((s :: data) ++ [cs]) /\
      cs = c128_spec_checksum (s :: data) /\
      c128_start_set s = Some st /\
      c128_interp st false data = Some r /\
      c128_spec_decode true bits = Some r
  else c128_encode content = Err.
Proof.
  intros r. unfold c128_accepts. fold r.
  unfold c128_encode. fold r. rewrite c128_length_guard.
  destruct (c128_length_ok r) eqn:EL; cbn [negb andb]; [|reflexivity].
  destruct (c128_get_code_index_list_spec r) as [o [Ho Hp]].
  rewrite Ho. cbn [obind].
  destruct o as [vals|].
  - destruct Hp as [Ha [Hf Hd]]. rewrite Ha.
    destruct (Hd (c128_length_ok_nonempty r EL)) as [s [data [st [Ev [Es Hi]]]]]. subst vals.
    destruct (c128_cs_loop_spec _ Hf 0 0) as [chs [H1 [H2 [H3 H4]]]].
    destruct (c128_checksum_value s data Hf) as [Hcs Hrange].
    rewrite H1. cbn [obind]. rewrite Hcs.
    set (cs := c128_spec_checksum (s :: data)) in *.
    destruct (c128_tab_lookup cs ltac:(lia)) as [pc [Hpc [Hlc Hlk]]].
    unfold c128_pattern. rewrite Hpc, c128_tab_stop. cbn [obind].
    assert (c128_spec_values (concat chs ++ pc ++ c128_spec_stop_pattern) = Some ((s :: data) ++ [cs])) as HV.
    { replace (concat chs ++ pc ++ c128_spec_stop_pattern)
        with (concat (chs ++ [pc]) ++ c128_spec_stop_pattern)
        by (rewrite concat_app; cbn [concat]; rewrite app_nil_r, <- app_assoc; reflexivity).
      apply c128_spec_values_concat.
      - apply Forall_app. split; [exact H3|]. constructor; [exact Hlc|constructor].
      - destruct chs; discriminate.
      - apply c128_map_opt_app; [exact H4|]. cbn [c128_map_opt]. rewrite Hlk. reflexivity. }
    exists s, data, st, cs, (concat chs ++ pc ++ c128_spec_stop_pattern).
    split; [reflexivity|]. split; [exact HV|]. split; [reflexivity|].
    split; [exact Es|]. split; [exact Hi|].
    unfold c128_spec_decode. rewrite HV. unfold cs. rewrite c128_strip_check_ok, Es. exact Hi.
  - rewrite Hp. reflexivity.
Qed.

(* EncodeWithoutChecksum *)
Lemma c128_encode_nocs_spec content :
  let r := c128_str_to_runes content in
  if c128_accepts content then
    exists s data st bits,
      c128_encode_nocs content = Ok (mk1d KCode128 content None bits) /\
      c128_spec_values bits = Some (s :: data) /\
      c128_start_set s = Some st /\
      c128_interp st false data = Some r /\
      c128_spec_decode false bits = Some r
  else c128_encode_nocs content = Err.
Proof.
  intros r. unfold c128_accepts. fold r.
  unfold c128_encode_nocs. fold r. rewrite c128_length_guard.
  destruct (c128_length_ok r) eqn:EL; cbn [negb andb]; [|reflexivity].
  destruct (c128_get_code_index_list_spec r) as [o [Ho Hp]].
  rewrite Ho. cbn [obind].
  destruct o as [vals|].
  - destruct Hp as [Ha [Hf Hd]]. rewrite Ha.
    destruct (Hd (c128_length_ok_nonempty r EL)) as [s [data [st [Ev [Es Hi]]]]]. subst vals.
    destruct (c128_plain_loop_spec _ Hf) as [chs [H1 [H2 [H3 H4]]]].
    rewrite H1. cbn [obind].
    unfold c128_pattern. rewrite c128_tab_stop. cbn [obind].
    assert (c128_spec_values (concat chs ++ c128_spec_stop_pattern) = Some (s :: data)) as HV.
    { apply c128_spec_values_concat; [exact H3| |exact H4]. destruct chs; discriminate. }
    exists s, data, st, (concat chs ++ c128_spec_stop_pattern).
    split; [reflexivity|]. split; [exact HV|]. split; [exact Es|]. split; [exact Hi|].
    unfold c128_spec_decode. rewrite HV, Es. exact Hi.
  - rewrite Hp. reflexivity.
Qed.

(* ---------- the statements used by props/C05.v ---------- *)
Lemma c128_accepts_iff content :
  c128_accepts content = true <->
  (1 <= zlength (c128_str_to_runes content) <= 80 /\
   forallb c128_in_alphabet (c128_str_to_runes content) = true).
Proof. unfold c128_accepts, c128_length_ok. rewrite !andb_true_iff, !Z.leb_le. tauto. Qed.

Lemma c128_encode_roundtrip content bc :
  c128_encode content = Ok bc ->
  let r := c128_str_to_runes content in
  1 <= zlength r <= 80 /\
  forallb c128_in_alphabet r = true /\
  exists bits cs vals,
    bc = mk1d KCode128 content (Some cs) bits /\
    c128_spec_decode true bits = Some r /\
    c128_spec_values bits = Some (vals ++ [cs]) /\
    cs = c128_spec_checksum vals.
Proof.
  intros H r. pose proof (c128_encode_spec content) as S. cbv zeta in S.
  destruct (c128_accepts content) eqn:EA; [|congruence].
  apply c128_accepts_iff in EA. destruct EA as [E1 E2].
  split; [exact E1|]. split; [exact E2|].
  destruct S as [s [data [st [cs [bits [HE [HV [HC [_ [_ HD]]]]]]]]]].
  rewrite HE in H. injection H as <-.
  exists bits, cs, (s :: data). auto.
Qed.

Lemma c128_encode_nocs_roundtrip content bc :
  c128_encode_nocs content = Ok bc ->
  let r := c128_str_to_runes content in
  1 <= zlength r <= 80 /\
  forallb c128_in_alphabet r = true /\
  exists bits,
    bc = mk1d KCode128 content None bits /\
    c128_spec_decode false bits = Some r.
Proof.
  intros H r. pose proof (c128_encode_nocs_spec content) as S. cbv zeta in S.
  destruct (c128_accepts content) eqn:EA; [|congruence].
  apply c128_accepts_iff in EA. destruct EA as [E1 E2].
  split; [exact E1|]. split; [exact E2|].
  destruct S as [s [data [st [bits [HE [_ [_ [_ HD]]]]]]]].
  rewrite HE in H. injection H as <-.
  exists bits. auto.
Qed.

(* no input makes the model panic or run out of fuel *)
Lemma c128_encode_total content :
  ((exists bc, c128_encode content = Ok bc) \/ c128_encode content = Err) /\
  ((exists bc, c128_encode_nocs content = Ok bc) \/ c128_encode_nocs content = Err).
Proof.
  pose proof (c128_encode_spec content) as S1. pose proof (c128_encode_nocs_spec content) as S2.
  cbv zeta in S1, S2.
  destruct (c128_accepts content).
  - destruct S1 as [s [data [st [cs [bits [HE _]]]]]].
    destruct S2 as [s' [data' [st' [bits' [HE' _]]]]].
    split; left; eauto.
  - split; right; assumption.
Qed.

(* accepted exactly for 1..80 runes from ASCII 0..127 and FNC1..4; otherwise an error *)
Lemma c128_encode_acceptance content :
  let r := c128_str_to_runes content in
  let ok := 1 <= zlength r <= 80 /\ forallb c128_in_alphabet r = true in
  ((exists bc, c128_encode content = Ok bc) <-> ok) /\
  ((exists bc, c128_encode_nocs content = Ok bc) <-> ok) /\
  (~ ok -> c128_encode content = Err /\ c128_encode_nocs content = Err).
Proof.
  intros r ok.
  pose proof (c128_encode_spec content) as S1. pose proof (c128_encode_nocs_spec content) as S2.
  pose proof (c128_accepts_iff content) as HA. fold r in HA. fold ok in HA.
  cbv zeta in S1, S2.
  destruct (c128_accepts content).
  - assert ok as Hok by (apply HA; reflexivity).
    destruct S1 as [s [data [st [cs [bits [HE _]]]]]].
    destruct S2 as [s' [data' [st' [bits' [HE' _]]]]].
    split; [split; eauto|]. split; [split; eauto|]. tauto.
  - assert (~ ok) as Hno by (intros Hok; apply HA in Hok; discriminate).
    split; [split; [intros [bc Hbc]; congruence|tauto]|].
    split; [split; [intros [bc Hbc]; congruence|tauto]|]. auto.
Qed.

(* non-vacuity: a text that walks through B -> C -> B -> A with FNC1 inside a digit run *)
Definition c128_example_content : list Z :=
  [72; 105; 51; 52; 195; 177; 53; 54; 55; 56; 97; 1; 66].   (* "Hi34<FNC1>5678a<SOH>B" *)

Lemma c128_example_accepted :
  exists bc, c128_encode c128_example_content = Ok bc /\
             bc_width bc = 167 /\ bc_checksum bc = Some 71 /\
             c128_str_to_runes c128_example_content = [72; 105; 51; 52; 241; 53; 54; 55; 56; 97; 1; 66].
Proof. vm_compute. eexists. repeat split. Qed.

Lemma c128_example_nocs_accepted :
  exists bc, c128_encode_nocs c128_example_content = Ok bc /\ bc_width bc = 156 /\ bc_checksum bc = None.
Proof. vm_compute. eexists. repeat split. Qed.

Lemma c128_example_rejected :
  c128_encode [195; 164] = Err /\ c128_encode [] = Err /\ c128_encode (repeat 65 81) = Err /\
  c128_encode [255] = Err /\ exists bc, c128_encode (repeat 65 80) = Ok bc.
Proof. vm_compute. repeat split. eexists. reflexivity. Qed.

(* the reference decoder is not permissive: it rejects the example symbol when
   one module is flipped or when the check character is replaced, and it
   implements Shift (A: Shift 'a' then 'A'; B: Shift SOH then 'a') *)
Definition c128_example_bits : list bool :=
  match c128_encode c128_example_content with
  | Ok bc => concat (bc_rows bc)
  | _ => []
  end.

Lemma c128_spec_decoder_rejects :
  c128_spec_decode true c128_example_bits
    = Some [72; 105; 51; 52; 241; 53; 54; 55; 56; 97; 1; 66] /\
  c128_spec_decode false c128_example_bits <> Some [72; 105; 51; 52; 241; 53; 54; 55; 56; 97; 1; 66] /\
  c128_spec_decode true (firstn 40 c128_example_bits ++ [false] ++ skipn 41 c128_example_bits) = None /\
  c128_spec_decode true
    (firstn 143 c128_example_bits ++ c128_spec_pattern_of 212222 ++ skipn 154 c128_example_bits) = None /\
  c128_interp SetA false [98; 65; 33] = Some [97; 65] /\
  c128_interp SetB false [98; 65; 65] = Some [1; 97] /\
  c128_interp SetA false [98] = None.
Proof. vm_compute. repeat split; discriminate. Qed.
