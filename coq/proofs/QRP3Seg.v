(* QR layer 3b: the three mode encoders against the specification's segment
   parser (unbounded, by induction on the content):
     numeric_groups / the alphanumeric channel loop / byte mode produce exactly
     the data bits that parse_numeric / parse_alnum / parse_bytes map back to the
     content, for every content in the mode's alphabet -- and fail otherwise. *)
From Verif Require Import Prelude Barcode BitListM Utf8M TabQr QRMBits QRMBlocks QRMRender QRM QRSpec
  QRP1Tables QRP2Layout QRP3Bits.

Local Ltac Zify.zify_post_hook ::= Z.div_mod_to_equations.
#[local] Arguments Z.mul : simpl never.
#[local] Arguments Z.add : simpl never.
#[local] Arguments Z.sub : simpl never.
#[local] Arguments Z.div : simpl never.
#[local] Arguments Z.modulo : simpl never.
#[local] Arguments Z.pow : simpl never.
#[local] Arguments Z.of_nat : simpl never.
#[local] Arguments Z.to_nat : simpl never.
#[local] Arguments Z.testbit : simpl never.
#[local] Arguments msb_bits : simpl never.

(* induction in steps of three / two *)
Lemma list_ind3 {A} (P : list A -> Prop) :
  P [] -> (forall a, P [a]) -> (forall a b, P [a; b]) ->
  (forall a b c r, P r -> P (a :: b :: c :: r)) -> forall l, P l.
Proof.
  intros H0 H1 H2 H3.
  assert (forall n l, (length l <= n)%nat -> P l) as H.
  { induction n as [|n IH]; intros l Hl.
    - destruct l; [exact H0|cbn in Hl; lia].
    - destruct l as [|a [|b [|c r]]]; auto. apply H3. apply IH. cbn [length] in Hl. lia. }
  intros l. apply (H (length l)). lia.
Qed.

Lemma list_ind2 {A} (P : list A -> Prop) :
  P [] -> (forall a, P [a]) -> (forall a b r, P r -> P (a :: b :: r)) -> forall l, P l.
Proof.
  intros H0 H1 H2.
  assert (forall n l, (length l <= n)%nat -> P l) as H.
  { induction n as [|n IH]; intros l Hl.
    - destruct l; [exact H0|cbn in Hl; lia].
    - destruct l as [|a [|b r]]; auto. apply H2. apply IH. cbn [length] in Hl. lia. }
  intros l. apply (H (length l)). lia.
Qed.

(* ================= numeric ================= *)
Lemma is_digit_range c : is_digit c = true <-> 48 <= c <= 57.
Proof. unfold is_digit. lia. Qed.

Lemma decode_digits s : forallb is_digit (utf8_decode s) = forallb is_digit s.
Proof.
  unfold utf8_decode. apply forallb_utf8_decode; [|lia].
  intros r Hr. apply is_digit_range in Hr. lia.
Qed.

(* the data bits of a digit string *)
Fixpoint num_bits (s : list Z) : list bool :=
  match s with
  | [] => []
  | [a] => msb_bits 4 (a - 48)
  | [a; b] => msb_bits 7 (10 * (a - 48) + (b - 48))
  | a :: b :: c :: rest => msb_bits 10 (100 * (a - 48) + 10 * (b - 48) + (c - 48)) ++ num_bits rest
  end.

Lemma numeric_chunk_1 a :
  numeric_chunk [a] = if is_digit a then Ok (msb_bits 4 (a - 48)) else Err.
Proof.
  unfold numeric_chunk. rewrite decode_digits. cbn [forallb]. rewrite andb_true_r.
  destruct (is_digit a) eqn:Ea; [|reflexivity].
  apply is_digit_range in Ea.
  unfold go_atoi. replace ((a =? 45) || (a =? 43)) with false by lia.
  cbn [atoi_digits]. replace (is_digit a) with true by (symmetry; apply is_digit_range; lia).
  replace (0 * 10 + (a - 48)) with (a - 48) by lia.
  replace (a - 48 <? 0) with false by lia.
  replace (go_mod (zlength [a]) 3) with 1 by reflexivity.
  reflexivity.
Qed.

Lemma numeric_chunk_2 a b :
  numeric_chunk [a; b] =
  if is_digit a && is_digit b then Ok (msb_bits 7 (10 * (a - 48) + (b - 48))) else Err.
Proof.
  unfold numeric_chunk. rewrite decode_digits. cbn [forallb]. rewrite andb_true_r.
  destruct (is_digit a) eqn:Ea; [|reflexivity].
  destruct (is_digit b) eqn:Eb; [|reflexivity]. cbn [andb].
  apply is_digit_range in Ea. apply is_digit_range in Eb.
  unfold go_atoi. replace ((a =? 45) || (a =? 43)) with false by lia.
  cbn [atoi_digits].
  replace (is_digit a) with true by (symmetry; apply is_digit_range; lia).
  replace (is_digit b) with true by (symmetry; apply is_digit_range; lia).
  replace ((0 * 10 + (a - 48)) * 10 + (b - 48)) with (10 * (a - 48) + (b - 48)) by lia.
  replace (10 * (a - 48) + (b - 48) <? 0) with false by lia.
  replace (go_mod (zlength [a; b]) 3) with 2 by reflexivity.
  reflexivity.
Qed.

Lemma numeric_chunk_3 a b c :
  numeric_chunk [a; b; c] =
  if is_digit a && is_digit b && is_digit c
  then Ok (msb_bits 10 (100 * (a - 48) + 10 * (b - 48) + (c - 48))) else Err.
Proof.
  unfold numeric_chunk. rewrite decode_digits. cbn [forallb]. rewrite andb_true_r.
  destruct (is_digit a) eqn:Ea; [|reflexivity].
  destruct (is_digit b) eqn:Eb; [|reflexivity].
  destruct (is_digit c) eqn:Ec; [|reflexivity]. cbn [andb].
  apply is_digit_range in Ea. apply is_digit_range in Eb. apply is_digit_range in Ec.
  unfold go_atoi. replace ((a =? 45) || (a =? 43)) with false by lia.
  cbn [atoi_digits].
  replace (is_digit a) with true by (symmetry; apply is_digit_range; lia).
  replace (is_digit b) with true by (symmetry; apply is_digit_range; lia).
  replace (is_digit c) with true by (symmetry; apply is_digit_range; lia).
  replace (((0 * 10 + (a - 48)) * 10 + (b - 48)) * 10 + (c - 48))
    with (100 * (a - 48) + 10 * (b - 48) + (c - 48)) by lia.
  replace (100 * (a - 48) + 10 * (b - 48) + (c - 48) <? 0) with false by lia.
  replace (go_mod (zlength [a; b; c]) 3) with 0 by reflexivity.
  reflexivity.
Qed.

(* the loop of encodeNumeric succeeds exactly on digit strings *)
Theorem numeric_groups_spec s :
  numeric_groups s = if forallb is_digit s then Ok (num_bits s) else Err.
Proof.
  induction s as [| a | a b | a b c r IH] using list_ind3.
  - reflexivity.
  - cbn [numeric_groups]. rewrite numeric_chunk_1. cbn [forallb num_bits]. rewrite andb_true_r. reflexivity.
  - cbn [numeric_groups]. rewrite numeric_chunk_2. cbn [forallb num_bits]. rewrite andb_true_r. reflexivity.
  - cbn [numeric_groups]. rewrite numeric_chunk_3, IH. cbn [forallb num_bits].
    destruct (is_digit a), (is_digit b), (is_digit c); cbn [andb obind]; try reflexivity.
    destruct (forallb is_digit r); reflexivity.
Qed.

Lemma num_bits_length s :
  zlength (num_bits s) = spec_data_bits SNumeric (zlength s).
Proof.
  induction s as [| a | a b | a b c r IH] using list_ind3.
  - reflexivity.
  - reflexivity.
  - reflexivity.
  - cbn [num_bits]. rewrite zlength_app', zlength_msb_bits, IH.
    rewrite !zlength_cons. unfold spec_data_bits.
    pose proof (zlength_nonneg r).
    replace ((zlength r + 1 + 1 + 1) / 3) with (zlength r / 3 + 1) by lia.
    replace ((zlength r + 1 + 1 + 1) mod 3) with (zlength r mod 3) by lia.
    lia.
Qed.

(* the reader gets the digits back *)
Theorem parse_numeric_num_bits s : forallb is_digit s = true ->
  forall tail, parse_numeric (length s) (num_bits s ++ tail) = Some (s, tail).
Proof.
  induction s as [| a | a b | a b c r IH] using list_ind3; intros Hd tail.
  - reflexivity.
  - cbn [forallb] in Hd. rewrite andb_true_r in Hd. apply is_digit_range in Hd.
    cbn [length parse_numeric num_bits].
    rewrite read_int_msb by (change (2 ^ Z.of_nat 4) with 16; lia).
    replace (a - 48 <? 10) with true by lia. unfold digit. repeat f_equal. lia.
  - cbn [forallb] in Hd. rewrite andb_true_r in Hd. apply andb_true_iff in Hd.
    destruct Hd as [Ha Hb]. apply is_digit_range in Ha. apply is_digit_range in Hb.
    cbn [length parse_numeric num_bits].
    rewrite read_int_msb by (change (2 ^ Z.of_nat 7) with 128; lia).
    replace (10 * (a - 48) + (b - 48) <? 100) with true by lia. unfold digit.
    repeat f_equal; lia.
  - cbn [forallb] in Hd. apply andb_true_iff in Hd. destruct Hd as [Ha Hd].
    apply andb_true_iff in Hd. destruct Hd as [Hb Hd].
    apply andb_true_iff in Hd. destruct Hd as [Hc Hr].
    apply is_digit_range in Ha. apply is_digit_range in Hb. apply is_digit_range in Hc.
    cbn [length parse_numeric num_bits]. rewrite <- app_assoc.
    rewrite read_int_msb by (change (2 ^ Z.of_nat 10) with 1024; lia).
    replace (100 * (a - 48) + 10 * (b - 48) + (c - 48) <? 1000) with true by lia.
    rewrite IH by exact Hr. unfold digit. repeat f_equal; lia.
Qed.

(* ================= alphanumeric ================= *)
Definition cs_idx (c : Z) : Z := index_byte qr_charset c 0.

(* c is a character of the set *)
Definition in_cs (c : Z) : bool := 0 <=? cs_idx c.

Lemma index_byte_spec cs c : forall i,
  (index_byte cs c i = -1 /\ ~ In c cs)
  \/ (i <= index_byte cs c i < i + zlength cs
      /\ nth (Z.to_nat (index_byte cs c i - i)) cs 0 = c).
Proof.
  induction cs as [|x cs IH]; intros i; cbn [index_byte].
  - left. split; [reflexivity|intros []].
  - destruct (x =? c) eqn:E.
    + right. rewrite zlength_cons. pose proof (zlength_nonneg cs). split; [lia|].
      replace (i - i) with 0 by lia. change (Z.to_nat 0) with 0%nat. cbn [nth]. lia.
    + destruct (IH (i + 1)) as [[H1 H2]|[H1 H2]].
      * left. split; [exact H1|]. intros [Hx|Hin]; [lia|contradiction].
      * right. rewrite zlength_cons. split; [lia|].
        replace (Z.to_nat (index_byte cs c (i + 1) - i)) with (S (Z.to_nat (index_byte cs c (i + 1) - (i + 1)))) by lia.
        cbn [nth]. exact H2.
Qed.

Lemma charset_ascii : Forall (fun c => 0 <= c < 128) qr_charset.
Proof. repeat constructor; lia. Qed.

Lemma charset_length : zlength qr_charset = 45.
Proof. reflexivity. Qed.

Lemma in_cs_spec c : in_cs c = true ->
  0 <= c < 128 /\ 0 <= cs_idx c < 45 /\ alnum_char (cs_idx c) = c.
Proof.
  unfold in_cs, cs_idx. intros H.
  destruct (index_byte_spec qr_charset c 0) as [[H1 _]|[H1 H2]]; [lia|].
  rewrite charset_length in H1. replace (index_byte qr_charset c 0 - 0) with (index_byte qr_charset c 0) in H2 by lia.
  assert (In c qr_charset) as Hin.
  { rewrite <- H2. apply nth_In. change (length qr_charset) with 45%nat. lia. }
  pose proof charset_ascii as Ha. rewrite Forall_forall in Ha. specialize (Ha c Hin).
  split; [exact Ha|]. split; [lia|].
  unfold alnum_char. rewrite <- qr_charset_iso. exact H2.
Qed.

Lemma in_cs_iso c : in_cs c = existsb (Z.eqb c) iso_alnum.
Proof.
  unfold in_cs, cs_idx. rewrite <- qr_charset_iso.
  destruct (index_byte_spec qr_charset c 0) as [[H1 H2]|[H1 H2]].
  - rewrite H1. symmetry. destruct (existsb (Z.eqb c) qr_charset) eqn:E; [|reflexivity].
    apply existsb_exists in E. destruct E as (x & Hx & Hc). assert (x = c) by lia. subst. contradiction.
  - replace (0 <=? index_byte qr_charset c 0) with true by lia. symmetry.
    apply existsb_exists. exists c. split; [|lia].
    replace (index_byte qr_charset c 0 - 0) with (index_byte qr_charset c 0) in H2 by lia.
    rewrite <- H2. apply nth_In. rewrite charset_length in H1. change (length qr_charset) with 45%nat. lia.
Qed.

Lemma index_rune_ascii c : 0 <= c < 128 -> index_rune qr_charset c = cs_idx c.
Proof. intros H. unfold index_rune, cs_idx. replace ((0 <=? c) && (c <? 128)) with true by lia. reflexivity. Qed.

Lemma index_rune_neg_or c : in_cs c = false -> forall r, (r = c \/ 128 <= r) -> index_rune qr_charset r < 0.
Proof.
  intros Hc r [->|Hr].
  - unfold index_rune. destruct ((0 <=? c) && (c <? 128)) eqn:E; [|lia].
    unfold in_cs, cs_idx in Hc. lia.
  - unfold index_rune. replace ((0 <=? r) && (r <? 128)) with false by lia. lia.
Qed.

(* the channel for a content whose characters are all in the set *)
Lemma alpha_channel_good s : forallb in_cs s = true ->
  alpha_channel (utf8_decode s) = map cs_idx s.
Proof.
  intros H.
  assert (forallb (fun b => utf8_in 0 127 b) s = true) as Ha.
  { apply forallb_forall. intros c Hc. rewrite forallb_forall in H. specialize (H c Hc).
    apply in_cs_spec in H. unfold utf8_in. lia. }
  unfold utf8_decode. rewrite utf8_decode_fuel_ascii by (exact Ha || lia).
  clear Ha. induction s as [|c s IH]; [reflexivity|].
  cbn [forallb] in H. apply andb_true_iff in H. destruct H as [Hc Hs].
  cbn [alpha_channel map]. pose proof (in_cs_spec c Hc) as (Hr & Hi & _).
  rewrite index_rune_ascii by lia. replace (cs_idx c <? 0) with false by lia.
  rewrite IH by exact Hs. reflexivity.
Qed.

(* ... and for a content with a character outside: some good indices, then a negative one *)
Lemma alpha_channel_bad : forall f s, (length s <= f)%nat -> forallb in_cs s = false ->
  exists good neg, alpha_channel (utf8_decode_fuel f s) = good ++ [neg] /\ neg < 0
    /\ Forall (fun g => 0 <= g) good /\ (length good < length s)%nat.
Proof.
  induction f as [|f IH]; intros s Hs Hbad.
  - destruct s; [discriminate|cbn in Hs; lia].
  - destruct s as [|b rest]; [discriminate|]. cbn [utf8_decode_fuel].
    cbn [forallb] in Hbad.
    destruct (utf8_decode1_cases b rest) as [[Ha E]|[Ha (r & rest' & E & Hr & Hl)]]; rewrite E.
    + cbn [alpha_channel]. unfold utf8_in in Ha.
      rewrite index_rune_ascii by lia.
      destruct (in_cs b) eqn:Eb.
      * cbn [andb] in Hbad. pose proof (in_cs_spec b Eb) as (_ & Hi & _).
        replace (cs_idx b <? 0) with false by lia.
        destruct (IH rest ltac:(cbn in Hs; lia) Hbad) as (good & neg & E2 & Hn & Hg & Hlen).
        exists (cs_idx b :: good), neg. rewrite E2. split; [reflexivity|]. split; [exact Hn|].
        split; [constructor; [lia|exact Hg]|cbn [length]; lia].
      * unfold in_cs in Eb. replace (cs_idx b <? 0) with true by lia.
        exists [], (cs_idx b). split; [reflexivity|]. split; [lia|]. split; [constructor|cbn; lia].
    + cbn [alpha_channel].
      assert (in_cs b = false) as Eb.
      { destruct (in_cs b) eqn:Eb; [|reflexivity]. apply in_cs_spec in Eb. unfold utf8_in in Ha. lia. }
      pose proof (index_rune_neg_or b Eb r (or_intror Hr)) as Hneg.
      replace (index_rune qr_charset r <? 0) with true by lia.
      exists [], (index_rune qr_charset r). split; [reflexivity|]. split; [lia|].
      split; [constructor|cbn; lia].
Qed.

(* the data bits of an alphanumeric string *)
Fixpoint alnum_bits (s : list Z) : list bool :=
  match s with
  | [] => []
  | [a] => msb_bits 6 (cs_idx a)
  | a :: b :: rest => msb_bits 11 (cs_idx a * 45 + cs_idx b) ++ alnum_bits rest
  end.

(* the two receive loops of encodeAlphaNumeric, as one expression *)
Definition alnum_stage (content : list Z) : outcome (list bool) :=
  let n := zlength content in
  let odd := go_mod n 2 =? 1 in
  let ch := alpha_channel (utf8_decode content) in
  do (pairs, ch') <- alpha_pairs (Z.to_nat (go_div n 2)) ch;
  do last <- (if odd then
                let '(c, _) := recv ch' in
                if c <? 0 then Err else Ok (msb_bits 6 c)
              else Ok []);
  Ok (pairs ++ last).

Lemma alpha_pairs_err neg : neg < 0 -> forall m good, Forall (fun g => 0 <= g) good ->
  (length good < 2 * m)%nat -> alpha_pairs m (good ++ [neg]) = Err.
Proof.
  intros Hn. induction m as [|m IH]; intros good Hg Hl; [lia|].
  cbn [alpha_pairs]. destruct good as [|g1 [|g2 good]].
  - cbn [app recv]. replace (neg <? 0) with true by lia. reflexivity.
  - cbn [app recv]. replace (neg <? 0) with true by lia. rewrite orb_true_r. reflexivity.
  - cbn [app recv]. inversion Hg as [|? ? H1 Hg']; subst. inversion Hg' as [|? ? H2 Hg'']; subst.
    replace (g1 <? 0) with false by lia. replace (g2 <? 0) with false by lia. cbn [orb].
    rewrite IH by (exact Hg'' || (cbn [length] in Hl; lia)). reflexivity.
Qed.

(* on good indices the pair loop consumes 2m of them *)
Lemma alpha_pairs_ok : forall m (s : list Z) (rest : list Z), length s = (2 * m)%nat ->
  forallb in_cs s = true ->
  alpha_pairs m (map cs_idx s ++ rest) = Ok (alnum_bits s, rest).
Proof.
  induction m as [|m IH]; intros s rest Hl Hs.
  - destruct s; [reflexivity|cbn in Hl; lia].
  - destruct s as [|a [|b s]]; try (cbn in Hl; lia).
    cbn [forallb] in Hs. apply andb_true_iff in Hs. destruct Hs as [Ha Hs].
    apply andb_true_iff in Hs. destruct Hs as [Hb Hs].
    pose proof (in_cs_spec a Ha) as (_ & Hia & _). pose proof (in_cs_spec b Hb) as (_ & Hib & _).
    cbn [map app alpha_pairs recv].
    replace (cs_idx a <? 0) with false by lia. replace (cs_idx b <? 0) with false by lia. cbn [orb].
    rewrite IH by (exact Hs || (cbn [length] in Hl; lia)). cbn [obind alnum_bits].
    destruct s; reflexivity.
Qed.

Lemma alnum_bits_snoc : forall m (s : list Z) a, length s = (2 * m)%nat ->
  alnum_bits (s ++ [a]) = alnum_bits s ++ msb_bits 6 (cs_idx a).
Proof.
  induction m as [|m IH]; intros s a Hl.
  - destruct s; [reflexivity|cbn in Hl; lia].
  - destruct s as [|x [|y s]]; try (cbn in Hl; lia).
    cbn [app alnum_bits]. rewrite IH by (cbn [length] in Hl; lia).
    destruct (s ++ [a]) eqn:E; [destruct s; discriminate|].
    rewrite <- app_assoc. destruct s; reflexivity.
Qed.

Lemma split_last_even (s : list Z) : (length s mod 2 = 1)%nat ->
  exists s' a, s = s' ++ [a] /\ length s' = (2 * (length s / 2))%nat.
Proof.
  intros H. destruct (exists_last (l := s)) as (s' & a & E).
  { destruct s; [cbn in H; discriminate|discriminate]. }
  exists s', a. split; [exact E|]. subst. rewrite app_length in *. cbn [length] in *.
  zify. lia.
Qed.

(* the loops of encodeAlphaNumeric succeed exactly on strings over the character set *)
Theorem alnum_stage_spec s :
  alnum_stage s = if forallb in_cs s then Ok (alnum_bits s) else Err.
Proof.
  unfold alnum_stage. pose proof (zlength_nonneg s) as Hn.
  rewrite go_div_pos, go_mod_pos by lia.
  assert (Hm : Z.to_nat (zlength s / 2) = (length s / 2)%nat).
  { unfold zlength. zify. lia. }
  rewrite Hm.
  destruct (forallb in_cs s) eqn:Hs.
  - rewrite alpha_channel_good by exact Hs.
    destruct (zlength s mod 2 =? 1) eqn:Eodd.
    + destruct (split_last_even s) as (s' & a & E & Hl').
      { unfold zlength in Eodd. zify. lia. }
      subst s. rewrite map_app.
      assert (forallb in_cs s' = true /\ in_cs a = true) as [Hs' Ha].
      { rewrite forallb_app in Hs. apply andb_true_iff in Hs. cbn in Hs.
        rewrite andb_true_r in Hs. exact Hs. }
      rewrite alpha_pairs_ok by (exact Hl' || exact Hs'). cbn [obind map recv].
      pose proof (in_cs_spec a Ha) as (_ & Hia & _).
      replace (cs_idx a <? 0) with false by lia. cbn [obind].
      rewrite (alnum_bits_snoc (length (s' ++ [a]) / 2)) by exact Hl'. reflexivity.
    + rewrite <- (app_nil_r (map cs_idx s)).
      rewrite alpha_pairs_ok by (exact Hs || (unfold zlength in Eodd; zify; lia)).
      cbn [obind]. rewrite app_nil_r. reflexivity.
  - destruct (alpha_channel_bad (length s) s ltac:(lia) Hs) as (good & neg & E & Hneg & Hg & Hl).
    unfold utf8_decode. rewrite E.
    destruct (Nat.lt_ge_cases (length good) (2 * (length s / 2))) as [Hlt|Hge].
    + rewrite alpha_pairs_err by assumption. reflexivity.
    + (* all pairs are good; the content has odd length and its last character is bad *)
      assert (length good = (2 * (length s / 2))%nat /\ zlength s mod 2 = 1) as [Hgl Hodd].
      { unfold zlength. zify. lia. }
      assert (forall m (g : list Z) rest, length g = (2 * m)%nat -> Forall (fun x => 0 <= x) g ->
                exists bits, alpha_pairs m (g ++ rest) = Ok (bits, rest)) as Hok.
      { clear. induction m as [|m IH]; intros g rest Hl Hg.
        - destruct g; [exists []; reflexivity|cbn in Hl; lia].
        - destruct g as [|g1 [|g2 g]]; try (cbn in Hl; lia).
          inversion Hg as [|? ? H1 Hg']; subst. inversion Hg' as [|? ? H2 Hg'']; subst.
          destruct (IH g rest ltac:(cbn [length] in Hl; lia) Hg'') as (bits & Eb).
          cbn [app alpha_pairs recv].
          replace (g1 <? 0) with false by lia. replace (g2 <? 0) with false by lia. cbn [orb].
          rewrite Eb. cbn [obind]. eexists; reflexivity. }
      destruct (Hok (length s / 2)%nat good [neg] Hgl Hg) as (bits & Eb).
      rewrite Eb. cbn [obind recv]. replace (zlength s mod 2 =? 1) with true by lia.
      replace (neg <? 0) with true by lia. reflexivity.
Qed.

Lemma alnum_bits_length s :
  zlength (alnum_bits s) = spec_data_bits SAlnum (zlength s).
Proof.
  induction s as [| a | a b r IH] using list_ind2.
  - reflexivity.
  - reflexivity.
  - cbn [alnum_bits]. rewrite zlength_app', zlength_msb_bits, IH.
    rewrite !zlength_cons. unfold spec_data_bits. pose proof (zlength_nonneg r).
    replace ((zlength r + 1 + 1) / 2) with (zlength r / 2 + 1) by lia.
    replace ((zlength r + 1 + 1) mod 2) with (zlength r mod 2) by lia.
    destruct r; lia.
Qed.

Theorem parse_alnum_alnum_bits s : forallb in_cs s = true ->
  forall tail, parse_alnum (length s) (alnum_bits s ++ tail) = Some (s, tail).
Proof.
  induction s as [| a | a b r IH] using list_ind2; intros Hs tail.
  - reflexivity.
  - cbn [forallb] in Hs. rewrite andb_true_r in Hs.
    pose proof (in_cs_spec a Hs) as (_ & Hi & Hc).
    cbn [length parse_alnum alnum_bits].
    rewrite read_int_msb by (change (2 ^ Z.of_nat 6) with 64; lia).
    replace (cs_idx a <? 45) with true by lia. rewrite Hc. reflexivity.
  - cbn [forallb] in Hs. apply andb_true_iff in Hs. destruct Hs as [Ha Hs].
    apply andb_true_iff in Hs. destruct Hs as [Hb Hr].
    pose proof (in_cs_spec a Ha) as (_ & Hia & Hca). pose proof (in_cs_spec b Hb) as (_ & Hib & Hcb).
    cbn [length parse_alnum]. cbn [alnum_bits].
    rewrite <- app_assoc.
    rewrite read_int_msb by (change (2 ^ Z.of_nat 11) with 2048; lia).
    replace (cs_idx a * 45 + cs_idx b <? 2025) with true by lia.
    rewrite IH by exact Hr.
    replace ((cs_idx a * 45 + cs_idx b) / 45) with (cs_idx a) by lia.
    replace ((cs_idx a * 45 + cs_idx b) mod 45) with (cs_idx b) by lia.
    rewrite Hca, Hcb. reflexivity.
Qed.

(* ================= byte ================= *)
Lemma byte_bits_length s : zlength (flat_map (msb_bits 8) s) = spec_data_bits SByte (zlength s).
Proof.
  induction s as [|c s IH]; [reflexivity|].
  cbn [flat_map]. rewrite zlength_app', zlength_msb_bits, IH, zlength_cons. unfold spec_data_bits. lia.
Qed.

Theorem parse_bytes_bits s : Forall (fun c => 0 <= c < 256) s ->
  forall tail, parse_bytes (length s) (flat_map (msb_bits 8) s ++ tail) = Some (s, tail).
Proof.
  intros H. induction H as [|c s Hc H IH]; intros tail; [reflexivity|].
  cbn [length parse_bytes flat_map]. rewrite <- app_assoc.
  rewrite read_int_msb by (change (2 ^ Z.of_nat 8) with 256; lia).
  rewrite IH. reflexivity.
Qed.
