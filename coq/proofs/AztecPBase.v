(* Shared helper lemmas of the Aztec (C03) proofs: ranges, bit strings. *)
From Verif Require Import Prelude BitListM GFM TabAztec AztecM AztecSpec.
Local Ltac Zify.zify_post_hook ::= Z.div_mod_to_equations.

(* ---------- zseq ---------- *)
Lemma in_zseq x : forall n s, In x (zseq s n) <-> s <= x < s + Z.of_nat n.
Proof.
  induction n as [|n IH]; intros s; simpl.
  - split; [tauto | lia].
  - rewrite IH. split; [intros [->|H]; lia | intros H].
    destruct (Z.eq_dec s x); [left; auto | right; lia].
Qed.

Lemma zseq_length : forall n s, length (zseq s n) = n.
Proof. induction n; intros; simpl; auto. Qed.

Lemma nth_zseq : forall n s i d, (i < n)%nat -> nth i (zseq s n) d = s + Z.of_nat i.
Proof.
  induction n as [|n IH]; intros s i d H; [lia|].
  destruct i as [|i]; simpl; [lia|]. rewrite IH by lia. lia.
Qed.

Lemma forallb_zseq (f : Z -> bool) s n :
  forallb f (zseq s n) = true -> forall x, s <= x < s + Z.of_nat n -> f x = true.
Proof. intros H x Hx. rewrite forallb_forall in H. apply H, in_zseq, Hx. Qed.

(* ---------- modes ---------- *)
Definition mode_of (m : Z) : smode :=
  if m =? 0 then SUpper else if m =? 1 then SLower else if m =? 2 then SDigit
  else if m =? 3 then SMixed else SPunct.

Definition all_modes : list Z := [0; 1; 2; 3; 4].

Lemma in_all_modes m : 0 <= m <= 4 -> In m all_modes.
Proof. intros H. unfold all_modes. simpl. lia. Qed.

Lemma all_modes_range m : In m all_modes -> 0 <= m <= 4.
Proof. unfold all_modes; simpl; lia. Qed.

(* ---------- bit strings ---------- *)
Lemma msb_bits_length : forall k v, length (msb_bits k v) = k.
Proof. induction k; intros; simpl; auto. Qed.

Lemma az_bits_val_eq : forall l acc, az_bits_val l acc = sp_val l acc.
Proof. induction l; intros; simpl; auto. Qed.

Lemma sp_val_app : forall a b acc, sp_val (a ++ b) acc = sp_val b (sp_val a acc).
Proof. induction a; intros; simpl; auto. Qed.

Lemma sp_val_acc : forall l acc, sp_val l acc = acc * 2 ^ Z.of_nat (length l) + sp_val l 0.
Proof.
  induction l as [|b t IH]; intros acc.
  - simpl. lia.
  - cbn [sp_val length]. rewrite IH. rewrite (IH (2 * 0 + _)).
    rewrite Nat2Z.inj_succ, Z.pow_succ_r by lia. lia.
Qed.

Lemma sp_val_range : forall l, 0 <= sp_val l 0 < 2 ^ Z.of_nat (length l).
Proof.
  induction l as [|b t IH].
  - simpl. lia.
  - cbn [sp_val length]. rewrite sp_val_acc.
    rewrite Nat2Z.inj_succ, Z.pow_succ_r by lia. destruct b; lia.
Qed.

Lemma testbit_b2z v j : 0 <= j -> (if Z.testbit v j then 1 else 0) = (v / 2 ^ j) mod 2.
Proof.
  intros Hj. rewrite <- Z.testbit_spec' by lia. destruct (Z.testbit v j); reflexivity.
Qed.

(* reading back the k low bits *)
Lemma sp_val_msb_bits : forall k v acc,
  sp_val (msb_bits k v) acc = acc * 2 ^ Z.of_nat k + v mod 2 ^ Z.of_nat k.
Proof.
  induction k as [|j IH]; intros v acc.
  - simpl. rewrite Z.mod_1_r. lia.
  - cbn [msb_bits sp_val]. rewrite IH.
    rewrite testbit_b2z by lia.
    rewrite Nat2Z.inj_succ, Z.pow_succ_r by lia.
    assert (Hp : 0 < 2 ^ Z.of_nat j) by (apply Z.pow_pos_nonneg; lia).
    rewrite (Z.mul_comm 2 (2 ^ Z.of_nat j)).
    rewrite (Z.rem_mul_r v (2 ^ Z.of_nat j) 2) by lia. lia.
Qed.

Lemma sp_val_msb_bits_small k v : 0 <= v < 2 ^ Z.of_nat k -> sp_val (msb_bits k v) 0 = v.
Proof. intros H. rewrite sp_val_msb_bits. rewrite Z.mod_small by lia. lia. Qed.

(* and the other way round: the bits of the value of a bit string *)
Lemma msb_bits_mod : forall k v, msb_bits k (v mod 2 ^ Z.of_nat k) = msb_bits k v.
Proof.
  intros k v.
  assert (H : forall j, (j <= k)%nat -> msb_bits j (v mod 2 ^ Z.of_nat k) = msb_bits j v).
  { induction j as [|j IH]; intros Hj; [reflexivity|].
    cbn [msb_bits]. rewrite IH by lia. f_equal.
    apply Z.mod_pow2_bits_low. lia. }
  apply H. lia.
Qed.

Lemma msb_bits_sp_val : forall l, msb_bits (length l) (sp_val l 0) = l.
Proof.
  induction l as [|b t IH]; [reflexivity|].
  cbn [length msb_bits sp_val]. rewrite sp_val_acc.
  pose proof (sp_val_range t) as Hr.
  set (k := Z.of_nat (length t)) in *.
  assert (Hp : 0 < 2 ^ k) by (apply Z.pow_pos_nonneg; lia).
  f_equal.
  - assert (Hb : (if Z.testbit ((2 * 0 + (if b then 1 else 0)) * 2 ^ k + sp_val t 0) k then 1 else 0)
                 = (if b then 1 else 0)).
    { rewrite testbit_b2z by lia.
      rewrite Z.div_add_l by lia. rewrite (Z.div_small (sp_val t 0)) by lia.
      destruct b; reflexivity. }
    destruct (Z.testbit _ k), b; try reflexivity; discriminate.
  - rewrite <- (msb_bits_mod (length t)). fold k.
    replace (((2 * 0 + (if b then 1 else 0)) * 2 ^ k + sp_val t 0) mod 2 ^ k) with (sp_val t 0).
    + exact IH.
    + rewrite Z.add_comm, Z.mod_add by lia. rewrite Z.mod_small by lia. reflexivity.
Qed.

Lemma msb_bits_zero : forall k, msb_bits k 0 = repeat false k.
Proof. induction k; simpl; auto. rewrite Z.testbit_0_l. f_equal; auto. Qed.

(* ---------- outcome helpers ---------- *)
Lemma obind_ok {A B} (o : outcome A) (f : A -> outcome B) b :
  obind o f = Ok b -> exists a, o = Ok a /\ f a = Ok b.
Proof. destruct o; simpl; intros H; try discriminate. eauto. Qed.
