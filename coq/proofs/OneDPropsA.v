(* Small lemmas about the EAN, Codabar and 2-of-5 models for the cross-cutting
   property files (C10 acceptance/no panic, C11 metadata and bounds, C14 check
   sums).  Everything is derived from EanP, CodabarP and TwoOfFiveP. *)
From Verif Require Import Prelude Barcode
  EanM EanSpec EanP CodabarM CodabarSpec CodabarP TwoOfFiveM TwoOfFiveSpec TwoOfFiveP.

(* ---------- C10: Ok or Err, never Panic / OutOfFuel; Ok iff representable ---------- *)
Lemma ean_c10 : forall s,
  (ean_encode s = Err \/ exists bc, ean_encode s = Ok bc)
  /\ ean_encode s <> Panic /\ ean_encode s <> OutOfFuel
  /\ ((exists bc, ean_encode s = Ok bc) <-> ean_representable s = true)
  /\ (ean_representable s = false -> ean_encode s = Err).
Proof.
  intros s. destruct (ean_representable s) eqn:R.
  - destruct (ean_complete s R) as [bc E]. rewrite E.
    repeat split; try discriminate; eauto.
  - rewrite (ean_reject s R).
    repeat split; try discriminate; auto. intros [bc E]; discriminate.
Qed.

Lemma codabar_c10 : forall s,
  (codabar_encode s = Err \/ exists bc, codabar_encode s = Ok bc)
  /\ codabar_encode s <> Panic /\ codabar_encode s <> OutOfFuel
  /\ ((exists bc, codabar_encode s = Ok bc) <-> codabar_representable s = true)
  /\ (codabar_representable s = false -> codabar_encode s = Err).
Proof.
  intros s. destruct (codabar_representable s) eqn:R.
  - destruct (codabar_accept s R) as (bits & E & _). rewrite E.
    repeat split; try discriminate; eauto.
  - rewrite (codabar_reject s R).
    repeat split; try discriminate; auto. intros [bc E]; discriminate.
Qed.

Lemma tof_c10 : forall s interleaved,
  (tof_encode s interleaved = Err \/ exists bc, tof_encode s interleaved = Ok bc)
  /\ tof_encode s interleaved <> Panic /\ tof_encode s interleaved <> OutOfFuel
  /\ ((exists bc, tof_encode s interleaved = Ok bc) <-> tof_representable interleaved s = true)
  /\ (tof_representable interleaved s = false -> tof_encode s interleaved = Err).
Proof.
  intros s i. destruct (tof_representable i s) eqn:R.
  - destruct (tof_complete s i R) as [bc E]. rewrite E.
    repeat split; try discriminate; eauto.
  - rewrite (tof_reject s i R).
    repeat split; try discriminate; auto. intros [bc E]; discriminate.
Qed.

Lemma tofcs_c10 : forall s,
  (tof_add_checksum s = Err \/ exists r, tof_add_checksum s = Ok r)
  /\ tof_add_checksum s <> Panic /\ tof_add_checksum s <> OutOfFuel
  /\ ((exists r, tof_add_checksum s = Ok r) <-> tofcs_representable s = true)
  /\ (tofcs_representable s = false -> tof_add_checksum s = Err).
Proof.
  intros s. destruct (tofcs_representable s) eqn:R.
  - destruct (tof_add_checksum_complete s R) as [r E]. rewrite E.
    repeat split; try discriminate; eauto.
  - rewrite (tof_add_checksum_reject s R).
    repeat split; try discriminate; auto. intros [r E]; discriminate.
Qed.

(* ---------- C11: kind, one row whose width is the module count, height 1, content ---------- *)
Lemma ean_c11 : forall s bc, ean_encode s = Ok bc ->
  let full := ean_full_number s in
  bc_kind bc = (if (length full =? 8)%nat then KEAN8 else KEAN13)
  /\ bc_content bc = chars_of full
  /\ bc_height bc = 1
  /\ exists bits, bc_rows bc = [bits] /\ bc_width bc = zlength bits
       /\ length bits = (if (length full =? 8)%nat then 67%nat else 95%nat).
Proof.
  intros s bc H full. destruct (ean_sound s bc H) as (_ & K & C & _ & Hh & bits & R & W & L & _).
  repeat split; auto. exists bits. auto.
Qed.

Lemma codabar_c11 : forall s bc, codabar_encode s = Ok bc ->
  bc_kind bc = KCodabar /\ bc_content bc = s /\ bc_height bc = 1
  /\ exists bits, bc_rows bc = [bits] /\ bc_width bc = zlength bits.
Proof.
  intros s bc H. destruct (codabar_sound s bc H) as (_ & K & C & _ & Hh & bits & R & W & _).
  repeat split; auto. exists bits. auto.
Qed.

Lemma tof_c11 : forall s interleaved bc, tof_encode s interleaved = Ok bc ->
  bc_kind bc = (if interleaved then K2of5I else K2of5) /\ bc_content bc = s /\ bc_height bc = 1
  /\ exists bits, bc_rows bc = [bits] /\ bc_width bc = zlength bits.
Proof.
  intros s i bc H. destruct (tof_sound s i bc H) as (_ & K & C & _ & Hh & bits & R & W & _).
  repeat split; auto. exists bits. auto.
Qed.

(* ---------- C14: CheckSum() is the last digit of Content(), whichever of the four
   accepted input lengths (7, 8, 12, 13) was given ---------- *)
Lemma ean_c14 : forall s bc, ean_encode s = Ok bc ->
  (length s = 7 \/ length s = 8 \/ length s = 12 \/ length s = 13)%nat
  /\ exists d, bc_checksum bc = Some d /\ 0 <= d <= 9
       /\ last (bc_content bc) 0 = 48 + d
       /\ exists data, bc_content bc = chars_of (data ++ [d]) /\ d = gs1_check data.
Proof.
  intros s bc H. destruct (ean_sound s bc H) as (Rep & _ & C & Cs & _).
  destruct (ean_representable_cases s Rep) as (data & Hd & Hl & Hf & Hs).
  rewrite Hf in C, Cs. rewrite last_last in Cs.
  split.
  - destruct Hs as [-> | ->]; rewrite chars_of_length; [|rewrite app_length; cbn [length]]; lia.
  - exists (gs1_check data). split; [exact Cs|]. split; [apply gs1_check_range|]. split.
    + rewrite C, chars_of_snoc, last_last. reflexivity.
    + exists data. auto.
Qed.

(* AddCheckSum: the appended character is the digit completing the weighted sum *)
Lemma tofcs_c14 : forall s r, tof_add_checksum s = Ok r ->
  exists d, r = s ++ [48 + d] /\ 0 <= d <= 9
    /\ (tof_weighted_sum (map digit_val s) + d) mod 10 = 0.
Proof.
  intros s r H. destruct (tof_add_checksum_sound s r H) as (_ & d & E & Hok).
  exists d. split; [exact E|]. unfold tof_check_ok in Hok. lia.
Qed.
