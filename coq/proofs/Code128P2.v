(* Code 128, part 2: the symbol value list chosen by getCodeIndexList is read
   back by the reference interpretation as exactly the rune list (induction
   generalised over the current code set, for rune lists of every length). *)
From Verif Require Import Prelude Barcode TabCode128 Code128M Code128Spec Code128P1.

Local Ltac Zify.zify_post_hook ::= Z.div_mod_to_equations.

(* the model's curEncoding values *)
Definition c128_valid_cur (cur : Z) : Prop := cur = 0 \/ cur = 103 \/ cur = 104 \/ cur = 105.

Definition c128_set_of (cur : Z) : c128_set :=
  if cur =? 103 then SetA else if cur =? 104 then SetB else SetC.

(* reading of a value list produced from state cur: with cur = 0 the list
   begins with the start character (or is empty: nothing was encoded yet) *)
Definition c128_dec (cur : Z) (vals : list Z) : option (list Z) :=
  if cur =? 0 then
    match vals with
    | [] => Some []
    | s :: data =>
      match c128_start_set s with
      | Some st => c128_interp st false data
      | None => None
      end
    end
  else c128_interp (c128_set_of cur) false vals.

Lemma c128_dec_switch cur target code vs :
  c128_valid_cur cur ->
  (target = 105 /\ code = 99) \/ (target = 103 /\ code = 101) \/ (target = 104 /\ code = 100) ->
  c128_dec cur (c128_switch cur target code ++ vs) = c128_interp (c128_set_of target) false vs.
Proof.
  intros Hc Ht.
  destruct Hc as [Hc|[Hc|[Hc|Hc]]]; destruct Ht as [[Ht1 Ht2]|[[Ht1 Ht2]|[Ht1 Ht2]]]; subst; reflexivity.
Qed.

Lemma c128_dec_nonzero cur vals : cur = 103 \/ cur = 104 \/ cur = 105 ->
  c128_dec cur vals = c128_interp (c128_set_of cur) false vals.
Proof. intros [H|[H|H]]; subst; reflexivity. Qed.

Lemma c128_interp_data s v rs vs o :
  c128_meaning_of s v = MData rs ->
  c128_interp s false vs = Some o ->
  c128_interp s false (v :: vs) = Some (rs ++ o).
Proof. intros Hm Hi. cbn [c128_interp]. rewrite Hm, Hi. reflexivity. Qed.

(* ---------- one step of getCodeIndexList, by branch ---------- *)
Lemma c128_step_c_fnc1 t cur :
  c128_should_use_c (c128_FNC1 :: t) cur = Ok true ->
  c128_index_list (c128_FNC1 :: t) cur =
  (do rest <- c128_index_list t c128_startC;
   Ok (option_map (fun vs => c128_switch cur c128_startC c128_codeC ++ 102 :: vs) rest)).
Proof.
  intros H. cbn [c128_index_list]. rewrite H. cbn [obind].
  rewrite Z.eqb_refl. reflexivity.
Qed.

Lemma c128_step_c_pair d1 d2 t2 cur :
  c128_should_use_c (d1 :: d2 :: t2) cur = Ok true -> 48 <= d1 <= 57 ->
  c128_index_list (d1 :: d2 :: t2) cur =
  (do rest <- c128_index_list t2 c128_startC;
   Ok (option_map (fun vs => c128_switch cur c128_startC c128_codeC
                               ++ c128_byte ((d1 - 48) * 10 + (d2 - 48)) :: vs) rest)).
Proof.
  intros H Hd. cbn [c128_index_list]. rewrite H. cbn [obind].
  replace (d1 =? c128_FNC1) with false by (unfold c128_FNC1; lia). reflexivity.
Qed.

Lemma c128_step_a r t cur :
  c128_should_use_c (r :: t) cur = Ok false ->
  c128_should_use_a (r :: t) cur = Ok true ->
  c128_index_list (r :: t) cur =
  (if c128_ab_index c128_aTable 101 r <? 0 then Ok None else
   do rest <- c128_index_list t c128_startA;
   Ok (option_map (fun vs => c128_switch cur c128_startA c128_codeA
                               ++ c128_byte (c128_ab_index c128_aTable 101 r) :: vs) rest)).
Proof.
  intros Hc Ha. cbn [c128_index_list]. rewrite Hc. cbn [obind]. rewrite Ha. cbn [obind]. reflexivity.
Qed.

Lemma c128_step_b r t cur :
  c128_should_use_c (r :: t) cur = Ok false ->
  c128_should_use_a (r :: t) cur = Ok false ->
  c128_index_list (r :: t) cur =
  (if c128_ab_index c128_bTable 100 r <? 0 then Ok None else
   do rest <- c128_index_list t c128_startB;
   Ok (option_map (fun vs => c128_switch cur c128_startB c128_codeB
                               ++ c128_byte (c128_ab_index c128_bTable 100 r) :: vs) rest)).
Proof.
  intros Hc Ha. cbn [c128_index_list]. rewrite Hc. cbn [obind]. rewrite Ha. cbn [obind]. reflexivity.
Qed.

(* ---------- the invariant ---------- *)
Definition c128_post (l : list Z) (cur : Z) (o : option (list Z)) : Prop :=
  match o with
  | Some vals =>
    forallb c128_in_alphabet l = true /\ c128_dec cur vals = Some l /\ Forall c128_val_ok vals
  | None => forallb c128_in_alphabet l = false
  end.

Lemma c128_switch_ok cur target code : c128_valid_cur cur ->
  (target = 105 /\ code = 99) \/ (target = 103 /\ code = 101) \/ (target = 104 /\ code = 100) ->
  Forall c128_val_ok (c128_switch cur target code).
Proof.
  intros Hc Ht. unfold c128_switch.
  destruct (cur =? target); [constructor|].
  destruct (cur =? 0); repeat constructor; unfold c128_val_ok; lia.
Qed.

(* combining a step with the result for the remaining runes *)
Lemma c128_post_step pre t' cur target code v o' :
  c128_valid_cur cur ->
  (target = 105 /\ code = 99) \/ (target = 103 /\ code = 101) \/ (target = 104 /\ code = 100) ->
  c128_post t' target o' ->
  forallb c128_in_alphabet pre = true ->
  0 <= v <= 102 ->
  c128_meaning_of (c128_set_of target) v = MData pre ->
  c128_post (pre ++ t') cur
    (option_map (fun vs => c128_switch cur target code ++ c128_byte v :: vs) o').
Proof.
  intros Hc Ht Hp Hpre Hv Hm.
  assert (c128_byte v = v) as Hb by (unfold c128_byte; lia).
  rewrite Hb.
  destruct o' as [vals'|]; cbn [option_map c128_post] in *.
  - destruct Hp as [Ha [Hd Hf]].
    split; [rewrite forallb_app, Hpre, Ha; reflexivity|].
    split.
    + rewrite c128_dec_switch by assumption.
      apply c128_interp_data; [exact Hm|].
      rewrite <- c128_dec_nonzero by lia. exact Hd.
    + apply Forall_app. split; [apply c128_switch_ok; assumption|].
      constructor; [unfold c128_val_ok; lia|exact Hf].
  - rewrite forallb_app, Hp. apply andb_false_r.
Qed.

Lemma c128_bind_ok {A B} (o : outcome A) (a : A) (f : A -> outcome B) :
  o = Ok a -> obind o f = f a.
Proof. intros ->. reflexivity. Qed.

(* ---------- main lemma: every rune list, every current code set ---------- *)
Lemma c128_index_list_spec : forall n l cur,
  (length l <= n)%nat -> c128_valid_cur cur ->
  exists o, c128_index_list l cur = Ok o /\ c128_post l cur o.
Proof.
  induction n as [|n IH]; intros l cur Hlen Hcur.
  { destruct l; [|cbn in Hlen; lia].
    exists (Some []). split; [reflexivity|].
    cbn [c128_post forallb]. split; [reflexivity|]. split; [|constructor].
    destruct Hcur as [H|[H|[H|H]]]; subst; reflexivity. }
  destruct l as [|r t].
  { exists (Some []). split; [reflexivity|].
    cbn [c128_post forallb]. split; [reflexivity|]. split; [|constructor].
    destruct Hcur as [H|[H|[H|H]]]; subst; reflexivity. }
  cbn [length] in Hlen.
  destruct (c128_should_use_c_total (r :: t) cur) as [useC HC].
  destruct useC.
  - (* code set C *)
    destruct (c128_should_use_c_true _ _ HC) as [[t' E]|[d1 [d2 [t2 [E [Hd1 Hd2]]]]]].
    + (* FNC1 in C *)
      injection E as Er Et. subst r t'.
      destruct (IH t 105 ltac:(lia) ltac:(unfold c128_valid_cur; lia)) as [o' [Ho' Hp']].
      rewrite (c128_step_c_fnc1 _ _ HC).
      change c128_startC with 105. rewrite (c128_bind_ok _ _ _ Ho').
      eexists. split; [reflexivity|].
      pose proof (c128_post_step [c128_FNC1] t cur 105 99 102 o' Hcur ltac:(lia) Hp'
                    ltac:(reflexivity) ltac:(lia) ltac:(reflexivity)) as HP.
      change (c128_byte 102) with 102 in HP. exact HP.
    + (* a digit pair in C *)
      injection E as Er Et. subst r t.
      cbn [length] in Hlen.
      destruct (IH t2 105 ltac:(lia) ltac:(unfold c128_valid_cur; lia)) as [o' [Ho' Hp']].
      rewrite (c128_step_c_pair _ _ _ _ HC Hd1).
      change c128_startC with 105. rewrite (c128_bind_ok _ _ _ Ho').
      eexists. split; [reflexivity|].
      apply (c128_post_step [d1; d2] t2 cur 105 99 ((d1 - 48) * 10 + (d2 - 48)) o' Hcur
               ltac:(lia) Hp').
      * cbn [forallb]. rewrite andb_true_r. apply andb_true_iff.
        split; apply c128_alphabet_range; lia.
      * lia.
      * change (c128_set_of 105) with SetC. cbn [c128_meaning_of]. unfold c128_meaning_C.
        set (v := (d1 - 48) * 10 + (d2 - 48)).
        assert (0 <= v <= 99) as Hv by (unfold v; lia).
        destruct (v <? 0) eqn:E1; [lia|].
        destruct (v <=? 99) eqn:E2; [|lia].
        f_equal. f_equal; [unfold v; lia|]. f_equal. unfold v; lia.
  - destruct (c128_should_use_a_total r t cur) as [useA HA].
    destruct useA.
    + (* code set A *)
      pose proof (c128_should_use_a_true _ _ _ HA) as Hta.
      destruct (c128_a_index_meaning r Hta) as [Hidx Hm].
      destruct (IH t 103 ltac:(lia) ltac:(unfold c128_valid_cur; lia)) as [o' [Ho' Hp']].
      rewrite (c128_step_a _ _ _ HC HA).
      destruct (c128_ab_index c128_aTable 101 r <? 0) eqn:En; [lia|].
      change c128_startA with 103. rewrite (c128_bind_ok _ _ _ Ho').
      eexists. split; [reflexivity|].
      apply (c128_post_step [r] t cur 103 101 _ o' Hcur ltac:(lia) Hp').
      * cbn [forallb]. rewrite andb_true_r. apply c128_alphabet_range.
        apply c128_tc_a in Hta. lia.
      * lia.
      * exact Hm.
    + (* code set B, or no table at all *)
      destruct (c128_in_alphabet r) eqn:Ealpha.
      * pose proof (c128_should_use_a_false _ _ _ HA Ealpha) as Htb.
        destruct (c128_b_index_meaning r Htb) as [Hidx Hm].
        destruct (IH t 104 ltac:(lia) ltac:(unfold c128_valid_cur; lia)) as [o' [Ho' Hp']].
        rewrite (c128_step_b _ _ _ HC HA).
        destruct (c128_ab_index c128_bTable 100 r <? 0) eqn:En; [lia|].
        change c128_startB with 104. rewrite (c128_bind_ok _ _ _ Ho').
        eexists. split; [reflexivity|].
        apply (c128_post_step [r] t cur 104 100 _ o' Hcur ltac:(lia) Hp').
        -- cbn [forallb]. rewrite andb_true_r. exact Ealpha.
        -- lia.
        -- exact Hm.
      * destruct (c128_not_alphabet r Ealpha) as [_ Htb].
        rewrite (c128_step_b _ _ _ HC HA).
        rewrite (c128_b_index_neg r Htb).
        exists None. split; [reflexivity|].
        cbn [c128_post forallb]. rewrite Ealpha. reflexivity.
Qed.

(* getCodeIndexList: total; nil exactly when some rune is outside the alphabet;
   otherwise start character + data values that the reference interpretation
   reads back as the rune list *)
Lemma c128_get_code_index_list_spec (l : list Z) :
  exists o, c128_get_code_index_list l = Ok o /\
  match o with
  | None => forallb c128_in_alphabet l = false
  | Some vals =>
    forallb c128_in_alphabet l = true /\ Forall c128_val_ok vals /\
    (l <> [] -> exists s data st, vals = s :: data /\ c128_start_set s = Some st /\
                                c128_interp st false data = Some l)
  end.
Proof.
  destruct (c128_index_list_spec (length l) l 0 (le_n _) (or_introl eq_refl)) as [o [Ho Hp]].
  exists o. split; [exact Ho|].
  destruct o as [vals|]; cbn [c128_post] in Hp; [|exact Hp].
  destruct Hp as [Ha [Hd Hf]]. split; [exact Ha|]. split; [exact Hf|].
  intros Hne. unfold c128_dec in Hd. cbn [Z.eqb] in Hd.
  destruct vals as [|s data]; [congruence|].
  destruct (c128_start_set s) as [st|] eqn:Es; [|discriminate].
  exists s, data, st. auto.
Qed.
