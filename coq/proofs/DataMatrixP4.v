(* DataMatrix, layers 3c and 4: the rendered symbol is read back by the
   reference reader.
   Per size (finite, vm_compute): the symbol template computed by the model of
   SetValues + Merge has the finder/clock and fixed modules where the
   specification expects them and carries bit b of codeword k exactly at the
   module where the Annex F reader looks for it.
   Generic (any codewords): rendering the template and reading it back returns
   the codewords.  Composition with P1 (ASCII / padding) and P2 (calcECC). *)
From Coq Require Import FMapPositive.
From Verif Require Import Prelude Barcode GFM TabDataMatrix DataMatrixM DataMatrixSpec
  DataMatrixP1 DataMatrixP2 DataMatrixP3.

Arguments dm_template : simpl never.
Arguments reader_info : simpl never.
Arguments ecc200 : simpl never.

(* ---------- finite maps built from lists ---------- *)
Lemma pm_of_list_from_lt {A} (l : list A) : forall p m q, (q < p)%positive ->
  PositiveMap.find q (pm_of_list_from l p m) = PositiveMap.find q m.
Proof.
  induction l as [|x l IH]; intros p m q H; cbn [pm_of_list_from]; [reflexivity|].
  rewrite IH by lia. apply PositiveMap.gso. lia.
Qed.

Lemma pm_of_list_from_find {A} (l : list A) : forall p m i x q,
  nth_error l i = Some x -> Zpos q = Zpos p + Z.of_nat i ->
  PositiveMap.find q (pm_of_list_from l p m) = Some x.
Proof.
  induction l as [|y l IH]; intros p m i x q Hn Hq; [destruct i; discriminate|].
  cbn [pm_of_list_from]. destruct i as [|i]; cbn [nth_error] in Hn.
  - injection Hn as ->. assert (q = p) by lia. subst q.
    rewrite pm_of_list_from_lt by lia. apply PositiveMap.gss.
  - apply (IH _ _ i); [exact Hn | lia].
Qed.

Lemma pm_of_list_find {A} (l : list A) i x : nth_error l i = Some x ->
  PositiveMap.find (key (Z.of_nat i)) (pm_of_list l) = Some x.
Proof.
  intros H. unfold pm_of_list. apply (pm_of_list_from_find l _ _ i); [exact H|].
  unfold key. lia.
Qed.

(* ---------- bytes and bits ---------- *)
Definition bit_of (v b : Z) : bool := Z.land (Z.shiftr v (7 - b)) 1 =? 1.

Lemma byte_bits v : 0 <= v < 256 ->
  bits_to_byte (map (bit_of v) [0; 1; 2; 3; 4; 5; 6; 7]) = v.
Proof.
  intros H.
  assert (Hall : forallb (fun v => bits_to_byte (map (bit_of v) [0; 1; 2; 3; 4; 5; 6; 7]) =? v)
                   (zseq 0 256) = true) by (vm_compute; reflexivity).
  rewrite forallb_forall in Hall. apply Z.eqb_eq. apply Hall. rewrite zseq_In. lia.
Qed.

(* ---------- templates ---------- *)
Definition tcell (tmpl : list (list cell)) (r c : Z) : option cell :=
  if (r <? 0) || (c <? 0) then None else
  match nth_error tmpl (Z.to_nat r) with
  | Some row => nth_error row (Z.to_nat c)
  | None => None
  end.

Definition tcell_is (tmpl : list (list cell)) (r c : Z) (x : cell) : bool :=
  match tcell tmpl r c with Some y => cell_eqb y x | None => false end.

Lemma tcell_is_eq tmpl r c x : tcell_is tmpl r c x = true -> tcell tmpl r c = Some x.
Proof.
  unfold tcell_is. destruct (tcell tmpl r c); [|discriminate].
  intros H. apply cell_eqb_eq in H. now subst.
Qed.

Lemma pixel_render (f : cell -> bool) tmpl r c x :
  tcell tmpl r c = Some x -> pixel (map (map f) tmpl) r c = f x.
Proof.
  unfold tcell, pixel. destruct ((r <? 0) || (c <? 0)); [discriminate|].
  destruct (nth_error tmpl (Z.to_nat r)) as [row|] eqn:E; [|discriminate].
  intros H. rewrite (map_nth_error (map f) _ _ E). now rewrite (map_nth_error f _ _ H).
Qed.

(* the eight modules of codeword k carry its bits 0..7 in order *)
Fixpoint bits_ok (tmpl : list (list cell)) (k b : Z) (l8 : list (Z * Z)) : bool :=
  match l8 with
  | [] => b =? 8
  | rc :: t => tcell_is tmpl (fst rc) (snd rc) (CBit k b) && bits_ok tmpl k (b + 1) t
  end.

Fixpoint locs_ok (tmpl : list (list cell)) (k : Z) (locs : list (list (Z * Z))) : bool :=
  match locs with
  | [] => true
  | l8 :: t => bits_ok tmpl k 0 l8 && locs_ok tmpl (k + 1) t
  end.

Definition exps_ok (tmpl : list (list cell)) (exps : list (Z * Z * bool)) : bool :=
  forallb (fun x => let '(r, c, b) := x in tcell_is tmpl r c (CConst b)) exps.

Section Render.
Variable tmpl : list (list cell).
Variable cw : PositiveMap.t Z.
Let rows := map (map (interp cw)) tmpl.

Definition byte_of (k : Z) : Z :=
  bits_to_byte (map (fun b => interp cw (CBit k b)) [0; 1; 2; 3; 4; 5; 6; 7]).

Lemma bits_ok_map k : forall l8 b, bits_ok tmpl k b l8 = true ->
  map (fun rc => pixel rows (fst rc) (snd rc)) l8
  = map (fun b => interp cw (CBit k b)) (zseq b (length l8))
  /\ b + Z.of_nat (length l8) = 8.
Proof.
  induction l8 as [|rc t IH]; intros b H; cbn [bits_ok] in H.
  - split; [reflexivity|]. cbn [length]. lia.
  - apply andb_prop in H. destruct H as [H1 H2].
    apply tcell_is_eq in H1. destruct (IH _ H2) as [IHa IHb].
    split; [|cbn [length]; lia].
    cbn [map length zseq]. f_equal; [|exact IHa].
    unfold rows. now apply pixel_render.
Qed.

Lemma bits_ok_read k l8 : bits_ok tmpl k 0 l8 = true -> read_codeword rows l8 = byte_of k.
Proof.
  intros H. destruct (bits_ok_map k l8 0 H) as [Hm Hl].
  unfold read_codeword, byte_of. rewrite Hm.
  replace (length l8) with 8%nat by lia. reflexivity.
Qed.

Lemma locs_ok_read : forall locs k, locs_ok tmpl k locs = true ->
  map (read_codeword rows) locs = map byte_of (zseq k (length locs)).
Proof.
  induction locs as [|l8 t IH]; intros k H; cbn [locs_ok] in H; [reflexivity|].
  apply andb_prop in H. destruct H as [H1 H2].
  cbn [map length zseq]. f_equal; [now apply bits_ok_read | now apply IH].
Qed.

Lemma exps_ok_render exps : exps_ok tmpl exps = true ->
  forallb (expect_ok rows) exps = true.
Proof.
  unfold exps_ok. rewrite !forallb_forall. intros H [[r c] b] Hin.
  specialize (H _ Hin). cbn beta iota in H. apply tcell_is_eq in H.
  unfold expect_ok, rows. rewrite (pixel_render _ _ _ _ _ H). cbn [interp].
  destruct b; reflexivity.
Qed.

End Render.

Lemma byte_of_list cws : bytes cws ->
  map (byte_of (pm_of_list cws)) (zseq 0 (length cws)) = cws.
Proof.
  intros Hb. apply (nth_ext _ _ 0 0).
  - now rewrite map_length, zseq_length.
  - intros i Hi. rewrite map_length, zseq_length in Hi.
    rewrite map_zseq_nth by exact Hi. rewrite Z.add_0_l.
    pose proof (nth_error_nth' cws 0 Hi) as Hn.
    unfold byte_of.
    replace (map (fun b => interp (pm_of_list cws) (CBit (Z.of_nat i) b)) [0; 1; 2; 3; 4; 5; 6; 7])
      with (map (bit_of (nth i cws 0)) [0; 1; 2; 3; 4; 5; 6; 7]).
    + apply byte_bits. unfold bytes in Hb. rewrite Forall_forall in Hb. apply Hb. now apply nth_In.
    + apply map_ext. intros b. cbn [interp]. now rewrite (pm_of_list_find cws i _ Hn).
Qed.

(* ---------- the per-size facts, decided by computation ---------- *)
Definition iso_entry_eqb (a b : iso_entry) : bool :=
  (iso_size a =? iso_size b) && (iso_region a =? iso_region b) && (iso_k a =? iso_k b)
  && (iso_data a =? iso_data b) && (iso_ecc a =? iso_ecc b) && (iso_blocks a =? iso_blocks b).

Lemma iso_entry_eqb_eq a b : iso_entry_eqb a b = true -> a = b.
Proof.
  destruct a, b. unfold iso_entry_eqb. cbn. intros H.
  repeat (apply andb_prop in H; destruct H as [H ?]).
  repeat match goal with E : (_ =? _) = true |- _ => apply Z.eqb_eq in E end. now subst.
Qed.

Definition static_ok (s : dmsize) (e : iso_entry) : bool :=
  match dm_template s (iso_total e), reader_info e with
  | Ok tmpl, Some (locs, exps) =>
    size_matches s e && ecc_static_ok s e
    && (match iso_lookup (iso_size e) (iso_size e) with
        | Some e' => iso_entry_eqb e' e
        | None => false
        end)
    && (1 <=? iso_size e) && (0 <=? iso_ecc e)
    && (zlength tmpl =? iso_size e) && forallb (fun r => zlength r =? iso_size e) tmpl
    && (zlength locs =? iso_total e)
    && locs_ok tmpl 0 locs && exps_ok tmpl exps
  | _, _ => false
  end.

Theorem static_all : forall2b static_ok code_sizes iso_table = true.
Proof. vm_compute. reflexivity. Qed.

Lemma static_all_Forall2 : Forall2 (fun s e => static_ok s e = true) code_sizes iso_table.
Proof. apply forall2b_Forall2. exact static_all. Qed.

Lemma static_ok_inv s e : static_ok s e = true ->
  exists tmpl locs exps,
    dm_template s (iso_total e) = Ok tmpl /\ reader_info e = Some (locs, exps)
    /\ size_matches s e = true /\ ecc_static_ok s e = true
    /\ iso_lookup (iso_size e) (iso_size e) = Some e
    /\ 1 <= iso_size e /\ 0 <= iso_ecc e
    /\ zlength tmpl = iso_size e /\ Forall (fun r => zlength r = iso_size e) tmpl
    /\ zlength locs = iso_total e
    /\ locs_ok tmpl 0 locs = true /\ exps_ok tmpl exps = true.
Proof.
  unfold static_ok. intros H.
  destruct (dm_template s (iso_total e)) as [tmpl| | |]; try discriminate.
  destruct (reader_info e) as [[locs exps]|]; try discriminate.
  exists tmpl, locs, exps.
  apply andb_prop in H. destruct H as [H Hexps].
  apply andb_prop in H. destruct H as [H Hlocs].
  apply andb_prop in H. destruct H as [H Hll].
  apply andb_prop in H. destruct H as [H Hw].
  apply andb_prop in H. destruct H as [H Hh].
  apply andb_prop in H. destruct H as [H Hecc].
  apply andb_prop in H. destruct H as [H Hsz].
  apply andb_prop in H. destruct H as [H Hlk].
  apply andb_prop in H. destruct H as [Hm Hes].
  destruct (iso_lookup (iso_size e) (iso_size e)) as [e'|]; [|discriminate].
  apply iso_entry_eqb_eq in Hlk. subst e'.
  repeat split; auto; try lia.
  apply Forall_forall. intros r Hr.
  rewrite forallb_forall in Hw. specialize (Hw r Hr). lia.
Qed.

Lemma size_matches_inv s e : size_matches s e = true ->
  sz_rows s = iso_size e /\ sz_cols s = iso_size e /\ sz_rch s = iso_k e /\ sz_rcv s = iso_k e
  /\ 1 <= iso_k e /\ data_codewords s = iso_data e /\ sz_ecc s = iso_ecc e
  /\ sz_blocks s = iso_blocks e.
Proof. unfold size_matches. intros H. repeat split; lia. Qed.

(* ---------- rendering any codewords and reading them back ---------- *)
Lemma render_read s e cws : static_ok s e = true ->
  zlength cws = iso_total e -> bytes cws ->
  exists rows exps,
    render cws s = Ok rows
    /\ dm_read rows = Some (e, exps, cws)
    /\ forallb (expect_ok rows) exps = true
    /\ zlength rows = iso_size e /\ Forall (fun r => zlength r = iso_size e) rows.
Proof.
  intros Hs Hlen Hb.
  destruct (static_ok_inv s e Hs) as
    (tmpl & locs & exps & Ht & Hri & _ & _ & Hlk & Hsz & _ & Hh & Hw & Hll & Hlocs & Hexps).
  exists (map (map (interp (pm_of_list cws))) tmpl), exps.
  assert (Hrender : render cws s = Ok (map (map (interp (pm_of_list cws))) tmpl)).
  { unfold render. rewrite Hlen, Ht. reflexivity. }
  assert (Hh' : zlength (map (map (interp (pm_of_list cws))) tmpl) = iso_size e)
    by (now rewrite zlength_map).
  assert (Hw' : Forall (fun r => zlength r = iso_size e) (map (map (interp (pm_of_list cws))) tmpl)).
  { apply Forall_forall. intros r Hr. apply in_map_iff in Hr. destruct Hr as [r0 [<- Hr0]].
    rewrite zlength_map. rewrite Forall_forall in Hw. now apply Hw. }
  split; [exact Hrender|]. split; [|split; [now apply exps_ok_render | split; assumption]].
  unfold dm_read.
  destruct (map (map (interp (pm_of_list cws))) tmpl) as [|r0 rest] eqn:Erows.
  { rewrite zlength_nil in Hh'. lia. }
  assert (Hr0 : zlength r0 = iso_size e) by (inversion Hw'; assumption).
  rewrite Hh', Hr0, Hlk.
  assert (Hfa : forallb (fun r => zlength r =? iso_size e) (r0 :: rest) = true).
  { apply forallb_forall. intros r Hr. rewrite Forall_forall in Hw'. specialize (Hw' r Hr). lia. }
  rewrite Hfa, Hri. do 3 f_equal.
  rewrite <- Erows. rewrite locs_ok_read with (k := 0) by exact Hlocs.
  replace (length locs) with (length cws) by (unfold zlength in *; lia).
  now apply byte_of_list.
Qed.

(* ---------- the size loop ---------- *)
Lemma find_size_pair n : forall ss es,
  Forall2 (fun s e => static_ok s e = true) ss es ->
  exists os, find_size ss n = Ok os /\
    match os with
    | Some s => exists e, static_ok s e = true /\ find (fun e => n <=? iso_data e) es = Some e
    | None => find (fun e => n <=? iso_data e) es = None
    end.
Proof.
  induction 1 as [|s e ss es Hse HF IH].
  - exists None. split; reflexivity.
  - destruct (static_ok_inv s e Hse) as (_ & _ & _ & _ & _ & Hm & _).
    apply size_matches_inv in Hm. destruct Hm as (_ & _ & Hh & Hv & Hk & Hd & _).
    cbn [find_size find].
    replace ((sz_rcv s =? 0) || (sz_rch s =? 0)) with false by lia.
    rewrite Hd. replace (iso_data e >=? n) with (n <=? iso_data e) by lia.
    destruct (n <=? iso_data e).
    + exists (Some s). split; [reflexivity|]. exists e. split; [exact Hse | reflexivity].
    + exact IH.
Qed.

Lemma find_size_spec n :
  exists os, find_size code_sizes n = Ok os /\
    match os with
    | Some s => exists e, static_ok s e = true /\ dm_smallest n = Some e
    | None => dm_smallest n = None
    end.
Proof. exact (find_size_pair n _ _ static_all_Forall2). Qed.

(* ---------- composition ---------- *)
Section Compose.

Hypothesis rs_valid : forall data k,
  1 <= k -> 1 + k <= 256 -> Forall (fun c => 0 <= c < 256) data ->
  exists ecc, rs_encode_fresh dm_field data k = Ok ecc /\ zlength ecc = k /\
    Forall (fun c => 0 <= c < 256) ecc /\
    forall i, 0 <= i < k ->
      poly_eval dm_field (data ++ ecc) (tget (gf_alog dm_field) (1 + i)) = 0.

(* everything the encoder does for a content that fits *)
Lemma dm_encode_ok content e : bytes content ->
  dm_smallest (dm_ascii_len content) = Some e ->
  exists s cws rows exps,
    static_ok s e = true
    /\ dm_encode content =
       Ok {| bc_kind := KDataMatrix; bc_content := content; bc_checksum := None;
             bc_width := sz_cols s; bc_height := sz_rows s; bc_rows := rows |}
    /\ zlength cws = iso_data e + iso_ecc e /\ bytes cws
    /\ firstn (Z.to_nat (iso_data e)) cws = add_padding (encode_text content) (iso_data e)
    /\ rs_ok e cws = true
    /\ dm_read rows = Some (e, exps, cws)
    /\ forallb (expect_ok rows) exps = true
    /\ zlength rows = iso_size e /\ Forall (fun r => zlength r = iso_size e) rows.
Proof.
  intros Hb Hsm.
  destruct (find_size_spec (dm_ascii_len content)) as [os [Hfs Hos]].
  destruct os as [s|]; [|rewrite Hos in Hsm; discriminate].
  destruct Hos as [e' [Hse Hsm']]. rewrite Hsm in Hsm'. injection Hsm' as <-.
  assert (Hfit : dm_ascii_len content <= iso_data e).
  { unfold dm_smallest in Hsm. apply find_some in Hsm. lia. }
  destruct (static_ok_inv s e Hse) as (_ & _ & _ & _ & _ & Hm & Hes & _).
  pose proof (size_matches_inv s e Hm) as (_ & _ & _ & _ & _ & Hd & _ & _).
  set (data := add_padding (encode_text content) (iso_data e)).
  assert (Hdl : zlength data = iso_data e).
  { apply add_padding_length. rewrite encode_text_len. exact Hfit. }
  assert (Hdb : bytes data) by (apply add_padding_bytes, encode_text_bytes, Hb).
  destruct (calc_ecc_correct rs_valid s e Hes data Hdl Hdb) as (cws & Hc & Hcl & Hcb & Hfirst & Hrs).
  destruct (render_read s e cws Hse Hcl Hcb) as (rows & exps & Hr & Hread & Hexp & Hh & Hw).
  exists s, cws, rows, exps.
  split; [exact Hse|]. split.
  { unfold dm_encode. rewrite encode_text_len, Hfs. cbn [obind].
    rewrite Hd. fold data. rewrite Hc. cbn [obind]. rewrite Hr. reflexivity. }
  repeat split; assumption.
Qed.

(* a content that does not fit is rejected *)
Lemma dm_encode_err content :
  dm_smallest (dm_ascii_len content) = None -> dm_encode content = Err.
Proof.
  intros Hsm.
  destruct (find_size_spec (dm_ascii_len content)) as [os [Hfs Hos]].
  destruct os as [s|].
  - destruct Hos as [e [_ He]]. rewrite Hsm in He. discriminate.
  - unfold dm_encode. rewrite encode_text_len, Hfs. reflexivity.
Qed.

Lemma dm_smallest_total n : {e | dm_smallest n = Some e} + {dm_smallest n = None}.
Proof. destruct (dm_smallest n) as [e|]; [left; now exists e | now right]. Qed.

(* layer 4: the reference reader accepts the symbol and decodes the content *)
Theorem dm_roundtrip content bc : bytes content -> dm_encode content = Ok bc ->
  dm_valid (bc_rows bc) = true /\ dm_decode (bc_rows bc) = Some content.
Proof.
  intros Hb Henc.
  destruct (dm_smallest_total (dm_ascii_len content)) as [[e He]|Hn];
    [|rewrite (dm_encode_err _ Hn) in Henc; discriminate].
  destruct (dm_encode_ok content e Hb He)
    as (s & cws & rows & exps & _ & Henc' & _ & _ & Hfirst & Hrs & Hread & Hexp & _).
  rewrite Henc' in Henc. injection Henc as <-. cbn [bc_rows].
  assert (Hfit : zlength (encode_text content) <= iso_data e).
  { rewrite encode_text_len. unfold dm_smallest in He. apply find_some in He. lia. }
  pose proof (dm_ascii_padded content (iso_data e) Hb Hfit) as Hasc.
  unfold dm_valid, dm_decode. rewrite Hread, Hfirst, Hasc, Hexp, Hrs. split; reflexivity.
Qed.

End Compose.
