(* DataMatrix, layer 3b: calcECC.  Block b of the symbol consists of the data
   codewords at indices = b mod B and the check words at indices = b mod B of
   the ECC area; every block is a valid Reed-Solomon codeword.  The algebraic
   fact about the Reed-Solomon encoder is a section hypothesis here (proved in
   proofs/RSP.v by the GF/RS development); everything else is proved. *)
From Verif Require Import Prelude Barcode GFM TabDataMatrix DataMatrixM DataMatrixSpec DataMatrixP1.

(* ---------- ranges ---------- *)
Lemma zseq_length k n : length (zseq k n) = n.
Proof. revert k; induction n as [|n IH]; intros k; simpl; auto. Qed.

Lemma zseq_nth n : forall k i d, (i < n)%nat -> nth i (zseq k n) d = k + Z.of_nat i.
Proof.
  induction n as [|n IH]; intros k i d H; [lia|].
  destruct i as [|i]; cbn [zseq nth]; [lia|].
  rewrite IH by lia. lia.
Qed.

Lemma map_zseq_nth {A} (f : Z -> A) n : forall k i d, (i < n)%nat ->
  nth i (map f (zseq k n)) d = f (k + Z.of_nat i).
Proof.
  induction n as [|n IH]; intros k i d H; [lia|].
  destruct i as [|i]; cbn [zseq map nth].
  - f_equal; lia.
  - rewrite IH by lia. f_equal; lia.
Qed.

Lemma zseq_In n : forall k x, In x (zseq k n) <-> k <= x < k + Z.of_nat n.
Proof.
  induction n as [|n IH]; intros k x; cbn [zseq In].
  - lia.
  - rewrite IH. lia.
Qed.

Lemma zrange_s_zseq k n : zrange_s k n = zseq k n.
Proof. revert k; induction n as [|n IH]; intros k; simpl; [reflexivity | now rewrite IH]. Qed.

Lemma zrange0_In n x : In x (zrange0 n) <-> 0 <= x < n.
Proof. unfold zrange0. rewrite zrange_s_zseq, zseq_In. lia. Qed.

(* ---------- stride_cnt ---------- *)
(* the number of picked elements depends only on the length of the list *)
Lemma stride_length_shape B : forall (l l' : list Z) k, length l = length l' ->
  length (stride_cnt k B l) = length (stride_cnt k B l').
Proof.
  induction l as [|x l IH]; intros [|y l'] k H; simpl in H; try discriminate; auto.
  destruct k; cbn [stride_cnt length]; [f_equal|]; apply IH; lia.
Qed.

Lemma stride_nth B : (1 <= B)%nat -> forall (l : list Z) k j d,
  nth j (stride_cnt k B l) d = nth (k + j * B) l d.
Proof.
  intros HB. induction l as [|x l IH]; intros k j d.
  - cbn [stride_cnt]. destruct j, (k + _)%nat; reflexivity.
  - destruct k as [|k]; cbn [stride_cnt].
    + destruct j as [|j]; [reflexivity|].
      cbn [nth]. rewrite IH.
      replace (0 + S j * B)%nat with (S (B - 1 + j * B)) by lia. reflexivity.
    + rewrite IH. reflexivity.
Qed.

Lemma stride_nth_lt B : (1 <= B)%nat -> forall (l : list Z) k j,
  (j < length (stride_cnt k B l))%nat -> (k + j * B < length l)%nat.
Proof.
  intros HB. induction l as [|x l IH]; intros k j H.
  - simpl in H. lia.
  - destruct k as [|k]; cbn [stride_cnt length] in *.
    + destruct j as [|j]; [lia|].
      assert (H' : (j < length (stride_cnt (B - 1) B l))%nat) by lia.
      apply IH in H'. lia.
    + apply IH in H. lia.
Qed.

Lemma stride_bytes B : forall (l : list Z) k, bytes l -> bytes (stride_cnt k B l).
Proof.
  induction l as [|x l IH]; intros k H; cbn [stride_cnt]; [constructor|].
  inversion H; subst. destruct k; [constructor; auto|]; apply IH; auto.
Qed.

(* ---------- interleave ---------- *)
Lemma interleave_length n : forall ls, length (interleave n ls) = (n * length ls)%nat.
Proof.
  induction n as [|n IH]; intros ls; cbn [interleave]; [reflexivity|].
  rewrite app_length, map_length, IH, map_length. lia.
Qed.

Lemma nth_tl {A} (l : list A) j d : nth j (tl l) d = nth (S j) l d.
Proof. destruct l; [destruct j|]; reflexivity. Qed.

Lemma interleave_nth n : forall ls b j, (b < length ls)%nat -> (j < n)%nat ->
  nth (b + j * length ls) (interleave n ls) 0 = nth j (nth b ls []) 0.
Proof.
  induction n as [|n IH]; intros ls b j Hb Hj; [lia|].
  cbn [interleave]. destruct j as [|j].
  - rewrite Nat.mul_0_l, Nat.add_0_r.
    rewrite app_nth1 by (now rewrite map_length).
    rewrite (map_nth (hd 0) ls [] b : nth b (map (hd 0) ls) 0 = hd 0 (nth b ls [])).
    destruct (nth b ls []); reflexivity.
  - rewrite app_nth2 by (rewrite map_length; lia).
    rewrite map_length.
    replace (b + S j * length ls - length ls)%nat with (b + j * length (map (@tl Z) ls))%nat
      by (rewrite map_length; lia).
    rewrite IH by (rewrite ?map_length; lia).
    rewrite (map_nth (@tl Z) ls [] b : nth b (map (@tl Z) ls) [] = tl (nth b ls [])).
    apply nth_tl.
Qed.

Lemma interleave_bytes n : forall ls, Forall bytes ls -> bytes (interleave n ls).
Proof.
  induction n as [|n IH]; intros ls H; cbn [interleave]; [constructor|].
  apply Forall_app. split.
  - induction H as [|l ls Hl Hls IH']; cbn [map]; constructor; auto.
    destruct Hl; cbn [hd]; [unfold is_byte; lia | assumption].
  - apply IH. induction H as [|l ls Hl Hls IH']; cbn [map]; constructor; auto.
    destruct Hl; cbn [tl]; [constructor | assumption].
Qed.

(* ---------- omap ---------- *)
Lemma omap_exists {A B} (f : A -> outcome B) (Q : A -> B -> Prop) (l : list A) :
  (forall x, In x l -> exists y, f x = Ok y /\ Q x y) ->
  exists r, omap f l = Ok r /\ Forall2 Q l r.
Proof.
  induction l as [|x l IH]; intros H.
  - exists []. split; [reflexivity | constructor].
  - destruct (H x (or_introl eq_refl)) as [y [Hy Qy]].
    destruct IH as [r [Hr Fr]]; [intros; apply H; now right|].
    exists (y :: r). cbn [omap]. rewrite Hy. cbn [obind]. rewrite Hr. cbn [obind].
    split; [reflexivity | constructor; auto].
Qed.

Lemma Forall2_zseq_nth {B} (Q : Z -> B -> Prop) n : forall k (r : list B) d,
  Forall2 Q (zseq k n) r ->
  length r = n /\ forall i, (i < n)%nat -> Q (k + Z.of_nat i) (nth i r d).
Proof.
  induction n as [|n IH]; intros k r d H; cbn [zseq] in H; inversion H; subst.
  - split; [reflexivity | intros; lia].
  - destruct (IH _ _ d H4) as [Hl Hn]. split; [simpl; lia|].
    intros [|i] Hi; cbn [nth].
    + now rewrite Z.add_0_r.
    + replace (k + Z.of_nat (S i)) with (k + 1 + Z.of_nat i) by lia. apply Hn. lia.
Qed.

Lemma map_id_in {A} (f : A -> A) l : (forall x, In x l -> f x = x) -> map f l = l.
Proof.
  induction l as [|x l IH]; intros H; cbn [map]; [reflexivity|].
  rewrite H by now left. rewrite IH; [reflexivity|]. intros; apply H; now right.
Qed.

(* ---------- static facts about one size, decided by computation ---------- *)
Definition ecc_static_ok (s : dmsize) (e : iso_entry) : bool :=
  (1 <=? sz_blocks s) && (sz_blocks s =? iso_blocks e) && (sz_ecc s =? iso_ecc e)
  && (ecc_per_block s =? iso_ecc e / iso_blocks e)
  && (1 <=? ecc_per_block s) && (ecc_per_block s <=? 255)
  && (ecc_per_block s * sz_blocks s =? sz_ecc s) && (0 <=? iso_data e)
  && forallb (fun b =>
       (data_codewords_for_block s b =? (iso_data e - b + iso_blocks e - 1) / iso_blocks e)
       && (zlength (stride_cnt (Z.to_nat b) (Z.to_nat (sz_blocks s))
                      (repeat 0 (Z.to_nat (iso_data e))))
           =? data_codewords_for_block s b))
       (zseq 0 (Z.to_nat (sz_blocks s))).

Section CalcEcc.

(* the Reed-Solomon encoder over GF(256)/301, base 1, yields k check words that
   make data ++ ecc vanish at alpha^1 .. alpha^k  (instance of RSP.rs_encode_valid) *)
Hypothesis rs_valid : forall data k,
  1 <= k -> 1 + k <= 256 -> Forall (fun c => 0 <= c < 256) data ->
  exists ecc, rs_encode_fresh dm_field data k = Ok ecc /\ zlength ecc = k /\
    Forall (fun c => 0 <= c < 256) ecc /\
    forall i, 0 <= i < k ->
      poly_eval dm_field (data ++ ecc) (tget (gf_alog dm_field) (1 + i)) = 0.

Variable s : dmsize.
Variable e : iso_entry.
Hypothesis Hstatic : ecc_static_ok s e = true.
Variable data : list Z.
Hypothesis Hlen : zlength data = iso_data e.
Hypothesis Hbytes : bytes data.

Local Notation B := (sz_blocks s).
Local Notation epb := (ecc_per_block s).
Local Notation Bn := (Z.to_nat (sz_blocks s)).

Lemma static_facts :
  1 <= B /\ B = iso_blocks e /\ sz_ecc s = iso_ecc e /\ epb = iso_ecc e / iso_blocks e
  /\ 1 <= epb /\ epb <= 255 /\ epb * B = sz_ecc s /\ 0 <= iso_data e
  /\ forall b, 0 <= b < B ->
       data_codewords_for_block s b = (iso_data e - b + iso_blocks e - 1) / iso_blocks e
       /\ zlength (stride_cnt (Z.to_nat b) Bn data) = data_codewords_for_block s b.
Proof.
  pose proof Hstatic as Hs. unfold ecc_static_ok in Hs.
  apply andb_prop in Hs. destruct Hs as [Hs Hf].
  rewrite forallb_forall in Hf.
  repeat split; try lia.
  - specialize (Hf b). rewrite zseq_In in Hf. apply andb_prop in Hf; [|lia]. lia.
  - specialize (Hf b). rewrite zseq_In in Hf. apply andb_prop in Hf; [|lia].
    destruct Hf as [_ Hf]. apply Z.eqb_eq in Hf. rewrite <- Hf.
    unfold zlength. f_equal. apply stride_length_shape.
    rewrite repeat_length. unfold zlength in Hlen. lia.
Qed.

(* what one iteration of the block loop computes *)
Definition block_spec (b : Z) (ecc : list Z) : Prop :=
  zlength ecc = epb /\ bytes ecc /\
  forall i, 0 <= i < epb ->
    poly_eval dm_field (stride_cnt (Z.to_nat b) Bn data ++ ecc)
              (tget (gf_alog dm_field) (1 + i)) = 0.

Lemma calc_block_ok b : 0 <= b < B ->
  exists ecc, calc_block s data b = Ok ecc /\ block_spec b ecc.
Proof.
  intros Hb. destruct static_facts as (HB & _ & _ & _ & Hk1 & Hk2 & _ & _ & Hblk).
  destruct (Hblk b Hb) as [_ Hcnt].
  unfold calc_block. rewrite Hcnt.
  pose proof (zlength_nonneg (stride_cnt (Z.to_nat b) Bn data)) as Hnn.
  rewrite Hcnt in Hnn.
  replace (data_codewords_for_block s b <? 0) with false by lia.
  replace (data_codewords_for_block s b >? data_codewords_for_block s b) with false by lia.
  rewrite Z.sub_diag. cbn [Z.to_nat repeat]. rewrite app_nil_r.
  destruct (rs_valid (stride_cnt (Z.to_nat b) Bn data) epb) as [ecc (He & Hl & Hr & Hroots)];
    [lia | lia | apply (stride_bytes Bn data (Z.to_nat b) Hbytes) |].
  rewrite He. cbn [obind].
  rewrite map_id_in.
  - exists ecc. split; [reflexivity|]. split; [assumption|]. split; [exact Hr | exact Hroots].
  - intros x Hx. rewrite Forall_forall in Hr. specialize (Hr x Hx).
    apply Z.mod_small. lia.
Qed.

Lemma calc_ecc_correct :
  exists cws, calc_ecc data s = Ok cws
    /\ zlength cws = iso_data e + iso_ecc e
    /\ bytes cws
    /\ firstn (Z.to_nat (iso_data e)) cws = data
    /\ rs_ok e cws = true.
Proof.
  destruct static_facts as (HB & HBe & Hecc & Hepb & Hk1 & Hk2 & Hmul & HD & Hblk).
  destruct (omap_exists (calc_block s data) block_spec (zseq 0 Bn)) as [eccs [Heccs HF]].
  { intros b Hb. apply calc_block_ok. rewrite zseq_In in Hb. lia. }
  destruct (Forall2_zseq_nth block_spec Bn 0 eccs [] HF) as [HlenE HnthE].
  assert (HlenArea : zlength (interleave (Z.to_nat epb) eccs) = sz_ecc s).
  { unfold zlength. rewrite interleave_length, HlenE. lia. }
  assert (HbytesE : Forall bytes eccs).
  { apply Forall_forall. intros l Hl. apply (In_nth _ _ []) in Hl.
    destruct Hl as [i [Hi Hl]]. rewrite <- Hl. rewrite HlenE in Hi.
    destruct (HnthE i Hi) as (_ & Hb & _). exact Hb. }
  exists (data ++ interleave (Z.to_nat epb) eccs).
  assert (Hcalc : calc_ecc data s = Ok (data ++ interleave (Z.to_nat epb) eccs)).
  { unfold calc_ecc. rewrite Heccs. cbn [obind].
    replace (sz_ecc s <? 0) with false by lia.
    rewrite HlenArea. replace (sz_ecc s >? sz_ecc s) with false by lia.
    rewrite Z.sub_diag. cbn [Z.to_nat repeat]. now rewrite app_nil_r. }
  split; [exact Hcalc|].
  split; [rewrite zlength_app, HlenArea; lia|].
  split; [apply Forall_app; split; [exact Hbytes | now apply interleave_bytes]|].
  split.
  { replace (Z.to_nat (iso_data e)) with (length data + 0)%nat by (unfold zlength in Hlen; lia).
    rewrite firstn_app_2. cbn [firstn]. now rewrite app_nil_r. }
  (* every block is a Reed-Solomon codeword *)
  unfold rs_ok. apply forallb_forall. intros b Hb. rewrite zrange0_In in Hb.
  rewrite <- HBe in Hb.
  assert (Hbn : (Z.to_nat b < Bn)%nat) by lia.
  destruct (HnthE (Z.to_nat b) Hbn) as (HlE & _ & Hroots).
  rewrite Z.add_0_l, Z2Nat.id in Hroots by lia.
  destruct (Hblk b Hb) as [Hnd Hcnt].
  assert (Hblock : rs_block e (data ++ interleave (Z.to_nat epb) eccs) b =
                   stride_cnt (Z.to_nat b) Bn data ++ nth (Z.to_nat b) eccs []).
  { unfold rs_block. rewrite <- Hnd, <- Hepb, <- HBe. f_equal.
    - (* data part *)
      apply (nth_ext _ _ 0 0).
      + rewrite map_length. unfold zrange0. rewrite zrange_s_zseq, zseq_length.
        unfold zlength in Hcnt. lia.
      + intros i Hi. rewrite map_length in Hi. unfold zrange0 in *.
        rewrite zrange_s_zseq, zseq_length in Hi. rewrite zrange_s_zseq.
        rewrite map_zseq_nth by exact Hi.
        assert (Hi' : (i < length (stride_cnt (Z.to_nat b) Bn data))%nat)
          by (unfold zlength in Hcnt; lia).
        pose proof (stride_nth_lt Bn ltac:(lia) data _ _ Hi') as Hlt.
        replace (Z.to_nat (b + (0 + Z.of_nat i) * B)) with (Z.to_nat b + i * Bn)%nat
          by lia.
        rewrite app_nth1 by exact Hlt.
        symmetry. apply stride_nth. lia.
    - (* check words *)
      apply (nth_ext _ _ 0 0).
      + rewrite map_length. unfold zrange0. rewrite zrange_s_zseq, zseq_length.
        unfold zlength in HlE. lia.
      + intros i Hi. rewrite map_length in Hi. unfold zrange0 in *.
        rewrite zrange_s_zseq, zseq_length in Hi. rewrite zrange_s_zseq.
        rewrite map_zseq_nth by exact Hi.
        replace (Z.to_nat (iso_data e + b + (0 + Z.of_nat i) * B))
          with (length data + (Z.to_nat b + i * length eccs))%nat
          by (rewrite HlenE; unfold zlength in Hlen; lia).
        rewrite app_nth2_plus.
        apply interleave_nth; [rewrite HlenE; exact Hbn | exact Hi]. }
  unfold rs_block_ok. rewrite Hblock.
  apply forallb_forall. intros i Hi. rewrite zrange_s_zseq, zseq_In in Hi.
  rewrite <- Hepb in Hi.
  apply Z.eqb_eq. change iso_field with dm_field.
  replace i with (1 + (i - 1)) by lia. apply Hroots. lia.
Qed.

End CalcEcc.
