(* C16 proofs: the mutex protocol of getPolynomial under every interleaving,
   and the unbuffered-channel producer/consumer protocol. *)
From Coq Require Import String.
From Verif Require Import Prelude GFM GFP PolyP RSP TabSync ConcM.
Import List ListNotations.
Notation length := List.length.

#[local] Arguments Z.of_nat : simpl never.
#[local] Arguments Z.add : simpl never.
#[local] Arguments Z.sub : simpl never.

(* ---------- structural facts from the current source ---------- *)
Lemma facts_from_source_good : facts_good facts_from_source = true.
Proof. vm_compute. reflexivity. Qed.

Lemma good_uses_lock s : facts_good s = true -> uses_lock s = true.
Proof.
  unfold facts_good, uses_lock. intros H.
  repeat (apply andb_true_iff in H; destruct H as [H ?]).
  repeat (apply andb_true_iff; split); assumption.
Qed.

(* ---------- list helpers ---------- *)
Lemma nth_error_set_thread ts t p t' :
  nth_error (set_thread ts t p) t' =
  if Nat.eqb t' t then
    match nth_error ts t with Some th => Some {| th_deg := th_deg th; th_pc := p |} | None => None end
  else nth_error ts t'.
Proof.
  unfold set_thread. destruct (nth_error ts t) as [th|] eqn:E.
  - destruct (Nat.eqb_spec t' t) as [->|Hne].
    + apply nth_error_set_nth_eq. apply nth_error_Some. congruence.
    + apply nth_error_set_nth_neq. congruence.
  - destruct (Nat.eqb_spec t' t) as [->|Hne]; [exact E|reflexivity].
Qed.

Lemma set_thread_length ts t p : length (set_thread ts t p) = length ts.
Proof. unfold set_thread. destruct (nth_error ts t); [apply set_nth_length|reflexivity]. Qed.

Lemma nth_error_ext_len {A} (l1 : list A) : forall l2, length l1 = length l2 ->
  (forall i, nth_error l1 i = nth_error l2 i) -> l1 = l2.
Proof.
  induction l1 as [|x l1 IH]; intros [|y l2] Hl H; cbn in Hl; try lia; [reflexivity|].
  pose proof (H 0%nat) as H0. cbn in H0. inversion H0; subst. f_equal.
  apply IH; [lia|]. intros i. exact (H (S i)).
Qed.

Section Mutex.
Variable f : gfield.

(* the cache after appending the next generator *)
Lemma cache_ok_extend cache : cache_ok f cache -> cache_ok f (cache ++ [next_gen f cache]).
Proof.
  intros [Hne Hc]. split; [destruct cache; discriminate|].
  destruct (length cache) as [|m] eqn:El; [destruct cache; [congruence|discriminate]|].
  rewrite app_length, El. cbn [length]. replace (S m + 1)%nat with (S (S m)) by lia.
  rewrite seq_S, map_app. cbn [map Nat.add]. f_equal; [exact Hc|]. f_equal.
  unfold next_gen.
  assert (Hlast : last cache [] = gen f m).
  { rewrite Hc. rewrite seq_S, map_app. cbn [map]. apply last_last. }
  rewrite Hlast. unfold zlength. rewrite El.
  replace (Z.of_nat (S m) - 1 + gf_base f) with (Z.of_nat m + gf_base f) by lia.
  reflexivity.
Qed.

Lemma cache_ok_nth cache d : cache_ok f cache -> (d < length cache)%nat ->
  nth_error cache d = Some (gen f d).
Proof.
  intros [_ Hc] Hd. rewrite Hc. apply (nth_error_map_seq f (gen f) (length cache) 0 d Hd).
Qed.

Definition Inv (s : cstate) : Prop :=
  cache_ok f (cs_cache s)
  /\ (forall t th, nth_error (cs_threads s) t = Some th -> in_critical (th_pc th) = true -> cs_lock s = Some t)
  /\ (forall t, cs_lock s = Some t ->
        exists th, nth_error (cs_threads s) t = Some th /\ in_critical (th_pc th) = true)
  /\ (forall t th g, nth_error (cs_threads s) t = Some th ->
        th_pc th = PUnlock g \/ th_pc th = PDone g -> g = gen f (th_deg th))
  /\ (forall t th, nth_error (cs_threads s) t = Some th -> th_pc th = PRead ->
        (th_deg th < length (cs_cache s))%nat).

Lemma inv_init cache degs : cache_ok f cache -> Inv (cinit cache degs).
Proof.
  intros Hc. unfold Inv, cinit; cbn [cs_cache cs_lock cs_threads].
  split; [exact Hc|]. repeat split.
  - intros t th Hn Hcr. rewrite nth_error_map in Hn. destruct (nth_error degs t); inversion Hn; subst. discriminate.
  - intros t Hl. discriminate.
  - intros t th g Hn [H|H]; rewrite nth_error_map in Hn; destruct (nth_error degs t); inversion Hn; subst; discriminate.
  - intros t th Hn H. rewrite nth_error_map in Hn. destruct (nth_error degs t); inversion Hn; subst; discriminate.
Qed.

(* degrees are never changed by a step *)
Lemma step_inv s t s' : Inv s -> cstep f true s t = Some s' -> Inv s'.
Proof.
  intros (Hc & Hcrit & Hlock & Hres & Hrd) Hstep. unfold cstep in Hstep.
  destruct (nth_error (cs_threads s) t) as [th|] eqn:Eth; [|discriminate].
  destruct (th_pc th) eqn:Epc.
  - (* PStart: take the lock *)
    destruct (cs_lock s) eqn:El; [discriminate|]. inversion Hstep; subst s'; clear Hstep.
    unfold Inv; cbn [cs_cache cs_lock cs_threads]. split; [exact Hc|]. repeat split.
    + intros t' th' Hn Hcr'. rewrite nth_error_set_thread, Eth in Hn.
      destruct (Nat.eqb_spec t' t) as [->|Hne]; [reflexivity|].
      specialize (Hcrit t' th' Hn Hcr'). congruence.
    + intros t' Hl'. inversion Hl'; subst t'. eexists. rewrite nth_error_set_thread, Nat.eqb_refl, Eth.
      split; reflexivity.
    + intros t' th' g Hn Hg. rewrite nth_error_set_thread, Eth in Hn.
      destruct (Nat.eqb_spec t' t) as [->|Hne].
      * inversion Hn; subst th'. cbn in Hg. destruct Hg; discriminate.
      * eapply Hres; eauto.
    + intros t' th' Hn Hp. rewrite nth_error_set_thread, Eth in Hn.
      destruct (Nat.eqb_spec t' t) as [->|Hne].
      * inversion Hn; subst th'. cbn in Hp. discriminate.
      * eapply Hrd; eauto.
  - (* PExtend *)
    assert (Hl : cs_lock s = Some t) by (eapply Hcrit; eauto; rewrite Epc; reflexivity).
    destruct (length (cs_cache s) <=? th_deg th)%nat eqn:Ecmp; inversion Hstep; subst s'; clear Hstep;
      unfold Inv; cbn [cs_cache cs_lock cs_threads].
    + (* append one generator *)
      split; [apply cache_ok_extend; exact Hc|]. repeat split; auto.
      intros t' th' Hn Hp. rewrite app_length. specialize (Hrd t' th' Hn Hp). lia.
    + (* move on to the read *)
      apply Nat.leb_gt in Ecmp.
      split; [exact Hc|]. repeat split.
      * intros t' th' Hn Hcr'. rewrite nth_error_set_thread, Eth in Hn.
        destruct (Nat.eqb_spec t' t) as [->|Hne]; [exact Hl|]. eapply Hcrit; eauto.
      * intros t' Hl'. rewrite Hl in Hl'. inversion Hl'; subst t'.
        eexists. rewrite nth_error_set_thread, Nat.eqb_refl, Eth. split; reflexivity.
      * intros t' th' g Hn Hg. rewrite nth_error_set_thread, Eth in Hn.
        destruct (Nat.eqb_spec t' t) as [->|Hne].
        -- inversion Hn; subst th'. cbn in Hg. destruct Hg; discriminate.
        -- eapply Hres; eauto.
      * intros t' th' Hn Hp. rewrite nth_error_set_thread, Eth in Hn.
        destruct (Nat.eqb_spec t' t) as [->|Hne].
        -- inversion Hn; subst th'. cbn. exact Ecmp.
        -- eapply Hrd; eauto.
  - (* PRead *)
    assert (Hl : cs_lock s = Some t) by (eapply Hcrit; eauto; rewrite Epc; reflexivity).
    pose proof (Hrd t th Eth Epc) as Hlt.
    rewrite (cache_ok_nth _ _ Hc Hlt) in Hstep. inversion Hstep; subst s'; clear Hstep.
    unfold Inv; cbn [cs_cache cs_lock cs_threads]. split; [exact Hc|]. repeat split.
    + intros t' th' Hn Hcr'. rewrite nth_error_set_thread, Eth in Hn.
      destruct (Nat.eqb_spec t' t) as [->|Hne]; [exact Hl|]. eapply Hcrit; eauto.
    + intros t' Hl'. rewrite Hl in Hl'. inversion Hl'; subst t'.
      eexists. rewrite nth_error_set_thread, Nat.eqb_refl, Eth. split; reflexivity.
    + intros t' th' g Hn Hg. rewrite nth_error_set_thread, Eth in Hn.
      destruct (Nat.eqb_spec t' t) as [->|Hne].
      * inversion Hn; subst th'. cbn in Hg. destruct Hg as [Hg|Hg]; inversion Hg. reflexivity.
      * eapply Hres; eauto.
    + intros t' th' Hn Hp. rewrite nth_error_set_thread, Eth in Hn.
      destruct (Nat.eqb_spec t' t) as [->|Hne].
      * inversion Hn; subst th'. cbn in Hp. discriminate.
      * eapply Hrd; eauto.
  - (* PUnlock *)
    assert (Hl : cs_lock s = Some t) by (eapply Hcrit; eauto; rewrite Epc; reflexivity).
    inversion Hstep; subst s'; clear Hstep.
    unfold Inv; cbn [cs_cache cs_lock cs_threads]. split; [exact Hc|]. repeat split.
    + intros t' th' Hn Hcr'. rewrite nth_error_set_thread, Eth in Hn.
      destruct (Nat.eqb_spec t' t) as [->|Hne].
      * inversion Hn; subst th'. cbn in Hcr'. discriminate.
      * specialize (Hcrit t' th' Hn Hcr'). congruence.
    + intros t' Hl'. discriminate.
    + intros t' th' g' Hn Hg. rewrite nth_error_set_thread, Eth in Hn.
      destruct (Nat.eqb_spec t' t) as [->|Hne].
      * inversion Hn; subst th'. cbn in Hg. cbn.
        destruct Hg as [Hg|Hg]; inversion Hg; subst g'. eapply Hres; eauto.
      * eapply Hres; eauto.
    + intros t' th' Hn Hp. rewrite nth_error_set_thread, Eth in Hn.
      destruct (Nat.eqb_spec t' t) as [->|Hne].
      * inversion Hn; subst th'. cbn in Hp. discriminate.
      * eapply Hrd; eauto.
  - discriminate.
Qed.

Lemma run_inv sched : forall s, Inv s -> Inv (crun f true s sched).
Proof.
  induction sched as [|t rest IH]; intros s HI; [exact HI|].
  cbn [crun]. destruct (cstep f true s t) as [s'|] eqn:E.
  - apply IH. eapply step_inv; eauto.
  - apply IH. exact HI.
Qed.

(* steps never change the number of threads nor their degrees *)
Lemma step_degs s t s' lk : cstep f lk s t = Some s' ->
  map th_deg (cs_threads s') = map th_deg (cs_threads s).
Proof.
  unfold cstep. intros H.
  destruct (nth_error (cs_threads s) t) as [th|] eqn:Eth; [|discriminate].
  assert (Hset : forall p, map th_deg (set_thread (cs_threads s) t p) = map th_deg (cs_threads s)).
  { intros p. apply nth_error_ext_len.
    - rewrite !map_length. apply set_thread_length.
    - intros i. rewrite !nth_error_map, nth_error_set_thread, Eth.
      destruct (Nat.eqb_spec i t) as [->|]; [rewrite Eth; reflexivity|reflexivity]. }
  destruct (th_pc th); try discriminate.
  - destruct lk; [destruct (cs_lock s); [discriminate|]|]; inversion H; subst; cbn; apply Hset.
  - destruct (_ <=? _)%nat; inversion H; subst; cbn; [reflexivity|apply Hset].
  - destruct (nth_error (cs_cache s) (th_deg th)); [|discriminate]. inversion H; subst; cbn; apply Hset.
  - inversion H; subst; cbn; apply Hset.
Qed.

Lemma run_degs sched lk : forall s, map th_deg (cs_threads (crun f lk s sched)) = map th_deg (cs_threads s).
Proof.
  induction sched as [|t rest IH]; intros s; [reflexivity|].
  cbn [crun]. destruct (cstep f lk s t) as [s'|] eqn:E; [|apply IH].
  rewrite IH. eapply step_degs; eauto.
Qed.

(* ---------- the safety theorem ---------- *)
Theorem mutex_safety cache degs sched :
  cache_ok f cache ->
  let s := crun f true (cinit cache degs) sched in
  (* the cache only ever holds the generators *)
  cache_ok f (cs_cache s)
  (* mutual exclusion, hence no two threads are about to access the cache together *)
  /\ (forall t1 t2 th1 th2, nth_error (cs_threads s) t1 = Some th1 -> nth_error (cs_threads s) t2 = Some th2 ->
        in_critical (th_pc th1) = true -> in_critical (th_pc th2) = true -> t1 = t2)
  /\ (forall t1 t2 th1 th2, nth_error (cs_threads s) t1 = Some th1 -> nth_error (cs_threads s) t2 = Some th2 ->
        accesses_cache (th_pc th1) = true -> accesses_cache (th_pc th2) = true -> t1 = t2)
  (* every call that has returned got exactly the generator polynomial of its degree *)
  /\ (forall t th g, nth_error (cs_threads s) t = Some th -> th_pc th = PDone g ->
        nth_error degs t = Some (th_deg th) /\ g = gen f (th_deg th)).
Proof.
  intros Hc s. pose proof (run_inv sched _ (inv_init cache degs Hc)) as (H1 & H2 & H3 & H4 & H5).
  fold s in H1, H2, H3, H4, H5.
  assert (Hmx : forall t1 t2 th1 th2, nth_error (cs_threads s) t1 = Some th1 -> nth_error (cs_threads s) t2 = Some th2 ->
        in_critical (th_pc th1) = true -> in_critical (th_pc th2) = true -> t1 = t2).
  { intros t1 t2 th1 th2 Hn1 Hn2 Hc1 Hc2.
    pose proof (H2 _ _ Hn1 Hc1). pose proof (H2 _ _ Hn2 Hc2). congruence. }
  split; [exact H1|]. split; [exact Hmx|]. split.
  - intros t1 t2 th1 th2 Hn1 Hn2 Ha1 Ha2. eapply Hmx; eauto.
    + destruct (th_pc th1); try discriminate; reflexivity.
    + destruct (th_pc th2); try discriminate; reflexivity.
  - intros t th g Hn Hp. split; [|eapply H4; eauto].
    pose proof (run_degs sched true (cinit cache degs)) as Hd. fold s in Hd.
    cbn [cinit cs_threads] in Hd. rewrite map_map in Hd. cbn [th_deg] in Hd. rewrite map_id in Hd.
    rewrite <- Hd, nth_error_map, Hn. reflexivity.
Qed.

(* ---------- progress: no deadlock, and every schedule is finite ---------- *)
Theorem mutex_no_deadlock cache degs sched :
  cache_ok f cache ->
  let s := crun f true (cinit cache degs) sched in
  all_done s = false -> exists t s', cstep f true s t = Some s'.
Proof.
  intros Hc s Hnd. pose proof (run_inv sched _ (inv_init cache degs Hc)) as (H1 & H2 & H3 & H4 & H5).
  fold s in H1, H2, H3, H4, H5.
  destruct (cs_lock s) as [t|] eqn:El.
  - (* the holder is inside and can always move *)
    destruct (H3 t eq_refl) as (th & Hn & Hcr). exists t. unfold cstep. rewrite Hn.
    destruct (th_pc th) eqn:Ep; try discriminate.
    + destruct (_ <=? _)%nat; eauto.
    + rewrite (cache_ok_nth _ _ H1 (H5 _ _ Hn Ep)). eauto.
    + eauto.
  - (* lock free: some thread is not done; it cannot be inside, so it is at PStart *)
    unfold all_done in Hnd. apply Bool.not_true_iff_false in Hnd.
    assert (Hex : exists t th, nth_error (cs_threads s) t = Some th /\
                    match th_pc th with PDone _ => False | _ => True end).
    { clear -Hnd. induction (cs_threads s) as [|th ts IH].
      - exfalso. apply Hnd. reflexivity.
      - destruct (th_pc th) eqn:Ep; try (exists 0%nat, th; cbn; rewrite Ep; auto; fail).
        destruct IH as (t & th' & Hn & Hp).
        + intros Hall. apply Hnd. cbn [forallb]. rewrite Ep. exact Hall.
        + exists (S t), th'. auto. }
    destruct Hex as (t & th & Hn & Hp). exists t. unfold cstep. rewrite Hn.
    destruct (th_pc th) eqn:Ep; try (exfalso; exact Hp);
      try (exfalso; specialize (H2 t th Hn); rewrite Ep in H2; specialize (H2 eq_refl); discriminate).
    rewrite El. eauto.
Qed.

(* a measure that strictly decreases with every step: every schedule has at
   most (measure of the initial state) effective steps *)
Definition tweight (clen : nat) (th : thread) : nat :=
  match th_pc th with
  | PStart => 4 + (S (th_deg th) - clen)
  | PExtend => 3 + (S (th_deg th) - clen)
  | PRead => 2
  | PUnlock _ => 1
  | PDone _ => 0
  end.

Definition cmeasure (s : cstate) : nat :=
  fold_right (fun th acc => tweight (length (cs_cache s)) th + acc)%nat 0%nat (cs_threads s).

Lemma sum_le_mono (w1 w2 : thread -> nat) ts :
  (forall th, w2 th <= w1 th)%nat ->
  (fold_right (fun th acc => w2 th + acc) 0 ts <= fold_right (fun th acc => w1 th + acc) 0 ts)%nat.
Proof. intros H. induction ts as [|th ts IH]; cbn; [lia|]. specialize (H th). lia. Qed.

Lemma sum_set_thread (w : thread -> nat) ts t th p :
  nth_error ts t = Some th ->
  (w {| th_deg := th_deg th; th_pc := p |} < w th)%nat ->
  (fold_right (fun th acc => w th + acc) 0 (set_thread ts t p)
   < fold_right (fun th acc => w th + acc) 0 ts)%nat.
Proof.
  unfold set_thread. intros Hn Hw. rewrite Hn. revert t Hn.
  induction ts as [|x ts IH]; intros [|t] Hn; cbn in *; try discriminate.
  - inversion Hn; subst. lia.
  - specialize (IH t Hn). lia.
Qed.

Lemma sum_extend_lt ts t th clen :
  nth_error ts t = Some th -> th_pc th = PExtend -> (clen <= th_deg th)%nat ->
  (fold_right (fun th acc => tweight (S clen) th + acc) 0 ts
   < fold_right (fun th acc => tweight clen th + acc) 0 ts)%nat.
Proof.
  revert t. induction ts as [|x ts IH]; intros [|t] Hn Hp Hle; cbn in *; try discriminate.
  - inversion Hn; subst x.
    assert (tweight (S clen) th < tweight clen th)%nat by (unfold tweight; rewrite Hp; lia).
    pose proof (sum_le_mono (tweight clen) (tweight (S clen)) ts) as Hm.
    assert (forall th0, (tweight (S clen) th0 <= tweight clen th0)%nat)
      by (intros th0; unfold tweight; destruct (th_pc th0); lia).
    specialize (Hm H0). lia.
  - specialize (IH t Hn Hp Hle).
    assert (tweight (S clen) x <= tweight clen x)%nat by (unfold tweight; destruct (th_pc x); lia).
    lia.
Qed.

Theorem step_decreases s t s' : cstep f true s t = Some s' -> (cmeasure s' < cmeasure s)%nat.
Proof.
  unfold cstep, cmeasure. intros H.
  destruct (nth_error (cs_threads s) t) as [th|] eqn:Eth; [|discriminate].
  destruct (th_pc th) eqn:Ep.
  - destruct (cs_lock s); [discriminate|]. inversion H; subst; cbn [cs_cache cs_threads].
    eapply sum_set_thread; eauto. unfold tweight. cbn. rewrite Ep. lia.
  - destruct (length (cs_cache s) <=? th_deg th)%nat eqn:Ec; inversion H; subst; cbn [cs_cache cs_threads].
    + rewrite app_length. cbn [length]. rewrite Nat.add_1_r.
      apply Nat.leb_le in Ec. eapply sum_extend_lt; eauto.
    + eapply sum_set_thread; eauto. unfold tweight. cbn. rewrite Ep. lia.
  - destruct (nth_error (cs_cache s) (th_deg th)); [|discriminate].
    inversion H; subst; cbn [cs_cache cs_threads].
    eapply sum_set_thread; eauto. unfold tweight. cbn. rewrite Ep. lia.
  - inversion H; subst; cbn [cs_cache cs_threads].
    eapply sum_set_thread; eauto. unfold tweight. cbn. rewrite Ep. lia.
  - discriminate.
Qed.

End Mutex.

(* ---------- (ii) channels ---------- *)
Definition mkch ts cl c d r : chstate :=
  {| ch_tosend := ts; ch_closed := cl; ch_cons := c; ch_cons_done := d; ch_received := r |}.

Lemma chrun_stuck n s : chstep s = None -> chrun n s = s.
Proof. intros H. destruct n; cbn; [reflexivity|rewrite H; reflexivity]. Qed.

Lemma chrun_S n s s' : chstep s = Some s' -> chrun (S n) s = chrun n s'.
Proof. intros H. cbn. rewrite H. reflexivity. Qed.

(* range consumer: final state is closed / done / everything received in order *)
Lemma range_run vals : forall acc n, (length vals + 2 <= n)%nat ->
  chrun n (mkch vals false CRange false acc) = mkch [] true CRange true (rev vals ++ acc).
Proof.
  induction vals as [|v vs IH]; intros acc n Hn.
  - destruct n as [|[|n]]; cbn in Hn; try lia.
    rewrite (chrun_S _ _ (mkch [] true CRange false acc)) by reflexivity.
    rewrite (chrun_S _ _ (mkch [] true CRange true acc)) by reflexivity.
    apply chrun_stuck. reflexivity.
  - destruct n as [|n]; cbn [length] in Hn; [lia|].
    rewrite (chrun_S _ _ (mkch vs false CRange false (v :: acc))) by reflexivity.
    rewrite IH by lia. cbn [rev]. rewrite <- app_assoc. reflexivity.
Qed.

Theorem range_consumer_drains vals :
  let s := chrun (2 * length vals + 3) (chinit vals CRange) in
  producer_finished s = true /\ ch_cons_done s = true /\ ch_tosend s = [] /\ rev (ch_received s) = vals
  /\ chstep s = None.
Proof.
  cbn zeta. unfold chinit. change (chrun (2 * length vals + 3) _) with
    (chrun (2 * length vals + 3) (mkch vals false CRange false [])).
  rewrite range_run by lia. rewrite app_nil_r. cbn. rewrite rev_involutive. repeat split.
Qed.

(* consumer performing exactly k receives *)
Lemma recv_closed_run k : forall acc n, (k + 1 <= n)%nat ->
  exists r, chrun n (mkch [] true (CRecv k) false acc) = mkch [] true (CRecv 0) true r.
Proof.
  induction k as [|k IH]; intros acc n Hn.
  - destruct n as [|n]; [lia|]. exists acc.
    rewrite (chrun_S _ _ (mkch [] true (CRecv 0) true acc)) by reflexivity.
    apply chrun_stuck. reflexivity.
  - destruct n as [|n]; [lia|].
    rewrite (chrun_S _ _ (mkch [] true (CRecv k) false (0 :: acc))) by reflexivity.
    apply IH. lia.
Qed.

Lemma recv_run vals : forall k acc n, (length vals + k + 3 <= n)%nat ->
  exists ts cl r, chrun n (mkch vals false (CRecv k) false acc) = mkch ts cl (CRecv 0) true r
    /\ chstep (mkch ts cl (CRecv 0) true r) = None
    /\ (cl = true <-> (length vals <= k)%nat).
Proof.
  induction vals as [|v vs IH]; intros k acc n Hn.
  - destruct k as [|k].
    + (* consumer stops; producer closes *)
      destruct n as [|[|n]]; cbn in Hn; try lia.
      rewrite (chrun_S _ _ (mkch [] false (CRecv 0) true acc)) by reflexivity.
      rewrite (chrun_S _ _ (mkch [] true (CRecv 0) true acc)) by reflexivity.
      rewrite chrun_stuck by reflexivity.
      exists [], true, acc. repeat split; auto; try (cbn; lia).
    + destruct n as [|n]; [cbn in Hn; lia|].
      rewrite (chrun_S _ _ (mkch [] true (CRecv (S k)) false acc)) by reflexivity.
      destruct (recv_closed_run (S k) acc n ltac:(cbn in Hn; lia)) as (r & Hr).
      rewrite Hr. exists [], true, r. repeat split; auto; try (cbn; lia).
  - destruct k as [|k].
    + (* consumer stops at once: the producer is blocked on its first send forever *)
      destruct n as [|n]; [cbn in Hn; lia|].
      rewrite (chrun_S _ _ (mkch (v :: vs) false (CRecv 0) true acc)) by reflexivity.
      rewrite chrun_stuck by reflexivity.
      exists (v :: vs), false, acc. repeat split; auto; try discriminate; try (cbn [length]; lia).
    + destruct n as [|n]; [cbn in Hn; lia|].
      rewrite (chrun_S _ _ (mkch vs false (CRecv k) false (v :: acc))) by reflexivity.
      destruct (IH k (v :: acc) n ltac:(cbn [length] in Hn; lia)) as (ts & cl & r & Hrun & Hst & Hiff).
      exists ts, cl, r. split; [exact Hrun|]. split; [exact Hst|].
      cbn [length]. rewrite Hiff. lia.
Qed.

Theorem recv_consumer_no_leak_iff vals k :
  let s := chrun (length vals + k + 3) (chinit vals (CRecv k)) in
  chstep s = None /\ ch_cons_done s = true /\
  (producer_finished s = true <-> (length vals <= k)%nat).
Proof.
  cbn zeta. unfold chinit.
  destruct (recv_run vals k [] (length vals + k + 3)%nat ltac:(lia)) as (ts & cl & r & Hrun & Hst & Hiff).
  change (chrun (length vals + k + 3) _) with (chrun (length vals + k + 3) (mkch vals false (CRecv k) false [])).
  rewrite Hrun. split; [exact Hst|]. split; [reflexivity|exact Hiff].
Qed.

(* qr.encodeAlphaNumeric / stringToAlphaIdx: for every content the consumer
   performs at least as many receives as the producer performs sends *)
Lemma alpha_sends_shape idxs :
  (Forall (fun i => 0 <= i) idxs /\ alpha_sends idxs = idxs)
  \/ (exists pre x, alpha_sends idxs = pre ++ [x] /\ Forall (fun i => 0 <= i) pre /\ x < 0
                    /\ (length pre < length idxs)%nat).
Proof.
  induction idxs as [|i rest IH].
  - left. split; [constructor|reflexivity].
  - cbn [alpha_sends]. destruct (i <? 0) eqn:E.
    + right. exists [], i. cbn. split; [reflexivity|]. split; [constructor|]. split; lia.
    + destruct IH as [[Hf He]|(pre & x & He & Hf & Hx & Hl)].
      * left. split; [constructor; [lia|exact Hf]|rewrite He; reflexivity].
      * right. exists (i :: pre), x. rewrite He. cbn. repeat split; auto; try lia. constructor; [lia|exact Hf].
Qed.

Lemma scan_none pairs : forall off s, alpha_scan pairs off s = None ->
  forall j, (off <= j < off + 2 * pairs)%nat -> 0 <= nth j s 0.
Proof.
  induction pairs as [|p IH]; intros off s H j Hj; [lia|].
  cbn [alpha_scan] in H.
  destruct ((nth off s 0 <? 0) || (nth (S off) s 0 <? 0)) eqn:E; [discriminate|].
  apply orb_false_iff in E. destruct E as [E1 E2].
  destruct (Nat.eq_dec j off) as [->|]; [lia|].
  destruct (Nat.eq_dec j (S off)) as [->|]; [lia|].
  apply (IH (off + 2)%nat s H). lia.
Qed.

Lemma scan_some pairs : forall off s n, alpha_scan pairs off s = Some n ->
  exists j, (j < n)%nat /\ (n <= j + 2)%nat /\ nth j s 0 < 0.
Proof.
  induction pairs as [|p IH]; intros off s n H; [discriminate|].
  cbn [alpha_scan] in H.
  destruct ((nth off s 0 <? 0) || (nth (S off) s 0 <? 0)) eqn:E.
  - inversion H; subst n. apply orb_true_iff in E. destruct E as [E|E].
    + exists off. repeat split; lia.
    + exists (S off). repeat split; lia.
  - apply (IH _ _ _ H).
Qed.

(* len = byte length of the content; idxs has one entry per rune, so
   length idxs <= len *)
Theorem alpha_consumer_receives_all idxs len :
  (length idxs <= len)%nat ->
  (length (alpha_sends idxs) <= alpha_recv_count len (alpha_sends idxs))%nat.
Proof.
  intros Hlen. unfold alpha_recv_count.
  pose proof (Nat.div_mod_eq len 2) as Hdm.
  assert (Hodd : (len mod 2 = if Nat.odd len then 1 else 0)%nat).
  { rewrite <- Nat.bit0_mod, Nat.bit0_odd. destruct (Nat.odd len); reflexivity. }
  destruct (alpha_sends_shape idxs) as [[Hf He]|(pre & x & He & Hf & Hx & Hl)].
  - rewrite He. destruct (alpha_scan (len / 2) 0 idxs) as [n|] eqn:Es; [|lia].
    destruct (scan_some _ _ _ _ Es) as (j & J1 & J2 & J3). exfalso.
    destruct (Nat.lt_ge_cases j (length idxs)) as [Hj|Hj].
    + rewrite Forall_forall in Hf. specialize (Hf (nth j idxs 0) (nth_In _ _ Hj)). lia.
    + rewrite nth_overflow in J3 by exact Hj. lia.
  - rewrite He. rewrite app_length. cbn [length].
    destruct (alpha_scan (len / 2) 0 (pre ++ [x])) as [n|] eqn:Es.
    + destruct (scan_some _ _ _ _ Es) as (j & J1 & J2 & J3).
      assert (j = length pre).
      { destruct (Nat.lt_trichotomy j (length pre)) as [Hj|[Hj|Hj]]; [|exact Hj|].
        - rewrite app_nth1 in J3 by exact Hj.
          rewrite Forall_forall in Hf. specialize (Hf (nth j pre 0) (nth_In pre 0 Hj)). lia.
        - rewrite nth_overflow in J3 by (rewrite app_length; cbn; lia). lia. }
      lia.
    + (* no negative value among the first 2*(len/2) received ones *)
      pose proof (scan_none _ _ _ Es) as Hnn.
      assert (Hlong : (2 * (len / 2) <= length pre)%nat).
      { destruct (Nat.le_gt_cases (2 * (len / 2)) (length pre)) as [|Hgt]; [assumption|exfalso].
        specialize (Hnn (length pre) ltac:(lia)).
        rewrite app_nth2, Nat.sub_diag in Hnn by lia. cbn in Hnn. lia. }
      lia.
Qed.
