(* QR layer 3e: the module matrix (unbounded in the written values).
   Writing values at a duplicate-free list of in-range cells never panics, leaves
   every other cell unchanged and reads back exactly the written values; hence
   data placement followed by unmasking returns the placed bits, and the format
   information drawn at its 30 targets reads back as two copies.  The rows of a
   matrix, read like an image, are its cells. *)
From Coq Require Import FMapPositive.
From Verif Require Import Prelude Barcode BitListM TabQr QRMBits QRMBlocks QRMRender QRM QRSpec
  QRP1Tables QRP2Layout QRP3Bits.

Local Ltac Zify.zify_post_hook ::= Z.div_mod_to_equations.
#[local] Arguments Z.mul : simpl never.
#[local] Arguments Z.add : simpl never.
#[local] Arguments Z.sub : simpl never.
#[local] Arguments Z.of_nat : simpl never.
#[local] Arguments Z.to_nat : simpl never.

(* ---------- one cell ---------- *)
Lemma qm_in_range m p : in_range (qm_dim m) p -> qm_in m (qm_index m (fst p) (snd p)) = true.
Proof.
  destruct p as [x y]. unfold in_range, qm_in, qm_index; cbn [fst snd]. intros [Hx Hy].
  apply andb_true_iff. split; [nia|]. apply Z.ltb_lt. nia.
Qed.

Lemma peek_key m q : peek m q =
  match PositiveMap.find (cell_key (qm_dim m) q) (qm_bits m) with Some b => b | None => false end.
Proof. reflexivity. Qed.

Lemma qm_set_spec m p v : in_range (qm_dim m) p ->
  exists m', qm_set m (fst p) (snd p) v = Ok m' /\ qm_dim m' = qm_dim m
    /\ peek m' p = v
    /\ forall q, cell_key (qm_dim m) q <> cell_key (qm_dim m) p -> peek m' q = peek m q.
Proof.
  intros Hp. unfold qm_set. rewrite qm_in_range by exact Hp.
  eexists. split; [reflexivity|]. split; [reflexivity|]. split.
  - rewrite peek_key. cbn [qm_dim qm_bits]. unfold cell_key, qm_index.
    rewrite PositiveMap.gss. reflexivity.
  - intros q Hq. rewrite !peek_key. cbn [qm_dim qm_bits].
    unfold cell_key, qm_index in *. rewrite PositiveMap.gso by exact Hq. reflexivity.
Qed.

Lemma qm_get_spec m p : in_range (qm_dim m) p -> qm_get m (fst p) (snd p) = Ok (peek m p).
Proof. intros Hp. unfold qm_get. rewrite qm_in_range by exact Hp. reflexivity. Qed.

(* ---------- writing a list of cells ---------- *)
Definition set_cell (m : qrmat) (w : (Z * Z) * bool) : outcome qrmat :=
  qm_set m (fst (fst w)) (snd (fst w)) (snd w).

Theorem write_cells_spec dim : forall (ws : list ((Z * Z) * bool)) m,
  qm_dim m = dim ->
  Forall (in_range dim) (map fst ws) ->
  NoDup (map (cell_key dim) (map fst ws)) ->
  exists m', ofold set_cell ws m = Ok m' /\ qm_dim m' = dim
    /\ (forall q, ~ In (cell_key dim q) (map (cell_key dim) (map fst ws)) -> peek m' q = peek m q)
    /\ map (peek m') (map fst ws) = map snd ws.
Proof.
  induction ws as [|[p v] ws IH]; intros m Hd Hr Hnd.
  - exists m. cbn. auto.
  - cbn [map fst snd] in Hr, Hnd. inversion Hr as [|? ? Hp Hr']; subst.
    inversion Hnd as [|? ? Hnotin Hnd']; subst.
    destruct (qm_set_spec m p v Hp) as (m1 & E1 & D1 & P1 & F1).
    cbn [ofold]. unfold set_cell at 1. cbn [fst snd]. rewrite E1. cbn [obind].
    destruct (IH m1 D1 Hr' Hnd') as (m' & E' & D' & F' & R').
    exists m'. split; [exact E'|]. split; [exact D'|]. split.
    + intros q Hq. cbn [map In fst] in Hq.
      rewrite F' by tauto. apply F1. intros Hk. apply Hq. left. symmetry. exact Hk.
    + cbn [map fst snd]. rewrite R'. f_equal. rewrite F' by exact Hnotin. exact P1.
Qed.

(* ---------- data placement ---------- *)
(* the first n of the bits, continued with false *)
Fixpoint take_pad (n : nat) (bits : list bool) : list bool :=
  match n with
  | O => []
  | S n' =>
    match bits with
    | [] => false :: take_pad n' []
    | b :: r => b :: take_pad n' r
    end
  end.

Lemma take_pad_app l : forall r, take_pad (length l + r) l = l ++ repeat false r.
Proof.
  induction l as [|b l IH]; intros r; cbn [length Nat.add app].
  - induction r as [|r IHr]; [reflexivity|]. cbn [take_pad repeat]. rewrite IHr. reflexivity.
  - cbn [take_pad]. rewrite IH. reflexivity.
Qed.

Fixpoint masked_writes (order : list (Z * Z)) (bits : list bool) (mask : Z) : list ((Z * Z) * bool) :=
  match order with
  | [] => []
  | p :: t =>
    let '(b, bits') := match bits with [] => (false, []) | b :: r => (b, r) end in
    (p, xorb b (mask_bit mask (fst p) (snd p))) :: masked_writes t bits' mask
  end.

Lemma place_bits_as_writes order : forall bits mask m,
  place_bits order bits mask m = ofold set_cell (masked_writes order bits mask) m.
Proof.
  induction order as [|[x y] t IH]; intros bits mask m; [reflexivity|].
  destruct bits as [|b r]; cbn [place_bits masked_writes ofold fst snd];
    unfold set_masked; unfold set_cell at 1; cbn [fst snd];
    destruct (qm_set m x y _); cbn [obind]; try reflexivity; apply IH.
Qed.

Lemma masked_writes_cells order : forall bits mask, map fst (masked_writes order bits mask) = order.
Proof.
  induction order as [|p t IH]; intros bits mask; [reflexivity|].
  cbn [masked_writes]. destruct bits as [|b r]; cbn [map fst]; rewrite IH; reflexivity.
Qed.

Lemma masked_writes_unmask order : forall bits mask,
  map (fun w => xorb (snd w) (mask_bit mask (fst (fst w)) (snd (fst w)))) (masked_writes order bits mask)
  = take_pad (length order) bits.
Proof.
  induction order as [|p t IH]; intros bits mask; [reflexivity|].
  cbn [masked_writes length take_pad]. destruct bits as [|b r]; cbn [map fst snd];
    rewrite IH, unmask_mask; reflexivity.
Qed.

Theorem place_bits_spec dim order bits mask m :
  qm_dim m = dim -> Forall (in_range dim) order -> NoDup (map (cell_key dim) order) ->
  exists m', place_bits order bits mask m = Ok m' /\ qm_dim m' = dim
    /\ (forall q, ~ In (cell_key dim q) (map (cell_key dim) order) -> peek m' q = peek m q)
    /\ map (fun p => xorb (peek m' p) (mask_bit mask (fst p) (snd p))) order
       = take_pad (length order) bits.
Proof.
  intros Hd Hr Hnd. rewrite place_bits_as_writes.
  pose proof (masked_writes_cells order bits mask) as Hc.
  destruct (write_cells_spec dim (masked_writes order bits mask) m Hd) as (m' & E & D & F & R).
  { rewrite Hc. exact Hr. } { rewrite Hc. exact Hnd. }
  rewrite Hc in F, R. exists m'. split; [exact E|]. split; [exact D|]. split; [exact F|].
  rewrite <- masked_writes_unmask with (mask := mask).
  rewrite <- Hc at 1. rewrite map_map.
  (* pointwise: the value read at a written cell is the written value *)
  assert (Hpt : map (peek m') (map fst (masked_writes order bits mask)) = map snd (masked_writes order bits mask))
    by (rewrite Hc; exact R).
  clear - Hpt. induction (masked_writes order bits mask) as [|w ws IH]; [reflexivity|].
  cbn [map] in *. inversion Hpt as [[H1 H2]]. rewrite H1. f_equal. apply IH. exact H2.
Qed.

(* ---------- format information ---------- *)
Definition format_writes (dim : Z) (f : list bool) : list ((Z * Z) * bool) :=
  map (fun t => ((fst (fst t), snd (fst t)), nth (Z.to_nat (snd t)) f false)) (format_targets dim).

Lemma draw_format_as_writes dim f m : zlength f = 15 ->
  Forall (fun i => 0 <= i < 15) (map snd (format_targets dim)) ->
  draw_format_info dim f m = ofold set_cell (format_writes dim f) m.
Proof.
  intros Hf Hi. unfold draw_format_info, format_writes. rewrite Hf. cbn [Z.eqb Pos.eqb].
  revert m Hi. generalize (format_targets dim) as ts.
  induction ts as [|[[x y] i] ts IH]; intros m Hi; [reflexivity|].
  cbn [map snd] in Hi. inversion Hi as [|? ? Hi0 Hi']; subst.
  cbn [ofold map fst snd]. unfold set_cell at 1. cbn [fst snd].
  assert (zget f i = Some (nth (Z.to_nat i) f false)) as ->.
  { unfold zget. replace (i <? 0) with false by lia. apply nth_error_nth'. unfold zlength in Hf. lia. }
  destruct (qm_set m x y _); cbn [obind]; try reflexivity. apply IH. exact Hi'.
Qed.

Lemma nth_15 (f : list bool) : length f = 15%nat ->
  map (fun i => nth (Z.to_nat i) f false) (sseq 0 15 ++ sseq 0 15) = f ++ f.
Proof.
  intros H. do 15 (destruct f as [|? f]; [discriminate|]). destruct f; [|discriminate]. reflexivity.
Qed.

Theorem draw_format_spec v f m :
  let dim := spec_size v in
  zlength f = 15 -> qm_dim m = dim ->
  map (fun q => (fst (fst q), snd (fst q))) (format_targets dim) = format_cells dim ->
  map snd (format_targets dim) = sseq 0 15 ++ sseq 0 15 ->
  Forall (in_range dim) (format_cells dim) ->
  NoDup (map (cell_key dim) (format_cells dim)) ->
  exists m', draw_format_info dim f m = Ok m' /\ qm_dim m' = dim
    /\ (forall q, ~ In (cell_key dim q) (map (cell_key dim) (format_cells dim)) -> peek m' q = peek m q)
    /\ map (peek m') (format_cells dim) = f ++ f.
Proof.
  intros dim Hf Hd Hcells Hidx Hr Hnd.
  assert (Hi : Forall (fun i => 0 <= i < 15) (map snd (format_targets dim))).
  { rewrite Hidx. apply Forall_forall. intros i Hi. apply in_app_or in Hi.
    destruct Hi as [Hi|Hi]; apply sseq_in in Hi; lia. }
  rewrite draw_format_as_writes by assumption.
  assert (Hc : map fst (format_writes dim f) = format_cells dim).
  { unfold format_writes. rewrite map_map. cbn [fst]. exact Hcells. }
  destruct (write_cells_spec dim (format_writes dim f) m Hd) as (m' & E & D & F & R).
  { rewrite Hc. exact Hr. } { rewrite Hc. exact Hnd. }
  rewrite Hc in F, R. exists m'. split; [exact E|]. split; [exact D|]. split; [exact F|].
  rewrite R. unfold format_writes. rewrite map_map. cbn [snd].
  rewrite <- (map_map snd (fun i => nth (Z.to_nat i) f false)), Hidx.
  apply nth_15. unfold zlength in Hf. lia.
Qed.

(* ---------- rows of the image ---------- *)
Lemma zseq_length n : forall lo, length (zseq lo n) = n.
Proof. induction n as [|n IH]; intros lo; cbn [zseq length]; [reflexivity|]. rewrite IH. reflexivity. Qed.

Lemma zseq_nth n : forall lo i d, (i < n)%nat -> nth i (zseq lo n) d = lo + Z.of_nat i.
Proof.
  induction n as [|n IH]; intros lo i d Hi; [lia|].
  destruct i as [|i]; cbn [zseq nth]; [lia|]. rewrite IH by lia. lia.
Qed.

Lemma rows_of_length m : length (rows_of m) = Z.to_nat (qm_dim m).
Proof. unfold rows_of. rewrite map_length, zseq_length. reflexivity. Qed.

Lemma rows_of_square m : rows_square (rows_of m) = true.
Proof.
  unfold rows_square. apply forallb_forall. intros r Hr. rewrite rows_of_length.
  unfold rows_of in Hr. apply in_map_iff in Hr. destruct Hr as (y & <- & _).
  rewrite map_length, zseq_length. apply Nat.eqb_refl.
Qed.

Lemma nth_map_in {A B} (f : A -> B) (l : list A) : forall i d d', (i < length l)%nat ->
  nth i (map f l) d = f (nth i l d').
Proof.
  induction l as [|a l IH]; intros i d d' Hi; [cbn in Hi; lia|].
  destruct i as [|i]; [reflexivity|]. cbn [map nth]. apply IH. cbn in Hi. lia.
Qed.

Theorem px_of_rows_of m x y : 0 <= x < qm_dim m -> 0 <= y < qm_dim m ->
  px_of_rows (rows_of m) x y = qm_peek m x y.
Proof.
  intros Hx Hy. unfold px_of_rows, rows_of.
  set (idx := zseq 0 (Z.to_nat (qm_dim m))).
  assert (Hl : length idx = Z.to_nat (qm_dim m)) by apply zseq_length.
  rewrite (nth_map_in _ idx (Z.to_nat y) [] 0) by lia.
  rewrite (nth_map_in _ idx (Z.to_nat x) false 0) by lia.
  unfold idx. rewrite !zseq_nth by lia. f_equal; lia.
Qed.
