(* C17: instantiation of the generic field / polynomial / Reed-Solomon theorems
   at every field the library constructs (tables dumped from /repo by gotab). *)
From Coq Require Import FMapPositive.
From Verif Require Import Prelude GFM TabGF GFSpec GFP PolyP PolyCoefP RSP RSUniqueP.

(* the dumped run-time tables are exactly what the model of NewGaloisField
   builds from the primitive polynomials of the standards *)
Lemma library_fields_match_iso :
  (length gfdump_all =? length iso_fields)%nat
  && forallb (fun q => dump_matches (fst q) (snd q)) (combine gfdump_all iso_fields) = true.
Proof. vm_compute. reflexivity. Qed.

Lemma library_fields_ok : forallb gf_ok library_fields = true.
Proof. vm_compute. reflexivity. Qed.

Lemma lib_ok f : In f library_fields -> gf_ok f = true.
Proof. intros H. pose proof library_fields_ok as Hall. rewrite forallb_forall in Hall. auto. Qed.

Lemma qr_field_ok : gf_ok (field_of_dump gfdump_qr) = true.
Proof. vm_compute. reflexivity. Qed.
Lemma dm_field_ok : gf_ok (field_of_dump gfdump_datamatrix) = true.
Proof. vm_compute. reflexivity. Qed.
Lemma qr_field_params : gf_size (field_of_dump gfdump_qr) = 256 /\ gf_base (field_of_dump gfdump_qr) = 0.
Proof. vm_compute. split; reflexivity. Qed.
Lemma dm_field_params : gf_size (field_of_dump gfdump_datamatrix) = 256 /\ gf_base (field_of_dump gfdump_datamatrix) = 1.
Proof. vm_compute. split; reflexivity. Qed.

Definition in_field (f : gfield) (x : Z) : Prop := 0 <= x < gf_size f.

Theorem field_laws : forall f, In f library_fields ->
  forall a b c, in_field f a -> in_field f b -> in_field f c ->
    in_field f (gf_mul f a b)
    /\ gf_mul f a b = gf_mul f b a
    /\ gf_mul f (gf_mul f a b) c = gf_mul f a (gf_mul f b c)
    /\ gf_mul f a 1 = a
    /\ gf_mul f a (Z.lxor b c) = Z.lxor (gf_mul f a b) (gf_mul f a c)
    /\ (a <> 0 -> in_field f (gf_inv f a) /\ gf_mul f a (gf_inv f a) = 1)
    /\ (b <> 0 -> exists q, gf_div f a b = Ok q /\ in_field f q /\ gf_mul f q b = a)
    /\ (b <> 0 -> gf_div f (gf_mul f a b) b = Ok a)
    /\ gf_div f a 0 = Panic
    /\ (gf_mul f a b = 0 -> a = 0 \/ b = 0).
Proof.
  intros f Hin a b c Ha Hb Hc. pose proof (lib_ok f Hin) as Hok. unfold in_field in *.
  split; [apply gf_mul_range; assumption|].
  split; [apply gf_mul_comm|].
  split; [apply gf_mul_assoc; assumption|].
  split; [apply gf_mul_1_r; assumption|].
  split; [apply gf_mul_distr_l; assumption|].
  split.
  { intros Hna. destruct (gf_inv_spec f Hok a ltac:(lia)) as (_ & H1 & H2). split; [lia|exact H2]. }
  split; [intros Hnb; apply gf_div_spec; [exact Hok|assumption|lia]|].
  split; [intros Hnb; apply gf_div_mul; [exact Hok|assumption|lia]|].
  split; [reflexivity|].
  apply gf_mul_eq_0; assumption.
Qed.

(* the table-driven product is the textbook product in GF(2)[x]/(pp), checked
   exhaustively for every operand pair of the fields with up to 256 elements *)
Fixpoint zseq' (s : Z) (n : nat) : list Z :=
  match n with O => [] | S m => s :: zseq' (s + 1) m end.

Definition mul_is_textbook (p : Z * Z * Z) : bool :=
  let '(pp, size, base) := p in
  let f := gf_new pp size base in
  let m := Z.to_nat (Z.log2 size) in
  let els := zseq' 0 (Z.to_nat size) in
  forallb (fun a => forallb (fun b => gf_mul f a b =? clmul pp size m a b) els) els.

Definition small_iso_fields : list (Z * Z * Z) :=
  filter (fun p => snd (fst p) <=? 256) iso_fields.

Lemma small_fields_textbook : forallb mul_is_textbook small_iso_fields = true.
Proof. vm_compute. reflexivity. Qed.

Lemma in_zseq' x : forall n s, s <= x < s + Z.of_nat n -> In x (zseq' s n).
Proof.
  induction n as [|n IH]; intros s H; [lia|].
  cbn [zseq']. destruct (Z.eq_dec s x) as [->|Hne]; [left; reflexivity|]. right. apply IH. lia.
Qed.

Theorem mul_textbook : forall pp size base, In (pp, size, base) small_iso_fields ->
  forall a b, 0 <= a < size -> 0 <= b < size ->
  gf_mul (gf_new pp size base) a b = clmul pp size (Z.to_nat (Z.log2 size)) a b.
Proof.
  intros pp size base Hin a b Ha Hb.
  pose proof small_fields_textbook as H. rewrite forallb_forall in H.
  specialize (H _ Hin). unfold mul_is_textbook in H.
  rewrite forallb_forall in H. specialize (H a (in_zseq' a (Z.to_nat size) 0 ltac:(lia))).
  rewrite forallb_forall in H. specialize (H b (in_zseq' b (Z.to_nat size) 0 ltac:(lia))).
  lia.
Qed.

(* polynomials as NewGFPoly produces them: non-empty, no leading zero unless [0],
   coefficients in the field *)
Definition poly_ok (f : gfield) (p : poly) : Prop := pnormal p /\ Forall (in_field f) p.

Theorem poly_division : forall f, In f library_fields ->
  forall p g, poly_ok f p -> poly_ok f g -> poly_is_zero g = false ->
  exists q r, poly_div f p g = Ok (q, r) /\ poly_ok f q /\ poly_ok f r
    /\ ((length r < length g)%nat \/ poly_is_zero r = true)
    /\ poly_add (poly_mul f q g) r = p
    /\ forall y, in_field f y ->
       poly_eval f p y = Z.lxor (gf_mul f (poly_eval f q y) (poly_eval f g y)) (poly_eval f r y).
Proof.
  intros f Hin p g [Hpn Hpr] [Hgn Hgr] Hgz. pose proof (lib_ok f Hin) as Hok.
  destruct (poly_div_eval f Hok p g Hpn Hpr Hgn Hgr Hgz) as (q & r & H1 & H2 & H3 & H4 & H5 & H6 & H7).
  exists q, r. unfold poly_ok.
  split; [exact H1|]. split; [split; assumption|]. split; [split; assumption|]. split; [exact H6|].
  split; [exact (poly_div_coef f Hok p g q r Hpn Hpr Hgn Hgr Hgz H1)|exact H7].
Qed.

Definition request_ok (f : gfield) (r : list Z * Z) : Prop :=
  1 <= snd r /\ gf_base f + snd r <= gf_size f /\ Forall (in_field f) (fst r).

Theorem rs_correct : forall f, In f library_fields ->
  forall history data k, Forall (request_ok f) history -> request_ok f (data, k) ->
  exists cache cache' ecc,
    rs_run f rs_init history = Ok cache
    /\ rs_encode f cache data k = Ok (cache', ecc)
    /\ rs_encode_fresh f data k = Ok ecc
    /\ zlength ecc = k /\ Forall (in_field f) ecc
    /\ forall i, 0 <= i < k ->
       poly_eval f (data ++ ecc) (tget (gf_alog f) (gf_base f + i)) = 0.
Proof.
  intros f Hin history data k Hh (Hk & Hb & Hd). cbn [fst snd] in *.
  pose proof (lib_ok f Hin) as Hok.
  destruct (rs_encode_after_history f Hok history data k Hh Hk Hb Hd) as (cache & c' & ecc & Hrun & Henc & Hfresh).
  destruct (rs_encode_valid f data k Hok Hk Hb Hd) as (ecc2 & Hf2 & Hlen & Hr & Hroots).
  assert (ecc2 = ecc) by congruence. subst ecc2.
  exists cache, c', ecc. repeat split; auto.
Qed.

(* ... and these are the ONLY k symbols with that property, as long as the k roots
   are distinct (base + k <= size - 1) *)
Theorem rs_unique : forall f, In f library_fields ->
  forall data k ecc ecc', 1 <= k -> gf_base f + k <= gf_size f - 1 ->
  Forall (in_field f) data -> Forall (in_field f) ecc -> Forall (in_field f) ecc' ->
  zlength ecc = k -> zlength ecc' = k ->
  (forall i, 0 <= i < k -> poly_eval f (data ++ ecc) (tget (gf_alog f) (gf_base f + i)) = 0) ->
  (forall i, 0 <= i < k -> poly_eval f (data ++ ecc') (tget (gf_alog f) (gf_base f + i)) = 0) ->
  ecc = ecc'.
Proof.
  intros f Hin. apply rs_check_symbols_unique. apply lib_ok. exact Hin.
Qed.

(* non-vacuity: QR's field is a library field, and a concrete request history *)
Example library_has_qr_field : In (field_of_dump gfdump_qr) library_fields.
Proof. left. reflexivity. Qed.

Example rs_example :
  rs_encode_fresh (field_of_dump gfdump_qr)
    [16; 32; 12; 86; 97; 128; 236; 17; 236; 17; 236; 17; 236; 17; 236; 17] 10
  = Ok [165; 36; 212; 193; 237; 54; 199; 135; 44; 85].
Proof. vm_compute. reflexivity. Qed.
