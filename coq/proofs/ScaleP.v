(* Proofs for property C09: the model of scaledbarcode.go (ScaleM.v) satisfies the
   specification written from the property text (ScaleSpec.v), for ALL sources,
   ALL requests inside the guard, and ALL chains of repeated scaling. *)
From Verif Require Import Prelude ScaleM ScaleSpec.

#[local] Arguments Z.mul : simpl never.
#[local] Arguments Z.add : simpl never.
#[local] Arguments Z.sub : simpl never.
#[local] Arguments Z.div : simpl never.
#[local] Arguments Z.quot : simpl never.
#[local] Arguments Z.min : simpl never.
#[local] Arguments Z.max : simpl never.

(* ---------- integer arithmetic ---------- *)
Lemma sc_go_div a b : 0 <= a -> 0 < b -> go_div a b = a / b.
Proof. intros; unfold go_div; apply Z.quot_div_nonneg; lia. Qed.

Lemma div_le0_iff a b : 0 <= a -> 0 < b -> (a / b <= 0 <-> a < b).
Proof.
  intros Ha Hb. pose proof (Z.div_small_iff a b ltac:(lia)) as H.
  pose proof (Z.div_pos a b Ha Hb). lia.
Qed.

Lemma div_fits a b : 0 < b -> a / b * b <= a.
Proof. intros Hb. rewrite Z.mul_comm. apply Z.mul_div_le; lia. Qed.

Lemma div_largest a b g : 0 < b -> g * b <= a -> g <= a / b.
Proof. intros Hb H. apply Z.div_le_lower_bound; lia. Qed.

Lemma div_succ_gt a b : 0 < b -> a < (a / b + 1) * b.
Proof.
  intros Hb. pose proof (Z.div_mod a b ltac:(lia)) as E.
  pose proof (Z.mod_pos_bound a b Hb). lia.
Qed.

(* the block of module i is exactly the set of pixels whose index is i *)
Lemma block_index off f i x : 1 <= f -> in_block off f i x -> (x - off) / f = i.
Proof.
  unfold in_block; intros Hf H. symmetry.
  apply Z.div_unique with (r := x - off - i * f); lia.
Qed.

Lemma in_own_block off f x : 1 <= f -> in_block off f ((x - off) / f) x.
Proof.
  intros Hf. unfold in_block.
  pose proof (Z.div_mod (x - off) f ltac:(lia)) as E.
  pose proof (Z.mod_pos_bound (x - off) f ltac:(lia)). lia.
Qed.

Lemma index_bounds off f w x : 1 <= f -> 0 <= w ->
  (off <= x < off + f * w <-> 0 <= (x - off) / f < w).
Proof.
  intros Hf Hw. pose proof (in_own_block off f x Hf) as B. unfold in_block in B.
  set (q := (x - off) / f) in *. clearbody q. split; intros H; nia.
Qed.

Lemma offset_centred total used : 0 <= used <= total ->
  centred total used ((total - used) / 2).
Proof.
  intros H. unfold centred.
  pose proof (Z.div_mod (total - used) 2 ltac:(lia)) as E.
  pose proof (Z.mod_pos_bound (total - used) 2 ltac:(lia)). lia.
Qed.

(* the code's offset: floor of half the free space; left margin <= right margin *)
Lemma offset_floor total used : 0 <= used <= total ->
  let off := (total - used) / 2 in
  0 <= off /\ off <= total - used - off <= off + 1.
Proof.
  intros H. cbv zeta.
  pose proof (Z.div_mod (total - used) 2 ltac:(lia)) as E.
  pose proof (Z.mod_pos_bound (total - used) 2 ltac:(lia)). lia.
Qed.

Section ScaleProofs.
Variable C : Type.
Variable white : C.
Notation source := (source C).
Notation request := (request C).

(* ---------- accessors of a scaled barcode ---------- *)
Lemma new_scaled_accessors (s : source) px width height :
  same_accessors s (new_scaled s px width height).
Proof.
  unfold same_accessors, new_scaled; cbn. repeat split.
  destruct (s_checksum s); reflexivity.
Qed.

Lemma new_scaled_bounds (s : source) px width height :
  0 <= width -> 0 <= height -> bounds_are (new_scaled s px width height) width height.
Proof. intros; unfold bounds_are, new_scaled; cbn; lia. Qed.

(* ---------- the pixel functions ---------- *)
Lemma wrap1_in_block (s : source) fill f ox w i x y :
  1 <= f -> 0 <= ox -> 0 <= i < w -> in_block ox f i x ->
  wrap1 s fill f ox w x y = s_px s i 0.
Proof.
  intros Hf Hox Hi B. unfold wrap1.
  assert (ox <= x) by (unfold in_block in B; nia).
  destruct (x <? ox) eqn:E; [lia|].
  rewrite sc_go_div by lia. rewrite (block_index _ _ _ _ Hf B).
  destruct (i >=? w) eqn:E2; [lia|]. reflexivity.
Qed.

Lemma wrap1_outside (s : source) fill f ox w x y :
  1 <= f -> 0 <= ox -> 0 <= w -> ~ (ox <= x < ox + f * w) ->
  wrap1 s fill f ox w x y = fill.
Proof.
  intros Hf Hox Hw N. unfold wrap1.
  destruct (x <? ox) eqn:E; [reflexivity|].
  rewrite sc_go_div by lia.
  destruct ((x - ox) / f >=? w) eqn:E2; [reflexivity|].
  exfalso. apply N. apply index_bounds; try lia.
  split; [apply Z.div_pos; lia | lia].
Qed.

Lemma wrap2_in_block (s : source) fill f ox oy w h i j x y :
  1 <= f -> 0 <= ox -> 0 <= oy -> 0 <= i < w -> 0 <= j < h ->
  in_block ox f i x -> in_block oy f j y ->
  wrap2 s fill f ox oy w h x y = s_px s i j.
Proof.
  intros Hf Hox Hoy Hi Hj Bx By. unfold wrap2.
  assert (ox <= x) by (unfold in_block in Bx; nia).
  assert (oy <= y) by (unfold in_block in By; nia).
  destruct (x <? ox) eqn:E; [lia|]. destruct (y <? oy) eqn:E'; [lia|]. cbn [orb].
  rewrite !sc_go_div by lia.
  rewrite (block_index _ _ _ _ Hf Bx), (block_index _ _ _ _ Hf By).
  destruct (i >=? w) eqn:E2; [lia|]. destruct (j >=? h) eqn:E3; [lia|]. reflexivity.
Qed.

Lemma wrap2_outside (s : source) fill f ox oy w h x y :
  1 <= f -> 0 <= ox -> 0 <= oy -> 0 <= w -> 0 <= h ->
  ~ (ox <= x < ox + f * w /\ oy <= y < oy + f * h) ->
  wrap2 s fill f ox oy w h x y = fill.
Proof.
  intros Hf Hox Hoy Hw Hh N. unfold wrap2.
  destruct (x <? ox) eqn:E; [reflexivity|]. destruct (y <? oy) eqn:E'; [reflexivity|].
  cbn [orb]. rewrite !sc_go_div by lia.
  destruct ((x - ox) / f >=? w) eqn:E2; [reflexivity|].
  destruct ((y - oy) / f >=? h) eqn:E3; [reflexivity|].
  exfalso. apply N. split; apply index_bounds; try lia.
  - split; [apply Z.div_pos; lia | lia].
  - split; [apply Z.div_pos; lia | lia].
Qed.

(* "not in any block" = outside the grid *)
Lemma not_in_any_block off f w x : 1 <= f -> 0 <= w ->
  (forall i, 0 <= i < w -> ~ in_block off f i x) -> ~ (off <= x < off + f * w).
Proof.
  intros Hf Hw N H. apply (N ((x - off) / f)).
  - apply index_bounds; assumption.
  - apply in_own_block; assumption.
Qed.

Lemma outside_no_block off f w x i : 1 <= f -> 0 <= i < w ->
  in_block off f i x -> off <= x < off + f * w.
Proof. unfold in_block; intros; nia. Qed.

(* ---------- one scaling step, with the geometry as closed formulas ---------- *)

(* floor centring: the margin before the grid is the smaller one *)
Definition floor_centred (total used off : Z) : Prop :=
  centred total used off /\ off <= total - used - off <= off + 1.

Definition scale_explicit (s : source) (width height : Z) (fill : C) (r : outcome source) : Prop :=
  match r with
  | Err => (s_dims s <> 1 /\ s_dims s <> 2) \/ too_small s width height
  | Ok t =>
      (s_dims s = 1 \/ s_dims s = 2) /\ ~ too_small s width height /\
      bounds_are t width height /\ same_accessors s t /\
      s_scheme t = None /\ s_cmodel t = s_cmodel s /\
      let f := geom_f s width height in
      let ox := geom_ox s width height in
      let oy := geom_oy s width height in
      largest_fitting s width height f /\
      floor_centred width (f * sym_w s) ox /\
      (s_dims s = 2 -> floor_centred height (f * sym_h s) oy) /\
      (s_dims s = 1 -> oy = 0) /\
      image_spec s width height fill t f ox oy
  | Panic | OutOfFuel => False
  end.

Lemma explicit_implies_spec s width height fill r :
  scale_explicit s width height fill r -> scale_spec s width height fill r.
Proof.
  destruct r as [t| | |]; cbn; auto.
  intros (D & NS & B & A & _ & _ & L & [Cx _] & Cy & O & I).
  repeat (split; [assumption|]).
  exists (geom_f s width height), (geom_ox s width height), (geom_oy s width height).
  repeat (split; [assumption|]). split; [|split; assumption].
  intros D2. apply Cy; assumption.
Qed.

Lemma floor_centred_offset total used : 0 <= used <= total ->
  floor_centred total used (stage_offset total used).
Proof.
  intros H. split; [apply offset_centred; assumption|].
  apply (offset_floor total used H).
Qed.

Lemma scale1_explicit (s : source) width height fill :
  source_ok s -> size_ok width height -> s_dims s = 1 ->
  scale_explicit s width height fill (scale1 s width height fill).
Proof.
  intros [[X0 Y0] [Hw Hh]] [Hwd Hht] D.
  unfold scale1, scale_explicit, geom_oy, geom_ox, geom_f, stage_factor, too_small, fits.
  rewrite D. change (1 =? 2) with false. cbv iota.
  unfold sym_w, sym_h, two31 in *. set (w := s_x1 s - s_x0 s) in *.
  rewrite sc_go_div by lia. set (f := width / w).
  assert (Ff : f <= 0 <-> width < w) by (apply div_le0_iff; lia).
  destruct (f <=? 0) eqn:E.
  - (* error *) right. lia.
  - assert (Hf : 1 <= f) by lia.
    assert (Hfit : f * w <= width) by (apply div_fits; lia).
    assert (Hd : 0 <= width - w * f) by lia. rewrite sc_go_div by lia.
    replace (w * f) with (f * w) by lia. fold (stage_offset width (f * w)).
    pose proof (floor_centred_offset width (f * w) ltac:(nia)) as Hoff.
    split; [left; reflexivity|]. split; [lia|].
    split; [apply new_scaled_bounds; lia|].
    split; [apply new_scaled_accessors|].
    split; [reflexivity|]. split; [reflexivity|]. cbv zeta.
    split.
    { split; [exact Hf|]. split.
      - split; [exact Hfit | intros D2; lia].
      - intros g [G _]. unfold sym_w in G; fold w in G. apply div_largest; lia. }
    split; [exact Hoff|]. split; [intros D2; lia|]. split; [reflexivity|].
    destruct Hoff as [[Hox _] _].
    constructor; try (intros D2; lia); intros _; unfold sym_w; fold w.
    + intros i x y Hi B Hy. cbn. unfold module. rewrite X0, Y0, !Z.add_0_l.
      apply wrap1_in_block; assumption.
    + intros x y Hx Hy N. cbn. apply wrap1_outside; try lia.
      apply not_in_any_block; try lia. exact N.
Qed.

Lemma scale2_explicit (s : source) width height fill :
  source_ok s -> size_ok width height -> s_dims s = 2 ->
  scale_explicit s width height fill (scale2 s width height fill).
Proof.
  intros [[X0 Y0] [Hw Hh]] [Hwd Hht] D.
  unfold scale2, scale_explicit, geom_oy, geom_ox, geom_f, stage_factor, too_small, fits.
  rewrite D. change (2 =? 2) with true. cbv iota.
  unfold sym_w, sym_h, two31 in *.
  set (w := s_x1 s - s_x0 s) in *. set (h := s_y1 s - s_y0 s) in *.
  rewrite !sc_go_div by lia. set (f := Z.min (width / w) (height / h)).
  assert (Fw : width / w <= 0 <-> width < w) by (apply div_le0_iff; lia).
  assert (Fh : height / h <= 0 <-> height < h) by (apply div_le0_iff; lia).
  destruct (f <=? 0) eqn:E.
  - right. lia.
  - assert (Hf : 1 <= f) by lia.
    assert (Hfw : f * w <= width).
    { pose proof (div_fits width w ltac:(lia)). nia. }
    assert (Hfh : f * h <= height).
    { pose proof (div_fits height h ltac:(lia)). nia. }
    assert (Hdw : 0 <= width - w * f) by lia. assert (Hdh : 0 <= height - h * f) by lia.
    rewrite !sc_go_div by lia.
    replace (w * f) with (f * w) by lia. replace (h * f) with (f * h) by lia.
    fold (stage_offset width (f * w)). fold (stage_offset height (f * h)).
    pose proof (floor_centred_offset width (f * w) ltac:(nia)) as Hox.
    pose proof (floor_centred_offset height (f * h) ltac:(nia)) as Hoy.
    split; [right; reflexivity|]. split; [lia|].
    split; [apply new_scaled_bounds; lia|].
    split; [apply new_scaled_accessors|].
    split; [reflexivity|]. split; [reflexivity|]. cbv zeta.
    split.
    { split; [exact Hf|]. split.
      - split; [exact Hfw | intros _; exact Hfh].
      - intros g [G1 G2]. rewrite D in G2. specialize (G2 eq_refl).
        unfold sym_w in G1; fold w in G1. unfold sym_h in G2; fold h in G2.
        pose proof (div_largest width w g ltac:(lia) G1).
        pose proof (div_largest height h g ltac:(lia) G2). lia. }
    split; [exact Hox|]. split; [intros _; exact Hoy|]. split; [intros D1; lia|].
    destruct Hox as [[Hox _] _]. destruct Hoy as [[Hoy _] _].
    constructor; try (intros D1; lia); intros _; unfold sym_w, sym_h; fold w h.
    + intros i j x y Hi Hj Bx By. cbn. unfold module. rewrite X0, Y0, !Z.add_0_l.
      apply wrap2_in_block; assumption.
    + intros x y Hx Hy N. cbn. apply wrap2_outside; try lia.
      intros [Ax Ay].
      apply (N ((x - stage_offset width (f * w)) / f) ((y - stage_offset height (f * h)) / f)).
      * apply (proj1 (index_bounds _ f w x Hf ltac:(lia))); exact Ax.
      * apply (proj1 (index_bounds _ f h y Hf ltac:(lia))); exact Ay.
      * split; apply in_own_block; assumption.
Qed.

Lemma scale_with_fill_explicit (s : source) width height fill :
  source_ok s -> size_ok width height ->
  scale_explicit s width height fill (scale_with_fill s width height fill).
Proof.
  intros Hs Hr. unfold scale_with_fill.
  destruct (s_dims s =? 1) eqn:E1; [apply scale1_explicit; auto; lia|].
  destruct (s_dims s =? 2) eqn:E2; [apply scale2_explicit; auto; lia|].
  cbn. left. lia.
Qed.

Lemma scale_req_explicit (s : source) width height fo :
  source_ok s -> size_ok width height ->
  scale_explicit s width height (resolve_fill white s fo) (scale_req white s (width, height, fo)).
Proof.
  intros Hs Hr. unfold scale_req, resolve_fill.
  destruct fo as [c|]; [apply scale_with_fill_explicit; assumption|].
  unfold scale_default, default_fill.
  destruct (s_scheme s) as [[fg bg]|]; apply scale_with_fill_explicit; assumption.
Qed.

(* ===== single step: the theorems of C09 ===== *)

(* ScaleWithFill satisfies the specification *)
Theorem scale_with_fill_sound (s : source) width height fill :
  source_ok s -> size_ok width height ->
  scale_spec s width height fill (scale_with_fill s width height fill).
Proof. intros; apply explicit_implies_spec, scale_with_fill_explicit; assumption. Qed.

(* Scale / ScaleWithFill, with the default-fill rule *)
Theorem scale_req_sound (s : source) width height fo :
  source_ok s -> size_ok width height ->
  scale_spec s width height (resolve_fill white s fo) (scale_req white s (width, height, fo)).
Proof. intros; apply explicit_implies_spec, scale_req_explicit; assumption. Qed.

(* error exactly when too small (both directions), never a panic *)
Theorem scale_error_iff (s : source) width height fill :
  source_ok s -> size_ok width height -> s_dims s = 1 \/ s_dims s = 2 ->
  (scale_with_fill s width height fill = Err <-> too_small s width height) /\
  (~ too_small s width height -> exists t, scale_with_fill s width height fill = Ok t).
Proof.
  intros Hs Hr D. pose proof (scale_with_fill_explicit s width height fill Hs Hr) as H.
  destruct (scale_with_fill s width height fill) as [t| | |]; cbn in H; try contradiction.
  - destruct H as (_ & NS & _). split; [split; [discriminate|contradiction]|]. eauto.
  - destruct H as [[N1 N2]|TS]; [lia|]. split; [tauto|]. intros N; contradiction.
Qed.

Theorem scale_unsupported_dims (s : source) width height fill :
  s_dims s <> 1 -> s_dims s <> 2 -> scale_with_fill s width height fill = Err.
Proof.
  intros N1 N2. unfold scale_with_fill.
  destruct (s_dims s =? 1) eqn:E1; [lia|]. destruct (s_dims s =? 2) eqn:E2; [lia|]. reflexivity.
Qed.

(* the largest fitting factor is unique: the spec's f is the closed formula *)
Lemma largest_fitting_unique (s : source) width height f g :
  largest_fitting s width height f -> largest_fitting s width height g -> f = g.
Proof.
  intros (_ & F1 & M1) (_ & F2 & M2). specialize (M1 g F2). specialize (M2 f F1). lia.
Qed.

Theorem stage_factor_largest (s : source) width height :
  source_ok s -> size_ok width height -> s_dims s = 1 \/ s_dims s = 2 ->
  ~ too_small s width height ->
  largest_fitting s width height (geom_f s width height).
Proof.
  intros Hs Hr D NS. pose proof (scale_with_fill_explicit s width height white Hs Hr) as H.
  destruct (scale_with_fill s width height white) as [t| | |]; cbn in H; try contradiction.
  - tauto.
  - destruct H as [[N1 N2]|TS]; [lia|contradiction].
Qed.

(* maximality spelled out: f fits, f+1 does not *)
Theorem factor_maximal (s : source) width height f :
  source_ok s -> largest_fitting s width height f ->
  f * sym_w s <= width /\ (s_dims s = 2 -> f * sym_h s <= height) /\
  (width < (f + 1) * sym_w s \/ (s_dims s = 2 /\ height < (f + 1) * sym_h s)).
Proof.
  intros [_ [Hw Hh]] (Hf & [F1 F2] & M). split; [exact F1|]. split; [exact F2|].
  assert (N : ~ fits s width height (f + 1)) by (intros F; specialize (M _ F); lia).
  unfold fits in N.
  destruct (Z.eq_dec (s_dims s) 2) as [D|D].
  - destruct (Z_lt_dec width ((f + 1) * sym_w s)); [left; assumption|].
    destruct (Z_lt_dec height ((f + 1) * sym_h s)); [right; split; assumption|].
    exfalso; apply N; split; [lia | intros _; lia].
  - left. destruct (Z_lt_dec width ((f + 1) * sym_w s)); [assumption|].
    exfalso; apply N; split; [lia | intros D2; contradiction].
Qed.

(* every pixel of the result, classified by integer division *)
Theorem scale_pixels (s t : source) width height fill :
  source_ok s -> size_ok width height ->
  scale_with_fill s width height fill = Ok t ->
  let f := geom_f s width height in
  let ox := geom_ox s width height in
  let oy := geom_oy s width height in
  forall x y, 0 <= x < width -> 0 <= y < height ->
    s_px t x y =
      if s_dims s =? 2 then
        if (ox <=? x) && (x <? ox + f * sym_w s) && (oy <=? y) && (y <? oy + f * sym_h s)
        then module s ((x - ox) / f) ((y - oy) / f) else fill
      else
        if (ox <=? x) && (x <? ox + f * sym_w s)
        then module s ((x - ox) / f) 0 else fill.
Proof.
  intros Hs Hr E f ox oy x y Hx Hy.
  pose proof (scale_with_fill_explicit s width height fill Hs Hr) as H.
  rewrite E in H. cbn in H.
  destruct H as (D & NS & B & A & _ & _ & L & Cx & Cy & O & I).
  fold f ox oy in L, Cx, Cy, O, I. destruct L as (Hf & _ & _).
  destruct Hs as [_ [Hw Hh]]. destruct I as [I2 I1 R2 R1].
  destruct D as [D|D]; rewrite D.
  - change (1 =? 2) with false. cbv iota.
    destruct ((ox <=? x) && (x <? ox + f * sym_w s)) eqn:T.
    + apply (I1 D); try assumption.
      * apply index_bounds; lia.
      * apply in_own_block; assumption.
    + apply (R1 D); try assumption.
      intros i Hi Bi. pose proof (outside_no_block _ _ _ _ _ Hf Hi Bi). lia.
  - change (2 =? 2) with true. cbv iota.
    destruct ((ox <=? x) && (x <? ox + f * sym_w s) && (oy <=? y) && (y <? oy + f * sym_h s)) eqn:T.
    + apply (I2 D).
      * apply index_bounds; lia.
      * apply index_bounds; lia.
      * apply in_own_block; assumption.
      * apply in_own_block; assumption.
    + apply (R2 D); try assumption.
      intros i j Hi Hj [Bi Bj].
      pose proof (outside_no_block _ _ _ _ _ Hf Hi Bi).
      pose proof (outside_no_block _ _ _ _ _ Hf Hj Bj). lia.
Qed.

(* centring of the code's offsets: margins differ by at most one, the smaller first *)
Theorem scale_centring (s t : source) width height fill :
  source_ok s -> size_ok width height ->
  scale_with_fill s width height fill = Ok t ->
  let f := geom_f s width height in
  let ox := geom_ox s width height in
  let oy := geom_oy s width height in
  0 <= ox /\ ox <= width - f * sym_w s - ox <= ox + 1 /\
  (s_dims s = 2 -> 0 <= oy /\ oy <= height - f * sym_h s - oy <= oy + 1) /\
  (s_dims s = 1 -> oy = 0).
Proof.
  intros Hs Hr E f ox oy.
  pose proof (scale_with_fill_explicit s width height fill Hs Hr) as H.
  rewrite E in H. cbn in H.
  destruct H as (D & NS & B & A & _ & _ & L & [[Cx _] Cx'] & Cy & O & I).
  fold f ox oy in Cx, Cx', Cy, O.
  split; [assumption|]. split; [assumption|]. split; [|assumption].
  intros D2. destruct (Cy D2) as [[Cy1 _] Cy2]. split; assumption.
Qed.

(* accessors of the result, including the facts about the code that the property
   text does not ask for: ColorModel passes through, and a scaled barcode is not a
   BarcodeColor.  No guard needed. *)
Theorem scale_req_accessors (s t : source) r :
  scale_req white s r = Ok t ->
  same_accessors s t /\ s_cmodel t = s_cmodel s /\ s_scheme t = None.
Proof.
  destruct r as [[width height] fo]. unfold scale_req, scale_default, scale_with_fill, scale1, scale2.
  intros E.
  assert (G : forall fill, (if s_dims s =? 1
          then if go_div width (s_x1 s - s_x0 s) <=? 0 then Err else
               Ok (new_scaled s (wrap1 s fill (go_div width (s_x1 s - s_x0 s))
                     (go_div (width - (s_x1 s - s_x0 s) * go_div width (s_x1 s - s_x0 s)) 2)
                     (s_x1 s - s_x0 s)) width height)
          else if s_dims s =? 2 then
               if Z.min (go_div width (s_x1 s - s_x0 s)) (go_div height (s_y1 s - s_y0 s)) <=? 0
               then Err else
               Ok (new_scaled s (wrap2 s fill
                     (Z.min (go_div width (s_x1 s - s_x0 s)) (go_div height (s_y1 s - s_y0 s)))
                     (go_div (width - (s_x1 s - s_x0 s) *
                        Z.min (go_div width (s_x1 s - s_x0 s)) (go_div height (s_y1 s - s_y0 s))) 2)
                     (go_div (height - (s_y1 s - s_y0 s) *
                        Z.min (go_div width (s_x1 s - s_x0 s)) (go_div height (s_y1 s - s_y0 s))) 2)
                     (s_x1 s - s_x0 s) (s_y1 s - s_y0 s)) width height)
          else Err) = Ok t ->
          same_accessors s t /\ s_cmodel t = s_cmodel s /\ s_scheme t = None).
  { intros fill. destruct (s_dims s =? 1).
    - destruct (_ <=? 0); [discriminate|]. intros [= <-].
      split; [apply new_scaled_accessors|]. split; reflexivity.
    - destruct (s_dims s =? 2); [|discriminate].
      destruct (_ <=? 0); [discriminate|]. intros [= <-].
      split; [apply new_scaled_accessors|]. split; reflexivity. }
  destruct fo as [c|]; eapply G; exact E.
Qed.

(* ===== chains of repeated scaling ===== *)
Lemma scaled_source_ok (t : source) width height :
  bounds_are t width height -> size_ok width height -> source_ok t.
Proof.
  unfold bounds_are, source_ok, origin_anchored, sym_w, sym_h, size_ok.
  intros (a & b & c & d) [H1 H2]. rewrite a, b, c, d. lia.
Qed.

Lemma last_cons_default {A} (a : A) l d : last (a :: l) d = last l a.
Proof.
  revert a d; induction l as [|b l IH]; intros a d; [reflexivity|].
  change (last (a :: b :: l) d) with (last (b :: l) d).
  rewrite (IH b d), (IH b a). reflexivity.
Qed.

(* every stage satisfies the specification w.r.t. the previous stage *)
Theorem scale_stages_sound : forall (rs : list request) (s : source),
  source_ok s -> Forall (@request_ok C) rs ->
  stages_spec white s rs (scale_stages white s rs).
Proof.
  induction rs as [|[[width height] fo] rest IH]; intros s Hs Hrs; cbn [scale_stages stages_spec].
  - exact I.
  - inversion Hrs as [|r' t' Hr Ht]; subst. unfold request_ok in Hr; cbn [fst snd] in Hr.
    pose proof (scale_req_explicit s width height fo Hs Hr) as X.
    pose proof (explicit_implies_spec _ _ _ _ _ X) as Sp.
    destruct (scale_req white s (width, height, fo)) as [s1| | |] eqn:E; cbn [stages_spec].
    + split; [exact Sp|]. apply IH; [|assumption].
      cbn in X. destruct X as (_ & _ & B & _). eapply scaled_source_ok; eassumption.
    + split; [exact Sp|reflexivity].
    + contradiction.
    + contradiction.
Qed.

(* the chain's result is the last stage *)
Theorem scale_chain_last : forall (rs : list request) (s : source),
  scale_chain white s rs = last (scale_stages white s rs) (Ok s).
Proof.
  induction rs as [|r rest IH]; intros s; cbn [scale_chain scale_stages]; [reflexivity|].
  destruct (scale_req white s r) as [s1| | |]; cbn [obind]; try reflexivity.
  rewrite last_cons_default. apply IH.
Qed.

(* Content, Metadata, CheckSum (and ColorModel) of the final result are those of
   the original source; no guard needed *)
Theorem scale_chain_accessors : forall (rs : list request) (s t : source),
  scale_chain white s rs = Ok t ->
  same_accessors s t /\ s_cmodel t = s_cmodel s /\ (rs <> [] -> s_scheme t = None).
Proof.
  induction rs as [|r rest IH]; intros s t E; cbn [scale_chain] in E.
  - injection E as <-. unfold same_accessors. repeat split; congruence.
  - destruct (scale_req white s r) as [s1| | |] eqn:E1; cbn [obind] in E; try discriminate.
    destruct (scale_req_accessors _ _ _ E1) as ((a1 & a2 & a3 & a4) & Cm & Sch).
    destruct (IH _ _ E) as ((b1 & b2 & b3 & b4) & Cm' & Sch').
    split; [unfold same_accessors; repeat split; congruence|].
    split; [congruence|]. intros _.
    destruct rest as [|r2 rest']; [cbn in E; injection E as <-; exact Sch | apply Sch'; discriminate].
Qed.

(* --- composition of two block maps in one dimension --- *)
Lemma div_block F a lo hi : 1 <= F -> lo * F <= a < hi * F -> lo <= a / F < hi.
Proof.
  intros HF [H1 H2]. split.
  - apply Z.div_le_lower_bound; lia.
  - apply Z.div_lt_upper_bound; lia.
Qed.

Lemma compose_block OX F ox f i x : 1 <= F -> 1 <= f ->
  in_block (OX + ox * F) (f * F) i x ->
  in_block OX F ((x - OX) / F) x /\ in_block ox f i ((x - OX) / F).
Proof.
  intros HF Hf B. split; [apply in_own_block; assumption|].
  unfold in_block in *. apply div_block; [assumption|]. nia.
Qed.

Lemma compose_area OX F ox used x : 1 <= F ->
  (OX + ox * F <= x < OX + ox * F + used * F <-> ox <= (x - OX) / F < ox + used).
Proof.
  intros HF. pose proof (in_own_block OX F x HF) as B. unfold in_block in B.
  set (q := (x - OX) / F) in *. clearbody q. split; intros H; nia.
Qed.

Lemma chain_fills_scaled (s1 : source) (rs : list request) : s_scheme s1 = None ->
  chain_fills white s1 rs =
  map (fun r : request => match snd r with Some c => c | None => white end) rs.
Proof.
  destruct rs as [|[[w0 h0] fo] t]; [reflexivity|]. intros E.
  cbn [chain_fills map snd]. unfold resolve_fill. rewrite E. destruct fo; reflexivity.
Qed.

(* the final image of a successful chain is an integer enlargement of the
   original modules by the product of the stage factors; all other pixels carry
   one of the stage fills *)
Theorem chain_enlargement : forall (rs : list request) (s t : source),
  source_ok s -> Forall (@request_ok C) rs ->
  scale_chain white s rs = Ok t -> enlargement_spec white s rs t.
Proof.
  induction rs as [|[[width height] fo] rest IH]; intros s t Hs Hrs E.
  - cbn in E. injection E as <-. unfold enlargement_spec. cbn [chain_geom chain_size].
    destruct Hs as [[X0 Y0] [Hw Hh]]. unfold two31 in *.
    split; [unfold bounds_are, sym_w, sym_h in *; lia|].
    split; [unfold same_accessors; auto|].
    split; [lia|]. split; [lia|]. split; [lia|]. split; intros D.
    + split; [lia|]. split; [lia|]. split.
      * intros i j x y Hi Hj Bx By. unfold in_block in *. unfold module. rewrite X0, Y0.
        f_equal; lia.
      * intros x y Hx Hy N. exfalso. apply N. lia.
    + split.
      * intros i x y Hi Bx Hy. unfold in_block in *. unfold module, src_row. rewrite X0, Y0.
        f_equal; lia.
      * intros x y Hx Hy N. exfalso. apply N. lia.
  - inversion Hrs as [|r' t' Hr Ht]; subst. unfold request_ok in Hr; cbn [fst snd] in Hr.
    cbn [scale_chain] in E.
    pose proof (scale_req_explicit s width height fo Hs Hr) as X.
    destruct (scale_req white s (width, height, fo)) as [s1| | |] eqn:E1; cbn [obind] in E;
      try discriminate.
    cbn in X. destruct X as (D & NS & B & A & Sch & Cm & L & Cx & Cy & O & [I2 I1 R2 R1]).
    assert (Hs1 : source_ok s1) by (eapply scaled_source_ok; eassumption).
    specialize (IH s1 t Hs1 Ht E). unfold enlargement_spec in IH |- *.
    cbn [chain_geom chain_size].
    destruct A as (Ac & Ak & Ad & Acs). destruct B as (Bx0 & By0 & Bmx & Bmy).
    assert (W1 : sym_w s1 = width) by (unfold sym_w; lia).
    assert (H1 : sym_h s1 = height) by (unfold sym_h; lia).
    rewrite Ad, W1, H1 in IH. rewrite (chain_fills_scaled s1 rest Sch) in IH.
    unfold geom_ox, geom_oy, geom_f in *.
    set (f := stage_factor (s_dims s) (sym_w s) (sym_h s) width height) in *.
    set (ox := stage_offset width (f * sym_w s)) in *.
    set (oy := if s_dims s =? 2 then stage_offset height (f * sym_h s) else 0) in *.
    destruct (chain_geom (s_dims s) width height rest) as [[F' OX'] OY'].
    destruct (chain_size width height rest) as [W H] eqn:ES.
    destruct IH as (Bt & At & HF' & HOX' & HfitX' & IH2 & IH1).
    destruct L as (Hf & _ & _). destruct Cx as [(Hox & HoxW & _) _].
    destruct Hs as [[X0 Y0] [Hw Hh]]. destruct Hr as [Hwd Hht]. unfold two31 in *.
    assert (Mod1 : forall a b, module s1 a b = s_px s1 a b).
    { intros a b. unfold module. rewrite Bx0, By0. f_equal; lia. }
    split; [exact Bt|].
    split. { destruct At as (c1 & c2 & c3 & c4). unfold same_accessors. repeat split; congruence. }
    split; [nia|]. split; [nia|]. split; [nia|].
    cbn [chain_fills].
    split; intros D2.
    + (* 2-D *)
      destruct (IH2 D2) as (HOY' & HfitY' & IHb & IHr). clear IH1 IH2.
      destruct (Cy D2) as [(Hoy & HoyH & _) _].
      split; [nia|]. split; [nia|]. split.
      * intros i j x y Hi Hj Bx By.
        destruct (compose_block _ _ _ _ _ _ HF' Hf Bx) as [Bx' Bx1].
        destruct (compose_block _ _ _ _ _ _ HF' Hf By) as [By' By1'].
        pose proof (outside_no_block _ _ _ _ _ Hf Hi Bx1) as Ax.
        pose proof (outside_no_block _ _ _ _ _ Hf Hj By1') as Ay.
        assert (Rx : 0 <= (x - OX') / F' < width) by lia.
        assert (Ry : 0 <= (y - OY') / F' < height) by lia.
        rewrite (IHb _ _ x y Rx Ry Bx' By'), Mod1.
        apply (I2 D2); assumption.
      * intros x y Hx Hy N.
        assert (Dec : (OX' <= x < OX' + F' * width /\ OY' <= y < OY' + F' * height) \/
                      ~ (OX' <= x < OX' + F' * width /\ OY' <= y < OY' + F' * height)) by lia.
        destruct Dec as [[Inx Iny]|Out].
        -- left. symmetry.
           pose proof (in_own_block OX' F' x HF') as Bx'.
           pose proof (in_own_block OY' F' y HF') as By'.
           assert (Rx : 0 <= (x - OX') / F' < width) by (apply index_bounds; lia).
           assert (Ry : 0 <= (y - OY') / F' < height) by (apply index_bounds; lia).
           rewrite (IHb _ _ x y Rx Ry Bx' By'), Mod1.
           apply (R2 D2); try assumption.
           intros i j Hi Hj [Bi Bj]. apply N.
           pose proof (outside_no_block _ _ _ _ _ Hf Hi Bi) as Ax.
           pose proof (outside_no_block _ _ _ _ _ Hf Hj Bj) as Ay.
           pose proof (proj2 (compose_area OX' F' ox (f * sym_w s) x HF') Ax).
           pose proof (proj2 (compose_area OY' F' oy (f * sym_h s) y HF') Ay).
           lia.
        -- right. apply IHr; assumption.
    + (* 1-D *)
      destruct (IH1 D2) as (IHb & IHr). clear IH1 IH2.
      split.
      * intros i x y Hi Bx Hy.
        destruct (compose_block _ _ _ _ _ _ HF' Hf Bx) as [Bx' Bx1].
        pose proof (outside_no_block _ _ _ _ _ Hf Hi Bx1) as Ax.
        assert (Rx : 0 <= (x - OX') / F' < width) by lia.
        rewrite (IHb _ x y Rx Bx' Hy), Mod1. cbn [src_row].
        apply (I1 D2); try assumption.
        (* the row of s1 that is shown lies inside s1 *)
        destruct rest as [|r2 rest']; cbn [src_row]; [|lia].
        cbn in ES. injection ES as EW EH. lia.
      * intros x y Hx Hy N.
        assert (Dec : (OX' <= x < OX' + F' * width) \/ ~ (OX' <= x < OX' + F' * width)) by lia.
        destruct Dec as [Inx|Out].
        -- left. symmetry.
           pose proof (in_own_block OX' F' x HF') as Bx'.
           assert (Rx : 0 <= (x - OX') / F' < width) by (apply index_bounds; lia).
           rewrite (IHb _ x y Rx Bx' Hy), Mod1.
           assert (Row : 0 <= src_row rest y < height).
           { destruct rest as [|r2 rest']; cbn [src_row]; [|lia].
             cbn in ES. injection ES as EW EH. lia. }
           apply (R1 D2); try assumption.
           intros i Hi Bi. apply N.
           pose proof (outside_no_block _ _ _ _ _ Hf Hi Bi) as Ax.
           pose proof (proj2 (compose_area OX' F' ox (f * sym_w s) x HF') Ax).
           lia.
        -- right. apply IHr; assumption.
Qed.

(* ===== the executable validator is sound for scale_spec ===== *)
Lemma zrange_from_In n : forall start x,
  In x (zrange_from start n) <-> start <= x < start + Z.of_nat n.
Proof.
  induction n as [|n IH]; intros start x; cbn [zrange_from In].
  - lia.
  - rewrite IH. lia.
Qed.

Lemma zrange_In n x : In x (zrange n) <-> 0 <= x < n.
Proof. unfold zrange. rewrite zrange_from_In. lia. Qed.

Lemma zlist_eqb_eq : forall a b, zlist_eqb a b = true -> a = b.
Proof.
  induction a as [|x a IH]; intros [|y b] H; cbn in H; try discriminate; [reflexivity|].
  apply andb_true_iff in H. destruct H as [H1 H2]. f_equal; [lia | apply IH; exact H2].
Qed.

Lemma optz_eqb_eq a b : optz_eqb a b = true -> a = b.
Proof. destruct a, b; cbn; intros H; try discriminate; [f_equal; lia | reflexivity]. Qed.

Lemma centred_b_ok total used off : centred_b total used off = true -> centred total used off.
Proof. unfold centred_b, centred. lia. Qed.

Theorem validate_sound (ceqb : C -> C -> bool) (s : source) width height fill r f ox oy :
  (forall a b, ceqb a b = true -> a = b) ->
  source_ok s -> size_ok width height ->
  validate ceqb s width height fill r f ox oy = true ->
  scale_spec s width height fill r.
Proof.
  intros Hceq [[X0 Y0] [Hw Hh]] [Hwd Hht] V. unfold two31 in *.
  unfold validate in V. apply andb_true_iff in V. destruct V as [Vh Vp].
  destruct r as [t| | |]; cbn [validate_header] in Vh; try discriminate; cbn [scale_spec].
  - (* Ok *)
    repeat (apply andb_true_iff in Vh; destruct Vh as [Vh ?]).
    rename H into G, H0 into Acc, H1 into Bd, H2 into NS.
    split; [lia|]. split; [unfold too_small_b in NS; unfold too_small; lia|].
    split; [unfold bounds_b in Bd; unfold bounds_are; lia|].
    split.
    { unfold accessors_b in Acc.
      repeat (apply andb_true_iff in Acc; destruct Acc as [Acc ?]).
      unfold same_accessors. repeat split;
        [apply zlist_eqb_eq; assumption | apply zlist_eqb_eq; assumption | lia
        | apply optz_eqb_eq; assumption]. }
    exists f, ox, oy.
    unfold geom_check in G.
    repeat (apply andb_true_iff in G; destruct G as [G ?]).
    rename H into Gy, H0 into Gx, H1 into Gmax, H2 into GfitH. rename H3 into GfitW.
    apply centred_b_ok in Gx.
    assert (Hf : 1 <= f) by lia.
    split.
    { split; [exact Hf|]. split.
      - split; [lia|]. intros D2. rewrite D2 in GfitH. cbn in GfitH. lia.
      - intros g [G1 G2].
        destruct (Z_le_gt_dec g f) as [|Hgt]; [assumption|exfalso].
        apply orb_true_iff in Gmax. destruct Gmax as [M|M].
        + nia.
        + destruct (s_dims s =? 2) eqn:D2; [|discriminate]. specialize (G2 ltac:(lia)). nia. }
    split; [exact Gx|].
    split. { intros D2. rewrite D2 in Gy. cbn in Gy. apply centred_b_ok; exact Gy. }
    split. { intros D1. rewrite D1 in Gy. cbn in Gy. lia. }
    (* pixels *)
    assert (P : forall x y, 0 <= x < width -> 0 <= y < height ->
                s_px t x y = expected_pixel s fill f ox oy x y).
    { intros x y Hx Hy. unfold check_pixels in Vp. rewrite forallb_forall in Vp.
      specialize (Vp y (proj2 (zrange_In height y) Hy)). rewrite forallb_forall in Vp.
      specialize (Vp x (proj2 (zrange_In width x) Hx)). apply Hceq; exact Vp. }
    destruct Gx as (Hox & HoxW & _).
    assert (Cy2 : s_dims s = 2 -> centred height (f * sym_h s) oy).
    { intros D2. rewrite D2 in Gy. cbn in Gy. apply centred_b_ok; exact Gy. }
    clear Vp Gy Gmax GfitH GfitW G NS Bd Vh Hceq.
    constructor; intros D.
    + destruct (Cy2 D) as (Hoy & HoyH & _). clear Cy2.
      intros i j x y Hi Hj Bx By.
      pose proof (outside_no_block _ _ _ _ _ Hf Hi Bx) as Ax.
      pose proof (outside_no_block _ _ _ _ _ Hf Hj By) as Ay.
      rewrite P by lia. unfold expected_pixel. rewrite D. change (2 =? 2) with true. cbv iota.
      replace ((ox <=? x) && (x <? ox + f * sym_w s) && (oy <=? y) && (y <? oy + f * sym_h s))
        with true by lia.
      rewrite (block_index _ _ _ _ Hf Bx), (block_index _ _ _ _ Hf By). reflexivity.
    + intros i x y Hi Bx Hy.
      pose proof (outside_no_block _ _ _ _ _ Hf Hi Bx) as Ax.
      rewrite P by lia. unfold expected_pixel. rewrite D. change (1 =? 2) with false. cbv iota.
      replace ((ox <=? x) && (x <? ox + f * sym_w s)) with true by lia.
      rewrite (block_index _ _ _ _ Hf Bx). reflexivity.
    + intros x y Hx Hy N. rewrite P by lia. unfold expected_pixel. rewrite D.
      change (2 =? 2) with true. cbv iota.
      destruct ((ox <=? x) && (x <? ox + f * sym_w s) && (oy <=? y) && (y <? oy + f * sym_h s)) eqn:T;
        [|reflexivity].
      exfalso. apply (N ((x - ox) / f) ((y - oy) / f)).
      * apply index_bounds; lia.
      * apply index_bounds; lia.
      * split; apply in_own_block; assumption.
    + intros x y Hx Hy N. rewrite P by lia. unfold expected_pixel. rewrite D.
      change (1 =? 2) with false. cbv iota.
      destruct ((ox <=? x) && (x <? ox + f * sym_w s)) eqn:T; [|reflexivity].
      exfalso. apply (N ((x - ox) / f)).
      * apply index_bounds; lia.
      * apply in_own_block; assumption.
  - (* Err *)
    unfold too_small_b in Vh. unfold too_small. lia.
Qed.

End ScaleProofs.

(* ===== concrete instances: hypotheses are satisfiable, results are as expected ===== *)
(* colours are numbers here: 1 = bar, 0 = background, 9 = white, others = fills *)
Definition ex_src1 : source Z :=
  {| s_dims := 1; s_kind := [69]; s_content := [49; 48; 49]; s_cmodel := 16;
     s_x0 := 0; s_y0 := 0; s_x1 := 3; s_y1 := 1;
     s_px := fun x _ => if x =? 1 then 0 else 1;
     s_scheme := Some (1, 0); s_checksum := Some 7 |}.

Definition ex_src2 : source Z :=
  {| s_dims := 2; s_kind := [81]; s_content := [50]; s_cmodel := 16;
     s_x0 := 0; s_y0 := 0; s_x1 := 2; s_y1 := 2;
     s_px := fun x y => if x =? y then 1 else 0;
     s_scheme := None; s_checksum := None |}.

Definition ex_chain : list (request Z) := [(7, 2, None); (20, 3, Some 5); (21, 1, None)].

Lemma ex_src1_ok : source_ok ex_src1.
Proof. unfold source_ok, origin_anchored, sym_w, sym_h, two31; cbn; lia. Qed.

Lemma ex_src2_ok : source_ok ex_src2.
Proof. unfold source_ok, origin_anchored, sym_w, sym_h, two31; cbn; lia. Qed.

Lemma ex_chain_ok : Forall (@request_ok Z) ex_chain.
Proof. repeat constructor; unfold two31; cbn; lia. Qed.

Definition image_rows (o : outcome (source Z)) : list (list Z) :=
  match o with
  | Ok t => map (fun y => map (fun x => s_px t x y) (zrange (s_x1 t))) (zrange (s_y1 t))
  | _ => []
  end.

(* 3 modules -> 7x2 (factor 2, margin 0|1, default fill = background 0)
   -> 20x3 (factor 2, margins 3|3, fill 5) -> 21x1 (factor 1, margins 0|1, default
   fill of a scaled barcode = white 9) *)
Lemma ex_chain_rows :
  map image_rows (scale_stages 9 ex_src1 ex_chain) =
  [ [[1;1;0;0;1;1;0]; [1;1;0;0;1;1;0]];
    [[5;5;5;1;1;1;1;0;0;0;0;1;1;1;1;0;0;5;5;5];
     [5;5;5;1;1;1;1;0;0;0;0;1;1;1;1;0;0;5;5;5];
     [5;5;5;1;1;1;1;0;0;0;0;1;1;1;1;0;0;5;5;5]];
    [[5;5;5;1;1;1;1;0;0;0;0;1;1;1;1;0;0;5;5;5;9]] ].
Proof. vm_compute. reflexivity. Qed.

Lemma ex_chain_geom :
  chain_geom 1 3 1 ex_chain = (4, 3, 0) /\ chain_size 3 1 ex_chain = (21, 1).
Proof. vm_compute. split; reflexivity. Qed.

(* 2x2 diagonal -> 5x7: factor 2, offsets (0,1), default fill white *)
Lemma ex_2d_rows :
  image_rows (scale_req 9 ex_src2 (5, 7, None)) =
  [ [9;9;9;9;9]; [1;1;0;0;9]; [1;1;0;0;9]; [0;0;1;1;9]; [0;0;1;1;9]; [9;9;9;9;9]; [9;9;9;9;9] ].
Proof. vm_compute. reflexivity. Qed.

(* errors: 2-D too low, 1-D too narrow; a 1-D code of height 1 scales to any height *)
Lemma ex_errors :
  scale_req 9 ex_src2 (5, 1, None) = Err /\ scale_req 9 ex_src1 (2, 50, Some 4) = Err /\
  (exists t, scale_req 9 ex_src1 (3, 50, Some 4) = Ok t).
Proof. repeat split; try reflexivity. eexists; reflexivity. Qed.

(* the validator accepts the model's result on these instances *)
Lemma ex_validate :
  validate Z.eqb ex_src2 5 7 9 (scale_req 9 ex_src2 (5, 7, None)) 2 0 1 = true /\
  validate Z.eqb ex_src1 7 2 0 (scale_req 9 ex_src1 (7, 2, None)) 2 0 0 = true /\
  validate Z.eqb ex_src1 7 2 0 (scale_req 9 ex_src1 (7, 2, None)) 2 1 0 = false.
Proof. vm_compute. repeat split; reflexivity. Qed.

(* ===== why Bounds().Min = (0,0) is a hypothesis =====
   wrap reads bc.At(x, y) for x in [0, orgWidth): for a source whose image does not
   start at the origin this is not the module grid.  Source: 2 modules at x = 1, 2
   (colour = x); scaled to 2x1 the result shows At(0,0), At(1,0) = 0, 1 instead
   of the modules 1, 2.  No encoder of /repo and no scaled barcode is such a source. *)
Definition ex_shifted : source Z :=
  {| s_dims := 1; s_kind := []; s_content := []; s_cmodel := 0;
     s_x0 := 1; s_y0 := 0; s_x1 := 3; s_y1 := 1;
     s_px := fun x _ => x; s_scheme := None; s_checksum := None |}.

Lemma scale_min_not_origin_counterexample :
  ~ origin_anchored ex_shifted /\
  ~ scale_spec ex_shifted 2 1 7 (scale_with_fill ex_shifted 2 1 7).
Proof.
  split; [unfold origin_anchored; cbn; lia|].
  change (scale_with_fill ex_shifted 2 1 7) with
    (Ok (new_scaled ex_shifted (wrap1 ex_shifted 7 1 0 2) 2 1)).
  cbn [scale_spec]. intros (_ & _ & _ & _ & f & ox & oy & (Hf & [F1 _] & _) & (Hox & HoxW & _) & _ & _ & [_ I1 _ _]).
  unfold sym_w in *. cbn in F1, HoxW, I1.
  assert (f = 1) by lia. assert (ox = 0) by lia. subst f ox.
  specialize (I1 eq_refl 0 0 0 ltac:(lia) ltac:(unfold in_block; lia) ltac:(lia)).
  vm_compute in I1. discriminate.
Qed.
