(* QR layer 1: the tables of /repo/qr (as generated into gen/TabQr.v) are the
   ISO/IEC 18004 tables of spec/QRSpec.v.  Finite, complete, by vm_compute. *)
From Verif Require Import Prelude Barcode BitListM TabQr QRMBits QRMBlocks QRMRender QRM QRSpec.

Local Ltac Zify.zify_post_hook ::= Z.div_mod_to_equations.

(* ---------- enumeration helpers ---------- *)
Lemma in_sseq x : forall n lo, lo <= x < lo + Z.of_nat n -> In x (sseq lo n).
Proof.
  induction n as [|n IH]; intros lo H; [lia|].
  cbn [sseq]. destruct (Z.eq_dec lo x) as [->|Hne]; [left; reflexivity|].
  right. apply IH. lia.
Qed.

Lemma sseq_in x : forall n lo, In x (sseq lo n) -> lo <= x < lo + Z.of_nat n.
Proof.
  induction n as [|n IH]; intros lo H; [destruct H|].
  cbn [sseq] in H. destruct H as [->|H]; [lia|]. apply IH in H. lia.
Qed.

Lemma sseq_length n : forall lo, length (sseq lo n) = n.
Proof. induction n as [|n IH]; intros lo; cbn [sseq length]; [reflexivity|]. rewrite IH. reflexivity. Qed.

Definition all_versions : list Z := sseq 1 40.
Definition all_levels : list qlevel := [LvL; LvM; LvQ; LvH].

Lemma in_all_versions v : 1 <= v <= 40 -> In v all_versions.
Proof. intros H. apply in_sseq. lia. Qed.

Lemma in_all_levels l : In l all_levels.
Proof. destruct l; cbn; auto. Qed.

Lemma level_of_Z_Z l : level_of_Z (level_Z l) = Some l.
Proof. destruct l; reflexivity. Qed.

Lemma level_of_Z_some z l : level_of_Z z = Some l -> z = level_Z l.
Proof.
  unfold level_of_Z.
  destruct (z =? 0) eqn:E0; [intros H; inversion H; subst; cbn; lia|].
  destruct (z =? 1) eqn:E1; [intros H; inversion H; subst; cbn; lia|].
  destruct (z =? 2) eqn:E2; [intros H; inversion H; subst; cbn; lia|].
  destruct (z =? 3) eqn:E3; [intros H; inversion H; subst; cbn; lia|].
  discriminate.
Qed.

(* ---------- 1a. the 160 rows of versionInfos are the ISO block table ---------- *)
Theorem qr_version_infos_iso : qr_version_infos = iso_rows.
Proof. vm_compute. reflexivity. Qed.

(* sorted by version within each level (what findSmallestVersionInfo relies on) *)
Fixpoint strictly_ascending (l : list Z) : bool :=
  match l with
  | a :: ((b :: _) as t) => (a <? b) && strictly_ascending t
  | _ => true
  end.

Theorem qr_version_infos_sorted :
  forallb (fun lvl =>
    strictly_ascending (map vi_version (filter (fun vi => vi_level vi =? lvl) version_infos)))
    [0; 1; 2; 3] = true.
Proof. vm_compute. reflexivity. Qed.

(* each (version, level) has exactly one row, and nothing else is in the table *)
Theorem qr_version_infos_complete :
  map (fun vi => (vi_version vi, vi_level vi)) version_infos
  = flat_map (fun v => map (fun l => (v, l)) [0; 1; 2; 3]) all_versions.
Proof. vm_compute. reflexivity. Qed.

(* ---------- 1b. format and version information words are the computed BCH / Golay words ---------- *)
Theorem qr_format_infos_bch :
  qr_format_infos
  = map (fun l => (level_Z l, map (fun m => (m, word_bits 15 (format_word l m))) (sseq 0 8)))
        all_levels.
Proof. vm_compute. reflexivity. Qed.

Theorem qr_version_bits_golay :
  qr_version_bits = map (fun v => (v, word_bits 18 (version_word v))) (sseq 7 34).
Proof. vm_compute. reflexivity. Qed.

(* in the form the composition uses: looking up (level, mask) gives 15 bits whose value
   is the format word, and the reader decodes that word to (level, mask) *)
Definition format_entry_ok (l : qlevel) (m : Z) : bool :=
  let f := format_lookup (level_Z l) m in
  (length f =? 15)%nat
  && (bits_to_Z f =? format_word l m)
  && match decode_format (format_word l m) with
     | Some (l', m') => qlevel_eqb l' l && (m' =? m)
     | None => false
     end.

Lemma format_entries_ok_all :
  forallb (fun l => forallb (format_entry_ok l) (sseq 0 8)) all_levels = true.
Proof. vm_compute. reflexivity. Qed.

Lemma qlevel_eqb_eq a b : qlevel_eqb a b = true -> a = b.
Proof. destruct a, b; cbn; intros H; try reflexivity; discriminate. Qed.

Lemma format_entry l m : 0 <= m < 8 ->
  length (format_lookup (level_Z l) m) = 15%nat
  /\ bits_to_Z (format_lookup (level_Z l) m) = format_word l m
  /\ decode_format (format_word l m) = Some (l, m).
Proof.
  intros Hm. pose proof format_entries_ok_all as H.
  rewrite forallb_forall in H. specialize (H l (in_all_levels l)).
  rewrite forallb_forall in H. specialize (H m (in_sseq m 8 0 ltac:(lia))).
  unfold format_entry_ok in H.
  apply andb_true_iff in H. destruct H as [H H3].
  apply andb_true_iff in H. destruct H as [H1 H2].
  split; [apply Nat.eqb_eq; exact H1|]. split; [lia|].
  destruct (decode_format (format_word l m)) as [[l' m']|]; [|discriminate].
  apply andb_true_iff in H3. destruct H3 as [Hl Hm'].
  apply qlevel_eqb_eq in Hl. subst l'. f_equal. f_equal. lia.
Qed.

(* ---------- 1c. the alphanumeric character set and the mode indicators ---------- *)
Theorem qr_charset_iso : qr_charset = iso_alnum.
Proof. vm_compute. reflexivity. Qed.

Theorem qr_mode_indicators :
  qr_numeric_mode = 1 /\ qr_alphanumeric_mode = 2 /\ qr_byte_mode = 4.
Proof. repeat split; reflexivity. Qed.

(* the library numbers its level constants L, M, Q, H = 0..3 and its Encoding
   constants Auto, Numeric, AlphaNumeric, Unicode = 0..3 *)
Theorem qr_constants :
  (qr_level_L, qr_level_M, qr_level_Q, qr_level_H) = (0, 1, 2, 3)
  /\ (qr_enc_auto, qr_enc_numeric, qr_enc_alphanumeric, qr_enc_unicode) = (0, 1, 2, 3).
Proof. split; reflexivity. Qed.

(* ---------- 1d. alignment pattern positions: the float computation reproduces Annex E ---------- *)
Theorem qr_alignment_annex_e :
  forallb (fun v =>
    match alignment_placements v with
    | Ok l => (length l =? length (alignment_centres v))%nat
              && forallb (fun p => fst p =? snd p) (combine l (alignment_centres v))
    | _ => false
    end) all_versions = true.
Proof. vm_compute. reflexivity. Qed.

Lemma list_eq_of_combine (a b : list Z) :
  length a = length b -> forallb (fun p => fst p =? snd p) (combine a b) = true -> a = b.
Proof.
  revert b. induction a as [|x a IH]; intros [|y b] Hl H; cbn in *; try reflexivity; try lia.
  apply andb_true_iff in H. destruct H as [H1 H2]. f_equal; [lia|]. apply IH; [lia|exact H2].
Qed.

Lemma alignment_placements_spec v : 1 <= v <= 40 ->
  alignment_placements v = Ok (alignment_centres v).
Proof.
  intros Hv. pose proof qr_alignment_annex_e as H. rewrite forallb_forall in H.
  specialize (H v (in_all_versions v Hv)).
  destruct (alignment_placements v) as [l| | |]; try discriminate.
  apply andb_true_iff in H. destruct H as [H1 H2]. f_equal.
  apply list_eq_of_combine; [apply Nat.eqb_eq; exact H1|exact H2].
Qed.

(* ---------- 1e. charCountBits is Table 3; modulWidth is 17+4v ---------- *)
Theorem qr_char_count_bits_iso v : 1 <= v <= 40 ->
  char_count_bits v qr_numeric_mode = spec_ccb SNumeric v
  /\ char_count_bits v qr_alphanumeric_mode = spec_ccb SAlnum v
  /\ char_count_bits v qr_byte_mode = spec_ccb SByte v.
Proof.
  intros Hv. unfold char_count_bits, spec_ccb. cbn [Z.eqb qr_numeric_mode qr_alphanumeric_mode qr_byte_mode Pos.eqb].
  repeat split;
    destruct (v <? 10) eqn:E1; destruct (v <=? 9) eqn:E2; try lia; try reflexivity;
    destruct (v <? 27) eqn:E3; destruct (v <=? 26) eqn:E4; try lia; reflexivity.
Qed.

Lemma modul_width_spec v : modul_width v = spec_size v.
Proof. unfold modul_width, spec_size. lia. Qed.

(* ---------- 1f. rows: shape facts used by the other layers ---------- *)
Definition mode_of_smode (m : smode) : Z :=
  match m with SNumeric => qr_numeric_mode | SAlnum => qr_alphanumeric_mode | SByte => qr_byte_mode end.

(* an upper bound on the characters n whose data fits `avail` bits *)
Definition max_chars (m : smode) (avail : Z) : Z :=
  match m with
  | SNumeric => (3 * avail + 20) / 10
  | SAlnum => (2 * avail + 10) / 11
  | SByte => avail / 8
  end.

Definition row_ok (vi : vinfo) : bool :=
  let v := vi_version vi in
  match level_of_Z (vi_level vi) with
  | None => false
  | Some l =>
    let b := spec_blocks v l in
    (1 <=? v) && (v <=? 40)
    && (vi_ecc vi =? bl_e b) && (vi_n1 vi =? bl_n1 b) && (vi_k1 vi =? bl_k1 b) && (vi_n2 vi =? bl_n2 b)
    && ((vi_n2 vi =? 0) && (vi_k2 vi =? 0) || (0 <? vi_n2 vi) && (vi_k2 vi =? vi_k1 vi + 1))
    && (1 <=? vi_ecc vi) && (vi_ecc vi <=? 30) && (1 <=? vi_n1 vi) && (1 <=? vi_k1 vi) && (0 <=? vi_n2 vi)
    && (vi_k1 vi + 1 + vi_ecc vi <=? 255)
    && (total_data_bytes vi =? spec_data_codewords v l)
    && (total_data_bytes vi + (vi_n1 vi + vi_n2 vi) * vi_ecc vi =? total_codewords v)
    && (1 <=? total_data_bytes vi)
    (* the largest character count that can be accepted fits its count field *)
    && forallb (fun m =>
         max_chars m (8 * total_data_bytes vi - 4 - spec_ccb m v) <? 2 ^ spec_ccb m v)
         [SNumeric; SAlnum; SByte]
  end.

Theorem qr_rows_ok : forallb row_ok version_infos = true.
Proof. vm_compute. reflexivity. Qed.

Lemma row_ok_in vi : In vi version_infos -> row_ok vi = true.
Proof. intros H. pose proof qr_rows_ok as Hall. rewrite forallb_forall in Hall. apply Hall. exact H. Qed.

(* the count field never truncates: n characters whose data fits have n < 2^ccb *)
Lemma data_bits_bound m n avail : 0 <= n -> spec_data_bits m n <= avail -> n <= max_chars m avail.
Proof.
  intros Hn. unfold spec_data_bits, max_chars. destruct m.
  - destruct (n mod 3 =? 0) eqn:E0; [lia|]. destruct (n mod 3 =? 1) eqn:E1; lia.
  - lia.
  - lia.
Qed.

Lemma count_fits vi m n : In vi version_infos -> 0 <= n ->
  4 + spec_ccb m (vi_version vi) + spec_data_bits m n <= 8 * total_data_bytes vi ->
  n < 2 ^ spec_ccb m (vi_version vi).
Proof.
  intros Hin Hn Hfit. pose proof (row_ok_in vi Hin) as H. unfold row_ok in H.
  destruct (level_of_Z (vi_level vi)) as [l|]; [|discriminate].
  apply andb_true_iff in H. destruct H as [_ H].
  rewrite forallb_forall in H.
  assert (Hm : In m [SNumeric; SAlnum; SByte]) by (destruct m; cbn; auto).
  specialize (H m Hm).
  pose proof (data_bits_bound m n (8 * total_data_bytes vi - 4 - spec_ccb m (vi_version vi)) Hn ltac:(lia)).
  lia.
Qed.

(* sanity: the well-known capacities of version 40-L *)
Example capacity_40L :
  (spec_capacity SNumeric LvL 40, spec_capacity SAlnum LvL 40, spec_capacity SByte LvL 40)
  = (7089, 4296, 2953).
Proof. vm_compute. reflexivity. Qed.

Example fits_40L :
  spec_fits SNumeric LvL 7089 40 = true /\ spec_fits_some SNumeric LvL 7090 = false
  /\ spec_fits SAlnum LvL 4296 40 = true /\ spec_fits_some SAlnum LvL 4297 = false
  /\ spec_fits SByte LvL 2953 40 = true /\ spec_fits_some SByte LvL 2954 = false.
Proof. vm_compute. repeat split; reflexivity. Qed.
