(* C15 proofs *)
From Coq Require Import String Permutation.
From Verif Require Import Prelude GFM GFP PolyP RSP TabSync ConcM ConcP PurityM.
Import List ListNotations.
Notation length := List.length.

(* ---------- (i) history independence of the library state machine ---------- *)
Section Lib.
Variables fq fd : gfield.
Hypothesis Hq : gf_ok fq = true.
Hypothesis Hd : gf_ok fd = true.

Definition reqs_ok (f : gfield) (reqs : list (list Z * Z)) : Prop := Forall (req_ok f) reqs.

Definition op_ok (o : libop) : Prop :=
  match o with LQR r => reqs_ok fq r | LDM r => reqs_ok fd r | LOther => True end.

Definition lib_inv (s : libstate) : Prop := cache_ok fq (ls_qr s) /\ cache_ok fd (ls_dm s).

Lemma rs_requests_spec f (Hf : gf_ok f = true) reqs : reqs_ok f reqs -> forall cache, cache_ok f cache ->
  exists c' res, rs_requests f cache reqs = Ok (c', res) /\ cache_ok f c'
    /\ rs_requests_fresh f reqs = Ok res.
Proof.
  induction 1 as [|[d k] t (Hk & Hb & Hdd) Ht IH]; intros cache Hc.
  - exists cache, []. split; [reflexivity|]. split; [exact Hc|reflexivity].
  - cbn [rs_requests rs_requests_fresh fst snd] in *.
    destruct (rs_encode_any_cache f Hf cache d k Hc Hk Hb Hdd) as (c1 & ecc & Henc & Hc1 & _ & _ & _ & Hfresh).
    rewrite Henc, Hfresh. cbn [obind].
    destruct (IH c1 Hc1) as (c2 & res & Hr & Hc2 & Hfr). rewrite Hr, Hfr. cbn [obind].
    exists c2, (ecc :: res). split; [reflexivity|]. split; [exact Hc2|reflexivity].
Qed.

Lemma lib_step_spec s o : lib_inv s -> op_ok o ->
  exists s' res, lib_step fq fd s o = Ok (s', res) /\ lib_inv s' /\ lib_fresh fq fd o = Ok res.
Proof.
  intros [Iq Id] Ho. destruct o as [r|r|]; cbn [lib_step lib_fresh op_ok] in *.
  - destruct (rs_requests_spec fq Hq r Ho _ Iq) as (c & res & H1 & H2 & H3).
    rewrite H1. cbn [obind]. eexists _, res. split; [reflexivity|]. split; [split; assumption|exact H3].
  - destruct (rs_requests_spec fd Hd r Ho _ Id) as (c & res & H1 & H2 & H3).
    rewrite H1. cbn [obind]. eexists _, res. split; [reflexivity|]. split; [split; assumption|exact H3].
  - exists s, []. split; [reflexivity|]. split; [split; assumption|reflexivity].
Qed.

Theorem lib_history_free history : Forall op_ok history -> forall s, lib_inv s ->
  exists s', lib_run fq fd s history = Ok s' /\ lib_inv s'.
Proof.
  induction 1 as [|o t Ho Ht IH]; intros s Hs.
  - exists s. split; [reflexivity|exact Hs].
  - cbn [lib_run]. destruct (lib_step_spec s o Hs Ho) as (s1 & res & H1 & H2 & _).
    rewrite H1. cbn [obind]. apply IH. exact H2.
Qed.

(* any call, after any history of other calls, returns what it returns in a
   freshly started process *)
Theorem lib_call_is_pure history o : Forall op_ok history -> op_ok o ->
  exists s s' res, lib_run fq fd lib_init history = Ok s
    /\ lib_step fq fd s o = Ok (s', res) /\ lib_fresh fq fd o = Ok res.
Proof.
  intros Hh Ho.
  destruct (lib_history_free history Hh lib_init (conj (cache_ok_init fq) (cache_ok_init fd))) as (s & Hrun & Hinv).
  destruct (lib_step_spec s o Hinv Ho) as (s' & res & H1 & _ & H3).
  exists s, s', res. auto.
Qed.
End Lib.

(* ---------- (ii) caller memory ---------- *)
Section HeapP.
Variable enc : list Z -> option (list (list bool)).

Definition obj_matches (o : az_obj) (sn : snap) : Prop :=
  ao_content o = CCopy (sn_content sn) /\ ao_pixels o = sn_pixels sn.

Lemma hstep_snapshot s objs o : Forall2 obj_matches (hs_objs s) objs ->
  let '(s', out) := hstep enc false s o in
  let '(h', objs', out') := sstep enc (hs_heap s) objs o in
  hs_heap s' = h' /\ Forall2 obj_matches (hs_objs s') objs' /\ out = out'.
Proof.
  intros HF. destruct o as [a|a i b|k|k]; cbn [hstep sstep].
  - destruct (nth_error (hs_heap s) a) as [buf|]; [|auto].
    destruct (enc buf) as [px|]; [|auto]. cbn [hs_heap hs_objs].
    split; [reflexivity|]. split; [|reflexivity].
    apply Forall2_app; [exact HF|]. constructor; [|constructor]. split; reflexivity.
  - destruct (nth_error (hs_heap s) a) as [buf|]; auto.
  - assert (Hn : forall k, match nth_error (hs_objs s) k, nth_error objs k with
                          | Some o, Some sn => obj_matches o sn | None, None => True | _, _ => False end).
    { clear -HF. induction HF as [|o sn os sns Hm HF IH]; intros [|k]; cbn; auto. apply IH. }
    specialize (Hn k). destruct (nth_error (hs_objs s) k) as [o|], (nth_error objs k) as [sn|]; try tauto; auto.
    destruct Hn as [Hc Hp]. rewrite Hc. auto.
  - assert (Hn : forall k, match nth_error (hs_objs s) k, nth_error objs k with
                          | Some o, Some sn => obj_matches o sn | None, None => True | _, _ => False end).
    { clear -HF. induction HF as [|o sn os sns Hm HF IH]; intros [|k]; cbn; auto. apply IH. }
    specialize (Hn k). destruct (nth_error (hs_objs s) k) as [o|], (nth_error objs k) as [sn|]; try tauto; auto.
    destruct Hn as [Hc Hp]. rewrite Hp. auto.
Qed.

(* every history of encodes, buffer mutations and observations behaves as if
   each barcode were an immutable snapshot taken at encode time; an encode never
   changes any buffer *)
Theorem barcodes_are_snapshots ops : forall s objs, Forall2 obj_matches (hs_objs s) objs ->
  let '(s', outs) := hrun enc false s ops in
  let '(h', objs', outs') := srun enc (hs_heap s) objs ops in
  hs_heap s' = h' /\ outs = outs'.
Proof.
  induction ops as [|o t IH]; intros s objs HF; cbn [hrun srun]; [auto|].
  pose proof (hstep_snapshot s objs o HF) as Hs.
  destruct (hstep enc false s o) as [s1 out]. destruct (sstep enc (hs_heap s) objs o) as [[h1 o1] out'].
  destruct Hs as (Hh & HF1 & Ho). subst h1 out'.
  specialize (IH s1 o1 HF1).
  destruct (hrun enc false s1 t) as [s2 outs]. destruct (srun enc (hs_heap s1) o1 t) as [[h2 o2] outs'].
  destruct IH as [IH1 IH2]. subst. auto.
Qed.

Lemma encode_keeps_heap s a : hs_heap (fst (hstep enc false s (HEncode a))) = hs_heap s.
Proof.
  cbn [hstep]. destruct (nth_error (hs_heap s) a) as [buf|]; [|reflexivity].
  destruct (enc buf); reflexivity.
Qed.

(* if the implementation retained the caller's slice the snapshot property would
   fail: witness (this is the defect that was repaired in aztec.EncodeWithColor) *)
Lemma retaining_breaks_snapshot : enc [104] <> None ->
  snd (hrun enc true {| hs_heap := [[104]]; hs_objs := [] |} [HEncode 0; HMutate 0 0 74; HContent 0])
  <> snd (srun enc [[104]] [] [HEncode 0; HMutate 0 0 74; HContent 0]).
Proof.
  intros He. cbn. destruct (enc [104]) as [px|]; [|congruence]. cbn. intros H. inversion H.
Qed.
End HeapP.

Lemma source_does_not_retain : retains_from_source = false /\ writes_params_from_source = false.
Proof. vm_compute. split; reflexivity. Qed.

Lemma source_appends_only_internal : appends_only_internal = true.
Proof. vm_compute. reflexivity. Qed.

(* ---------- (iii) map iteration order ---------- *)
Lemma find_by_value_in tbl v k : find_by_value tbl v = Some k -> In (k, v) tbl.
Proof.
  induction tbl as [|[k' x] t IH]; cbn; [discriminate|].
  destruct (x =? v) eqn:E; intros H.
  - inversion H; subst. left. f_equal. lia.
  - right. apply IH. exact H.
Qed.

Lemma find_by_value_some tbl v : (exists k, In (k, v) tbl) -> exists k, find_by_value tbl v = Some k.
Proof.
  induction tbl as [|[k' x] t IH]; intros [k Hin]; [destruct Hin|].
  cbn. destruct (x =? v) eqn:E; [eauto|].
  destruct Hin as [Hin|Hin]; [inversion Hin; subst; lia|]. apply IH. eauto.
Qed.

(* when no two keys carry the same value, the key found does not depend on the
   order in which the map is traversed *)
Theorem find_by_value_order_independent tbl tbl' v :
  NoDup (map snd tbl) -> Permutation tbl tbl' -> find_by_value tbl' v = find_by_value tbl v.
Proof.
  intros Hnd Hp.
  assert (Hnd' : NoDup (map snd tbl')) by (eapply Permutation_NoDup; [apply Permutation_map; exact Hp|exact Hnd]).
  assert (Huniq : forall (t : list (Z * Z)) (k1 k2 : Z), NoDup (map snd t) -> In (k1, v) t -> In (k2, v) t -> k1 = k2).
  { clear. induction t as [|[k x] t IH]; intros k1 k2 Hn H1 H2; [destruct H1|].
    cbn in Hn. inversion Hn as [|? ? Hni Hn']; subst.
    destruct H1 as [H1|H1], H2 as [H2|H2].
    - congruence.
    - inversion H1; subst. exfalso. apply Hni. apply (in_map snd) in H2. exact H2.
    - inversion H2; subst. exfalso. apply Hni. apply (in_map snd) in H1. exact H1.
    - eapply IH; eauto. }
  destruct (find_by_value tbl v) as [k|] eqn:E.
  - pose proof (find_by_value_in _ _ _ E) as Hin.
    destruct (find_by_value_some tbl' v) as [k' Hk']; [exists k; eapply Permutation_in; eauto|].
    rewrite Hk'. f_equal.
    apply (Huniq tbl' k' k Hnd'); [apply find_by_value_in; exact Hk'|eapply Permutation_in; eauto].
  - destruct (find_by_value tbl' v) as [k'|] eqn:E'; [|reflexivity].
    exfalso. pose proof (find_by_value_in _ _ _ E') as Hin.
    destruct (find_by_value_some tbl v) as [k Hk]; [exists k'; eapply Permutation_in; [apply Permutation_sym; exact Hp|exact Hin]|].
    congruence.
Qed.
