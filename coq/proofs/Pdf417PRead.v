(* PDF417 layer 4b: the reference reader of spec/Pdf417Spec.v applied to the pixel
   matrix described in Pdf417PEnc.v gets back rows, columns, level and the
   codeword sequence. *)
From Verif Require Import Prelude Barcode BitListM TabPdf417 Pdf417M Pdf417Spec Pdf417PTab Pdf417PRow
  Pdf417PRS Pdf417PNum Pdf417PText Pdf417PSeg Pdf417PHL Pdf417PEnc.

Local Ltac Zify.zify_post_hook ::= Z.to_euclidean_division_equations.

(* ---------- modules <-> integers ---------- *)
Lemma pdfs_bits_value_acc k : forall v acc, 0 <= v ->
  fold_left (fun a (b : bool) => 2 * a + (if b then 1 else 0)) (msb_bits k v) acc =
  acc * 2 ^ Z.of_nat k + v mod 2 ^ Z.of_nat k.
Proof.
  induction k as [|k IH]; intros v acc Hv.
  - simpl. rewrite Z.mod_1_r. lia.
  - cbn [msb_bits fold_left]. rewrite IH by exact Hv.
    rewrite Nat2Z.inj_succ, Z.pow_succ_r by lia.
    assert (0 < 2 ^ Z.of_nat k) as Hp by (apply Z.pow_pos_nonneg; lia).
    rewrite (Z.mul_comm 2 (2 ^ Z.of_nat k)).
    rewrite (Z.rem_mul_r v (2 ^ Z.of_nat k) 2) by lia.
    rewrite <- Z.testbit_spec' by lia.
    destruct (Z.testbit v (Z.of_nat k)); cbn [Z.b2z]; ring.
Qed.

Lemma pdfs_bits_value_msb k v : 0 <= v < 2 ^ Z.of_nat k -> pdfs_bits_value (msb_bits k v) = v.
Proof.
  intros H. unfold pdfs_bits_value. rewrite pdfs_bits_value_acc by lia.
  rewrite Z.mod_small by lia. lia.
Qed.

(* ---------- cluster numbers: the three tables are disjoint ---------- *)
Definition pdfs_cluster_num (p : Z) : Z :=
  match pdfs_runs (pdfs_bits 17 p) with
  | [(true, b1); _; (true, b2); _; (true, b3); _; (true, b4); _] => (b1 - b2 + b3 - b4 + 9) mod 9
  | _ => -1
  end.

Lemma pdf_tab_cluster_nums :
  forallb (fun p => pdfs_cluster_num p =? 0) pdfs_cluster0 = true /\
  forallb (fun p => pdfs_cluster_num p =? 3) pdfs_cluster3 = true /\
  forallb (fun p => pdfs_cluster_num p =? 6) pdfs_cluster6 = true.
Proof. split; [|split]; vm_cast_no_check (eq_refl true). Qed.

Lemma pdfs_cluster_num_In t p : 0 <= t < 3 -> In p (pdfs_cluster t) -> pdfs_cluster_num p = 3 * t.
Proof.
  intros Ht Hp. destruct pdf_tab_cluster_nums as (H0 & H1 & H2).
  rewrite forallb_forall in H0, H1, H2.
  assert (t = 0 \/ t = 1 \/ t = 2) as [->| [->| ->]] by lia;
    [change (pdfs_cluster 0) with pdfs_cluster0 in Hp; specialize (H0 p Hp)
    | change (pdfs_cluster 1) with pdfs_cluster3 in Hp; specialize (H1 p Hp)
    | change (pdfs_cluster 2) with pdfs_cluster6 in Hp; specialize (H2 p Hp)]; lia.
Qed.

Lemma pdfs_pattern_range cl p : pdfs_pattern_ok cl p = true -> 0 <= p < 131072.
Proof.
  unfold pdfs_pattern_ok. intros H. apply andb_prop in H as [H _]. lia.
Qed.

Lemma pat_range t v : 0 <= t < 3 -> 0 <= v < 929 -> 0 <= pat t v < 2 ^ Z.of_nat 17.
Proof.
  intros Ht Hv. change (2 ^ Z.of_nat 17) with 131072.
  apply (pdfs_pattern_range (3 * t)). apply pdf_tab_pattern_ok; [exact Ht | apply pat_In; assumption].
Qed.

(* ---------- pattern -> value ---------- *)
Lemma pdfs_index_of_nth l : forall n i p, NoDup l -> nth_error l n = Some p ->
  pdfs_index_of p l i = Some (i + Z.of_nat n).
Proof.
  induction l as [|x l IH]; intros n i p Hnd Hn; [destruct n; discriminate|].
  inversion Hnd as [|? ? Hx Hnd']; subst. destruct n as [|n]; cbn [nth_error pdfs_index_of] in *.
  - inversion Hn; subst. rewrite Z.eqb_refl. f_equal. lia.
  - assert (x <> p) as Hne by (intros ->; apply Hx; eapply nth_error_In; eauto).
    replace (x =? p) with false by lia. rewrite (IH n (i + 1) p Hnd' Hn). f_equal. lia.
Qed.

Lemma pdfs_index_of_pat t v : 0 <= t < 3 -> 0 <= v < 929 ->
  pdfs_index_of (pat t v) (pdfs_cluster t) 0 = Some v.
Proof.
  intros Ht Hv. rewrite (pdfs_index_of_nth _ (Z.to_nat v) 0 (pat t v)).
  - f_equal. lia.
  - apply pdf_tab_patterns_nodup. exact Ht.
  - unfold pat. apply nth_error_nth'. rewrite pdf_tab_patterns_length by exact Ht. lia.
Qed.

Lemma firstn_app_exact {A} (x y : list A) n : length x = n -> firstn n (x ++ y) = x.
Proof. intros <-. rewrite firstn_app, Nat.sub_diag, firstn_all, firstn_O, app_nil_r. reflexivity. Qed.

Lemma skipn_app_exact {A} (x y : list A) n : length x = n -> skipn n (x ++ y) = y.
Proof. intros <-. rewrite skipn_app, Nat.sub_diag, skipn_all, skipn_O. reflexivity. Qed.

Lemma pdfs_cells_ok t vs : 0 <= t < 3 -> Forall in929 vs -> forall rest,
  pdfs_cells (length vs) (pdfs_cluster t) (flat_map (msb_bits 17) (map (pat t) vs) ++ rest) = Some vs.
Proof.
  intros Ht. induction 1 as [|v vs Hv Hvs IH]; intros rest; [reflexivity|].
  cbn [length map flat_map pdfs_cells]. rewrite <- app_assoc.
  rewrite (firstn_app_exact (msb_bits 17 (pat t v))) by apply msb_bits_length.
  rewrite (skipn_app_exact (msb_bits 17 (pat t v))) by apply msb_bits_length.
  rewrite pdfs_bits_value_msb by (apply pat_range; [exact Ht | apply in929_range; exact Hv]).
  rewrite pdfs_index_of_pat by (auto using in929_range). cbn [pdfs_obind].
  rewrite IH. reflexivity.
Qed.

(* ---------- one row ---------- *)
Lemma pdfs_read_row_ok i r c l ws :
  0 <= i < r -> r <= 90 -> 1 <= c <= 30 -> 0 <= l <= 8 ->
  Forall in929 ws -> zlength ws = c ->
  pdfs_read_row (pdfs_cluster (i mod 3)) (row_pix i r c l ws) =
  Some (c, pdfs_left_indicator i r c l, ws, pdfs_right_indicator i r c l).
Proof.
  intros Hi Hr Hc Hl Hws Hlen.
  assert (0 <= i mod 3 < 3) as Ht by (apply Z.mod_pos_bound; lia).
  destruct (pdfs_indicator_range i r c l Hi Hr Hc Hl) as [RL RR].
  set (t := i mod 3) in *. set (lv := pdfs_left_indicator i r c l) in *.
  set (rv := pdfs_right_indicator i r c l) in *.
  unfold pdfs_read_row.
  assert (zlength (row_pix i r c l ws) = 17 * (c + 4) + 1) as Ew.
  { unfold zlength. rewrite row_pix_length. unfold zlength in Hlen. lia. }
  rewrite Ew.
  replace ((17 * (c + 4) + 1 - 1) / 17 - 4) with c by lia.
  replace ((17 * (c + 4) + 1 - 1) mod 17 =? 0) with true by lia.
  replace (c <? 1) with false by lia. cbn [negb orb].
  rewrite row_pix_eq. fold t lv rv.
  rewrite (firstn_app_exact (msb_bits 17 pdfs_start)) by apply msb_bits_length.
  rewrite (skipn_app_exact (msb_bits 17 pdfs_start)) by apply msb_bits_length.
  destruct pdf_tab_start_stop as (_ & _ & _ & _ & _ & _ & Bs & Bt).
  rewrite pdfs_bits_value_msb by (change (2 ^ Z.of_nat 17) with 131072; lia).
  rewrite Z.eqb_refl. cbn [negb].
  (* the c+2 cells *)
  change (pat t lv :: map (pat t) ws ++ [pat t rv]) with (map (pat t) [lv] ++ map (pat t) ws ++ map (pat t) [rv]).
  rewrite <- !map_app.
  assert (Forall in929 ([lv] ++ ws ++ [rv])) as Hall.
  { apply Forall_app. split; [constructor; [exact RL | constructor]|].
    apply Forall_app. split; [exact Hws | constructor; [exact RR | constructor]]. }
  assert (Z.to_nat (c + 2) = length ([lv] ++ ws ++ [rv])) as Elen.
  { rewrite !app_length. simpl length. unfold zlength in Hlen. lia. }
  rewrite Elen. rewrite pdfs_cells_ok by assumption. cbn [pdfs_obind].
  rewrite (skipn_app_exact (flat_map (msb_bits 17) (map (pat t) ([lv] ++ ws ++ [rv])))).
  2:{ rewrite flat_map_length17, map_length. reflexivity. }
  rewrite pdfs_bits_value_msb by (change (2 ^ Z.of_nat 18) with 262144; lia).
  rewrite Z.eqb_refl. cbn [negb app].
  rewrite rev_app_distr. cbn [rev app]. rewrite rev_involutive. reflexivity.
Qed.

(* ---------- all rows ---------- *)
Fixpoint rows_info (grid : list (list Z)) (i r c l : Z) : list (Z * Z * list Z * Z) :=
  match grid with
  | [] => []
  | ws :: t => (c, pdfs_left_indicator i r c l, ws, pdfs_right_indicator i r c l) :: rows_info t (i + 1) r c l
  end.

Lemma pdfs_read_rows_ok grid : forall i r c l,
  0 <= i -> i + zlength grid <= r -> r <= 90 -> 1 <= c <= 30 -> 0 <= l <= 8 ->
  Forall (Forall in929) grid -> Forall (fun ws => zlength ws = c) grid ->
  pdfs_read_rows (rows_pix grid i r c l) i = Some (rows_info grid i r c l).
Proof.
  induction grid as [|ws grid IH]; intros i r c l Hi Hr H90 Hc Hl Hg Hw; [reflexivity|].
  inversion Hg as [|? ? Hws Hg']; subst. inversion Hw as [|? ? Hlen Hw']; subst.
  rewrite zlength_cons in Hr. pose proof (zlength_nonneg grid) as Hz.
  cbn [rows_pix pdfs_read_rows rows_info].
  rewrite pdfs_patterns_nth by (apply Z.mod_pos_bound; lia). cbn [pdfs_obind].
  rewrite pdfs_read_row_ok by (try assumption; try reflexivity; lia). cbn [pdfs_obind].
  rewrite IH by (try assumption; lia). reflexivity.
Qed.

Lemma pdfs_indicators_ok_rows grid : forall i r c l,
  pdfs_indicators_ok (rows_info grid i r c l) i r c l = true.
Proof.
  induction grid as [|ws grid IH]; intros; [reflexivity|].
  cbn [rows_info pdfs_indicators_ok]. rewrite !Z.eqb_refl, IH. reflexivity.
Qed.

Lemma rows_info_data grid : forall i r c l,
  flat_map (fun x => match x with (_, _, d, _) => d end) (rows_info grid i r c l) = concat grid.
Proof.
  induction grid as [|ws grid IH]; intros; [reflexivity|].
  cbn [rows_info flat_map concat]. rewrite IH. reflexivity.
Qed.

Lemma rows_info_length grid : forall i r c l, length (rows_info grid i r c l) = length grid.
Proof. induction grid; intros; simpl; [reflexivity | rewrite IHgrid; reflexivity]. Qed.

(* ---------- merging equal pixel rows ---------- *)
Lemma pdfs_row_eqb_eq a : forall b, pdfs_row_eqb a b = true <-> a = b.
Proof.
  induction a as [|x a IH]; intros [|y b]; simpl; split; try congruence; try discriminate; auto.
  - intros H. apply andb_prop in H as [H1 H2]. apply Bool.eqb_prop in H1. apply IH in H2. congruence.
  - intros H. inversion H; subst. rewrite Bool.eqb_reflx. apply IH. reflexivity.
Qed.

Fixpoint adj_diff {A} (l : list A) : Prop :=
  match l with
  | a :: t => match t with b :: _ => a <> b /\ adj_diff t | [] => True end
  | [] => True
  end.

Lemma pdfs_dedup_cons2 a b t :
  pdfs_dedup (a :: b :: t) = if pdfs_row_eqb a b then pdfs_dedup (b :: t) else a :: pdfs_dedup (b :: t).
Proof. reflexivity. Qed.

Lemma pdfs_dedup_repeat_head a k X :
  pdfs_dedup (repeat a (S k) ++ X) = pdfs_dedup (a :: X).
Proof.
  induction k as [|k IH]; [reflexivity|].
  change (repeat a (S (S k)) ++ X) with (a :: a :: (repeat a k ++ X)).
  rewrite pdfs_dedup_cons2.
  replace (pdfs_row_eqb a a) with true by (symmetry; apply pdfs_row_eqb_eq; reflexivity).
  exact IH.
Qed.

Lemma pdfs_dedup_flat h rows : (0 < h)%nat -> adj_diff rows ->
  pdfs_dedup (flat_map (fun row => repeat row h) rows) = rows.
Proof.
  intros Hh. destruct h as [|k]; [lia|].
  induction rows as [|a t IH]; intros Hd; [reflexivity|].
  cbn [flat_map]. rewrite pdfs_dedup_repeat_head.
  destruct t as [|b t'].
  - reflexivity.
  - cbn [adj_diff] in Hd. destruct Hd as [Hab Hd].
    specialize (IH Hd). cbn [flat_map] in *.
    change (repeat b (S k) ++ flat_map (fun row => repeat row (S k)) t')
      with (b :: (repeat b k ++ flat_map (fun row => repeat row (S k)) t')) in *.
    rewrite pdfs_dedup_cons2.
    replace (pdfs_row_eqb a b) with false.
    + rewrite IH. reflexivity.
    + symmetry. destruct (pdfs_row_eqb a b) eqn:E; [|reflexivity].
      apply pdfs_row_eqb_eq in E. contradiction.
Qed.

(* adjacent rows differ: their left indicator patterns are of different clusters *)
Lemma row_pix_indicator_bits i r c l ws :
  firstn 17 (skipn 17 (row_pix i r c l ws)) = msb_bits 17 (pat (i mod 3) (pdfs_left_indicator i r c l)).
Proof.
  rewrite row_pix_eq.
  rewrite (skipn_app_exact (msb_bits 17 pdfs_start)) by apply msb_bits_length.
  cbn [flat_map]. rewrite <- !app_assoc.
  apply firstn_app_exact. apply msb_bits_length.
Qed.

Lemma rows_pix_adj_diff grid : forall i r c l,
  0 <= i -> i + zlength grid <= r -> r <= 90 -> 1 <= c <= 30 -> 0 <= l <= 8 ->
  adj_diff (rows_pix grid i r c l).
Proof.
  induction grid as [|ws grid IH]; intros i r c l Hi Hr H90 Hc Hl; [exact I|].
  rewrite zlength_cons in Hr. pose proof (zlength_nonneg grid) as Hz.
  cbn [rows_pix]. destruct grid as [|ws2 grid'] eqn:Eg; [exact I|].
  rewrite <- Eg in *. cbn [adj_diff].
  assert (rows_pix grid (i + 1) r c l = row_pix (i + 1) r c l ws2 :: rows_pix grid' (i + 1 + 1) r c l) as E
    by (rewrite Eg; reflexivity).
  rewrite E. split.
  - intros Heq. apply (f_equal (fun x => firstn 17 (skipn 17 x))) in Heq.
    rewrite !row_pix_indicator_bits in Heq.
    assert (zlength grid >= 1) by (rewrite Eg, zlength_cons; pose proof (zlength_nonneg grid'); lia).
    assert (0 <= i mod 3 < 3) as Ht1 by (apply Z.mod_pos_bound; lia).
    assert (0 <= (i + 1) mod 3 < 3) as Ht2 by (apply Z.mod_pos_bound; lia).
    destruct (pdfs_indicator_range i r c l ltac:(lia) H90 Hc Hl) as [R1 _].
    destruct (pdfs_indicator_range (i + 1) r c l ltac:(lia) H90 Hc Hl) as [R2 _].
    apply (f_equal pdfs_bits_value) in Heq.
    rewrite !pdfs_bits_value_msb in Heq by (apply pat_range; assumption).
    pose proof (pdfs_cluster_num_In _ _ Ht1 (pat_In _ _ Ht1 R1)) as C1.
    pose proof (pdfs_cluster_num_In _ _ Ht2 (pat_In _ _ Ht2 R2)) as C2.
    rewrite Heq in C1. lia.
  - rewrite <- E. apply IH; lia.
Qed.
