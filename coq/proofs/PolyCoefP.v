(* Coefficient-level correctness of GFPoly.Divide:
     AddOrSubstract (Multiply quotient divisor) remainder = dividend
   as coefficient lists, for every field satisfying gf_ok. *)
From Coq Require Import FMapPositive.
From Verif Require Import Prelude GFM GFP PolyP.

#[local] Arguments Z.mul : simpl never.
#[local] Arguments Z.add : simpl never.
#[local] Arguments Z.sub : simpl never.
#[local] Arguments Z.lxor : simpl never.

(* coefficient of x^k of a big-endian coefficient list *)
Definition coef (p : list Z) (k : nat) : Z := nth k (rev p) 0.

Lemma coef_app pre l k :
  coef (pre ++ l) k = if (k <? length l)%nat then coef l k else coef pre (k - length l).
Proof.
  unfold coef. rewrite rev_app_distr.
  destruct (Nat.ltb_spec k (length l)) as [H|H].
  - apply app_nth1. rewrite rev_length. exact H.
  - rewrite app_nth2 by (rewrite rev_length; exact H). rewrite rev_length. reflexivity.
Qed.

Lemma coef_overflow p k : (length p <= k)%nat -> coef p k = 0.
Proof. intros H. unfold coef. apply nth_overflow. rewrite rev_length. exact H. Qed.

Lemma coef_cons x p k :
  coef (x :: p) k = if (k <? length p)%nat then coef p k else if (k =? length p)%nat then x else 0.
Proof.
  change (x :: p) with ([x] ++ p). rewrite coef_app.
  destruct (Nat.ltb_spec k (length p)) as [H|H]; [reflexivity|].
  destruct (Nat.eqb_spec k (length p)) as [->|Hne].
  - rewrite Nat.sub_diag. reflexivity.
  - apply coef_overflow. cbn. lia.
Qed.

Lemma coef_zeros d k : coef (repeat 0 d) k = 0.
Proof.
  unfold coef. destruct (Nat.lt_ge_cases k d) as [H|H].
  - assert (Hin : In (nth k (rev (repeat 0 d)) 0) (rev (repeat 0 d)))
      by (apply nth_In; rewrite rev_length, repeat_length; exact H).
    apply in_rev in Hin. apply repeat_spec in Hin. exact Hin.
  - apply nth_overflow. rewrite rev_length, repeat_length. exact H.
Qed.

Lemma coef_norm l k : coef (poly_norm l) k = coef l k.
Proof.
  induction l as [|x l IH]; [reflexivity|]. destruct l as [|x2 l]; [reflexivity|].
  rewrite poly_norm_cons2. destruct (x =? 0) eqn:E; [|reflexivity].
  assert (x = 0) by lia. subst x. rewrite IH.
  rewrite (coef_cons 0 (x2 :: l) k).
  destruct (Nat.ltb_spec k (length (x2 :: l))) as [H|H]; [reflexivity|].
  rewrite coef_overflow by exact H. destruct (k =? length (x2 :: l))%nat; reflexivity.
Qed.

Lemma coef_xor a : forall b, length a = length b -> forall k,
  coef (xor_lists a b) k = Z.lxor (coef a k) (coef b k).
Proof.
  induction a as [|x a IH]; intros [|y b] Hl k; cbn in Hl; try lia.
  - cbn. unfold coef. destruct k; reflexivity.
  - cbn [xor_lists]. rewrite !coef_cons.
    assert (Hx : length (xor_lists a b) = length a) by (apply (xor_lists_length (gf_new 19 16 1)); lia).
    rewrite Hx. replace (length b) with (length a) by lia.
    destruct (k <? length a)%nat; [apply IH; lia|].
    destruct (k =? length a)%nat; reflexivity.
Qed.

Lemma coef_map_scale (g : Z -> Z) l k : g 0 = 0 -> coef (map g l) k = g (coef l k).
Proof.
  intros H0. unfold coef. rewrite <- map_rev.
  destruct (Nat.lt_ge_cases k (length (rev l))) as [H|H].
  - rewrite nth_indep with (d' := g 0) by (rewrite map_length; exact H). apply map_nth.
  - rewrite !nth_overflow by (rewrite ?map_length; exact H). symmetry. exact H0.
Qed.

(* two normal polynomials with the same coefficients are the same list *)
Lemma coef_canonical a b : pnormal a -> pnormal b -> (forall k, coef a k = coef b k) -> a = b.
Proof.
  intros Ha Hb H.
  assert (Hlen : forall p q, pnormal p -> pnormal q -> (forall k, coef p k = coef q k) ->
                 (length p <= length q)%nat -> length p = length q).
  { intros p q Hp Hq Hc Hle.
    destruct (Nat.eq_dec (length p) (length q)) as [|Hne]; [assumption|exfalso].
    destruct q as [|y q]; [inversion Hq|]. destruct q as [|y2 q].
    - destruct p; [inversion Hp|cbn in *; lia].
    - cbn in Hq.
      specialize (Hc (length (y2 :: q))). rewrite (coef_cons y (y2 :: q)) in Hc.
      rewrite Nat.ltb_irrefl, Nat.eqb_refl in Hc.
      rewrite coef_overflow in Hc by (cbn [length] in *; lia). congruence. }
  assert (Hl : length a = length b).
  { destruct (Nat.le_ge_cases (length a) (length b)) as [Hle|Hle].
    - apply Hlen; assumption.
    - symmetry. apply Hlen; auto. }
  apply (f_equal (@rev Z)) || idtac.
  assert (rev a = rev b).
  { apply nth_ext with (d := 0) (d' := 0); [rewrite !rev_length; exact Hl|]. intros n _. apply H. }
  rewrite <- (rev_involutive a), <- (rev_involutive b). congruence.
Qed.

Section Coef.
Variable f : gfield.
Hypothesis Hok : gf_ok f = true.
Local Notation mul := (gf_mul f).
Local Notation inr := (inr f).

Lemma coef_inr p k : Forall inr p -> inr (coef p k).
Proof.
  intros Hp. unfold coef. destruct (Nat.lt_ge_cases k (length (rev p))) as [H|H].
  - rewrite Forall_forall in Hp. apply Hp. apply in_rev. apply nth_In. exact H.
  - rewrite nth_overflow by exact H. apply inr0. exact Hok.
Qed.

(* AddOrSubstract *)
Lemma coef_add p q k : pnormal p -> pnormal q ->
  coef (poly_add p q) k = Z.lxor (coef p k) (coef q k).
Proof.
  intros Hp Hq. unfold poly_add.
  destruct (poly_is_zero p) eqn:Zp.
  { rewrite (pnormal_zero f p Hp Zp). unfold coef at 2. destruct k as [|[|k]]; cbn; rewrite ?Z.lxor_0_l; reflexivity. }
  destruct (poly_is_zero q) eqn:Zq.
  { rewrite (pnormal_zero f q Hq Zq). unfold coef at 3. destruct k as [|[|k]]; cbn; rewrite ?Z.lxor_0_r; reflexivity. }
  assert (Hgen : forall small large, (length small <= length large)%nat ->
    coef (poly_norm (firstn (length large - length small) large ++
                     xor_lists small (skipn (length large - length small) large))) k
    = Z.lxor (coef small k) (coef large k)).
  { intros small large Hle. rewrite coef_norm.
    set (d := (length large - length small)%nat).
    assert (Hsk : length small = length (skipn d large)) by (rewrite skipn_length; lia).
    assert (Hlarge : coef large k = if (k <? length small)%nat then coef (skipn d large) k
                                    else coef (firstn d large) (k - length small)).
    { rewrite <- (firstn_skipn d large) at 1. rewrite coef_app, <- Hsk. reflexivity. }
    rewrite coef_app, (xor_lists_length f) by exact Hsk. rewrite Hlarge.
    destruct (k <? length small)%nat eqn:E.
    - apply coef_xor. exact Hsk.
    - apply Nat.ltb_ge in E. rewrite (coef_overflow small) by exact E. rewrite Z.lxor_0_l. reflexivity. }
  destruct (Nat.ltb (length q) (length p)) eqn:E.
  - apply Nat.ltb_lt in E. rewrite Hgen by lia. apply Z.lxor_comm.
  - apply Nat.ltb_ge in E. apply Hgen. exact E.
Qed.

(* MultByMonominal *)
Lemma coef_mul_mono g d s k : inr s ->
  coef (poly_mul_mono f g d s) k = if (k <? d)%nat then 0 else mul (coef g (k - d)) s.
Proof.
  intros Hs. unfold poly_mul_mono. destruct (s =? 0) eqn:E.
  - assert (s = 0) by lia. subst s. rewrite gf_mul_0_r.
    unfold coef. destruct (k <? d)%nat; destruct k as [|[|k]]; reflexivity.
  - rewrite coef_norm, coef_app, repeat_length.
    destruct (k <? d)%nat; [apply coef_zeros|].
    apply (coef_map_scale (fun c => mul c s)). reflexivity.
Qed.

(* NewMonominalPoly *)
Lemma coef_monomial d s k : coef (poly_monomial d s) k = if (k =? d)%nat then s else 0.
Proof.
  unfold poly_monomial. destruct (s =? 0) eqn:E.
  - assert (s = 0) by lia. subst. unfold coef. destruct (k =? d)%nat; destruct k as [|[|k]]; reflexivity.
  - rewrite coef_cons, repeat_length.
    destruct (Nat.ltb_spec k d) as [H|H].
    + rewrite coef_zeros. replace (k =? d)%nat with false; [reflexivity|]. symmetry. apply Nat.eqb_neq. lia.
    + reflexivity.
Qed.

(* ---------- xor-sums over 0..n ---------- *)
Fixpoint bigxor (n : nat) (t : nat -> Z) : Z :=
  match n with O => t O | S m => Z.lxor (bigxor m t) (t (S m)) end.

Lemma bigxor_ext n t1 t2 : (forall i, (i <= n)%nat -> t1 i = t2 i) -> bigxor n t1 = bigxor n t2.
Proof.
  induction n as [|n IH]; intros H; cbn; [apply H; lia|].
  rewrite IH by (intros; apply H; lia). rewrite H by lia. reflexivity.
Qed.

Lemma bigxor_xor n t1 t2 : bigxor n (fun i => Z.lxor (t1 i) (t2 i)) = Z.lxor (bigxor n t1) (bigxor n t2).
Proof.
  induction n as [|n IH]; cbn; [reflexivity|]. rewrite IH. apply lxor_swap.
Qed.

Lemma bigxor_zero n : bigxor n (fun _ => 0) = 0.
Proof. induction n as [|n IH]; cbn; [reflexivity|]. rewrite IH. reflexivity. Qed.

(* a sum with a single non-zero term *)
Lemma bigxor_single n m c : bigxor n (fun i => if (i =? m)%nat then c else 0) = if (m <=? n)%nat then c else 0.
Proof.
  induction n as [|n IH]; cbn [bigxor].
  - destruct m; reflexivity.
  - rewrite IH. destruct (Nat.eqb_spec (S n) m) as [<-|Hne].
    + replace (S n <=? n)%nat with false by (symmetry; apply Nat.leb_gt; lia).
      rewrite Nat.leb_refl. apply Z.lxor_0_l.
    + rewrite Z.lxor_0_r.
      destruct (Nat.leb_spec m n), (Nat.leb_spec m (S n)); try reflexivity; lia.
Qed.

(* coefficient k of the product: sum_{i<=k} a_i * b_(k-i) *)
Definition conv (a b : list Z) (k : nat) : Z := bigxor k (fun i => mul (coef a i) (coef b (k - i))).

Lemma conv_cons ac a' b k : inr ac -> Forall inr a' -> Forall inr b ->
  conv (ac :: a') b k =
  Z.lxor (if (length a' <=? k)%nat then mul ac (coef b (k - length a')) else 0) (conv a' b k).
Proof.
  intros Hac Ha Hb. unfold conv.
  rewrite <- (bigxor_single k (length a') (mul ac (coef b (k - length a')))).
  rewrite <- bigxor_xor. apply bigxor_ext. intros i Hi.
  rewrite coef_cons.
  destruct (Nat.ltb_spec i (length a')) as [H|H].
  - replace (i =? length a')%nat with false by (symmetry; apply Nat.eqb_neq; lia).
    rewrite Z.lxor_0_l. reflexivity.
  - rewrite (coef_overflow a') by exact H. rewrite gf_mul_0_l, Z.lxor_0_r.
    destruct (Nat.eqb_spec i (length a')) as [->|]; [reflexivity|]. reflexivity.
Qed.

(* the row update of Multiply *)
Lemma coef_mul_row ac b : forall acc, (length b <= length acc)%nat -> forall k,
  coef (poly_mul_row f ac b acc) k =
  Z.lxor (coef acc k)
         (if (length acc - length b <=? k)%nat && (k <? length acc)%nat
          then mul ac (coef b (k - (length acc - length b))) else 0)
  /\ length (poly_mul_row f ac b acc) = length acc.
Proof.
  induction b as [|bc b IH]; intros acc Hl k.
  - cbn [poly_mul_row length]. split; [|destruct acc; reflexivity].
    replace (poly_mul_row f ac [] acc) with acc by (destruct acc; reflexivity).
    rewrite Nat.sub_0_r.
    destruct (Nat.leb_spec (length acc) k); cbn [andb].
    + replace (k <? length acc)%nat with false by (symmetry; apply Nat.ltb_ge; lia). rewrite Z.lxor_0_r. reflexivity.
    + rewrite Z.lxor_0_r. reflexivity.
  - destruct acc as [|x acc]; [cbn in Hl; lia|]. cbn [poly_mul_row].
    destruct (IH acc ltac:(cbn in Hl; lia) k) as [IHc IHl].
    split; [|cbn [length]; rewrite IHl; reflexivity].
    rewrite (coef_cons (Z.lxor x (mul ac bc))), (coef_cons x acc), IHl.
    cbn [length]. replace (S (length acc) - S (length b))%nat with (length acc - length b)%nat by lia.
    destruct (Nat.ltb_spec k (length acc)) as [H|H].
    + rewrite IHc. replace (k <? S (length acc))%nat with true by (symmetry; apply Nat.ltb_lt; lia).
      replace (k <? length acc)%nat with true by (symmetry; apply Nat.ltb_lt; lia).
      destruct (length acc - length b <=? k)%nat eqn:E; cbn [andb]; [|reflexivity].
      f_equal. f_equal. rewrite (coef_cons bc b).
      apply Nat.leb_le in E.
      replace (k - (length acc - length b) <? length b)%nat with true by (symmetry; apply Nat.ltb_lt; cbn in Hl; lia).
      reflexivity.
    + destruct (Nat.eqb_spec k (length acc)) as [->|Hne].
      * replace (length acc - length b <=? length acc)%nat with true by (symmetry; apply Nat.leb_le; lia).
        replace (length acc <? S (length acc))%nat with true by (symmetry; apply Nat.ltb_lt; lia).
        cbn [andb]. f_equal. f_equal. rewrite (coef_cons bc b).
        replace (length acc - (length acc - length b))%nat with (length b) by (cbn in Hl; lia).
        rewrite Nat.ltb_irrefl, Nat.eqb_refl. reflexivity.
      * replace (k <? S (length acc))%nat with false by (symmetry; apply Nat.ltb_ge; lia).
        rewrite andb_false_r, Z.lxor_0_r. reflexivity.
Qed.

Lemma coef_mul_rows b : b <> [] -> Forall inr b -> forall a acc, Forall inr a -> a <> [] ->
  length acc = (length a + length b - 1)%nat -> forall k,
  coef (poly_mul_rows f a b acc) k = Z.lxor (coef acc k) (conv a b k)
  /\ length (poly_mul_rows f a b acc) = length acc.
Proof.
  intros Hbne Hb. induction a as [|ac a' IH]; intros acc Ha Hane Hl k; [congruence|].
  inversion Ha as [|? ? Hac Ha']; subst.
  assert (Hlb : (1 <= length b)%nat) by (destruct b; [congruence|cbn; lia]).
  cbn [poly_mul_rows].
  destruct (coef_mul_row ac b acc ltac:(cbn [length] in Hl; lia) k) as [_ Hrl].
  destruct (poly_mul_row f ac b acc) as [|x rest] eqn:Erow.
  { exfalso. cbn [length] in *. lia. }
  assert (Hrow : forall k, coef (x :: rest) k =
            Z.lxor (coef acc k) (if (length acc - length b <=? k)%nat && (k <? length acc)%nat
                                 then mul ac (coef b (k - (length acc - length b))) else 0)).
  { intros k0. rewrite <- Erow. apply coef_mul_row. cbn [length] in Hl. lia. }
  assert (Hm : (length acc - length b)%nat = length a') by (cbn [length] in Hl; lia).
  rewrite Hm in Hrow.
  rewrite conv_cons by assumption.
  destruct a' as [|a2 a''].
  - (* last row *)
    cbn [poly_mul_rows]. split; [|exact Hrl].
    rewrite Hrow. f_equal. cbn [length].
    assert (Hc0 : conv [] b k = 0).
    { unfold conv. rewrite <- (bigxor_zero k). apply bigxor_ext. intros i _. unfold coef at 1.
      destruct i; cbn; reflexivity. }
    rewrite Hc0, Z.lxor_0_r. cbn [Nat.leb]. rewrite Nat.sub_0_r.
    destruct (Nat.ltb_spec k (length acc)) as [H|H]; [reflexivity|].
    cbn [length] in Hl. rewrite coef_overflow by lia. rewrite gf_mul_0_r. reflexivity.
  - destruct (IH rest Ha' ltac:(discriminate) ltac:(cbn [length] in *; lia) k) as [IHc IHl].
    split; [|cbn [length] in *; rewrite IHl; lia].
    rewrite (coef_cons x), IHl.
    assert (Hrest : length rest = (length acc - 1)%nat) by (cbn [length] in Hrl; lia).
    assert (Hacc2 : (2 <= length acc)%nat) by (cbn [length] in Hl; lia).
    destruct (Nat.ltb_spec k (length rest)) as [H|H].
    + rewrite IHc.
      (* coef rest k = coef (x :: rest) k for k < length rest *)
      pose proof (Hrow k) as Hr. rewrite coef_cons in Hr.
      replace (k <? length rest)%nat with true in Hr by (symmetry; apply Nat.ltb_lt; exact H).
      rewrite Hr. replace (k <? length acc)%nat with true by (symmetry; apply Nat.ltb_lt; lia).
      rewrite andb_true_r. rewrite !Z.lxor_assoc. reflexivity.
    + destruct (Nat.eqb_spec k (length rest)) as [->|Hne].
      * (* the leading coefficient of this row: no contribution from the remaining rows *)
        pose proof (Hrow (length rest)) as Hr. rewrite coef_cons, Nat.ltb_irrefl, Nat.eqb_refl in Hr.
        rewrite Hr.
        replace (length rest <? length acc)%nat with true by (symmetry; apply Nat.ltb_lt; lia).
        rewrite andb_true_r.
        assert (Hc0 : conv (a2 :: a'') b (length rest) = 0).
        { unfold conv. rewrite <- (bigxor_zero (length rest)). apply bigxor_ext. intros i Hi.
          destruct (Nat.lt_ge_cases i (length (a2 :: a''))) as [Hi2|Hi2].
          - rewrite (coef_overflow b) by (cbn [length] in *; lia). apply gf_mul_0_r.
          - rewrite (coef_overflow (a2 :: a'')) by exact Hi2. reflexivity. }
        rewrite Hc0, Z.lxor_0_r. reflexivity.
      * (* beyond the product's length: everything is zero *)
        rewrite coef_overflow by lia.
        replace (length (a2 :: a'') <=? k)%nat with true by (symmetry; apply Nat.leb_le; cbn [length] in *; lia).
        rewrite (coef_overflow b) by (cbn [length] in *; lia). rewrite gf_mul_0_r, Z.lxor_0_l.
        unfold conv. rewrite <- (bigxor_zero k) at 1. apply bigxor_ext. intros i Hi.
        destruct (Nat.lt_ge_cases i (length (a2 :: a''))) as [Hi2|Hi2].
        -- rewrite (coef_overflow b) by (cbn [length] in *; lia). symmetry. apply gf_mul_0_r.
        -- rewrite (coef_overflow (a2 :: a'')) by exact Hi2. reflexivity.
Qed.

Lemma coef_poly_zero k : coef poly_zero k = 0.
Proof. unfold coef. destruct k as [|[|k]]; reflexivity. Qed.

Lemma conv_zero_l g k : conv poly_zero g k = 0.
Proof.
  unfold conv. rewrite <- (bigxor_zero k). apply bigxor_ext. intros i _.
  rewrite coef_poly_zero. reflexivity.
Qed.

Lemma conv_zero_r a k : conv a poly_zero k = 0.
Proof.
  unfold conv. rewrite <- (bigxor_zero k). apply bigxor_ext. intros i _.
  rewrite coef_poly_zero. apply gf_mul_0_r.
Qed.

(* Multiply *)
Lemma coef_mul a b k : pnormal a -> pnormal b -> Forall inr a -> Forall inr b ->
  coef (poly_mul f a b) k = conv a b k.
Proof.
  intros Ha Hb Har Hbr. unfold poly_mul.
  destruct (poly_is_zero a) eqn:Za.
  { rewrite (pnormal_zero f a Ha Za). cbn [orb]. rewrite coef_poly_zero. symmetry. apply conv_zero_l. }
  destruct (poly_is_zero b) eqn:Zb.
  { rewrite (pnormal_zero f b Hb Zb). cbn [orb]. rewrite coef_poly_zero. symmetry. apply conv_zero_r. }
  cbn [orb]. rewrite coef_norm.
  assert (a <> []) by (destruct a; [inversion Ha|congruence]).
  assert (b <> []) by (destruct b; [inversion Hb|congruence]).
  destruct (coef_mul_rows b ltac:(assumption) Hbr a (repeat 0 (length a + length b - 1)) Har ltac:(assumption)
              ltac:(apply repeat_length) k) as [Hc _].
  rewrite Hc, coef_zeros, Z.lxor_0_l. reflexivity.
Qed.

Lemma poly_mul_pnormal a b : a <> [] -> b <> [] -> pnormal (poly_mul f a b).
Proof.
  intros Ha Hb. unfold poly_mul. destruct (_ || _); [exact I|].
  apply (norm_pnormal f).
  destruct a as [|a0 a']; [congruence|]. destruct b as [|b0 b']; [congruence|].
  (* the row loop returns a non-empty list *)
  cbn [poly_mul_rows length]. replace (S (length a') + S (length b') - 1)%nat with (S (length a' + length b')) by lia.
  cbn [repeat poly_mul_row]. discriminate.
Qed.

(* conv is linear in its first argument w.r.t. AddOrSubstract, and a monomial picks one term *)
Lemma conv_add q m g k : pnormal q -> pnormal m -> Forall inr q -> Forall inr m -> Forall inr g ->
  conv (poly_add q m) g k = Z.lxor (conv q g k) (conv m g k).
Proof.
  intros Hq Hm Hqr Hmr Hgr. unfold conv. rewrite <- bigxor_xor. apply bigxor_ext. intros i _.
  rewrite coef_add by assumption.
  apply (gf_mul_distr_r f Hok); apply coef_inr; assumption.
Qed.

Lemma conv_monomial d s g k : inr s -> Forall inr g ->
  conv (poly_monomial d s) g k = if (d <=? k)%nat then mul s (coef g (k - d)) else 0.
Proof.
  intros Hs Hg. unfold conv. rewrite <- (bigxor_single k d (mul s (coef g (k - d)))).
  apply bigxor_ext. intros i _. rewrite coef_monomial.
  destruct (Nat.eqb_spec i d) as [->|]; [reflexivity|apply gf_mul_0_l].
Qed.

Lemma poly_add_pnormal p q : pnormal p -> pnormal q -> pnormal (poly_add p q).
Proof.
  intros Hp Hq. unfold poly_add.
  destruct (poly_is_zero p); [exact Hq|]. destruct (poly_is_zero q); [exact Hp|].
  assert (Hgen : forall small large, small <> [] -> (length small <= length large)%nat ->
            pnormal (poly_norm (firstn (length large - length small) large ++
                                xor_lists small (skipn (length large - length small) large)))).
  { intros small large Hne Hle. apply (norm_pnormal f). intros E. apply app_eq_nil in E. destruct E as [_ E].
    apply (f_equal (@length Z)) in E. rewrite (xor_lists_length f) in E by (rewrite skipn_length; lia).
    destruct small; [congruence|cbn in E; lia]. }
  assert (p <> []) by (destruct p; [inversion Hp|congruence]).
  assert (q <> []) by (destruct q; [inversion Hq|congruence]).
  destruct (Nat.ltb (length q) (length p)) eqn:E.
  - apply Nat.ltb_lt in E. apply Hgen; [assumption|lia].
  - apply Nat.ltb_ge in E. apply Hgen; assumption.
Qed.

(* ---------- the division invariant, coefficient-wise ---------- *)
Lemma div_loop_coef g : pnormal g -> Forall inr g -> poly_is_zero g = false ->
  forall fuel quot rem q r,
  pnormal quot -> Forall inr quot -> pnormal rem -> Forall inr rem ->
  poly_div_loop f fuel g (gf_inv f (poly_lead g)) quot rem = Ok (q, r) ->
  forall k, Z.lxor (conv q g k) (coef r k) = Z.lxor (conv quot g k) (coef rem k).
Proof.
  intros Hgn Hgr Hgz. induction fuel as [|fuel IH]; intros quot rem q r Hqn Hqr Hrn Hrr Hres k.
  - cbn [poly_div_loop] in Hres. destruct (_ && _); [discriminate|]. inversion Hres; subst. reflexivity.
  - cbn [poly_div_loop] in Hres.
    destruct (Nat.leb (length g) (length rem) && negb (poly_is_zero rem)) eqn:Econd.
    + apply andb_true_iff in Econd. destruct Econd as [El Ez].
      apply Nat.leb_le in El. apply negb_true_iff in Ez.
      destruct (div_step f Hok g rem Hgn Hgr Hgz Hrn Hrr Ez El) as (Hsc & _).
      set (dd := (length rem - length g)%nat) in *.
      set (scale := gf_mul f (poly_lead rem) (gf_inv f (poly_lead g))) in *.
      assert (Hgne : g <> []) by (destruct g; [inversion Hgn|congruence]).
      destruct (poly_mul_mono_spec f Hok 0 g dd scale (inr0 f Hok) Hsc Hgr Hgne) as (_ & Htn & Htr).
      destruct (poly_monomial_spec f Hok 0 dd scale (inr0 f Hok) Hsc) as (_ & Hmn & Hmr).
      destruct (poly_add_spec f Hok 0 rem _ (inr0 f Hok) Hrn Htn Hrr Htr) as (_ & Harn & Harr & _).
      destruct (poly_add_spec f Hok 0 quot _ (inr0 f Hok) Hqn Hmn Hqr Hmr) as (_ & Haqn & Haqr & _).
      rewrite (IH _ _ q r Haqn Haqr Harn Harr Hres k).
      rewrite conv_add by assumption. rewrite coef_add by assumption.
      rewrite conv_monomial, coef_mul_mono by assumption.
      replace (k <? dd)%nat with (negb (dd <=? k)%nat)
        by (destruct (Nat.leb_spec dd k), (Nat.ltb_spec k dd); try reflexivity; lia).
      destruct (dd <=? k)%nat; cbn [negb].
      * rewrite (gf_mul_comm f scale).
        set (X := gf_mul f (coef g (k - dd)) scale).
        rewrite !Z.lxor_assoc. f_equal.
        rewrite (Z.lxor_comm X), Z.lxor_assoc, Z.lxor_nilpotent, Z.lxor_0_r. reflexivity.
      * rewrite !Z.lxor_0_r. reflexivity.
    + inversion Hres; subst. reflexivity.
Qed.

(* dividend = quotient * divisor + remainder, as coefficient lists *)
Theorem poly_div_coef p g q r : pnormal p -> Forall inr p -> pnormal g -> Forall inr g ->
  poly_is_zero g = false -> poly_div f p g = Ok (q, r) ->
  poly_add (poly_mul f q g) r = p.
Proof.
  intros Hpn Hpr Hgn Hgr Hgz Hdiv.
  destruct (poly_div_eval f Hok p g Hpn Hpr Hgn Hgr Hgz) as (q' & r' & Hd' & Hqn & Hqr & Hrn & Hrr & _).
  rewrite Hdiv in Hd'. inversion Hd'; subst q' r'. clear Hd'.
  assert (Hgne : g <> []) by (destruct g; [inversion Hgn|congruence]).
  assert (Hqne : q <> []) by (destruct q; [inversion Hqn|congruence]).
  pose proof (poly_mul_pnormal q g Hqne Hgne) as Hmn.
  apply coef_canonical.
  - apply poly_add_pnormal; assumption.
  - exact Hpn.
  - intros k. rewrite coef_add by assumption. rewrite coef_mul by assumption.
    unfold poly_div in Hdiv. destruct g as [|g0 g'] eqn:Eg; [congruence|]. rewrite <- Eg in *.
    pose proof (div_loop_coef g Hgn Hgr Hgz _ poly_zero p q r I
                  ltac:(constructor; [apply inr0; exact Hok|constructor]) Hpn Hpr Hdiv k) as Hinv.
    rewrite Hinv.
    rewrite conv_zero_l, Z.lxor_0_l. reflexivity.
Qed.

End Coef.
