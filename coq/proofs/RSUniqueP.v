(* Uniqueness of the Reed-Solomon check symbols: a polynomial of degree < k with
   k distinct roots in a field is zero; hence the k check symbols that make
   data ++ check vanish at k distinct powers of alpha are unique. *)
From Coq Require Import FMapPositive.
From Verif Require Import Prelude GFM GFP PolyP RSP.

Local Ltac Zify.zify_post_hook ::= Z.div_mod_to_equations.
#[local] Arguments Z.mul : simpl never.
#[local] Arguments Z.add : simpl never.
#[local] Arguments Z.sub : simpl never.
#[local] Arguments Z.lxor : simpl never.
#[local] Arguments Z.of_nat : simpl never.
#[local] Arguments Z.to_nat : simpl never.

Section Unique.
Variable f : gfield.
Hypothesis Hok : gf_ok f = true.
Local Notation mul := (gf_mul f).
Local Notation inr := (inr f).
Local Notation evalacc := (evalacc f).

(* synthetic division by (x + y): the Horner accumulators at y, started from u *)
Fixpoint horner_q (y : Z) (p : list Z) (u : Z) : list Z :=
  match p with
  | [] => []
  | c :: t => let a := Z.lxor (mul u y) c in a :: horner_q y t a
  end.

Lemma horner_q_inr y p : inr y -> Forall inr p -> forall u, inr u -> Forall inr (horner_q y p u).
Proof.
  intros Hy Hp. induction Hp as [|c t Hc Ht IH]; intros u Hu; cbn; constructor.
  - apply inr_xor; [exact Hok|apply inr_mul; assumption|exact Hc].
  - apply IH. apply inr_xor; [exact Hok|apply inr_mul; assumption|exact Hc].
Qed.

Lemma horner_q_length y p u : length (horner_q y p u) = length p.
Proof. revert u. induction p as [|c t IH]; intros u; cbn; [reflexivity|]. rewrite IH. reflexivity. Qed.

(* the last accumulator is the value at y *)
Lemma horner_q_last' y p : forall u d, p <> [] -> last (horner_q y p u) d = evalacc y p u.
Proof.
  induction p as [|c t IH]; intros u d Hne; [congruence|].
  cbn [horner_q PolyP.evalacc fold_left]. fold (evalacc y t (step f y u c)).
  unfold step at 1. set (a := Z.lxor (mul u y) c).
  destruct t as [|c2 t2]; [reflexivity|].
  rewrite <- (IH a d) by discriminate. cbn [horner_q]. reflexivity.
Qed.

Lemma horner_q_last y p : forall u, last (horner_q y p u) u = evalacc y p u.
Proof.
  intros u. destruct p as [|c t]; [reflexivity|]. apply horner_q_last'. discriminate.
Qed.

Lemma last_cons_indep {A} (x : A) l d d' : last (x :: l) d = last (x :: l) d'.
Proof. revert x. induction l as [|z l IH]; intros x; [reflexivity|]. exact (IH z). Qed.

(* p(x) = (x + y) * q(x) + p(y), in accumulator form: u is the Horner accumulator
   at y, v the value of the quotient at x accumulated so far *)
Lemma horner_identity x y : inr x -> inr y -> forall p, Forall inr p -> forall u v, inr u -> inr v ->
  evalacc x p (Z.lxor (mul (Z.lxor x y) v) u)
  = Z.lxor (mul (Z.lxor x y) (evalacc x (removelast (u :: horner_q y p u)) v))
           (last (horner_q y p u) u).
Proof.
  intros Hx Hy. induction p as [|c t IH]; intros Hp u v Hu Hv.
  - cbn. reflexivity.
  - inversion Hp as [|? ? Hc Ht]; subst.
    assert (Hxy : inr (Z.lxor x y)) by (apply inr_xor; assumption).
    cbn [horner_q]. set (a := Z.lxor (mul u y) c).
    assert (Ha : inr a) by (apply inr_xor; [exact Hok|apply inr_mul; assumption|exact Hc]).
    cbn [PolyP.evalacc fold_left].
    fold (evalacc x t (step f x (Z.lxor (mul (Z.lxor x y) v) u) c)).
    (* the new accumulator at x:  ((x+y) v + u) x + c = (x+y)(v x + u) + a *)
    assert (Hstep : step f x (Z.lxor (mul (Z.lxor x y) v) u) c
                    = Z.lxor (mul (Z.lxor x y) (Z.lxor (mul v x) u)) a).
    { unfold step, a.
      rewrite (mul_distr_r f Hok x) by (try apply inr_mul; assumption).
      rewrite (mul_assoc f Hok (Z.lxor x y) v x) by assumption.
      rewrite (mul_distr_l f Hok (Z.lxor x y) (mul v x) u) by (try apply inr_mul; assumption).
      rewrite (mul_comm f (Z.lxor x y) u), (mul_distr_l f Hok u x y) by assumption.
      (* (A + u x) + c = (A + (u x + u y)) + (u y + c) *)
      set (A := mul (Z.lxor x y) (mul v x)). set (B := mul u x). set (D := mul u y).
      rewrite !Z.lxor_assoc. f_equal. f_equal.
      rewrite <- Z.lxor_assoc, Z.lxor_nilpotent, Z.lxor_0_l. reflexivity. }
    rewrite Hstep.
    rewrite (IH Ht a (Z.lxor (mul v x) u) Ha ltac:(apply inr_xor; [exact Hok|apply inr_mul; assumption|exact Hu])).
    (* removelast (u :: a :: rest) = u :: removelast (a :: rest) *)
    f_equal.
    destruct (horner_q y t a) as [|h l]; [reflexivity|].
    change (last (a :: h :: l) u) with (last (h :: l) u). apply last_cons_indep.
Qed.

Lemma lxor_eq_0 a b : Z.lxor a b = 0 -> a = b.
Proof. apply Z.lxor_eq. Qed.

(* all accumulators zero (started from 0) forces all coefficients to be zero *)
Lemma horner_zero y p : inr y -> forall u, u = 0 ->
  horner_q y p u = repeat 0 (length p) -> p = repeat 0 (length p).
Proof.
  intros Hy. induction p as [|c t IH]; intros u Hu H; [reflexivity|].
  subst u. cbn [horner_q length repeat] in *. rewrite gf_mul_0_l, Z.lxor_0_l in H.
  injection H as Hc Ht. subst c. f_equal. exact (IH 0 eq_refl Ht).
Qed.

(* a polynomial with as many distinct roots as coefficients is zero *)
Theorem roots_force_zero : forall p ys, Forall inr p -> Forall inr ys -> NoDup ys ->
  length ys = length p -> (forall y, In y ys -> evalacc y p 0 = 0) -> p = repeat 0 (length p).
Proof.
  intros p. remember (length p) as m eqn:Hm. revert p Hm.
  induction m as [|m IH]; intros p Hm ys Hp Hys Hnd Hlen Hroots.
  - destruct p; [reflexivity|discriminate].
  - destruct ys as [|y ys']; [discriminate|].
    inversion Hys as [|? ? Hy Hys']; subst. inversion Hnd as [|? ? Hnin Hnd']; subst.
    set (A := horner_q y p 0).
    assert (HAr : Forall inr A) by (apply horner_q_inr; [exact Hy|exact Hp|apply inr0; exact Hok]).
    assert (HAl : length A = S m) by (unfold A; rewrite horner_q_length; auto).
    assert (Hlast : last A 0 = 0).
    { unfold A. rewrite horner_q_last. apply Hroots. left. reflexivity. }
    set (Q := removelast A).
    assert (HQl : length Q = m).
    { unfold Q. destruct A as [|a0 A'] eqn:EA; [discriminate|].
      rewrite <- EA. assert (A <> []) by (rewrite EA; discriminate).
      pose proof (app_removelast_last 0 H) as Hs. apply (f_equal (@length Z)) in Hs.
      rewrite app_length in Hs. cbn [length] in Hs. rewrite EA in Hs at 1. cbn [length] in *. lia. }
    assert (HQr : Forall inr Q).
    { unfold Q. apply Forall_forall. intros z Hz. rewrite Forall_forall in HAr. apply HAr.
      destruct A as [|a0 A'] eqn:EA; [destruct Hz|].
      assert (Hne : a0 :: A' <> []) by discriminate.
      rewrite (app_removelast_last 0 Hne). apply in_or_app. left. exact Hz. }
    (* every other root is a root of the quotient *)
    assert (HQroots : forall y', In y' ys' -> evalacc y' Q 0 = 0).
    { intros y' Hin.
      assert (Hy' : inr y') by (rewrite Forall_forall in Hys'; auto).
      pose proof (horner_identity y' y Hy' Hy p Hp 0 0 (inr0 f Hok) (inr0 f Hok)) as Hid.
      rewrite gf_mul_0_r, Z.lxor_0_l in Hid. fold A in Hid.
      rewrite (Hroots y' (or_intror Hin)), Hlast, Z.lxor_0_r in Hid.
      (* removelast (0 :: A) evaluates like 0 :: Q *)
      assert (HA : A <> []) by (destruct A; [discriminate|discriminate]).
      change (0 :: A) with ([0] ++ A) in Hid. rewrite removelast_app in Hid by exact HA.
      cbn [app PolyP.evalacc fold_left] in Hid. rewrite step_0_l in Hid.
      fold (evalacc y' (removelast A) 0) in Hid. fold Q in Hid.
      symmetry in Hid. apply (gf_mul_eq_0 f Hok) in Hid.
      - destruct Hid as [Hid|Hid]; [|exact Hid].
        exfalso. apply lxor_eq_0 in Hid. subst y'. contradiction.
      - apply xor_closed; assumption.
      - apply evalacc_inr; try assumption. apply inr0; exact Hok. }
    specialize (IH Q (eq_sym HQl) ys' HQr Hys' Hnd' ltac:(cbn [length] in Hlen; lia) HQroots).
    (* all accumulators are zero *)
    assert (HA0 : A = repeat 0 (S m)).
    { assert (HA : A <> []) by (destruct A; discriminate).
      rewrite (app_removelast_last 0 HA). fold Q. rewrite IH, Hlast.
      clear. induction m; cbn; [reflexivity|]. f_equal. exact IHm. }
    rewrite Hm. apply (horner_zero y p Hy 0 eq_refl). rewrite <- Hm. exact HA0.
Qed.

(* distinct exponents below the order give distinct powers of alpha *)
Lemma alog_injective i j : 0 <= i < gord f -> 0 <= j < gord f -> alog f i = alog f j -> i = j.
Proof.
  intros Hi Hj H.
  destruct (ok_alog f Hok i Hi) as (_ & Li & _). destruct (ok_alog f Hok j Hj) as (_ & Lj & _).
  rewrite H in Li. congruence.
Qed.

Lemma NoDup_map_inj_in {A B} (g : A -> B) l :
  (forall a b, In a l -> In b l -> g a = g b -> a = b) -> NoDup l -> NoDup (map g l).
Proof.
  intros Hinj Hnd. induction Hnd as [|a l Hnin Hnd IH]; cbn; constructor.
  - intros Hin. apply in_map_iff in Hin. destruct Hin as (b & Hb & Hbl).
    assert (b = a) by (apply Hinj; [right; exact Hbl|left; reflexivity|exact Hb]). subst. contradiction.
  - apply IH. intros x y Hx Hy. apply Hinj; right; assumption.
Qed.

(* uniqueness of the check symbols *)
Theorem rs_check_symbols_unique data k ecc ecc' :
  1 <= k -> gf_base f + k <= gf_size f - 1 ->
  Forall inr data -> Forall inr ecc -> Forall inr ecc' ->
  zlength ecc = k -> zlength ecc' = k ->
  (forall i, 0 <= i < k -> poly_eval f (data ++ ecc) (tget (gf_alog f) (gf_base f + i)) = 0) ->
  (forall i, 0 <= i < k -> poly_eval f (data ++ ecc') (tget (gf_alog f) (gf_base f + i)) = 0) ->
  ecc = ecc'.
Proof.
  intros Hk Hb Hd He He' Hl Hl' Hr Hr'.
  destruct (ok_size f Hok) as (_ & _ & Hb0).
  set (e := xor_lists ecc ecc').
  assert (Hlen : length ecc = length ecc') by (unfold zlength in *; lia).
  assert (Hel : length e = length ecc) by (apply (xor_lists_length f); exact Hlen).
  assert (Her : Forall inr e) by (apply xor_lists_inr; assumption).
  set (ys := map (fun i => tget (gf_alog f) (gf_base f + Z.of_nat i)) (seq 0 (Z.to_nat k))).
  assert (Hys : Forall inr ys).
  { apply Forall_forall. intros y Hy. apply in_map_iff in Hy. destruct Hy as (i & <- & Hi).
    apply in_seq in Hi. apply (alog_inr f Hok). unfold gord. lia. }
  assert (Hnd : NoDup ys).
  { unfold ys. apply NoDup_map_inj_in; [|apply seq_NoDup].
    intros i j Hi Hj H. apply in_seq in Hi, Hj.
    apply alog_injective in H; unfold gord; try lia. }
  assert (Hroots : forall y, In y ys -> evalacc y e 0 = 0).
  { intros y Hy. apply in_map_iff in Hy. destruct Hy as (i & <- & Hi). apply in_seq in Hi.
    set (y := tget (gf_alog f) (gf_base f + Z.of_nat i)).
    assert (Hyr : inr y) by (apply (alog_inr f Hok); unfold gord; lia).
    pose proof (Hr (Z.of_nat i) ltac:(lia)) as H1. pose proof (Hr' (Z.of_nat i) ltac:(lia)) as H2.
    fold y in H1, H2. rewrite poly_eval_evalacc, evalacc_app in H1, H2.
    set (D := evalacc y data 0) in *.
    assert (HD : inr D) by (apply evalacc_inr; try assumption; apply inr0; exact Hok).
    unfold e. replace 0 with (Z.lxor D D) at 1 by apply Z.lxor_nilpotent.
    rewrite (evalacc_xor f Hok y Hyr ecc ecc' Hlen He He' D D HD HD), H1, H2. reflexivity. }
  assert (He0 : e = repeat 0 (length e)).
  { apply (roots_force_zero e ys Her Hys Hnd); [|exact Hroots].
    unfold ys. rewrite map_length, seq_length, Hel. unfold zlength in Hl. lia. }
  (* xor of the two lists is zero: they are equal *)
  assert (Hfin : forall a b : list Z, length a = length b ->
                 xor_lists a b = repeat 0 (length (xor_lists a b)) -> a = b).
  { induction a as [|a0 t IH]; intros [|b0 t'] Hl2 H; cbn in *; try lia; [reflexivity|].
    injection H as H0 Ht. f_equal; [apply lxor_eq_0; exact H0|]. apply IH; [lia|exact Ht]. }
  apply Hfin; [exact Hlen|exact He0].
Qed.

End Unique.
