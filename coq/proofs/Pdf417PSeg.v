(* PDF417 layer 2d: the segmentation functions of highlevel.go.  They convert
   byte slices to rune slices ([]rune(string(b))), at every position of the
   message, possibly in the middle of a multi-byte sequence.  Shown here: Go's
   UTF-8 decoding never changes their result (a byte >= 0x80 always yields a first
   rune >= 0x80, which is neither a digit nor a text character), so the functions
   are functions of the BYTES; and the soundness facts the encoder relies on:
   numeric segments contain only digits, text segments only text characters. *)
From Verif Require Import Prelude Barcode Utf8M TabPdf417 Pdf417M Pdf417Spec Pdf417PTab Pdf417PRow
  Pdf417PNum Pdf417PText.

(* ---------- Go's UTF-8 decoding, first rune ---------- *)
Lemma utf8_decode_ascii b rest : 0 <= b <= 127 -> utf8_decode (b :: rest) = b :: utf8_decode rest.
Proof.
  intros H. unfold utf8_decode. simpl length. cbn [utf8_decode_fuel]. unfold utf8_decode1.
  replace (utf8_in 0 127 b) with true by (unfold utf8_in; lia). reflexivity.
Qed.

Lemma utf8_decode_high b rest : ~ (0 <= b <= 127) ->
  exists r tl, utf8_decode (b :: rest) = r :: tl /\ 128 <= r.
Proof.
  intros H. unfold utf8_decode. simpl length. cbn [utf8_decode_fuel].
  destruct (utf8_decode1 b rest) as [r rest'] eqn:E. exists r, (utf8_decode_fuel (length rest) rest').
  split; [reflexivity|].
  unfold utf8_decode1, utf8_in, utf8_is_cont, utf8_rune_error in E.
  repeat match type of E with
         | context [if ?c then _ else _] => destruct c eqn:?
         | context [match ?l with [] => _ | _ :: _ => _ end] => destruct l
         end; inversion E; subst; unfold utf8_in in *; lia.
Qed.

Lemma utf8_decode_all_ascii l : Forall (fun c => 0 <= c <= 127) l -> utf8_decode l = l.
Proof.
  induction 1 as [|c l Hc Hl IH]; [reflexivity|].
  rewrite utf8_decode_ascii by exact Hc. rewrite IH. reflexivity.
Qed.

Lemma pdf_not_digit_high r : ~ (0 <= r <= 127) -> (rune_to_int r =? -1) = true.
Proof. intros H. unfold rune_to_int, is_digit. destruct ((48 <=? r) && (r <=? 57)) eqn:E; lia. Qed.

Lemma pdf_not_text_high r : ~ (0 <= r <= 127) -> pdf_is_text r = false.
Proof. intros H. unfold pdf_is_text. lia. Qed.

(* determineConsecutiveDigitCount([]rune(string(bytes))) depends on the bytes only *)
Lemma pdf_digit_count_utf8 data : pdf_digit_count (utf8_decode data) = pdf_digit_count data.
Proof.
  induction data as [|b rest IH]; [reflexivity|].
  destruct (Z_le_dec 0 b) as [H0|H0]; [destruct (Z_le_dec b 127) as [H1|H1]|].
  - rewrite utf8_decode_ascii by lia. cbn [pdf_digit_count]. rewrite IH. reflexivity.
  - destruct (utf8_decode_high b rest ltac:(lia)) as (r & tl & E & Hr). rewrite E.
    cbn [pdf_digit_count]. rewrite !pdf_not_digit_high by lia. reflexivity.
  - destruct (utf8_decode_high b rest ltac:(lia)) as (r & tl & E & Hr). rewrite E.
    cbn [pdf_digit_count]. rewrite !pdf_not_digit_high by lia. reflexivity.
Qed.

Lemma pdf_text_count_cons ch t :
  pdf_text_count (ch :: t) =
  (if (pdf_digit_count (ch :: t) >=? pdf_min_numeric_count) ||
      ((pdf_digit_count (ch :: t) =? 0) && negb (pdf_is_text ch)) then 0
   else 1 + pdf_text_count t).
Proof. reflexivity. Qed.

(* determineConsecutiveTextCount([]rune(string(bytes))) depends on the bytes only *)
Lemma pdf_text_count_utf8 data : pdf_text_count (utf8_decode data) = pdf_text_count data.
Proof.
  induction data as [|b rest IH]; [reflexivity|].
  assert (forall (Hh : ~ (0 <= b <= 127)), pdf_text_count (utf8_decode (b :: rest)) = pdf_text_count (b :: rest)) as Hhigh.
  { intros Hh. destruct (utf8_decode_high b rest Hh) as (r & tl & E & Hr).
    pose proof (pdf_digit_count_utf8 (b :: rest)) as Ed. rewrite E in *.
    rewrite !pdf_text_count_cons. rewrite Ed.
    assert (pdf_digit_count (b :: rest) = 0) as Ez
      by (cbn [pdf_digit_count]; rewrite pdf_not_digit_high by exact Hh; reflexivity).
    rewrite Ez. rewrite (pdf_not_text_high r) by lia. rewrite (pdf_not_text_high b) by exact Hh.
    change (0 =? 0) with true. cbn [andb negb]. rewrite !orb_true_r. reflexivity. }
  destruct (Z_le_dec 0 b) as [H0|H0]; [destruct (Z_le_dec b 127) as [H1|H1]|]; try (apply Hhigh; lia).
  pose proof (pdf_digit_count_utf8 (b :: rest)) as Ed.
  rewrite utf8_decode_ascii in * by lia.
  rewrite !pdf_text_count_cons. rewrite Ed, IH. reflexivity.
Qed.

(* hence determineConsecutiveBinaryCount is the byte-level function *)
Fixpoint pdf_binary_count_b (msg : list Z) : Z :=
  match msg with
  | [] => 0
  | _ :: t =>
    if pdf_digit_count msg >=? pdf_min_numeric_count then 0
    else if pdf_text_count msg >? 5 then 0
    else 1 + pdf_binary_count_b t
  end.

Lemma pdf_binary_count_utf8 msg : pdf_binary_count msg = pdf_binary_count_b msg.
Proof.
  induction msg as [|b t IH]; [reflexivity|].
  cbn [pdf_binary_count pdf_binary_count_b].
  rewrite pdf_digit_count_utf8, pdf_text_count_utf8, IH. reflexivity.
Qed.

(* ---------- ranges ---------- *)
Lemma zlength_cons {A} (x : A) l : zlength (x :: l) = zlength l + 1.
Proof. unfold zlength. simpl length. lia. Qed.

Lemma zlength_nonneg {A} (l : list A) : 0 <= zlength l.
Proof. unfold zlength. lia. Qed.

Lemma pdf_digit_count_range l : 0 <= pdf_digit_count l <= zlength l.
Proof.
  induction l as [|c l IH]; [unfold zlength; simpl; lia|].
  cbn [pdf_digit_count]. rewrite zlength_cons. destruct (rune_to_int c =? -1); lia.
Qed.

Lemma pdf_text_count_range l : 0 <= pdf_text_count l <= zlength l.
Proof.
  induction l as [|c l IH]; [unfold zlength; simpl; lia|].
  rewrite pdf_text_count_cons, zlength_cons.
  destruct ((pdf_digit_count (c :: l) >=? pdf_min_numeric_count) ||
            ((pdf_digit_count (c :: l) =? 0) && negb (pdf_is_text c))); lia.
Qed.

Lemma pdf_binary_count_b_range l : 0 <= pdf_binary_count_b l <= zlength l.
Proof.
  induction l as [|c l IH]; [unfold zlength; simpl; lia|].
  cbn [pdf_binary_count_b]. rewrite zlength_cons.
  destruct (pdf_digit_count (c :: l) >=? pdf_min_numeric_count); [lia|].
  destruct (pdf_text_count (c :: l) >? 5); lia.
Qed.

(* ---------- segmentation soundness ---------- *)
Lemma to_nat_succ x : 0 <= x -> Z.to_nat (1 + x) = S (Z.to_nat x).
Proof. intros. lia. Qed.

Lemma rune_to_int_digit c : (rune_to_int c =? -1) = false -> is_digit c = true.
Proof. unfold rune_to_int. destruct (is_digit c); [reflexivity | intros H; discriminate H]. Qed.

(* a numeric segment contains only digits *)
Lemma pdf_digit_count_digits l :
  Forall (fun d => is_digit d = true) (firstn (Z.to_nat (pdf_digit_count l)) l).
Proof.
  induction l as [|c l IH]; [constructor|].
  cbn [pdf_digit_count]. destruct (rune_to_int c =? -1) eqn:E; [constructor|].
  rewrite to_nat_succ by apply pdf_digit_count_range. cbn [firstn].
  constructor; [apply rune_to_int_digit; exact E | exact IH].
Qed.

Lemma is_digit_text c : is_digit c = true -> pdf_is_text c = true.
Proof. unfold is_digit, pdf_is_text. lia. Qed.

(* a text segment contains only text characters *)
Lemma pdf_text_count_text l : Forall is_textc (firstn (Z.to_nat (pdf_text_count l)) l).
Proof.
  induction l as [|c l IH]; [constructor|].
  rewrite pdf_text_count_cons.
  destruct ((pdf_digit_count (c :: l) >=? pdf_min_numeric_count) ||
            ((pdf_digit_count (c :: l) =? 0) && negb (pdf_is_text c))) eqn:E; [constructor|].
  rewrite to_nat_succ by apply pdf_text_count_range. cbn [firstn].
  constructor; [|exact IH].
  unfold is_textc. apply orb_false_elim in E as [_ E].
  destruct (pdf_is_text c) eqn:Et; [reflexivity|].
  cbn [negb] in E. rewrite andb_true_r in E.
  (* the digit count is not 0: c is a digit *)
  cbn [pdf_digit_count] in E. destruct (rune_to_int c =? -1) eqn:Ed; [discriminate|].
  apply rune_to_int_digit, is_digit_text in Ed. congruence.
Qed.

(* right after a text segment the text count is 0: two text segments are never adjacent *)
Lemma pdf_text_count_skip l : pdf_text_count (skipn (Z.to_nat (pdf_text_count l)) l) = 0.
Proof.
  induction l as [|c l IH]; [reflexivity|].
  pose proof (pdf_text_count_cons c l) as E.
  destruct ((pdf_digit_count (c :: l) >=? pdf_min_numeric_count) ||
            ((pdf_digit_count (c :: l) =? 0) && negb (pdf_is_text c))) eqn:Ec.
  - rewrite E. cbn [Z.to_nat skipn]. rewrite pdf_text_count_cons, Ec. reflexivity.
  - rewrite E. rewrite to_nat_succ by apply pdf_text_count_range. cbn [skipn]. exact IH.
Qed.

Lemma is_digit_ascii c : is_digit c = true -> 0 <= c <= 127.
Proof. unfold is_digit. lia. Qed.

Lemma is_text_ascii c : is_textc c -> 0 <= c <= 127.
Proof. unfold is_textc, pdf_is_text. lia. Qed.

Lemma is_text_byte c : is_textc c -> is_byte c.
Proof. unfold is_textc, pdf_is_text, is_byte. lia. Qed.

Lemma pdf_split_at_ok {A} n (l : list A) : 0 <= n <= zlength l ->
  pdf_split_at n l = Ok (firstn (Z.to_nat n) l, skipn (Z.to_nat n) l).
Proof.
  intros H. unfold pdf_split_at. replace ((n <? 0) || (n >? zlength l)) with false by lia. reflexivity.
Qed.
