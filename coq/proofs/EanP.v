(* Proofs for C06: the EAN-8/EAN-13 encoder model (EanM) against the GS1
   specification (EanSpec). *)
From Verif Require Import Prelude Barcode Utf8M Utf8RangeM Utf8RangeP TabEan EanM EanSpec.

Local Ltac Zify.zify_post_hook ::= Z.to_euclidean_division_equations.

(* ---------- tables ---------- *)
Lemma ean_table_matches_standard : ean_encoder_table = ean_standard_table.
Proof. vm_compute. reflexivity. Qed.

Definition digit_range (d : Z) : Prop := 0 <= d <= 9.

Lemma digit_cases d : digit_range d ->
  d = 0 \/ d = 1 \/ d = 2 \/ d = 3 \/ d = 4 \/ d = 5 \/ d = 6 \/ d = 7 \/ d = 8 \/ d = 9.
Proof. unfold digit_range. lia. Qed.

Ltac digit_split H :=
  apply digit_cases in H;
  destruct H as [H|[H|[H|[H|[H|[H|[H|[H|[H|H]]]]]]]]]; subst.

(* the 30-case lemma: every code word of every number set is read back as
   exactly (set, digit) *)
Lemma decode_digit_code s d : digit_range d -> decode_digit (ean_code s d) = Some (s, d).
Proof. intros H. digit_split H; destruct s; vm_compute; reflexivity. Qed.

Lemma ean_code_length s d : digit_range d -> length (ean_code s d) = 7%nat.
Proof. intros H. digit_split H; destruct s; reflexivity. Qed.

Lemma ean_parity_row_length d : digit_range d -> length (ean_parity_row d) = 6%nat.
Proof. intros H. digit_split H; reflexivity. Qed.

(* the first digit is recovered from the pattern of number sets *)
Lemma find_parity d : digit_range d -> find_code ean_parity (ean_parity_row d) 0 = Some d.
Proof. intros H. digit_split H; vm_compute; reflexivity. Qed.

Lemma ean_lookup_digit d : digit_range d ->
  ean_lookup (d + 48) =
  Some (ean_code SetL d, ean_code SetG d, ean_code SetR d, ean_parity_row d).
Proof. intros H. digit_split H; vm_compute; reflexivity. Qed.

Lemma ean_assoc_none {A} (t : list (Z * A)) r :
  Forall (fun kv => fst kv <> r) t -> ean_assoc t r = None.
Proof.
  induction 1 as [|[k v] t Hk _ IH]; [reflexivity|]. cbn [ean_assoc]. cbn [fst] in Hk.
  destruct (k =? r) eqn:E; [lia | exact IH].
Qed.

Lemma ean_lookup_some r x : ean_lookup r = Some x -> is_digit r = true.
Proof.
  intros H. destruct (is_digit r) eqn:E; [reflexivity|]. exfalso.
  unfold ean_lookup in H. rewrite ean_assoc_none in H; [discriminate|].
  unfold is_digit in E. unfold ean_encoder_table.
  repeat constructor; cbn [fst]; lia.
Qed.

(* ---------- digit strings ---------- *)
Lemma is_digit_range c : is_digit c = true <-> 48 <= c <= 57.
Proof. unfold is_digit. lia. Qed.

Lemma is_digit_ascii c : is_digit c = true -> ascii_byte c.
Proof. unfold is_digit, ascii_byte, utf8_in. lia. Qed.

Lemma all_digits_Forall s : all_digits s = true <-> Forall (fun c => is_digit c = true) s.
Proof. unfold all_digits. rewrite forallb_forall, Forall_forall. reflexivity. Qed.

Lemma all_digits_ascii s : all_digits s = true -> Forall ascii_byte s.
Proof.
  rewrite all_digits_Forall. intros H. eapply Forall_impl; [|exact H].
  intros c. apply is_digit_ascii.
Qed.

Lemma chars_digits s : all_digits s = true -> chars_of (digits_of s) = s.
Proof.
  rewrite all_digits_Forall. induction 1 as [|c s Hc _ IH]; [reflexivity|].
  unfold chars_of, digits_of in *. cbn [map]. rewrite IH. f_equal.
  apply is_digit_range in Hc. unfold digit_val. lia.
Qed.

Lemma digits_range s : all_digits s = true -> Forall digit_range (digits_of s).
Proof.
  rewrite all_digits_Forall. induction 1 as [|c s Hc _ IH]; [constructor|].
  cbn [digits_of map]. constructor; [|exact IH].
  apply is_digit_range in Hc. unfold digit_range, digit_val. lia.
Qed.

Lemma digits_chars ds : digits_of (chars_of ds) = ds.
Proof.
  induction ds as [|d ds IH]; [reflexivity|]. unfold chars_of, digits_of in *. cbn [map].
  rewrite IH. f_equal. unfold digit_val. lia.
Qed.

Lemma chars_all_digits ds : Forall digit_range ds -> all_digits (chars_of ds) = true.
Proof.
  intros H. apply all_digits_Forall. induction H as [|d ds Hd _ IH]; [constructor|].
  cbn [chars_of map]. constructor; [|exact IH]. apply is_digit_range. unfold digit_range in Hd. lia.
Qed.

Lemma chars_of_length ds : length (chars_of ds) = length ds.
Proof. apply map_length. Qed.

Lemma digits_of_length s : length (digits_of s) = length s.
Proof. apply map_length. Qed.

Lemma chars_of_app a b : chars_of (a ++ b) = chars_of a ++ chars_of b.
Proof. apply map_app. Qed.

Lemma all_digits_app a b : all_digits (a ++ b) = all_digits a && all_digits b.
Proof. apply forallb_app. Qed.

(* ---------- check digit ---------- *)
Lemma calc_check_loop_digits ds : Forall digit_range ds -> forall sum, 0 <= sum ->
  calc_check_loop (chars_of ds) (Nat.odd (length ds)) sum
  = 48 + (10 - (sum + gs1_sum ds) mod 10) mod 10.
Proof.
  induction 1 as [|d ds Hd _ IH]; intros sum Hs.
  - cbn [chars_of map calc_check_loop length Nat.odd Nat.even negb gs1_sum].
    unfold int_to_rune, go_mod. rewrite Z.add_0_r.
    rewrite (Z.rem_mod_nonneg sum 10) by lia.
    rewrite Z.rem_mod_nonneg by lia.
    assert (0 <= (10 - sum mod 10) mod 10 <= 9) as Hr by lia.
    destruct ((0 <=? (10 - sum mod 10) mod 10) && ((10 - sum mod 10) mod 10 <=? 9)) eqn:E; lia.
  - cbn [chars_of map calc_check_loop]. fold (chars_of ds).
    unfold digit_range in Hd.
    replace (rune_to_int (d + 48)) with d by (unfold rune_to_int, is_digit; destruct ((48 <=? d + 48) && (d + 48 <=? 57)) eqn:E; lia).
    replace ((d <? 0) || (d >? 9)) with false by lia.
    cbn [length]. rewrite Nat.odd_succ.
    replace (negb (Nat.even (length ds))) with (Nat.odd (length ds)) by (symmetry; apply Nat.negb_even).
    rewrite IH by (destruct (Nat.even (length ds)); lia).
    cbn [gs1_sum]. destruct (Nat.even (length ds)); do 3 f_equal; lia.
Qed.

Lemma calc_check_num_digits ds :
  Forall digit_range ds -> (length ds = 7 \/ length ds = 12)%nat ->
  calc_check_num (chars_of ds) = 48 + gs1_check ds.
Proof.
  intros Hd Hl. unfold calc_check_num.
  rewrite utf8_range_ascii by (apply all_digits_ascii, chars_all_digits; exact Hd).
  rewrite enum_from_snd.
  replace (zlength (chars_of ds) =? 7) with (Nat.odd (length ds)).
  - rewrite calc_check_loop_digits by (assumption || lia). unfold gs1_check. reflexivity.
  - unfold zlength. rewrite chars_of_length. destruct Hl as [-> | ->]; reflexivity.
Qed.

Lemma gs1_check_range ds : digit_range (gs1_check ds).
Proof. unfold digit_range, gs1_check. lia. Qed.

(* ---------- reading groups back ---------- *)
Definition ean_codes (sds : list (eset * Z)) : list bool :=
  flat_map (fun sd => ean_code (fst sd) (snd sd)) sds.

Lemma firstn_app_exact {A} (a b : list A) n : length a = n -> firstn n (a ++ b) = a.
Proof. intros <-. rewrite firstn_app, Nat.sub_diag, firstn_all, firstn_O, app_nil_r. reflexivity. Qed.

Lemma skipn_app_exact {A} (a b : list A) n : length a = n -> skipn n (a ++ b) = b.
Proof. intros <-. rewrite skipn_app, Nat.sub_diag, skipn_all. reflexivity. Qed.

Lemma decode_groups_codes sds : Forall (fun sd => digit_range (snd sd)) sds -> forall rest,
  decode_groups (length sds) (ean_codes sds ++ rest) = Some (sds, rest).
Proof.
  induction 1 as [|[s d] sds Hd _ IH]; intros rest; [reflexivity|].
  cbn [snd] in Hd. cbn [length decode_groups ean_codes flat_map fst snd].
  fold (ean_codes sds). rewrite <- app_assoc.
  rewrite firstn_app_exact by (apply ean_code_length; exact Hd).
  rewrite skipn_app_exact by (apply ean_code_length; exact Hd).
  rewrite decode_digit_code by exact Hd. rewrite IH. reflexivity.
Qed.

Lemma ean_codes_length sds : Forall (fun sd => digit_range (snd sd)) sds ->
  length (ean_codes sds) = (7 * length sds)%nat.
Proof.
  induction 1 as [|[s d] sds Hd _ IH]; [reflexivity|].
  cbn [ean_codes flat_map fst snd length]. fold (ean_codes sds).
  rewrite app_length, IH, ean_code_length by exact Hd. lia.
Qed.

Lemma strip_prefix_app p m : strip_prefix p (p ++ m) = Some m.
Proof.
  induction p as [|x p IH]; [destruct m; reflexivity|].
  cbn [app strip_prefix]. rewrite Bool.eqb_reflx. exact IH.
Qed.

Lemma bits_eqb_refl a : bits_eqb a a = true.
Proof. induction a as [|x a IH]; [reflexivity|]. cbn [bits_eqb]. rewrite Bool.eqb_reflx. exact IH. Qed.

(* the general shape of a symbol and what the reference decoder makes of it *)
Definition ean_symbol (lft rgt : list (eset * Z)) : list bool :=
  ean_normal_guard ++ ean_codes lft ++ ean_centre_guard ++ ean_codes rgt ++ ean_normal_guard.

Lemma ean_split_symbol lft rgt :
  Forall (fun sd => digit_range (snd sd)) lft -> Forall (fun sd => digit_range (snd sd)) rgt ->
  length rgt = length lft ->
  ean_split (length lft) (ean_symbol lft rgt) = Some (lft, rgt).
Proof.
  intros Hl Hr Hn. unfold ean_split, ean_symbol.
  rewrite strip_prefix_app. rewrite decode_groups_codes by exact Hl.
  rewrite strip_prefix_app. rewrite <- Hn. rewrite decode_groups_codes by exact Hr.
  rewrite bits_eqb_refl. reflexivity.
Qed.

Lemma ean_symbol_length lft rgt :
  Forall (fun sd => digit_range (snd sd)) lft -> Forall (fun sd => digit_range (snd sd)) rgt ->
  length (ean_symbol lft rgt) = (11 + 7 * length lft + 7 * length rgt)%nat.
Proof.
  intros Hl Hr. unfold ean_symbol.
  rewrite !app_length, !ean_codes_length by assumption. cbn [length ean_normal_guard ean_centre_guard]. lia.
Qed.

Lemma frame_generic (A L C R G : list bool) h :
  length A = 3%nat -> length L = h -> length C = 5%nat -> length R = h ->
  firstn 3 (A ++ L ++ C ++ R ++ G) = A
  /\ firstn 5 (skipn (3 + h) (A ++ L ++ C ++ R ++ G)) = C
  /\ skipn (3 + h + 5 + h) (A ++ L ++ C ++ R ++ G) = G.
Proof.
  intros HA HL HC HR. split; [apply firstn_app_exact; exact HA|]. split.
  - replace (A ++ L ++ C ++ R ++ G) with ((A ++ L) ++ C ++ (R ++ G)) by (rewrite <- !app_assoc; reflexivity).
    rewrite skipn_app_exact by (rewrite app_length; lia).
    apply firstn_app_exact; exact HC.
  - replace (A ++ L ++ C ++ R ++ G) with ((A ++ L ++ C ++ R) ++ G) by (rewrite <- !app_assoc; reflexivity).
    apply skipn_app_exact. rewrite !app_length. lia.
Qed.

Lemma ean_symbol_frame lft rgt :
  Forall (fun sd => digit_range (snd sd)) lft -> Forall (fun sd => digit_range (snd sd)) rgt ->
  (length lft = 4 /\ length rgt = 4)%nat \/ (length lft = 6 /\ length rgt = 6)%nat ->
  ean_frame_ok (ean_symbol lft rgt) = true.
Proof.
  intros Hl Hr Hn. unfold ean_frame_ok.
  rewrite ean_symbol_length by assumption.
  pose proof (ean_codes_length lft Hl) as L1. pose proof (ean_codes_length rgt Hr) as L2.
  unfold ean_symbol.
  destruct Hn as [[H1 H2]|[H1 H2]]; rewrite H1, H2 in *.
  - change (11 + 7 * 4 + 7 * 4)%nat with 67%nat. cbn [Nat.eqb orb].
    destruct (frame_generic ean_normal_guard (ean_codes lft) ean_centre_guard (ean_codes rgt)
                ean_normal_guard 28 eq_refl L1 eq_refl L2) as (E1 & E2 & E3).
    rewrite E1, E2. change (3 + 28 + 5 + 28)%nat with (3 + 28 + 5 + 28)%nat in E3. rewrite E3.
    rewrite !bits_eqb_refl. reflexivity.
  - change (11 + 7 * 6 + 7 * 6)%nat with 95%nat. cbn [Nat.eqb orb].
    destruct (frame_generic ean_normal_guard (ean_codes lft) ean_centre_guard (ean_codes rgt)
                ean_normal_guard 42 eq_refl L1 eq_refl L2) as (E1 & E2 & E3).
    rewrite E1, E2, E3. rewrite !bits_eqb_refl. reflexivity.
Qed.

(* ---------- the encoder loops on digit strings ---------- *)
Lemma zget_nth {A} (l : list A) i d : 0 <= i < zlength l -> zget l i = Some (nth (Z.to_nat i) l d).
Proof.
  unfold zget, zlength. intros H. destruct (i <? 0) eqn:E; [lia|].
  apply nth_error_nth'. lia.
Qed.

Definition piece8 (p : Z * Z) : list bool :=
  (if fst p =? 4 then ean_centre else [])
  ++ ean_code (if fst p <? 4 then SetL else SetR) (snd p).

Lemma ean8_loop_digits ds : Forall digit_range ds -> forall off,
  ean8_loop (enum_from off (chars_of ds)) = Some (flat_map piece8 (enum_from off ds)).
Proof.
  induction 1 as [|d ds Hd _ IH]; intros off; [reflexivity|].
  unfold chars_of. cbn [map enum_from ean8_loop flat_map]. fold (chars_of ds).
  rewrite ean_lookup_digit by exact Hd. rewrite IH.
  change (piece8 (off, d)) with
    ((if off =? 4 then ean_centre else []) ++ ean_code (if off <? 4 then SetL else SetR) d).
  rewrite <- app_assoc. destruct (off <? 4); reflexivity.
Qed.

Definition piece13 (fnum : list bool) (p : Z * Z) : list bool :=
  (if fst p =? 7 then ean_centre else [])
  ++ ean_code (if fst p <? 7
               then (if nth (Z.to_nat (fst p - 1)) fnum false then SetG else SetL)
               else SetR) (snd p).

Lemma ean13_loop_digits ds : Forall digit_range ds -> forall off fnum,
  1 <= off -> length fnum = 6%nat ->
  ean13_loop (enum_from off (chars_of ds)) (Some fnum)
  = Ok (Some (flat_map (piece13 fnum) (enum_from off ds))).
Proof.
  induction 1 as [|d ds Hd _ IH]; intros off fnum Ho Hf; [reflexivity|].
  unfold chars_of. cbn [map enum_from ean13_loop flat_map]. fold (chars_of ds).
  rewrite ean_lookup_digit by exact Hd.
  replace (off =? 0) with false by lia.
  change (piece13 fnum (off, d)) with
    ((if off =? 7 then ean_centre else [])
     ++ ean_code (if off <? 7
                  then (if nth (Z.to_nat (off - 1)) fnum false then SetG else SetL)
                  else SetR) d).
  destruct (off <? 7) eqn:E7.
  - rewrite (zget_nth fnum (off - 1) false) by (unfold zlength; lia).
    cbn [obind]. rewrite IH by (assumption || lia). cbn [obind].
    rewrite <- app_assoc. destruct (nth (Z.to_nat (off - 1)) fnum false); reflexivity.
  - cbn [obind]. rewrite IH by (assumption || lia). cbn [obind].
    rewrite <- app_assoc. reflexivity.
Qed.

(* evaluate comparisons between closed integer expressions *)
Ltac zcompute :=
  repeat match goal with
  | |- context [?a =? ?b] =>
    let v := eval vm_compute in (a =? b) in
    match v with true => idtac | false => idtac end; change (a =? b) with v
  | |- context [?a <? ?b] =>
    let v := eval vm_compute in (a <? b) in
    match v with true => idtac | false => idtac end; change (a <? b) with v
  end.

Ltac explode_list ds :=
  repeat (let d := fresh "d" in destruct ds as [|d ds]; [discriminate|]);
  try (destruct ds; [|discriminate]).

Ltac invert_Forall :=
  repeat match goal with
  | H : Forall _ (_ :: _) |- _ => inversion H; clear H; subst
  | H : Forall _ [] |- _ => clear H
  end.

Lemma encode_ean8_digits ds : Forall digit_range ds -> length ds = 8%nat ->
  encode_ean8 (chars_of ds)
  = Some (ean_symbol (map (pair SetL) (firstn 4 ds)) (map (pair SetR) (skipn 4 ds))).
Proof.
  intros Hd Hl. unfold encode_ean8.
  rewrite utf8_range_ascii by (apply all_digits_ascii, chars_all_digits; exact Hd).
  rewrite ean8_loop_digits by exact Hd.
  do 8 (destruct ds as [|? ds]; [discriminate|]). destruct ds; [|discriminate].
  unfold ean_symbol, ean_codes, piece8.
  cbn [enum_from flat_map firstn skipn map fst snd].
  zcompute. cbn iota. unfold ean_guard, ean_normal_guard, ean_centre, ean_centre_guard.
  repeat progress (cbn [app]; rewrite <- ?app_assoc, ?app_nil_r). reflexivity.
Qed.

(* number sets of the left half of an EAN-13 symbol with first digit d0 *)
Definition ean13_sets (d0 : Z) : list eset :=
  map (fun b : bool => if b then SetG else SetL) (ean_parity_row d0).

Lemma encode_ean13_digits d0 rest : Forall digit_range (d0 :: rest) -> length rest = 12%nat ->
  encode_ean13 (chars_of (d0 :: rest))
  = Ok (Some (ean_symbol (combine (ean13_sets d0) (firstn 6 rest))
                         (map (pair SetR) (skipn 6 rest)))).
Proof.
  intros Hd Hl. unfold encode_ean13.
  rewrite utf8_range_ascii by (apply all_digits_ascii, chars_all_digits; exact Hd).
  inversion Hd as [|? ? Hd0 Hr]; subst.
  unfold chars_of. cbn [map enum_from ean13_loop]. fold (chars_of rest).
  rewrite ean_lookup_digit by exact Hd0. change (0 =? 0) with true. cbn iota.
  rewrite ean13_loop_digits by (try assumption; try lia; apply ean_parity_row_length; exact Hd0).
  cbn [obind]. do 2 f_equal.
  do 12 (destruct rest as [|? rest]; [discriminate|]). destruct rest; [|discriminate].
  unfold ean_symbol, ean_codes, piece13.
  cbn [enum_from flat_map firstn skipn map fst snd].
  zcompute. cbn iota.
  digit_split Hd0;
    repeat match goal with
    | |- context [nth ?n (ean_parity_row ?d) false] =>
      let v := eval vm_compute in (nth n (ean_parity_row d) false) in
      change (nth n (ean_parity_row d) false) with v
    | |- context [ean13_sets ?d] =>
      let v := eval vm_compute in (ean13_sets d) in change (ean13_sets d) with v
    end;
    cbn iota; cbn [combine flat_map fst snd];
    unfold ean_guard, ean_normal_guard, ean_centre, ean_centre_guard;
    repeat progress (cbn [app]; rewrite <- ?app_assoc, ?app_nil_r); reflexivity.
Qed.

(* ---------- decoding the symbols the encoder builds ---------- *)
Lemma Forall_pair_range s l : Forall digit_range l ->
  Forall (fun sd : eset * Z => digit_range (snd sd)) (map (pair s) l).
Proof. induction 1; cbn [map]; constructor; auto. Qed.

Lemma all_in_set_pair s l : all_in_set s (map (pair s) l) = true.
Proof.
  unfold all_in_set. induction l as [|x l IH]; [reflexivity|].
  cbn [map forallb fst]. rewrite IH. destruct s; reflexivity.
Qed.

Lemma map_snd_pair {A B} (s : A) (l : list B) : map snd (map (pair s) l) = l.
Proof. induction l as [|x l IH]; [reflexivity|]. cbn [map snd]. rewrite IH. reflexivity. Qed.

Lemma map_fst_combine {A B} (a : list A) : forall (b : list B), length a = length b -> map fst (combine a b) = a.
Proof. induction a as [|x a IH]; intros [|y b] H; try discriminate; [reflexivity|]. cbn [combine map fst]. rewrite IH by (simpl in H; lia). reflexivity. Qed.

Lemma map_snd_combine {A B} (a : list A) : forall (b : list B), length a = length b -> map snd (combine a b) = b.
Proof. induction a as [|x a IH]; intros [|y b] H; try discriminate; [reflexivity|]. cbn [combine map snd]. rewrite IH by (simpl in H; lia). reflexivity. Qed.

Lemma Forall_combine_range (a : list eset) : forall l, Forall digit_range l ->
  Forall (fun sd : eset * Z => digit_range (snd sd)) (combine a l).
Proof.
  induction a as [|x a IH]; intros l H; [constructor|].
  destruct H as [|d l Hd Hl]; [constructor|]. cbn [combine]. constructor; auto.
Qed.

Lemma forallb_map_fst {A B} (f : A -> bool) (l : list (A * B)) :
  forallb (fun sd => f (fst sd)) l = forallb f (map fst l).
Proof. induction l as [|x l IH]; [reflexivity|]. cbn [forallb map]. rewrite IH. reflexivity. Qed.

Lemma ean13_sets_length d0 : digit_range d0 -> length (ean13_sets d0) = 6%nat.
Proof. intros H. unfold ean13_sets. rewrite map_length. apply ean_parity_row_length. exact H. Qed.

Lemma ean8_symbol_decodes l4 r4 :
  Forall digit_range l4 -> Forall digit_range r4 -> length l4 = 4%nat -> length r4 = 4%nat ->
  let m := ean_symbol (map (pair SetL) l4) (map (pair SetR) r4) in
  length m = 67%nat /\ ean_frame_ok m = true /\ ean_decode m = Some (l4 ++ r4).
Proof.
  intros Hl Hr Nl Nr m.
  pose proof (Forall_pair_range SetL l4 Hl) as FL. pose proof (Forall_pair_range SetR r4 Hr) as FR.
  assert (length m = 67%nat) as Hm.
  { unfold m. rewrite ean_symbol_length, !map_length, Nl, Nr by assumption. reflexivity. }
  split; [exact Hm|]. split.
  - apply ean_symbol_frame; try assumption. left. rewrite !map_length. auto.
  - unfold ean_decode. rewrite Hm. cbn [Nat.eqb]. unfold ean8_decode.
    replace 4%nat with (length (map (pair SetL) l4)) by (rewrite map_length; exact Nl).
    unfold m. rewrite ean_split_symbol by (try assumption; rewrite !map_length; lia).
    rewrite !all_in_set_pair, !map_snd_pair. reflexivity.
Qed.

Lemma ean13_symbol_decodes d0 l6 r6 :
  digit_range d0 -> Forall digit_range l6 -> Forall digit_range r6 ->
  length l6 = 6%nat -> length r6 = 6%nat ->
  let m := ean_symbol (combine (ean13_sets d0) l6) (map (pair SetR) r6) in
  length m = 95%nat /\ ean_frame_ok m = true /\ ean_decode m = Some (d0 :: l6 ++ r6).
Proof.
  intros H0 Hl Hr Nl Nr m.
  pose proof (Forall_combine_range (ean13_sets d0) l6 Hl) as FL.
  pose proof (Forall_pair_range SetR r6 Hr) as FR.
  pose proof (ean13_sets_length d0 H0) as NS.
  assert (length (combine (ean13_sets d0) l6) = 6%nat) as NC by (rewrite combine_length; lia).
  assert (length m = 95%nat) as Hm.
  { unfold m. rewrite ean_symbol_length, NC, map_length, Nr by assumption. reflexivity. }
  split; [exact Hm|]. split.
  - apply ean_symbol_frame; try assumption. right. rewrite map_length. auto.
  - unfold ean_decode. rewrite Hm. cbn [Nat.eqb]. unfold ean13_decode.
    rewrite <- NC at 1.
    unfold m. rewrite ean_split_symbol by (try assumption; rewrite map_length; lia).
    rewrite all_in_set_pair, map_snd_pair.
    rewrite map_snd_combine by lia.
    replace (forallb (fun sd : eset * Z => negb (eset_eqb (fst sd) SetR)) (combine (ean13_sets d0) l6))
      with (forallb (fun s => negb (eset_eqb s SetR)) (map fst (combine (ean13_sets d0) l6)))
      by (symmetry; apply (forallb_map_fst (fun s => negb (eset_eqb s SetR)))).
    replace (map (fun sd : eset * Z => eset_eqb (fst sd) SetG) (combine (ean13_sets d0) l6))
      with (map (fun s => eset_eqb s SetG) (map fst (combine (ean13_sets d0) l6)))
      by (rewrite map_map; reflexivity).
    rewrite map_fst_combine by lia.
    replace (map (fun s => eset_eqb s SetG) (ean13_sets d0)) with (ean_parity_row d0)
      by (digit_split H0; reflexivity).
    replace (forallb (fun s => negb (eset_eqb s SetR)) (ean13_sets d0)) with true
      by (digit_split H0; reflexivity).
    rewrite find_parity by exact H0. reflexivity.
Qed.

(* ---------- a successful loop has seen digits only ---------- *)
Lemma ean8_loop_some rs b : ean8_loop rs = Some b -> Forall (fun p => is_digit (snd p) = true) rs.
Proof.
  revert b. induction rs as [|[cpos r] rs IH]; intros b H; [constructor|].
  cbn [ean8_loop] in H.
  destruct (ean_lookup r) as [[[[lo le] ri] cs]|] eqn:E; [|discriminate].
  destruct (ean8_loop rs) as [rest|] eqn:E2; [|discriminate].
  constructor; [cbn [snd]; eapply ean_lookup_some; exact E | eapply IH; reflexivity].
Qed.

Lemma ean13_loop_some rs : forall fn b, ean13_loop rs fn = Ok (Some b) ->
  Forall (fun p => is_digit (snd p) = true) rs.
Proof.
  induction rs as [|[cpos r] rs IH]; intros fn b H; [constructor|].
  cbn [ean13_loop] in H.
  destruct (ean_lookup r) as [[[[lo le] ri] cs]|] eqn:E; [|discriminate].
  constructor; [cbn [snd]; eapply ean_lookup_some; exact E|].
  destruct (cpos =? 0); [eapply IH; exact H|].
  match type of H with obind ?x _ = _ => destruct x; try discriminate end.
  cbn [obind] in H.
  destruct (ean13_loop rs fn) as [[rest|]| | |] eqn:E2; try discriminate.
  eapply IH; exact E2.
Qed.

Lemma ean_lookup_parity_length r lo le ri cs :
  ean_lookup r = Some (lo, le, ri, cs) -> length cs = 6%nat.
Proof.
  intros H. pose proof (ean_lookup_some _ _ H) as Hd. apply is_digit_range in Hd.
  assert (digit_range (r - 48)) as Hr by (unfold digit_range; lia).
  replace r with (r - 48 + 48) in H by lia. rewrite ean_lookup_digit in H by exact Hr.
  inversion H; subst. apply ean_parity_row_length. exact Hr.
Qed.

(* index out of range / nil slice cannot happen: every later offset is >= 1 and
   the parity row has six entries *)
Lemma ean13_loop_no_panic rs : forall fnum, length fnum = 6%nat ->
  Forall (fun p => 1 <= fst p) rs -> exists res, ean13_loop rs (Some fnum) = Ok res.
Proof.
  induction rs as [|[cpos r] rs IH]; intros fnum Hf Ho; [eexists; reflexivity|].
  inversion Ho as [|? ? H1 Hrest]; subst. cbn [fst] in H1.
  cbn [ean13_loop].
  destruct (ean_lookup r) as [[[[lo le] ri] cs]|] eqn:E; [|eexists; reflexivity].
  replace (cpos =? 0) with false by lia.
  destruct (IH fnum Hf Hrest) as [res Hres]. rewrite Hres.
  destruct (cpos <? 7) eqn:E7.
  - rewrite (zget_nth fnum (cpos - 1) false) by (unfold zlength; lia).
    cbn [obind]. destruct res; eexists; reflexivity.
  - cbn [obind]. destruct res; eexists; reflexivity.
Qed.

Lemma encode_ean13_no_panic c : exists res, encode_ean13 c = Ok res.
Proof.
  unfold encode_ean13. destruct c as [|b rest].
  - eexists; reflexivity.
  - destruct (utf8_range_cons b rest) as (r & tl & -> & Htl).
    cbn [ean13_loop].
    destruct (ean_lookup r) as [[[[lo le] ri] cs]|] eqn:E; [|eexists; reflexivity].
    change (0 =? 0) with true. cbn iota.
    destruct (ean13_loop_no_panic tl cs (ean_lookup_parity_length _ _ _ _ _ E) Htl) as [res ->].
    cbn [obind]. destruct res; eexists; reflexivity.
Qed.

Lemma range_digits_all_digits c :
  Forall (fun p => is_digit (snd p) = true) (utf8_range c) -> all_digits c = true.
Proof.
  intros H.
  assert (Forall (fun p => snd p < 128) (utf8_range c)) as H2.
  { eapply Forall_impl; [|exact H]. intros p Hp. apply is_digit_range in Hp. lia. }
  destruct (utf8_range_lt128 c H2) as [_ E]. rewrite E in H.
  apply all_digits_Forall. rewrite <- (enum_from_snd c 0).
  apply Forall_forall. intros x Hx. apply in_map_iff in Hx as (p & <- & Hp).
  rewrite Forall_forall in H. apply H. exact Hp.
Qed.

Lemma encode_ean8_some c bits : encode_ean8 c = Some bits -> all_digits c = true.
Proof.
  unfold encode_ean8. destruct (ean8_loop (utf8_range c)) eqn:E; [|discriminate].
  intros _. apply range_digits_all_digits. eapply ean8_loop_some. exact E.
Qed.

Lemma encode_ean13_some c bits : encode_ean13 c = Ok (Some bits) -> all_digits c = true.
Proof.
  unfold encode_ean13.
  destruct (ean13_loop (utf8_range c) None) as [[b|]| | |] eqn:E; try discriminate.
  intros _. apply range_digits_all_digits. eapply ean13_loop_some. exact E.
Qed.

(* ---------- second half of EncodeWithColor ---------- *)
Lemma ean_finish_no_panic c cs : ean_finish c cs = Err \/ exists bc, ean_finish c cs = Ok bc.
Proof.
  unfold ean_finish. destruct (zlength c =? 8).
  - destruct (encode_ean8 c); [right; eexists; reflexivity | left; reflexivity].
  - destruct (zlength c =? 13); [|left; reflexivity].
    destruct (encode_ean13_no_panic c) as [res ->]. cbn [obind].
    destruct res; [right; eexists; reflexivity | left; reflexivity].
Qed.

Lemma ean_finish_ok_inv c cs bc : ean_finish c cs = Ok bc ->
  all_digits c = true /\ (length c = 8 \/ length c = 13)%nat.
Proof.
  unfold ean_finish, zlength. destruct (Z.of_nat (length c) =? 8) eqn:E8.
  - destruct (encode_ean8 c) eqn:E; [|discriminate]. intros _.
    split; [eapply encode_ean8_some; exact E | lia].
  - destruct (Z.of_nat (length c) =? 13) eqn:E13; [|discriminate].
    destruct (encode_ean13 c) as [[b|]| | |] eqn:E; try discriminate. intros _.
    split; [eapply encode_ean13_some; exact E | lia].
Qed.

Definition ean_kind_of (full : list Z) : kind := if (length full =? 8)%nat then KEAN8 else KEAN13.
Definition ean_modules_of (full : list Z) : nat := if (length full =? 8)%nat then 67%nat else 95%nat.

Lemma ean_finish_digits full cs :
  Forall digit_range full -> (length full = 8 \/ length full = 13)%nat ->
  exists bits,
    ean_finish (chars_of full) cs = Ok (mk1d (ean_kind_of full) (chars_of full) (Some cs) bits)
    /\ length bits = ean_modules_of full
    /\ ean_frame_ok bits = true
    /\ ean_decode bits = Some full.
Proof.
  intros Hd [Hl|Hl]; unfold ean_finish, ean_kind_of, ean_modules_of, zlength;
    rewrite chars_of_length, Hl; cbn [Nat.eqb Z.of_nat Pos.of_succ_nat Pos.succ Z.eqb Pos.eqb].
  - rewrite encode_ean8_digits by assumption.
    eexists. split; [reflexivity|].
    assert (Forall digit_range (firstn 4 full) /\ Forall digit_range (skipn 4 full)) as [F1 F2].
    { rewrite <- (firstn_skipn 4 full) in Hd. apply Forall_app in Hd. exact Hd. }
    destruct (ean8_symbol_decodes (firstn 4 full) (skipn 4 full) F1 F2) as (A & B & C).
    { rewrite firstn_length. lia. } { rewrite skipn_length. lia. }
    rewrite firstn_skipn in C. auto.
  - destruct full as [|d0 rest]; [discriminate|].
    assert (length rest = 12%nat) as Hr by (simpl in Hl; lia).
    rewrite encode_ean13_digits by assumption. cbn [obind].
    eexists. split; [reflexivity|].
    inversion Hd as [|? ? H0 Hrest]; subst.
    assert (Forall digit_range (firstn 6 rest) /\ Forall digit_range (skipn 6 rest)) as [F1 F2].
    { rewrite <- (firstn_skipn 6 rest) in Hrest. apply Forall_app in Hrest. exact Hrest. }
    destruct (ean13_symbol_decodes d0 (firstn 6 rest) (skipn 6 rest) H0 F1 F2) as (A & B & C).
    { rewrite firstn_length. lia. } { rewrite skipn_length. lia. }
    rewrite firstn_skipn in C. auto.
Qed.

(* ---------- which strings are representable ---------- *)
Lemma ean_representable_cases s : ean_representable s = true ->
  exists data, Forall digit_range data /\ (length data = 7 \/ length data = 12)%nat
    /\ ean_full_number s = data ++ [gs1_check data]
    /\ (s = chars_of data \/ s = chars_of (data ++ [gs1_check data])).
Proof.
  unfold ean_representable, ean_full_number. intros H.
  apply andb_true_iff in H as [Hd H].
  pose proof (digits_range s Hd) as Hr. pose proof (chars_digits s Hd) as Hc.
  pose proof (digits_of_length s) as Hn.
  destruct ((length s =? 7)%nat || (length s =? 12)%nat) eqn:E.
  - exists (digits_of s). repeat split; auto. lia.
  - cbn [orb] in H. apply andb_true_iff in H as [H8 Hl].
    assert (digits_of s <> []) as Hne by (intros C; rewrite C in Hn; simpl in Hn; lia).
    pose proof (app_removelast_last 0 Hne) as Happ.
    apply Z.eqb_eq in Hl. rewrite Hl in Happ.
    exists (removelast (digits_of s)).
    assert (length (removelast (digits_of s)) = (length s - 1)%nat) as HL.
    { rewrite Happ in Hn at 1. rewrite app_length in Hn. simpl in Hn. lia. }
    split; [|split; [lia|]].
    + rewrite Happ in Hr. apply Forall_app in Hr. apply Hr.
    + rewrite <- Happ. split; [reflexivity|]. right. symmetry. exact Hc.
Qed.

Lemma ean_representable_of_data data :
  Forall digit_range data -> (length data = 7 \/ length data = 12)%nat ->
  ean_representable (chars_of data) = true
  /\ ean_representable (chars_of (data ++ [gs1_check data])) = true.
Proof.
  intros Hd Hl. unfold ean_representable. split.
  - rewrite chars_all_digits by exact Hd. rewrite chars_of_length.
    destruct Hl as [-> | ->]; reflexivity.
  - assert (Forall digit_range (data ++ [gs1_check data])) as Hd2.
    { apply Forall_app. split; [exact Hd|]. constructor; [apply gs1_check_range | constructor]. }
    rewrite chars_all_digits by exact Hd2. rewrite chars_of_length, digits_chars, app_length.
    rewrite last_last, removelast_last, Z.eqb_refl.
    cbn [length]. destruct Hl as [-> | ->]; reflexivity.
Qed.

Lemma ean_representable_iff s : ean_representable s = true <->
  exists data, Forall digit_range data /\ (length data = 7 \/ length data = 12)%nat
    /\ (s = chars_of data \/ s = chars_of (data ++ [gs1_check data])).
Proof.
  split.
  - intros H. destruct (ean_representable_cases s H) as (data & A & B & _ & D). eauto.
  - intros (data & A & B & [-> | ->]); apply ean_representable_of_data; assumption.
Qed.

(* ---------- first half of EncodeWithColor ---------- *)
Lemma utf8_encode_rune_digit d : digit_range d -> utf8_encode_rune (48 + d) = [48 + d].
Proof.
  unfold digit_range, utf8_encode_rune, utf8_in. intros H.
  replace ((0 <=? 48 + d) && (48 + d <=? 127)) with true by lia. reflexivity.
Qed.

Lemma rune_to_int_digit d : digit_range d -> rune_to_int (48 + d) = d.
Proof.
  unfold digit_range, rune_to_int, is_digit. intros H.
  replace ((48 <=? 48 + d) && (48 + d <=? 57)) with true by lia. lia.
Qed.

Lemma chars_of_snoc data d : chars_of (data ++ [d]) = chars_of data ++ [48 + d].
Proof. rewrite chars_of_app. cbn [chars_of map]. do 2 f_equal. lia. Qed.

Lemma ean_prepare_data data :
  Forall digit_range data -> (length data = 7 \/ length data = 12)%nat ->
  let full := data ++ [gs1_check data] in
  ean_prepare (chars_of data) = Ok (chars_of full, gs1_check data)
  /\ ean_prepare (chars_of full) = Ok (chars_of full, gs1_check data).
Proof.
  intros Hd Hl full. pose proof (gs1_check_range data) as Hc.
  pose proof (calc_check_num_digits data Hd Hl) as Hcalc.
  unfold full. rewrite chars_of_snoc. split.
  - unfold ean_prepare, zlength. rewrite chars_of_length.
    replace ((Z.of_nat (length data) =? 7) || (Z.of_nat (length data) =? 12)) with true by lia.
    rewrite Hcalc, utf8_encode_rune_digit, rune_to_int_digit by exact Hc. reflexivity.
  - unfold ean_prepare, zlength. rewrite app_length, chars_of_length. cbn [length].
    replace ((Z.of_nat (length data + 1) =? 7) || (Z.of_nat (length data + 1) =? 12)) with false by lia.
    replace ((Z.of_nat (length data + 1) =? 8) || (Z.of_nat (length data + 1) =? 13)) with true by lia.
    replace (Z.to_nat (Z.of_nat (length data + 1) - 1)) with (length (chars_of data))
      by (rewrite chars_of_length; lia).
    rewrite firstn_app_exact by reflexivity.
    rewrite Hcalc, utf8_encode_rune_digit by exact Hc.
    rewrite bytes_eqb_refl. cbn [negb].
    rewrite (zget_nth _ _ 0) by (unfold zlength; rewrite app_length, chars_of_length; cbn [length]; lia).
    replace (Z.to_nat (Z.of_nat (length data + 1) - 1)) with (length (chars_of data))
      by (rewrite chars_of_length; lia).
    rewrite nth_middle, rune_to_int_digit by exact Hc. reflexivity.
Qed.

Lemma ean_prepare_no_panic s :
  ean_prepare s = Err \/ exists c cs, ean_prepare s = Ok (c, cs).
Proof.
  unfold ean_prepare. destruct ((zlength s =? 7) || (zlength s =? 12)); [right; eauto|].
  destruct ((zlength s =? 8) || (zlength s =? 13)) eqn:E; [|right; eauto].
  destruct (negb _); [left; reflexivity|].
  rewrite (zget_nth _ _ 0) by lia. right; eauto.
Qed.

Lemma all_digits_firstn k s : all_digits s = true -> all_digits (firstn k s) = true.
Proof.
  rewrite !all_digits_Forall. intros H. rewrite <- (firstn_skipn k s) in H.
  apply Forall_app in H. apply H.
Qed.

Lemma ean_prepare_inv s c cs : ean_prepare s = Ok (c, cs) ->
  all_digits c = true -> (length c = 8 \/ length c = 13)%nat -> ean_representable s = true.
Proof.
  unfold ean_prepare. intros H Hd Hl.
  destruct ((zlength s =? 7) || (zlength s =? 12)) eqn:E1.
  - inversion H; subst. rewrite all_digits_app in Hd. apply andb_true_iff in Hd as [Hs _].
    unfold ean_representable. rewrite Hs. unfold zlength in E1. cbn [andb].
    replace ((length s =? 7)%nat || (length s =? 12)%nat) with true by lia. reflexivity.
  - destruct ((zlength s =? 8) || (zlength s =? 13)) eqn:E2.
    + destruct (bytes_eqb _ s) eqn:Eq; [|discriminate]. cbn [negb] in H.
      destruct (zget s (zlength s - 1)); [|discriminate]. inversion H; subst c cs. clear H.
      apply bytes_eqb_eq in Eq.
      set (check0 := firstn (Z.to_nat (zlength s - 1)) s) in *.
      assert (all_digits check0 = true) as Hd0 by (apply all_digits_firstn; exact Hd).
      assert (length check0 = 7 \/ length check0 = 12)%nat as Hl0.
      { unfold check0. rewrite firstn_length. unfold zlength in *. lia. }
      pose proof (digits_range _ Hd0) as Hr0. pose proof (chars_digits _ Hd0) as Hc0.
      rewrite <- Hc0 in Eq.
      rewrite calc_check_num_digits in Eq by (try exact Hr0; rewrite digits_of_length; exact Hl0).
      rewrite utf8_encode_rune_digit in Eq by apply gs1_check_range.
      rewrite <- chars_of_snoc in Eq. rewrite <- Eq.
      apply ean_representable_of_data; [exact Hr0 | rewrite digits_of_length; exact Hl0].
    + inversion H; subst. unfold zlength in *. lia.
Qed.

(* ---------- main lemmas ---------- *)
Lemma ean_accept s : ean_representable s = true ->
  let full := ean_full_number s in
  exists bits,
    ean_encode s = Ok (mk1d (ean_kind_of full) (chars_of full) (Some (last full 0)) bits)
    /\ length bits = ean_modules_of full
    /\ ean_frame_ok bits = true
    /\ ean_decode bits = Some full.
Proof.
  intros H full. destruct (ean_representable_cases s H) as (data & Hd & Hl & Hf & Hs).
  unfold full. rewrite Hf. rewrite last_last.
  assert (Forall digit_range (data ++ [gs1_check data])) as Hd2.
  { apply Forall_app. split; [exact Hd|]. constructor; [apply gs1_check_range | constructor]. }
  assert (length (data ++ [gs1_check data]) = 8 \/ length (data ++ [gs1_check data]) = 13)%nat as Hl2.
  { rewrite app_length. cbn [length]. lia. }
  destruct (ean_finish_digits _ (gs1_check data) Hd2 Hl2) as (bits & Hb).
  exists bits. split; [|apply Hb].
  destruct (ean_prepare_data data Hd Hl) as [P1 P2].
  unfold ean_encode. destruct Hs as [-> | ->]; [rewrite P1 | rewrite P2]; cbn [obind]; apply Hb.
Qed.

Lemma ean_ok_representable s bc : ean_encode s = Ok bc -> ean_representable s = true.
Proof.
  unfold ean_encode. intros H.
  destruct (ean_prepare s) as [[c cs]| | |] eqn:E; try discriminate. cbn [obind] in H.
  destruct (ean_finish_ok_inv _ _ _ H) as [Hd Hl].
  eapply ean_prepare_inv; eassumption.
Qed.

Lemma ean_reject s : ean_representable s = false -> ean_encode s = Err.
Proof.
  intros H.
  assert (forall bc, ean_encode s <> Ok bc) as Hno.
  { intros bc C. apply ean_ok_representable in C. congruence. }
  unfold ean_encode in *.
  destruct (ean_prepare_no_panic s) as [-> | (c & cs & E)]; [reflexivity|].
  rewrite E in *. cbn [obind] in *.
  destruct (ean_finish_no_panic c cs) as [-> | (bc & E2)]; [reflexivity|].
  exfalso. eapply Hno. exact E2.
Qed.

(* everything one can observe on an accepted input *)
Lemma ean_sound s bc : ean_encode s = Ok bc ->
  let full := ean_full_number s in
  ean_representable s = true
  /\ bc_kind bc = ean_kind_of full
  /\ bc_content bc = chars_of full
  /\ bc_checksum bc = Some (last full 0)
  /\ bc_height bc = 1
  /\ exists bits, bc_rows bc = [bits]
       /\ bc_width bc = zlength bits
       /\ length bits = ean_modules_of full
       /\ ean_frame_ok bits = true
       /\ ean_decode bits = Some full.
Proof.
  intros H full. pose proof (ean_ok_representable s bc H) as Hr.
  destruct (ean_accept s Hr) as (bits & E & A & B & C). fold full in E, A, C.
  rewrite E in H. inversion H; subst bc. cbn [mk1d bc_kind bc_content bc_checksum bc_height bc_rows bc_width].
  repeat split; auto. exists bits. auto.
Qed.

Lemma ean_complete s : ean_representable s = true -> exists bc, ean_encode s = Ok bc.
Proof. intros H. destruct (ean_accept s H) as (bits & E & _). eexists. exact E. Qed.

(* the full number is data ++ [check digit], the check digit brings the
   weighted sum to a multiple of ten *)
Lemma gs1_check_sum data : (gs1_sum data + gs1_check data) mod 10 = 0.
Proof. unfold gs1_check. lia. Qed.

(* non-vacuity witnesses *)
Lemma ean_example_8 : ean_representable [53;57;48;49;50;51;52] = true.
Proof. reflexivity. Qed.
Lemma ean_example_13 : ean_representable [53;57;48;49;50;51;52;49;50;51;52;53;55] = true.
Proof. reflexivity. Qed.
Lemma ean_example_reject : ean_representable [53;57;48;49;50;51;52;53] = false.
Proof. reflexivity. Qed.

Lemma gs1_check_completes data :
  (gs1_sum data + gs1_check data) mod 10 = 0 /\ 0 <= gs1_check data <= 9.
Proof. split; [apply gs1_check_sum | apply gs1_check_range]. Qed.
