(* C16: the IterateBytes -> splitToBlocks hand-over of every QR encode is exact, so the
   producer goroutine always returns (uses the C01 bit-count theorem). *)
From Coq Require Import String.
From Verif Require Import Prelude Barcode BitListM GFM TabQr QRMBits QRMBlocks QRM QRSpec QRP3Pad QRP6Compose QRProps.
From Verif Require Import TabSync ConcM ConcP.
Import List ListNotations.
Notation length := List.length.

Local Ltac Zify.zify_post_hook ::= Z.div_mod_to_equations.

(* for every accepted QR content (any mode encoder, any level): the number of bytes the
   IterateBytes producer sends (ceil(bits/8)) equals the number splitToBlocks receives
   (total_data_bytes of the chosen version), hence a consumer performing that many receives
   lets the producer finish and nothing is left unread *)
Theorem qr_bytes_handover m content level bits vi (vals : list Z) :
  (m = SByte -> is_bytes content) ->
  encoder_of m content level = Ok (bits, vi) ->
  Z.of_nat (length vals) = (zlength bits + 7) / 8 ->
  let k := Z.to_nat (total_data_bytes vi) in
  Z.of_nat (length vals) = total_data_bytes vi
  /\ let s := chrun (length vals + k + 3) (chinit vals (CRecv k)) in
     producer_finished s = true /\ ch_cons_done s = true /\ chstep s = None.
Proof.
  intros Hb Henc Hlen k.
  destruct (qr_c01_segments m content level bits vi Hb Henc) as (_ & Hbits & _).
  assert (Hl : Z.of_nat (length vals) = total_data_bytes vi) by lia.
  split; [exact Hl|]. cbn zeta.
  destruct (recv_consumer_no_leak_iff vals k) as (H1 & H2 & H3). cbn zeta in H1, H2, H3.
  split; [apply H3; subst k; lia|]. split; assumption.
Qed.
