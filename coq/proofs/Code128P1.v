(* Code 128, part 1: finite table theorems (vm_compute) and the lemmas about the
   look-ahead predicates shouldUseCTable / shouldUseATable. *)
From Verif Require Import Prelude Barcode TabCode128 Code128M Code128Spec.

Local Ltac Zify.zify_post_hook ::= Z.div_mod_to_equations.

(* ---------- small generic facts ---------- *)
Definition c128_zrange (n : nat) : list Z := map Z.of_nat (seq 0 n).

Lemma c128_in_zrange v n : 0 <= v < Z.of_nat n -> In v (c128_zrange n).
Proof.
  intros H. unfold c128_zrange.
  replace v with (Z.of_nat (Z.to_nat v)) by lia.
  apply in_map, in_seq. lia.
Qed.

Lemma c128_zlength_cons {A} (x : A) l : zlength (x :: l) = zlength l + 1.
Proof. unfold zlength. cbn [length]. lia. Qed.

Lemma c128_zlength_nil {A} : zlength (@nil A) = 0.
Proof. reflexivity. Qed.

Lemma c128_zlength_nonneg {A} (l : list A) : 0 <= zlength l.
Proof. unfold zlength. lia. Qed.

Lemma c128_bits_eqb_refl a : c128_bits_eqb a a = true.
Proof. induction a as [|x a IH]; cbn; [reflexivity|]. rewrite IH. destruct x; reflexivity. Qed.

Lemma c128_bits_eqb_eq a : forall b, c128_bits_eqb a b = true -> a = b.
Proof.
  induction a as [|x a IH]; intros [|y b] H; cbn in H; try discriminate; [reflexivity|].
  apply andb_true_iff in H. destruct H as [H1 H2].
  apply eqb_prop in H1. subst. f_equal. auto.
Qed.

Lemma c128_zget_range {A} (l : list A) i x : zget l i = Some x -> 0 <= i < zlength l.
Proof.
  unfold zget, zlength. destruct (i <? 0) eqn:E; [discriminate|]. intros H.
  assert (nth_error l (Z.to_nat i) <> None) as H2 by congruence.
  apply nth_error_Some in H2. lia.
Qed.

(* ---------- the pattern table ---------- *)
Lemma c128_table_is_standard : c128_encoding_table = c128_spec_patterns.
Proof. vm_compute. reflexivity. Qed.

Definition c128_distinct_check (pats : list (list bool)) (i j : Z) : bool :=
  match zget pats i, zget pats j with
  | Some p, Some q => (i =? j) || negb (c128_bits_eqb p q)
  | _, _ => false
  end.

Lemma c128_distinct_all :
  forallb (fun i => forallb (c128_distinct_check c128_spec_patterns i) (c128_zrange 107)) (c128_zrange 107) = true.
Proof. vm_compute. reflexivity. Qed.

Lemma c128_patterns_wellformed :
  length c128_spec_patterns = 107%nat /\
  length c128_spec_char_patterns = 106%nat /\
  Forall (fun p => length p = 11%nat) c128_spec_char_patterns /\
  length c128_spec_stop_pattern = 13%nat /\
  zget c128_spec_patterns 106 = Some c128_spec_stop_pattern /\
  (forall i j p, zget c128_spec_patterns i = Some p -> zget c128_spec_patterns j = Some p -> i = j).
Proof.
  split; [vm_compute; reflexivity|].
  split; [vm_compute; reflexivity|].
  split.
  { apply Forall_forall. intros p Hp.
    assert (forallb (fun p => Nat.eqb (length p) 11) c128_spec_char_patterns = true) as H
      by (vm_compute; reflexivity).
    rewrite forallb_forall in H. apply H in Hp. apply Nat.eqb_eq in Hp. exact Hp. }
  split; [vm_compute; reflexivity|].
  split; [vm_compute; reflexivity|].
  intros i j p Hi Hj.
  assert (zlength c128_spec_patterns = 107) as HL by (vm_compute; reflexivity).
  pose proof (c128_zget_range _ _ _ Hi) as Ri.
  pose proof (c128_zget_range _ _ _ Hj) as Rj.
  rewrite HL in Ri, Rj.
  pose proof c128_distinct_all as H.
  rewrite forallb_forall in H.
  specialize (H i (c128_in_zrange i 107 ltac:(lia))).
  rewrite forallb_forall in H.
  specialize (H j (c128_in_zrange j 107 ltac:(lia))).
  unfold c128_distinct_check in H. rewrite Hi, Hj in H.
  rewrite c128_bits_eqb_refl in H. cbn in H.
  rewrite orb_false_r in H. lia.
Qed.

(* what the model needs of its table: value v has an 11-module pattern that
   the reference decoder reads back as v *)
Definition c128_tab_ok (v : Z) : bool :=
  match zget c128_encoding_table v with
  | Some p =>
    Nat.eqb (length p) 11 &&
    match c128_spec_lookup p with Some w => w =? v | None => false end
  | None => false
  end.

Lemma c128_tab_ok_all : forallb c128_tab_ok (c128_zrange 106) = true.
Proof. vm_compute. reflexivity. Qed.

Lemma c128_tab_lookup v : 0 <= v <= 105 ->
  exists p, zget c128_encoding_table v = Some p /\ length p = 11%nat /\ c128_spec_lookup p = Some v.
Proof.
  intros Hv. pose proof c128_tab_ok_all as H. rewrite forallb_forall in H.
  specialize (H v (c128_in_zrange v 106 ltac:(lia))).
  unfold c128_tab_ok in H.
  destruct (zget c128_encoding_table v) as [p|]; [|discriminate].
  apply andb_true_iff in H. destruct H as [H1 H2].
  exists p. split; [reflexivity|]. split; [apply Nat.eqb_eq; exact H1|].
  destruct (c128_spec_lookup p) as [w|]; [|discriminate].
  f_equal. lia.
Qed.

Lemma c128_tab_stop : zget c128_encoding_table c128_stop = Some c128_spec_stop_pattern.
Proof. vm_compute. reflexivity. Qed.

(* ---------- the code set strings and constants ---------- *)
Lemma c128_code_sets :
  c128_aTable = c128_spec_setA_chars /\
  c128_bTable = c128_spec_setB_chars /\
  c128_abTable = firstn 64 c128_spec_setA_chars /\
  c128_abTable = firstn 64 c128_spec_setB_chars /\
  c128_aOnlyTable = skipn 64 c128_spec_setA_chars /\
  (c128_startA = 103 /\ c128_startB = 104 /\ c128_startC = 105) /\
  (c128_codeA = 101 /\ c128_codeB = 100 /\ c128_codeC = 99 /\ c128_stop = 106) /\
  (c128_FNC1 = spec_FNC1 /\ c128_FNC2 = spec_FNC2 /\ c128_FNC3 = spec_FNC3 /\ c128_FNC4 = spec_FNC4).
Proof. vm_compute. repeat split; reflexivity. Qed.

(* the table strings are ASCII only: byte index = rune index, and runes >= 128
   are never found (justifies modelling IndexRune as a search for the value) *)
Lemma c128_tables_ascii :
  Forall (fun c => 0 <= c <= 127) (c128_aTable ++ c128_bTable ++ c128_abTable ++ c128_aOnlyTable).
Proof.
  apply Forall_forall. intros c Hc.
  assert (forallb (fun c => (0 <=? c) && (c <=? 127))
            (c128_aTable ++ c128_bTable ++ c128_abTable ++ c128_aOnlyTable) = true) as H
    by (vm_compute; reflexivity).
  rewrite forallb_forall in H. apply H in Hc. lia.
Qed.

(* ---------- membership in the table strings as ranges ---------- *)
Lemma c128_index_from_In tbl r : forall i, 0 <= i ->
  (c128_index_from tbl r i >= 0 <-> In r tbl).
Proof.
  induction tbl as [|c t IH]; intros i Hi; cbn [c128_index_from In].
  - split; [lia|tauto].
  - destruct (c =? r) eqn:E.
    + split; [intros _; left; lia|intros _; lia].
    + rewrite IH by lia. split; [tauto|]. intros [H|H]; [lia|exact H].
Qed.

Lemma c128_contains_In tbl r : c128_contains_rune tbl r = true <-> In r tbl.
Proof.
  unfold c128_contains_rune, c128_index_rune.
  rewrite <- (c128_index_from_In tbl r 0) by lia. lia.
Qed.

Lemma c128_in_seq_range a n r : In r (map Z.of_nat (seq a n)) <-> Z.of_nat a <= r < Z.of_nat (a + n).
Proof.
  rewrite in_map_iff. split.
  - intros [x [Hx Hin]]. apply in_seq in Hin. lia.
  - intros H. exists (Z.to_nat r). split; [lia|]. apply in_seq. lia.
Qed.

Lemma c128_aTable_range r : c128_contains_rune c128_aTable r = true <-> 0 <= r <= 95.
Proof.
  rewrite c128_contains_In.
  replace c128_aTable with (map Z.of_nat (seq 32 64) ++ map Z.of_nat (seq 0 32)) by (vm_compute; reflexivity).
  rewrite in_app_iff, !c128_in_seq_range. lia.
Qed.

Lemma c128_bTable_range r : c128_contains_rune c128_bTable r = true <-> 32 <= r <= 127.
Proof.
  rewrite c128_contains_In.
  replace c128_bTable with (map Z.of_nat (seq 32 96)) by (vm_compute; reflexivity).
  rewrite c128_in_seq_range. lia.
Qed.

Lemma c128_abTable_range r : c128_contains_rune c128_abTable r = true <-> 32 <= r <= 95.
Proof.
  rewrite c128_contains_In.
  replace c128_abTable with (map Z.of_nat (seq 32 64)) by (vm_compute; reflexivity).
  rewrite c128_in_seq_range. lia.
Qed.

Lemma c128_aOnlyTable_range r : c128_contains_rune c128_aOnlyTable r = true <-> 0 <= r <= 31.
Proof.
  rewrite c128_contains_In.
  replace c128_aOnlyTable with (map Z.of_nat (seq 0 32)) by (vm_compute; reflexivity).
  rewrite c128_in_seq_range. lia.
Qed.

Lemma c128_is_fnc_range r : c128_is_fnc r = true <-> 241 <= r <= 244.
Proof. unfold c128_is_fnc, c128_FNC1, c128_FNC2, c128_FNC3, c128_FNC4. lia. Qed.

Lemma c128_tc_a r : c128_table_contains c128_aTable r = true <-> (0 <= r <= 95 \/ 241 <= r <= 244).
Proof.
  unfold c128_table_contains. rewrite orb_true_iff, c128_aTable_range, c128_is_fnc_range. tauto.
Qed.

Lemma c128_tc_b r : c128_table_contains c128_bTable r = true <-> (32 <= r <= 127 \/ 241 <= r <= 244).
Proof.
  unfold c128_table_contains. rewrite orb_true_iff, c128_bTable_range, c128_is_fnc_range. tauto.
Qed.

Lemma c128_tc_ab r : c128_table_contains c128_abTable r = true <-> (32 <= r <= 95 \/ 241 <= r <= 244).
Proof.
  unfold c128_table_contains. rewrite orb_true_iff, c128_abTable_range, c128_is_fnc_range. tauto.
Qed.

Lemma c128_alphabet_range r : c128_in_alphabet r = true <-> (0 <= r <= 127 \/ 241 <= r <= 244).
Proof. unfold c128_in_alphabet, spec_FNC1, spec_FNC4. lia. Qed.

(* ---------- symbol values of the A and B branches ---------- *)
Definition c128_val_ok (v : Z) : Prop := 0 <= v <= 105.

Definition c128_fnc_list : list Z := [241; 242; 243; 244].

Definition c128_ab_check (s : c128_set) (tbl : list Z) (fnc4 : Z) (r : Z) : bool :=
  let i := c128_ab_index tbl fnc4 r in
  (0 <=? i) && (i <=? 102) &&
  match c128_meaning_of s i with
  | MData [x] => x =? r
  | _ => false
  end.

Lemma c128_a_check_all :
  forallb (c128_ab_check SetA c128_aTable 101) (c128_zrange 96 ++ c128_fnc_list) = true.
Proof. vm_compute. reflexivity. Qed.

Lemma c128_b_check_all :
  forallb (c128_ab_check SetB c128_bTable 100) (map (fun v => v + 32) (c128_zrange 96) ++ c128_fnc_list) = true.
Proof. vm_compute. reflexivity. Qed.

Lemma c128_ab_check_elim s tbl fnc4 r : c128_ab_check s tbl fnc4 r = true ->
  0 <= c128_ab_index tbl fnc4 r <= 102 /\
  c128_meaning_of s (c128_ab_index tbl fnc4 r) = MData [r].
Proof.
  unfold c128_ab_check. intros H.
  apply andb_true_iff in H. destruct H as [H1 H2].
  split; [lia|].
  destruct (c128_meaning_of s (c128_ab_index tbl fnc4 r)) as [rs| | |]; try discriminate.
  destruct rs as [|x [|y rs]]; try discriminate.
  f_equal. f_equal. lia.
Qed.

Lemma c128_in_fnc_list r : 241 <= r <= 244 -> In r c128_fnc_list.
Proof. intros H. unfold c128_fnc_list. cbn [In]. lia. Qed.

Lemma c128_a_index_meaning r : c128_table_contains c128_aTable r = true ->
  0 <= c128_ab_index c128_aTable 101 r <= 102 /\
  c128_meaning_of SetA (c128_ab_index c128_aTable 101 r) = MData [r].
Proof.
  intros H. apply c128_tc_a in H.
  apply c128_ab_check_elim.
  pose proof c128_a_check_all as HA. rewrite forallb_forall in HA. apply HA.
  apply in_app_iff. destruct H as [H|H].
  - left. apply c128_in_zrange. lia.
  - right. apply c128_in_fnc_list. exact H.
Qed.

Lemma c128_b_index_meaning r : c128_table_contains c128_bTable r = true ->
  0 <= c128_ab_index c128_bTable 100 r <= 102 /\
  c128_meaning_of SetB (c128_ab_index c128_bTable 100 r) = MData [r].
Proof.
  intros H. apply c128_tc_b in H.
  apply c128_ab_check_elim.
  pose proof c128_b_check_all as HB. rewrite forallb_forall in HB. apply HB.
  apply in_app_iff. destruct H as [H|H].
  - left. apply in_map_iff. exists (r - 32). split; [lia|]. apply c128_in_zrange. lia.
  - right. apply c128_in_fnc_list. exact H.
Qed.

(* a rune in neither bTable nor FNC1..4 has no index in the B branch *)
Lemma c128_b_index_neg r : c128_table_contains c128_bTable r = false ->
  c128_ab_index c128_bTable 100 r <? 0 = true.
Proof.
  unfold c128_table_contains, c128_is_fnc, c128_ab_index, c128_contains_rune.
  intros H. apply orb_false_iff in H. destruct H as [H1 H2].
  destruct (r =? c128_FNC1); [discriminate|].
  destruct (r =? c128_FNC2); [discriminate|].
  destruct (r =? c128_FNC3); [discriminate|].
  destruct (r =? c128_FNC4); [discriminate|].
  lia.
Qed.

(* ---------- shouldUseCTable ---------- *)
Lemma c128_suc_loop_total l : forall i req len,
  0 <= i -> i + zlength l = len -> req <= len ->
  exists b, c128_suc_loop l i req len = Ok b.
Proof.
  induction l as [|r t IH]; intros i req len Hi Hlen Hreq.
  - rewrite c128_zlength_nil in Hlen. cbn [c128_suc_loop].
    destruct (i <? req) eqn:E; [lia|]. eauto.
  - rewrite c128_zlength_cons in Hlen. cbn [c128_suc_loop].
    destruct (i <? req) eqn:E; [|eauto].
    destruct ((go_mod i 2 =? 0) && (r =? c128_FNC1)).
    + destruct (len <? req + 1) eqn:E2; [eauto|]. apply IH; lia.
    + destruct ((r <? 48) || (r >? 57)); [eauto|]. apply IH; lia.
Qed.

Lemma c128_should_use_c_total l cur : exists b, c128_should_use_c l cur = Ok b.
Proof.
  unfold c128_should_use_c.
  destruct (zlength l <? (if cur =? c128_startC then 2 else 4)) eqn:E; [eauto|].
  apply c128_suc_loop_total; lia.
Qed.

(* shouldUseCTable says yes only in front of FNC1 or of two digits *)
Lemma c128_should_use_c_true l cur : c128_should_use_c l cur = Ok true ->
  (exists t, l = c128_FNC1 :: t) \/
  (exists d1 d2 t, l = d1 :: d2 :: t /\ 48 <= d1 <= 57 /\ 48 <= d2 <= 57).
Proof.
  unfold c128_should_use_c.
  set (req := if cur =? c128_startC then 2 else 4).
  assert (2 <= req) as Hreq by (unfold req; destruct (cur =? c128_startC); lia).
  destruct (zlength l <? req) eqn:E; [discriminate|].
  destruct l as [|r t]; cbn [c128_suc_loop].
  - destruct (0 <? req) eqn:E0; [discriminate|lia].
  - destruct (0 <? req) eqn:E0; [|lia].
    change (go_mod 0 2 =? 0) with true. cbn [andb].
    destruct (r =? c128_FNC1) eqn:E1.
    + intros _. left. exists t. f_equal. lia.
    + destruct ((r <? 48) || (r >? 57)) eqn:E2; [discriminate|].
      change (0 + 1) with 1.
      destruct t as [|r2 t2]; cbn [c128_suc_loop].
      * destruct (1 <? req) eqn:E3; [discriminate|lia].
      * destruct (1 <? req) eqn:E3; [|lia].
        change (go_mod 1 2 =? 0) with false. cbn [andb].
        destruct ((r2 <? 48) || (r2 >? 57)) eqn:E4; [discriminate|].
        intros _. right. exists r, r2, t2. split; [reflexivity|]. lia.
Qed.

(* ---------- shouldUseATable ---------- *)
Lemma c128_should_use_a_total r t cur : exists b, c128_should_use_a (r :: t) cur = Ok b.
Proof.
  unfold c128_should_use_a.
  destruct (negb (c128_table_contains c128_bTable r) || (cur =? c128_startA)); [eauto|].
  destruct (cur =? 0); eauto.
Qed.

(* the A branch is only taken for a rune that code set A can express *)
Lemma c128_should_use_a_true r t cur : c128_should_use_a (r :: t) cur = Ok true ->
  c128_table_contains c128_aTable r = true.
Proof.
  unfold c128_should_use_a.
  destruct (negb (c128_table_contains c128_bTable r) || (cur =? c128_startA)).
  - intros H. injection H as H. exact H.
  - destruct (cur =? 0); [|discriminate].
    cbn [c128_sua_loop]. intros H. injection H as H.
    apply c128_tc_a.
    destruct (c128_table_contains c128_abTable r) eqn:E.
    + apply c128_tc_ab in E. lia.
    + apply c128_aOnlyTable_range in H. lia.
Qed.

(* the B branch is only taken for a rune of the alphabet if code set B can express it *)
Lemma c128_should_use_a_false r t cur : c128_should_use_a (r :: t) cur = Ok false ->
  c128_in_alphabet r = true -> c128_table_contains c128_bTable r = true.
Proof.
  unfold c128_should_use_a. intros H Ha.
  destruct (c128_table_contains c128_bTable r) eqn:Eb; [reflexivity|].
  cbn [negb orb] in H. injection H as H.
  apply c128_alphabet_range in Ha.
  assert (~ (0 <= r <= 95 \/ 241 <= r <= 244)) as Na
    by (rewrite <- c128_tc_a; congruence).
  assert (~ (32 <= r <= 127 \/ 241 <= r <= 244)) as Nb
    by (rewrite <- c128_tc_b; congruence).
  lia.
Qed.

(* a rune outside the alphabet is in no table *)
Lemma c128_not_alphabet r : c128_in_alphabet r = false ->
  c128_table_contains c128_aTable r = false /\ c128_table_contains c128_bTable r = false.
Proof.
  intros H.
  assert (~ (0 <= r <= 127 \/ 241 <= r <= 244)) as N by (rewrite <- c128_alphabet_range; congruence).
  split.
  - destruct (c128_table_contains c128_aTable r) eqn:E; [|reflexivity]. apply c128_tc_a in E. lia.
  - destruct (c128_table_contains c128_bTable r) eqn:E; [|reflexivity]. apply c128_tc_b in E. lia.
Qed.
