(* C03 layer 2 -- high-level encoding (unbounded): for every byte string the
   bit stream chosen by the state-list search decodes, with the ISO decoder of
   the specification, to exactly that byte string, also when followed by up to
   11 padding ones. *)
From Verif Require Import Prelude BitListM GFM TabAztec AztecM AztecSpec AztecPBase AztecPTab.
Local Ltac Zify.zify_post_hook ::= Z.div_mod_to_equations.

(* ================================================================== *)
(* A. the specification decoder: extension by a suffix, fuel          *)
Lemma sp_rd_ext : forall k acc X v X' C,
  sp_rd k acc X = Some (v, X') -> sp_rd k acc (X ++ C) = Some (v, X' ++ C).
Proof.
  induction k as [|k IH]; intros acc X v X' C H; simpl in *.
  - inversion H; subst. reflexivity.
  - destruct X as [|b t]; [discriminate|]. simpl. apply IH. exact H.
Qed.

Lemma sp_rd_length : forall k acc X v X',
  sp_rd k acc X = Some (v, X') -> length X = (k + length X')%nat.
Proof.
  induction k as [|k IH]; intros acc X v X' H; simpl in *.
  - inversion H; subst. reflexivity.
  - destruct X as [|b t]; [discriminate|]. cbn [length]. rewrite (IH _ _ _ _ H). lia.
Qed.

Lemma sp_rd_bytes_ext : forall n X bs X' C,
  sp_rd_bytes n X = Some (bs, X') -> sp_rd_bytes n (X ++ C) = Some (bs, X' ++ C).
Proof.
  induction n as [|n IH]; intros X bs X' C H; cbn [sp_rd_bytes] in *.
  - inversion H; subst. reflexivity.
  - destruct (sp_rd 8 0 X) as [[b r]|] eqn:E; [|discriminate].
    rewrite (sp_rd_ext _ _ _ _ _ C E).
    destruct (sp_rd_bytes n r) as [[bs' r']|] eqn:E2; [|discriminate].
    rewrite (IH _ _ _ C E2). inversion H; subst. reflexivity.
Qed.

Lemma sp_rd_bytes_length : forall n X bs X',
  sp_rd_bytes n X = Some (bs, X') -> (length X' <= length X)%nat.
Proof.
  induction n as [|n IH]; intros X bs X' H; cbn [sp_rd_bytes] in *.
  - inversion H; subst. lia.
  - destruct (sp_rd 8 0 X) as [[b r]|] eqn:E; [|discriminate].
    destruct (sp_rd_bytes n r) as [[bs' r']|] eqn:E2; [|discriminate].
    inversion H; subst. apply sp_rd_length in E. apply IH in E2. lia.
Qed.

Lemma sp_bytes_ext m n X o m' X' C :
  sp_bytes m n X = SEmit o m' X' -> sp_bytes m n (X ++ C) = SEmit o m' (X' ++ C).
Proof.
  unfold sp_bytes. destruct (sp_rd_bytes (Z.to_nat n) X) as [[bs r]|] eqn:E; [|discriminate].
  intros H. inversion H; subst. rewrite (sp_rd_bytes_ext _ _ _ _ C E). reflexivity.
Qed.

Lemma sp_bytes_length m n X o m' X' :
  sp_bytes m n X = SEmit o m' X' -> (length X' <= length X)%nat.
Proof.
  unfold sp_bytes. destruct (sp_rd_bytes (Z.to_nat n) X) as [[bs r]|] eqn:E; [|discriminate].
  intros H. inversion H; subst. eapply sp_rd_bytes_length; eauto.
Qed.

Lemma sp_binshift_ext m X o m' X' C :
  sp_binshift m X = SEmit o m' X' -> sp_binshift m (X ++ C) = SEmit o m' (X' ++ C).
Proof.
  unfold sp_binshift. destruct (sp_rd 5 0 X) as [[n r]|] eqn:E; [|discriminate].
  rewrite (sp_rd_ext _ _ _ _ _ C E). destruct (n =? 0).
  - destruct (sp_rd 11 0 r) as [[n2 r2]|] eqn:E2; [|discriminate].
    rewrite (sp_rd_ext _ _ _ _ _ C E2). apply sp_bytes_ext.
  - apply sp_bytes_ext.
Qed.

Lemma sp_binshift_length m X o m' X' :
  sp_binshift m X = SEmit o m' X' -> (length X' < length X)%nat.
Proof.
  unfold sp_binshift. destruct (sp_rd 5 0 X) as [[n r]|] eqn:E; [|discriminate].
  apply sp_rd_length in E. destruct (n =? 0).
  - destruct (sp_rd 11 0 r) as [[n2 r2]|] eqn:E2; [|discriminate].
    apply sp_rd_length in E2. intros H. apply sp_bytes_length in H. lia.
  - intros H. apply sp_bytes_length in H. lia.
Qed.

Lemma sp_step_ext m X o m' X' C :
  sp_step m X = SEmit o m' X' -> sp_step m (X ++ C) = SEmit o m' (X' ++ C).
Proof.
  unfold sp_step. destruct (sp_rd (sp_width m) 0 X) as [[c r]|] eqn:E; [|discriminate].
  rewrite (sp_rd_ext _ _ _ _ _ C E).
  destruct (nth_error (sp_tbl m) (Z.to_nat c)) as [[a|a b|mm|mm| |]|]; try discriminate;
    try (intros H; inversion H; subst; reflexivity).
  - destruct (sp_rd (sp_width mm) 0 r) as [[c2 r2]|] eqn:E2; [|discriminate].
    rewrite (sp_rd_ext _ _ _ _ _ C E2).
    destruct (nth_error (sp_tbl mm) (Z.to_nat c2)) as [[a|a b|m3|m3| |]|]; try discriminate;
      try (intros H; inversion H; subst; reflexivity).
    destruct (sp_binshift mm r2); discriminate.
  - apply sp_binshift_ext.
Qed.

Lemma sp_step_length m X o m' X' :
  sp_step m X = SEmit o m' X' -> (length X' < length X)%nat.
Proof.
  unfold sp_step. destruct (sp_rd (sp_width m) 0 X) as [[c r]|] eqn:E; [|discriminate].
  apply sp_rd_length in E. assert (Hw : (4 <= sp_width m)%nat) by (destruct m; simpl; lia).
  destruct (nth_error (sp_tbl m) (Z.to_nat c)) as [[a|a b|mm|mm| |]|]; try discriminate;
    try (intros H; inversion H; subst; lia).
  - destruct (sp_rd (sp_width mm) 0 r) as [[c2 r2]|] eqn:E2; [|discriminate].
    apply sp_rd_length in E2.
    destruct (nth_error (sp_tbl mm) (Z.to_nat c2)) as [[a|a b|m3|m3| |]|]; try discriminate;
      try (intros H; inversion H; subst; lia).
    destruct (sp_binshift mm r2); discriminate.
  - intros H. apply sp_binshift_length in H. lia.
Qed.

Lemma sp_dec_fuel : forall f1 f2 m bits,
  (length bits < f1)%nat -> (length bits < f2)%nat -> sp_dec f1 m bits = sp_dec f2 m bits.
Proof.
  induction f1 as [|f1 IH]; intros f2 m bits H1 H2; [lia|].
  destruct f2 as [|f2]; [lia|]. cbn [sp_dec].
  destruct (sp_step m bits) as [o m' rest| |] eqn:E; auto.
  apply sp_step_length in E. rewrite (IH f2) by lia. reflexivity.
Qed.

Definition lift (out : list Z) (r : option (list Z * smode)) : option (list Z * smode) :=
  match r with Some (o, mf) => Some (out ++ o, mf) | None => None end.

Lemma lift_lift a b r : lift a (lift b r) = lift (a ++ b) r.
Proof. destruct r as [[o mf]|]; simpl; auto. rewrite app_assoc. reflexivity. Qed.

Lemma lift_nil r : lift [] r = r.
Proof. destruct r as [[o mf]|]; reflexivity. Qed.

(* a strict run of X composes with whatever follows *)
Lemma sp_run_compose : forall f m X out m',
  sp_run f m X = Some (out, m') ->
  forall C, sp_dec_from m (X ++ C) = lift out (sp_dec_from m' C).
Proof.
  induction f as [|f IH]; intros m X out m' H C.
  - destruct X; simpl in H; [|discriminate]. inversion H; subst. simpl. rewrite lift_nil. reflexivity.
  - destruct X as [|b t]; [simpl in H; inversion H; subst; simpl; rewrite lift_nil; reflexivity|].
    cbn [sp_run] in H.
    destruct (sp_step m (b :: t)) as [o m1 rest| |] eqn:E; try discriminate.
    destruct (sp_run f m1 rest) as [[o' mf]|] eqn:E2; [|discriminate].
    inversion H; subst. clear H.
    unfold sp_dec_from at 1. cbn [sp_dec].
    rewrite (sp_step_ext _ _ _ _ _ C E).
    pose proof (sp_step_length _ _ _ _ _ E) as Hl.
    rewrite (sp_dec_fuel _ (S (length (rest ++ C)))) by (rewrite !app_length in *; simpl in *; lia).
    fold (sp_dec_from m1 (rest ++ C)). rewrite (IH _ _ _ _ E2 C).
    destruct (sp_dec_from m' C) as [[o2 m2]|]; simpl; auto. rewrite app_assoc. reflexivity.
Qed.

(* reading a known bit string *)
Lemma sp_rd_app : forall l acc R, sp_rd (length l) acc (l ++ R) = Some (sp_val l acc, R).
Proof. induction l as [|b t IH]; intros acc R; simpl; auto. Qed.

Lemma sp_rd_msb k v R : 0 <= v < 2 ^ Z.of_nat k -> sp_rd k 0 (msb_bits k v ++ R) = Some (v, R).
Proof.
  intros Hv. pose proof (sp_rd_app (msb_bits k v) 0 R) as H.
  rewrite msb_bits_length in H. rewrite H, sp_val_msb_bits_small by exact Hv. reflexivity.
Qed.

Fixpoint bytes_bits (l : list Z) : list bool :=
  match l with [] => [] | b :: t => msb_bits 8 b ++ bytes_bits t end.

Definition is_byte (b : Z) : Prop := 0 <= b < 256.

Lemma sp_rd_bytes_bits : forall bs R, Forall is_byte bs ->
  sp_rd_bytes (length bs) (bytes_bits bs ++ R) = Some (bs, R).
Proof.
  induction bs as [|b t IH]; intros R HF; [reflexivity|].
  inversion HF as [|? ? Hb HF']; subst. cbn [length sp_rd_bytes bytes_bits].
  rewrite <- app_assoc. rewrite sp_rd_msb by (unfold is_byte in Hb; simpl; lia).
  rewrite IH by exact HF'. reflexivity.
Qed.

(* ================================================================== *)
(* B. finite facts about the generated tables (by computation)        *)
Definition pair_bytes (pc : Z) : list Z :=
  if pc =? 2 then [13; 10] else if pc =? 3 then [46; 32] else if pc =? 4 then [44; 32] else [58; 32].

Definition code_bits (m v : Z) : list bool := msb_bits (Z.to_nat (az_bitcount m)) v.

(* latch (if needed) to mode b and the code of byte ch there *)
Definition ff_latch (a b ch : Z) : bool :=
  if az_cm b ch >? 0
  then run_is (sp_run 8 (mode_of a) (az_latch_bits a b ++ code_bits b (az_cm b ch))) [ch] (mode_of b)
  else true.

(* shift to mode b, the code of ch there as 5 bits *)
Definition ff_shift (a b ch : Z) : bool :=
  match az_shift a b with
  | Some sv =>
    if az_cm b ch >? 0
    then run_is (sp_run 8 (mode_of a) (code_bits a sv ++ msb_bits 5 (az_cm b ch))) [ch] (mode_of a)
    else true
  | None => true
  end.

Definition ff_pair (a pc : Z) : bool :=
  run_is (sp_run 8 (mode_of a) (az_latch_bits a 4 ++ code_bits 4 pc)) (pair_bytes pc) SPunct
  && ((a =? 4) ||
      run_is (sp_run 8 (mode_of a) (code_bits a (az_shift_val a 4) ++ msb_bits 5 pc))
             (pair_bytes pc) (mode_of a)).

Lemma ff_latch_all : forall a b ch, 0 <= a <= 4 -> 0 <= b <= 4 -> 0 <= ch < 256 ->
  ff_latch a b ch = true.
Proof.
  assert (H : forallb (fun a => forallb (fun b => forallb (ff_latch a b) all_bytes) all_modes)
                      all_modes = true) by (vm_compute; reflexivity).
  intros a b ch Ha Hb Hch. rewrite forallb_forall in H.
  specialize (H a (in_all_modes a Ha)). rewrite forallb_forall in H.
  specialize (H b (in_all_modes b Hb)).
  apply (forallb_zseq _ _ _ H ch). simpl; lia.
Qed.

Lemma ff_shift_all : forall a b ch, 0 <= a <= 4 -> 0 <= b <= 4 -> 0 <= ch < 256 ->
  ff_shift a b ch = true.
Proof.
  assert (H : forallb (fun a => forallb (fun b => forallb (ff_shift a b) all_bytes) all_modes)
                      all_modes = true) by (vm_compute; reflexivity).
  intros a b ch Ha Hb Hch. rewrite forallb_forall in H.
  specialize (H a (in_all_modes a Ha)). rewrite forallb_forall in H.
  specialize (H b (in_all_modes b Hb)).
  apply (forallb_zseq _ _ _ H ch). simpl; lia.
Qed.

Lemma ff_pair_all : forall a pc, 0 <= a <= 4 -> 2 <= pc <= 5 -> ff_pair a pc = true.
Proof.
  assert (H : forallb (fun a => forallb (ff_pair a) (zseq 2 4)) all_modes = true)
    by (vm_compute; reflexivity).
  intros a pc Ha Hpc. rewrite forallb_forall in H.
  specialize (H a (in_all_modes a Ha)).
  apply (forallb_zseq _ _ _ H pc). simpl; lia.
Qed.

Lemma ff_digit_codes : az_cm 2 46 = 13 /\ az_cm 2 44 = 12 /\ az_cm 2 32 = 1.
Proof. repeat split; reflexivity. Qed.

Lemma ff_bs_code : forall m, m = 0 \/ m = 1 \/ m = 3 ->
  sp_width (mode_of m) = 5%nat /\ nth_error (sp_tbl (mode_of m)) 31 = Some BinShift.
Proof. intros m [-> | [-> | ->]]; split; reflexivity. Qed.

(* padding: up to 11 ones decode to nothing from every mode *)
Lemma ff_trailing : forall m k, 0 <= m <= 4 -> (k <= 11)%nat ->
  exists mf, sp_dec_from (mode_of m) (repeat true k) = Some ([], mf).
Proof.
  assert (H : forallb (fun m => forallb (fun k =>
     match sp_dec_from (mode_of m) (repeat true (Z.to_nat k)) with
     | Some ([], _) => true | _ => false end) (zseq 0 12)) all_modes = true)
    by (vm_compute; reflexivity).
  intros m k Hm Hk. rewrite forallb_forall in H. specialize (H m (in_all_modes m Hm)).
  pose proof (forallb_zseq _ _ _ H (Z.of_nat k) ltac:(simpl; lia)) as H1. cbv beta in H1.
  rewrite Nat2Z.id in H1.
  destruct (sp_dec_from (mode_of m) (repeat true k)) as [[[|x o] mf]|]; try discriminate. eauto.
Qed.

(* the 16-bit length field: 5 zero bits and the 11-bit length *)
Lemma ff_len16 : forall v, 0 <= v < 2048 -> msb_bits 16 v = msb_bits 5 0 ++ msb_bits 11 v.
Proof.
  assert (H : forallb (fun v =>
     let a := msb_bits 16 v in let b := msb_bits 5 0 ++ msb_bits 11 v in
     (length a =? length b)%nat && forallb (fun p => Bool.eqb (fst p) (snd p)) (combine a b))
     (zseq 0 2048) = true) by (vm_compute; reflexivity).
  intros v Hv. pose proof (forallb_zseq _ _ _ H v ltac:(simpl; lia)) as H1. cbv beta zeta in H1.
  apply andb_true_iff in H1. destruct H1 as [Hl Hc]. clear H.
  apply Nat.eqb_eq in Hl.
  revert Hl Hc. generalize (msb_bits 16 v) (msb_bits 5 0 ++ msb_bits 11 v).
  induction l as [|x l IH]; intros [|y l'] Hl Hc; simpl in *; try discriminate; auto.
  apply andb_true_iff in Hc. destruct Hc as [Hxy Hc].
  apply Bool.eqb_prop in Hxy. subst. f_equal. apply IH; auto.
Qed.

(* ================================================================== *)
(* C. binary shift tokens                                             *)
Lemma bshift_loop_app : forall a b i cnt,
  az_bshift_loop (a ++ b) i cnt = az_bshift_loop a i cnt ++ az_bshift_loop b (i + zlength a) cnt.
Proof.
  induction a as [|x a IH]; intros b i cnt.
  - simpl. f_equal. unfold zlength. simpl. lia.
  - cbn [app az_bshift_loop]. rewrite IH. rewrite <- !app_assoc.
    replace (i + 1 + zlength a) with (i + zlength (x :: a)) by (unfold zlength; cbn [length]; lia).
    reflexivity.
Qed.

Lemma bshift_loop_plain : forall bytes i cnt, 1 <= i ->
  (cnt > 62 \/ i > 31 \/ i + zlength bytes <= 31) ->
  az_bshift_loop bytes i cnt = bytes_bits bytes.
Proof.
  induction bytes as [|b t IH]; intros i cnt Hi Hc; [reflexivity|].
  cbn [az_bshift_loop bytes_bits].
  assert (Hz : zlength (b :: t) = zlength t + 1) by (unfold zlength; cbn [length]; lia).
  destruct (i =? 0) eqn:E0; [lia|].
  assert (E1 : (i =? 31) && (cnt <=? 62) = false).
  { destruct (i =? 31) eqn:E; [|reflexivity]. destruct (cnt <=? 62) eqn:E'; [|reflexivity].
    pose proof (Zle_0_nat (length t)). unfold zlength in *. lia. }
  rewrite E1. cbn [orb app]. rewrite IH; [reflexivity | lia | lia].
Qed.

Lemma sp_run_step f m X : X <> [] ->
  sp_run (S f) m X =
  match sp_step m X with
  | SEmit out m' rest =>
    match sp_run f m' rest with Some (o, mf) => Some (out ++ o, mf) | None => None end
  | _ => None
  end.
Proof. destruct X; [congruence | reflexivity]. Qed.

Lemma hdr_nonempty R : msb_bits 5 31 ++ R <> [].
Proof. cbn [msb_bits app]. discriminate. Qed.

Section BinShift.
Variable m : smode.
Hypothesis Hwidth : sp_width m = 5%nat.
Hypothesis Hcode : nth_error (sp_tbl m) 31 = Some BinShift.

Lemma step_binshift_short : forall bs C, Forall is_byte bs -> 1 <= zlength bs <= 31 ->
  sp_step m (msb_bits 5 31 ++ msb_bits 5 (zlength bs) ++ bytes_bits bs ++ C) = SEmit bs m C.
Proof.
  intros bs C HF Hl. unfold sp_step. rewrite Hwidth.
  rewrite sp_rd_msb by (simpl; lia). change (Z.to_nat 31) with 31%nat. rewrite Hcode.
  unfold sp_binshift. rewrite sp_rd_msb by (simpl; lia).
  destruct (zlength bs =? 0) eqn:E; [lia|].
  unfold sp_bytes. unfold zlength. rewrite Nat2Z.id. rewrite sp_rd_bytes_bits by exact HF. reflexivity.
Qed.

Lemma step_binshift_long : forall bs C, Forall is_byte bs -> 63 <= zlength bs <= 2078 ->
  sp_step m (msb_bits 5 31 ++ msb_bits 16 (zlength bs - 31) ++ bytes_bits bs ++ C) = SEmit bs m C.
Proof.
  intros bs C HF Hl. unfold sp_step. rewrite Hwidth.
  rewrite sp_rd_msb by (simpl; lia). change (Z.to_nat 31) with 31%nat. rewrite Hcode.
  unfold sp_binshift. rewrite ff_len16 by lia. rewrite <- app_assoc.
  rewrite sp_rd_msb by (simpl; lia). cbn [Z.eqb].
  rewrite sp_rd_msb by (simpl; lia).
  unfold sp_bytes. replace (zlength bs - 31 + 31) with (zlength bs) by lia.
  unfold zlength. rewrite Nat2Z.id. rewrite sp_rd_bytes_bits by exact HF. reflexivity.
Qed.

(* the bits of a binary-shift token run the decoder through exactly its bytes *)
Lemma run_bshift : forall bs, Forall is_byte bs -> 1 <= zlength bs <= 2078 ->
  sp_run 4 m (az_bshift_loop bs 0 (zlength bs)) = Some (bs, m).
Proof.
  intros bs HF Hl.
  destruct (Z_le_gt_dec (zlength bs) 31) as [H31|H31].
  - (* one header, 5-bit length *)
    destruct bs as [|b t]; [unfold zlength in Hl; simpl in Hl; lia|].
    assert (Hz : zlength (b :: t) = zlength t + 1) by (unfold zlength; cbn [length]; lia).
    cbn [az_bshift_loop]. cbn [Z.eqb orb].
    destruct (zlength (b :: t) >? 62) eqn:E62; [lia|].
    assert (Hhdr : (if zlength (b :: t) <? 31 then msb_bits 5 (zlength (b :: t)) else msb_bits 5 31)
                   = msb_bits 5 (zlength (b :: t))).
    { destruct (zlength (b :: t) <? 31) eqn:E; [reflexivity|]. f_equal. lia. }
    rewrite Hhdr. rewrite bshift_loop_plain by lia.
    change (msb_bits 8 b ++ bytes_bits t) with (bytes_bits (b :: t)).
    rewrite <- app_assoc.
    pose proof (step_binshift_short (b :: t) [] HF ltac:(lia)) as Hs. rewrite app_nil_r in Hs.
    rewrite sp_run_step by apply hdr_nonempty.
    rewrite Hs. cbn [sp_run]. rewrite app_nil_r. reflexivity.
  - destruct (Z_le_gt_dec (zlength bs) 62) as [H62|H62].
    + (* two headers: 31 bytes, then the rest *)
      set (p1 := firstn 31 bs). set (p2 := skipn 31 bs).
      assert (Hsplit : bs = p1 ++ p2) by (symmetry; apply firstn_skipn).
      assert (Hl1 : zlength p1 = 31) by (unfold zlength, p1 in *; rewrite firstn_length; lia).
      assert (Hl2 : zlength p2 = zlength bs - 31) by (unfold zlength, p2 in *; rewrite skipn_length; lia).
      assert (HF1 : Forall is_byte p1) by (rewrite Hsplit in HF; apply Forall_app in HF; tauto).
      assert (HF2 : Forall is_byte p2) by (rewrite Hsplit in HF; apply Forall_app in HF; tauto).
      set (cnt := zlength bs) in *.
      rewrite Hsplit at 1. rewrite bshift_loop_app, Hl1.
      (* first part *)
      assert (H1 : az_bshift_loop p1 0 cnt = msb_bits 5 31 ++ msb_bits 5 (zlength p1) ++ bytes_bits p1).
      { destruct p1 as [|b t]; [unfold zlength in Hl1; simpl in Hl1; lia|].
        assert (Hz : zlength (b :: t) = zlength t + 1) by (unfold zlength; cbn [length]; lia).
        cbn [az_bshift_loop]. cbn [Z.eqb orb].
        destruct (cnt >? 62) eqn:E62; [lia|]. destruct (cnt <? 31) eqn:E31; [lia|].
        rewrite bshift_loop_plain by lia. rewrite Hl1. rewrite <- app_assoc. reflexivity. }
      assert (H2 : az_bshift_loop p2 (0 + 31) cnt = msb_bits 5 31 ++ msb_bits 5 (zlength p2) ++ bytes_bits p2).
      { destruct p2 as [|b t]; [unfold zlength in Hl2; simpl in Hl2; lia|].
        assert (Hz : zlength (b :: t) = zlength t + 1) by (unfold zlength; cbn [length]; lia).
        cbn [az_bshift_loop]. change (0 + 31 =? 0) with false. change (0 + 31 =? 31) with true.
        destruct (cnt <=? 62) eqn:E62'; [|lia]. cbn [andb orb].
        destruct (cnt >? 62) eqn:E62; [lia|].
        rewrite bshift_loop_plain by lia. rewrite Hl2. rewrite <- app_assoc. reflexivity. }
      rewrite H1, H2.
      pose proof (step_binshift_short p1 (msb_bits 5 31 ++ msb_bits 5 (zlength p2) ++ bytes_bits p2)
                    HF1 ltac:(lia)) as Hs1.
      pose proof (step_binshift_short p2 [] HF2 ltac:(lia)) as Hs2. rewrite app_nil_r in Hs2.
      rewrite <- !app_assoc.
      rewrite sp_run_step by apply hdr_nonempty. rewrite Hs1.
      rewrite sp_run_step by apply hdr_nonempty. rewrite Hs2.
      cbn [sp_run]. rewrite app_nil_r, <- Hsplit. reflexivity.
    + (* one header, 16-bit length *)
      destruct bs as [|b t]; [unfold zlength in Hl; simpl in Hl; lia|].
      assert (Hz : zlength (b :: t) = zlength t + 1) by (unfold zlength; cbn [length]; lia).
      cbn [az_bshift_loop]. cbn [Z.eqb orb].
      destruct (zlength (b :: t) >? 62) eqn:E62; [|lia].
      rewrite bshift_loop_plain by lia.
      change (msb_bits 8 b ++ bytes_bits t) with (bytes_bits (b :: t)).
      rewrite <- app_assoc.
      pose proof (step_binshift_long (b :: t) [] HF ltac:(lia)) as Hs. rewrite app_nil_r in Hs.
      rewrite sp_run_step by apply hdr_nonempty.
      rewrite Hs. cbn [sp_run]. rewrite app_nil_r. reflexivity.
Qed.

End BinShift.

(* ================================================================== *)
(* D. token lists                                                      *)
Lemma tokens_bits_acc text : forall toks acc,
  az_tokens_bits text toks acc = (do B <- az_tokens_bits text toks []; Ok (B ++ acc)).
Proof.
  induction toks as [|t toks IH]; intros acc; cbn [az_tokens_bits].
  - reflexivity.
  - destruct (az_token_bits text t) as [b| | |]; cbn [obind]; auto.
    rewrite IH. rewrite (IH (b ++ [])).
    destruct (az_tokens_bits text toks []); cbn [obind]; auto.
    rewrite app_nil_r, app_assoc. reflexivity.
Qed.

Lemma tokens_bits_cons text t toks B b :
  az_tokens_bits text toks [] = Ok B -> az_token_bits text t = Ok b ->
  az_tokens_bits text (t :: toks) [] = Ok (B ++ b).
Proof.
  intros HB Hb. cbn [az_tokens_bits]. rewrite Hb. cbn [obind].
  rewrite tokens_bits_acc, HB. cbn [obind]. rewrite app_nil_r. reflexivity.
Qed.

Lemma zlength_app {A} (a b : list A) : zlength (a ++ b) = zlength a + zlength b.
Proof. unfold zlength. rewrite app_length. lia. Qed.

Lemma zlength_nil_inv {A} (l : list A) : zlength l = 0 -> l = [].
Proof. destruct l; unfold zlength; simpl; [auto | lia]. Qed.

Lemma zlength_nonneg {A} (l : list A) : 0 <= zlength l.
Proof. unfold zlength. lia. Qed.

(* ================================================================== *)
(* E. the invariant of the state-list search                           *)
Section HL.
Variable text : list Z.
Hypothesis Htext : Forall is_byte text.

Definition dec_ok (B : list bool) (pre : list Z) (m : Z) : Prop :=
  forall C, sp_dec_from SUpper (B ++ C) = lift pre (sp_dec_from (mode_of m) C).

Lemma dec_ok_ext B pre m X out m' f :
  dec_ok B pre m -> sp_run f (mode_of m) X = Some (out, mode_of m') ->
  dec_ok (B ++ X) (pre ++ out) m'.
Proof.
  intros HB HX C. rewrite <- app_assoc. rewrite HB.
  rewrite (sp_run_compose _ _ _ _ _ HX C). apply lift_lift.
Qed.

Record InvB (bound : Z) (pre : list Z) (s : state) : Prop := mkInv {
  inv_mode : 0 <= st_mode s <= 4;
  inv_bs_range : 0 <= st_bshift s <= bound;
  inv_bs_mode : 0 < st_bshift s -> st_mode s = 0 \/ st_mode s = 1 \/ st_mode s = 3;
  inv_bits : 0 <= st_bits s <= 32 * zlength pre;
  inv_sem : exists pre1 pend B,
      pre = pre1 ++ pend /\ zlength pend = st_bshift s /\
      az_tokens_bits text (st_tokens s) [] = Ok B /\ dec_ok B pre1 (st_mode s)
}.

Lemma inv_weaken b b' pre s : b <= b' -> InvB b pre s -> InvB b' pre s.
Proof. intros Hb [H1 H2 H3 H4 H5]. constructor; auto. lia. Qed.

Lemma inv_initial : InvB 0 [] az_initial_state.
Proof.
  constructor; unfold az_initial_state; cbn [st_mode st_bshift st_bits st_tokens]; unfold M_UPPER.
  - lia.
  - lia.
  - lia.
  - change (zlength (@nil Z)) with 0. lia.
  - exists (@nil Z), (@nil Z), (@nil bool). repeat split; auto.
    intros C. cbn [app st_mode az_initial_state]. rewrite lift_nil. reflexivity.
Qed.

(* endBinaryShift *)
Lemma inv_flush pre rest s : text = pre ++ rest -> InvB 2078 pre s ->
  InvB 0 pre (az_end_binary_shift s (zlength pre))
  /\ st_mode (az_end_binary_shift s (zlength pre)) = st_mode s
  /\ st_bshift (az_end_binary_shift s (zlength pre)) = 0.
Proof.
  intros Ht [H1 H2 H3 H4 (pre1 & pend & B & Hp & Hl & HB & Hd)].
  unfold az_end_binary_shift. destruct (st_bshift s =? 0) eqn:E.
  - split; [|split; [reflexivity | lia]].
    constructor; auto; try lia. exists pre1, pend, B. auto.
  - cbn [st_mode st_bshift]. split; [|split; reflexivity].
    assert (Hc : 0 < st_bshift s) by lia.
    assert (Hbytes : Forall is_byte pend).
    { rewrite Ht, Hp in Htext. apply Forall_app in Htext. destruct Htext as [Ha _].
      apply Forall_app in Ha. tauto. }
    assert (Htok : az_token_bits text (TShift (zlength pre - st_bshift s) (st_bshift s))
                   = Ok (az_bshift_loop pend 0 (zlength pend))).
    { cbn [az_token_bits]. unfold az_bshift_bits.
      destruct (st_bshift s <=? 0) eqn:E1; [lia|].
      assert (Hstart : zlength pre - st_bshift s = zlength pre1) by (rewrite Hp, zlength_app; lia).
      rewrite Hstart.
      assert (Hlen : zlength text = zlength pre1 + zlength pend + zlength rest)
        by (rewrite Ht, Hp, !zlength_app; lia).
      pose proof (zlength_nonneg pre1). pose proof (zlength_nonneg rest).
      destruct (zlength pre1 <? 0) eqn:E2; [lia|].
      destruct (zlength text <? zlength pre1 + st_bshift s) eqn:E3; [lia|]. cbn [orb].
      rewrite Ht, Hp, <- app_assoc. unfold zlength at 1. rewrite Nat2Z.id.
      rewrite skipn_app, skipn_all, Nat.sub_diag. cbn [skipn app].
      rewrite <- Hl. unfold zlength at 1. rewrite Nat2Z.id.
      rewrite firstn_app, firstn_all, Nat.sub_diag. cbn [firstn]. rewrite app_nil_r.
      rewrite Hl. reflexivity. }
    destruct (ff_bs_code (st_mode s) (H3 Hc)) as [Hw Hcd].
    pose proof (run_bshift (mode_of (st_mode s)) Hw Hcd pend Hbytes ltac:(lia)) as Hrun.
    constructor; cbn [st_mode st_bshift st_bits st_tokens]; auto; try lia.
    exists pre, [], (B ++ az_bshift_loop pend 0 (zlength pend)).
    split; [rewrite app_nil_r; reflexivity|]. split; [reflexivity|].
    split; [apply tokens_bits_cons; auto|].
    rewrite Hp. eapply dec_ok_ext; eauto.
Qed.

(* a state without pending binary bytes *)
Lemma inv0_sem pre s : InvB 0 pre s ->
  exists B, az_tokens_bits text (st_tokens s) [] = Ok B /\ dec_ok B pre (st_mode s).
Proof.
  intros [H1 H2 H3 H4 (pre1 & pend & B & Hp & Hl & HB & Hd)].
  assert (pend = []) by (apply zlength_nil_inv; lia). subst pend. rewrite app_nil_r in Hp. subst pre1.
  eauto.
Qed.

(* latchAndAppend *)
Lemma inv_latch pre out s m' v f : InvB 0 pre s -> 0 <= m' <= 4 -> 1 <= zlength out ->
  sp_run f (mode_of (st_mode s)) (az_latch_bits (st_mode s) m' ++ code_bits m' v)
    = Some (out, mode_of m') ->
  InvB 0 (pre ++ out) (az_latch_and_append s m' v).
Proof.
  intros HI Hm Ho Hrun. destruct (inv0_sem _ _ HI) as (B & HB & Hd).
  destruct HI as [H1 H2 H3 H4 _].
  pose proof (az_latch_table_iso (st_mode s) m' H1 Hm) as Hle. unfold latch_entry_ok in Hle.
  repeat (apply andb_true_iff in Hle; let H := fresh "Hle" in destruct Hle as [Hle H]).
  assert (Hbc : 4 <= az_bitcount m' <= 5) by (unfold az_bitcount; destruct (m' =? M_DIGIT); lia).
  unfold az_latch_and_append. constructor; cbn [st_mode st_bshift st_bits st_tokens]; auto; try lia.
  - rewrite zlength_app. destruct (m' =? st_mode s); lia.
  - exists (pre ++ out), [], (B ++ az_latch_bits (st_mode s) m' ++ code_bits m' v).
    split; [rewrite app_nil_r; reflexivity|]. split; [reflexivity|].
    split; [|eapply dec_ok_ext; eauto].
    unfold az_latch_bits, code_bits. destruct (m' =? st_mode s) eqn:E.
    + cbn [app]. apply tokens_bits_cons; auto.
    + rewrite app_assoc. apply tokens_bits_cons; [|reflexivity].
      apply tokens_bits_cons; auto.
Qed.

(* shiftAndAppend *)
Lemma inv_shift pre out s m' v f : InvB 0 pre s -> 1 <= zlength out ->
  sp_run f (mode_of (st_mode s))
         (code_bits (st_mode s) (az_shift_val (st_mode s) m') ++ msb_bits 5 v)
    = Some (out, mode_of (st_mode s)) ->
  InvB 0 (pre ++ out) (az_shift_and_append s m' v).
Proof.
  intros HI Ho Hrun. destruct (inv0_sem _ _ HI) as (B & HB & Hd).
  destruct HI as [H1 H2 H3 H4 _].
  assert (Hbc : 4 <= az_bitcount (st_mode s) <= 5)
    by (unfold az_bitcount; destruct (st_mode s =? M_DIGIT); lia).
  unfold az_shift_and_append. constructor; cbn [st_mode st_bshift st_bits st_tokens]; auto; try lia.
  - rewrite zlength_app. lia.
  - exists (pre ++ out), [], (B ++ code_bits (st_mode s) (az_shift_val (st_mode s) m') ++ msb_bits 5 v).
    split; [rewrite app_nil_r; reflexivity|]. split; [reflexivity|].
    split; [|eapply dec_ok_ext; eauto].
    rewrite app_assoc. apply tokens_bits_cons; [|reflexivity].
    apply tokens_bits_cons; auto.
Qed.

(* addBinaryShiftChar *)
Lemma inv_binary pre ch rest s : text = pre ++ ch :: rest -> InvB 2077 pre s ->
  InvB 2077 (pre ++ [ch]) (az_add_binary_shift_char s (zlength pre)).
Proof.
  intros Ht [H1 H2 H3 H4 (pre1 & pend & B & Hp & Hl & HB & Hd)].
  unfold az_add_binary_shift_char. unfold M_UPPER, M_PUNCT, M_DIGIT.
  remember ((st_mode s =? 4) || (st_mode s =? 2)) as to_upper eqn:Eu.
  remember (az_latch (st_mode s) 0) as latch eqn:El.
  remember (if (st_bshift s =? 0) || (st_bshift s =? 31) then 18
            else if st_bshift s =? 62 then 9 else 8) as delta eqn:Ed.
  assert (Hdelta : 0 <= delta <= 18).
  { subst delta. destruct ((st_bshift s =? 0) || (st_bshift s =? 31)); [lia|].
    destruct (st_bshift s =? 62); lia. }
  clear Ed.
  cbn [st_bshift].
  remember {| st_mode := if to_upper then 0 else st_mode s;
              st_tokens := if to_upper
                           then TSimple (Z.land latch 65535) (Z.shiftr latch 16 mod 256) :: st_tokens s
                           else st_tokens s;
              st_bshift := st_bshift s + 1;
              st_bits := (if to_upper then st_bits s + Z.shiftr latch 16 else st_bits s) + delta |}
    as result eqn:Er.
  pose proof (az_latch_table_iso (st_mode s) 0 H1 ltac:(lia)) as Hle. unfold latch_entry_ok in Hle.
  repeat (apply andb_true_iff in Hle; let H := fresh "Hle" in destruct Hle as [Hle H]).
  rewrite <- El in Hle0, Hle1, Hle2.
  assert (Hres : InvB 2078 (pre ++ [ch]) result).
  { subst result. constructor; cbn [st_mode st_bshift st_bits st_tokens].
    - destruct to_upper; lia.
    - lia.
    - intros _. destruct (st_mode s =? 4) eqn:E4; cbn [orb] in Eu; subst to_upper; [lia|].
      destruct (st_mode s =? 2) eqn:E2; lia.
    - rewrite zlength_app. change (zlength [ch]) with 1. destruct to_upper; lia.
    - exists pre1, (pend ++ [ch]).
      destruct to_upper eqn:Eu'.
      + exists (B ++ az_latch_bits (st_mode s) 0).
        split; [rewrite Hp, app_assoc; reflexivity|].
        split; [rewrite zlength_app; change (zlength [ch]) with 1; lia|].
        assert (Hne : (0 =? st_mode s) = false) by lia.
        split.
        * unfold az_latch_bits, az_entry_bits. rewrite Hne, <- El. apply tokens_bits_cons; auto.
        * rewrite <- (app_nil_r pre1). eapply dec_ok_ext; [exact Hd|].
          apply run_is_eq. exact Hle3.
      + exists B. split; [rewrite Hp, app_assoc; reflexivity|].
        split; [rewrite zlength_app; change (zlength [ch]) with 1; lia|]. auto. }
  assert (Hbs : st_bshift result = st_bshift s + 1) by (subst result; reflexivity).
  destruct (st_bshift s + 1 =? 2047 + 31) eqn:E.
  - assert (Ht' : text = (pre ++ [ch]) ++ rest) by (rewrite <- app_assoc; exact Ht).
    destruct (inv_flush (pre ++ [ch]) rest result Ht' Hres) as (HI & _ & _).
    replace (zlength pre + 1) with (zlength (pre ++ [ch]))
      by (rewrite zlength_app; reflexivity).
    eapply inv_weaken; [|exact HI]. lia.
  - destruct Hres as [R1 R2 R3 R4 R5]. constructor; auto. rewrite Hbs in *. lia.
Qed.

Lemma cm_nonneg m ch : 0 <= m <= 4 -> 0 <= ch < 256 -> 0 <= az_cm m ch.
Proof.
  intros Hm Hc. pose proof (az_char_map_iso m ch Hm Hc) as H. unfold cm_entry_ok in H.
  destruct (az_cm m ch >? 0) eqn:E; lia.
Qed.

(* updateStateForChar *)
Lemma inv_update_char pre ch rest s : text = pre ++ ch :: rest -> InvB 2077 pre s ->
  Forall (InvB 2077 (pre ++ [ch])) (az_update_state_for_char s ch (zlength pre))
  /\ az_update_state_for_char s ch (zlength pre) <> [].
Proof.
  intros Ht HI.
  assert (Hch : is_byte ch).
  { rewrite Ht in Htext. apply Forall_app in Htext. destruct Htext as [_ Hc].
    apply Forall_inv in Hc. exact Hc. }
  destruct (inv_flush pre (ch :: rest) s Ht (inv_weaken 2077 2078 _ _ ltac:(lia) HI))
    as (Hsnb & Hmode & _).
  pose proof (inv_mode _ _ _ HI) as Hm.
  unfold az_update_state_for_char.
  set (snb := az_end_binary_shift s (zlength pre)) in *.
  split.
  - apply Forall_forall. intros s' Hin. apply in_app_or in Hin. destruct Hin as [Hin|Hin].
    + apply in_flat_map in Hin. destruct Hin as (mode & Hmode_in & Hin).
      assert (Hmd : 0 <= mode <= 4).
      { unfold M_UPPER, M_LOWER, M_DIGIT, M_MIXED, M_PUNCT in Hmode_in. simpl in Hmode_in. lia. }
      destruct (az_cm mode ch >? 0) eqn:Ecm; [|destruct Hin].
      apply in_app_or in Hin. destruct Hin as [Hin|Hin].
      * destruct (negb (az_cm (st_mode s) ch >? 0) || (mode =? st_mode s) || (mode =? M_DIGIT));
          [|destruct Hin].
        destruct Hin as [<-|[]].
        apply (inv_weaken 0); [lia|].
        apply (inv_latch pre [ch] snb mode (az_cm mode ch) 8 Hsnb Hmd); [reflexivity|].
        rewrite Hmode. pose proof (ff_latch_all (st_mode s) mode ch Hm Hmd Hch) as Hf.
        unfold ff_latch in Hf. rewrite Ecm in Hf. apply run_is_eq. exact Hf.
      * destruct (az_shift (st_mode s) mode) as [sv|] eqn:Esh;
          [|rewrite andb_false_r in Hin; destruct Hin].
        destruct (negb (az_cm (st_mode s) ch >? 0)); cbn [andb az_is_some] in Hin; [|destruct Hin].
        destruct Hin as [<-|[]].
        apply (inv_weaken 0); [lia|].
        apply (inv_shift pre [ch] snb mode (az_cm mode ch) 8 Hsnb); [reflexivity|].
        rewrite Hmode. pose proof (ff_shift_all (st_mode s) mode ch Hm Hmd Hch) as Hf.
        unfold ff_shift in Hf. unfold az_shift_val. rewrite Esh in Hf |- *. rewrite Ecm in Hf.
        apply run_is_eq. exact Hf.
    + destruct ((st_bshift s >? 0) || (az_cm (st_mode s) ch =? 0)); [|destruct Hin].
      destruct Hin as [<-|[]]. eapply inv_binary; eauto.
  - destruct (az_cm (st_mode s) ch =? 0) eqn:E0.
    + rewrite orb_true_r. intros Hnil. apply app_eq_nil in Hnil. destruct Hnil as [_ Hnil]. discriminate.
    + pose proof (cm_nonneg (st_mode s) ch Hm Hch) as Hnn.
      assert (Hpos : az_cm (st_mode s) ch >? 0 = true) by lia.
      intros Hnil. apply app_eq_nil in Hnil. destruct Hnil as [Hnil _].
      assert (Hin : In (az_latch_and_append snb (st_mode s) (az_cm (st_mode s) ch))
                       (flat_map
                          (fun mode : Z =>
                           if az_cm mode ch >? 0
                           then
                            (if negb (az_cm (st_mode s) ch >? 0) || (mode =? st_mode s) || (mode =? M_DIGIT)
                             then [az_latch_and_append snb mode (az_cm mode ch)]
                             else []) ++
                            (if negb (az_cm (st_mode s) ch >? 0) && az_is_some (az_shift (st_mode s) mode)
                             then [az_shift_and_append snb mode (az_cm mode ch)]
                             else [])
                           else []) [M_UPPER; M_LOWER; M_DIGIT; M_MIXED; M_PUNCT])).
      { apply in_flat_map. exists (st_mode s). split.
        - unfold M_UPPER, M_LOWER, M_DIGIT, M_MIXED, M_PUNCT. simpl. lia.
        - rewrite Hpos, Z.eqb_refl. cbn [negb orb app]. left. reflexivity. }
      rewrite Hnil in Hin. destruct Hin.
Qed.

Lemma pair_code_bytes c1 c2 : 0 < az_pair_code c1 c2 ->
  2 <= az_pair_code c1 c2 <= 5 /\ pair_bytes (az_pair_code c1 c2) = [c1; c2].
Proof.
  unfold az_pair_code.
  destruct ((c1 =? 13) && (c2 =? 10)) eqn:E1; [intros _; split; [lia|]; cbn; f_equal; [|f_equal]; lia|].
  destruct ((c1 =? 46) && (c2 =? 32)) eqn:E2; [intros _; split; [lia|]; cbn; f_equal; [|f_equal]; lia|].
  destruct ((c1 =? 44) && (c2 =? 32)) eqn:E3; [intros _; split; [lia|]; cbn; f_equal; [|f_equal]; lia|].
  destruct ((c1 =? 58) && (c2 =? 32)) eqn:E4; [intros _; split; [lia|]; cbn; f_equal; [|f_equal]; lia|].
  lia.
Qed.

(* updateStateForPair *)
Lemma inv_update_pair pre c1 c2 rest s pc :
  text = pre ++ c1 :: c2 :: rest -> pc = az_pair_code c1 c2 -> 0 < pc -> InvB 2077 pre s ->
  Forall (InvB 2077 (pre ++ [c1; c2])) (az_update_state_for_pair s (zlength pre) pc)
  /\ az_update_state_for_pair s (zlength pre) pc <> [].
Proof.
  intros Ht Hpc Hpos HI. subst pc.
  destruct (pair_code_bytes c1 c2 Hpos) as [Hrange Hbytes].
  set (pc := az_pair_code c1 c2) in *.
  assert (Hb12 : is_byte c1 /\ is_byte c2).
  { rewrite Ht in Htext. apply Forall_app in Htext. destruct Htext as [_ Hc].
    inversion Hc as [|? ? Hc1 Hc']; subst. inversion Hc' as [|? ? Hc2 _]; subst. auto. }
  destruct (inv_flush pre (c1 :: c2 :: rest) s Ht (inv_weaken 2077 2078 _ _ ltac:(lia) HI))
    as (Hsnb & Hmode & _).
  pose proof (inv_mode _ _ _ HI) as Hm.
  pose proof (ff_pair_all (st_mode s) pc Hm Hrange) as Hfp. unfold ff_pair in Hfp.
  apply andb_true_iff in Hfp. destruct Hfp as [Hfp1 Hfp2].
  unfold az_update_state_for_pair.
  set (snb := az_end_binary_shift s (zlength pre)) in *.
  split; [|discriminate].
  apply Forall_forall. intros s' Hin. cbn [app] in Hin.
  destruct Hin as [<-|Hin].
  { apply (inv_weaken 0); [lia|].
    apply (inv_latch pre [c1; c2] snb 4 pc 8 Hsnb ltac:(lia)); [unfold zlength; simpl; lia|].
    rewrite Hmode, <- Hbytes. apply run_is_eq. exact Hfp1. }
  apply in_app_or in Hin. destruct Hin as [Hin|Hin].
  { unfold M_PUNCT in Hin. destruct (st_mode s =? 4) eqn:E4; cbn [negb] in Hin; [destruct Hin|].
    destruct Hin as [<-|[]].
    apply (inv_weaken 0); [lia|].
    apply (inv_shift pre [c1; c2] snb 4 pc 8 Hsnb); [unfold zlength; simpl; lia|].
    rewrite Hmode, <- Hbytes. apply run_is_eq. cbn [orb] in Hfp2. exact Hfp2. }
  apply in_app_or in Hin. destruct Hin as [Hin|Hin].
  { destruct ((pc =? 3) || (pc =? 4)) eqn:E34; [|destruct Hin].
    destruct Hin as [<-|[]].
    destruct ff_digit_codes as (D46 & D44 & D32).
    assert (Hc2 : c2 = 32).
    { unfold pair_bytes in Hbytes. destruct (pc =? 2) eqn:P2; [lia|].
      destruct (pc =? 3) eqn:P3; [inversion Hbytes; auto|].
      destruct (pc =? 4) eqn:P4; inversion Hbytes; auto. }
    assert (Hv1 : 16 - pc = az_cm 2 c1).
    { unfold pair_bytes in Hbytes. destruct (pc =? 2) eqn:P2; [lia|].
      destruct (pc =? 3) eqn:P3; [inversion Hbytes; subst c1; rewrite D46; lia|].
      destruct (pc =? 4) eqn:P4; [inversion Hbytes; subst c1; rewrite D44; lia|]. lia. }
    apply (inv_weaken 0); [lia|].
    replace (pre ++ [c1; c2]) with ((pre ++ [c1]) ++ [c2]) by (rewrite <- app_assoc; reflexivity).
    assert (H1 : InvB 0 (pre ++ [c1]) (az_latch_and_append snb M_DIGIT (16 - pc))).
    { apply (inv_latch pre [c1] snb 2 (16 - pc) 8 Hsnb ltac:(lia)); [reflexivity|].
      rewrite Hmode, Hv1.
      pose proof (ff_latch_all (st_mode s) 2 c1 Hm ltac:(lia) (proj1 Hb12)) as Hf.
      unfold ff_latch in Hf. assert (Hp : az_cm 2 c1 >? 0 = true) by lia. rewrite Hp in Hf.
      apply run_is_eq. exact Hf. }
    apply (inv_latch (pre ++ [c1]) [c2] _ 2 1 8 H1 ltac:(lia)); [reflexivity|].
    cbn [st_mode az_latch_and_append]. subst c2. rewrite <- D32.
    pose proof (ff_latch_all 2 2 32 ltac:(lia) ltac:(lia) ltac:(unfold is_byte; lia)) as Hf.
    unfold ff_latch in Hf. assert (Hp : az_cm 2 32 >? 0 = true) by (rewrite D32; reflexivity).
    rewrite Hp in Hf. apply run_is_eq. exact Hf. }
  destruct (st_bshift s >? 0); [|destruct Hin].
  destruct Hin as [<-|[]].
  replace (pre ++ [c1; c2]) with ((pre ++ [c1]) ++ [c2]) by (rewrite <- app_assoc; reflexivity).
  replace (zlength pre + 1) with (zlength (pre ++ [c1])) by (rewrite zlength_app; reflexivity).
  apply (inv_binary (pre ++ [c1]) c2 rest); [rewrite <- app_assoc; exact Ht|].
  apply (inv_binary pre c1 (c2 :: rest)); auto.
Qed.

(* simplifyStates keeps a non-empty sub-list *)
Lemma simplify_inner_sub (P : state -> Prop) newState : forall olds add,
  Forall P olds -> Forall P (snd (az_simplify_inner newState olds add)).
Proof.
  induction olds as [|old t IH]; intros add HF; cbn [az_simplify_inner]; [constructor|].
  inversion HF as [|? ? Ho Ht]; subst.
  set (add1 := if add && az_is_better old newState then false else add).
  specialize (IH add1 Ht). destruct (az_simplify_inner newState t add1) as [add2 rest].
  cbn [snd] in *. destruct (negb (add1 && az_is_better newState old)); auto.
Qed.

Lemma simplify_inner_nonempty newState : forall olds,
  fst (az_simplify_inner newState olds true) = false ->
  snd (az_simplify_inner newState olds true) <> [].
Proof.
  induction olds as [|old t IH]; cbn [az_simplify_inner]; [cbn; discriminate|].
  cbn [andb]. destruct (az_is_better old newState) eqn:Eb.
  - destruct (az_simplify_inner newState t false) as [add2 rest]. cbn [andb negb fst snd].
    intros _. discriminate.
  - destruct (az_simplify_inner newState t true) as [add2 rest] eqn:E. cbn [fst snd] in *.
    intros H2. specialize (IH H2). destruct (negb (true && az_is_better newState old)); [discriminate | exact IH].
Qed.

Lemma simplify_loop_inv (P : state -> Prop) : forall states result,
  Forall P states -> Forall P result -> Forall P (az_simplify_loop states result).
Proof.
  induction states as [|s t IH]; intros result HS HR; cbn [az_simplify_loop]; auto.
  inversion HS as [|? ? Hs Ht]; subst.
  pose proof (simplify_inner_sub P s result true HR) as Hsub.
  destruct (az_simplify_inner s result true) as [add newResult]. cbn [snd] in Hsub.
  apply IH; auto. destruct add; auto. apply Forall_app. split; auto.
Qed.

Lemma simplify_loop_nonempty : forall states result,
  result <> [] -> az_simplify_loop states result <> [].
Proof.
  induction states as [|s t IH]; intros result HR; cbn [az_simplify_loop]; auto.
  pose proof (simplify_inner_nonempty s result) as Hne.
  destruct (az_simplify_inner s result true) as [add newResult]. cbn [fst snd] in Hne.
  apply IH. destruct add.
  - intros H. apply app_eq_nil in H. destruct H; discriminate.
  - apply Hne. reflexivity.
Qed.

Lemma simplify_states_inv (P : state -> Prop) states :
  Forall P states -> states <> [] ->
  Forall P (az_simplify_states states) /\ az_simplify_states states <> [].
Proof.
  intros HF Hne. unfold az_simplify_states. split; [apply simplify_loop_inv; auto|].
  destruct states as [|s t]; [congruence|]. cbn [az_simplify_loop az_simplify_inner].
  apply simplify_loop_nonempty. discriminate.
Qed.

Lemma flat_map_inv {A} (P Q : A -> Prop) (f : A -> list A) l :
  (forall x, P x -> Forall Q (f x) /\ f x <> []) -> Forall P l -> l <> [] ->
  Forall Q (flat_map f l) /\ flat_map f l <> [].
Proof.
  intros Hf HF Hne. split.
  - apply Forall_forall. intros y Hy. apply in_flat_map in Hy. destruct Hy as (x & Hx & Hy).
    rewrite Forall_forall in HF. destruct (Hf x (HF x Hx)) as [H1 _].
    rewrite Forall_forall in H1. auto.
  - destruct l as [|x t]; [congruence|]. cbn [flat_map]. inversion HF; subst.
    destruct (Hf x H1) as [_ H]. intros Hc. apply app_eq_nil in Hc. tauto.
Qed.

(* the main loop *)
Lemma hl_loop_inv : forall n rest pre states, (length rest <= n)%nat ->
  text = pre ++ rest -> Forall (InvB 2077 pre) states -> states <> [] ->
  Forall (InvB 2077 text) (az_hl_loop rest (zlength pre) states)
  /\ az_hl_loop rest (zlength pre) states <> [].
Proof.
  induction n as [|n IH]; intros rest pre states Hn Ht HF Hne.
  - destruct rest; [|simpl in Hn; lia]. rewrite app_nil_r in Ht. symmetry in Ht. subst pre. cbn. auto.
  - destruct rest as [|cur rest']; [rewrite app_nil_r in Ht; symmetry in Ht; subst pre; cbn; auto|].
    assert (Hchar : forall rest1, rest' = rest1 ->
      Forall (InvB 2077 text) (az_hl_loop rest' (zlength pre + 1) (az_update_list_char states cur (zlength pre)))
      /\ az_hl_loop rest' (zlength pre + 1) (az_update_list_char states cur (zlength pre)) <> []).
    { intros rest1 _. unfold az_update_list_char.
      destruct (flat_map_inv (InvB 2077 pre) (InvB 2077 (pre ++ [cur]))
                 (fun s => az_update_state_for_char s cur (zlength pre)) states) as [F1 F2]; auto.
      { intros s Hs. eapply inv_update_char; eauto. }
      destruct (simplify_states_inv _ _ F1 F2) as [G1 G2].
      replace (zlength pre + 1) with (zlength (pre ++ [cur])) by (rewrite zlength_app; reflexivity).
      apply IH; auto; [simpl in Hn; lia | rewrite <- app_assoc; exact Ht]. }
    destruct rest' as [|nxt rest2]; [cbn [az_hl_loop]; apply (Hchar []); reflexivity|].
    cbn [az_hl_loop].
    destruct (az_pair_code cur nxt >? 0) eqn:Epc; [|apply (Hchar (nxt :: rest2)); reflexivity].
    unfold az_update_list_pair.
    destruct (flat_map_inv (InvB 2077 pre) (InvB 2077 (pre ++ [cur; nxt]))
               (fun s => az_update_state_for_pair s (zlength pre) (az_pair_code cur nxt)) states)
      as [F1 F2]; auto.
    { intros s Hs. eapply inv_update_pair; eauto. lia. }
    destruct (simplify_states_inv _ _ F1 F2) as [G1 G2].
    replace (zlength pre + 2) with (zlength (pre ++ [cur; nxt])) by (rewrite zlength_app; reflexivity).
    apply IH; auto; [simpl in Hn; lia | rewrite <- app_assoc; exact Ht].
Qed.

Lemma min_state_some : forall l minb r0,
  exists s, az_min_state l minb (Some r0) = Some s /\ (s = r0 \/ In s l).
Proof.
  induction l as [|x t IH]; intros minb r0; cbn [az_min_state].
  - exists r0. auto.
  - destruct (st_bits x <? minb).
    + destruct (IH (st_bits x) x) as (s & Hs & Hor). exists s. split; auto.
      destruct Hor as [->|Hin]; right; [left|right]; auto.
    + destruct (IH minb r0) as (s & Hs & Hor). exists s. split; auto.
      destruct Hor as [->|Hin]; [left|right; right]; auto.
Qed.

End HL.

(* ================================================================== *)
(* F. the layer theorem                                                *)
Theorem az_highlevel_correct : forall data,
  Forall is_byte data -> zlength data < 2 ^ 57 ->
  exists bits,
    az_highlevel data = Ok bits
    /\ forall k, (k <= 11)%nat -> aztec_decode_hl (bits ++ repeat true k) = Some data.
Proof.
  intros data Hb Hlen.
  destruct (hl_loop_inv data Hb (length data) data [] [az_initial_state] (Nat.le_refl _) eq_refl)
    as [HF Hne].
  { constructor; [|constructor]. eapply inv_weaken; [|apply inv_initial]. lia. }
  { discriminate. }
  change (zlength (@nil Z)) with 0 in *.
  unfold az_highlevel.
  set (states := az_hl_loop data 0 [az_initial_state]) in *.
  assert (Hmin : exists s, az_min_state states az_max_int None = Some s /\ In s states).
  { destruct states as [|x t]; [congruence|]. cbn [az_min_state].
    inversion HF as [|? ? Hx _]; subst.
    pose proof (inv_bits _ _ _ _ Hx) as Hbits.
    assert (Hlt : st_bits x <? az_max_int = true).
    { unfold az_max_int. assert (2 ^ 57 = 144115188075855872) by reflexivity. lia. }
    rewrite Hlt. destruct (min_state_some t (st_bits x) x) as (s & Hs & Hin).
    exists s. split; auto. destruct Hin as [->|Hin]; [left | right]; auto. }
  destruct Hmin as (s & Hmin & Hin). rewrite Hmin.
  rewrite Forall_forall in HF. pose proof (HF s Hin) as HI.
  destruct (inv_flush data Hb data [] s ltac:(rewrite app_nil_r; reflexivity)
              (inv_weaken data 2077 2078 _ _ ltac:(lia) HI)) as (H0 & Hmode & _).
  destruct (inv0_sem data _ _ H0) as (B & HB & Hd).
  unfold az_to_bit_list. exists B. split; [exact HB|].
  intros k Hk. unfold aztec_decode_hl. rewrite (Hd (repeat true k)).
  pose proof (inv_mode _ _ _ _ H0) as Hm.
  destruct (ff_trailing _ k Hm Hk) as (mf & Hmf). rewrite Hmf. cbn [lift]. rewrite app_nil_r. reflexivity.
Qed.
