(* C03 layer 2 -- high-level encoding (unbounded): for every byte string the
   bit stream chosen by the state-list search decodes, with the ISO decoder of
   the specification, to exactly that byte string, also when followed by up to
   11 padding ones. *)
From Verif Require Import Prelude BitListM GFM TabAztec AztecM AztecSpec AztecPBase AztecPTab.
Local Ltac Zify.zify_post_hook ::= Z.div_mod_to_equations.

(* ================================================================== *)
(* A. the specification decoder: extension by a suffix, fuel          *)
Lemma sp_rd_ext : forall k acc X v X' C,
  sp_rd k acc X = Some (v, X') -> sp_rd k acc (X ++ C) = Some (v, X' ++ C).
Proof.
  induction k as [|k IH]; intros acc X v X' C H; simpl in *.
  - inversion H; subst. reflexivity.
  - destruct X as [|b t]; [discriminate|]. simpl. apply IH. exact H.
Qed.

Lemma sp_rd_length : forall k acc X v X',
  sp_rd k acc X = Some (v, X') -> length X = (k + length X')%nat.
Proof.
  induction k as [|k IH]; intros acc X v X' H; simpl in *.
  - inversion H; subst. reflexivity.
  - destruct X as [|b t]; [discriminate|]. cbn [length]. rewrite (IH _ _ _ _ H). lia.
Qed.

Lemma sp_rd_bytes_ext : forall n X bs X' C,
  sp_rd_bytes n X = Some (bs, X') -> sp_rd_bytes n (X ++ C) = Some (bs, X' ++ C).
Proof.
  induction n as [|n IH]; intros X bs X' C H; cbn [sp_rd_bytes] in *.
  - inversion H; subst. reflexivity.
  - destruct (sp_rd 8 0 X) as [[b r]|] eqn:E; [|discriminate].
    rewrite (sp_rd_ext _ _ _ _ _ C E).
    destruct (sp_rd_bytes n r) as [[bs' r']|] eqn:E2; [|discriminate].
    rewrite (IH _ _ _ C E2). inversion H; subst. reflexivity.
Qed.

Lemma sp_rd_bytes_length : forall n X bs X',
  sp_rd_bytes n X = Some (bs, X') -> (length X' <= length X)%nat.
Proof.
  induction n as [|n IH]; intros X bs X' H; cbn [sp_rd_bytes] in *.
  - inversion H; subst. lia.
  - destruct (sp_rd 8 0 X) as [[b r]|] eqn:E; [|discriminate].
    destruct (sp_rd_bytes n r) as [[bs' r']|] eqn:E2; [|discriminate].
    inversion H; subst. apply sp_rd_length in E. apply IH in E2. lia.
Qed.

Lemma sp_bytes_ext m n X o m' X' C :
  sp_bytes m n X = SEmit o m' X' -> sp_bytes m n (X ++ C) = SEmit o m' (X' ++ C).
Proof.
  unfold sp_bytes. destruct (sp_rd_bytes (Z.to_nat n) X) as [[bs r]|] eqn:E; [|discriminate].
  intros H. inversion H; subst. rewrite (sp_rd_bytes_ext _ _ _ _ C E). reflexivity.
Qed.

Lemma sp_bytes_length m n X o m' X' :
  sp_bytes m n X = SEmit o m' X' -> (length X' <= length X)%nat.
Proof.
  unfold sp_bytes. destruct (sp_rd_bytes (Z.to_nat n) X) as [[bs r]|] eqn:E; [|discriminate].
  intros H. inversion H; subst. eapply sp_rd_bytes_length; eauto.
Qed.

Lemma sp_binshift_ext m X o m' X' C :
  sp_binshift m X = SEmit o m' X' -> sp_binshift m (X ++ C) = SEmit o m' (X' ++ C).
Proof.
  unfold sp_binshift. destruct (sp_rd 5 0 X) as [[n r]|] eqn:E; [|discriminate].
  rewrite (sp_rd_ext _ _ _ _ _ C E). destruct (n =? 0).
  - destruct (sp_rd 11 0 r) as [[n2 r2]|] eqn:E2; [|discriminate].
    rewrite (sp_rd_ext _ _ _ _ _ C E2). apply sp_bytes_ext.
  - apply sp_bytes_ext.
Qed.

Lemma sp_binshift_length m X o m' X' :
  sp_binshift m X = SEmit o m' X' -> (length X' < length X)%nat.
Proof.
  unfold sp_binshift. destruct (sp_rd 5 0 X) as [[n r]|] eqn:E; [|discriminate].
  apply sp_rd_length in E. destruct (n =? 0).
  - destruct (sp_rd 11 0 r) as [[n2 r2]|] eqn:E2; [|discriminate].
    apply sp_rd_length in E2. intros H. apply sp_bytes_length in H. lia.
  - intros H. apply sp_bytes_length in H. lia.
Qed.

Lemma sp_step_ext m X o m' X' C :
  sp_step m X = SEmit o m' X' -> sp_step m (X ++ C) = SEmit o m' (X' ++ C).
Proof.
  unfold sp_step. destruct (sp_rd (sp_width m) 0 X) as [[c r]|] eqn:E; [|discriminate].
  rewrite (sp_rd_ext _ _ _ _ _ C E).
  destruct (nth_error (sp_tbl m) (Z.to_nat c)) as [[a|a b|mm|mm| |]|]; try discriminate;
    try (intros H; inversion H; subst; reflexivity).
  - destruct (sp_rd (sp_width mm) 0 r) as [[c2 r2]|] eqn:E2; [|discriminate].
    rewrite (sp_rd_ext _ _ _ _ _ C E2).
    destruct (nth_error (sp_tbl mm) (Z.to_nat c2)) as [[a|a b|m3|m3| |]|]; try discriminate;
      try (intros H; inversion H; subst; reflexivity).
    destruct (sp_binshift mm r2); discriminate.
  - apply sp_binshift_ext.
Qed.

Lemma sp_step_length m X o m' X' :
  sp_step m X = SEmit o m' X' -> (length X' < length X)%nat.
Proof.
  unfold sp_step. destruct (sp_rd (sp_width m) 0 X) as [[c r]|] eqn:E; [|discriminate].
  apply sp_rd_length in E. assert (Hw : (4 <= sp_width m)%nat) by (destruct m; simpl; lia).
  destruct (nth_error (sp_tbl m) (Z.to_nat c)) as [[a|a b|mm|mm| |]|]; try discriminate;
    try (intros H; inversion H; subst; lia).
  - destruct (sp_rd (sp_width mm) 0 r) as [[c2 r2]|] eqn:E2; [|discriminate].
    apply sp_rd_length in E2.
    destruct (nth_error (sp_tbl mm) (Z.to_nat c2)) as [[a|a b|m3|m3| |]|]; try discriminate;
      try (intros H; inversion H; subst; lia).
    destruct (sp_binshift mm r2); discriminate.
  - intros H. apply sp_binshift_length in H. lia.
Qed.

Lemma sp_dec_fuel : forall f1 f2 m bits,
  (length bits < f1)%nat -> (length bits < f2)%nat -> sp_dec f1 m bits = sp_dec f2 m bits.
Proof.
  induction f1 as [|f1 IH]; intros f2 m bits H1 H2; [lia|].
  destruct f2 as [|f2]; [lia|]. cbn [sp_dec].
  destruct (sp_step m bits) as [o m' rest| |] eqn:E; auto.
  apply sp_step_length in E. rewrite (IH f2) by lia. reflexivity.
Qed.

Definition lift (out : list Z) (r : option (list Z * smode)) : option (list Z * smode) :=
  match r with Some (o, mf) => Some (out ++ o, mf) | None => None end.

Lemma lift_lift a b r : lift a (lift b r) = lift (a ++ b) r.
Proof. destruct r as [[o mf]|]; simpl; auto. rewrite app_assoc. reflexivity. Qed.

Lemma lift_nil r : lift [] r = r.
Proof. destruct r as [[o mf]|]; reflexivity. Qed.

(* a strict run of X composes with whatever follows *)
Lemma sp_run_compose : forall f m X out m',
  sp_run f m X = Some (out, m') ->
  forall C, sp_dec_from m (X ++ C) = lift out (sp_dec_from m' C).
Proof.
  induction f as [|f IH]; intros m X out m' H C.
  - destruct X; simpl in H; [|discriminate]. inversion H; subst. simpl. rewrite lift_nil. reflexivity.
  - destruct X as [|b t]; [simpl in H; inversion H; subst; simpl; rewrite lift_nil; reflexivity|].
    cbn [sp_run] in H.
    destruct (sp_step m (b :: t)) as [o m1 rest| |] eqn:E; try discriminate.
    destruct (sp_run f m1 rest) as [[o' mf]|] eqn:E2; [|discriminate].
    inversion H; subst. clear H.
    unfold sp_dec_from at 1. cbn [sp_dec].
    rewrite (sp_step_ext _ _ _ _ _ C E).
    pose proof (sp_step_length _ _ _ _ _ E) as Hl.
    rewrite (sp_dec_fuel _ (S (length (rest ++ C)))) by (rewrite !app_length in *; simpl in *; lia).
    fold (sp_dec_from m1 (rest ++ C)). rewrite (IH _ _ _ _ E2 C).
    destruct (sp_dec_from m' C) as [[o2 m2]|]; simpl; auto. rewrite app_assoc. reflexivity.
Qed.

(* reading a known bit string *)
Lemma sp_rd_app : forall l acc R, sp_rd (length l) acc (l ++ R) = Some (sp_val l acc, R).
Proof. induction l as [|b t IH]; intros acc R; simpl; auto. Qed.

Lemma sp_rd_msb k v R : 0 <= v < 2 ^ Z.of_nat k -> sp_rd k 0 (msb_bits k v ++ R) = Some (v, R).
Proof.
  intros Hv. pose proof (sp_rd_app (msb_bits k v) 0 R) as H.
  rewrite msb_bits_length in H. rewrite H, sp_val_msb_bits_small by exact Hv. reflexivity.
Qed.

Fixpoint bytes_bits (l : list Z) : list bool :=
  match l with [] => [] | b :: t => msb_bits 8 b ++ bytes_bits t end.

Definition is_byte (b : Z) : Prop := 0 <= b < 256.

Lemma sp_rd_bytes_bits : forall bs R, Forall is_byte bs ->
  sp_rd_bytes (length bs) (bytes_bits bs ++ R) = Some (bs, R).
Proof.
  induction bs as [|b t IH]; intros R HF; [reflexivity|].
  inversion HF as [|? ? Hb HF']; subst. cbn [length sp_rd_bytes bytes_bits].
  rewrite <- app_assoc. rewrite sp_rd_msb by (unfold is_byte in Hb; simpl; lia).
  rewrite IH by exact HF'. reflexivity.
Qed.

(* ================================================================== *)
(* B. finite facts about the generated tables (by computation)        *)
Definition pair_bytes (pc : Z) : list Z :=
  if pc =? 2 then [13; 10] else if pc =? 3 then [46; 32] else if pc =? 4 then [44; 32] else [58; 32].

Definition code_bits (m v : Z) : list bool := msb_bits (Z.to_nat (az_bitcount m)) v.

(* latch (if needed) to mode b and the code of byte ch there *)
Definition ff_latch (a b ch : Z) : bool :=
  if az_cm b ch >? 0
  then run_is (sp_run 8 (mode_of a) (az_latch_bits a b ++ code_bits b (az_cm b ch))) [ch] (mode_of b)
  else true.

(* shift to mode b, the code of ch there as 5 bits *)
Definition ff_shift (a b ch : Z) : bool :=
  match az_shift a b with
  | Some sv =>
    if az_cm b ch >? 0
    then run_is (sp_run 8 (mode_of a) (code_bits a sv ++ msb_bits 5 (az_cm b ch))) [ch] (mode_of a)
    else true
  | None => true
  end.

Definition ff_pair (a pc : Z) : bool :=
  run_is (sp_run 8 (mode_of a) (az_latch_bits a 4 ++ code_bits 4 pc)) (pair_bytes pc) SPunct
  && ((a =? 4) ||
      run_is (sp_run 8 (mode_of a) (code_bits a (az_shift_val a 4) ++ msb_bits 5 pc))
             (pair_bytes pc) (mode_of a)).

Lemma ff_latch_all : forall a b ch, 0 <= a <= 4 -> 0 <= b <= 4 -> 0 <= ch < 256 ->
  ff_latch a b ch = true.
Proof.
  assert (H : forallb (fun a => forallb (fun b => forallb (ff_latch a b) all_bytes) all_modes)
                      all_modes = true) by (vm_compute; reflexivity).
  intros a b ch Ha Hb Hch. rewrite forallb_forall in H.
  specialize (H a (in_all_modes a Ha)). rewrite forallb_forall in H.
  specialize (H b (in_all_modes b Hb)).
  apply (forallb_zseq _ _ _ H ch). simpl; lia.
Qed.

Lemma ff_shift_all : forall a b ch, 0 <= a <= 4 -> 0 <= b <= 4 -> 0 <= ch < 256 ->
  ff_shift a b ch = true.
Proof.
  assert (H : forallb (fun a => forallb (fun b => forallb (ff_shift a b) all_bytes) all_modes)
                      all_modes = true) by (vm_compute; reflexivity).
  intros a b ch Ha Hb Hch. rewrite forallb_forall in H.
  specialize (H a (in_all_modes a Ha)). rewrite forallb_forall in H.
  specialize (H b (in_all_modes b Hb)).
  apply (forallb_zseq _ _ _ H ch). simpl; lia.
Qed.

Lemma ff_pair_all : forall a pc, 0 <= a <= 4 -> 2 <= pc <= 5 -> ff_pair a pc = true.
Proof.
  assert (H : forallb (fun a => forallb (ff_pair a) (zseq 2 4)) all_modes = true)
    by (vm_compute; reflexivity).
  intros a pc Ha Hpc. rewrite forallb_forall in H.
  specialize (H a (in_all_modes a Ha)).
  apply (forallb_zseq _ _ _ H pc). simpl; lia.
Qed.

Lemma ff_digit_codes : az_cm 2 46 = 13 /\ az_cm 2 44 = 12 /\ az_cm 2 32 = 1.
Proof. repeat split; reflexivity. Qed.

Lemma ff_bs_code : forall m, m = 0 \/ m = 1 \/ m = 3 ->
  sp_width (mode_of m) = 5%nat /\ nth_error (sp_tbl (mode_of m)) 31 = Some BinShift.
Proof. intros m [-> | [-> | ->]]; split; reflexivity. Qed.

(* padding: up to 11 ones decode to nothing from every mode *)
Lemma ff_trailing : forall m k, 0 <= m <= 4 -> (k <= 11)%nat ->
  exists mf, sp_dec_from (mode_of m) (repeat true k) = Some ([], mf).
Proof.
  assert (H : forallb (fun m => forallb (fun k =>
     match sp_dec_from (mode_of m) (repeat true (Z.to_nat k)) with
     | Some ([], _) => true | _ => false end) (zseq 0 12)) all_modes = true)
    by (vm_compute; reflexivity).
  intros m k Hm Hk. rewrite forallb_forall in H. specialize (H m (in_all_modes m Hm)).
  pose proof (forallb_zseq _ _ _ H (Z.of_nat k) ltac:(simpl; lia)) as H1. cbv beta in H1.
  rewrite Nat2Z.id in H1.
  destruct (sp_dec_from (mode_of m) (repeat true k)) as [[[|x o] mf]|]; try discriminate. eauto.
Qed.

(* the 16-bit length field: 5 zero bits and the 11-bit length *)
Lemma ff_len16 : forall v, 0 <= v < 2048 -> msb_bits 16 v = msb_bits 5 0 ++ msb_bits 11 v.
Proof.
  assert (H : forallb (fun v =>
     let a := msb_bits 16 v in let b := msb_bits 5 0 ++ msb_bits 11 v in
     (length a =? length b)%nat && forallb (fun p => Bool.eqb (fst p) (snd p)) (combine a b))
     (zseq 0 2048) = true) by (vm_compute; reflexivity).
  intros v Hv. pose proof (forallb_zseq _ _ _ H v ltac:(simpl; lia)) as H1. cbv beta zeta in H1.
  apply andb_true_iff in H1. destruct H1 as [Hl Hc].
  apply Nat.eqb_eq in Hl.
  revert Hl Hc. generalize (msb_bits 16 v) (msb_bits 5 0 ++ msb_bits 11 v).
  induction l as [|x l IH]; intros [|y l'] Hl Hc; simpl in *; try discriminate; auto.
  apply andb_true_iff in Hc. destruct Hc as [Hxy Hc].
  apply Bool.eqb_prop in Hxy. subst. f_equal. apply IH; auto.
Qed.

(* ================================================================== *)
(* C. binary shift tokens                                             *)
Lemma bshift_loop_app : forall a b i cnt,
  az_bshift_loop (a ++ b) i cnt = az_bshift_loop a i cnt ++ az_bshift_loop b (i + zlength a) cnt.
Proof.
  induction a as [|x a IH]; intros b i cnt.
  - simpl. f_equal. unfold zlength. simpl. lia.
  - cbn [app az_bshift_loop]. rewrite IH. rewrite <- !app_assoc.
    replace (i + 1 + zlength a) with (i + zlength (x :: a)) by (unfold zlength; cbn [length]; lia).
    reflexivity.
Qed.

Lemma bshift_loop_plain : forall bytes i cnt, 1 <= i ->
  (cnt > 62 \/ i > 31 \/ i + zlength bytes <= 31) ->
  az_bshift_loop bytes i cnt = bytes_bits bytes.
Proof.
  induction bytes as [|b t IH]; intros i cnt Hi Hc; [reflexivity|].
  cbn [az_bshift_loop bytes_bits].
  assert (Hz : zlength (b :: t) = zlength t + 1) by (unfold zlength; cbn [length]; lia).
  destruct (i =? 0) eqn:E0; [lia|].
  assert (E1 : (i =? 31) && (cnt <=? 62) = false).
  { destruct (i =? 31) eqn:E; [|reflexivity]. destruct (cnt <=? 62) eqn:E'; [|reflexivity].
    pose proof (Zle_0_nat (length t)). unfold zlength in *. lia. }
  rewrite E1. cbn [orb app]. rewrite IH; [reflexivity | lia | lia].
Qed.

Section BinShift.
Variable m : smode.
Hypothesis Hwidth : sp_width m = 5%nat.
Hypothesis Hcode : nth_error (sp_tbl m) 31 = Some BinShift.

Lemma step_binshift_short : forall bs C, Forall is_byte bs -> 1 <= zlength bs <= 31 ->
  sp_step m (msb_bits 5 31 ++ msb_bits 5 (zlength bs) ++ bytes_bits bs ++ C) = SEmit bs m C.
Proof.
  intros bs C HF Hl. unfold sp_step. rewrite Hwidth.
  rewrite sp_rd_msb by (simpl; lia). change (Z.to_nat 31) with 31%nat. rewrite Hcode.
  unfold sp_binshift. rewrite sp_rd_msb by (simpl; lia).
  destruct (zlength bs =? 0) eqn:E; [lia|].
  unfold sp_bytes. unfold zlength. rewrite Nat2Z.id. rewrite sp_rd_bytes_bits by exact HF. reflexivity.
Qed.

Lemma step_binshift_long : forall bs C, Forall is_byte bs -> 63 <= zlength bs <= 2078 ->
  sp_step m (msb_bits 5 31 ++ msb_bits 16 (zlength bs - 31) ++ bytes_bits bs ++ C) = SEmit bs m C.
Proof.
  intros bs C HF Hl. unfold sp_step. rewrite Hwidth.
  rewrite sp_rd_msb by (simpl; lia). change (Z.to_nat 31) with 31%nat. rewrite Hcode.
  unfold sp_binshift. rewrite ff_len16 by lia. rewrite <- app_assoc.
  rewrite sp_rd_msb by (simpl; lia). cbn [Z.eqb].
  rewrite sp_rd_msb by (simpl; lia).
  unfold sp_bytes. replace (zlength bs - 31 + 31) with (zlength bs) by lia.
  unfold zlength. rewrite Nat2Z.id. rewrite sp_rd_bytes_bits by exact HF. reflexivity.
Qed.

(* the bits of a binary-shift token run the decoder through exactly its bytes *)
Lemma run_bshift : forall bs, Forall is_byte bs -> 1 <= zlength bs <= 2078 ->
  sp_run 4 m (az_bshift_loop bs 0 (zlength bs)) = Some (bs, m).
Proof.
  intros bs HF Hl.
  destruct (Z_le_gt_dec (zlength bs) 31) as [H31|H31].
  - (* one header, 5-bit length *)
    destruct bs as [|b t]; [unfold zlength in Hl; simpl in Hl; lia|].
    assert (Hz : zlength (b :: t) = zlength t + 1) by (unfold zlength; cbn [length]; lia).
    cbn [az_bshift_loop]. cbn [Z.eqb orb].
    destruct (zlength (b :: t) >? 62) eqn:E62; [lia|].
    assert (Hhdr : (if zlength (b :: t) <? 31 then msb_bits 5 (zlength (b :: t)) else msb_bits 5 31)
                   = msb_bits 5 (zlength (b :: t))).
    { destruct (zlength (b :: t) <? 31) eqn:E; [reflexivity|]. f_equal. lia. }
    rewrite Hhdr. rewrite bshift_loop_plain by lia.
    change (msb_bits 8 b ++ bytes_bits t) with (bytes_bits (b :: t)).
    rewrite <- app_assoc.
    pose proof (step_binshift_short (b :: t) [] HF ltac:(lia)) as Hs. rewrite app_nil_r in Hs.
    cbn [sp_run]. destruct (msb_bits 5 31 ++ _) eqn:Ebits; [discriminate|]. rewrite <- Ebits.
    rewrite Hs. cbn [sp_run]. rewrite app_nil_r. reflexivity.
  - destruct (Z_le_gt_dec (zlength bs) 62) as [H62|H62].
    + (* two headers: 31 bytes, then the rest *)
      set (p1 := firstn 31 bs). set (p2 := skipn 31 bs).
      assert (Hsplit : bs = p1 ++ p2) by (symmetry; apply firstn_skipn).
      assert (Hl1 : zlength p1 = 31) by (unfold zlength, p1 in *; rewrite firstn_length; lia).
      assert (Hl2 : zlength p2 = zlength bs - 31) by (unfold zlength, p2 in *; rewrite skipn_length; lia).
      assert (HF1 : Forall is_byte p1) by (rewrite Hsplit in HF; apply Forall_app in HF; tauto).
      assert (HF2 : Forall is_byte p2) by (rewrite Hsplit in HF; apply Forall_app in HF; tauto).
      set (cnt := zlength bs) in *.
      rewrite Hsplit at 1. rewrite bshift_loop_app, Hl1.
      (* first part *)
      assert (H1 : az_bshift_loop p1 0 cnt = msb_bits 5 31 ++ msb_bits 5 (zlength p1) ++ bytes_bits p1).
      { destruct p1 as [|b t]; [unfold zlength in Hl1; simpl in Hl1; lia|].
        assert (Hz : zlength (b :: t) = zlength t + 1) by (unfold zlength; cbn [length]; lia).
        cbn [az_bshift_loop]. cbn [Z.eqb orb].
        destruct (cnt >? 62) eqn:E62; [lia|]. destruct (cnt <? 31) eqn:E31; [lia|].
        rewrite bshift_loop_plain by lia. rewrite Hl1. rewrite <- app_assoc. reflexivity. }
      assert (H2 : az_bshift_loop p2 (0 + 31) cnt = msb_bits 5 31 ++ msb_bits 5 (zlength p2) ++ bytes_bits p2).
      { destruct p2 as [|b t]; [unfold zlength in Hl2; simpl in Hl2; lia|].
        assert (Hz : zlength (b :: t) = zlength t + 1) by (unfold zlength; cbn [length]; lia).
        cbn [az_bshift_loop]. change (0 + 31 =? 0) with false. change (0 + 31 =? 31) with true.
        destruct (cnt <=? 62) eqn:E62'; [|lia]. cbn [andb orb].
        destruct (cnt >? 62) eqn:E62; [lia|].
        rewrite bshift_loop_plain by lia. rewrite Hl2. rewrite <- app_assoc. reflexivity. }
      rewrite H1, H2.
      pose proof (step_binshift_short p1 (msb_bits 5 31 ++ msb_bits 5 (zlength p2) ++ bytes_bits p2)
                    HF1 ltac:(lia)) as Hs1.
      pose proof (step_binshift_short p2 [] HF2 ltac:(lia)) as Hs2. rewrite app_nil_r in Hs2.
      rewrite <- !app_assoc.
      cbn [sp_run]. destruct (msb_bits 5 31 ++ msb_bits 5 (zlength p1) ++ _) eqn:Ebits; [discriminate|].
      rewrite <- Ebits. rewrite Hs1.
      cbn [sp_run]. destruct (msb_bits 5 31 ++ msb_bits 5 (zlength p2) ++ _) eqn:Ebits2; [discriminate|].
      rewrite <- Ebits2. rewrite Hs2. cbn [sp_run]. rewrite app_nil_r, <- Hsplit. reflexivity.
    + (* one header, 16-bit length *)
      destruct bs as [|b t]; [unfold zlength in Hl; simpl in Hl; lia|].
      assert (Hz : zlength (b :: t) = zlength t + 1) by (unfold zlength; cbn [length]; lia).
      cbn [az_bshift_loop]. cbn [Z.eqb orb].
      destruct (zlength (b :: t) >? 62) eqn:E62; [|lia].
      rewrite bshift_loop_plain by lia.
      change (msb_bits 8 b ++ bytes_bits t) with (bytes_bits (b :: t)).
      rewrite <- app_assoc.
      pose proof (step_binshift_long (b :: t) [] HF ltac:(lia)) as Hs. rewrite app_nil_r in Hs.
      cbn [sp_run]. destruct (msb_bits 5 31 ++ _) eqn:Ebits; [discriminate|]. rewrite <- Ebits.
      rewrite Hs. cbn [sp_run]. rewrite app_nil_r. reflexivity.
Qed.

End BinShift.
