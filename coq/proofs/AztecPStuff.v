(* C03 layer 3 -- bit stuffing (unbounded): the ISO un-stuffing of
   stuffBits w bits gives back bits followed by fewer than w padding ones; no
   produced codeword is all-zero or all-one; the length is a multiple of w. *)
From Verif Require Import Prelude BitListM AztecM AztecSpec AztecPBase.

Definition ones (k : nat) : list bool := repeat true k.

Lemma take_pad_length : forall n l, length (az_take_pad n l) = n.
Proof. induction n; intros [|b t]; simpl; auto. Qed.

Lemma take_pad_skipn : forall n l, az_take_pad n l ++ skipn n l = l ++ ones (n - length l).
Proof.
  induction n as [|n IH]; intros l.
  - simpl. rewrite app_nil_r. reflexivity.
  - destruct l as [|b t]; cbn [az_take_pad skipn length].
    + specialize (IH []). simpl in IH. rewrite skipn_nil in *. cbn [app].
      rewrite app_nil_r in *. cbn [Nat.sub ones repeat]. f_equal.
      replace (n - 0)%nat with n in IH by lia. exact IH.
    + cbn [app]. f_equal. rewrite IH. reflexivity.
Qed.

Lemma firstn_take_pad : forall m n l, (m <= n)%nat -> firstn m (az_take_pad n l) = az_take_pad m l.
Proof.
  induction m as [|m IH]; intros n l H; [reflexivity|].
  destruct n as [|n]; [lia|]. destruct l as [|b t]; cbn [az_take_pad firstn]; f_equal; apply IH; lia.
Qed.

Lemma take_pad_short : forall n l, (length l < n)%nat -> forallb negb (az_take_pad n l) = false.
Proof.
  induction n as [|n IH]; intros l H; [lia|].
  destruct l as [|b t]; cbn [az_take_pad forallb]; [reflexivity|].
  simpl in H. rewrite IH by lia. apply andb_false_r.
Qed.

Lemma sp_all_true_iff l : sp_all true l = forallb (fun b => b) l.
Proof. unfold sp_all. induction l as [|b t IH]; simpl; [reflexivity|]. rewrite IH. destruct b; reflexivity. Qed.

Lemma sp_all_false_iff l : sp_all false l = forallb negb l.
Proof. unfold sp_all. induction l as [|b t IH]; simpl; [reflexivity|]. rewrite IH. destruct b; reflexivity. Qed.

Lemma ones_app a b : ones a ++ ones b = ones (a + b).
Proof. unfold ones. symmetry. apply repeat_app. Qed.

(* ---- un-stuffing a list of words ---- *)
Lemma chunks_concat (w : nat) : (0 < w)%nat -> forall ws,
  Forall (fun x => length x = w) ws ->
  forall f, (length ws <= f)%nat -> sp_chunks f w (concat ws) = Some ws.
Proof.
  intros Hw ws. induction ws as [|x ws IH]; intros HF f Hf.
  - destruct f; reflexivity.
  - apply Forall_cons_iff in HF. destruct HF as [Hx HF'].
    destruct f as [|f]; [simpl in Hf; lia|].
    cbn [concat]. destruct x as [|b x']; [simpl in Hx; lia|].
    cbn [app sp_chunks]. change (b :: x' ++ concat ws) with ((b :: x') ++ concat ws).
    rewrite firstn_app, Hx, Nat.sub_diag. cbn [firstn]. rewrite app_nil_r.
    rewrite firstn_all2 by lia. rewrite Hx, Nat.ltb_irrefl.
    rewrite skipn_app, Hx, Nat.sub_diag. cbn [skipn].
    rewrite skipn_all2 by lia. cbn [app].
    rewrite IH; [reflexivity | assumption | simpl in Hf; lia].
Qed.

Lemma concat_length_words (w : nat) ws :
  Forall (fun x : list bool => length x = w) ws -> length (concat ws) = (w * length ws)%nat.
Proof.
  induction 1 as [|x ws Hx HF IH]; simpl; [lia|]. rewrite app_length, IH, Hx. lia.
Qed.

Lemma unstuff_concat (w : nat) ws : (0 < w)%nat ->
  Forall (fun x => length x = w) ws ->
  sp_unstuff w (concat ws) = sp_unstuff_words w ws.
Proof.
  intros Hw HF. unfold sp_unstuff. rewrite chunks_concat; auto.
  rewrite (concat_length_words w ws HF). nia.
Qed.

(* the three kinds of word *)
Lemma unstuff_word_ones (w : nat) hd : length hd = (w - 1)%nat -> (2 <= w)%nat ->
  forallb (fun b => b) hd = true -> sp_unstuff_word w (hd ++ [false]) = Some hd.
Proof.
  intros Hl Hw Ha. unfold sp_unstuff_word.
  rewrite firstn_app, Hl, Nat.sub_diag. cbn [firstn]. rewrite app_nil_r, firstn_all2 by lia.
  rewrite skipn_app, Hl, Nat.sub_diag. cbn [skipn]. rewrite skipn_all2 by lia. cbn [app].
  rewrite sp_all_true_iff, Ha. reflexivity.
Qed.

Lemma unstuff_word_zeros (w : nat) hd : length hd = (w - 1)%nat -> (2 <= w)%nat ->
  forallb (fun b => b) hd = false -> forallb negb hd = true ->
  sp_unstuff_word w (hd ++ [true]) = Some hd.
Proof.
  intros Hl Hw Ha Hz. unfold sp_unstuff_word.
  rewrite firstn_app, Hl, Nat.sub_diag. cbn [firstn]. rewrite app_nil_r, firstn_all2 by lia.
  rewrite skipn_app, Hl, Nat.sub_diag. cbn [skipn]. rewrite skipn_all2 by lia. cbn [app].
  rewrite sp_all_true_iff, Ha, sp_all_false_iff, Hz. reflexivity.
Qed.

Lemma unstuff_word_plain (w : nat) word : length word = w -> (2 <= w)%nat ->
  forallb (fun b => b) (firstn (w - 1) word) = false ->
  forallb negb (firstn (w - 1) word) = false ->
  sp_unstuff_word w word = Some word.
Proof.
  intros Hl Hw Ha Hz. unfold sp_unstuff_word.
  rewrite sp_all_true_iff, Ha, sp_all_false_iff, Hz.
  assert (Hs : length (skipn (w - 1) word) = 1%nat) by (rewrite skipn_length; lia).
  destruct (skipn (w - 1) word) as [|x [|y t]]; simpl in Hs; try lia. reflexivity.
Qed.

Ltac split6 := split; [|split; [|split; [|split; [|split]]]].

(* ---- the loop ---- *)
Section Stuff.
Variable w : nat.
Hypothesis Hw : (2 <= w)%nat.

Definition stuff_post (rest : list bool) (first : bool) (ws : list (list bool)) (k : nat) : Prop :=
  Forall (fun x => length x = w) ws
  /\ sp_unstuff_words w ws = Some (rest ++ ones k)
  /\ (k < w)%nat
  /\ (rest = [] -> first = false -> ws = [] /\ k = 0%nat)
  /\ (first = true \/ rest <> [] -> ws <> [])
  /\ ((length ws - 1) * (w - 1) <= length rest)%nat.

Lemma stuff_loop_spec : forall (fuel : nat) (rest : list bool) (first : bool),
  (length rest + (if first then 2 else 1) <= fuel)%nat ->
  exists ws k, az_stuff_loop fuel w rest first = Ok (concat ws) /\ stuff_post rest first ws k.
Proof.
  induction fuel as [|f IH]; intros rest first Hf.
  - destruct first; lia.
  - assert (Hbody :
      (rest = [] /\ first = false) \/
      ((first = true \/ rest <> []) /\
       az_stuff_loop (S f) w rest first =
       (let word := az_take_pad w rest in
        let hd := firstn (w - 1) word in
        if forallb (fun b => b) hd then
          do r <- az_stuff_loop f w (skipn (w - 1) rest) false; Ok (hd ++ false :: r)
        else if forallb negb hd then
          do r <- az_stuff_loop f w (skipn (w - 1) rest) false; Ok (hd ++ true :: r)
        else
          do r <- az_stuff_loop f w (skipn w rest) false; Ok (word ++ r)))).
    { destruct rest as [|b t]; destruct first.
      - right. split; [left; reflexivity | reflexivity].
      - left. split; reflexivity.
      - right. split; [left; reflexivity | reflexivity].
      - right. split; [right; discriminate | reflexivity]. }
    destruct Hbody as [[-> ->] | [Hne Hbody]].
    { exists [], 0%nat. split; [reflexivity|].
      unfold stuff_post. split6; auto; try (simpl; lia).
      intros [H|H]; [discriminate | congruence]. }
    rewrite Hbody; clear Hbody. cbv zeta.
    rewrite firstn_take_pad by lia.
    set (hd := az_take_pad (w - 1) rest).
    assert (Hhdl : length hd = (w - 1)%nat) by apply take_pad_length.
    assert (Hsplit : hd ++ skipn (w - 1) rest = rest ++ ones (w - 1 - length rest))
      by apply take_pad_skipn.
    (* fuel for the recursive call after consuming >= 1 bit (or the first empty round) *)
    assert (Hfuel1 : (length (skipn (w - 1) rest) + 1 <= f)%nat).
    { rewrite skipn_length. destruct Hne as [->|Hr]; [simpl in Hf; lia|].
      destruct rest as [|b t]; [congruence|]. cbn [length] in *. destruct first; lia. }
    destruct (forallb (fun b => b) hd) eqn:Hones.
    + (* w-1 ones: emit them and a 0 *)
      destruct (IH (skipn (w - 1) rest) false Hfuel1) as (ws' & k' & Hrun & HF & Hun & Hk & Hnil & _ & Hcnt).
      rewrite Hrun. cbn [obind].
      exists ((hd ++ [false]) :: ws'), (w - 1 - length rest + k')%nat.
      split; [cbn [concat]; rewrite <- app_assoc; reflexivity|].
      unfold stuff_post. split6.
      * constructor; [rewrite app_length; simpl; lia | exact HF].
      * cbn [sp_unstuff_words]. rewrite unstuff_word_ones, Hun by auto.
        f_equal. rewrite <- ones_app, !app_assoc. f_equal. exact Hsplit.
      * destruct (Nat.le_gt_cases (w - 1) (length rest)) as [Hlong|Hshort]; [lia|].
        assert (Hs : skipn (w - 1) rest = []) by (apply skipn_all2; lia).
        destruct (Hnil Hs eq_refl) as [_ ->]. lia.
      * intros -> ->. destruct Hne as [H|H]; [discriminate | congruence].
      * intros _; discriminate.
      * cbn [length]. rewrite skipn_length in Hcnt.
        destruct (Nat.le_gt_cases (w - 1) (length rest)) as [Hlong|Hshort].
        -- destruct (length ws'); [lia|]. nia.
        -- assert (Hs : skipn (w - 1) rest = []) by (apply skipn_all2; lia).
           destruct (Hnil Hs eq_refl) as [-> _]. simpl. lia.
    + destruct (forallb negb hd) eqn:Hzeros.
      * (* w-1 zeros: emit them and a 1; then rest has at least w-1 bits *)
        assert (Hlong : (w - 1 <= length rest)%nat).
        { destruct (Nat.le_gt_cases (w - 1) (length rest)) as [H|H]; auto.
          unfold hd in Hzeros. rewrite take_pad_short in Hzeros by lia. discriminate. }
        destruct (IH (skipn (w - 1) rest) false Hfuel1) as (ws' & k' & Hrun & HF & Hun & Hk & Hnil & _ & Hcnt).
        rewrite Hrun. cbn [obind].
        exists ((hd ++ [true]) :: ws'), k'.
        split; [cbn [concat]; rewrite <- app_assoc; reflexivity|].
        unfold stuff_post. split6.
        -- constructor; [rewrite app_length; simpl; lia | exact HF].
        -- cbn [sp_unstuff_words]. rewrite unstuff_word_zeros, Hun by auto.
           f_equal. rewrite app_assoc, Hsplit.
           replace (w - 1 - length rest)%nat with 0%nat by lia. cbn [ones repeat].
           rewrite app_nil_r. reflexivity.
        -- exact Hk.
        -- intros -> _. simpl in Hlong. lia.
        -- intros _; discriminate.
        -- cbn [length]. rewrite skipn_length in Hcnt. destruct (length ws'); [lia|]. nia.
      * (* an ordinary word *)
        assert (Hrest : rest <> []).
        { intros ->. unfold hd in Hones. clear -Hones Hw.
          assert (H : forall n, forallb (fun b : bool => b) (az_take_pad n []) = true)
            by (induction n; simpl; auto).
          rewrite H in Hones. discriminate. }
        assert (Hfuel2 : (length (skipn w rest) + 1 <= f)%nat).
        { rewrite skipn_length. destruct rest as [|b t]; [congruence|]. cbn [length] in *. destruct first; lia. }
        destruct (IH (skipn w rest) false Hfuel2) as (ws' & k' & Hrun & HF & Hun & Hk & Hnil & _ & Hcnt).
        rewrite Hrun. cbn [obind].
        exists (az_take_pad w rest :: ws'), (w - length rest + k')%nat.
        split; [reflexivity|].
        unfold stuff_post. split6.
        -- constructor; [apply take_pad_length | exact HF].
        -- cbn [sp_unstuff_words].
           rewrite unstuff_word_plain, Hun; auto using take_pad_length.
           ++ f_equal. rewrite <- ones_app, !app_assoc. f_equal. apply take_pad_skipn.
           ++ rewrite firstn_take_pad by lia. exact Hones.
           ++ rewrite firstn_take_pad by lia. exact Hzeros.
        -- destruct (Nat.le_gt_cases w (length rest)) as [Hlong|Hshort]; [lia|].
           assert (Hs : skipn w rest = []) by (apply skipn_all2; lia).
           destruct (Hnil Hs eq_refl) as [_ ->].
           destruct rest; [congruence | simpl; lia].
        -- intros ->. congruence.
        -- intros _; discriminate.
        -- cbn [length]. rewrite skipn_length in Hcnt.
           destruct (Nat.le_gt_cases w (length rest)) as [Hlong|Hshort].
           ++ destruct (length ws'); [lia|]. nia.
           ++ assert (Hs : skipn w rest = []) by (apply skipn_all2; lia).
              destruct (Hnil Hs eq_refl) as [-> _]. simpl. lia.
Qed.

End Stuff.

(* ---- the layer theorem ---- *)
Theorem az_stuff_correct : forall (wordSize : Z) (bits : list bool), 2 <= wordSize ->
  exists out k,
    az_stuff_bits bits wordSize = Ok out
    /\ sp_unstuff (Z.to_nat wordSize) out = Some (bits ++ ones k)
    /\ (k < Z.to_nat wordSize)%nat
    /\ out <> []
    /\ zlength out mod wordSize = 0
    /\ zlength bits <= zlength out
    /\ (zlength out / wordSize - 1) * (wordSize - 1) <= zlength bits.
Proof.
  intros wordSize bits Hw. unfold az_stuff_bits.
  destruct (wordSize <? 2) eqn:E; [lia|]. clear E.
  set (w := Z.to_nat wordSize).
  assert (Hw' : (2 <= w)%nat) by (unfold w; lia).
  destruct (stuff_loop_spec w Hw' (S (S (length bits))) bits true ltac:(cbv iota; lia))
    as (ws & k & Hrun & HF & Hun & Hk & _ & Hne & Hcnt).
  exists (concat ws), k. split; [exact Hrun|].
  assert (Hlen : length (concat ws) = (w * length ws)%nat) by (apply concat_length_words; auto).
  assert (Hws : ws <> []) by (apply Hne; auto).
  assert (Hww : Z.of_nat w = wordSize) by (unfold w; lia).
  split; [rewrite unstuff_concat by (auto; lia); exact Hun|].
  split; [exact Hk|].
  split; [destruct ws as [|x ws']; [congruence|];
          apply Forall_cons_iff in HF; destruct HF as [Hx _]; destruct x; simpl in *; [lia | discriminate]|].
  unfold zlength. rewrite Hlen, Nat2Z.inj_mul, Hww.
  split; [rewrite Z.mul_comm; apply Z.mod_mul; lia|].
  split.
  - (* each word yields at most w bits *)
    assert (Hb : forall ws0 out0, Forall (fun x : list bool => length x = w) ws0 ->
              sp_unstuff_words w ws0 = Some out0 -> (length out0 <= w * length ws0)%nat).
    { induction ws0 as [|x ws0 IHw]; intros out0 HF0 H0.
      - simpl in H0. inversion H0. simpl. lia.
      - cbn [sp_unstuff_words] in H0. apply Forall_cons_iff in HF0. destruct HF0 as [Hx HF1]. rewrite <- Hx in *.
        destruct (sp_unstuff_word (length x) x) as [a|] eqn:Ea; [|discriminate].
        destruct (sp_unstuff_words (length x) ws0) as [b|] eqn:Eb; [|discriminate].
        inversion H0; subst. rewrite app_length. specialize (IHw b HF1 eq_refl).
        assert (length a <= length x)%nat.
        { unfold sp_unstuff_word in Ea.
          destruct (skipn (length x - 1) x) as [|l1 [|l2 t]]; try discriminate.
          destruct (sp_all true _); [destruct l1; [discriminate|]; inversion Ea; subst;
                                     rewrite firstn_length; lia|].
          destruct (sp_all false _); [destruct l1; [|discriminate]; inversion Ea; subst;
                                      rewrite firstn_length; lia|].
          inversion Ea; subst; lia. }
        cbn [length]. lia. }
    specialize (Hb ws _ HF Hun). rewrite app_length in Hb. lia.
  - rewrite (Z.mul_comm wordSize (Z.of_nat (length ws))), Z.div_mul by lia.
    assert (Z.of_nat ((length ws - 1) * (w - 1)) <= Z.of_nat (length bits)) by lia.
    destruct ws; [congruence|]. cbn [length] in *. nia.
Qed.

(* for an empty payload exactly one padding word 1...10 *)
Theorem az_stuff_empty : forall wordSize, 2 <= wordSize ->
  az_stuff_bits [] wordSize = Ok (ones (Z.to_nat wordSize - 1) ++ [false]).
Proof.
  intros wordSize Hw. unfold az_stuff_bits. destruct (wordSize <? 2) eqn:E; [lia|].
  set (w := Z.to_nat wordSize). assert (Hw' : (2 <= w)%nat) by (unfold w; lia).
  assert (H : forall n, az_take_pad n [] = ones n) by (unfold ones; induction n; simpl; congruence).
  assert (Ht : forall n, forallb (fun b : bool => b) (ones n) = true)
    by (unfold ones; induction n; simpl; auto).
  cbn [length]. cbn [az_stuff_loop]. rewrite firstn_take_pad by lia.
  rewrite H, Ht. rewrite skipn_nil. cbn [obind]. reflexivity.
Qed.

(* no produced codeword is all-zero or all-one *)
Theorem az_stuff_words_legal : forall wordSize bits out ws, 2 <= wordSize ->
  az_stuff_bits bits wordSize = Ok out ->
  sp_chunks (length out) (Z.to_nat wordSize) out = Some ws ->
  Forall (fun x => sp_all true x = false /\ sp_all false x = false) ws.
Proof.
  intros wordSize bits out ws Hw Hrun Hch.
  destruct (az_stuff_correct wordSize bits Hw) as (out' & k & Hrun' & Hun & _).
  rewrite Hrun in Hrun'. inversion Hrun'; subst out'. clear Hrun'.
  unfold sp_unstuff in Hun. rewrite Hch in Hun.
  set (w := Z.to_nat wordSize) in *. assert (Hw' : (2 <= w)%nat) by (unfold w; lia).
  clear Hch Hrun. revert Hun. generalize (bits ++ ones k). induction ws as [|x ws IH]; intros l Hun.
  - constructor.
  - cbn [sp_unstuff_words] in Hun.
    destruct (sp_unstuff_word w x) as [a|] eqn:Ea; [|discriminate].
    destruct (sp_unstuff_words w ws) as [b|] eqn:Eb; [|discriminate].
    constructor; [|eapply IH; reflexivity].
    unfold sp_unstuff_word in Ea.
    destruct (skipn (w - 1) x) as [|l1 [|l2 t]] eqn:Es; try discriminate.
    assert (Hx : x = firstn (w - 1) x ++ [l1]) by (rewrite <- Es; symmetry; apply firstn_skipn).
    assert (Hl : length (firstn (w - 1) x) = (w - 1)%nat).
    { assert (length x = ((w - 1) + 1)%nat).
      { rewrite <- (firstn_skipn (w - 1) x), app_length, Es.
        assert (length (skipn (w - 1) x) = 1%nat) by (rewrite Es; reflexivity).
        rewrite skipn_length in H. rewrite firstn_length. simpl. lia. }
      rewrite firstn_length. lia. }
    set (hd := firstn (w - 1) x) in *.
    assert (Hnn : hd <> []) by (intros E; rewrite E in Hl; simpl in Hl; lia).
    rewrite Hx. unfold sp_all in *. rewrite !forallb_app. cbn [forallb].
    destruct (forallb (Bool.eqb true) hd) eqn:E1.
    + destruct l1; [discriminate|]. split; [apply andb_false_r|].
      destruct hd as [|h t']; [congruence|]. simpl in E1 |- *. destruct h; [reflexivity|discriminate].
    + destruct (forallb (Bool.eqb false) hd) eqn:E2.
      * destruct l1; [|discriminate]. split; [reflexivity | apply andb_false_r].
      * split; reflexivity.
Qed.
