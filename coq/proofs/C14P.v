(* C14: CheckSum() reports the symbology's real check value, also after scaling *)
From Verif Require Import Prelude Barcode Utf8M.
From Verif Require Import EanM EanSpec EanP OneDPropsA.
From Verif Require Import Code128M Code128Spec Code128P3.
From Verif Require Import Code39M Code39Spec Code39P.
From Verif Require Import ScaleM ScaleSpec ScaleP C14M.

(* Code 128: CheckSum() is the modulo-103 value of the symbol characters, and the
   drawn check character (the last value before the stop) has exactly that value *)
Lemma c128_c14 content bc : c128_encode content = Ok bc ->
  exists bits cs vals, bc_rows bc = [bits] /\ bc_checksum bc = Some cs
    /\ c128_spec_values bits = Some (vals ++ [cs]) /\ cs = c128_spec_checksum vals /\ 0 <= cs < 103.
Proof.
  intros H. destruct (c128_encode_roundtrip content bc H) as (_ & _ & bits & cs & vals & Hbc & _ & Hv & Hcs).
  exists bits, cs, vals. subst bc. cbn. repeat split; auto.
  - subst cs. unfold c128_spec_checksum. destruct vals; [lia|]. apply Z.mod_pos_bound; lia.
  - subst cs. unfold c128_spec_checksum. destruct vals; [lia|]. apply Z.mod_pos_bound; lia.
Qed.

(* Code 39: CheckSum() is the sum of the character values modulo 43 whether or not
   the check character is drawn; when it is drawn it is the character with that value *)
Lemma c39_c14 s cs full bc : c39_encode s cs full = Ok bc ->
  exists vals, Forall (fun v => 0 <= v < 43) vals
    /\ bc_checksum bc = Some (fold_right Z.add 0 vals mod 43)
    /\ bc_rows bc = [c39_layout (c39_symbol cs vals)]
    /\ c39_decode_values cs (c39_layout (c39_symbol cs vals)) = Some vals
    /\ c39_symbol cs vals = [c39_start_stop] ++ vals
         ++ (if cs then [fold_right Z.add 0 vals mod 43] else []) ++ [c39_start_stop].
Proof.
  intros H. destruct (c39_roundtrip s cs full bc H) as (vals & Hr & Hbc & _ & Hd & _).
  exists vals. subst bc. cbn. repeat split; auto.
Qed.

(* scaling, any number of times, never changes CheckSum() *)
Lemma scaling_keeps_checksum (bc : barcode) rs t :
  scale_chain false (src_of_bc bc) rs = Ok t -> s_checksum t = bc_checksum bc.
Proof.
  intros H. destruct (scale_chain_accessors bool false rs (src_of_bc bc) t H) as ((_ & _ & _ & Hc) & _).
  exact Hc.
Qed.
