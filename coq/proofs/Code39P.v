(* Lemmas for C07, part 1: shared facts (UTF-8 model, search of a map by value,
   full-ASCII unspelling) and everything about Code 39. *)
From Coq Require Import Permutation.
From Verif Require Import Prelude Barcode Utf8M Code39M Code39Spec TabCode39.

Local Ltac Zify.zify_post_hook ::= Z.div_mod_to_equations.

(* ====================================================================== *)
(* generic helpers                                                         *)
(* ====================================================================== *)

(* the list 0, 1, ..., n-1 *)
Definition zrange (n : nat) : list Z := map Z.of_nat (seq 0 n).

Lemma in_zrange n v : 0 <= v < Z.of_nat n -> In v (zrange n).
Proof.
  intros H. unfold zrange. replace v with (Z.of_nat (Z.to_nat v)) by lia.
  apply in_map, in_seq. lia.
Qed.

Lemma forallb_zrange (P : Z -> bool) n :
  forallb P (zrange n) = true -> forall v, 0 <= v < Z.of_nat n -> P v = true.
Proof. intros H v Hv. eapply forallb_forall in H; [exact H | apply in_zrange; exact Hv]. Qed.

(* finite case analysis on a hypothesis H : In v <closed list> *)
Ltac by_cases H tac :=
  cbv in H; repeat (destruct H as [H | H]; [subst; tac | ]); try contradiction.

Lemma bools_eqb_eq a b : bools_eqb a b = true <-> a = b.
Proof.
  revert b; induction a as [|x a IH]; intros [|y b]; simpl; split; intros H; try congruence.
  - apply andb_true_iff in H as [H1 H2]. apply eqb_prop in H1. apply IH in H2. congruence.
  - inversion H; subst. apply andb_true_iff; split; [apply eqb_reflx | apply IH; reflexivity].
Qed.

Lemma zlist_eqb_eq a b : zlist_eqb a b = true <-> a = b.
Proof.
  revert b; induction a as [|x a IH]; intros [|y b]; simpl; split; intros H; try congruence.
  - apply andb_true_iff in H as [H1 H2]. apply Z.eqb_eq in H1. apply IH in H2. congruence.
  - inversion H; subst. apply andb_true_iff; split; [apply Z.eqb_refl | apply IH; reflexivity].
Qed.

Lemma map_get_none_outside {A} lo hi r (l : list (Z * A)) :
  forallb (fun e => (lo <=? fst e) && (fst e <=? hi)) l = true ->
  ~ (lo <= r <= hi) -> map_get r l = None.
Proof.
  induction l as [|[k v] l IH]; simpl; intros H Hr; [reflexivity|].
  apply andb_true_iff in H as [H1 H2]. simpl in H1.
  destruct (r =? k) eqn:E; [exfalso; lia | auto].
Qed.

Lemma char_index_none_outside lo hi r l i :
  forallb (fun c => (lo <=? c) && (c <=? hi)) l = true ->
  ~ (lo <= r <= hi) -> char_index r l i = None.
Proof.
  revert i; induction l as [|c l IH]; simpl; intros i H Hr; [reflexivity|].
  apply andb_true_iff in H as [H1 H2].
  destruct (r =? c) eqn:E; [exfalso; lia | auto].
Qed.

Lemma firstn_skipn_exact {A} (a x : list A) n :
  length a = n -> firstn n (a ++ x) = a /\ skipn n (a ++ x) = x.
Proof.
  intros <-. split.
  - rewrite firstn_app, Nat.sub_diag, firstn_all. simpl. apply app_nil_r.
  - rewrite skipn_app, Nat.sub_diag, skipn_all. reflexivity.
Qed.

(* ====================================================================== *)
(* the UTF-8 model                                                         *)
(* ====================================================================== *)

Lemma utf8_decode1_length b rest : (length (snd (utf8_decode1 b rest)) <= length rest)%nat.
Proof.
  unfold utf8_decode1; cbv zeta.
  repeat match goal with
  | |- context [if ?c then _ else _] => destruct c
  | |- context [match ?l with [] => _ | _ :: _ => _ end] => destruct l
  end; simpl; lia.
Qed.

Lemma utf8_decode_fuel_any n m s :
  (length s <= n)%nat -> (length s <= m)%nat -> utf8_decode_fuel n s = utf8_decode_fuel m s.
Proof.
  revert m s; induction n as [|n IH]; intros m s Hn Hm.
  - destruct s; [|simpl in Hn; lia]. destruct m; reflexivity.
  - destruct s as [|b rest]; [destruct m; reflexivity|].
    destruct m as [|m]; [simpl in Hm; lia|]. simpl.
    pose proof (utf8_decode1_length b rest) as HL.
    destruct (utf8_decode1 b rest) as [r rest']. simpl in HL. simpl in Hn, Hm.
    f_equal. apply IH; lia.
Qed.

(* unfolding equation of the decoder *)
Lemma utf8_decode_cons b rest :
  utf8_decode (b :: rest) =
  fst (utf8_decode1 b rest) :: utf8_decode (snd (utf8_decode1 b rest)).
Proof.
  unfold utf8_decode. simpl.
  pose proof (utf8_decode1_length b rest) as HL.
  destruct (utf8_decode1 b rest) as [r rest']. simpl in *.
  f_equal. apply utf8_decode_fuel_any; lia.
Qed.

Lemma utf8_decode_nil : utf8_decode [] = [].
Proof. reflexivity. Qed.

(* induction along the decoder's steps *)
Lemma utf8_ind (P : list Z -> Prop) :
  P [] -> (forall b rest, P (snd (utf8_decode1 b rest)) -> P (b :: rest)) -> forall s, P s.
Proof.
  intros H0 HS.
  assert (H : forall n s, (length s <= n)%nat -> P s).
  { induction n as [|n IH]; intros s Hs.
    - destruct s; [exact H0 | simpl in Hs; lia].
    - destruct s as [|b rest]; [exact H0|]. apply HS. apply IH.
      pose proof (utf8_decode1_length b rest). simpl in Hs. lia. }
  intros s. apply (H (length s)). lia.
Qed.

(* what one step does: an ASCII byte is itself; anything else gives a rune >= 128;
   a rune below 2048 only comes from a well-formed two-byte sequence *)
Lemma utf8_decode1_cases b rest :
  (0 <= b <= 127 /\ utf8_decode1 b rest = (b, rest)) \/
  (~ (0 <= b <= 127) /\
   ((exists b1 r1, rest = b1 :: r1 /\ 194 <= b <= 223 /\ 128 <= b1 <= 191 /\
                   utf8_decode1 b rest = ((b - 192) * 64 + (b1 - 128), r1))
    \/ 2048 <= fst (utf8_decode1 b rest))).
Proof.
  unfold utf8_decode1, utf8_is_cont, utf8_in, utf8_rune_error; cbv zeta.
  destruct ((0 <=? b) && (b <=? 127)) eqn:E0; [left; split; [lia | reflexivity]|].
  right; split; [lia|].
  destruct ((194 <=? b) && (b <=? 223)) eqn:E1.
  { destruct rest as [|b1 r1]; [right; simpl; lia|].
    destruct ((128 <=? b1) && (b1 <=? 191)) eqn:E2; [|right; simpl; lia].
    left. exists b1, r1. repeat split; try lia. }
  right.
  destruct ((224 <=? b) && (b <=? 239)) eqn:E2.
  { destruct rest as [|b1 [|b2 r2]]; try (simpl; lia).
    destruct (b =? 224) eqn:E3; destruct (b =? 237) eqn:E4;
    match goal with |- context [if ?c then _ else _] => destruct c eqn:E5 end; simpl; lia. }
  destruct ((240 <=? b) && (b <=? 244)) eqn:E3.
  { destruct rest as [|b1 [|b2 [|b3 r3]]]; try (simpl; lia).
    destruct (b =? 240) eqn:E4; destruct (b =? 244) eqn:E5;
    match goal with |- context [if ?c then _ else _] => destruct c eqn:E6 end; simpl; lia. }
  simpl; lia.
Qed.

Lemma utf8_decode1_ascii b rest : is_ascii b = true -> utf8_decode1 b rest = (b, rest).
Proof.
  intros H. destruct (utf8_decode1_cases b rest) as [[_ E]|[N _]]; [exact E|].
  unfold is_ascii in H. exfalso; lia.
Qed.

Lemma utf8_decode_ascii_cons b rest :
  is_ascii b = true -> utf8_decode (b :: rest) = b :: utf8_decode rest.
Proof. intros H. rewrite utf8_decode_cons, utf8_decode1_ascii by exact H. reflexivity. Qed.

Lemma utf8_decode_2byte b b1 rest :
  194 <= b <= 223 -> 128 <= b1 <= 191 ->
  utf8_decode (b :: b1 :: rest) = ((b - 192) * 64 + (b1 - 128)) :: utf8_decode rest.
Proof.
  intros Hb Hb1. rewrite utf8_decode_cons.
  destruct (utf8_decode1_cases b (b1 :: rest)) as [[A _]|[_ [(c & r & E & _ & _ & D)|D]]].
  - lia.
  - inversion E; subst. rewrite D. reflexivity.
  - exfalso. revert D. unfold utf8_decode1, utf8_is_cont, utf8_in.
    replace ((0 <=? b) && (b <=? 127)) with false by lia.
    replace ((194 <=? b) && (b <=? 223)) with true by lia.
    replace ((128 <=? b1) && (b1 <=? 191)) with true by lia. simpl. lia.
Qed.

(* an ASCII-only string is its own rune sequence *)
Lemma utf8_decode_ascii s : forallb is_ascii s = true -> utf8_decode s = s.
Proof.
  induction s as [|b s IH]; simpl; intros H; [reflexivity|].
  apply andb_true_iff in H as [H1 H2].
  rewrite utf8_decode_ascii_cons by exact H1. f_equal; auto.
Qed.

(* a string with a non-ASCII byte has a rune above 127 *)
Lemma utf8_decode_nonascii s :
  forallb is_ascii s = false -> exists r, In r (utf8_decode s) /\ r > 127.
Proof.
  induction s as [|b rest IH] using utf8_ind; simpl; intros H; [discriminate|].
  rewrite utf8_decode_cons.
  destruct (utf8_decode1_cases b rest) as [[A E]|[N D]].
  - rewrite E in *. simpl in *. replace (is_ascii b) with true in H by (unfold is_ascii; lia).
    destruct (IH H) as (r & Hr & Hg). exists r; split; [right; exact Hr | exact Hg].
  - exists (fst (utf8_decode1 b rest)). split; [left; reflexivity|].
    destruct D as [(b1 & r1 & _ & Hb & Hb1 & E)|D]; [rewrite E; simpl|]; lia.
Qed.

(* a string that is empty or does not begin with a continuation byte *)
Definition utf8_clean_start (s : list Z) : Prop :=
  match s with [] => True | b :: _ => utf8_is_cont b = false end.

Lemma utf8_encode_rune_clean r rest : utf8_clean_start (utf8_encode_rune r ++ rest).
Proof.
  unfold utf8_encode_rune, utf8_in.
  repeat match goal with |- context [if ?c then _ else _] => let E := fresh "E" in destruct c eqn:E end;
  cbn [app utf8_clean_start]; unfold utf8_is_cont, utf8_in; lia.
Qed.

Lemma utf8_decode1_app x a b :
  utf8_clean_start b ->
  utf8_decode1 x (a ++ b) = (fst (utf8_decode1 x a), snd (utf8_decode1 x a) ++ b).
Proof.
  intros Hb. unfold utf8_decode1; cbv zeta.
  destruct (utf8_in 0 127 x); [reflexivity|].
  destruct (utf8_in 194 223 x).
  { destruct a as [|a1 a]; [|cbn [app]; destruct (utf8_is_cont a1); reflexivity].
    destruct b as [|c b]; [reflexivity|]. cbn [app utf8_clean_start] in *. rewrite Hb. reflexivity. }
  destruct (utf8_in 224 239 x).
  { set (lo := if x =? 224 then 160 else 128). set (hi := if x =? 237 then 159 else 191).
    assert (Hr : forall c, utf8_is_cont c = false -> utf8_in lo hi c = false).
    { intros c Hc. subst lo hi. unfold utf8_is_cont, utf8_in in *.
      destruct (x =? 224); destruct (x =? 237); lia. }
    destruct a as [|a1 [|a2 a]]; cbn [app].
    - destruct b as [|c [|c2 b]]; try reflexivity. cbn [utf8_clean_start] in Hb.
      rewrite (Hr c Hb). reflexivity.
    - destruct b as [|c b]; [reflexivity|]. cbn [app utf8_clean_start] in *.
      rewrite Hb, andb_false_r. reflexivity.
    - destruct (utf8_in lo hi a1 && utf8_is_cont a2); reflexivity. }
  destruct (utf8_in 240 244 x); [|reflexivity].
  set (lo := if x =? 240 then 144 else 128). set (hi := if x =? 244 then 143 else 191).
  assert (Hr : forall c, utf8_is_cont c = false -> utf8_in lo hi c = false).
  { intros c Hc. subst lo hi. unfold utf8_is_cont, utf8_in in *.
    destruct (x =? 240); destruct (x =? 244); lia. }
  destruct a as [|a1 [|a2 [|a3 a]]]; cbn [app].
  - destruct b as [|c [|c2 [|c3 b]]]; try reflexivity. cbn [utf8_clean_start] in Hb.
    rewrite (Hr c Hb). reflexivity.
  - destruct b as [|c [|c2 b]]; try reflexivity. cbn [app utf8_clean_start] in *.
    rewrite Hb, andb_false_r. reflexivity.
  - destruct b as [|c b]; [reflexivity|]. cbn [app utf8_clean_start] in *.
    rewrite Hb, andb_false_r. reflexivity.
  - destruct (utf8_in lo hi a1 && utf8_is_cont a2 && utf8_is_cont a3); reflexivity.
Qed.

(* decoding distributes over ++ when the right part starts a new sequence *)
Lemma utf8_decode_app a b :
  utf8_clean_start b -> utf8_decode (a ++ b) = utf8_decode a ++ utf8_decode b.
Proof.
  intros Hb. induction a as [|x a IH] using utf8_ind; [reflexivity|].
  simpl app. rewrite !utf8_decode_cons, utf8_decode1_app by exact Hb. simpl.
  f_equal. exact IH.
Qed.

(* ====================================================================== *)
(* searching a Go map by value: the result does not depend on the order    *)
(* ====================================================================== *)
Section FindValue.
  Context {A : Type} (f : A -> Z).

  Lemma find_value_in l v e :
    NoDup (map f l) -> In e l -> f e = v -> find (fun x => f x =? v) l = Some e.
  Proof.
    induction l as [|a l IH]; simpl; intros ND Hin Hv; [contradiction|].
    inversion ND as [|? ? Hna ND']; subst.
    destruct Hin as [->|Hin].
    - rewrite Z.eqb_refl. reflexivity.
    - destruct (f a =? f e) eqn:E; [|auto].
      apply Z.eqb_eq in E. exfalso. apply Hna. rewrite E. apply in_map. exact Hin.
  Qed.

  Lemma find_value_none l v :
    (forall e, In e l -> f e <> v) -> find (fun x => f x =? v) l = None.
  Proof.
    induction l as [|a l IH]; simpl; intros H; [reflexivity|].
    destruct (f a =? v) eqn:E; [apply Z.eqb_eq in E; exfalso; apply (H a); auto|].
    apply IH. intros e He. apply H. auto.
  Qed.

  Lemma find_value_perm l l' v :
    NoDup (map f l) -> Permutation l l' ->
    find (fun x => f x =? v) l' = find (fun x => f x =? v) l.
  Proof.
    intros ND HP. destruct (find (fun x => f x =? v) l) as [e|] eqn:E.
    - apply find_some in E as [Hin Hv]. apply Z.eqb_eq in Hv.
      apply find_value_in; [|eapply Permutation_in; eauto|exact Hv].
      eapply Permutation_NoDup; [apply Permutation_map; exact HP | exact ND].
    - apply find_value_none. intros e He Hv.
      pose proof (find_none _ _ E e (Permutation_in _ (Permutation_sym HP) He)) as Hn.
      simpl in Hn. lia.
  Qed.
End FindValue.

(* ====================================================================== *)
(* full-ASCII unspelling                                                   *)
(* ====================================================================== *)
Section Unspell.
  Variable is_shift : Z -> bool.
  Variable table : list (list Z * Z).

  (* sp is a spelling of a that the reference decoder resolves to a: a single
     non-shift character or a shift character followed by one character *)
  Definition fa_spelling_ok (sp : list Z) (a : Z) : bool :=
    match sp with
    | [c] => negb (is_shift c)
             && match fa_resolve table [c] with Some a' => a' =? a | None => false end
    | [c; d] => is_shift c
             && match fa_resolve table [c; d] with Some a' => a' =? a | None => false end
    | _ => false
    end.

  Lemma fa_unspell_step sp a rest :
    fa_spelling_ok sp a = true ->
    fa_unspell is_shift table (sp ++ rest) =
    (let? r := fa_unspell is_shift table rest in Some (a :: r)).
  Proof.
    unfold fa_spelling_ok. destruct sp as [|c [|d [|? ?]]]; try discriminate; intros H;
    apply andb_true_iff in H as [H1 H2].
    - simpl. apply negb_true_iff in H1. rewrite H1.
      destruct (fa_resolve table [c]) as [a'|]; [|discriminate].
      apply Z.eqb_eq in H2; subst. reflexivity.
    - simpl. rewrite H1.
      destruct (fa_resolve table [c; d]) as [a'|]; [|discriminate].
      apply Z.eqb_eq in H2; subst. reflexivity.
  Qed.

  (* unambiguity: a text spelled character by character reads back as itself *)
  Lemma fa_unspell_flat_map (spell : Z -> list Z) s :
    (forall b, In b s -> fa_spelling_ok (spell b) b = true) ->
    fa_unspell is_shift table (flat_map spell s) = Some s.
  Proof.
    induction s as [|b s IH]; intros H; [reflexivity|].
    simpl flat_map. rewrite (fa_unspell_step _ b) by (apply H; left; reflexivity).
    rewrite IH by (intros; apply H; right; assumption). reflexivity.
  Qed.
End Unspell.

(* boolean equality of table entries *)
Definition entry_eqb (a b : option (Z * list bool)) : bool :=
  match a, b with
  | Some (v, m), Some (v', m') => (v =? v') && bools_eqb m m'
  | None, None => true
  | _, _ => false
  end.

Lemma entry_eqb_eq a b : entry_eqb a b = true -> a = b.
Proof.
  destruct a as [[v m]|], b as [[v' m']|]; simpl; intros H; try discriminate; [|reflexivity].
  apply andb_true_iff in H as [H1 H2]. apply Z.eqb_eq in H1. apply bools_eqb_eq in H2. congruence.
Qed.

(* boolean duplicate check *)
Fixpoint nodupb {A} (eqb : A -> A -> bool) (l : list A) : bool :=
  match l with
  | [] => true
  | x :: t => negb (existsb (eqb x) t) && nodupb eqb t
  end.

Lemma nodupb_NoDup {A} (eqb : A -> A -> bool) (l : list A) :
  (forall a b, eqb a b = true <-> a = b) -> nodupb eqb l = true -> NoDup l.
Proof.
  intros Heq. induction l as [|x l IH]; simpl; intros H; constructor;
  apply andb_true_iff in H as [H1 H2]; [|auto].
  intros Hin. apply negb_true_iff in H1.
  assert (existsb (eqb x) l = true) as E; [|congruence].
  apply existsb_exists. exists x. split; [exact Hin | apply Heq; reflexivity].
Qed.

(* ====================================================================== *)
(* Code 39: table theorems                                                 *)
(* ====================================================================== *)

(* the source's encodeTable is the standard's character table *)
Lemma c39_table_is_standard : forall r, c39_lookup r = c39_spec_entry r.
Proof.
  intros r. destruct (Z_le_gt_dec 0 r) as [H0|H0]; [destruct (Z_le_gt_dec r 127) as [H1|H1]|].
  - apply entry_eqb_eq.
    apply (forallb_zrange (fun r => entry_eqb (c39_lookup r) (c39_spec_entry r)) 128);
      [vm_compute; reflexivity | simpl; lia].
  - unfold c39_lookup, c39_spec_entry.
    rewrite (map_get_none_outside 0 127), (char_index_none_outside 0 127);
      [| reflexivity | lia | reflexivity | lia].
    replace (r =? 42) with false by lia. reflexivity.
  - unfold c39_lookup, c39_spec_entry.
    rewrite (map_get_none_outside 0 127), (char_index_none_outside 0 127);
      [| reflexivity | lia | reflexivity | lia].
    replace (r =? 42) with false by lia. reflexivity.
Qed.

(* the 44 module patterns are pairwise distinct, 12 modules each, 3 wide of 9 *)
Lemma c39_patterns_distinct :
  NoDup c39_symbols
  /\ Forall (fun p => length p = 12%nat) c39_symbols
  /\ forallb c39_three_of_nine (map str_bytes c39_width_patterns) = true
  /\ length c39_symbols = 44%nat.
Proof.
  split; [|split; [|split]].
  - apply (nodupb_NoDup bools_eqb); [apply bools_eqb_eq | vm_compute; reflexivity].
  - apply Forall_forall. intros p Hp. by_cases Hp ltac:(reflexivity).
  - vm_compute; reflexivity.
  - reflexivity.
Qed.

(* the values in the source table are pairwise distinct, the keys too *)
Lemma c39_values_nodup : NoDup (map (fun e : Z * (Z * list bool) => fst (snd e)) code39_encode_table).
Proof. apply (nodupb_NoDup Z.eqb); [apply Z.eqb_eq | vm_compute; reflexivity]. Qed.

Lemma c39_keys_nodup : NoDup (map fst code39_encode_table).
Proof. apply (nodupb_NoDup Z.eqb); [apply Z.eqb_eq | vm_compute; reflexivity]. Qed.

(* getChecksum's search of the map by value gives the same rune whatever order
   the map is iterated in *)
Lemma c39_value_search_order_independent tbl v :
  Permutation code39_encode_table tbl ->
  c39_find_value tbl v = c39_find_value code39_encode_table v.
Proof.
  intros HP. unfold c39_find_value.
  pose proof (find_value_perm (fun e : Z * (Z * list bool) => fst (snd e)) _ _ v c39_values_nodup HP) as H.
  cbv beta in H. rewrite H. reflexivity.
Qed.

(* facts about each data value 0..42 *)
Lemma c39_value_facts v : 0 <= v < 43 ->
  c39_lookup (c39_value_char v) = Some (v, c39_sym_modules v) /\
  is_ascii (c39_value_char v) = true /\
  c39_basic_char (c39_value_char v) = true /\
  c39_find_value code39_encode_table v = Some (c39_value_char v) /\
  utf8_encode_rune (c39_value_char v) = [c39_value_char v].
Proof.
  intros H. assert (In v (zrange 43)) as Hin by (apply in_zrange; simpl; lia).
  by_cases Hin ltac:(vm_compute; repeat split; reflexivity).
Qed.

(* facts about each symbol character 0..43 *)
Lemma c39_symbol_facts v : 0 <= v < 44 ->
  length (c39_sym_modules v) = 12%nat /\ c39_read_symbol (c39_sym_modules v) = Some v.
Proof.
  intros H. assert (In v (zrange 44)) as Hin by (apply in_zrange; simpl; lia).
  by_cases Hin ltac:(vm_compute; repeat split; reflexivity).
Qed.

Lemma c39_lookup_star : c39_lookup 42 = Some (-1, c39_sym_modules 43).
Proof. vm_compute; reflexivity. Qed.

Definition c39_char_value (c : Z) : Z :=
  match char_index c c39_charset 0 with Some v => v | None => 0 end.

Lemma c39_basic_char_value c : c39_basic_char c = true ->
  0 <= c39_char_value c < 43 /\ c39_value_char (c39_char_value c) = c.
Proof.
  unfold c39_basic_char. intros H. apply existsb_exists in H as (x & Hin & Hx).
  apply Z.eqb_eq in Hx; subst x.
  assert ((0 <=? c39_char_value c) && (c39_char_value c <? 43)
          && (c39_value_char (c39_char_value c) =? c) = true) as Hb
    by (by_cases Hin ltac:(vm_compute; reflexivity)).
  lia.
Qed.

(* the source's spelling of an ASCII code *)
Definition c39_go_spelling (b : Z) : list Z :=
  match map_get b code39_extended_table with Some v => v | None => utf8_encode_rune b end.

(* facts about each ASCII code 0..127 *)
Lemma c39_ascii_facts b : is_ascii b = true ->
  (c39_basic_char b = true \/ b = 42 \/ c39_lookup b = None) /\
  c39_go_spelling b = c39_spelling b /\
  forallb c39_basic_char (c39_spelling b) = true /\
  fa_spelling_ok c39_is_shift c39_pair_table (c39_spelling b) b = true.
Proof.
  intros H. assert (In b (zrange 128)) as Hin by (apply in_zrange; unfold is_ascii in H; simpl; lia).
  by_cases Hin ltac:(vm_compute; split;
    [first [left; reflexivity | right; left; reflexivity | right; right; reflexivity]
    | repeat split; reflexivity]).
Qed.

(* the source's extendedTable is the standard's full-ASCII table *)
Lemma c39_extended_table_is_standard b : 0 <= b <= 127 -> c39_go_spelling b = c39_spelling b.
Proof. intros H. apply c39_ascii_facts. unfold is_ascii; lia. Qed.

Lemma c39_lookup_nonascii r : r > 127 -> c39_lookup r = None.
Proof. intros H. apply (map_get_none_outside 0 127); [reflexivity | lia]. Qed.

(* ====================================================================== *)
(* Code 39: full ASCII                                                     *)
(* ====================================================================== *)

(* key lemma: unspelling the standard spelling of an ASCII text gives the text *)
Lemma c39_unspell_spell s : forallb is_ascii s = true -> c39_unspell (c39_spell s) = Some s.
Proof.
  intros H. unfold c39_unspell, c39_spell. apply fa_unspell_flat_map.
  intros b Hb. apply c39_ascii_facts. eapply forallb_forall in H; eauto.
Qed.

Lemma c39_spell_basic s : forallb is_ascii s = true -> forallb c39_basic_char (c39_spell s) = true.
Proof.
  induction s as [|b s IH]; simpl; intros H; [reflexivity|].
  apply andb_true_iff in H as [H1 H2]. rewrite forallb_app, IH by exact H2.
  destruct (c39_ascii_facts b H1) as (_ & _ & F & _). rewrite F. reflexivity.
Qed.

Lemma c39_prepare_runes_ascii s :
  forallb is_ascii s = true -> c39_prepare_runes s = Ok (c39_spell s).
Proof.
  unfold c39_spell.
  induction s as [|b s IH]; cbn [c39_prepare_runes forallb flat_map]; intros H; [reflexivity|].
  apply andb_true_iff in H as [H1 H2]. rewrite IH by exact H2.
  replace (b >? 127) with false by (unfold is_ascii in H1; lia). cbn [obind].
  destruct (c39_ascii_facts b H1) as (_ & G & _). unfold c39_go_spelling in G.
  destruct (map_get b code39_extended_table); rewrite G; reflexivity.
Qed.

Lemma c39_prepare_runes_err runes r :
  In r runes -> r > 127 -> c39_prepare_runes runes = Err.
Proof.
  induction runes as [|x t IH]; simpl; intros Hin Hr; [contradiction|].
  destruct (x >? 127) eqn:E; [reflexivity|].
  destruct Hin as [->|Hin]; [exfalso; lia|]. rewrite (IH Hin Hr). reflexivity.
Qed.

(* ====================================================================== *)
(* Code 39: the encoder on a sequence of data values                       *)
(* ====================================================================== *)
Definition c39_vals_ok (vals : list Z) : Prop := Forall (fun v => 0 <= v < 43) vals.

Lemma c39_chars_ascii vals : c39_vals_ok vals -> forallb is_ascii (map c39_value_char vals) = true.
Proof.
  induction 1 as [|v vals Hv _ IH]; simpl; [reflexivity|].
  destruct (c39_value_facts v Hv) as (_ & A & _). rewrite A, IH. reflexivity.
Qed.

Lemma c39_sum_nonneg vals : c39_vals_ok vals -> 0 <= fold_right Z.add 0 vals.
Proof. induction 1 as [|v vals Hv _ IH]; simpl; lia. Qed.

Lemma c39_check_range vals : 0 <= c39_check vals < 43.
Proof. unfold c39_check. apply Z.mod_pos_bound. lia. Qed.

Lemma c39_sum_runes_vals vals acc : c39_vals_ok vals ->
  c39_sum_runes (map c39_value_char vals) acc = Some (acc + fold_right Z.add 0 vals).
Proof.
  intros H; revert acc; induction H as [|v vals Hv _ IH]; intros acc; cbn [map c39_sum_runes fold_right].
  - f_equal; lia.
  - destruct (c39_value_facts v Hv) as (L & _). rewrite L.
    replace (v <? 0) with false by lia. rewrite IH. f_equal; lia.
Qed.

Lemma c39_get_checksum_vals vals : c39_vals_ok vals ->
  c39_get_checksum (map c39_value_char vals) = [c39_value_char (c39_check vals)].
Proof.
  intros H. unfold c39_get_checksum.
  rewrite utf8_decode_ascii by (apply c39_chars_ascii; exact H).
  rewrite c39_sum_runes_vals by exact H. rewrite Z.add_0_l.
  replace (go_mod (fold_right Z.add 0 vals) 43) with (c39_check vals)
    by (unfold go_mod, c39_check; symmetry; apply Z.rem_mod_nonneg; [apply c39_sum_nonneg; exact H | lia]).
  destruct (c39_value_facts _ (c39_check_range vals)) as (_ & _ & _ & F & U).
  rewrite F, U. reflexivity.
Qed.

(* CheckSum() is the sum of the data values modulo 43, drawn or not *)
Lemma c39_checksum_value_vals vals : c39_vals_ok vals ->
  c39_checksum_value (map c39_value_char vals) = c39_check vals.
Proof.
  intros H. unfold c39_checksum_value. rewrite c39_get_checksum_vals by exact H.
  destruct (c39_value_facts _ (c39_check_range vals)) as (L & A & _).
  rewrite utf8_decode_ascii_cons by exact A. rewrite utf8_decode_nil. cbn [fold_left].
  rewrite L. reflexivity.
Qed.

(* rune printed for a symbol character *)
Definition c39_sym_rune (v : Z) : Z := if v =? 43 then 42 else c39_value_char v.

Lemma c39_sym_lookup v : 0 <= v < 44 ->
  exists x, c39_lookup (c39_sym_rune v) = Some (x, c39_sym_modules v).
Proof.
  intros H. unfold c39_sym_rune. destruct (v =? 43) eqn:E.
  - apply Z.eqb_eq in E; subst. exists (-1). exact c39_lookup_star.
  - exists v. apply c39_value_facts. lia.
Qed.

Lemma c39_draw_syms syms : Forall (fun v => 0 <= v < 44) syms ->
  c39_draw false (map c39_sym_rune syms) = Ok (flat_map (fun w => false :: c39_sym_modules w) syms).
Proof.
  induction 1 as [|v syms Hv _ IH]; [reflexivity|].
  cbn [map c39_draw flat_map]. destruct (c39_sym_lookup v Hv) as (x & L). rewrite L, IH. reflexivity.
Qed.

Lemma c39_draw_layout syms : Forall (fun v => 0 <= v < 44) syms ->
  c39_draw true (map c39_sym_rune syms) = Ok (c39_layout syms).
Proof.
  intros H. destruct H as [|v syms Hv H]; [reflexivity|].
  cbn [map c39_draw c39_layout]. destruct (c39_sym_lookup v Hv) as (x & L).
  rewrite L, (c39_draw_syms syms H). reflexivity.
Qed.

Lemma c39_symbol_ok cs vals : c39_vals_ok vals -> Forall (fun v => 0 <= v < 44) (c39_symbol cs vals).
Proof.
  intros H. unfold c39_symbol, c39_start_stop. repeat (apply Forall_app; split).
  - repeat constructor; lia.
  - eapply Forall_impl; [|exact H]. simpl; intros; lia.
  - destruct cs; repeat constructor; pose proof (c39_check_range vals); lia.
  - repeat constructor; lia.
Qed.

(* the runes the drawing loop visits are the symbol characters of the layout *)
Lemma c39_data_runes (cs : bool) vals : c39_vals_ok vals ->
  utf8_decode ([42] ++ map c39_value_char vals
               ++ (if cs then c39_get_checksum (map c39_value_char vals) else []) ++ [42])
  = map c39_sym_rune (c39_symbol cs vals).
Proof.
  intros H.
  assert (map c39_sym_rune vals = map c39_value_char vals) as Hm.
  { apply map_ext_in. intros v Hv. unfold c39_sym_rune.
    eapply Forall_forall in H; [|exact Hv]. replace (v =? 43) with false by lia. reflexivity. }
  assert (c39_sym_rune (c39_check vals) = c39_value_char (c39_check vals)) as Hc.
  { unfold c39_sym_rune. pose proof (c39_check_range vals). replace (c39_check vals =? 43) with false by lia.
    reflexivity. }
  unfold c39_symbol, c39_start_stop. rewrite !map_app, Hm. cbn [map].
  replace (c39_sym_rune 43) with 42 by reflexivity.
  rewrite utf8_decode_ascii.
  - f_equal. f_equal. f_equal. destruct cs; [|reflexivity].
    rewrite c39_get_checksum_vals by exact H. cbn [map]. rewrite Hc. reflexivity.
  - rewrite !forallb_app, c39_chars_ascii by exact H. cbn [forallb].
    destruct cs; [|reflexivity]. rewrite c39_get_checksum_vals by exact H. cbn [forallb].
    destruct (c39_value_facts _ (c39_check_range vals)) as (_ & A & _). rewrite A. reflexivity.
Qed.

(* the encoder from the point where the (prepared) content is known to consist of
   data characters *)
Lemma c39_encode_tail (cs : bool) vals : c39_vals_ok vals ->
  (let content1 := map c39_value_char vals in
   let data := [42] ++ content1 ++ (if cs then c39_get_checksum content1 else []) ++ [42] in
   do bits <- c39_draw true (utf8_decode data);
   Ok (mk1d KCode39 content1 (Some (c39_checksum_value content1)) bits))
  = Ok (mk1d KCode39 (map c39_value_char vals) (Some (c39_check vals))
             (c39_layout (c39_symbol cs vals))).
Proof.
  intros H. cbv zeta. rewrite c39_data_runes by exact H.
  rewrite c39_draw_layout by (apply c39_symbol_ok; exact H). cbn [obind].
  rewrite c39_checksum_value_vals by exact H. reflexivity.
Qed.

(* ====================================================================== *)
(* Code 39: the reference decoder on a laid-out symbol                     *)
(* ====================================================================== *)
Lemma c39_read_symbols_layout syms : forall v fuel,
  Forall (fun v => 0 <= v < 44) (v :: syms) -> (length syms < fuel)%nat ->
  c39_read_symbols fuel (c39_sym_modules v ++ flat_map (fun w => false :: c39_sym_modules w) syms)
  = Some (v :: syms).
Proof.
  induction syms as [|w t IH]; intros v fuel H Hf; (destruct fuel as [|f]; [lia|]);
  inversion H as [|? ? Hv Ht]; subst; destruct (c39_symbol_facts v Hv) as (L & R);
  cbn [c39_read_symbols].
  - destruct (firstn_skipn_exact (c39_sym_modules v)
              (flat_map (fun w => false :: c39_sym_modules w) []) 12 L) as (F0 & S0).
    rewrite F0, S0, R. reflexivity.
  - destruct (firstn_skipn_exact (c39_sym_modules v)
              (flat_map (fun w => false :: c39_sym_modules w) (w :: t)) 12 L) as (F1 & S1).
    rewrite F1, S1, R. cbn [obind_opt flat_map app].
    rewrite IH; [reflexivity | exact Ht | simpl in Hf; lia].
Qed.

Lemma c39_gaps_length syms :
  (length syms <= length (flat_map (fun w => false :: c39_sym_modules w) syms))%nat.
Proof. induction syms as [|w t IH]; simpl; [lia|]. rewrite app_length. lia. Qed.

Lemma c39_read_layout syms : syms <> [] -> Forall (fun v => 0 <= v < 44) syms ->
  c39_read_symbols (length (c39_layout syms)) (c39_layout syms) = Some syms.
Proof.
  intros Hne H. destruct syms as [|v t]; [congruence|]. unfold c39_layout.
  apply c39_read_symbols_layout; [exact H|].
  inversion H as [|? ? Hv _]; subst. destruct (c39_symbol_facts v Hv) as (L & _).
  rewrite app_length, L. pose proof (c39_gaps_length t). lia.
Qed.

Lemma c39_strip_frame_ok mid : c39_vals_ok mid ->
  c39_strip_frame ([c39_start_stop] ++ mid ++ [c39_start_stop]) = Some mid.
Proof.
  intros H. unfold c39_strip_frame. cbn [app]. rewrite rev_unit.
  rewrite !Z.eqb_refl. cbn [andb].
  replace (forallb (fun v => (0 <=? v) && (v <? 43)) (rev mid)) with true.
  - rewrite rev_involutive. reflexivity.
  - symmetry. apply forallb_forall. intros v Hv. apply in_rev in Hv.
    eapply Forall_forall in H; [|exact Hv]. simpl in H. lia.
Qed.

Lemma c39_strip_check_ok (cs : bool) vals :
  c39_strip_check cs (vals ++ (if cs then [c39_check vals] else [])) = Some vals.
Proof.
  destruct cs; unfold c39_strip_check.
  - rewrite rev_unit, rev_involutive, Z.eqb_refl. reflexivity.
  - rewrite app_nil_r. reflexivity.
Qed.

Lemma c39_decode_values_layout cs vals : c39_vals_ok vals ->
  c39_decode_values cs (c39_layout (c39_symbol cs vals)) = Some vals.
Proof.
  intros H. unfold c39_decode_values.
  rewrite c39_read_layout; [| unfold c39_symbol; discriminate | apply c39_symbol_ok; exact H].
  cbn [obind_opt]. unfold c39_symbol. rewrite (app_assoc vals).
  rewrite c39_strip_frame_ok.
  - cbn [obind_opt]. apply c39_strip_check_ok.
  - apply Forall_app; split; [exact H|]. pose proof (c39_check_range vals). destruct cs; repeat constructor; lia.
Qed.

(* ====================================================================== *)
(* Code 39: acceptance and round trip                                      *)
(* ====================================================================== *)

(* the data values of an accepted text *)
Definition c39_text_values (full : bool) (s : list Z) : list Z :=
  map c39_char_value (if full then c39_spell s else s).

Lemma c39_basic_values chars : forallb c39_basic_char chars = true ->
  c39_vals_ok (map c39_char_value chars) /\ map c39_value_char (map c39_char_value chars) = chars.
Proof.
  induction chars as [|c t IH]; simpl; intros H; [split; [constructor | reflexivity]|].
  apply andb_true_iff in H as [H1 H2]. destruct (IH H2) as (I1 & I2).
  destruct (c39_basic_char_value c H1) as (R & V). split; [constructor; assumption|].
  rewrite V, I2. reflexivity.
Qed.

Lemma c39_no_star s : forallb c39_basic_char s = true -> c39_contains_star s = false.
Proof.
  intros H. unfold c39_contains_star. destruct (existsb (fun b => b =? 42) s) eqn:E; [|reflexivity].
  apply existsb_exists in E as (x & Hin & Hx). apply Z.eqb_eq in Hx; subst.
  eapply forallb_forall in H; [|exact Hin]. vm_compute in H. discriminate.
Qed.

Lemma c39_stage1_accepted full s : c39_accepts full s = true ->
  (if full then c39_prepare s else if c39_contains_star s then Err else Ok s)
  = Ok (if full then c39_spell s else s).
Proof.
  destruct full; simpl; intros H.
  - unfold c39_prepare. rewrite utf8_decode_ascii by exact H. apply c39_prepare_runes_ascii; exact H.
  - rewrite c39_no_star by exact H. reflexivity.
Qed.

Lemma c39_accepted_chars full s : c39_accepts full s = true ->
  forallb c39_basic_char (if full then c39_spell s else s) = true.
Proof. destruct full; simpl; intros H; [apply c39_spell_basic; exact H | exact H]. Qed.

Lemma c39_encode_accepted s cs full : c39_accepts full s = true ->
  c39_encode s cs full =
  Ok (mk1d KCode39 (if full then c39_spell s else s) (Some (c39_check (c39_text_values full s)))
           (c39_layout (c39_symbol cs (c39_text_values full s)))).
Proof.
  intros H. unfold c39_encode. rewrite c39_stage1_accepted by exact H. cbn [obind].
  destruct (c39_basic_values _ (c39_accepted_chars full s H)) as (V & E).
  fold (c39_text_values full s) in V, E.
  pose proof (c39_encode_tail cs _ V) as T. cbv zeta in T. rewrite E in T.
  cbv zeta. exact T.
Qed.

Lemma c39_draw_err runes r first :
  In r runes -> c39_lookup r = None -> c39_draw first runes = Err.
Proof.
  revert first; induction runes as [|x t IH]; simpl; intros first Hin Hr; [contradiction|].
  destruct (c39_lookup x) as [[v d]|] eqn:E; [|reflexivity].
  destruct Hin as [->|Hin]; [congruence|]. rewrite (IH false Hin Hr). reflexivity.
Qed.

Lemma c39_get_checksum_clean content rest : utf8_clean_start (c39_get_checksum content ++ rest).
Proof.
  unfold c39_get_checksum.
  destruct (c39_sum_runes (utf8_decode content) 0); [|reflexivity].
  destruct (c39_find_value code39_encode_table _); [apply utf8_encode_rune_clean | reflexivity].
Qed.

(* a basic-mode text with a character outside the 43 either contains '*' or has a
   rune that is not in the table *)
Lemma c39_bad_rune s : forallb c39_basic_char s = false -> c39_contains_star s = false ->
  exists r, In r (utf8_decode s) /\ c39_lookup r = None.
Proof.
  induction s as [|b rest IH] using utf8_ind; [discriminate|].
  intros H Hs. cbn [forallb c39_contains_star existsb] in H, Hs.
  apply orb_false_iff in Hs as [Hb Hs]. rewrite utf8_decode_cons.
  destruct (utf8_decode1_cases b rest) as [[A E]|[N D]].
  - rewrite E in *. cbn [fst snd] in *.
    assert (is_ascii b = true) as Ab by (unfold is_ascii; lia).
    destruct (c39_ascii_facts b Ab) as ([B|[B|B]] & _).
    + rewrite B in H. destruct (IH H Hs) as (r & Hr & Lr). exists r; split; [right; exact Hr | exact Lr].
    + exfalso; lia.
    + exists b; split; [left; reflexivity | exact B].
  - exists (fst (utf8_decode1 b rest)); split; [left; reflexivity|].
    apply c39_lookup_nonascii.
    destruct D as [(b1 & r1 & _ & Hb' & Hb1 & E)|D]; [rewrite E; cbn [fst]|]; lia.
Qed.

Lemma c39_encode_rejected s cs full : c39_accepts full s = false -> c39_encode s cs full = Err.
Proof.
  intros H. unfold c39_encode. destruct full; simpl in H.
  - unfold c39_prepare. destruct (utf8_decode_nonascii s H) as (r & Hr & Hg).
    rewrite (c39_prepare_runes_err _ r Hr Hg). reflexivity.
  - destruct (c39_contains_star s) eqn:Hs; [reflexivity|]. cbn [obind].
    destruct (c39_bad_rune s H Hs) as (r & Hr & Lr).
    rewrite (c39_draw_err _ r); [reflexivity | | exact Lr].
    cbn [app]. rewrite utf8_decode_ascii_cons by reflexivity. right.
    rewrite utf8_decode_app; [apply in_or_app; left; exact Hr|].
    destruct cs; [apply c39_get_checksum_clean | reflexivity].
Qed.

(* acceptance: exactly the texts over the 43 characters (basic; in particular no
   '*'), exactly the ASCII texts (full ASCII); everything else is an error, never a panic *)
Theorem c39_acceptance s cs full :
  (c39_accepts full s = true -> exists bc, c39_encode s cs full = Ok bc) /\
  (c39_accepts full s = false -> c39_encode s cs full = Err).
Proof.
  split; intros H.
  - eexists. apply c39_encode_accepted; exact H.
  - apply c39_encode_rejected; exact H.
Qed.

(* main theorem *)
Theorem c39_roundtrip s cs full bc : c39_encode s cs full = Ok bc ->
  exists vals,
    Forall (fun v => 0 <= v < 43) vals /\
    bc = mk1d KCode39 (map c39_value_char vals) (Some (c39_check vals))
              (c39_layout (c39_symbol cs vals)) /\
    map c39_value_char vals = (if full then c39_spell s else s) /\
    c39_decode_values cs (c39_layout (c39_symbol cs vals)) = Some vals /\
    c39_decode cs full (c39_layout (c39_symbol cs vals)) = Some s /\
    c39_accepts full s = true.
Proof.
  intros HE. destruct (c39_accepts full s) eqn:HA;
    [|rewrite (c39_encode_rejected s cs full HA) in HE; discriminate].
  rewrite (c39_encode_accepted s cs full HA) in HE. inversion HE; subst bc; clear HE.
  destruct (c39_basic_values _ (c39_accepted_chars full s HA)) as (V & E).
  fold (c39_text_values full s) in V, E.
  exists (c39_text_values full s). split; [exact V|]. split; [rewrite E; reflexivity|].
  split; [exact E|]. split; [apply c39_decode_values_layout; exact V|]. split; [|reflexivity].
  unfold c39_decode. rewrite c39_decode_values_layout by exact V. cbn [obind_opt].
  rewrite E. destruct full; [|reflexivity]. apply c39_unspell_spell. exact HA.
Qed.

(* the hypotheses are satisfiable *)
Lemma c39_example :
  exists bc, c39_encode [67; 111; 100; 101; 32; 51; 57; 42] true true = Ok bc
             /\ bc_width bc = 194 /\ bc_checksum bc = Some 37.
Proof. eexists. vm_compute. repeat split; reflexivity. Qed.
