(* PDF417 layer 2b: numeric compaction (encodeNumeric: 44-digit chunks, leading 1,
   base 900) and byte compaction (encodeBinary: six bytes <-> five codewords base
   900) round trips against the reference decoder, for every digit list and every
   byte list. *)
From Verif Require Import Prelude Barcode TabPdf417 Pdf417M Pdf417Spec Pdf417PTab Pdf417PRow.

Local Ltac Zify.zify_post_hook ::= Z.to_euclidean_division_equations.

Definition cw900 (c : Z) : Prop := 0 <= c < 900.
Definition is_byte (b : Z) : Prop := 0 <= b < 256.

(* ================= numeric ================= *)

(* value of a decimal digit string read after an accumulator *)
Definition dec_val (ds : list Z) (acc : Z) : Z := fold_left (fun a d => a * 10 + (d - 48)) ds acc.

Lemma pdf_parse_dec_spec ds acc :
  Forall (fun d => is_digit d = true) ds -> pdf_parse_dec ds acc = Some (dec_val ds acc).
Proof.
  revert acc; induction ds as [|d ds IH]; intros acc H; [reflexivity|].
  inversion H as [|? ? Hd Hds]; subst. cbn [pdf_parse_dec]. rewrite Hd. apply IH. exact Hds.
Qed.

Lemma dec_val_snoc ds d acc : dec_val (ds ++ [d]) acc = dec_val ds acc * 10 + (d - 48).
Proof. unfold dec_val. rewrite fold_left_app. reflexivity. Qed.

Lemma is_digit_range d : is_digit d = true -> 48 <= d <= 57.
Proof. unfold is_digit. lia. Qed.

Lemma dec_val_bounds ds acc : Forall (fun d => is_digit d = true) ds -> 0 <= acc ->
  acc * 10 ^ zlength ds <= dec_val ds acc < (acc + 1) * 10 ^ zlength ds.
Proof.
  intros H Hacc. induction ds as [|d ds IH] using rev_ind.
  - change (zlength (@nil Z)) with 0. unfold dec_val. simpl. lia.
  - apply Forall_app in H as [Hds Hd]. inversion Hd as [|? ? Hd' _]; subst.
    apply is_digit_range in Hd'. specialize (IH Hds).
    rewrite dec_val_snoc.
    replace (zlength (ds ++ [d])) with (zlength ds + 1) by (unfold zlength; rewrite app_length; simpl; lia).
    rewrite Z.pow_add_r by (unfold zlength; lia). change (10 ^ 1) with 10.
    set (P := 10 ^ zlength ds) in *. set (V := dec_val ds acc) in *. nia.
Qed.

(* base-900 digits, most significant first *)
Definition val900 (cws : list Z) (acc : Z) : Z := fold_left (fun a c => a * 900 + c) cws acc.

Lemma val900_app l1 l2 acc : val900 (l1 ++ l2) acc = val900 l2 (val900 l1 acc).
Proof. apply fold_left_app. Qed.

(* the DivMod loop: the digits of n in front of acc *)
Lemma pdf_base900_spec fuel : forall n acc, 0 <= n -> n < 900 ^ Z.of_nat fuel ->
  exists ds, pdf_base900 fuel n acc = Ok (ds ++ acc) /\ Forall cw900 ds /\
             val900 ds 0 = n /\ (length ds <= fuel)%nat /\
             (0 < n -> 900 ^ (zlength ds - 1) <= n < 900 ^ zlength ds) /\ (n = 0 -> ds = []).
Proof.
  induction fuel as [|f IH]; intros n acc Hn Hlt.
  - change (900 ^ Z.of_nat 0) with 1 in Hlt. assert (n = 0) as -> by lia.
    exists []. split; [reflexivity|]. split; [constructor|]. split; [reflexivity|].
    split; [simpl; lia|]. split; [intros; lia | reflexivity].
  - cbn [pdf_base900]. destruct (n <=? 0) eqn:E.
    + assert (n = 0) as -> by lia. exists []. split; [reflexivity|]. split; [constructor|].
      split; [reflexivity|]. split; [simpl; lia|]. split; [intros; lia | reflexivity].
    + assert (n / 900 < 900 ^ Z.of_nat f) as Hq.
      { rewrite Nat2Z.inj_succ, Z.pow_succ_r in Hlt by lia.
        apply Z.div_lt_upper_bound; lia. }
      destruct (IH (n / 900) (n mod 900 :: acc) ltac:(apply Z.div_pos; lia) Hq)
        as (ds & E1 & F1 & V1 & L1 & B1 & Z1).
      exists (ds ++ [n mod 900]). split; [rewrite E1, <- app_assoc; reflexivity|].
      split; [apply Forall_app; split; [exact F1 | constructor; [unfold cw900; lia | constructor]]|].
      split; [rewrite val900_app, V1; unfold val900; simpl; lia|].
      split; [rewrite app_length; simpl; lia|].
      split; [|intros; lia].
      intros _. replace (zlength (ds ++ [n mod 900])) with (zlength ds + 1)
        by (unfold zlength; rewrite app_length; simpl; lia).
      replace (zlength ds + 1 - 1) with (zlength ds) by lia.
      rewrite Z.pow_add_r by (unfold zlength; lia). change (900 ^ 1) with 900.
      destruct (Z.eq_dec (n / 900) 0) as [Hz|Hnz].
      * rewrite (Z1 Hz). change (zlength (@nil Z)) with 0. change (900 ^ 0) with 1. lia.
      * specialize (B1 ltac:(lia)).
        assert (zlength ds - 1 + 1 = zlength ds) as El by lia.
        assert (900 ^ zlength ds = 900 ^ (zlength ds - 1) * 900) as Ep.
        { rewrite <- El at 1. rewrite Z.pow_add_r; [reflexivity| |lia].
          destruct ds; [exfalso; apply Hnz; unfold val900 in V1; simpl in V1; lia|].
          unfold zlength; simpl length; lia. }
        set (P := 900 ^ zlength ds) in *. set (Q := 900 ^ (zlength ds - 1)) in *. lia.
Qed.

(* the reader's decimal expansion *)
Lemma pdfs_to_decimal_spec ds : forall acc0 fuel out,
  1 <= acc0 -> Forall (fun d => is_digit d = true) ds -> (length ds <= fuel)%nat ->
  pdfs_to_decimal fuel (dec_val ds acc0) out =
  pdfs_to_decimal (fuel - length ds) acc0 (map (fun d => d - 48) ds ++ out).
Proof.
  induction ds as [|d ds IH] using rev_ind; intros acc0 fuel out Hacc Hd Hf.
  - simpl. rewrite Nat.sub_0_r. reflexivity.
  - apply Forall_app in Hd as [Hds Hd]. inversion Hd as [|? ? Hd' _]; subst.
    apply is_digit_range in Hd'.
    rewrite app_length in Hf. simpl in Hf.
    destruct fuel as [|f]; [lia|].
    rewrite dec_val_snoc.
    pose proof (dec_val_bounds ds acc0 Hds ltac:(lia)) as B.
    assert (0 < 10 ^ zlength ds) as Hp by (apply Z.pow_pos_nonneg; unfold zlength; lia).
    assert (1 <= dec_val ds acc0) as Hv by nia.
    cbn [pdfs_to_decimal].
    replace (dec_val ds acc0 * 10 + (d - 48) <=? 0) with false by lia.
    replace ((dec_val ds acc0 * 10 + (d - 48)) / 10) with (dec_val ds acc0) by lia.
    replace ((dec_val ds acc0 * 10 + (d - 48)) mod 10) with (d - 48) by lia.
    rewrite (IH acc0 f (d - 48 :: out) Hacc Hds ltac:(lia)).
    rewrite app_length, map_app, <- app_assoc. cbn [map app length].
    replace (S f - (length ds + 1))%nat with (f - length ds)%nat by lia. reflexivity.
Qed.

Lemma map_digit_back ds : map (fun d => 48 + d) (map (fun d => d - 48) ds) = ds.
Proof. rewrite map_map. rewrite <- (map_id ds) at 2. apply map_ext. intros; lia. Qed.

(* one chunk: "1" ++ chunk, to base 900, and back *)
Lemma pdf_num_chunk_roundtrip chunk :
  Forall (fun d => is_digit d = true) chunk -> (1 <= length chunk <= 44)%nat ->
  exists cws, pdf_base900 (S (length chunk)) (dec_val chunk 1) [] = Ok cws /\
    Forall cw900 cws /\ (1 <= length cws <= 15)%nat /\
    (length chunk = 44%nat -> length cws = 15%nat) /\
    pdfs_num_group cws = Some chunk.
Proof.
  intros Hd Hlen.
  pose proof (dec_val_bounds chunk 1 Hd ltac:(lia)) as B.
  set (v := dec_val chunk 1) in *. set (L := zlength chunk) in *.
  assert (1 <= L <= 44) as HL by (unfold L, zlength; lia).
  assert (0 < 10 ^ L) as Hp by (apply Z.pow_pos_nonneg; lia).
  assert (10 ^ L <= 10 ^ 44) as Hp44 by (apply Z.pow_le_mono_r; lia).
  (* 2 * 10^L <= 900^L <= 900^(S len) : fuel suffices *)
  assert (v < 900 ^ Z.of_nat (S (length chunk))) as Hfuel.
  { assert (2 * 10 ^ L <= 900 ^ L) as H1.
    { assert (10 ^ L * 2 ^ L <= 900 ^ L).
      { rewrite <- Z.pow_mul_l. apply Z.pow_le_mono_l. lia. }
      assert (2 ^ 1 <= 2 ^ L) by (apply Z.pow_le_mono_r; lia). change (2 ^ 1) with 2 in *. nia. }
    assert (900 ^ L <= 900 ^ Z.of_nat (S (length chunk))).
    { apply Z.pow_le_mono_r; unfold L, zlength; lia. }
    lia. }
  destruct (pdf_base900_spec (S (length chunk)) v [] ltac:(lia) Hfuel)
    as (ds & E & F & V & Lf & Bd & _).
  rewrite app_nil_r in E. exists ds. split; [exact E|]. split; [exact F|].
  specialize (Bd ltac:(lia)).
  (* number of codewords from the magnitude *)
  assert (zlength ds <= 15) as Hle15.
  { destruct (Z_le_gt_dec (zlength ds) 15) as [|Hgt]; [assumption|exfalso].
    assert (900 ^ 15 <= 900 ^ (zlength ds - 1)) by (apply Z.pow_le_mono_r; lia).
    change (900 ^ 15) with 205891132094649000000000000000000000000000000 in *.
    change (10 ^ 44) with 100000000000000000000000000000000000000000000 in *. lia. }
  assert (1 <= zlength ds) as Hge1.
  { destruct ds; [|unfold zlength; simpl length; lia].
    change (zlength (@nil Z)) with 0 in Bd. change (900 ^ 0) with 1 in Bd. lia. }
  split; [unfold zlength in *; lia|]. split.
  - intros H44. assert (L = 44) as HL44 by (unfold L, zlength; lia).
    rewrite HL44 in B.
    destruct (Z_le_gt_dec 15 (zlength ds)) as [|Hlt]; [unfold zlength in *; lia|exfalso].
    assert (900 ^ zlength ds <= 900 ^ 14) by (apply Z.pow_le_mono_r; lia).
    change (900 ^ 14) with 228767924549610000000000000000000000000000 in *.
    change (10 ^ 44) with 100000000000000000000000000000000000000000000 in *. lia.
  - unfold pdfs_num_group. fold (val900 ds 0). rewrite V.
    (* enough fuel for the decimal expansion: 10^L <= v < 900^n <= 10^(3n) *)
    assert (L < 3 * zlength ds) as Hdig.
    { destruct (Z_lt_ge_dec L (3 * zlength ds)) as [|Hge]; [assumption|exfalso].
      assert (900 ^ zlength ds < 1000 ^ zlength ds) as H1 by (apply Z.pow_lt_mono_l; lia).
      assert (1000 ^ zlength ds = 10 ^ (3 * zlength ds)) as H2.
      { change 1000 with (10 ^ 3). rewrite <- Z.pow_mul_r by lia. reflexivity. }
      assert (10 ^ (3 * zlength ds) <= 10 ^ L) by (apply Z.pow_le_mono_r; lia). lia. }
    unfold v. rewrite (pdfs_to_decimal_spec chunk 1 (3 * length ds + 1) [] ltac:(lia) Hd)
      by (unfold L, zlength in Hdig; lia).
    destruct (3 * length ds + 1 - length chunk)%nat as [|g] eqn:Eg;
      [unfold L, zlength in Hdig; lia|].
    cbn [pdfs_to_decimal]. change (1 <=? 0) with false. cbv iota.
    change (1 / 10) with 0. change (1 mod 10) with 1.
    destruct g; cbn [pdfs_to_decimal]; change (0 <=? 0) with true; cbv iota;
      rewrite app_nil_r, map_digit_back; reflexivity.
Qed.

Lemma pdf_Forall_firstn {A} (P : A -> Prop) n l : Forall P l -> Forall P (firstn n l).
Proof.
  revert l; induction n as [|n IH]; intros l H; [constructor|].
  destruct l; [constructor|]. inversion H; subst. simpl. constructor; auto.
Qed.

Lemma pdf_Forall_skipn {A} (P : A -> Prop) n l : Forall P l -> Forall P (skipn n l).
Proof.
  revert l; induction n as [|n IH]; intros l H; [exact H|].
  destruct l; [constructor|]. inversion H; subst. simpl. auto.
Qed.

Lemma firstn_length_le {A} n (l : list A) : (length (firstn n l) <= n)%nat.
Proof. rewrite firstn_length. lia. Qed.

(* encodeNumeric: all chunks *)
Lemma pdf_encode_numeric_fuel_spec fuel : forall digits,
  Forall (fun d => is_digit d = true) digits -> (length digits <= fuel)%nat ->
  exists cws, pdf_encode_numeric_fuel fuel digits = Ok cws /\ Forall cw900 cws /\
    (digits <> [] -> cws <> []) /\
    forall g, (length cws <= g)%nat -> pdfs_num_run g cws = Some digits.
Proof.
  induction fuel as [|f IH]; intros digits Hd Hf.
  - destruct digits; [|simpl in Hf; lia]. exists []. repeat split; auto.
    intros g _. destruct g; reflexivity.
  - destruct digits as [|d0 dt] eqn:Ed.
    { exists []. repeat split; auto. intros g _. destruct g; reflexivity. }
    rewrite <- Ed in *. cbn [pdf_encode_numeric_fuel].
    assert (digits <> []) as Hne by (rewrite Ed; discriminate).
    destruct digits as [|d1 dt1] eqn:Ed1; [congruence|]. rewrite <- Ed1 in *.
    set (chunk := firstn 44 digits). set (rest := skipn 44 digits).
    assert (Forall (fun d => is_digit d = true) chunk) as Hc
      by (apply pdf_Forall_firstn; exact Hd).
    assert (Forall (fun d => is_digit d = true) rest) as Hr
      by (apply pdf_Forall_skipn; exact Hd).
    assert (1 <= length chunk <= 44)%nat as Hcl.
    { unfold chunk. rewrite firstn_length. rewrite Ed1. simpl length. lia. }
    rewrite (pdf_parse_dec_spec chunk 1 Hc).
    destruct (pdf_num_chunk_roundtrip chunk Hc Hcl) as (cws & E & F & Lc & L44 & G).
    rewrite E. cbn [obind].
    assert (length rest <= f)%nat as Hrf.
    { unfold rest. rewrite skipn_length. rewrite Ed1 in *. simpl length in *. lia. }
    destruct (IH rest Hr Hrf) as (rc & Er & Fr & Nr & Dr).
    fold rest. rewrite Er. cbn [obind].
    exists (cws ++ rc). split; [reflexivity|].
    split; [apply Forall_app; split; assumption|].
    split; [intros _; destruct cws; [simpl in Lc; lia | discriminate]|].
    intros g Hg. rewrite app_length in Hg.
    destruct g as [|g']; [lia|].
    assert (cws ++ rc <> []) as Hne2 by (destruct cws; [simpl in Lc; lia | discriminate]).
    destruct (cws ++ rc) as [|x xs] eqn:Eapp; [congruence|]. rewrite <- Eapp.
    cbn [pdfs_num_run]. rewrite Eapp. rewrite <- Eapp.
    (* the reader's first group is exactly this chunk's codewords *)
    assert (firstn 15 (cws ++ rc) = cws /\ skipn 15 (cws ++ rc) = rc) as [Ef Es].
    { destruct (Nat.eq_dec (length chunk) 44) as [H44|Hn44].
      - specialize (L44 H44). split.
        + rewrite firstn_app, L44. replace (15 - 15)%nat with 0%nat by lia.
          rewrite <- L44 at 1. rewrite firstn_all. simpl. apply app_nil_r.
        + rewrite skipn_app, L44. replace (15 - 15)%nat with 0%nat by lia.
          rewrite <- L44 at 1. rewrite skipn_all. reflexivity.
      - (* a short chunk is the last one *)
        assert (rest = []) as Hrn.
        { unfold rest. apply skipn_all2. unfold chunk in Hn44, Hcl. rewrite firstn_length in Hn44, Hcl. lia. }
        assert (rc = []) as ->.
        { rewrite Hrn in Er. destruct f; simpl in Er; inversion Er; reflexivity. }
        rewrite app_nil_r. split; [apply firstn_all2; lia | apply skipn_all2; lia]. }
    rewrite Ef, Es, G. cbn [pdfs_obind].
    rewrite (Dr g' ltac:(lia)). cbn [pdfs_obind].
    unfold chunk, rest. rewrite firstn_skipn. reflexivity.
Qed.

Theorem pdf_encode_numeric_roundtrip digits :
  Forall (fun d => is_digit d = true) digits ->
  exists cws, pdf_encode_numeric digits = Ok cws /\ Forall cw900 cws /\
    (digits <> [] -> cws <> []) /\
    pdfs_num_run (length cws) cws = Some digits.
Proof.
  intros Hd. destruct (pdf_encode_numeric_fuel_spec (length digits) digits Hd (le_n _))
    as (cws & E & F & N & D).
  exists cws. unfold pdf_encode_numeric. repeat split; auto.
Qed.

(* ================= byte compaction ================= *)

Lemma pdf_bytes_of_t b0 b1 b2 b3 b4 b5 :
  is_byte b0 -> is_byte b1 -> is_byte b2 -> is_byte b3 -> is_byte b4 -> is_byte b5 ->
  let t := ((((b0 * 256 + b1) * 256 + b2) * 256 + b3) * 256 + b4) * 256 + b5 in
  t / 1099511627776 mod 256 = b0 /\ t / 4294967296 mod 256 = b1 /\ t / 16777216 mod 256 = b2 /\
  t / 65536 mod 256 = b3 /\ t / 256 mod 256 = b4 /\ t mod 256 = b5.
Proof. unfold is_byte. cbv zeta. intros. repeat split; lia. Qed.

Lemma pdf_base900_five t : 0 <= t < 281474976710656 ->
  ((((t / 900 / 900 / 900 / 900) mod 900 * 900 + (t / 900 / 900 / 900) mod 900) * 900 +
    (t / 900 / 900) mod 900) * 900 + (t / 900) mod 900) * 900 + t mod 900 = t.
Proof. intros. lia. Qed.

Lemma pdf_sixpack_roundtrip b0 b1 b2 b3 b4 b5 :
  is_byte b0 -> is_byte b1 -> is_byte b2 -> is_byte b3 -> is_byte b4 -> is_byte b5 ->
  exists w0 w1 w2 w3 w4, pdf_sixpack b0 b1 b2 b3 b4 b5 = [w0; w1; w2; w3; w4] /\
    cw900 w0 /\ cw900 w1 /\ cw900 w2 /\ cw900 w3 /\ cw900 w4 /\
    pdfs_bytes6 w0 w1 w2 w3 w4 = Some [b0; b1; b2; b3; b4; b5].
Proof.
  intros H0 H1 H2 H3 H4 H5. unfold pdf_sixpack.
  destruct (pdf_bytes_of_t b0 b1 b2 b3 b4 b5 H0 H1 H2 H3 H4 H5) as (E0 & E1 & E2 & E3 & E4 & E5).
  cbv zeta in E0, E1, E2, E3, E4, E5.
  set (t := ((((b0 * 256 + b1) * 256 + b2) * 256 + b3) * 256 + b4) * 256 + b5) in *.
  assert (0 <= t < 281474976710656) as Ht by (unfold is_byte in *; unfold t; lia).
  clearbody t. clear H0 H1 H2 H3 H4 H5.
  pose proof (pdf_base900_five t Ht) as Et.
  assert (0 <= t / 900) as P1 by (apply Z.div_pos; lia).
  assert (0 <= t / 900 / 900) as P2 by (apply Z.div_pos; lia).
  assert (0 <= t / 900 / 900 / 900) as P3 by (apply Z.div_pos; lia).
  assert (0 <= t / 900 / 900 / 900 / 900) as P4 by (apply Z.div_pos; lia).
  rewrite (pdf_go_mod_nonneg t 900), (pdf_go_div_nonneg t 900) by lia.
  rewrite (pdf_go_mod_nonneg (t / 900) 900), (pdf_go_div_nonneg (t / 900) 900) by lia.
  rewrite (pdf_go_mod_nonneg (t / 900 / 900) 900), (pdf_go_div_nonneg (t / 900 / 900) 900) by lia.
  rewrite (pdf_go_mod_nonneg (t / 900 / 900 / 900) 900), (pdf_go_div_nonneg (t / 900 / 900 / 900) 900) by lia.
  rewrite (pdf_go_mod_nonneg (t / 900 / 900 / 900 / 900) 900) by lia.
  do 5 eexists. split; [reflexivity|].
  unfold cw900.
  repeat (split; [apply Z.mod_pos_bound; lia|]).
  unfold pdfs_bytes6. rewrite Et.
  replace (t <? 281474976710656) with true by lia.
  rewrite E0, E1, E2, E3, E4, E5. reflexivity.
Qed.

(* strong induction in steps of six *)
Lemma pdf_sixpacks_cw data : Forall is_byte data -> Forall cw900 (pdf_sixpacks data).
Proof.
  intros H. remember (length data) as n eqn:En. revert data H En.
  induction n as [n IH] using lt_wf_ind. intros data H En.
  destruct data as [|b0 [|b1 [|b2 [|b3 [|b4 [|b5 rest]]]]]];
    try (cbn [pdf_sixpacks]; eapply Forall_impl; [|exact H]; unfold is_byte, cw900; intros; lia).
  cbn [pdf_sixpacks].
  repeat match goal with Hx : Forall _ (_ :: _) |- _ => inversion Hx; clear Hx; subst end.
  destruct (pdf_sixpack_roundtrip b0 b1 b2 b3 b4 b5) as (w0 & w1 & w2 & w3 & w4 & E & C0 & C1 & C2 & C3 & C4 & _); auto.
  rewrite E. apply Forall_app. split; [repeat (apply Forall_cons; [assumption|]); apply Forall_nil|].
  eapply IH; [|eassumption|reflexivity]. simpl length. lia.
Qed.

Lemma pdf_sixpacks_924 data : Forall is_byte data -> (length data mod 6 = 0)%nat ->
  pdfs_byte_run_924 (pdf_sixpacks data) = Some data.
Proof.
  intros H. remember (length data) as n eqn:En. revert data H En.
  induction n as [n IH] using lt_wf_ind. intros data H En Hm.
  destruct data as [|b0 [|b1 [|b2 [|b3 [|b4 [|b5 rest]]]]]];
    try (subst n; simpl in Hm; discriminate); [reflexivity|].
  cbn [pdf_sixpacks].
  repeat match goal with Hx : Forall _ (_ :: _) |- _ => inversion Hx; clear Hx; subst end.
  destruct (pdf_sixpack_roundtrip b0 b1 b2 b3 b4 b5) as (w0 & w1 & w2 & w3 & w4 & E & _ & _ & _ & _ & _ & D); auto.
  rewrite E. cbn [app pdfs_byte_run_924]. rewrite D. cbn [pdfs_obind].
  rewrite (IH (length rest)); [reflexivity | simpl length; lia | assumption | reflexivity |].
  simpl length in Hm.
  replace (S (S (S (S (S (S (length rest))))))) with (length rest + 1 * 6)%nat in Hm by lia.
  rewrite Nat.mod_add in Hm by lia. exact Hm.
Qed.

Lemma pdf_sixpacks_nonempty data : data <> [] -> pdf_sixpacks data <> [].
Proof.
  destruct data as [|b0 [|b1 [|b2 [|b3 [|b4 [|b5 rest]]]]]]; intros H; try congruence;
    cbn [pdf_sixpacks]; unfold pdf_sixpack; discriminate.
Qed.

Lemma pdfs_byte_run_901_step c0 c1 c2 c3 c4 rest : rest <> [] ->
  pdfs_byte_run_901 (c0 :: c1 :: c2 :: c3 :: c4 :: rest) =
  (dopt g <- pdfs_bytes6 c0 c1 c2 c3 c4; dopt r <- pdfs_byte_run_901 rest; Some (g ++ r)).
Proof. destruct rest; [congruence | reflexivity]. Qed.

Lemma pdf_sixpacks_901 data : Forall is_byte data -> (length data mod 6 <> 0)%nat ->
  pdfs_byte_run_901 (pdf_sixpacks data) = Some data.
Proof.
  intros H. remember (length data) as n eqn:En. revert data H En.
  induction n as [n IH] using lt_wf_ind. intros data H En Hm.
  assert (forall l, Forall is_byte l -> pdfs_direct_bytes l = Some l) as Hdirect.
  { intros l Hl. unfold pdfs_direct_bytes.
    replace (forallb (fun c => c <? 256) l) with true; [reflexivity|].
    symmetry. apply forallb_forall. intros x Hx. rewrite Forall_forall in Hl.
    specialize (Hl x Hx). unfold is_byte in Hl. lia. }
  destruct data as [|b0 [|b1 [|b2 [|b3 [|b4 [|b5 rest]]]]]];
    try (cbn [pdf_sixpacks pdfs_byte_run_901]; apply Hdirect; exact H).
  cbn [pdf_sixpacks].
  pose proof H as Hall.
  repeat match goal with Hx : Forall _ (_ :: _) |- _ => inversion Hx; clear Hx; subst end.
  destruct (pdf_sixpack_roundtrip b0 b1 b2 b3 b4 b5) as (w0 & w1 & w2 & w3 & w4 & E & _ & _ & _ & _ & _ & D); auto.
  rewrite E. cbn [app].
  assert (rest <> []) as Hrne.
  { intros ->. simpl in Hm. apply Hm. reflexivity. }
  pose proof (pdf_sixpacks_nonempty rest Hrne) as Hne.
  rewrite pdfs_byte_run_901_step by exact Hne. rewrite D. cbn [pdfs_obind].
  rewrite (IH (length rest)); [reflexivity | simpl length; lia | assumption | reflexivity |].
  simpl length in Hm.
  replace (S (S (S (S (S (S (length rest))))))) with (length rest + 1 * 6)%nat in Hm by lia.
  rewrite Nat.mod_add in Hm by lia. exact Hm.
Qed.
