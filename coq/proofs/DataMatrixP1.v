(* DataMatrix, layer 3a: unbounded lemmas about the codeword stream
   (encodeText / addPadding against the ASCII decoder and the pad checker of
   the specification).  Everything here is by induction on the input. *)
From Verif Require Import Prelude Barcode GFM TabDataMatrix DataMatrixM DataMatrixSpec.

Local Ltac Zify.zify_post_hook ::= Z.div_mod_to_equations.

Definition is_byte (c : Z) : Prop := 0 <= c < 256.
Definition bytes (l : list Z) : Prop := Forall is_byte l.

(* ---------- small list facts ---------- *)
Lemma zlength_nil {A} : zlength (@nil A) = 0.
Proof. reflexivity. Qed.

Lemma zlength_cons {A} (x : A) l : zlength (x :: l) = zlength l + 1.
Proof. unfold zlength. simpl length. lia. Qed.

Lemma zlength_app {A} (l1 l2 : list A) : zlength (l1 ++ l2) = zlength l1 + zlength l2.
Proof. unfold zlength. rewrite app_length. lia. Qed.

Lemma zlength_nonneg {A} (l : list A) : 0 <= zlength l.
Proof. unfold zlength. lia. Qed.

Lemma zlength_map {A B} (f : A -> B) l : zlength (map f l) = zlength l.
Proof. unfold zlength. now rewrite map_length. Qed.

Lemma zlength_repeat {A} (x : A) n : zlength (repeat x n) = Z.of_nat n.
Proof. unfold zlength. now rewrite repeat_length. Qed.

(* induction two elements at a time *)
Lemma list_ind2 {A} (P : list A -> Prop) :
  P [] -> (forall x, P [x]) ->
  (forall x y l, P l -> P (y :: l) -> P (x :: y :: l)) ->
  forall l, P l.
Proof.
  intros H0 H1 H2 l.
  assert (H : P l /\ forall x, P (x :: l)).
  { induction l as [|y l [IHa IHb]]; split; auto. }
  exact (proj1 H).
Qed.

(* ---------- the decoder on single codewords ---------- *)
Lemma dm_ascii_char cw t pos : 1 <= cw <= 128 ->
  dm_ascii (cw :: t) pos = prepend [cw - 1] (dm_ascii t (pos + 1)).
Proof.
  intros H. cbn [dm_ascii].
  replace (cw =? 129) with false by lia.
  replace ((1 <=? cw) && (cw <=? 128)) with true by lia. reflexivity.
Qed.

Lemma dm_ascii_pair cw t pos : 130 <= cw <= 229 ->
  dm_ascii (cw :: t) pos =
  prepend [48 + (cw - 130) / 10; 48 + (cw - 130) mod 10] (dm_ascii t (pos + 1)).
Proof.
  intros H. cbn [dm_ascii].
  replace (cw =? 129) with false by lia.
  replace ((1 <=? cw) && (cw <=? 128)) with false by lia.
  replace ((130 <=? cw) && (cw <=? 229)) with true by lia. reflexivity.
Qed.

Lemma dm_ascii_shift v t pos : 1 <= v <= 128 ->
  dm_ascii (235 :: v :: t) pos = prepend [v + 127] (dm_ascii t (pos + 2)).
Proof.
  intros H. cbn [dm_ascii].
  replace (235 =? 129) with false by reflexivity.
  replace ((1 <=? 235) && (235 <=? 128)) with false by reflexivity.
  replace ((130 <=? 235) && (235 <=? 229)) with false by reflexivity.
  replace (235 =? 235) with true by reflexivity.
  replace ((1 <=? v) && (v <=? 128)) with true by lia. reflexivity.
Qed.

Lemma dm_ascii_pad t pos : dm_ascii (129 :: t) pos = Some ([], dm_pads_ok t (pos + 1)).
Proof. reflexivity. Qed.

Lemma prepend_prepend a b o : prepend a (prepend b o) = prepend (a ++ b) o.
Proof. destruct o as [[l ok]|]; simpl; auto. now rewrite app_assoc. Qed.

(* ---------- encodeText ---------- *)
Lemma encode_text_cons2 c c2 t :
  encode_text (c :: c2 :: t) =
  if is_digit c && is_digit c2 then enc_pair c c2 :: encode_text t
  else enc_single c ++ encode_text (c2 :: t).
Proof. reflexivity. Qed.

Lemma enc_single_decode c rest pos : is_byte c ->
  dm_ascii (enc_single c ++ rest) pos =
  prepend [c] (dm_ascii rest (pos + zlength (enc_single c))).
Proof.
  intros Hc. unfold is_byte in Hc. unfold enc_single.
  destruct (c >? 127) eqn:E.
  - cbn [app]. rewrite dm_ascii_shift by lia.
    replace (c - 127 + 127) with c by lia.
    replace (zlength [235; c - 127]) with 2 by reflexivity. reflexivity.
  - cbn [app]. rewrite dm_ascii_char by lia.
    replace (c + 1 - 1) with c by lia.
    replace (zlength [c + 1]) with 1 by reflexivity. reflexivity.
Qed.

Lemma enc_pair_decode c c2 rest pos : is_digit c = true -> is_digit c2 = true ->
  dm_ascii (enc_pair c c2 :: rest) pos = prepend [c; c2] (dm_ascii rest (pos + 1)).
Proof.
  unfold is_digit, enc_pair. intros H1 H2.
  rewrite dm_ascii_pair by lia.
  replace (48 + ((c - 48) * 10 + (c2 - 48) + 130 - 130) / 10) with c by lia.
  replace (48 + ((c - 48) * 10 + (c2 - 48) + 130 - 130) mod 10) with c2 by lia.
  reflexivity.
Qed.

(* the ASCII decoder inverts encodeText, whatever follows *)
Lemma dm_ascii_encode_text s : bytes s -> forall rest pos,
  dm_ascii (encode_text s ++ rest) pos =
  prepend s (dm_ascii rest (pos + zlength (encode_text s))).
Proof.
  induction s as [|c|c c2 t IH1 IH2] using list_ind2; intros Hb rest pos.
  - cbn [encode_text app]. rewrite zlength_nil, Z.add_0_r.
    destruct (dm_ascii rest pos) as [[l ok]|]; reflexivity.
  - inversion Hb; subst. cbn [encode_text]. now apply enc_single_decode.
  - inversion Hb as [|? ? Hc Hb']; subst.
    rewrite encode_text_cons2.
    destruct (is_digit c && is_digit c2) eqn:E.
    + apply andb_prop in E. destruct E as [E1 E2].
      inversion Hb'; subst.
      cbn [app]. rewrite enc_pair_decode by assumption.
      rewrite IH1 by assumption. rewrite prepend_prepend. cbn [app].
      rewrite zlength_cons. f_equal. f_equal. lia.
    + rewrite <- app_assoc. rewrite enc_single_decode by assumption.
      rewrite IH2 by assumption. rewrite prepend_prepend. cbn [app].
      rewrite zlength_app. f_equal. f_equal. lia.
Qed.

(* the number of codewords is the specification's encodation length *)
Lemma encode_text_len s : zlength (encode_text s) = dm_ascii_len s.
Proof.
  induction s as [|c|c c2 t IH1 IH2] using list_ind2.
  - reflexivity.
  - cbn [encode_text dm_ascii_len]. unfold enc_single.
    destruct (c >? 127) eqn:E.
    + replace (c >=? 128) with true by lia. reflexivity.
    + replace (c >=? 128) with false by lia. reflexivity.
  - rewrite encode_text_cons2.
    change (dm_ascii_len (c :: c2 :: t)) with
      (if (48 <=? c) && (c <=? 57) && (48 <=? c2) && (c2 <=? 57) then 1 + dm_ascii_len t
       else (if c >=? 128 then 2 else 1) + dm_ascii_len (c2 :: t)).
    unfold is_digit.
    replace ((48 <=? c) && (c <=? 57) && (48 <=? c2) && (c2 <=? 57))
      with ((48 <=? c) && (c <=? 57) && ((48 <=? c2) && (c2 <=? 57)))
      by (now rewrite !andb_assoc).
    destruct ((48 <=? c) && (c <=? 57) && ((48 <=? c2) && (c2 <=? 57))).
    + rewrite zlength_cons, IH1. lia.
    + rewrite zlength_app, IH2. unfold enc_single.
      destruct (c >? 127) eqn:E.
      * replace (c >=? 128) with true by lia. reflexivity.
      * replace (c >=? 128) with false by lia. reflexivity.
Qed.

Lemma dm_ascii_len_nonneg s : 0 <= dm_ascii_len s.
Proof. rewrite <- encode_text_len. apply zlength_nonneg. Qed.

(* codewords are bytes (in fact in 1..235) *)
Lemma encode_text_bytes s : bytes s -> bytes (encode_text s).
Proof.
  induction s as [|c|c c2 t IH1 IH2] using list_ind2; intros Hb.
  - constructor.
  - inversion Hb as [|? ? Hc ?]; subst. unfold is_byte in Hc.
    cbn [encode_text]. unfold enc_single.
    destruct (c >? 127) eqn:E; repeat constructor; unfold is_byte; lia.
  - inversion Hb as [|? ? Hc Hb']; subst. unfold is_byte in Hc.
    rewrite encode_text_cons2.
    destruct (is_digit c && is_digit c2) eqn:E.
    + apply andb_prop in E. destruct E as [E1 E2]. unfold is_digit in E1, E2.
      inversion Hb'; subst.
      constructor; [unfold is_byte, enc_pair; lia | apply IH1; assumption].
    + apply Forall_app. split; [|apply IH2; assumption].
      unfold enc_single.
      destruct (c >? 127) eqn:E'; repeat constructor; unfold is_byte; lia.
Qed.

(* ---------- addPadding ---------- *)
Lemma pad_codeword_range len : 0 <= len -> 1 <= pad_codeword len <= 254.
Proof.
  intros H. unfold pad_codeword, go_mod.
  rewrite Z.rem_mod_nonneg by lia.
  destruct (129 + ((149 * (len + 1)) mod 253 + 1) >? 254) eqn:E; lia.
Qed.

Lemma pad_codeword_unrandomise len : 0 <= len ->
  unrandomise_253 (pad_codeword len) (len + 1) = 129.
Proof.
  intros H. unfold pad_codeword, unrandomise_253, go_mod.
  rewrite Z.rem_mod_nonneg by lia.
  set (r := (149 * (len + 1)) mod 253).
  assert (0 <= r < 253) by (unfold r; lia).
  destruct (129 + (r + 1) >? 254) eqn:E.
  - replace (129 + (r + 1) - 254 - (r + 1) <? 1) with true by lia. lia.
  - replace (129 + (r + 1) - (r + 1) <? 1) with false by lia. lia.
Qed.

Lemma pad_loop_ok n : forall len, 0 <= len ->
  dm_pads_ok (pad_loop n len) (len + 1) = true.
Proof.
  induction n as [|n IH]; intros len H; cbn [pad_loop dm_pads_ok]; auto.
  rewrite pad_codeword_unrandomise by assumption.
  pose proof (pad_codeword_range len H) as R.
  replace (1 <=? pad_codeword len) with true by lia. replace (pad_codeword len <=? 254) with true by lia.
  rewrite IH by lia. reflexivity.
Qed.

Lemma pad_loop_length n len : zlength (pad_loop n len) = Z.of_nat n.
Proof.
  revert len. induction n as [|n IH]; intros len; cbn [pad_loop].
  - reflexivity.
  - rewrite zlength_cons, IH. lia.
Qed.

Lemma pad_loop_bytes n : forall len, 0 <= len -> bytes (pad_loop n len).
Proof.
  induction n as [|n IH]; intros len H; cbn [pad_loop]; constructor.
  - pose proof (pad_codeword_range len H). unfold is_byte. lia.
  - apply IH. lia.
Qed.

Lemma add_padding_length data n : zlength data <= n ->
  zlength (add_padding data n) = n.
Proof.
  intros H. unfold add_padding. pose proof (zlength_nonneg data).
  destruct (zlength data <? n) eqn:E.
  - rewrite zlength_app, pad_loop_length, !zlength_app.
    change (zlength [129]) with 1. lia.
  - rewrite zlength_app, pad_loop_length. lia.
Qed.

Lemma add_padding_bytes data n : bytes data -> bytes (add_padding data n).
Proof.
  intros Hb. unfold add_padding. pose proof (zlength_nonneg data).
  destruct (zlength data <? n) eqn:E.
  - apply Forall_app. split.
    + apply Forall_app. split; auto. repeat constructor; unfold is_byte; lia.
    + apply pad_loop_bytes. apply zlength_nonneg.
  - apply Forall_app. split; auto. apply pad_loop_bytes. lia.
Qed.

(* reading the padded data codewords gives back the content, and the pad
   codewords have the randomised form the specification's checker accepts *)
Lemma dm_ascii_padded s n : bytes s -> zlength (encode_text s) <= n ->
  dm_ascii (add_padding (encode_text s) n) 1 = Some (s, true).
Proof.
  intros Hb Hn. unfold add_padding. pose proof (zlength_nonneg (encode_text s)) as Hl.
  destruct (zlength (encode_text s) <? n) eqn:E.
  - rewrite <- app_assoc. rewrite dm_ascii_encode_text by assumption.
    cbn [app]. rewrite dm_ascii_pad. cbn [prepend]. rewrite app_nil_r.
    rewrite zlength_app. change (zlength [129]) with 1.
    replace (1 + zlength (encode_text s) + 1) with (zlength (encode_text s) + 1 + 1) by lia.
    rewrite pad_loop_ok by lia. reflexivity.
  - replace (Z.to_nat (n - zlength (encode_text s))) with O by lia.
    cbn [pad_loop]. rewrite dm_ascii_encode_text by assumption.
    cbn [dm_ascii prepend]. now rewrite app_nil_r.
Qed.
