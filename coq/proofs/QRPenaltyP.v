(* QR mask selection (model/QRMPenalty.v): the selection loop returns the first index of
   minimal penalty; qr_encode_auto is one of the eight qr_encode candidates, accepts
   exactly what qr_encode accepts, and inherits the C01 theorems. *)
From Verif Require Import Prelude Barcode BitListM GFM TabQr QRMBits QRMBlocks QRMRender QRM QRMPenalty
  QRSpec QRP1Tables QRP2Layout QRP3Pad QRP4Blocks QRP5Place QRP6Compose QRProps.

(* ================= the selection loop ================= *)
Lemma choose_loop_spec ps : forall i lo idx,
  let k := choose_loop ps i lo idx in
  (k = idx /\ match lo with None => ps = [] | Some l => forall p, In p ps -> l <= p end)
  \/ (exists n pk, k = i + Z.of_nat n /\ nth_error ps n = Some pk
        /\ match lo with None => True | Some l => pk < l end
        /\ forall j pj, nth_error ps j = Some pj -> pk <= pj /\ ((j < n)%nat -> pk < pj)).
Proof.
  induction ps as [|p t IH]; intros i lo idx; cbn [choose_loop].
  - left. split; [reflexivity|]. destruct lo; [intros q []|reflexivity].
  - assert (Htake : (match lo with None => True | Some l => p < l end) ->
              exists n pk, choose_loop t (i + 1) (Some p) i = i + Z.of_nat n
                 /\ nth_error (p :: t) n = Some pk
                 /\ match lo with None => True | Some l => pk < l end
                 /\ forall j pj, nth_error (p :: t) j = Some pj -> pk <= pj /\ ((j < n)%nat -> pk < pj)).
    { intros Hlo. destruct (IH (i + 1) (Some p) i) as [[Hk Hall]|(n & pk & Hk & Hn & Hlt & Hmin)].
      - exists 0%nat, p. rewrite Hk. split; [lia|]. split; [reflexivity|]. split; [exact Hlo|].
        intros [|j] pj Hj; cbn [nth_error] in Hj.
        + injection Hj as <-. split; lia.
        + split; [|lia]. apply Hall. eapply nth_error_In; eassumption.
      - exists (S n), pk. rewrite Hk. split; [lia|]. split; [exact Hn|].
        split; [destruct lo; [lia|exact I]|].
        intros [|j] pj Hj; cbn [nth_error] in Hj.
        + injection Hj as <-. split; lia.
        + destruct (Hmin j pj Hj) as [H1 H2]. split; [exact H1|]. intros Hlt'. apply H2. lia. }
    destruct lo as [l|].
    + destruct (p <? l) eqn:E.
      * right. apply Htake. lia.
      * destruct (IH (i + 1) (Some l) idx) as [[Hk Hall]|(n & pk & Hk & Hn & Hlt & Hmin)].
        -- left. split; [exact Hk|]. intros q [<-|Hq]; [lia|apply Hall; exact Hq].
        -- right. exists (S n), pk. rewrite Hk. split; [lia|]. split; [exact Hn|]. split; [exact Hlt|].
           intros [|j] pj Hj; cbn [nth_error] in Hj.
           ++ injection Hj as <-. split; lia.
           ++ destruct (Hmin j pj Hj) as [H1 H2]. split; [exact H1|]. intros Hlt'. apply H2. lia.
    + right. apply Htake. exact I.
Qed.

(* the index of a non-empty list: the first position of the minimum *)
Lemma choose_index_spec ps : ps <> [] ->
  exists n pk, choose_index ps = Z.of_nat n /\ nth_error ps n = Some pk
    /\ forall j pj, nth_error ps j = Some pj -> pk <= pj /\ ((j < n)%nat -> pk < pj).
Proof.
  intros Hne. unfold choose_index.
  destruct (choose_loop_spec ps 0 None (-1)) as [[_ H]|(n & pk & Hk & Hn & _ & Hmin)]; [contradiction|].
  exists n, pk. split; [rewrite Hk; lia|]. split; assumption.
Qed.

Lemma choose_index_empty : choose_index [] = -1.
Proof. reflexivity. Qed.

Lemma zget_nth_error {A} (l : list A) (n : nat) : zget l (Z.of_nat n) = nth_error l n.
Proof. unfold zget. destruct (Z.of_nat n <? 0) eqn:E; [lia|]. rewrite Nat2Z.id. reflexivity. Qed.

Lemma zget_some {A} (l : list A) i a : zget l i = Some a ->
  0 <= i < zlength l /\ nth_error l (Z.to_nat i) = Some a.
Proof.
  unfold zget, zlength. destruct (i <? 0) eqn:E; [discriminate|]. intros H. split; [|exact H].
  assert (Z.to_nat i < length l)%nat by (apply nth_error_Some; congruence). lia.
Qed.

(* (a) the chosen index is inside the candidate list *)
Theorem choose_mask_range ms : ms <> [] -> 0 <= choose_mask ms < zlength ms.
Proof.
  intros Hne. unfold choose_mask.
  destruct (choose_index_spec (map calc_penalty ms)) as (n & pk & Hk & Hn & _).
  { destruct ms; [contradiction|discriminate]. }
  rewrite Hk. assert (n < length (map calc_penalty ms))%nat by (apply nth_error_Some; congruence).
  rewrite map_length in H. unfold zlength. lia.
Qed.

(* (b) minimality and tie-break: the chosen candidate's penalty is <= every candidate's
   and strictly below every earlier candidate's *)
Theorem choose_mask_minimal ms : ms <> [] ->
  exists mk, zget ms (choose_mask ms) = Some mk
    /\ forall j mj, zget ms j = Some mj ->
         calc_penalty mk <= calc_penalty mj /\ (j < choose_mask ms -> calc_penalty mk < calc_penalty mj).
Proof.
  intros Hne. unfold choose_mask.
  destruct (choose_index_spec (map calc_penalty ms)) as (n & pk & Hk & Hn & Hmin).
  { destruct ms; [contradiction|discriminate]. }
  rewrite Hk, zget_nth_error. rewrite nth_error_map in Hn.
  destruct (nth_error ms n) as [mk|] eqn:En; [|discriminate]. injection Hn as <-.
  exists mk. split; [reflexivity|]. intros j mj Hj.
  apply zget_some in Hj. destruct Hj as [Hr Hj].
  destruct (Hmin (Z.to_nat j) (calc_penalty mj)) as [H1 H2].
  { rewrite nth_error_map, Hj. reflexivity. }
  split; [exact H1|]. intros Hlt. apply H2. lia.
Qed.

(* ================= the eight candidates ================= *)
Lemma oseq_map_nth {A B} (f : A -> outcome B) l : forall rs, oseq (map f l) = Ok rs ->
  length rs = length l
  /\ forall n r, nth_error rs n = Some r -> exists a, nth_error l n = Some a /\ f a = Ok r.
Proof.
  induction l as [|a t IH]; intros rs H; cbn [map oseq] in H.
  - injection H as <-. split; [reflexivity|]. intros [|n] r Hn; discriminate.
  - destruct (f a) as [r0| | |] eqn:Ea; cbn [obind] in H; try discriminate.
    destruct (oseq (map f t)) as [rt| | |] eqn:Et; cbn [obind] in H; try discriminate.
    injection H as <-. destruct (IH rt eq_refl) as [Hl Hn]. split; [cbn [length]; lia|].
    intros [|n] r Hr; cbn [nth_error] in Hr |- *.
    + injection Hr as <-. exists a. split; [reflexivity|exact Ea].
    + apply Hn. exact Hr.
Qed.

Lemma oseq_map_ok {A B} (f : A -> outcome B) l :
  (forall a, In a l -> exists r, f a = Ok r) -> exists rs, oseq (map f l) = Ok rs.
Proof.
  induction l as [|a t IH]; intros H; cbn [map oseq].
  - eauto.
  - destruct (H a (or_introl eq_refl)) as (r & ->). cbn [obind].
    destruct IH as (rs & ->); [intros b Hb; apply H; right; exact Hb|]. cbn [obind]. eauto.
Qed.

Lemma oseq_map_map {A B C} (f : A -> outcome B) (g : B -> C) l rs :
  oseq (map f l) = Ok rs -> oseq (map (fun a => do b <- f a; Ok (g b)) l) = Ok (map g rs).
Proof.
  revert rs. induction l as [|a t IH]; intros rs H; cbn [map oseq] in H |- *.
  - injection H as <-. reflexivity.
  - destruct (f a) as [r0| | |]; cbn [obind] in H |- *; try discriminate.
    destruct (oseq (map f t)) as [rt| | |]; cbn [obind] in H; try discriminate.
    injection H as <-. rewrite (IH rt eq_refl). reflexivity.
Qed.

Definition all_masks : list Z := [0; 1; 2; 3; 4; 5; 6; 7].

Lemma all_masks_nth n a : nth_error all_masks n = Some a -> a = Z.of_nat n /\ 0 <= a < 8.
Proof.
  unfold all_masks. do 8 (destruct n as [|n]; [cbn; intros H; injection H as <-; lia|]).
  destruct n; discriminate.
Qed.

(* results[0..7] of the model's render are the eight qr_encode candidates, and
   QRM.qr_encode_all lists their barcodes *)
Lemma qr_render_all_spec c l m ms : qr_render_all c l m = Ok ms ->
  zlength ms = 8
  /\ (forall k mk, zget ms k = Some mk -> 0 <= k < 8 /\ qr_encode c l m k = Ok (qr_barcode c mk))
  /\ qr_encode_all c l m = Ok (map (qr_barcode c) ms).
Proof.
  unfold qr_render_all, qr_encode_all, qr_encode, render. intros H.
  destruct (qr_encode_data c l m) as [[data vi]| | |]; cbn [obind] in H |- *; try discriminate.
  destruct (base_matrix (vi_version vi)) as [base| | |]; cbn [obind] in H |- *; try discriminate.
  destruct (iterate_modules (fst base)) as [order| | |]; cbn [obind] in H |- *; try discriminate.
  fold all_masks in H |- *.
  destruct (oseq_map_nth _ _ _ H) as [Hlen Hnth].
  split; [unfold zlength; rewrite Hlen; reflexivity|]. split.
  - intros k mk Hk. apply zget_some in Hk. destruct Hk as [Hr Hk].
    destruct (Hnth _ _ Hk) as (a & Ha & Er). apply all_masks_nth in Ha. destruct Ha as [Ha Hr'].
    assert (Hak : a = k) by lia. rewrite Hak in Er, Hr'. split; [exact Hr'|]. rewrite Er. reflexivity.
  - apply (oseq_map_map (fun mask => render_on base order data vi mask) (qr_barcode c)). exact H.
Qed.

Lemma qr_render_all_complete c l m :
  (forall k, 0 <= k < 8 -> exists bc, qr_encode c l m k = Ok bc) -> exists ms, qr_render_all c l m = Ok ms.
Proof.
  intros H. unfold qr_render_all. unfold qr_encode, render in H.
  destruct (H 0 ltac:(lia)) as (bc0 & H0).
  destruct (qr_encode_data c l m) as [[data vi]| | |]; cbn [obind] in H, H0 |- *; try discriminate.
  destruct (base_matrix (vi_version vi)) as [base| | |]; cbn [obind] in H, H0 |- *; try discriminate.
  destruct (iterate_modules (fst base)) as [order| | |]; cbn [obind] in H, H0 |- *; try discriminate.
  apply oseq_map_ok. intros a Ha.
  assert (Hr : 0 <= a < 8) by (cbn [In] in Ha; lia).
  destruct (H a Hr) as (bc & Hbc).
  destruct (render_on base order data vi a) as [r| | |]; cbn [obind] in Hbc; try discriminate. eauto.
Qed.

(* ================= qr_encode_auto ================= *)
(* (c) the result is the qr_encode candidate of the chosen mask *)
Lemma qr_encode_auto_inv c l m bc : qr_encode_auto c l m = Ok bc ->
  exists ms, qr_render_all c l m = Ok ms /\ 0 <= choose_mask ms < 8
    /\ qr_encode c l m (choose_mask ms) = Ok bc.
Proof.
  unfold qr_encode_auto. intros H.
  destruct (qr_render_all c l m) as [ms| | |] eqn:Er; cbn [obind] in H; try discriminate.
  destruct (zget ms (choose_mask ms)) as [mk|] eqn:Ek; [|discriminate]. injection H as <-.
  exists ms. split; [reflexivity|].
  destruct (qr_render_all_spec c l m ms Er) as (_ & Hk & _). exact (Hk _ _ Ek).
Qed.

Theorem qr_encode_auto_is_candidate c l m bc : qr_encode_auto c l m = Ok bc ->
  exists mask, 0 <= mask < 8 /\ qr_encode c l m mask = Ok bc.
Proof.
  intros H. destruct (qr_encode_auto_inv c l m bc H) as (ms & _ & Hr & He). eauto.
Qed.

(* ... and it is the element of qr_encode_all at the chosen index *)
Theorem qr_encode_auto_in_all c l m bc : qr_encode_auto c l m = Ok bc ->
  exists ms, qr_render_all c l m = Ok ms /\ qr_encode_all c l m = Ok (map (qr_barcode c) ms)
    /\ zget (map (qr_barcode c) ms) (choose_mask ms) = Some bc.
Proof.
  unfold qr_encode_auto. intros H.
  destruct (qr_render_all c l m) as [ms| | |] eqn:Er; cbn [obind] in H; try discriminate.
  destruct (zget ms (choose_mask ms)) as [mk|] eqn:Ek; [|discriminate]. injection H as <-.
  exists ms. split; [reflexivity|].
  destruct (qr_render_all_spec c l m ms Er) as (_ & _ & Hall). split; [exact Hall|].
  apply zget_some in Ek. destruct Ek as [Hr Ek].
  replace (choose_mask ms) with (Z.of_nat (Z.to_nat (choose_mask ms))) by lia.
  rewrite zget_nth_error, nth_error_map, Ek. reflexivity.
Qed.

Lemma valid_encoding_dec mode : {valid_encoding mode} + {~ valid_encoding mode}.
Proof.
  unfold valid_encoding.
  destruct (Z.eq_dec mode qr_enc_auto); [left; tauto|].
  destruct (Z.eq_dec mode qr_enc_numeric); [left; tauto|].
  destruct (Z.eq_dec mode qr_enc_alphanumeric); [left; tauto|].
  destruct (Z.eq_dec mode qr_enc_unicode); [left; tauto|].
  right. tauto.
Qed.

(* (c, converse) acceptance is that of qr_encode: the outcome kind of qr_encode_auto is the
   outcome kind of qr_encode with mask 0 (equivalently any mask 0..7), for EVERY content,
   level and mode value *)
Theorem qr_encode_auto_outcome c l m :
  match qr_encode c l m 0 with
  | Ok _ => exists bc, qr_encode_auto c l m = Ok bc
  | Err => qr_encode_auto c l m = Err
  | Panic => qr_encode_auto c l m = Panic
  | OutOfFuel => qr_encode_auto c l m = OutOfFuel
  end.
Proof.
  destruct (valid_encoding_dec m) as [Hm|Hm].
  - pose proof (encode_bits_representable c l m Hm) as Hrep.
    destruct (qr_representable c l m).
    + destruct Hrep as (bits & vi & Eb).
      destruct (qr_encode_of_bits c l m 0 bits vi Hm ltac:(lia) Eb) as (bc0 & ->).
      destruct (qr_render_all_complete c l m) as (ms & Er).
      { intros k Hk. exact (qr_encode_of_bits c l m k bits vi Hm Hk Eb). }
      unfold qr_encode_auto. rewrite Er. cbn [obind].
      destruct (qr_render_all_spec c l m ms Er) as (Hlen & _).
      assert (Hne : ms <> []) by (intros ->; discriminate).
      destruct (choose_mask_minimal ms Hne) as (mk & -> & _). eauto.
    + unfold qr_encode, qr_encode_auto, qr_render_all, qr_encode_data. rewrite Hrep. reflexivity.
  - rewrite (qr_c10_unknown_mode c l m 0 Hm).
    pose proof (qr_c10_unknown_mode c l m 0 Hm) as H.
    unfold qr_encode in H. unfold qr_encode_auto, qr_render_all.
    destruct (qr_encode_data c l m) as [[data vi]| | |] eqn:Ed; cbn [obind] in H |- *; try discriminate; try reflexivity.
    exfalso. unfold qr_encode_data, encode_bits in Ed.
    unfold valid_encoding in Hm.
    destruct (m =? qr_enc_auto) eqn:E0; [apply Hm; lia|].
    destruct (m =? qr_enc_numeric) eqn:E1; [apply Hm; lia|].
    destruct (m =? qr_enc_alphanumeric) eqn:E2; [apply Hm; lia|].
    destruct (m =? qr_enc_unicode) eqn:E3; [apply Hm; lia|].
    discriminate.
Qed.

Corollary qr_encode_auto_accepts c l m :
  ((exists bc, qr_encode_auto c l m = Ok bc) <-> (exists bc, qr_encode c l m 0 = Ok bc))
  /\ (qr_encode_auto c l m = Err <-> qr_encode c l m 0 = Err).
Proof.
  pose proof (qr_encode_auto_outcome c l m) as H.
  destruct (qr_encode c l m 0) as [bc0| | |].
  - destruct H as (bc & ->). split; split; intros; try discriminate; eauto.
  - rewrite H. split; split; intros H'; try reflexivity; destruct H' as (bc & H'); discriminate.
  - rewrite H. split; split; intros H'; try discriminate; destruct H' as (bc & H'); discriminate.
  - rewrite H. split; split; intros H'; try discriminate; destruct H' as (bc & H'); discriminate.
Qed.

(* (d) the C01 theorems for the symbol Encode actually returns *)
Theorem qr_c01_roundtrip_auto content level mode bc :
  is_bytes content -> valid_encoding mode ->
  qr_encode_auto content level mode = Ok bc ->
  qr_valid_rows (bc_rows bc) = true /\ qr_decode_rows (bc_rows bc) = Some content.
Proof.
  intros Hb Hm H. destruct (qr_encode_auto_is_candidate content level mode bc H) as (mask & Hk & He).
  exact (qr_c01_roundtrip content level mode mask bc Hb Hm Hk He).
Qed.

(* the reader finds the mask the selection chose *)
Theorem qr_c01_reading_auto content level mode bc :
  is_bytes content -> valid_encoding mode ->
  qr_encode_auto content level mode = Ok bc ->
  exists ms r l v,
    qr_render_all content level mode = Ok ms
    /\ qr_read_rows (bc_rows bc) = Some r /\ level_of_Z level = Some l
    /\ bc_width bc = spec_size v /\ 1 <= v <= 40
    /\ rd_version r = v /\ rd_level r = l /\ rd_mask r = choose_mask ms /\ rd_content r = content
    /\ rd_padding_ok r = true /\ rd_remainder_ok r = true
    /\ forallb (block_ok (bl_e (spec_blocks v l))) (rd_blocks r) = true.
Proof.
  intros Hb Hm H. destruct (qr_encode_auto_inv content level mode bc H) as (ms & Er & Hk & He).
  destruct (qr_c01_reading content level mode (choose_mask ms) bc Hb Hm Hk He) as (r & l & v & Hrest).
  exists ms, r, l, v. split; [exact Er|exact Hrest].
Qed.

(* ================= size of the penalty: Go's uint arithmetic cannot wrap ================= *)
Lemma zip_cons_nil r : length (cons_columns r []) = length r /\ Forall (fun c => length c = 1%nat) (cons_columns r []).
Proof.
  induction r as [|b r [IH1 IH2]]; cbn [cons_columns length]; [split; [reflexivity|constructor]|].
  split; [rewrite IH1; reflexivity|constructor; [reflexivity|exact IH2]].
Qed.

Lemma zip_cons_full r : forall acc k, length acc = length r -> Forall (fun c => length c = k) acc ->
  length (cons_columns r acc) = length r /\ Forall (fun c => length c = S k) (cons_columns r acc).
Proof.
  induction r as [|b r IH]; intros acc k Hl Hk; cbn [cons_columns length]; [split; [reflexivity|constructor]|].
  destruct acc as [|c acc]; [discriminate|]. cbn [length] in Hl |- *.
  inversion Hk as [|? ? Hc Hacc]; subst.
  destruct (IH acc (length c) ltac:(lia) Hacc) as [H1 H2].
  split; [lia|constructor; [reflexivity|exact H2]].
Qed.

Lemma transpose_rows_shape rows w : rows <> [] -> Forall (fun r => length r = w) rows ->
  length (transpose_rows rows) = w /\ Forall (fun c => length c = length rows) (transpose_rows rows).
Proof.
  induction rows as [|r t IH]; intros Hne Hw; [contradiction|].
  inversion Hw as [|? ? Hr Ht]; subst. cbn [transpose_rows].
  destruct t as [|r' t'].
  - cbn [transpose_rows]. apply zip_cons_nil.
  - destruct (IH ltac:(discriminate) Ht) as [H1 H2].
    apply zip_cons_full; [lia|exact H2].
Qed.

Lemma run_penalty_bound line : forall chk cnt, 0 <= cnt ->
  0 <= run_penalty chk cnt line <= cnt + zlength line.
Proof.
  unfold zlength. induction line as [|v t IH]; intros chk cnt Hc; cbn [run_penalty length].
  - unfold run_score. destruct (cnt >=? 5) eqn:E; lia.
  - destruct (Bool.eqb v chk).
    + specialize (IH chk (cnt + 1) ltac:(lia)). lia.
    + specialize (IH (negb chk) 1 ltac:(lia)). unfold run_score. destruct (cnt >=? 5) eqn:E; lia.
Qed.

Lemma zsum_map_bound {A} (f : A -> Z) B ls : (forall x, In x ls -> 0 <= f x <= B) ->
  0 <= zsum (map f ls) <= zlength ls * B.
Proof.
  unfold zlength. induction ls as [|x t IH]; intros H; cbn [map zsum length]; [lia|].
  specialize (IH (fun y Hy => H y (or_intror Hy))). specialize (H x (or_introl eq_refl)). nia.
Qed.

Lemma rule2_pair_bound a : forall b, 0 <= rule2_pair a b <= 3 * zlength a.
Proof.
  unfold zlength. induction a as [|a0 ta IH]; intros b; [cbn; lia|].
  destruct b as [|b0 tb]; [cbn [rule2_pair length]; lia|].
  destruct ta as [|a1 ta']; [cbn [rule2_pair length]; lia|].
  destruct tb as [|b1 tb']; [cbn [rule2_pair length]; lia|].
  change (rule2_pair (a0 :: a1 :: ta') (b0 :: b1 :: tb')) with
    ((if Bool.eqb a1 a0 && Bool.eqb b0 a0 && Bool.eqb b1 a0 then 3 else 0)
     + rule2_pair (a1 :: ta') (b1 :: tb')).
  specialize (IH (b1 :: tb')). cbn [length] in IH |- *.
  destruct (Bool.eqb a1 a0 && Bool.eqb b0 a0 && Bool.eqb b1 a0); lia.
Qed.

Lemma penalty_rule2_bound cols n : Forall (fun c => zlength c = n) cols -> 0 <= n ->
  0 <= penalty_rule2 cols <= 3 * zlength cols * n.
Proof.
  intros H Hn. induction cols as [|a t IH]; [cbn; lia|].
  inversion H as [|? ? Ha Ht]; subst. specialize (IH Ht).
  destruct t as [|b t'].
  - cbn [penalty_rule2]. unfold zlength. cbn [length]. nia.
  - change (penalty_rule2 (a :: b :: t')) with (rule2_pair a b + penalty_rule2 (b :: t')).
    pose proof (rule2_pair_bound a b) as Hp.
    replace (zlength (a :: b :: t')) with (zlength (b :: t') + 1) by (unfold zlength; cbn [length]; lia).
    nia.
Qed.

Lemma rule3_line_bound l : 0 <= rule3_line l <= 40 * zlength l.
Proof.
  unfold zlength. induction l as [|v t IH]; cbn [length]; [cbn; lia|].
  change (rule3_line (v :: t)) with
    ((if prefix_is pattern1 (v :: t) || prefix_is pattern2 (v :: t) then 40 else 0) + rule3_line t).
  destruct (prefix_is pattern1 (v :: t) || prefix_is pattern2 (v :: t)); lia.
Qed.

Lemma count_true_bound l : 0 <= count_true l <= zlength l.
Proof.
  unfold zlength. induction l as [|b t IH]; cbn [count_true length]; [lia|]. destruct b; lia.
Qed.

Lemma penalty_rule4_bound rows n : zlength rows = n -> Forall (fun r => zlength r = n) rows ->
  0 <= penalty_rule4 rows <= 100.
Proof.
  intros Hn Hw. unfold penalty_rule4. rewrite Hn.
  assert (Hd : 0 <= zsum (map count_true rows) <= n * n).
  { rewrite <- Hn at 1. apply zsum_map_bound. intros r Hr.
    pose proof (count_true_bound r). rewrite Forall_forall in Hw. rewrite (Hw r Hr) in H. exact H. }
  set (dark := zsum (map count_true rows)) in *. clearbody dark.
  assert (H0 : 0 <= n) by (unfold zlength in Hn; lia).
  destruct (Z.eq_dec n 0) as [->|Hnz].
  - cbn. lia.
  - assert (Ht : 0 < n * n) by nia.
    assert (0 <= 20 * dark / (n * n) <= 20).
    { split; [apply Z.div_pos; lia|]. apply Z.div_le_upper_bound; lia. }
    assert (0 <= (20 * dark + n * n - 1) / (n * n) <= 20).
    { split; [apply Z.div_pos; lia|].
      assert ((20 * dark + n * n - 1) / (n * n) < 21) by (apply Z.div_lt_upper_bound; lia). lia. }
    lia.
Qed.

(* a symbol of n x n modules: every rule value is non-negative and the sum is at most
   85 n^2 + 100 (<= 2 663 065 for n <= 177), far below 2^32 - 1 = ^uint(0) on a 32-bit
   platform: `p < lowestPenalty` holds for the first candidate and no uint operation wraps *)
Theorem penalty_bound rows n : zlength rows = n -> Forall (fun r => zlength r = n) rows ->
  0 <= penalty_rows rows <= 85 * (n * n) + 100.
Proof.
  intros Hn Hw. unfold penalty_rows, penalty_rules.
  assert (H0 : 0 <= n) by (unfold zlength in Hn; lia).
  pose proof (penalty_rule4_bound rows n Hn Hw) as B4.
  assert (Hline : forall ls, zlength ls = n -> Forall (fun r => zlength r = n) ls ->
            0 <= zsum (map (run_penalty false 0) ls) <= n * n
            /\ 0 <= zsum (map rule3_line ls) <= 40 * (n * n)).
  { intros ls Hl Hf. rewrite Forall_forall in Hf. split.
    - rewrite <- Hl at 1. apply zsum_map_bound. intros r Hr.
      pose proof (run_penalty_bound r false 0 ltac:(lia)). rewrite (Hf r Hr) in H. lia.
    - replace (40 * (n * n)) with (zlength ls * (40 * n)) by (rewrite Hl; lia).
      apply zsum_map_bound. intros r Hr. pose proof (rule3_line_bound r). rewrite (Hf r Hr) in H. lia. }
  destruct rows as [|r0 t] eqn:Erows.
  - subst n. cbn. lia.
  - rewrite <- Erows in *.
    assert (Hne : rows <> []) by (rewrite Erows; discriminate).
    assert (Hw' : Forall (fun r => length r = Z.to_nat n) rows).
    { rewrite Forall_forall in Hw |- *. intros r Hr. specialize (Hw r Hr). unfold zlength in Hw. lia. }
    destruct (transpose_rows_shape rows (Z.to_nat n) Hne Hw') as [T1 T2].
    assert (Tl : zlength (transpose_rows rows) = n) by (unfold zlength; lia).
    assert (Tw : Forall (fun c => zlength c = n) (transpose_rows rows)).
    { rewrite Forall_forall in T2 |- *. intros c Hc. specialize (T2 c Hc). unfold zlength in Hn |- *. lia. }
    destruct (Hline rows Hn Hw) as [R1 R3]. destruct (Hline (transpose_rows rows) Tl Tw) as [C1 C3].
    pose proof (penalty_rule2_bound (transpose_rows rows) n Tw H0) as B2. rewrite Tl in B2.
    unfold penalty_rule1, penalty_rule3. lia.
Qed.

Lemma rows_of_shape m : 0 <= qm_dim m ->
  zlength (rows_of m) = qm_dim m /\ Forall (fun r => zlength r = qm_dim m) (rows_of m).
Proof.
  intros Hd. unfold rows_of, zlength.
  assert (Hz : forall lo n, length (zseq lo n) = n) by (intros lo n; revert lo; induction n; intros lo; cbn [zseq length]; [reflexivity|rewrite IHn; reflexivity]).
  rewrite map_length, Hz. split; [lia|].
  rewrite Forall_forall. intros r Hr. apply in_map_iff in Hr. destruct Hr as (y & <- & _).
  rewrite map_length, Hz. lia.
Qed.

Theorem calc_penalty_bound m : 0 <= qm_dim m <= 177 -> 0 <= calc_penalty m < 2 ^ 32 - 1.
Proof.
  intros Hd. unfold calc_penalty. destruct (rows_of_shape m ltac:(lia)) as [H1 H2].
  pose proof (penalty_bound (rows_of m) (qm_dim m) H1 H2). nia.
Qed.

(* ================= the transpose is the transpose ================= *)
Lemma cons_columns_nth r : forall acc x, acc = [] \/ length acc = length r -> (x < length r)%nat ->
  nth x (cons_columns r acc) [] = nth x r false :: nth x acc [].
Proof.
  induction r as [|b r IH]; intros acc x Hacc Hx; cbn [length] in Hx; [lia|].
  destruct acc as [|c acc']; cbn [cons_columns].
  - destruct x as [|x']; [reflexivity|]. cbn [nth]. rewrite (IH [] x' (or_introl eq_refl) ltac:(lia)).
    destruct x'; reflexivity.
  - destruct x as [|x']; [reflexivity|]. cbn [nth]. apply IH; [|lia].
    right. destruct Hacc as [Hacc|Hacc]; [discriminate|]. cbn [length] in Hacc. lia.
Qed.

(* cols[x][y] = rows[y][x] for a rectangular matrix *)
Theorem transpose_rows_nth rows w : Forall (fun r => length r = w) rows ->
  forall x y, (x < w)%nat -> (y < length rows)%nat ->
  nth y (nth x (transpose_rows rows) []) false = nth x (nth y rows []) false.
Proof.
  induction rows as [|r t IH]; intros Hw x y Hx Hy; cbn [length] in Hy; [lia|].
  inversion Hw as [|? ? Hr Ht]; subst. cbn [transpose_rows].
  destruct t as [|r' t'].
  - cbn [transpose_rows]. rewrite (cons_columns_nth r [] x (or_introl eq_refl) Hx).
    cbn [length] in Hy. assert (y = 0%nat) by lia. subst y. destruct x; reflexivity.
  - destruct (transpose_rows_shape (r' :: t') (length r) ltac:(discriminate) Ht) as [H1 _].
    rewrite (cons_columns_nth r _ x (or_intror H1) Hx).
    destruct y as [|y']; [reflexivity|]. cbn [nth]. apply (IH Ht); [exact Hx|cbn [length] in Hy |- *; lia].
Qed.

(* ================= non-vacuity / the value the Go code picks ================= *)
(* "hello" M Auto, "12345" L Numeric, "HELLO WORLD" H AlphaNumeric (version 2), "\xc3\xa9" Q Unicode:
   qr.Encode selects the masks 0, 3, 5, 3 (read from the format information of its output by the
   harness, go/impl tag `qr`); the model selects the same, and the selected symbol is the
   qr_encode candidate of that mask and reads back *)
Example qr_example_auto :
  map (fun t => qr_chosen_mask (fst (fst t)) (snd (fst t)) (snd t))
      [([104; 101; 108; 108; 111], 1, 0); ([49; 50; 51; 52; 53], 0, 1);
       ([72; 69; 76; 76; 79; 32; 87; 79; 82; 76; 68], 3, 2); ([195; 169], 2, 3)]
  = [Ok 0; Ok 3; Ok 5; Ok 3]
  /\ match qr_encode_auto [104; 101; 108; 108; 111] 1 0 with
     | Ok bc => qr_encode [104; 101; 108; 108; 111] 1 0 0 = Ok bc
                /\ qr_decode_rows (bc_rows bc) = Some [104; 101; 108; 108; 111]
                /\ qr_valid_rows (bc_rows bc) = true
     | _ => False
     end.
Proof. vm_compute. repeat split; reflexivity. Qed.
