(* PDF417 layer 2e: highlevelEncode.  For ALL byte strings the segmentation loop
   terminates without panic or error and the ISO reference decoder
   (spec/Pdf417Spec.v), run on the emitted codewords followed by any number of pad
   codewords 900, returns exactly the input bytes. *)
From Verif Require Import Prelude Barcode Utf8M TabPdf417 Pdf417M Pdf417Spec Pdf417PTab Pdf417PRow
  Pdf417PNum Pdf417PText Pdf417PSeg.

Definition starts_high (l : list Z) : Prop :=
  match l with [] => True | c :: _ => 900 <= c end.

Definition cw_range (c : Z) : Prop := 0 <= c <= 928.

Lemma cw900_range c : cw900 c -> cw_range c.
Proof. unfold cw900, cw_range. lia. Qed.

(* ---------- reader lemmas ---------- *)
Lemma pdfs_span_app run rest : Forall cw900 run -> starts_high rest ->
  pdfs_span (run ++ rest) = (run, rest).
Proof.
  intros Hr Hs. induction Hr as [|c run Hc Hr IH].
  - destruct rest as [|c rest]; [reflexivity|]. simpl in *.
    replace (c <? 900) with false by lia. reflexivity.
  - cbn [app pdfs_span]. unfold cw900 in Hc. replace (c <? 900) with true by lia.
    rewrite IH. reflexivity.
Qed.

Lemma pdfs_decode_run f run rest m s : Forall cw900 run -> run <> [] -> starts_high rest ->
  pdfs_decode_cw (S f) (run ++ rest) m s =
  match m with
  | CText =>
    dopt (out, s') <- pdfs_text_run s run;
    dopt tl <- pdfs_decode_cw f rest CText s'; Some (out ++ tl)
  | CByte901 =>
    dopt out <- pdfs_byte_run_901 run; dopt tl <- pdfs_decode_cw f rest m s; Some (out ++ tl)
  | CByte924 =>
    dopt out <- pdfs_byte_run_924 run; dopt tl <- pdfs_decode_cw f rest m s; Some (out ++ tl)
  | CNum =>
    dopt out <- pdfs_num_run (length run) run; dopt tl <- pdfs_decode_cw f rest m s; Some (out ++ tl)
  end.
Proof.
  intros Hr Hne Hs. destruct run as [|c run']; [congruence|].
  pose proof (pdfs_span_app (c :: run') rest Hr Hs) as Esp.
  inversion Hr as [|? ? Hc _]; subst. unfold cw900 in Hc.
  change ((c :: run') ++ rest) with (c :: run' ++ rest) in *. cbn [pdfs_decode_cw].
  replace (c <? 900) with true by lia. rewrite Esp. reflexivity.
Qed.

Lemma pdfs_decode_high f c rest m s : 900 <= c ->
  pdfs_decode_cw (S f) (c :: rest) m s =
  if c =? 900 then pdfs_decode_cw f rest CText TAlpha
  else if c =? 901 then pdfs_decode_cw f rest CByte901 TAlpha
  else if c =? 924 then pdfs_decode_cw f rest CByte924 TAlpha
  else if c =? 902 then pdfs_decode_cw f rest CNum TAlpha
  else if c =? 913 then
    match m, rest with
    | CText, b :: rest' =>
      if b <? 256 then dopt tl <- pdfs_decode_cw f rest' CText s; Some (b :: tl) else None
    | _, _ => None
    end
  else None.
Proof. intros H. cbn [pdfs_decode_cw]. replace (c <? 900) with false by lia. reflexivity. Qed.

Lemma pdfs_decode_pads p : forall f m s, (p < f)%nat ->
  pdfs_decode_cw f (repeat 900 p) m s = Some [].
Proof.
  induction p as [|p IH]; intros f m s Hf; (destruct f as [|f]; [lia|]); [reflexivity|].
  cbn [repeat]. rewrite pdfs_decode_high by lia. change (900 =? 900) with true. cbv iota.
  apply IH. lia.
Qed.

Lemma starts_high_pads p : starts_high (repeat 900 p).
Proof. destruct p; simpl; lia. Qed.

(* ---------- encoder state vs reader state ---------- *)
Definition mode_rel (mode : pdf_encmode) (sm : pdf_submode) (m : pdfs_mode) (s : pdfs_sub) : Prop :=
  match mode with EncText => m = CText /\ s = sub_of sm | _ => True end.

Lemma nat_mod6_Z (n : nat) : Z.of_nat (n mod 6) = Z.of_nat n mod 6.
Proof. apply Nat2Z.inj_mod. Qed.

Lemma Forall_firstn_bytes n (l : list Z) : Forall is_byte l -> Forall is_byte (firstn n l).
Proof. apply pdf_Forall_firstn. Qed.

(* encodeBinary on 1..n bytes, not through the 913 shift *)
Lemma pdf_encode_binary_latched bytes f rest m s :
  Forall is_byte bytes -> bytes <> [] -> starts_high rest ->
  exists h, pdf_encode_binary bytes EncBinary = h :: pdf_sixpacks bytes /\ (h = 924 \/ h = 901) /\
    pdfs_decode_cw (S (S f)) (pdf_encode_binary bytes EncBinary ++ rest) m s =
    (dopt tl <- pdfs_decode_cw f rest (if h =? 924 then CByte924 else CByte901) TAlpha; Some (bytes ++ tl)).
Proof.
  intros Hb Hne Hs. unfold pdf_encode_binary. cbn [pdf_encmode_is_text]. rewrite andb_false_r.
  pose proof (pdf_sixpacks_cw bytes Hb) as Hcw.
  pose proof (pdf_sixpacks_nonempty bytes Hne) as Hsne.
  destruct pdf_tab_consts as (_ & C901 & _ & C924 & _ & _).
  rewrite pdf_go_mod_nonneg by (pose proof (zlength_nonneg bytes); lia).
  destruct (zlength bytes mod 6 =? 0) eqn:E6.
  - exists 924. rewrite C924. split; [reflexivity|]. split; [auto|].
    cbn [app]. rewrite pdfs_decode_high by lia. cbn [Z.eqb Pos.eqb].
    rewrite pdfs_decode_run by assumption.
    rewrite pdf_sixpacks_924; [reflexivity | exact Hb |].
    apply Nat2Z.inj. rewrite nat_mod6_Z. unfold zlength in E6. lia.
  - exists 901. rewrite C901. split; [reflexivity|]. split; [auto|].
    cbn [app]. rewrite pdfs_decode_high by lia. cbn [Z.eqb Pos.eqb].
    rewrite pdfs_decode_run by assumption.
    rewrite pdf_sixpacks_901; [reflexivity | exact Hb |].
    intros Hz. apply (f_equal Z.of_nat) in Hz. rewrite nat_mod6_Z in Hz. unfold zlength in E6. lia.
Qed.

Lemma pdf_highlevel_loop_S f data mode sm : data <> [] ->
  pdf_highlevel_loop (S f) data mode sm =
  (let runes := utf8_decode data in
   let numericCount := pdf_digit_count runes in
   if (numericCount >=? pdf_min_numeric_count) || (numericCount =? zlength data) then
     do (pre, post) <- pdf_split_at numericCount data;
     do numData <- pdf_encode_numeric (utf8_decode pre);
     do rest <- pdf_highlevel_loop f post EncNumeric SubUpper;
     Ok (pdf_latch_to_numeric :: numData ++ rest)
   else
     let textCount := pdf_text_count runes in
     if (textCount >=? 5) || (textCount =? zlength data) then
       let '(latch, sm0) :=
         if pdf_encmode_is_text mode then ([], sm) else ([pdf_latch_to_text], SubUpper) in
       do (pre, post) <- pdf_split_at textCount data;
       do (sm1, txtData) <- pdf_encode_text (utf8_decode pre) sm0;
       do rest <- pdf_highlevel_loop f post EncText sm1;
       Ok (latch ++ txtData ++ rest)
     else
       let bc0 := pdf_binary_count data in
       let binaryCount := if bc0 =? 0 then 1 else bc0 in
       do (bytes, post) <- pdf_split_at binaryCount data;
       let '(mode1, sm1) :=
         if negb (zlength bytes =? 1) || negb (pdf_encmode_is_text mode)
         then (EncBinary, SubUpper) else (mode, sm) in
       do rest <- pdf_highlevel_loop f post mode1 sm1;
       Ok (pdf_encode_binary bytes mode1 ++ rest)).
Proof. destruct data; [congruence | reflexivity]. Qed.

(* ---------- the segmentation loop ---------- *)
Lemma pdf_highlevel_loop_spec fuel : forall data mode sm,
  Forall is_byte data -> (length data <= fuel)%nat ->
  exists cws, pdf_highlevel_loop fuel data mode sm = Ok cws /\ Forall cw_range cws /\
    forall p,
    ((pdf_encmode_is_text mode = false \/ pdf_text_count data = 0) -> starts_high (cws ++ repeat 900 p)) /\
    forall m s F, mode_rel mode sm m s -> (length cws + p < F)%nat ->
      pdfs_decode_cw F (cws ++ repeat 900 p) m s = Some data.
Proof.
  induction fuel as [|f IH]; intros data mode sm Hb Hf.
  { destruct data; [|simpl in Hf; lia]. exists []. split; [reflexivity|]. split; [constructor|].
    intros p. split; [intros _; apply starts_high_pads|].
    intros m s F _ HF. apply pdfs_decode_pads. simpl in HF. lia. }
  destruct (list_eq_dec Z.eq_dec data []) as [->|Hdne].
  { exists []. split; [reflexivity|]. split; [constructor|].
    intros p. split; [intros _; apply starts_high_pads|].
    intros m s F _ HF. apply pdfs_decode_pads. simpl in HF. lia. }
  assert (1 <= zlength data) as Hlen1
    by (destruct data; [congruence|]; rewrite zlength_cons; pose proof (zlength_nonneg data); lia).
  rewrite pdf_highlevel_loop_S by exact Hdne. cbv zeta.
  rewrite pdf_digit_count_utf8, pdf_text_count_utf8, pdf_binary_count_utf8.
  destruct pdf_tab_consts as (C900 & C901 & C902 & C924 & C913 & _).
  pose proof pdf_tab_min_numeric as HT.
  pose proof (pdf_digit_count_range data) as Rd.
  pose proof (pdf_text_count_range data) as Rt.
  pose proof (pdf_binary_count_b_range data) as Rb.
  destruct ((pdf_digit_count data >=? pdf_min_numeric_count) || (pdf_digit_count data =? zlength data)) eqn:Enum.
  - (* ===== numeric segment ===== *)
    set (n := pdf_digit_count data) in *.
    assert (1 <= n) as Hn1 by lia.
    rewrite pdf_split_at_ok by lia. cbn [obind].
    set (pre := firstn (Z.to_nat n) data). set (post := skipn (Z.to_nat n) data).
    assert (Forall (fun d => is_digit d = true) pre) as Hpre by apply pdf_digit_count_digits.
    assert (utf8_decode pre = pre) as Eu.
    { apply utf8_decode_all_ascii. eapply Forall_impl; [|exact Hpre]. intros a; apply is_digit_ascii. }
    rewrite Eu.
    destruct (pdf_encode_numeric_roundtrip pre Hpre) as (ncw & En & Fn & Nn & Dn).
    rewrite En. cbn [obind].
    assert (pre <> []) as Hprene.
    { unfold pre. destruct data; [congruence|]. destruct (Z.to_nat n) eqn:E0; [lia|]. discriminate. }
    specialize (Nn Hprene).
    assert (Forall is_byte post) as Hbpost by (apply pdf_Forall_skipn; exact Hb).
    assert (length post <= f)%nat as Hfpost.
    { unfold post. rewrite skipn_length. unfold zlength in *. lia. }
    destruct (IH post EncNumeric SubUpper Hbpost Hfpost) as (rc & Er & Fr & Dr).
    rewrite Er. cbn [obind].
    eexists. split; [reflexivity|]. rewrite C902.
    split.
    { constructor; [unfold cw_range; lia|]. apply Forall_app. split; [|exact Fr].
      eapply Forall_impl; [|exact Fn]. intros a; apply cw900_range. }
    intros p. split; [intros _; simpl; lia|].
    intros m s F _ HF. destruct (Dr p) as [Hh Hd].
    specialize (Hh (or_introl eq_refl)).
    cbn [app length] in HF |- *. rewrite app_length in HF.
    destruct F as [|[|F]]; try lia.
    rewrite pdfs_decode_high by lia. cbn [Z.eqb Pos.eqb].
    rewrite <- app_assoc. rewrite pdfs_decode_run by assumption.
    rewrite Dn. cbn [pdfs_obind].
    assert (1 <= length ncw)%nat as Hl1 by (destruct ncw; [congruence | simpl; lia]).
    rewrite (Hd CNum TAlpha F I ltac:(lia)). cbn [pdfs_obind].
    unfold pre, post. rewrite firstn_skipn. reflexivity.
  - destruct ((pdf_text_count data >=? 5) || (pdf_text_count data =? zlength data)) eqn:Etxt.
    + (* ===== text segment ===== *)
      set (n := pdf_text_count data) in *.
      assert (1 <= n) as Hn1 by lia.
      rewrite pdf_split_at_ok by lia.
      set (pre := firstn (Z.to_nat n) data). set (post := skipn (Z.to_nat n) data).
      assert (Forall is_textc pre) as Hpre by apply pdf_text_count_text.
      assert (utf8_decode pre = pre) as Eu.
      { apply utf8_decode_all_ascii. eapply Forall_impl; [|exact Hpre]. intros a; apply is_text_ascii. }
      assert (pre <> []) as Hprene.
      { unfold pre. destruct data; [congruence|]. destruct (Z.to_nat n) eqn:E0; [lia|]. discriminate. }
      assert (Forall is_byte post) as Hbpost by (apply pdf_Forall_skipn; exact Hb).
      assert (length post <= f)%nat as Hfpost.
      { unfold post. rewrite skipn_length. unfold zlength in *. lia. }
      assert (pdf_text_count post = 0) as Hpost0 by apply pdf_text_count_skip.
      destruct (pdf_encmode_is_text mode) eqn:Emode.
      * (* already in text compaction: no latch *)
        cbn [obind]. rewrite Eu.
        destruct (pdf_encode_text_roundtrip pre sm Hpre) as (sm2 & tcw & Et & Ft & Dt).
        rewrite Et. cbn [obind].
        destruct (IH post EncText sm2 Hbpost Hfpost) as (rc & Er & Fr & Dr).
        rewrite Er. cbn [obind app].
        eexists. split; [reflexivity|].
        split.
        { apply Forall_app. split; [|exact Fr].
          eapply Forall_impl; [|exact Ft]. intros a; apply cw900_range. }
        intros p. split.
        { intros [Hx|Hx]; [discriminate | lia]. }
        intros m s F Hrel HF. destruct (Dr p) as [Hh Hd].
        specialize (Hh (or_intror Hpost0)).
        destruct mode; try discriminate. destruct Hrel as [-> ->].
        rewrite app_length in HF. destruct F as [|F]; [lia|].
        assert (tcw <> []) as Htne.
        { intros ->. unfold pdfs_text_run in Dt. simpl in Dt. inversion Dt. congruence. }
        assert (1 <= length tcw)%nat as Hl1 by (destruct tcw; [congruence | simpl; lia]).
        rewrite <- app_assoc. rewrite pdfs_decode_run by assumption.
        rewrite Dt. cbn [pdfs_obind].
        rewrite (Hd CText (sub_of sm2) F (conj eq_refl eq_refl) ltac:(lia)). cbn [pdfs_obind].
        unfold pre, post. rewrite firstn_skipn. reflexivity.
      * (* latch to text, alpha sub-mode *)
        cbn [obind]. rewrite Eu.
        destruct (pdf_encode_text_roundtrip pre SubUpper Hpre) as (sm2 & tcw & Et & Ft & Dt).
        rewrite Et. cbn [obind].
        destruct (IH post EncText sm2 Hbpost Hfpost) as (rc & Er & Fr & Dr).
        rewrite Er. cbn [obind app]. rewrite C900.
        eexists. split; [reflexivity|].
        split.
        { constructor; [unfold cw_range; lia|]. apply Forall_app. split; [|exact Fr].
          eapply Forall_impl; [|exact Ft]. intros a; apply cw900_range. }
        intros p. split; [intros _; simpl; lia|].
        intros m s F _ HF. destruct (Dr p) as [Hh Hd].
        specialize (Hh (or_intror Hpost0)).
        cbn [app length] in HF |- *. rewrite app_length in HF.
        destruct F as [|[|F]]; try lia.
        rewrite pdfs_decode_high by lia. cbn [Z.eqb Pos.eqb].
        assert (tcw <> []) as Htne.
        { intros ->. unfold pdfs_text_run in Dt. simpl in Dt. inversion Dt. congruence. }
        assert (1 <= length tcw)%nat as Hl1 by (destruct tcw; [congruence | simpl; lia]).
        rewrite <- app_assoc. rewrite pdfs_decode_run by assumption.
        cbn [sub_of] in Dt. rewrite Dt. cbn [pdfs_obind].
        rewrite (Hd CText (sub_of sm2) F (conj eq_refl eq_refl) ltac:(lia)). cbn [pdfs_obind].
        unfold pre, post. rewrite firstn_skipn. reflexivity.
    + (* ===== byte segment ===== *)
      set (bc0 := pdf_binary_count_b data) in *.
      set (n := if bc0 =? 0 then 1 else bc0).
      assert (1 <= n <= zlength data) as Hn by (unfold n; destruct (bc0 =? 0) eqn:E0; lia).
      rewrite pdf_split_at_ok by lia. cbn [obind].
      set (bytes := firstn (Z.to_nat n) data). set (post := skipn (Z.to_nat n) data).
      assert (Forall is_byte bytes) as Hbb by (apply pdf_Forall_firstn; exact Hb).
      assert (Forall is_byte post) as Hbpost by (apply pdf_Forall_skipn; exact Hb).
      assert (length post <= f)%nat as Hfpost.
      { unfold post. rewrite skipn_length. unfold zlength in *. lia. }
      assert (zlength bytes = n) as Hlb.
      { unfold bytes, zlength. rewrite firstn_length. unfold zlength in Hn. lia. }
      assert (bytes <> []) as Hbne.
      { intros E0. rewrite E0 in Hlb. unfold zlength in Hlb. simpl in Hlb. lia. }
      rewrite Hlb.
      destruct (negb (n =? 1) || negb (pdf_encmode_is_text mode)) eqn:Esh.
      * (* latch 924 / 901 *)
        destruct (IH post EncBinary SubUpper Hbpost Hfpost) as (rc & Er & Fr & Dr).
        rewrite Er. cbn [obind].
        eexists. split; [reflexivity|].
        destruct (pdf_encode_binary_latched bytes 0 [] CText TAlpha Hbb Hbne I) as (h & Eh & Hh924 & _).
        split.
        { apply Forall_app. split; [|exact Fr]. rewrite Eh.
          constructor; [unfold cw_range; lia|].
          eapply Forall_impl; [|apply pdf_sixpacks_cw; exact Hbb]. intros a; apply cw900_range. }
        intros p. split; [intros _; rewrite Eh; simpl; lia|].
        intros m s F _ HF. destruct (Dr p) as [Hhigh Hd].
        specialize (Hhigh (or_introl eq_refl)).
        rewrite app_length in HF.
        assert (2 <= length (pdf_encode_binary bytes EncBinary))%nat as Hl2.
        { rewrite Eh. pose proof (pdf_sixpacks_nonempty bytes Hbne).
          destruct (pdf_sixpacks bytes); [congruence|]. simpl. lia. }
        destruct F as [|[|F]]; try lia.
        rewrite <- app_assoc.
        destruct (pdf_encode_binary_latched bytes F (rc ++ repeat 900 p) m s Hbb Hbne Hhigh)
          as (h' & Eh' & _ & Dec).
        rewrite Dec.
        rewrite (Hd _ TAlpha F I); [|lia].
        cbn [pdfs_obind]. unfold bytes, post. rewrite firstn_skipn. reflexivity.
      * (* a single byte inside text compaction: shift 913 *)
        apply orb_false_elim in Esh as [E1 E2].
        assert (n = 1) as Hn1 by lia.
        destruct (pdf_encmode_is_text mode) eqn:Emode; [|discriminate].
        destruct mode; try discriminate.
        destruct (IH post EncText sm Hbpost Hfpost) as (rc & Er & Fr & Dr).
        rewrite Er. cbn [obind].
        eexists. split; [reflexivity|].
        (* bytes = [b] *)
        destruct bytes as [|b [|b2 bt]] eqn:Eb; [congruence| |rewrite !zlength_cons in Hlb; pose proof (zlength_nonneg bt); lia].
        inversion Hbb as [|? ? Hbyte _]; subst. unfold is_byte in Hbyte.
        unfold pdf_encode_binary. cbn [pdf_encmode_is_text pdf_sixpacks].
        change (zlength [b]) with 1. change (1 =? 1) with true. cbn [andb]. rewrite C913.
        split.
        { constructor; [unfold cw_range; lia|]. constructor; [unfold cw_range; lia | exact Fr]. }
        intros p. split; [intros _; simpl; lia|].
        intros m s F Hrel HF. destruct Hrel as [-> ->]. destruct (Dr p) as [_ Hd].
        cbn [app length] in HF |- *.
        destruct F as [|F]; [lia|].
        rewrite pdfs_decode_high by lia. cbn [Z.eqb Pos.eqb].
        replace (b <? 256) with true by lia.
        rewrite (Hd CText (sub_of sm) F (conj eq_refl eq_refl) ltac:(lia)). cbn [pdfs_obind].
        change (b :: post) with ([b] ++ post).
        rewrite <- Eb. unfold bytes, post. rewrite firstn_skipn. reflexivity.
Qed.

(* ---------- the whole message ---------- *)

(* For ALL byte strings: highlevelEncode returns codewords (no error, no panic,
   no exhausted fuel), every codeword is a value 0..928, and the ISO reference
   decoder returns the input from the codewords followed by any padding. *)
Theorem pdf_highlevel_roundtrip data : Forall is_byte data ->
  exists cws, pdf_highlevel data = Ok cws /\ Forall cw_range cws /\
    forall p, pdf_decode_hl (cws ++ repeat 900 p) = Some data.
Proof.
  intros Hb. destruct (pdf_highlevel_loop_spec (length data) data EncText SubUpper Hb (le_n _))
    as (cws & E & F & D).
  exists cws. split; [exact E|]. split; [exact F|].
  intros p. unfold pdf_decode_hl.
  replace (forallb (fun c => (0 <=? c) && (c <=? 928)) (cws ++ repeat 900 p)) with true.
  - destruct (D p) as [_ Hd]. apply Hd; [split; reflexivity|].
    rewrite app_length, repeat_length. lia.
  - symmetry. apply forallb_forall. intros c Hin. apply in_app_or in Hin as [Hin|Hin].
    + rewrite Forall_forall in F. specialize (F c Hin). unfold cw_range in F. lia.
    + apply repeat_spec in Hin. subst. reflexivity.
Qed.
