(* C03 and the Aztec parts of C10-C13: the statements the property files use.
   The Reed-Solomon hypothesis of AztecPCompose is discharged here with
   C17's theorem rs_encode_valid (proofs/RSP.v). *)
From Verif Require Import Prelude Barcode BitListM GFM GFP RSP TabAztec AztecM AztecSpec
     AztecPBase AztecPTab AztecPStuff AztecPLayout AztecPHL AztecPConfig AztecPCompose.
Local Ltac Zify.zify_post_hook ::= Z.div_mod_to_equations.

(* ------------------------------------------------------------------ *)
(* Reed-Solomon over the five Aztec fields                             *)
Lemma az_fields_ok : forallb gf_ok az_fields = true.
Proof. vm_compute. reflexivity. Qed.

Lemma az_rs_valid : forall f data k, In f az_fields ->
  1 <= k -> gf_base f + k <= gf_size f ->
  Forall (fun c => 0 <= c < gf_size f) data ->
  exists ecc, rs_encode_fresh f data k = Ok ecc /\ zlength ecc = k
    /\ Forall (fun c => 0 <= c < gf_size f) ecc
    /\ forall i, 0 <= i < k ->
         poly_eval f (data ++ ecc) (tget (gf_alog f) (gf_base f + i)) = 0.
Proof.
  intros f data k Hin. pose proof az_fields_ok as H. rewrite forallb_forall in H.
  apply rs_encode_valid. apply H, Hin.
Qed.

(* ------------------------------------------------------------------ *)
(* domain of the theorems                                              *)
(* payload bytes; a length far beyond any symbol capacity (the search keeps a
   bit count in an int); a non-negative percentage; and no overflow of the
   64-bit product bits.Len()*minECCPercent in the Go code (the model computes
   in Z; for a wrapping product the Go code computes a different amount) *)
Definition az_in_domain (data : list Z) (pct : Z) : Prop :=
  Forall is_byte data /\ zlength data < 2 ^ 57 /\ 0 <= pct
  /\ (forall hl, az_highlevel data = Ok hl -> zlength hl * pct < 2 ^ 63).

Definition az_master := az_encode_spec az_rs_valid.

(* ------------------------------------------------------------------ *)
(* C03                                                                 *)
(* layer 1: tables *)
Theorem az_c03_tables :
  (forall m ch, 0 <= m <= 4 -> 0 <= ch < 256 -> cm_entry_ok m ch = true)
  /\ (forall a b, 0 <= a <= 4 -> 0 <= b <= 4 -> latch_entry_ok a b = true)
  /\ (forall a b, 0 <= a <= 4 -> 0 <= b <= 4 -> shift_entry_ok a b = true)
  /\ (forall l, 1 <= l <= 32 -> zget az_word_size l = Some (sp_word_size l))
  /\ (forall compact l, az_total_bits l compact = sp_capacity compact l)
  /\ (az_gf4 = sp_gf4 /\ az_gf6 = sp_gf6 /\ az_gf8 = sp_gf8 /\ az_gf10 = sp_gf10 /\ az_gf12 = sp_gf12).
Proof.
  split; [exact az_char_map_iso|]. split; [exact az_latch_table_iso|].
  split; [exact az_shift_table_iso|]. split; [exact az_word_size_iso|].
  split; [exact az_total_bits_iso | exact az_fields_iso].
Qed.

(* layer 2: high-level encoding, all byte strings *)
Theorem az_c03_highlevel : forall data, Forall is_byte data -> zlength data < 2 ^ 57 ->
  exists bits, az_highlevel data = Ok bits
    /\ forall k, (k <= 11)%nat -> aztec_decode_hl (bits ++ repeat true k) = Some data.
Proof. exact az_highlevel_correct. Qed.

(* layer 3: stuffing *)
Theorem az_c03_stuffing : forall (wordSize : Z) (bits : list bool), 2 <= wordSize ->
  exists out k,
    az_stuff_bits bits wordSize = Ok out
    /\ sp_unstuff (Z.to_nat wordSize) out = Some (bits ++ repeat true k)
    /\ (k < Z.to_nat wordSize)%nat
    /\ out <> []
    /\ zlength out mod wordSize = 0
    /\ zlength bits <= zlength out
    /\ (zlength out / wordSize - 1) * (wordSize - 1) <= zlength bits.
Proof. exact az_stuff_correct. Qed.

Theorem az_c03_stuffing_empty : forall wordSize, 2 <= wordSize ->
  az_stuff_bits [] wordSize = Ok (repeat true (Z.to_nat wordSize - 1) ++ [false]).
Proof. exact az_stuff_empty. Qed.

(* layer 4: layout of the 36 configurations *)
Definition az_c03_layout := az_layout_read.

(* composition *)
Theorem az_c03_roundtrip : forall data pct req bc,
  az_in_domain data pct -> az_encode data pct req = Ok bc ->
  aztec_valid (bc_rows bc) = true
  /\ aztec_decode (bc_rows bc) = Some data
  /\ (req <> 0 -> exists r, aztec_read (bc_rows bc) = ROk r
                   /\ ar_compact r = (req <? 0) /\ ar_layers r = Z.abs req).
Proof.
  intros data pct req bc (Hb & Hl & Hp & _) Henc.
  destruct (az_master data pct req Hb Hl Hp) as (hl & Hhl & H). rewrite Henc in H.
  destruct H as (c & L & st & Hv & Hst & Hreq & Hread & _).
  unfold aztec_valid, aztec_decode. rewrite Hread. cbn [ar_payload].
  split; [reflexivity|]. split; [reflexivity|].
  intros Hne. eexists. split; [reflexivity|]. cbn [ar_compact ar_layers].
  destruct Hreq as [_ Hreq]. destruct (req =? 0) eqn:E; [lia|]. tauto.
Qed.

(* ------------------------------------------------------------------ *)
(* C10: no panic, no divergence; accepted exactly when representable    *)
Definition az_representable (data : list Z) (pct req : Z) : Prop :=
  exists hl, az_highlevel data = Ok hl /\
    if req =? 0 then exists j, 0 <= j <= 32 /\ fits_at hl (az_ecc_bits hl pct) j = true
    else -4 <= req <= 32 /\ az_fits hl (az_ecc_bits hl pct) (req <? 0) (Z.abs req) = true.

Theorem az_c10 : forall data pct req, az_in_domain data pct ->
  az_encode data pct req <> Panic /\ az_encode data pct req <> OutOfFuel
  /\ ((exists bc, az_encode data pct req = Ok bc) <-> az_representable data pct req)
  /\ (az_encode data pct req = Err <-> ~ az_representable data pct req).
Proof.
  intros data pct req (Hb & Hl & Hp & _).
  destruct (az_master data pct req Hb Hl Hp) as (hl & Hhl & H).
  assert (Hrep_ok : forall bc, az_encode data pct req = Ok bc -> az_representable data pct req).
  { intros bc Hbc. rewrite Hbc in H. destruct H as (c & L & st & Hv & Hst & (Hfit & Hreq) & _).
    exists hl. split; auto. destruct (req =? 0).
    - destruct Hreq as (j & Hj & Hc & _). exists j. split; auto. unfold fits_at. rewrite <- Hc. exact Hfit.
    - destruct Hreq as (Hr & -> & ->). auto. }
  assert (Hrep_err : az_encode data pct req = Err -> ~ az_representable data pct req).
  { intros He (hl' & Hhl' & Hrep). rewrite Hhl in Hhl'. inversion Hhl'; subst hl'.
    rewrite He in H. destruct (req =? 0).
    - destruct Hrep as (j & Hj & Hf). rewrite (H j Hj) in Hf. discriminate.
    - destruct Hrep as (Hr & Hf). destruct H as [H|H]; [tauto | congruence]. }
  destruct (az_encode data pct req) as [bc| | |] eqn:E; try contradiction.
  - repeat split; try discriminate; eauto.
    intros Hn. exfalso. apply Hn. eauto.
  - repeat split; try discriminate.
    + intros (bc & Hbc). discriminate.
    + intros Hr. exfalso. apply (Hrep_err eq_refl Hr).
    + auto.
Qed.

(* ------------------------------------------------------------------ *)
(* C11: rendering contract of the model's result record                 *)
Theorem az_c11 : forall data pct req bc, az_in_domain data pct ->
  az_encode data pct req = Ok bc ->
  bc_kind bc = KAztec /\ kind_dims (bc_kind bc) = 2
  /\ bc_content bc = data /\ bc_checksum bc = None
  /\ exists r, aztec_read (bc_rows bc) = ROk r
       /\ bc_width bc = sp_size (ar_compact r) (ar_layers r)
       /\ bc_height bc = bc_width bc
       /\ zlength (bc_rows bc) = bc_height bc
       /\ Forall (fun row => zlength row = bc_width bc) (bc_rows bc).
Proof.
  intros data pct req bc (Hb & Hl & Hp & _) Henc.
  destruct (az_master data pct req Hb Hl Hp) as (hl & Hhl & H). rewrite Henc in H.
  destruct H as (c & L & st & Hv & Hst & Hreq & Hread & _ & Hk & Hc & Hcs & Hw & Hh & Hrl & Hrf).
  rewrite Hk. repeat split; auto.
  eexists. split; [exact Hread|]. cbn [ar_compact ar_layers]. rewrite Hw, Hh. auto.
Qed.

(* ------------------------------------------------------------------ *)
(* C12: the check codewords amount to at least the requested share      *)
Theorem az_c12 : forall data pct req bc, az_in_domain data pct ->
  az_encode data pct req = Ok bc ->
  exists hl r, az_highlevel data = Ok hl /\ aztec_read (bc_rows bc) = ROk r
    /\ zlength hl * pct / 100 + 11 <= ar_checkwords r * sp_word_size (ar_layers r).
Proof.
  intros data pct req bc (Hb & Hl & Hp & _) Henc.
  destruct (az_master data pct req Hb Hl Hp) as (hl & Hhl & H). rewrite Henc in H.
  destruct H as (c & L & st & Hv & Hst & Hreq & Hread & Hecc & _).
  exists hl. eexists. split; [exact Hhl|]. split; [exact Hread|]. cbn [ar_checkwords ar_layers].
  unfold az_ecc_bits in Hecc. pose proof (zlength_nonneg hl).
  rewrite go_div_nonneg in Hecc by nia. exact Hecc.
Qed.

(* ------------------------------------------------------------------ *)
(* C13: no smaller symbol would have done                               *)
Lemma size_order : forall j' j, 0 <= j' <= 32 -> 0 <= j <= 32 ->
  sp_size (fst (cfg_of j')) (snd (cfg_of j')) < sp_size (fst (cfg_of j)) (snd (cfg_of j)) -> j' < j.
Proof.
  assert (H : forallb (fun j' => forallb (fun j =>
     negb (sp_size (fst (cfg_of j')) (snd (cfg_of j')) <? sp_size (fst (cfg_of j)) (snd (cfg_of j)))
     || (j' <? j)) (zseq 0 33)) (zseq 0 33) = true) by (vm_compute; reflexivity).
  intros j' j Hj' Hj Hlt. rewrite forallb_forall in H.
  specialize (H j' ltac:(apply in_zseq; simpl; lia)). rewrite forallb_forall in H.
  specialize (H j ltac:(apply in_zseq; simpl; lia)). lia.
Qed.

(* a payload that fits full-range 1, 2 or 3 layers also fits the compact symbol
   of the same size (the stuffing-length comparison across word sizes 6 and 8) *)
Lemma fits_small_full bits ecc L : 11 <= ecc -> 1 <= L <= 3 ->
  az_fits bits ecc false L = true -> az_fits bits ecc true (L + 1) = true.
Proof.
  intros He HL. unfold az_fits.
  destruct (az_stuff_correct (sp_word_size L) bits ltac:(pose proof (sp_word_size_range L); lia))
    as (s1 & k1 & Hs1 & _ & _ & _ & Hm1 & Hle1 & Hcnt1).
  destruct (az_stuff_correct (sp_word_size (L + 1)) bits ltac:(pose proof (sp_word_size_range (L + 1)); lia))
    as (s2 & k2 & Hs2 & _ & _ & _ & Hm2 & Hle2 & Hcnt2).
  rewrite Hs1, Hs2. cbn [negb orb].
  assert (HL' : L = 1 \/ L = 2 \/ L = 3) by lia.
  destruct HL' as [-> | [-> | ->]].
  - change (sp_word_size (1 + 1)) with 6 in *. change (sp_word_size 1) with 6 in *.
    rewrite Hs1 in Hs2. inversion Hs2; subst s2.
    change (sp_capacity false 1) with 128. change (sp_capacity true (1 + 1)) with 240.
    intros H. apply andb_true_iff in H. destruct H as [H _]. apply andb_true_iff. split; lia.
  - change (sp_word_size (2 + 1)) with 8 in *. change (sp_word_size 2) with 6 in *.
    change (sp_capacity false 2) with 288. change (sp_capacity true (2 + 1)) with 408.
    intros H. apply andb_true_iff in H. destruct H as [H _].
    pose proof (zlength_nonneg bits). apply andb_true_iff. split; lia.
  - change (sp_word_size (3 + 1)) with 8 in *. change (sp_word_size 3) with 8 in *.
    rewrite Hs1 in Hs2. inversion Hs2; subst s2.
    change (sp_capacity false 3) with 480. change (sp_capacity true (3 + 1)) with 608.
    intros H. apply andb_true_iff in H. destruct H as [H _]. apply andb_true_iff. split; lia.
Qed.

Theorem az_c13 : forall data pct bc req, az_in_domain data pct ->
  az_encode data pct 0 = Ok bc ->
  req <> 0 -> -4 <= req <= 32 ->
  sp_size (req <? 0) (Z.abs req) < bc_width bc ->
  az_encode data pct req = Err.
Proof.
  intros data pct bc req Hdom Henc Hne Hr Hsmall.
  pose proof Hdom as (Hb & Hl & Hp & _).
  destruct (az_master data pct 0 Hb Hl Hp) as (hl & Hhl & H). rewrite Henc in H.
  destruct H as (c & L & st & Hv & Hst & (Hfit & Hreq) & _ & _ & _ & _ & _ & Hw & _).
  cbn [Z.eqb] in Hreq. destruct Hreq as (j & Hj & Hc & Hmin).
  destruct (az_c10 data pct req Hdom) as (Hnp & Hnf & Hok & Herr).
  apply Herr. intros (hl' & Hhl' & Hrep). rewrite Hhl in Hhl'. inversion Hhl'; subst hl'.
  destruct (req =? 0) eqn:E; [lia|]. destruct Hrep as (_ & Hfits).
  rewrite Hw in Hsmall.
  assert (Hcj : c = fst (cfg_of j) /\ L = snd (cfg_of j)) by (rewrite <- Hc; auto).
  destruct Hcj as [-> ->].
  (* the requested configuration, as an index of the automatic order *)
  destruct (req <? 0) eqn:Eneg.
  - (* compact -req = index -req-1 *)
    assert (Hidx : cfg_of (Z.abs req - 1) = (true, Z.abs req))
      by (unfold cfg_of; destruct (Z.abs req - 1 <=? 3) eqn:E3; [f_equal; lia | lia]).
    assert (Hlt : Z.abs req - 1 < j).
    { apply size_order; try lia. rewrite Hidx. exact Hsmall. }
    specialize (Hmin (Z.abs req - 1) ltac:(lia)). unfold fits_at in Hmin. rewrite Hidx in Hmin.
    cbn [fst snd] in Hmin. congruence.
  - destruct (Z_le_gt_dec 4 req) as [H4|H4].
    + assert (Hidx : cfg_of (Z.abs req) = (false, Z.abs req))
        by (unfold cfg_of; destruct (Z.abs req <=? 3) eqn:E3; [lia | reflexivity]).
      assert (Hlt : Z.abs req < j).
      { apply size_order; try lia. rewrite Hidx. exact Hsmall. }
      specialize (Hmin (Z.abs req) ltac:(lia)). unfold fits_at in Hmin. rewrite Hidx in Hmin.
      cbn [fst snd] in Hmin. congruence.
    + (* full-range 1..3: same size as compact 2..4 *)
      assert (Habs : Z.abs req = req) by lia. rewrite Habs in *.
      assert (Hidx : cfg_of req = (true, req + 1))
        by (unfold cfg_of; destruct (req <=? 3) eqn:E3; [reflexivity | lia]).
      assert (Hsz : sp_size false req = sp_size true (req + 1)).
      { assert (Hq : req = 1 \/ req = 2 \/ req = 3) by lia.
        destruct Hq as [-> | [-> | ->]]; reflexivity. }
      assert (Hlt : req < j).
      { apply size_order; try lia. rewrite Hidx. cbn [fst snd]. rewrite <- Hsz. exact Hsmall. }
      specialize (Hmin req ltac:(lia)). unfold fits_at in Hmin. rewrite Hidx in Hmin.
      cbn [fst snd] in Hmin.
      pose proof (fits_small_full hl (az_ecc_bits hl pct) req (ecc_bits_ge hl pct Hp) ltac:(lia) Hfits).
      congruence.
Qed.

(* ------------------------------------------------------------------ *)
(* examples: the statements are not vacuous                            *)
Definition c03_hello : list Z := [72; 101; 108; 108; 111; 44; 32; 65; 122; 116; 101; 99; 33].

Lemma az_c03_example_auto :
  match az_encode c03_hello 33 0 with
  | Ok bc => aztec_decode (bc_rows bc) = Some c03_hello /\ bc_width bc = 19
  | _ => False
  end.
Proof. vm_compute. split; reflexivity. Qed.

Lemma az_c03_example_layers :
  exists bc r, az_encode c03_hello 23 5 = Ok bc /\ aztec_read (bc_rows bc) = ROk r
    /\ ar_layers r = 5 /\ ar_compact r = false /\ ar_payload r = c03_hello /\ bc_width bc = 37.
Proof.
  eexists. eexists. split; [vm_compute; reflexivity|]. split; [vm_compute; reflexivity|].
  repeat split; reflexivity.
Qed.

Lemma az_c03_example_empty :
  match az_encode [] 33 0 with
  | Ok bc => aztec_read (bc_rows bc)
             = ROk {| ar_compact := true; ar_layers := 1; ar_datawords := 1;
                      ar_checkwords := 16; ar_payload := [] |}
  | _ => False
  end.
Proof. vm_compute. reflexivity. Qed.

Lemma az_c03_example_domain : az_in_domain c03_hello 33.
Proof.
  unfold az_in_domain. split; [repeat constructor; unfold is_byte; simpl; lia|].
  split; [reflexivity|]. split; [lia|].
  intros hl H. vm_compute in H. inversion H. reflexivity.
Qed.

