(* Lemmas for C07, part 2: Code 93.  Shared facts (UTF-8 model, search by value,
   full-ASCII unspelling, finite-case tactics) come from Code39P. *)
From Coq Require Import Permutation.
From Verif Require Import Prelude Barcode BitListM Utf8M Code39M Code93M Code39Spec Code93Spec
  TabCode93 Code39P.

Local Ltac Zify.zify_post_hook ::= Z.div_mod_to_equations.

(* the model's table entry with the 9 data bits drawn as modules *)
Definition c93_lookup_mods (r : Z) : option (Z * list bool) :=
  match c93_lookup r with Some (v, d) => Some (v, msb_bits 9 d) | None => None end.

(* ====================================================================== *)
(* table theorems                                                          *)
(* ====================================================================== *)

(* the source's encodeTable is the standard's character table *)
Lemma c93_table_is_standard : forall r, c93_lookup_mods r = c93_spec_entry r.
Proof.
  intros r. destruct (Z_le_gt_dec 0 r) as [H0|H0]; [destruct (Z_le_gt_dec r 255) as [H1|H1]|].
  - apply entry_eqb_eq.
    apply (forallb_zrange (fun r => entry_eqb (c93_lookup_mods r) (c93_spec_entry r)) 256);
      [vm_compute; reflexivity | simpl; lia].
  - unfold c93_lookup_mods, c93_lookup, c93_spec_entry.
    rewrite (map_get_none_outside 0 255), (char_index_none_outside 0 255);
      [| reflexivity | lia | reflexivity | lia].
    replace ((241 <=? r) && (r <=? 244)) with false by lia.
    replace (r =? 42) with false by lia. reflexivity.
  - unfold c93_lookup_mods, c93_lookup, c93_spec_entry.
    rewrite (map_get_none_outside 0 255), (char_index_none_outside 0 255);
      [| reflexivity | lia | reflexivity | lia].
    replace ((241 <=? r) && (r <=? 244)) with false by lia.
    replace (r =? 42) with false by lia. reflexivity.
Qed.

(* the 48 module patterns are pairwise distinct, 9 modules each *)
Lemma c93_patterns_distinct :
  NoDup c93_symbols
  /\ Forall (fun p => length p = 9%nat) c93_symbols
  /\ forallb c93_widths_ok (map str_bytes c93_width_patterns) = true
  /\ length c93_symbols = 48%nat.
Proof.
  split; [|split; [|split]].
  - apply (nodupb_NoDup bools_eqb); [apply bools_eqb_eq | vm_compute; reflexivity].
  - apply Forall_forall. intros p Hp. by_cases Hp ltac:(reflexivity).
  - vm_compute; reflexivity.
  - reflexivity.
Qed.

Lemma c93_values_nodup : NoDup (map (fun e : Z * (Z * Z) => fst (snd e)) code93_encode_table).
Proof. apply (nodupb_NoDup Z.eqb); [apply Z.eqb_eq | vm_compute; reflexivity]. Qed.

Lemma c93_keys_nodup : NoDup (map fst code93_encode_table).
Proof. apply (nodupb_NoDup Z.eqb); [apply Z.eqb_eq | vm_compute; reflexivity]. Qed.

(* getChecksum's search of the map by value gives the same rune whatever order
   the map is iterated in *)
Lemma c93_value_search_order_independent tbl v :
  Permutation code93_encode_table tbl ->
  c93_find_value tbl v = c93_find_value code93_encode_table v.
Proof.
  intros HP. unfold c93_find_value.
  pose proof (find_value_perm (fun e : Z * (Z * Z) => fst (snd e)) _ _ v c93_values_nodup HP) as H.
  cbv beta in H. rewrite H. reflexivity.
Qed.

(* facts about each data value 0..46 *)
Lemma c93_value_facts v : 0 <= v < 47 ->
  c93_lookup_mods (c93_value_rune v) = Some (v, c93_sym_modules v) /\
  c93_find_value code93_encode_table v = Some (c93_value_rune v) /\
  utf8_encode_rune (c93_value_rune v) = c93_value_text v /\
  existsb (fun b => b =? 42) (c93_value_text v) = false /\
  (v <? 43 = true -> is_ascii (c93_value_rune v) = true /\ c93_value_text v = [c93_value_rune v]).
Proof.
  intros H. assert (In v (zrange 47)) as Hin by (apply in_zrange; simpl; lia).
  by_cases Hin ltac:(vm_compute; repeat split; first [reflexivity | discriminate]).
Qed.

(* facts about each symbol character 0..47 *)
Lemma c93_symbol_facts v : 0 <= v < 48 ->
  length (c93_sym_modules v) = 9%nat /\ c93_read_symbol (c93_sym_modules v) = Some v /\
  c93_lookup_mods (c93_value_rune v) = Some (v, c93_sym_modules v).
Proof.
  intros H. assert (In v (zrange 48)) as Hin by (apply in_zrange; simpl; lia).
  by_cases Hin ltac:(vm_compute; repeat split; reflexivity).
Qed.

Lemma c93_lookup_of_mods r v m : c93_lookup_mods r = Some (v, m) ->
  exists d, c93_lookup r = Some (v, d) /\ msb_bits 9 d = m.
Proof.
  unfold c93_lookup_mods. destruct (c93_lookup r) as [[v' d]|]; [|discriminate].
  intros H; inversion H; subst. exists d; split; reflexivity.
Qed.

(* a byte that is one of the 43 printable data characters *)
Lemma c93_basic_index b :
  match char_index b (firstn 43 c93_charset) 0 with
  | Some v => (0 <=? v) && (v <? 43) && zlist_eqb (c93_value_text v) [b]
              && (c93_value_rune v =? b) && is_ascii b
  | None => (negb (is_ascii b)) || (b =? 42)
            || match c93_lookup b with None => true | Some _ => false end
  end = true.
Proof.
  destruct (Z_le_gt_dec 0 b) as [H0|H0]; [destruct (Z_le_gt_dec b 127) as [H1|H1]|].
  - assert (In b (zrange 128)) as H by (apply in_zrange; simpl; lia).
    by_cases H ltac:(vm_compute; reflexivity).
  - rewrite (char_index_none_outside 0 127); [| reflexivity | lia].
    replace (is_ascii b) with false by (unfold is_ascii; lia). reflexivity.
  - rewrite (char_index_none_outside 0 127); [| reflexivity | lia].
    replace (is_ascii b) with false by (unfold is_ascii; lia). reflexivity.
Qed.

(* runes above 127 other than FNC1..FNC4 are not in the table *)
Lemma c93_lookup_high r : 128 <= r -> ~ (241 <= r <= 244) -> c93_lookup r = None.
Proof.
  intros H N. destruct (Z_le_gt_dec r 255) as [H1|H1].
  - pose proof (forallb_zrange
        (fun r => (r <? 128) || ((241 <=? r) && (r <=? 244))
                  || match c93_lookup r with None => true | Some _ => false end) 256
        ltac:(vm_compute; reflexivity) r ltac:(simpl; lia)) as F.
    cbv beta in F. destruct (c93_lookup r); [exfalso; lia | reflexivity].
  - apply (map_get_none_outside 0 255); [reflexivity | lia].
Qed.

(* ====================================================================== *)
(* texts and data values                                                   *)
(* ====================================================================== *)
Definition c93_vals_ok (vals : list Z) : Prop := Forall (fun v => 0 <= v < 47) vals.

(* a basic-mode text denotes the values c93_text_values gives, and only them *)
Lemma c93_text_values_sound s : forall vals,
  c93_text_values s = Some vals -> c93_vals_ok vals /\ c93_values_text vals = s.
Proof.
  assert (H : forall n s, (length s <= n)%nat -> forall vals,
            c93_text_values s = Some vals -> c93_vals_ok vals /\ c93_values_text vals = s).
  { induction n as [|n IH]; intros s0 Hn vals H.
    - destruct s0; [|simpl in Hn; lia]. inversion H; subst. split; [constructor | reflexivity].
    - destruct s0 as [|b t]; [inversion H; subst; split; [constructor | reflexivity]|].
      cbn [c93_text_values] in H. pose proof (c93_basic_index b) as BI.
      destruct (char_index b (firstn 43 c93_charset) 0) as [v|].
      + destruct (c93_text_values t) as [r|] eqn:Er; [|discriminate]. cbn [obind_opt] in H.
        assert (vals = v :: r) as -> by congruence. destruct (IH t ltac:(simpl in Hn; lia) r Er) as (I1 & I2).
        repeat (apply andb_true_iff in BI as [BI ?]).
        match goal with X : zlist_eqb _ _ = true |- _ => apply zlist_eqb_eq in X; rename X into VT end.
        split; [constructor; [lia | exact I1]|].
        unfold c93_values_text in *. cbn [flat_map]. rewrite VT, I2. reflexivity.
      + destruct (b =? 195) eqn:Eb; [|discriminate]. apply Z.eqb_eq in Eb; subst b.
        destruct t as [|b1 t']; [discriminate|].
        destruct ((177 <=? b1) && (b1 <=? 180)) eqn:Er1; [|discriminate].
        destruct (c93_text_values t') as [r|] eqn:Er; [|discriminate]. cbn [obind_opt] in H.
        assert (vals = 43 + (b1 - 177) :: r) as -> by congruence. destruct (IH t' ltac:(simpl in Hn; lia) r Er) as (I1 & I2).
        split; [constructor; [lia | exact I1]|].
        unfold c93_values_text in *. cbn [flat_map]. rewrite I2. unfold c93_value_text.
        replace (43 + (b1 - 177) <? 43) with false by lia. cbn [app]. f_equal. f_equal. lia. }
  intros vals. apply (H (length s)). lia.
Qed.

(* the runes of a text that denotes vals *)
Lemma c93_decode_value v rest : 0 <= v < 47 ->
  utf8_decode (c93_value_text v ++ rest) = c93_value_rune v :: utf8_decode rest.
Proof.
  intros H. destruct (c93_value_facts v H) as (_ & _ & _ & _ & A).
  destruct (v <? 43) eqn:E.
  - destruct (A eq_refl) as (A1 & A2). rewrite A2. cbn [app]. apply utf8_decode_ascii_cons. exact A1.
  - unfold c93_value_text, c93_value_rune. rewrite E. replace (v =? 47) with false by lia.
    cbn [app]. rewrite utf8_decode_2byte by lia. f_equal. lia.
Qed.

Lemma c93_runes_of_values vals rest : c93_vals_ok vals ->
  utf8_decode (c93_values_text vals ++ rest) = map c93_value_rune vals ++ utf8_decode rest.
Proof.
  induction 1 as [|v vals Hv _ IH]; [reflexivity|].
  unfold c93_values_text in *. cbn [flat_map map app]. rewrite <- app_assoc.
  rewrite c93_decode_value by exact Hv. rewrite IH. reflexivity.
Qed.

Lemma c93_values_text_app a b : c93_values_text (a ++ b) = c93_values_text a ++ c93_values_text b.
Proof. apply flat_map_app. Qed.

Lemma c93_values_no_star vals : c93_vals_ok vals -> c39_contains_star (c93_values_text vals) = false.
Proof.
  unfold c39_contains_star, c93_values_text.
  induction 1 as [|v vals Hv _ IH]; [reflexivity|].
  cbn [flat_map]. rewrite existsb_app, IH.
  destruct (c93_value_facts v Hv) as (_ & _ & _ & S & _). rewrite S. reflexivity.
Qed.

(* ====================================================================== *)
(* check characters                                                        *)
(* ====================================================================== *)
Lemma c93_wsum_nonneg m i rvals : 0 < m -> c93_vals_ok rvals -> 0 <= c93_wsum m i rvals.
Proof.
  intros Hm H; revert i; induction H as [|v t Hv _ IH]; intros i; cbn [c93_wsum]; [lia|].
  specialize (IH (i + 1)). assert (0 <= i mod m) by (apply Z.mod_pos_bound; lia). nia.
Qed.

Lemma c93_check_range m vals : 0 <= c93_check m vals < 47.
Proof. unfold c93_check. apply Z.mod_pos_bound. lia. Qed.

(* the incrementing, wrapping weight of the source loop is position mod maxWeight + 1 *)
Lemma c93_weighted_vals m rvals : (m = 20 \/ m = 15) -> c93_vals_ok rvals -> forall i tot, 0 <= i ->
  c93_weighted (map c93_value_rune rvals) m (i mod m + 1) tot = Some (tot + c93_wsum m i rvals).
Proof.
  intros Hm H; induction H as [|v t Hv _ IH]; intros i tot Hi; cbn [map c93_weighted c93_wsum].
  - f_equal; lia.
  - destruct (c93_value_facts v Hv) as (L & _). apply c93_lookup_of_mods in L as (d & L & _).
    rewrite L.
    replace (if i mod m + 1 + 1 >? m then 1 else i mod m + 1 + 1) with ((i + 1) mod m + 1)
      by (destruct (i mod m + 1 + 1 >? m) eqn:E; destruct Hm; subst m; lia).
    rewrite IH by lia. f_equal. ring.
Qed.

Lemma c93_get_checksum_vals m vals : (m = 20 \/ m = 15) -> c93_vals_ok vals ->
  c93_get_checksum (c93_values_text vals) m = c93_value_rune (c93_check m vals).
Proof.
  intros Hm H. unfold c93_get_checksum.
  rewrite <- (app_nil_r (c93_values_text vals)), c93_runes_of_values by exact H.
  rewrite utf8_decode_nil, app_nil_r. unfold rev'. rewrite <- rev_alt, <- map_rev.
  assert (c93_vals_ok (rev vals)) as Hr.
  { apply Forall_forall. intros v Hv. apply in_rev in Hv. eapply Forall_forall in H; eauto. }
  replace 1 with (0 mod m + 1) at 1 by (destruct Hm; subst m; reflexivity).
  rewrite c93_weighted_vals by (auto; lia). rewrite Z.add_0_l.
  replace (go_mod (c93_wsum m 0 (rev vals)) 47) with (c93_check m vals)
    by (unfold go_mod, c93_check; symmetry; apply Z.rem_mod_nonneg;
        [apply c93_wsum_nonneg; [destruct Hm; lia | exact Hr] | lia]).
  destruct (c93_value_facts _ (c93_check_range m vals)) as (_ & F & _). rewrite F. reflexivity.
Qed.

(* ====================================================================== *)
(* the encoder on a sequence of data values                                *)
(* ====================================================================== *)
Lemma c93_draw_syms syms : Forall (fun v => 0 <= v < 48) syms ->
  c93_draw (map c93_value_rune syms) = Ok (flat_map c93_sym_modules syms).
Proof.
  induction 1 as [|v syms Hv _ IH]; [reflexivity|].
  cbn [map c93_draw flat_map]. destruct (c93_symbol_facts v Hv) as (_ & _ & L).
  apply c93_lookup_of_mods in L as (d & L & M). rewrite L, IH, M. reflexivity.
Qed.

Lemma c93_check_k_range vals : 0 <= c93_check_k vals < 47.
Proof. apply c93_check_range. Qed.

Lemma c93_symbol_ok cs vals : c93_vals_ok vals -> Forall (fun v => 0 <= v < 48) (c93_symbol cs vals).
Proof.
  intros H. unfold c93_symbol, c93_start_stop. repeat (apply Forall_app; split).
  - repeat constructor; lia.
  - eapply Forall_impl; [|exact H]. simpl; intros; lia.
  - pose proof (c93_check_range 20 vals). pose proof (c93_check_k_range vals). unfold c93_check_c.
    destruct cs; repeat constructor; lia.
  - repeat constructor; lia.
Qed.

Lemma c93_encode_tail (cs : bool) vals : c93_vals_ok vals ->
  (let content1 := c93_values_text vals in
   let data :=
     if cs then
       let data1 := content1 ++ utf8_encode_rune (c93_get_checksum content1 20) in
       data1 ++ utf8_encode_rune (c93_get_checksum data1 15)
     else content1 in
   let data := [42] ++ data ++ [42] in
   do bits <- c93_draw (utf8_decode data);
   Ok (mk1d KCode93 content1 None (bits ++ [true])))
  = Ok (mk1d KCode93 (c93_values_text vals) None (c93_layout (c93_symbol cs vals))).
Proof.
  intros H. cbv zeta.
  assert (c93_vals_ok (vals ++ [c93_check_c vals])) as H1
    by (apply Forall_app; split; [exact H | repeat constructor; apply c93_check_range]).
  assert ((if cs
           then (c93_values_text vals ++ utf8_encode_rune (c93_get_checksum (c93_values_text vals) 20))
                ++ utf8_encode_rune
                     (c93_get_checksum
                        (c93_values_text vals
                         ++ utf8_encode_rune (c93_get_checksum (c93_values_text vals) 20)) 15)
           else c93_values_text vals)
          = c93_values_text (vals ++ (if cs then [c93_check_c vals; c93_check_k vals] else []))) as E.
  { destruct cs; [|rewrite app_nil_r; reflexivity].
    rewrite c93_get_checksum_vals by auto. fold (c93_check_c vals).
    destruct (c93_value_facts _ (c93_check_range 20 vals)) as (_ & _ & U & _).
    fold (c93_check_c vals) in U. rewrite U.
    replace (c93_values_text vals ++ c93_value_text (c93_check_c vals))
      with (c93_values_text (vals ++ [c93_check_c vals]))
      by (rewrite c93_values_text_app; unfold c93_values_text; cbn [flat_map]; rewrite app_nil_r; reflexivity).
    rewrite c93_get_checksum_vals by auto. fold (c93_check_k vals).
    destruct (c93_value_facts _ (c93_check_k_range vals)) as (_ & _ & U2 & _). rewrite U2.
    replace (vals ++ [c93_check_c vals; c93_check_k vals])
      with ((vals ++ [c93_check_c vals]) ++ [c93_check_k vals]) by (rewrite <- app_assoc; reflexivity).
    rewrite (c93_values_text_app (vals ++ [c93_check_c vals])).
    unfold c93_values_text at 3. cbn [flat_map]. rewrite app_nil_r. reflexivity. }
  rewrite E. clear E.
  set (mid := vals ++ (if cs then [c93_check_c vals; c93_check_k vals] else [])).
  assert (c93_vals_ok mid) as Hmid.
  { apply Forall_app; split; [exact H|].
    pose proof (c93_check_range 20 vals). pose proof (c93_check_k_range vals). unfold c93_check_c.
    destruct cs; repeat constructor; lia. }
  cbn [app]. rewrite utf8_decode_ascii_cons by reflexivity.
  rewrite c93_runes_of_values by exact Hmid.
  rewrite utf8_decode_ascii_cons, utf8_decode_nil by reflexivity.
  replace (42 :: map c93_value_rune mid ++ [42]) with (map c93_value_rune (c93_symbol cs vals)).
  - rewrite c93_draw_syms by (apply c93_symbol_ok; exact H). reflexivity.
  - unfold c93_symbol, c93_start_stop. rewrite !map_app. cbn [map app]. subst mid.
    rewrite map_app, <- app_assoc. reflexivity.
Qed.

(* ====================================================================== *)
(* the reference decoder on a laid-out symbol                              *)
(* ====================================================================== *)
Lemma c93_read_symbols_layout syms : forall fuel,
  Forall (fun v => 0 <= v < 48) syms -> (length syms < fuel)%nat ->
  c93_read_symbols fuel (flat_map c93_sym_modules syms ++ [true]) = Some syms.
Proof.
  induction syms as [|v t IH]; intros fuel H Hf; (destruct fuel as [|f]; [lia|]).
  - reflexivity.
  - inversion H as [|? ? Hv Ht]; subst. destruct (c93_symbol_facts v Hv) as (L & R & _).
    cbn [c93_read_symbols flat_map]. rewrite <- app_assoc.
    destruct (firstn_skipn_exact (c93_sym_modules v) (flat_map c93_sym_modules t ++ [true]) 9 L)
      as (F1 & S1).
    rewrite F1, S1, R. rewrite IH; [reflexivity | exact Ht | simpl in Hf; lia].
Qed.

Lemma c93_layout_length syms : Forall (fun v => 0 <= v < 48) syms ->
  (length syms < length (c93_layout syms))%nat.
Proof.
  unfold c93_layout. rewrite app_length. change (length [true]) with 1%nat.
  induction 1 as [|v t Hv _ IH]; simpl; [lia|].
  destruct (c93_symbol_facts v Hv) as (L & _). rewrite app_length, L. lia.
Qed.

Lemma c93_strip_frame_ok mid : c93_vals_ok mid ->
  c93_strip_frame ([c93_start_stop] ++ mid ++ [c93_start_stop]) = Some mid.
Proof.
  intros H. unfold c93_strip_frame. cbn [app]. rewrite rev_unit.
  rewrite !Z.eqb_refl. cbn [andb].
  replace (forallb (fun v => (0 <=? v) && (v <? 47)) (rev mid)) with true.
  - rewrite rev_involutive. reflexivity.
  - symmetry. apply forallb_forall. intros v Hv. apply in_rev in Hv.
    eapply Forall_forall in H; [|exact Hv]. simpl in H. lia.
Qed.

Lemma c93_strip_check_ok (cs : bool) vals :
  c93_strip_check cs (vals ++ (if cs then [c93_check_c vals; c93_check_k vals] else [])) = Some vals.
Proof.
  destruct cs; unfold c93_strip_check.
  - rewrite rev_app_distr. cbn [rev app]. rewrite rev_involutive, !Z.eqb_refl. reflexivity.
  - rewrite app_nil_r. reflexivity.
Qed.

Lemma c93_decode_values_layout cs vals : c93_vals_ok vals ->
  c93_decode_values cs (c93_layout (c93_symbol cs vals)) = Some vals.
Proof.
  intros H. unfold c93_decode_values.
  pose proof (c93_symbol_ok cs vals H) as Hs.
  unfold c93_layout at 2.
  rewrite c93_read_symbols_layout; [| exact Hs | apply c93_layout_length; exact Hs].
  cbn [obind_opt]. unfold c93_symbol. rewrite (app_assoc vals).
  rewrite c93_strip_frame_ok.
  - cbn [obind_opt]. apply c93_strip_check_ok.
  - apply Forall_app; split; [exact H|].
    pose proof (c93_check_range 20 vals). pose proof (c93_check_k_range vals). unfold c93_check_c.
    destruct cs; repeat constructor; lia.
Qed.

(* ====================================================================== *)
(* full ASCII                                                              *)
(* ====================================================================== *)
(* the source's spelling of an ASCII code, as bytes and as data values *)
Definition c93_go_spelling (b : Z) : list Z :=
  match zget code93_extended_table b with Some e => e | None => [] end.
Definition c93_src_vals (b : Z) : list Z :=
  match c93_text_values (c93_go_spelling b) with Some vs => vs | None => [] end.

(* facts about each ASCII code 0..127 *)
Lemma c93_ascii_facts b : is_ascii b = true ->
  zget code93_extended_table b = Some (c93_go_spelling b) /\
  c93_text_values (c93_go_spelling b) = Some (c93_src_vals b) /\
  In (c93_src_vals b) (c93_spellings b) /\
  fa_spelling_ok c93_is_shift c93_pair_table (map c93_value_char (c93_src_vals b)) b = true.
Proof.
  intros H. assert (In b (zrange 128)) as Hin by (apply in_zrange; unfold is_ascii in H; simpl; lia).
  by_cases Hin ltac:(vm_compute; repeat split;
    first [reflexivity | left; reflexivity | right; left; reflexivity]).
Qed.

(* the source's extendedTable holds standard spellings: entry b is the text of a
   value sequence that is one of the standard's spellings of ASCII code b *)
Lemma c93_extended_table_is_standard b : 0 <= b <= 127 ->
  zget code93_extended_table b = Some (c93_values_text (c93_src_vals b)) /\
  c93_vals_ok (c93_src_vals b) /\
  In (c93_src_vals b) (c93_spellings b).
Proof.
  intros H. destruct (c93_ascii_facts b ltac:(unfold is_ascii; lia)) as (Z1 & T & I & _).
  destruct (c93_text_values_sound _ _ T) as (V & E). rewrite E. auto.
Qed.

(* key lemma: unspelling the source's spelling of an ASCII text gives the text *)
Lemma c93_unspell_spell s : forallb is_ascii s = true ->
  c93_unspell (flat_map c93_src_vals s) = Some s.
Proof.
  intros H. unfold c93_unspell.
  replace (map c93_value_char (flat_map c93_src_vals s))
    with (flat_map (fun b => map c93_value_char (c93_src_vals b)) s)
    by (clear H; induction s as [|b t IH]; [reflexivity | cbn [flat_map]; rewrite map_app, IH; reflexivity]).
  apply fa_unspell_flat_map. intros b Hb. apply c93_ascii_facts. eapply forallb_forall in H; eauto.
Qed.

Lemma c93_src_vals_ok s : forallb is_ascii s = true -> c93_vals_ok (flat_map c93_src_vals s).
Proof.
  induction s as [|b t IH]; cbn [forallb flat_map]; intros H; [constructor|].
  apply andb_true_iff in H as [H1 H2]. apply Forall_app; split; [|apply IH; exact H2].
  destruct (c93_extended_table_is_standard b ltac:(unfold is_ascii in H1; lia)) as (_ & V & _).
  exact V.
Qed.

Lemma c93_prepare_runes_ascii s : forallb is_ascii s = true ->
  c93_prepare_runes s = Ok (c93_values_text (flat_map c93_src_vals s)).
Proof.
  induction s as [|b t IH]; cbn [c93_prepare_runes forallb flat_map]; intros H; [reflexivity|].
  apply andb_true_iff in H as [H1 H2]. rewrite IH by exact H2.
  replace (b >? 127) with false by (unfold is_ascii in H1; lia).
  destruct (c93_extended_table_is_standard b ltac:(unfold is_ascii in H1; lia)) as (Z1 & _).
  rewrite Z1. cbn [obind]. rewrite c93_values_text_app. reflexivity.
Qed.

Lemma utf8_decode_nonneg s : Forall (fun r => 0 <= r) (utf8_decode s).
Proof.
  induction s as [|b rest IH] using utf8_ind; [constructor|].
  rewrite utf8_decode_cons. constructor; [|exact IH].
  destruct (utf8_decode1_cases b rest) as [[A E]|[N [(b1 & r1 & _ & Hb & Hb1 & E)|D]]];
    [rewrite E; cbn [fst] | rewrite E; cbn [fst] | ]; lia.
Qed.

Lemma c93_prepare_runes_err runes r :
  Forall (fun r => 0 <= r) runes -> In r runes -> r > 127 -> c93_prepare_runes runes = Err.
Proof.
  induction 1 as [|x t Hx _ IH]; cbn [c93_prepare_runes]; intros Hin Hr; [contradiction|].
  destruct (x >? 127) eqn:E; [reflexivity|].
  destruct Hin as [->|Hin]; [exfalso; lia|].
  destruct (c93_ascii_facts x ltac:(unfold is_ascii; lia)) as (Z1 & _). rewrite Z1.
  rewrite (IH Hin Hr). reflexivity.
Qed.

(* ====================================================================== *)
(* acceptance and round trip                                               *)
(* ====================================================================== *)

(* the data values of an accepted text *)
Definition c93_text_vals (full : bool) (s : list Z) : list Z :=
  if full then flat_map c93_src_vals s
  else match c93_text_values s with Some vs => vs | None => [] end.

Lemma c93_accepted_vals full s : c93_accepts full s = true ->
  c93_vals_ok (c93_text_vals full s) /\
  (if full then c93_prepare s else if c39_contains_star s then Err else Ok s)
  = Ok (c93_values_text (c93_text_vals full s)).
Proof.
  destruct full; cbn [c93_accepts c93_text_vals]; intros H.
  - split; [apply c93_src_vals_ok; exact H|].
    unfold c93_prepare. rewrite utf8_decode_ascii by exact H. apply c93_prepare_runes_ascii; exact H.
  - destruct (c93_text_values s) as [vs|] eqn:E; [|discriminate].
    destruct (c93_text_values_sound _ _ E) as (V & T). split; [exact V|].
    rewrite <- T at 1. rewrite c93_values_no_star by exact V. rewrite T. reflexivity.
Qed.

Lemma c93_encode_accepted s cs full : c93_accepts full s = true ->
  c93_encode s cs full =
  Ok (mk1d KCode93 (c93_values_text (c93_text_vals full s)) None
           (c93_layout (c93_symbol cs (c93_text_vals full s)))).
Proof.
  intros H. unfold c93_encode. destruct (c93_accepted_vals full s H) as (V & E).
  rewrite E. cbn [obind]. pose proof (c93_encode_tail cs _ V) as T. cbv zeta in T. exact T.
Qed.

Lemma c93_draw_err runes r : In r runes -> c93_lookup r = None -> c93_draw runes = Err.
Proof.
  induction runes as [|x t IH]; simpl; intros Hin Hr; [contradiction|].
  destruct (c93_lookup x) as [[v d]|] eqn:E; [|reflexivity].
  destruct Hin as [->|Hin]; [congruence|]. rewrite (IH Hin Hr). reflexivity.
Qed.

(* a basic-mode text that is not a sequence of data characters either contains '*'
   or has a rune that is not in the table *)
Lemma c93_bad_rune s : c93_text_values s = None -> c39_contains_star s = false ->
  exists r, In r (utf8_decode s) /\ c93_lookup r = None.
Proof.
  induction s as [|b rest IH] using utf8_ind; [discriminate|].
  intros H Hs. cbn [c39_contains_star existsb] in Hs.
  apply orb_false_iff in Hs as [Hb Hs]. fold (c39_contains_star rest) in Hs.
  rewrite utf8_decode_cons. cbn [c93_text_values] in H. pose proof (c93_basic_index b) as BI.
  destruct (utf8_decode1_cases b rest) as [[A E]|[N D]].
  - (* an ASCII byte *)
    rewrite E in *. cbn [fst snd] in *.
    destruct (char_index b (firstn 43 c93_charset) 0) as [v|].
    + destruct (c93_text_values rest) eqn:Er; [discriminate|].
      destruct (IH eq_refl Hs) as (r & Hr & Lr). exists r; split; [right; exact Hr | exact Lr].
    + exists b; split; [left; reflexivity|].
      replace (is_ascii b) with true in BI by (unfold is_ascii; lia).
      rewrite Hb in BI. cbn [negb orb] in BI. destruct (c93_lookup b); [discriminate | reflexivity].
  - (* a non-ASCII byte: rune >= 128 *)
    set (r := fst (utf8_decode1 b rest)) in *.
    destruct (Z_le_gt_dec 241 r) as [R1|R1]; [destruct (Z_le_gt_dec r 244) as [R2|R2]|].
    + (* FNC1..FNC4: a well-formed C3 B1..B4 *)
      destruct D as [(b1 & r1 & -> & Hb' & Hb1 & E)|D]; [|exfalso; lia].
      subst r. rewrite E in *. cbn [fst snd] in *.
      assert (b = 195 /\ 177 <= b1 <= 180) as (-> & Hr1) by lia.
      replace (is_ascii 195) with false in BI by reflexivity.
      destruct (char_index 195 (firstn 43 c93_charset) 0) as [v|] eqn:CI; [vm_compute in CI; discriminate|].
      cbn [Z.eqb Pos.eqb] in H. replace ((177 <=? b1) && (b1 <=? 180)) with true in H by lia.
      destruct (c93_text_values r1) eqn:Er; [discriminate|].
      destruct (IH eq_refl) as (r & Hr & Lr).
      { cbn [c39_contains_star existsb] in Hs. apply orb_false_iff in Hs as [_ Hs]. exact Hs. }
      exists r; split; [right; exact Hr | exact Lr].
    + exists r; split; [left; reflexivity|]. apply c93_lookup_high; lia.
    + exists r; split; [left; reflexivity|]. apply c93_lookup_high; [|lia].
      destruct D as [(b1 & r1 & _ & Hb' & Hb1 & E)|D]; [subst r; rewrite E; cbn [fst]|]; lia.
Qed.

Lemma c93_encode_rejected s cs full : c93_accepts full s = false -> c93_encode s cs full = Err.
Proof.
  intros H. unfold c93_encode. destruct full; cbn [c93_accepts] in H.
  - unfold c93_prepare. destruct (utf8_decode_nonascii s H) as (r & Hr & Hg).
    rewrite (c93_prepare_runes_err _ r (utf8_decode_nonneg s) Hr Hg). reflexivity.
  - destruct (c39_contains_star s) eqn:Hs; [reflexivity|]. cbn [obind].
    destruct (c93_text_values s) eqn:Et; [discriminate|].
    destruct (c93_bad_rune s Et Hs) as (r & Hr & Lr).
    rewrite (c93_draw_err _ r); [reflexivity | | exact Lr].
    cbn [app]. rewrite utf8_decode_ascii_cons by reflexivity. right.
    destruct cs.
    + rewrite <- !app_assoc. rewrite utf8_decode_app; [apply in_or_app; left; exact Hr|].
      apply utf8_encode_rune_clean.
    + rewrite utf8_decode_app; [apply in_or_app; left; exact Hr | reflexivity].
Qed.

(* acceptance: basic mode takes exactly the texts that are sequences of the 47 data
   characters (43 printable, FNC1..FNC4 as C3 B1..B4; in particular no '*'), full
   ASCII exactly the ASCII texts; everything else is an error, never a panic *)
Theorem c93_acceptance s cs full :
  (c93_accepts full s = true -> exists bc, c93_encode s cs full = Ok bc) /\
  (c93_accepts full s = false -> c93_encode s cs full = Err).
Proof.
  split; intros H.
  - eexists. apply c93_encode_accepted; exact H.
  - apply c93_encode_rejected; exact H.
Qed.

(* main theorem *)
Theorem c93_roundtrip s cs full bc : c93_encode s cs full = Ok bc ->
  exists vals,
    Forall (fun v => 0 <= v < 47) vals /\
    bc = mk1d KCode93 (c93_values_text vals) None (c93_layout (c93_symbol cs vals)) /\
    (if full then vals = flat_map c93_src_vals s /\ c93_unspell vals = Some s
     else c93_values_text vals = s) /\
    c93_decode_values cs (c93_layout (c93_symbol cs vals)) = Some vals /\
    c93_decode cs full (c93_layout (c93_symbol cs vals)) = Some s /\
    c93_accepts full s = true.
Proof.
  intros HE. destruct (c93_accepts full s) eqn:HA;
    [|rewrite (c93_encode_rejected s cs full HA) in HE; discriminate].
  rewrite (c93_encode_accepted s cs full HA) in HE. inversion HE; subst bc; clear HE.
  destruct (c93_accepted_vals full s HA) as (V & _).
  exists (c93_text_vals full s). split; [exact V|]. split; [reflexivity|].
  assert (if full then c93_text_vals full s = flat_map c93_src_vals s
                       /\ c93_unspell (c93_text_vals full s) = Some s
          else c93_values_text (c93_text_vals full s) = s) as HT.
  { destruct full; cbn [c93_text_vals c93_accepts] in *.
    - split; [reflexivity | apply c93_unspell_spell; exact HA].
    - destruct (c93_text_values s) as [vs|] eqn:E; [|discriminate].
      apply (c93_text_values_sound _ _ E). }
  split; [exact HT|]. split; [apply c93_decode_values_layout; exact V|]. split; [|reflexivity].
  unfold c93_decode. rewrite c93_decode_values_layout by exact V. cbn [obind_opt].
  destruct full; [apply HT | f_equal; exact HT].
Qed.

(* the hypotheses are satisfiable *)
Lemma c93_example :
  exists bc, c93_encode [67; 111; 100; 101; 32; 57; 51; 42] true true = Ok bc
             /\ bc_width bc = 145 /\ bc_checksum bc = None.
Proof. eexists. vm_compute. repeat split; reflexivity. Qed.

(* ---------- statements without the auxiliary definitions of this file ---------- *)
Lemma c93_extended_table_standard_ex b : 0 <= b <= 127 ->
  exists vals, zget code93_extended_table b = Some (c93_values_text vals)
               /\ Forall (fun v => 0 <= v < 47) vals /\ In vals (c93_spellings b).
Proof. intros H. exists (c93_src_vals b). apply c93_extended_table_is_standard; exact H. Qed.

Lemma c93_unspell_spell_ex s : forallb is_ascii s = true ->
  exists vals,
    c93_values_text vals
    = flat_map (fun b => match zget code93_extended_table b with Some e => e | None => [] end) s
    /\ c93_unspell vals = Some s.
Proof.
  intros H. exists (flat_map c93_src_vals s). split; [|apply c93_unspell_spell; exact H].
  induction s as [|b t IH]; [reflexivity|]. cbn [forallb flat_map] in *.
  apply andb_true_iff in H as [H1 H2]. rewrite c93_values_text_app, IH by exact H2.
  destruct (c93_extended_table_is_standard b ltac:(unfold is_ascii in H1; lia)) as (Z1 & _).
  rewrite Z1. reflexivity.
Qed.

Theorem c93_roundtrip_stmt s cs full bc : c93_encode s cs full = Ok bc ->
  exists vals,
    Forall (fun v => 0 <= v < 47) vals /\
    bc = mk1d KCode93 (c93_values_text vals) None (c93_layout (c93_symbol cs vals)) /\
    (if full
     then c93_values_text vals
          = flat_map (fun b => match zget code93_extended_table b with Some e => e | None => [] end) s
          /\ c93_unspell vals = Some s
     else c93_values_text vals = s) /\
    c93_decode_values cs (c93_layout (c93_symbol cs vals)) = Some vals /\
    c93_decode cs full (c93_layout (c93_symbol cs vals)) = Some s /\
    c93_accepts full s = true.
Proof.
  intros HE. destruct (c93_roundtrip s cs full bc HE) as (vals & V & B & T & D1 & D2 & A).
  exists vals. repeat split; try assumption.
  destruct full; [|exact T]. destruct T as (-> & U). split; [|exact U].
  cbn [c93_accepts] in A. clear - A.
  induction s as [|b t IH]; [reflexivity|]. cbn [forallb flat_map] in *.
  apply andb_true_iff in A as [H1 H2]. rewrite c93_values_text_app, IH by exact H2.
  destruct (c93_extended_table_is_standard b ltac:(unfold is_ascii in H1; lia)) as (Z1 & _).
  rewrite Z1. reflexivity.
Qed.
