(* Proofs for C08 (Codabar part): the model of codabar/encoder.go (CodabarM)
   against the specification (CodabarSpec). *)
From Verif Require Import Prelude Barcode Utf8M Utf8RangeM Utf8RangeP TabCodabar CodabarM
  RunLenSpec RunLenP CodabarSpec.

(* ---------- table ---------- *)
Lemma codabar_table_matches_standard :
  codabar_encoding_table = map (fun ce => (fst ce, codabar_modules (snd ce))) codabar_table.
Proof. vm_compute. reflexivity. Qed.

(* ---------- the accepted language ---------- *)
Definition codabar_language (s : list Z) : Prop :=
  exists a body b, s = a :: body ++ [b]
    /\ In a codabar_start_stop /\ In b codabar_start_stop
    /\ Forall (fun c => In c codabar_data_chars) body.

Lemma zmem_In c l : zmem c l = true <-> In c l.
Proof.
  unfold zmem. rewrite existsb_exists. split.
  - intros (x & Hx & E). apply Z.eqb_eq in E. subst. exact Hx.
  - intros H. exists c. split; [exact H | apply Z.eqb_refl].
Qed.

Lemma codabar_representable_iff s : codabar_representable s = true <-> codabar_language s.
Proof.
  unfold codabar_representable, codabar_language. split.
  - destruct s as [|a [|x t]]; try discriminate. intros H.
    apply andb_true_iff in H as [H Hbody]. apply andb_true_iff in H as [Ha Hb].
    exists a, (removelast (x :: t)), (last (x :: t) 0).
    split; [f_equal; apply app_removelast_last; discriminate|].
    rewrite zmem_In in Ha, Hb. split; [exact Ha|]. split; [exact Hb|].
    apply Forall_forall. intros c Hc. rewrite forallb_forall in Hbody.
    apply zmem_In. apply Hbody. exact Hc.
  - intros (a & body & b & -> & Ha & Hb & Hbody).
    assert (body ++ [b] <> []) as Hne by (destruct body; discriminate).
    destruct (body ++ [b]) as [|x t] eqn:E; [contradiction|]. rewrite <- E.
    rewrite last_last, removelast_last.
    apply zmem_In in Ha, Hb. rewrite Ha, Hb. cbn [andb].
    apply forallb_forall. intros c Hc. apply zmem_In. rewrite Forall_forall in Hbody. auto.
Qed.

Lemma cb_class_startstop_spec c : cb_class_startstop c = zmem c codabar_start_stop.
Proof. unfold cb_class_startstop, zmem, codabar_start_stop. cbn [existsb]. lia. Qed.

Lemma cb_class_body_spec c : cb_class_body c = zmem c codabar_data_chars.
Proof. unfold cb_class_body, zmem, codabar_data_chars. cbn [existsb]. lia. Qed.

(* the backtracking-free matcher against the specification's view (last / removelast) *)
Lemma cb_match_rest_spec t : cb_match_rest t =
  match t with
  | [] => false
  | _ :: _ => zmem (last t 0) codabar_start_stop
              && forallb (fun c => zmem c codabar_data_chars) (removelast t)
  end.
Proof.
  induction t as [|x t IH]; [reflexivity|].
  cbn [cb_match_rest]. destruct t as [|y t].
  - cbn [last removelast forallb]. rewrite cb_class_startstop_spec, andb_true_r. reflexivity.
  - rewrite IH, cb_class_body_spec.
    change (last (x :: y :: t) 0) with (last (y :: t) 0).
    change (removelast (x :: y :: t)) with (x :: removelast (y :: t)).
    cbn [forallb]. destruct (zmem x codabar_data_chars), (zmem (last (y :: t) 0) codabar_start_stop); reflexivity.
Qed.

Lemma cb_match_at_spec s : cb_match_at s = codabar_representable s.
Proof.
  unfold cb_match_at, codabar_representable. destruct s as [|a t]; [reflexivity|].
  rewrite cb_match_rest_spec, cb_class_startstop_spec. destruct t; [apply andb_false_r|].
  rewrite andb_assoc. reflexivity.
Qed.

Lemma cb_match_rest_ascii t : cb_match_rest t = true -> Forall (fun r => r < 128) t.
Proof.
  induction t as [|x t IH]; [constructor|]. cbn [cb_match_rest]. destruct t as [|y t].
  - unfold cb_class_startstop. intros H. constructor; [lia | constructor].
  - intros H. apply andb_true_iff in H as [Hx Ht]. constructor; [|apply IH; exact Ht].
    unfold cb_class_body in Hx. lia.
Qed.

Lemma cb_match_at_ascii s : cb_match_at s = true -> Forall (fun r => r < 128) s.
Proof.
  destruct s as [|a t]; [constructor|]. cbn [cb_match_at]. intros H.
  apply andb_true_iff in H as [Ha Ht]. constructor; [|apply cb_match_rest_ascii; exact Ht].
  unfold cb_class_startstop in Ha. lia.
Qed.

(* a replacement that starts after the first byte cannot produce "!" *)
Lemma cb_replace_later b0 rest tl :
  Forall (fun p => 1 <= fst p) tl ->
  cb_replace (b0 :: rest) tl = [33] -> b0 :: rest = [33].
Proof.
  induction 1 as [|[off r] tl Ho _ IH]; [auto|].
  cbn [cb_replace fst] in *. destruct (cb_match_at _); [|exact IH].
  destruct (Z.to_nat off) as [|k] eqn:E; [lia|].
  cbn [firstn app]. intros H. exfalso.
  apply (f_equal (@length Z)) in H. cbn [length] in H. rewrite app_length in H. cbn [length] in H. lia.
Qed.

Lemma representable_ascii s : codabar_representable s = true -> Forall ascii_byte s.
Proof.
  intros H. pose proof H as H2. rewrite <- cb_match_at_spec in H2. apply cb_match_at_ascii in H2.
  apply codabar_representable_iff in H. destruct H as (a & body & b & E & Ha & Hb & Hbody).
  assert (Forall (fun r => 0 <= r) s) as Hpos.
  { subst s. constructor; [unfold codabar_start_stop in Ha; cbn [In] in Ha; lia|].
    apply Forall_app. split.
    - eapply Forall_impl; [|exact Hbody]. intros c Hc. unfold codabar_data_chars in Hc. cbn [In] in Hc. lia.
    - constructor; [unfold codabar_start_stop in Hb; cbn [In] in Hb; lia | constructor]. }
  apply Forall_forall. intros c Hc. rewrite Forall_forall in H2, Hpos.
  apply ascii_byte_range. specialize (H2 c Hc). specialize (Hpos c Hc). lia.
Qed.

(* the regexp + ReplaceAllString trick accepts exactly the Codabar language *)
Lemma cb_valid_representable s : cb_valid s = codabar_representable s.
Proof.
  destruct (codabar_representable s) eqn:R.
  - (* representable: pure ASCII, the match starts at offset 0 *)
    pose proof (representable_ascii s R) as Ha.
    unfold cb_valid. rewrite utf8_range_ascii by exact Ha.
    destruct s as [|a t]; [discriminate|]. cbn [enum_from cb_replace].
    change (map snd ((0, a) :: enum_from (0 + 1) t)) with (a :: map snd (enum_from (0 + 1) t)).
    rewrite enum_from_snd, cb_match_at_spec, R.
    cbn [Z.to_nat firstn app]. rewrite bytes_eqb_refl.
    destruct t as [|x t]; [discriminate|]. cbn [bytes_eqb]. rewrite andb_false_r. reflexivity.
  - (* accepted by the model => representable *)
    destruct (cb_valid s) eqn:V; [|reflexivity]. exfalso.
    unfold cb_valid in V. apply negb_true_iff, orb_false_iff in V as [V1 V2].
    apply negb_false_iff, bytes_eqb_eq in V2.
    destruct s as [|b0 rest]; [discriminate|].
    destruct (utf8_range_cons b0 rest) as (r & tl & E & Htl). rewrite E in V2.
    cbn [cb_replace] in V2.
    destruct (cb_match_at (map snd ((0, r) :: tl))) eqn:M.
    + rewrite <- E in M. pose proof (cb_match_at_ascii _ M) as Hlt.
      assert (Forall (fun p => snd p < 128) (utf8_range (b0 :: rest))) as Hlt2.
      { apply Forall_forall. intros p Hp. rewrite Forall_forall in Hlt. apply Hlt. apply in_map. exact Hp. }
      destruct (utf8_range_lt128 _ Hlt2) as [_ E2]. rewrite E2, enum_from_snd in M.
      rewrite cb_match_at_spec in M. congruence.
    + apply cb_replace_later in V2; [|exact Htl]. rewrite V2 in V1. discriminate.
Qed.

(* ---------- symbols ---------- *)
Definition cb_alphabet : list Z := map fst codabar_table.

Definition cb_elems (c : Z) : list bool :=
  match assoc_flags codabar_table c with Some es => es | None => [] end.

(* element widths of one character *)
Definition cw (c : Z) : list nat := map codabar_width (cb_elems c).

Ltac alphabet_cases H :=
  unfold cb_alphabet in H; cbn [map fst codabar_table In] in H;
  repeat (destruct H as [H|H]; [subst|]); [..|contradiction].

Lemma cb_lookup_alpha c : In c cb_alphabet -> cb_lookup c = draw_alt true (cw c).
Proof. intros H. alphabet_cases H; reflexivity. Qed.

Lemma cw_shape c : In c cb_alphabet ->
  length (cw c) = 7%nat /\ Forall (fun w => (0 < w)%nat) (cw c).
Proof. intros H. alphabet_cases H; (split; [reflexivity | repeat constructor]). Qed.

(* reading one character: seven runs, then the end or a narrow space and the rest *)
Lemma codabar_step c rest : In c cb_alphabet ->
  codabar_decode_runs (alt true (cw c) ++ rest) =
  match rest with
  | [] => Some [c]
  | gap :: rest' =>
    if run_eqb gap (false, codabar_gap) then
      match codabar_decode_runs rest' with
      | Some t => Some (c :: t)
      | None => None
      end
    else None
  end.
Proof. intros H. alphabet_cases H; destruct rest; reflexivity. Qed.

(* element widths of a whole text: characters separated by the narrow gap *)
Fixpoint cb_text_widths (c : Z) (t : list Z) : list nat :=
  match t with
  | [] => cw c
  | c' :: t' => cw c ++ codabar_gap :: cb_text_widths c' t'
  end.

Lemma cb_text_widths_pos t : forall c, Forall (fun x => In x cb_alphabet) (c :: t) ->
  Forall (fun w => (0 < w)%nat) (cb_text_widths c t).
Proof.
  induction t as [|c' t IH]; intros c H; inversion H as [|? ? Hc Ht]; subst.
  - apply cw_shape; exact Hc.
  - cbn [cb_text_widths]. apply Forall_app. split; [apply cw_shape; exact Hc|].
    constructor; [unfold codabar_gap; lia | apply IH; exact Ht].
Qed.

Lemma cb_flip c : In c cb_alphabet -> flip_if_odd (cw c) true = false.
Proof. intros H. unfold flip_if_odd. destruct (cw_shape c H) as [-> _]. reflexivity. Qed.

Lemma cb_bits_later t : forall off, 1 <= off ->
  cb_bits (enum_from off t) = flat_map (fun x => false :: cb_lookup x) t.
Proof.
  induction t as [|x t IH]; intros off Ho; [reflexivity|].
  cbn [enum_from cb_bits flat_map]. replace (off >? 0) with true by lia.
  rewrite IH by lia. reflexivity.
Qed.

Lemma cb_text_modules t : forall c, Forall (fun x => In x cb_alphabet) (c :: t) ->
  cb_lookup c ++ flat_map (fun x => false :: cb_lookup x) t = draw_alt true (cb_text_widths c t).
Proof.
  induction t as [|c' t IH]; intros c H; inversion H as [|? ? Hc Ht]; subst.
  - cbn [flat_map cb_text_widths]. rewrite app_nil_r. apply cb_lookup_alpha; exact Hc.
  - cbn [flat_map cb_text_widths]. rewrite draw_alt_app, cb_flip by exact Hc.
    cbn [draw_alt negb]. unfold codabar_gap. cbn [repeat app].
    rewrite <- IH by exact Ht. rewrite cb_lookup_alpha by exact Hc. reflexivity.
Qed.

Lemma cb_text_decodes t : forall c, Forall (fun x => In x cb_alphabet) (c :: t) ->
  codabar_decode_runs (alt true (cb_text_widths c t)) = Some (c :: t).
Proof.
  induction t as [|c' t IH]; intros c H; inversion H as [|? ? Hc Ht]; subst.
  - cbn [cb_text_widths]. rewrite <- (app_nil_r (alt true (cw c))).
    rewrite codabar_step by exact Hc. reflexivity.
  - cbn [cb_text_widths]. rewrite alt_app, cb_flip by exact Hc. cbn [alt negb].
    rewrite codabar_step by exact Hc. rewrite run_eqb_refl, IH by exact Ht. reflexivity.
Qed.

Lemma language_alphabet s : codabar_language s -> Forall (fun x => In x cb_alphabet) s.
Proof.
  intros (a & body & b & -> & Ha & Hb & Hbody).
  assert (forall x, In x codabar_start_stop -> In x cb_alphabet) as SS.
  { intros x Hx. unfold codabar_start_stop in Hx. cbn [In] in Hx. unfold cb_alphabet. cbn [map fst codabar_table In]. lia. }
  assert (forall x, In x codabar_data_chars -> In x cb_alphabet) as DD.
  { intros x Hx. unfold codabar_data_chars in Hx. cbn [In] in Hx. unfold cb_alphabet. cbn [map fst codabar_table In]. lia. }
  constructor; [auto|]. apply Forall_app. split.
  - eapply Forall_impl; [|exact Hbody]. auto.
  - constructor; [auto | constructor].
Qed.

(* ---------- main lemmas ---------- *)
Lemma codabar_accept s : codabar_representable s = true ->
  exists bits, codabar_encode s = Ok (mk1d KCodabar s None bits)
    /\ codabar_decode bits = Some s.
Proof.
  intros R. unfold codabar_encode. rewrite cb_valid_representable, R.
  eexists. split; [reflexivity|].
  pose proof (representable_ascii s R) as Ha.
  pose proof (language_alphabet s (proj1 (codabar_representable_iff s) R)) as Hal.
  rewrite utf8_range_ascii by exact Ha.
  destruct s as [|c t]; [discriminate|].
  cbn [enum_from cb_bits]. change (0 >? 0) with false. cbn [app].
  rewrite cb_bits_later by lia. rewrite cb_text_modules by exact Hal.
  unfold codabar_decode. rewrite runs_draw_alt by (apply cb_text_widths_pos; exact Hal).
  rewrite cb_text_decodes by exact Hal. rewrite R. reflexivity.
Qed.

Lemma codabar_reject s : codabar_representable s = false -> codabar_encode s = Err.
Proof. intros R. unfold codabar_encode. rewrite cb_valid_representable, R. reflexivity. Qed.

Lemma codabar_sound s bc : codabar_encode s = Ok bc ->
  codabar_language s
  /\ bc_kind bc = KCodabar /\ bc_content bc = s /\ bc_checksum bc = None /\ bc_height bc = 1
  /\ exists bits, bc_rows bc = [bits] /\ bc_width bc = zlength bits
       /\ codabar_decode bits = Some s.
Proof.
  intros H. destruct (codabar_representable s) eqn:R.
  - destruct (codabar_accept s R) as (bits & E & D). rewrite E in H. inversion H; subst bc.
    split; [apply codabar_representable_iff; exact R|].
    cbn [mk1d bc_kind bc_content bc_checksum bc_height bc_rows bc_width].
    repeat split. exists bits. auto.
  - rewrite (codabar_reject s R) in H. discriminate.
Qed.

Lemma codabar_complete s : codabar_language s -> exists bc, codabar_encode s = Ok bc.
Proof.
  intros L. apply codabar_representable_iff in L.
  destruct (codabar_accept s L) as (bits & E & _). eexists; exact E.
Qed.

Lemma codabar_rejects_rest s : ~ codabar_language s -> codabar_encode s = Err.
Proof.
  intros L. apply codabar_reject. destruct (codabar_representable s) eqn:R; [|reflexivity].
  exfalso. apply L. apply codabar_representable_iff. exact R.
Qed.

(* non-vacuity: "A40156B" and "C:/.+$-D" are in the language, "ABA" is not *)
Lemma codabar_example : codabar_language [65; 52; 48; 49; 53; 54; 66].
Proof. apply codabar_representable_iff. reflexivity. Qed.
Lemma codabar_example_not : ~ codabar_language [65; 66; 65].
Proof. intros H. apply codabar_representable_iff in H. discriminate. Qed.

Lemma cb_valid_language s : cb_valid s = true <->
  exists a body b, s = a :: body ++ [b]
    /\ In a codabar_start_stop /\ In b codabar_start_stop
    /\ Forall (fun c => In c codabar_data_chars) body.
Proof. rewrite cb_valid_representable. apply codabar_representable_iff. Qed.
