(* C10 for PDF417.  The column count is an oracle (the aspect-ratio heuristic of
   calcDimensions is not modelled): the statements hold for EVERY oracle. *)
From Verif Require Import Prelude Barcode TabPdf417 Pdf417M Pdf417Spec Pdf417Props ReprSpec C10P.

Lemma pdf_exact data level : pdf_bytes data -> 0 <= level <= 255 ->
  (* not representable: an error, whatever the column heuristic answers *)
  (pdf_representable_b data level = false -> forall oracle, pdf_encode data level oracle = Err)
  (* representable: a legal column count exists, and with any legal one a barcode is returned *)
  /\ (pdf_representable_b data level = true ->
        exists dw, pdf_highlevel data = Ok dw
        /\ (exists c, pdf_shape_ok (zlength dw) (pdf_ec_count level) c = true)
        /\ forall oracle, pdf_shape_ok (zlength dw) (pdf_ec_count level) oracle = true ->
             exists bc, pdf_encode data level oracle = Ok bc)
  (* and never a panic or non-termination *)
  /\ (forall oracle, pdf_encode data level oracle <> Panic /\ pdf_encode data level oracle <> OutOfFuel).
Proof.
  intros Hb Hl. unfold pdf_representable_b.
  split; [|split].
  - intros Hr oracle. destruct (pdf_c10 data level oracle Hb Hl) as (_ & _ & dw & Ehl & Hok & Herr & Hfit).
    rewrite Ehl in Hr. apply Herr. intros [H8 Hs].
    destruct (Hfit H8) as [Hex _]. assert (Hle : zlength dw + 1 + pdf_ec_count level <= pdf_max_rows * pdf_max_cols)
      by (apply Hex; eauto).
    apply andb_false_iff in Hr. destruct Hr as [Hr|Hr]; lia.
  - intros Hr. destruct (pdf_c10 data level 0 Hb Hl) as (_ & _ & dw & Ehl & _ & _ & Hfit).
    rewrite Ehl in Hr. apply andb_true_iff in Hr. destruct Hr as [H8 Hle].
    exists dw. split; [exact Ehl|]. split.
    + apply (Hfit ltac:(lia)). lia.
    + intros oracle Hs. destruct (pdf_c10 data level oracle Hb Hl) as (_ & _ & dw' & Ehl' & Hok & _).
      assert (dw' = dw) by congruence. subst dw'. apply Hok. split; [lia|exact Hs].
  - intros oracle. destruct (pdf_c10 data level oracle Hb Hl) as (N1 & N2 & _). split; assumption.
Qed.
