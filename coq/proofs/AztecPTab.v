(* C03 layer 1 -- tables (finite, by computation): the tables the Go source
   builds (gen/TabAztec.v) agree with the ISO/IEC 24778 tables of the
   specification. *)
From Verif Require Import Prelude BitListM GFM TabAztec AztecM AztecSpec AztecPBase.

(* strict run of the specification decoder: every bit is consumed and the bits
   end exactly at an item boundary *)
Fixpoint sp_run (fuel : nat) (m : smode) (bits : list bool) : option (list Z * smode) :=
  match bits with
  | [] => Some ([], m)
  | _ =>
    match fuel with
    | O => None
    | S f =>
      match sp_step m bits with
      | SEmit out m' rest =>
        match sp_run f m' rest with
        | Some (o, mf) => Some (out ++ o, mf)
        | None => None
        end
      | _ => None
      end
    end
  end.

(* the bits of a latch table entry: bitcount<<16 | bits *)
Definition az_entry_bits (latch : Z) : list bool :=
  msb_bits (Z.to_nat (Z.shiftr latch 16 mod 256)) (Z.land latch 65535).

Definition az_latch_bits (a b : Z) : list bool :=
  if b =? a then [] else az_entry_bits (az_latch a b).

Definition smode_eqb (a b : smode) : bool :=
  match a, b with
  | SUpper, SUpper | SLower, SLower | SMixed, SMixed | SPunct, SPunct | SDigit, SDigit => true
  | _, _ => false
  end.

Lemma smode_eqb_eq a b : smode_eqb a b = true -> a = b.
Proof. destruct a, b; simpl; congruence. Qed.

Fixpoint zlist_eqb (a b : list Z) : bool :=
  match a, b with
  | [], [] => true
  | x :: a', y :: b' => (x =? y) && zlist_eqb a' b'
  | _, _ => false
  end.

Lemma zlist_eqb_eq : forall a b, zlist_eqb a b = true -> a = b.
Proof.
  induction a as [|x a IH]; intros [|y b] H; simpl in H; try discriminate; auto.
  apply andb_true_iff in H. destruct H as [H1 H2]. f_equal; [lia | auto].
Qed.

Definition run_is (r : option (list Z * smode)) (out : list Z) (m : smode) : bool :=
  match r with
  | Some (o, m') => zlist_eqb o out && smode_eqb m' m
  | None => false
  end.

Lemma run_is_eq r out m : run_is r out m = true -> r = Some (out, m).
Proof.
  destruct r as [[o m']|]; simpl; [|discriminate].
  intros H. apply andb_true_iff in H. destruct H as [H1 H2].
  apply zlist_eqb_eq in H1. apply smode_eqb_eq in H2. congruence.
Qed.

Definition all_bytes : list Z := zseq 0 256.

(* ---- charMap ---- *)
(* shape: rows for exactly the modes 0..4, 256 entries each *)
Theorem az_char_map_shape :
  map fst az_char_map = all_modes /\ Forall (fun e => length (snd e) = 256%nat) az_char_map.
Proof. split; [reflexivity | repeat constructor]. Qed.

(* the table az_cm is the generated charMap *)
Theorem az_cm_is_char_map : forall m ch row, 0 <= ch < 256 ->
  In (m, row) az_char_map -> az_cm m ch = nth (Z.to_nat ch) row 0.
Proof.
  assert (H : forallb (fun e : Z * list Z =>
    forallb (fun ch => az_cm (fst e) ch =? nth (Z.to_nat ch) (snd e) 0) all_bytes) az_char_map = true)
    by (vm_compute; reflexivity).
  intros m ch row Hch Hin. rewrite forallb_forall in H. specialize (H _ Hin). cbn [fst snd] in H.
  pose proof (forallb_zseq _ _ _ H ch ltac:(simpl; lia)). lia.
Qed.

(* every charMap entry (mode, byte) -> code decodes in the ISO table to that byte,
   and fits the mode's code width *)
Definition cm_entry_ok (m ch : Z) : bool :=
  let v := az_cm m ch in
  if v >? 0 then
    match nth_error (sp_tbl (mode_of m)) (Z.to_nat v) with
    | Some (Ch c) => (c =? ch) && (v <? 2 ^ az_bitcount m)
    | _ => false
    end
  else v =? 0.

Theorem az_char_map_iso : forall m ch, 0 <= m <= 4 -> 0 <= ch < 256 ->
  cm_entry_ok m ch = true.
Proof.
  assert (H : forallb (fun m => forallb (cm_entry_ok m) all_bytes) all_modes = true)
    by (vm_compute; reflexivity).
  intros m ch Hm Hch. rewrite forallb_forall in H.
  specialize (H m (in_all_modes m Hm)).
  apply (forallb_zseq _ _ _ H ch). simpl; lia.
Qed.

Theorem az_bitcount_iso : forall m, 0 <= m <= 4 ->
  az_bitcount m = Z.of_nat (sp_width (mode_of m)) /\ nth (Z.to_nat m) az_mode_bits 0 = az_bitcount m.
Proof.
  intros m Hm.
  assert (H : m = 0 \/ m = 1 \/ m = 2 \/ m = 3 \/ m = 4) by lia.
  destruct H as [-> | [-> | [-> | [-> | ->]]]]; split; reflexivity.
Qed.

(* ---- latchTable: each of the 25 entries drives the ISO decoder from mode a to
   mode b and emits nothing; the bit count in the high half-word is the length *)
Definition latch_entry_ok (a b : Z) : bool :=
  let l := az_latch a b in
  (if a =? b then l =? 0 else true)
  && run_is (sp_run 8 (mode_of a) (az_latch_bits a b)) [] (mode_of b)
  && (Z.shiftr l 16 =? zlength (az_latch_bits a b))
  && (0 <=? Z.shiftr l 16) && (Z.shiftr l 16 <=? 14).

Theorem az_latch_table_iso : forall a b, 0 <= a <= 4 -> 0 <= b <= 4 -> latch_entry_ok a b = true.
Proof.
  assert (H : forallb (fun a => forallb (latch_entry_ok a) all_modes) all_modes = true)
    by (vm_compute; reflexivity).
  intros a b Ha Hb. rewrite forallb_forall in H.
  specialize (H a (in_all_modes a Ha)). rewrite forallb_forall in H.
  exact (H b (in_all_modes b Hb)).
Qed.

Theorem az_latch_table_keys :
  map fst az_latch_table = flat_map (fun a => map (fun b => (a, b)) all_modes) all_modes.
Proof. reflexivity. Qed.

(* ---- shiftTable: each entry is the ISO shift code of its source table ---- *)
Definition shift_entry_ok (a b : Z) : bool :=
  match az_shift a b with
  | Some v =>
    match nth_error (sp_tbl (mode_of a)) (Z.to_nat v) with
    | Some (Shift m) => smode_eqb m (mode_of b) && (0 <=? v) && (v <? 2 ^ az_bitcount a)
                        && (az_bitcount b =? 5)
    | _ => false
    end
  | None => true
  end.

Theorem az_shift_table_iso : forall a b, 0 <= a <= 4 -> 0 <= b <= 4 -> shift_entry_ok a b = true.
Proof.
  assert (H : forallb (fun a => forallb (shift_entry_ok a) all_modes) all_modes = true)
    by (vm_compute; reflexivity).
  intros a b Ha Hb. rewrite forallb_forall in H.
  specialize (H a (in_all_modes a Ha)). rewrite forallb_forall in H.
  exact (H b (in_all_modes b Hb)).
Qed.

(* every mode except Punct can shift to Punct *)
Theorem az_shift_to_punct : forall a, 0 <= a <= 3 -> az_is_some (az_shift a 4) = true.
Proof.
  intros a Ha. assert (H : a = 0 \/ a = 1 \/ a = 2 \/ a = 3) by lia.
  destruct H as [-> | [-> | [-> | ->]]]; reflexivity.
Qed.

(* ---- word_size and capacities ---- *)
Theorem az_word_size_iso : forall l, 1 <= l <= 32 ->
  zget az_word_size l = Some (sp_word_size l).
Proof.
  assert (H : forallb (fun l => match zget az_word_size l with
                                | Some w => w =? sp_word_size l | None => false end)
                      (zseq 1 32) = true) by (vm_compute; reflexivity).
  intros l Hl. assert (Hr : 1 <= l < 1 + Z.of_nat 32) by (change (Z.of_nat 32) with 32; lia).
  pose proof (forallb_zseq _ _ _ H l Hr) as H1. cbv beta in H1.
  destruct (zget az_word_size l); [f_equal; lia | discriminate].
Qed.

Theorem az_limits_iso : az_max_nb_bits = 32 /\ az_max_nb_bits_compact = 4.
Proof. split; reflexivity. Qed.

Theorem az_total_bits_iso : forall compact l, az_total_bits l compact = sp_capacity compact l.
Proof. reflexivity. Qed.

(* the five Galois fields are the ISO ones *)
Theorem az_fields_iso :
  az_gf4 = sp_gf4 /\ az_gf6 = sp_gf6 /\ az_gf8 = sp_gf8 /\ az_gf10 = sp_gf10 /\ az_gf12 = sp_gf12.
Proof. repeat split; reflexivity. Qed.

Lemma az_get_gf_iso : forall w, w = 6 \/ w = 8 \/ w = 10 \/ w = 12 -> az_get_gf w = Some (sp_gf w).
Proof. intros w [-> | [-> | [-> | ->]]]; reflexivity. Qed.

Lemma sp_word_size_cases l : sp_word_size l = 6 \/ sp_word_size l = 8 \/ sp_word_size l = 10 \/ sp_word_size l = 12.
Proof. unfold sp_word_size. repeat destruct (_ <=? _); auto. Qed.
