(* PDF417 layer 2c: text compaction.  THE TEXT INVARIANT: after encodeText the
   sub-mode the encoder carries to the next segment is the sub-mode the ISO
   reader is in after reading the emitted codewords (including the pad value 29,
   which in the punctuation sub-mode is a latch to alpha), and the reader gets
   back exactly the characters.  For every string of text characters and every
   starting sub-mode. *)
From Verif Require Import Prelude Barcode TabPdf417 Pdf417M Pdf417Spec Pdf417PTab Pdf417PRow Pdf417PNum.

Local Ltac Zify.zify_post_hook ::= Z.to_euclidean_division_equations.

Definition sub_of (sm : pdf_submode) : pdfs_sub :=
  match sm with SubUpper => TAlpha | SubLower => TLower | SubMixed => TMixed | SubPunct => TPunct end.

Definition val30 (v : Z) : Prop := 0 <= v < 30.

Definition pdfs_sub_eqb (a b : pdfs_sub) : bool :=
  match a, b with
  | TAlpha, TAlpha | TLower, TLower | TMixed, TMixed | TPunct, TPunct => true
  | _, _ => false
  end.

Lemma pdfs_sub_eqb_eq a b : pdfs_sub_eqb a b = true -> a = b.
Proof. destruct a, b; simpl; congruence. Qed.

Fixpoint zlist_eqb (a b : list Z) : bool :=
  match a, b with
  | [], [] => true
  | x :: a', y :: b' => (x =? y) && zlist_eqb a' b'
  | _, _ => false
  end.

Lemma zlist_eqb_eq a : forall b, zlist_eqb a b = true -> a = b.
Proof.
  induction a as [|x a IH]; intros [|y b]; simpl; try congruence.
  intros H. apply andb_prop in H as [H1 H2]. f_equal; [lia | auto].
Qed.

(* ---------- the reader's value machine is compositional ---------- *)
Lemma pdfs_text_vals_app v1 : forall s sh o1 s1 sh1 v2,
  pdfs_text_vals s sh v1 = Some (o1, s1, sh1) ->
  pdfs_text_vals s sh (v1 ++ v2) =
  (dopt (o2, s2, sh2) <- pdfs_text_vals s1 sh1 v2; Some (o1 ++ o2, s2, sh2)).
Proof.
  induction v1 as [|v v1 IH]; intros s sh o1 s1 sh1 v2 H.
  - simpl in H. inversion H; subst. simpl.
    destruct (pdfs_text_vals s1 sh1 v2) as [[[o2 s2] sh2]|]; reflexivity.
  - cbn [app pdfs_text_vals] in *.
    destruct sh as [sx|].
    + destruct (pdfs_text_action sx v); try discriminate.
      destruct (pdfs_text_vals s None v1) as [[[o s'] sh']|] eqn:E; [|discriminate].
      cbn [pdfs_obind] in H. inversion H; subst.
      rewrite (IH _ _ _ _ _ v2 E).
      destruct (pdfs_text_vals s1 sh1 v2) as [[[o2 s2] sh2]|]; reflexivity.
    + destruct (pdfs_text_action s v); try discriminate.
      * destruct (pdfs_text_vals s None v1) as [[[o s'] sh']|] eqn:E; [|discriminate].
        cbn [pdfs_obind] in H. inversion H; subst.
        rewrite (IH _ _ _ _ _ v2 E).
        destruct (pdfs_text_vals s1 sh1 v2) as [[[o2 s2] sh2]|]; reflexivity.
      * apply IH. exact H.
      * apply IH. exact H.
Qed.

(* ---------- one step of the encoder's loop, checked for every case ---------- *)

(* the values emitted for ch in sub-mode sm are base-30 digits, and the reader,
   in the same sub-mode with no shift pending, reads them as: the character ch if
   the encoder advanced, nothing if it latched; and ends in the encoder's new
   sub-mode with no shift pending *)
Definition pdf_step_ok_b (sm : pdf_submode) (ch : Z) (rest : list Z) : bool :=
  let '(sm1, vals, adv) := pdf_text_step sm ch rest in
  forallb (fun v => (0 <=? v) && (v <? 30)) vals &&
  match pdfs_text_vals (sub_of sm) None vals with
  | Some (out, s', None) => pdfs_sub_eqb s' (sub_of sm1) && zlist_eqb out (if adv then [ch] else [])
  | _ => false
  end.

(* the encoder advances after at most two latches *)
Definition pdf_step_adv_b (sm : pdf_submode) (ch : Z) (rest : list Z) : bool :=
  let '(sm1, _, a1) := pdf_text_step sm ch rest in
  a1 || (let '(sm2, _, a2) := pdf_text_step sm1 ch rest in
         a2 || (let '(_, _, a3) := pdf_text_step sm2 ch rest in a3)).

Definition pdf_all_sm : list pdf_submode := [SubUpper; SubLower; SubMixed; SubPunct].

Definition pdf_step_check (sm : pdf_submode) (ch : Z) : bool :=
  pdf_step_ok_b sm ch [] && pdf_step_adv_b sm ch [] &&
  forallb (fun nx => pdf_step_ok_b sm ch [nx] && pdf_step_adv_b sm ch [nx]) pdf_text_chars.

Lemma pdf_step_check_all :
  forallb (fun sm => forallb (pdf_step_check sm) pdf_text_chars) pdf_all_sm = true.
Proof. vm_cast_no_check (eq_refl true). Qed.

Lemma pdf_text_step_head sm ch nx tl : pdf_text_step sm ch (nx :: tl) = pdf_text_step sm ch [nx].
Proof. destruct sm; reflexivity. Qed.

Definition is_textc (c : Z) : Prop := pdf_is_text c = true.

Lemma pdf_step_facts sm ch rest : is_textc ch -> Forall is_textc rest ->
  pdf_step_ok_b sm ch rest = true /\ pdf_step_adv_b sm ch rest = true.
Proof.
  intros Hch Hrest. pose proof pdf_step_check_all as H. rewrite forallb_forall in H.
  assert (In sm pdf_all_sm) as Hsm by (destruct sm; simpl; auto).
  specialize (H sm Hsm). rewrite forallb_forall in H.
  specialize (H ch (pdf_is_text_In ch Hch)). unfold pdf_step_check in H.
  apply andb_prop in H as [H H3]. apply andb_prop in H as [H1 H2].
  destruct rest as [|nx tl]; [split; assumption|].
  inversion Hrest as [|? ? Hnx _]; subst.
  rewrite forallb_forall in H3. specialize (H3 nx (pdf_is_text_In nx Hnx)).
  apply andb_prop in H3 as [H4 H5].
  unfold pdf_step_ok_b, pdf_step_adv_b in *. rewrite pdf_text_step_head. split; assumption.
Qed.

Lemma pdf_text_values_S f ch rest sm :
  pdf_text_values (S f) (ch :: rest) sm =
  (let '(sm1, vals, adv) := pdf_text_step sm ch rest in
   do (sm', t) <- pdf_text_values f (if adv then rest else ch :: rest) sm1; Ok (sm', vals ++ t)).
Proof. reflexivity. Qed.

(* ---------- the loop: fuel suffices ---------- *)
Lemma pdf_text_values_ok text : forall sm fuel,
  Forall is_textc text -> (3 * length text <= fuel)%nat ->
  exists sm1 tmp, pdf_text_values fuel text sm = Ok (sm1, tmp).
Proof.
  induction text as [|ch rest IH]; intros sm fuel Ht Hf.
  - exists sm, []. destruct fuel; reflexivity.
  - inversion Ht as [|? ? Hch Hrest]; subst.
    simpl length in Hf.
    destruct fuel as [|[|[|f]]]; try lia.
    assert (forall sm0 g, (3 * length rest <= g)%nat ->
            exists sm1 tmp, pdf_text_values g rest sm0 = Ok (sm1, tmp)) as IH' by (intros; apply IH; auto).
    destruct (pdf_step_facts sm ch rest Hch Hrest) as [_ Hadv].
    unfold pdf_step_adv_b in Hadv.
    rewrite pdf_text_values_S.
    destruct (pdf_text_step sm ch rest) as [[sm1 v1] a1] eqn:E1.
    destruct a1.
    { destruct (IH' sm1 (S (S f)) ltac:(lia)) as (smx & t & Et). rewrite Et. cbn [obind]. eauto. }
    cbn [orb] in Hadv. rewrite pdf_text_values_S.
    destruct (pdf_text_step sm1 ch rest) as [[sm2 v2] a2] eqn:E2.
    destruct a2.
    { destruct (IH' sm2 (S f) ltac:(lia)) as (smx & t & Et). rewrite Et. cbn [obind]. eauto. }
    cbn [orb] in Hadv. rewrite pdf_text_values_S.
    destruct (pdf_text_step sm2 ch rest) as [[sm3 v3] a3] eqn:E3.
    subst a3.
    destruct (IH' sm3 f ltac:(lia)) as (smx & t & Et). rewrite Et. cbn [obind]. eauto.
Qed.

(* ---------- the loop: what the reader makes of tmp ---------- *)
Lemma pdf_text_values_decode fuel : forall text sm sm1 tmp,
  Forall is_textc text -> pdf_text_values fuel text sm = Ok (sm1, tmp) ->
  Forall val30 tmp /\
  forall tail, pdfs_text_vals (sub_of sm) None (tmp ++ tail) =
    (dopt (out, s', sh') <- pdfs_text_vals (sub_of sm1) None tail; Some (text ++ out, s', sh')).
Proof.
  induction fuel as [|f IH]; intros text sm sm1 tmp Ht H.
  - destruct text; simpl in H; [|discriminate]. inversion H; subst. split; [constructor|].
    intros tail. simpl.
    destruct (pdfs_text_vals (sub_of sm1) None tail) as [[[o s] sh]|]; reflexivity.
  - destruct text as [|ch rest].
    { simpl in H. inversion H; subst. split; [constructor|]. intros tail. simpl.
      destruct (pdfs_text_vals (sub_of sm1) None tail) as [[[o s] sh]|]; reflexivity. }
    inversion Ht as [|? ? Hch Hrest]; subst.
    destruct (pdf_step_facts sm ch rest Hch Hrest) as [Hok _].
    unfold pdf_step_ok_b in Hok. rewrite pdf_text_values_S in H.
    destruct (pdf_text_step sm ch rest) as [[smx vals] adv] eqn:E.
    apply andb_prop in Hok as [Hr Hd].
    destruct (pdfs_text_vals (sub_of sm) None vals) as [[[o s'] [shx|]]|] eqn:Ev; try discriminate.
    apply andb_prop in Hd as [Hs Ho].
    apply pdfs_sub_eqb_eq in Hs. apply zlist_eqb_eq in Ho. subst s' o.
    destruct (pdf_text_values f (if adv then rest else ch :: rest) smx) as [[smy t]| | |] eqn:Et;
      try discriminate.
    cbn [obind] in H. inversion H; subst sm1 tmp.
    assert (Forall is_textc (if adv then rest else ch :: rest)) as Ht' by (destruct adv; assumption).
    destruct (IH _ _ _ _ Ht' Et) as [Hv Hdec].
    split.
    + apply Forall_app. split; [|exact Hv].
      apply Forall_forall. intros v Hin. rewrite forallb_forall in Hr. specialize (Hr v Hin).
      unfold val30. lia.
    + intros tail. rewrite <- app_assoc.
      rewrite (pdfs_text_vals_app vals _ _ _ _ _ (t ++ tail) Ev).
      rewrite Hdec.
      destruct (pdfs_text_vals (sub_of smy) None tail) as [[[o s] sh]|]; cbn [pdfs_obind]; [|reflexivity].
      destruct adv; reflexivity.
Qed.

(* ---------- pairing ---------- *)
Lemma pdf_pair_values_spec tmp :
  (Forall val30 tmp ->
   Forall cw900 (fst (pdf_pair_values tmp)) /\
   pdfs_unpair (fst (pdf_pair_values tmp)) = tmp ++ (if snd (pdf_pair_values tmp) then [29] else [])) /\
  (forall x, Forall val30 (x :: tmp) ->
   Forall cw900 (fst (pdf_pair_values (x :: tmp))) /\
   pdfs_unpair (fst (pdf_pair_values (x :: tmp))) =
     (x :: tmp) ++ (if snd (pdf_pair_values (x :: tmp)) then [29] else [])).
Proof.
  induction tmp as [|y tmp [IH1 IH2]].
  - split; [intros _; simpl; split; [constructor | reflexivity]|].
    intros x Hx. inversion Hx as [|? ? Hx' _]; subst. unfold val30 in Hx'.
    cbn [pdf_pair_values fst snd pdfs_unpair flat_map app].
    split; [constructor; [unfold cw900; lia | constructor]|].
    f_equal; [lia | f_equal; lia].
  - split; [exact (IH2 y)|].
    intros x Hx. inversion Hx as [|? ? Hx' Hy]; subst. inversion Hy as [|? ? Hy' Ht]; subst.
    unfold val30 in Hx', Hy'.
    destruct (IH1 Ht) as [C U].
    cbn [pdf_pair_values]. destruct (pdf_pair_values tmp) as [r odd] eqn:Ep.
    cbn [fst snd] in *. split.
    + constructor; [unfold cw900; lia | exact C].
    + cbn [pdfs_unpair flat_map app]. fold (pdfs_unpair r). rewrite U.
      f_equal; [lia | f_equal; lia].
Qed.

(* ---------- encodeText ---------- *)

(* For every string of text characters and every starting sub-mode: encodeText
   succeeds, its codewords are data codewords, and the ISO reader started in the
   same sub-mode reads back exactly the string and finishes in the sub-mode the
   encoder returns. *)
Theorem pdf_encode_text_roundtrip text sm : Forall is_textc text ->
  exists sm2 cws, pdf_encode_text text sm = Ok (sm2, cws) /\ Forall cw900 cws /\
    pdfs_text_run (sub_of sm) cws = Some (text, sub_of sm2).
Proof.
  intros Ht. unfold pdf_encode_text.
  destruct (pdf_text_values_ok text sm (3 * length text) Ht (le_n _)) as (sm1 & tmp & E).
  rewrite E. cbn [obind].
  destruct (pdf_text_values_decode _ _ _ _ _ Ht E) as [Hv Hdec].
  destruct (pdf_pair_values_spec tmp) as [[C U] _]; [exact Hv|].
  destruct (pdf_pair_values tmp) as [result odd] eqn:Ep. cbn [fst snd] in C, U.
  eexists _, _. split; [reflexivity|]. split; [exact C|].
  unfold pdfs_text_run. rewrite U, Hdec.
  destruct odd.
  - (* pad 29: ps in alpha/lower/mixed (ignored at the end of the run), al in punctuation *)
    destruct sm1; cbn; rewrite app_nil_r; reflexivity.
  - cbn. rewrite app_nil_r. reflexivity.
Qed.
